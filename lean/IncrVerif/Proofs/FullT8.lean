import IncrVerif.Proofs.FullT4
/-!
# C04 combined fragment: bisimulation of the notification walk, part 1 (twin of `FullH9`)
(`tick`, `bumpCounter`, `shouldCutoff`, `childChanged`, `parentIterCanRecomputeNow`)

The one place where the actual engine does MORE than the virtual one: `child_changed` on a valid `map_ref` parent re-projects, raises the flag and walks on through the
recorded parents of the parent.  `childChanged_returns`: it returns — given `PInv` (indices increase along the chain), the changed node READS a value, and `MRPV`:
the recorded parents of a valid `map_ref` node are valid (the virtual run never looks at them).
-/
namespace IncrVerif.Proofs.FullT
set_option linter.unusedSectionVars false
open IncrVerif.Engine IncrVerif.Proofs IncrVerif.Proofs.Step IncrVerif.Proofs.Sched IncrVerif.Proofs.Quiet IncrVerif.Proofs.FullH

section
variable {K : Kind → Prop} {P : State → Prop} [Keeps P] {g : Nat → Option Val} {sp : Nat → Val → Val}

theorem BSim.tick : BSim K P g Engine.tick Engine.tick := by
  intro s; unfold Engine.tick; bsim
  split <;> bsim
macro_rules | `(tactic| bsim_leaf) => `(tactic| with_reducible exact BSim.tick)

theorem BSim.bumpCounter (f : Counters → Counters) : BSim K P g (Engine.bumpCounter f) (Engine.bumpCounter f) := by
  intro s; unfold Engine.bumpCounter; bsim
macro_rules | `(tactic| bsim_leaf) => `(tactic| with_reducible exact BSim.bumpCounter _)

/-- the cutoff test of an EXACT node (its actual cutoff is the virtual one) -/
theorem BSimAt.shouldCutoff (env : Env) (n : Nat) (o v : Val) {s : State}
    (hc : (s.nodeD n).cutoff = virtCut (s.nodeD n).kind (s.nodeD n).cutoff) :
    BSimAt K P g s (Engine.shouldCutoff env n o v) (Engine.shouldCutoff (virtEnv env sp) n o v) := by
  unfold Engine.shouldCutoff; simp only [virtEnv_cutoff]
  refine BSimAt.getNode_seq fun nd hnd hne => ?_
  fnorm
  rw [nodeD_of_some hnd] at hc
  rw [← hc]
  split <;> bsim

/-- (local copy: `L8` has the same lemma as `BSim.rchMinHeight`; this file imports `T4` only) -/
theorem BSim.rchMinHeight9 : BSim K P g Engine.rchMinHeight Engine.rchMinHeight := by
  intro s; unfold Engine.rchMinHeight; bsim
  all_goals exact BSimAt.ret _
macro_rules | `(tactic| bsim_leaf) => `(tactic| with_reducible exact BSim.rchMinHeight9)

theorem BSim.parentIterCanRecomputeNow (p child : Nat) :
    BSim K P g (Engine.parentIterCanRecomputeNow p child) (Engine.parentIterCanRecomputeNow p child) := by
  intro s; unfold Engine.parentIterCanRecomputeNow; bsim
  bsim_kind
  all_goals try rw [if_neg (by simp)]
  all_goals bsim
  all_goals exact BSimAt.ret _
macro_rules | `(tactic| bsim_leaf) => `(tactic| with_reducible exact BSim.parentIterCanRecomputeNow _ _)

end

/-! ## what benign updates and the notification walk keep -/

/-- the recorded parents of a valid `map_ref` node are valid (the actual `child_changed` walks through them, the virtual one never looks at them) -/
def MRPV (s : State) : Prop :=
  ∀ c pr j p i, (s.nodeD c).kind = .mapRef pr j → (s.nodeD c).valid = true → (p, i) ∈ (s.nodeD c).parents → (s.nodeD p).valid = true

/-- `MRPV` from the graph invariant of the virtual state: recorded parents are necessary, necessary nodes are valid -/
theorem mrpv_of_bgraph {env' : Env} {g : Nat → Option Val} {s : State} (G : BindH.BGraph env' (virt g s)) : MRPV s := by
  intro c pr j p i _ _ hm
  have h1 : (p, i) ∈ ((virt g s).nodeD c).parents := by rw [virt_nodeD, virtNode_parents]; exact hm
  have h2 := (G.nec p (G.parent c p i h1).1).1
  rwa [virt_nodeD, virtNode_valid] at h2

/-- same size, same kind / validity / stored value everywhere, parent lists may shrink -/
structure SubSt (s s' : State) : Prop where
  size : s'.nodes.size = s.nodes.size
  core : ∀ m, valueCore (s'.nodeD m) = valueCore (s.nodeD m)
  par : ∀ m x, x ∈ (s'.nodeD m).parents → x ∈ (s.nodeD m).parents

theorem SubSt.kind {s s' : State} (h : SubSt s s') (m : Nat) : (s'.nodeD m).kind = (s.nodeD m).kind := by
  have := congrArg Prod.fst (h.core m); simpa [valueCore] using this

theorem SubSt.valid {s s' : State} (h : SubSt s s') (m : Nat) : (s'.nodeD m).valid = (s.nodeD m).valid := by
  have := congrArg (fun x => x.2.1) (h.core m); simpa [valueCore] using this

theorem SubSt.value {s s' : State} (h : SubSt s s') (env : Env) (m : Nat) : s'.value env m = s.value env m :=
  value_congr env s s' h.size h.core m

theorem SubSt.of_quiet {s s' : State} (q : Step.Quiet s s') : SubSt s s' :=
  ⟨q.size, fun m => by simp only [valueCore, (q.node m).kind, (q.node m).valid, (q.node m).value],
    fun m x hx => by rw [(q.node m).parents] at hx; exact hx⟩

theorem SubSt.pinv {s s' : State} (h : SubSt s s') (hp : PInv s) : PInv s' := hp.of_nodeD h.size h.kind h.par

theorem SubSt.mrpv {s s' : State} (h : SubSt s s') (hm : MRPV s) : MRPV s' := by
  intro c pr j p i hk hv hx
  rw [h.valid]
  exact hm c pr j p i (by rw [← h.kind]; exact hk) (by rw [← h.valid]; exact hv) (h.par c _ hx)

/-- a predicate kept along `SubSt` can be carried by the bisimulation -/
theorem keeps_of_sub {P : State → Prop} (h : ∀ s s', P s → SubSt s s' → P s') : Keeps P where
  of_nodes := fun {s s'} hp e _ => h s s' hp
    ⟨by rw [e], fun m => by simp [State.nodeD, e], fun m x hx => by simpa [State.nodeD, e] using hx⟩
  modify := fun {s} n f hp hk => h s _ hp
    ⟨by simp, fun m => by
        rw [nodeD_modify]; split
        · simp only [valueCore, (hk _).1, (hk _).2.1, (hk _).2.2.2.2.1]
        · rfl,
      fun m x hx => by
        rw [nodeD_modify] at hx; split at hx
        · rw [(hk _).2.2.2.1] at hx; exact hx
        · exact hx⟩
  rmParent := fun {s} c k hp => h s _ hp
    ⟨by simp, fun m => by rw [nodeD_modify]; split <;> rfl,
      fun m x hx => by
        rw [nodeD_modify] at hx; split at hx
        · exact MapRefH.mem_of_mem_swapRemove hx
        · exact hx⟩

/-- a valid map_ref node reads the projection of what its input reads (`FullH.value_mapRef`, from `PInv`) -/
theorem value_mapRef' {env : Env} {s : State} (hp : PInv s) {n p i : Nat} (hv : (s.nodeD n).valid = true)
    (hk : (s.nodeD n).kind = .mapRef p i) : s.value env n = (s.value env i).map (env.proj p) := by
  have hi : i < n := hp.back n p i hk
  have hlt : n < s.nodes.size := by
    by_cases h : n < s.nodes.size
    · exact h
    · rw [nodeD_default_of_ge s n (by omega)] at hk; cases hk
  unfold State.value
  rw [valueWith_succ']
  have hc : valueCore (s.nodeD n) = (.mapRef p i, true, (s.nodeD n).value) := by
    simp [valueCore, hk, hv]
  rw [hc]
  simp only [valueStep']
  congr 1
  exact valueWith_congr_below env.proj s s hp.mapRefsBack i (fun _ _ => rfl) _ _ (by omega) (by omega)

/-! ## `child_changed` returns -/

section
variable {K : Kind → Prop} {g : Nat → Option Val} {sp : Nat → Val → Val}

/-- **`childChanged` returns**: on a valid parent `p` which, if it is a `map_ref` node, has input `c` (which READS a value) and enough fuel for the chain of `map_ref`
nodes above it (indices increase along the chain: at most `size - 1 - p` further `map_ref` nodes, then one node of another kind) -/
theorem childChanged_returns (env : Env) : ∀ (fuel p c ci : Nat) (o : Option Val) (s : State), Fr K g s → PInv s → MRPV s →
    p < s.nodes.size → (s.nodeD p).valid = true → (∀ pr j, (s.nodeD p).kind = .mapRef pr j → j = c) →
    (s.value env c).isSome = true → 0 < fuel → (∀ pr j, (s.nodeD p).kind = .mapRef pr j → s.nodes.size + 1 ≤ fuel + p) →
    ∃ s', (childChanged env fuel p c ci o).run.run s = (.ok (), s') := by
  intro fuel
  induction fuel with
  | zero => intro p c ci o s _ _ _ _ _ _ _ h0; omega
  | succ fuel ih =>
    intro p c ci o s hfr hp hm hlt hval hin hcv _ hf
    suffices T : Tot (childChanged env (fuel + 1) p c ci o) s (fun _ _ => True) by
      obtain ⟨_, s', h, -⟩ := T; exact ⟨s', h⟩
    unfold childChanged
    refine Tot.bind_getNode hlt ?_
    have hk? : (s.nodeD p).kind? = some (s.nodeD p).kind := by simp [Node.kind?, hval]
    rw [hk?]
    cases hkp : (s.nodeD p).kind
    case expert e => exact absurd hkp (hfr.noExp p e)
    case mapRef pr i =>
      dsimp only
      have hci : i = c := hin pr i hkp
      subst hci
      have hfu := hf pr i hkp
      obtain ⟨cv, hcv'⟩ := Option.isSome_iff_exists.1 hcv
      refine Tot.bind_ok (a := cv) (s1 := s) (by rw [run_valueUnwrap, hcv']) ?_
      have hcut : (s.nodeD p).cutoff = .eq ∨ (s.nodeD p).cutoff = .never := by
        have := hfr.cut p; rw [hkp] at this
        rcases this with h | h | ⟨a, b, -, h⟩
        · exact Or.inl h
        · exact Or.inr h
        · cases h
      have hsc : ∀ (a b : Val), ∃ r, (shouldCutoff env p a b).run.run s = (.ok r, s) := by
        intro a b
        unfold shouldCutoff
        rcases hcut with h | h
        · exact ⟨_, by rw [run_bind_ok (run_getNode_some (some_of_lt hlt)), h]; rfl⟩
        · exact ⟨_, by rw [run_bind_ok (run_getNode_some (some_of_lt hlt)), h]; rfl⟩
      suffices tail : ∀ (oo : Option Val) (did : Bool), Tot (do
          modNode p fun x => { x with didChange := x.didChange || did }
          let nd ← getNode p
          forIn nd.parents PUnit.unit fun x _ => do
            childChanged env fuel x.fst p x.snd oo
            pure (ForInStep.yield PUnit.unit)
          pure ()) s (fun _ _ => True) by
        cases o with
        | none =>
          simp only [Option.map_none, pure_bind]
          exact tail _ true
        | some ov =>
          simp only [Option.map_some]
          obtain ⟨r, hr⟩ := hsc (env.proj pr ov) (env.proj pr cv)
          refine Tot.bind_ok hr ?_
          simp only [pure_bind]
          exact tail _ _
      intro oo did
      refine Tot.bind_modNode ?_
      have q1 : Step.Quiet s { s with nodes := s.nodes.modify p fun x => { x with didChange := x.didChange || did } } :=
        Step.Quiet.modNode s p _ (by nodesame)
      have v1 : VEq g s { s with nodes := s.nodes.modify p fun x => { x with didChange := x.didChange || did } } :=
        VEq.modNode s p _ (by fflag)
      have hfr1 := v1.fr hfr
      have u1 := SubSt.of_quiet q1
      -- `p` reads a value
      have hvp : (s.value env p).isSome = true := by
        rw [value_mapRef' hp hval hkp]
        rw [hcv']; rfl
      generalize ({ s with nodes := s.nodes.modify p fun x => { x with didChange := x.didChange || did } } : State)
        = s1 at hfr1 u1
      have hlt1 : p < s1.nodes.size := by rw [u1.size]; exact hlt
      refine Tot.bind_getNode hlt1 ?_
      refine Tot.bind (Q := fun _ _ => True) ?_ (fun _ _ _ _ => Tot.pure trivial)
      have key := forIn_tot (fun (x : Nat × Nat) (r : PUnit) => do
          let _ ← childChanged env fuel x.1 p x.2 oo
          pure (ForInStep.yield PUnit.unit)) (s1.nodeD p).parents
        (fun _ _ t => Fr K g t ∧ SubSt s t ∧ ∀ x ∈ (s1.nodeD p).parents, x ∈ (t.nodeD p).parents) ?_
        (s1.nodeD p).parents 0 PUnit.unit s1 (by simp) (Nat.zero_le _) ⟨hfr1, u1, fun _ h => h⟩
      · obtain ⟨b', s', h, -⟩ := key
        exact ⟨b', s', h, trivial⟩
      · intro j a b t hj ⟨hft, ut, hpt⟩
        have hmem : a ∈ (t.nodeD p).parents := hpt a (List.mem_of_getElem? hj)
        obtain ⟨pp, ci'⟩ := a
        have hpt' := ut.pinv hp
        have hmt := ut.mrpv hm
        have hkt : (t.nodeD p).kind = .mapRef pr i := by rw [ut.kind]; exact hkp
        have hvt : (t.nodeD p).valid = true := by rw [ut.valid]; exact hval
        obtain ⟨h1, h2⟩ := hpt'.pu p pp ci' hmem
        have hsz : t.nodes.size = s.nodes.size := ut.size
        obtain ⟨t', ht'⟩ := ih pp p ci' oo t hft hpt' hmt h1 (hmt p pr i pp ci' hkt hvt hmem) h2
          (by rw [ut.value]; exact hvp) (by omega)
          (fun pr' j' hk' => by
            have := h2 pr' j' hk'; subst this
            have := hpt'.back pp pr' j' hk'
            omega)
        have v := childChanged_veq (g := g) hft ht'
        have q := (Step.Pres.childChanged env fuel pp p ci' oo).h _ _ _ ht'
        have u := SubSt.of_quiet q
        refine ⟨PUnit.unit, t', by rw [run_bind_ok ht', run_pure], v.fr hft, ?_, fun x hx => ?_⟩
        · exact ⟨u.size.trans ut.size, fun m => (u.core m).trans (ut.core m), fun m x hx => ut.par m x (u.par m x hx)⟩
        · rw [(q.node p).parents]; exact hpt x hx
    all_goals exact Tot.pure trivial

/-! ## switching the carried invariant -/

/-- the carried invariant may be strengthened (from the facts of the current state) for a part of the program -/
theorem BSimAt.change {P P' : State → Prop} {α : Type} {s : State} {x x' : M α} (h : BSimAt K P' g s x x')
    (h1 : Fr K g s → P s → P' s) (h2 : ∀ s', P' s' → P s') : BSimAt K P g s x x' :=
  ⟨h.1, fun hf hp => ⟨fun r s' hr => h2 s' ((h.2 hf (h1 hf hp)).1 r s' hr), (h.2 hf (h1 hf hp)).2⟩⟩

/-- the carried invariant of a notification walk from the changed node `n` to its parents `l` with fuel `fuel`: `PInv`, `MRPV`, `n` READS a value, `size ≤ fuel`, and
the entries of `l` are sane parent entries of `n` -/
structure WalkInv (env : Env) (fuel n : Nat) (l : List (Nat × Nat)) (s : State) : Prop where
  inv : PInv s
  mr : MRPV s
  val : (s.value env n).isSome = true
  sz : s.nodes.size ≤ fuel
  par : ∀ x ∈ l, x.1 < s.nodes.size ∧ ∀ pr j, (s.nodeD x.1).kind = .mapRef pr j → j = n

theorem WalkInv.of_sub {env : Env} {fuel n : Nat} {l : List (Nat × Nat)} {s s' : State} (h : WalkInv env fuel n l s) (u : SubSt s s') :
    WalkInv env fuel n l s' :=
  ⟨u.pinv h.inv, u.mrpv h.mr, by rw [u.value]; exact h.val, by rw [u.size]; exact h.sz,
    fun x hx => ⟨by rw [u.size]; exact (h.par x hx).1, fun pr j hk => (h.par x hx).2 pr j (by rw [← u.kind]; exact hk)⟩⟩

instance (env : Env) (fuel n : Nat) (l : List (Nat × Nat)) : Keeps (WalkInv env fuel n l) := keeps_of_sub fun _ _ h u => h.of_sub u

/-- the recorded parents of `n` are sane parent entries -/
theorem WalkInv.of_parents {env : Env} {fuel n : Nat} {l : List (Nat × Nat)} {s : State} (h : WalkInv env fuel n l s) :
    WalkInv env fuel n (s.nodeD n).parents s :=
  ⟨h.inv, h.mr, h.val, h.sz, fun x hx => h.inv.pu n x.1 x.2 hx⟩

theorem WalkInv.weaken {env : Env} {fuel n : Nat} {l l' : List (Nat × Nat)} {s : State} (h : WalkInv env fuel n l s) (hl : ∀ x ∈ l', x ∈ l) :
    WalkInv env fuel n l' s :=
  ⟨h.inv, h.mr, h.val, h.sz, fun x hx => h.par x (hl x hx)⟩

/-- the converse for one notification -/
theorem childChanged_conv {env : Env} {fuel p n ci : Nat} {o o' : Option Val} {s : State} (hfr : Fr K g s) (hp : PInv s) (hm : MRPV s)
    (hv : (s.value env n).isSome = true) (hsz : s.nodes.size ≤ fuel)
    (hpar : p < s.nodes.size ∧ ∀ pr j, (s.nodeD p).kind = .mapRef pr j → j = n)
    {r : Unit} {t : State} (hr : (Engine.childChanged (virtEnv env sp) fuel p n ci o').run.run (virt g s) = (.ok r, t)) :
    ∃ s', (Engine.childChanged env fuel p n ci o).run.run s = (.ok r, s') := by
  cases fuel with
  | zero => unfold Engine.childChanged at hr; cases hr
  | succ fuel =>
    obtain ⟨vnd, hvnd, hvalid⟩ := childChanged_ok_parent hr
    have hval : (s.nodeD p).valid = true := by
      have := nodeD_of_some hvnd
      rw [virt_nodeD] at this
      rw [← virtNode_valid (gv := g p), this]; exact hvalid
    exact childChanged_returns env (fuel + 1) p n ci o s hfr hp hm hpar.1 hval hpar.2 hv (Nat.succ_pos _)
      (fun pr j hk => by
        have := hpar.2 pr j hk; subst this
        have := hp.back p pr j hk
        omega)

/-- **`child_changed`, inside a walk**: the parent entry is one of the list the carried invariant speaks about -/
theorem BSimAt.childChanged_pv {env : Env} {fuel n : Nat} {l : List (Nat × Nat)} {x : Nat × Nat} (hx : x ∈ l) (o o' : Option Val) (s : State) :
    BSimAt K (WalkInv env fuel n l) g s (Engine.childChanged env fuel x.1 n x.2 o) (Engine.childChanged (virtEnv env sp) fuel x.1 n x.2 o') := by
  refine BSimAt.mk' (Sim.childChanged env fuel x.1 n x.2 o o' s) (fun _ hp r s' hr => ?_) (fun hfr hp r t hr => ?_)
  · exact hp.of_sub (SubSt.of_quiet ((Step.Pres.childChanged env fuel x.1 n x.2 o).h _ _ _ hr))
  · exact childChanged_conv hfr hp.inv hp.mr hp.val hp.sz (hp.par x hx) hr

/-- **`child_changed`** from the changed node `n` (which READS a value) to a sane parent entry, with `size ≤ fuel` -/
theorem BSimAt.childChanged {env : Env} {fuel p n ci : Nat} {o o' : Option Val} {s : State}
    (hpar : p < s.nodes.size ∧ ∀ pr j, (s.nodeD p).kind = .mapRef pr j → j = n)
    (hv : (s.value env n).isSome = true) (hm : MRPV s) (hsz : s.nodes.size ≤ fuel) :
    BSimAt K PInv g s (Engine.childChanged env fuel p n ci o) (Engine.childChanged (virtEnv env sp) fuel p n ci o') :=
  (BSimAt.childChanged_pv (l := [(p, ci)]) (x := (p, ci)) (List.mem_singleton.2 rfl) o o' s).change
    (fun _ hp => ⟨hp, hm, hv, hsz, fun x hx => by rw [List.mem_singleton.1 hx]; exact hpar⟩) (fun _ h => h.inv)

/-- … for a RECORDED parent entry -/
theorem BSimAt.childChanged_mem {env : Env} {fuel p n ci : Nat} {o o' : Option Val} {s : State}
    (hpar : (p, ci) ∈ (s.nodeD n).parents)
    (hv : (s.value env n).isSome = true) (hm : MRPV s) (hsz : s.nodes.size ≤ fuel) :
    BSimAt K PInv g s (Engine.childChanged env fuel p n ci o) (Engine.childChanged (virtEnv env sp) fuel p n ci o') :=
  (BSimAt.childChanged_pv (l := [(p, ci)]) (x := (p, ci)) (List.mem_singleton.2 rfl) o o' s).change
    (fun _ hp => ⟨hp, hm, hv, hsz, fun x hx => by rw [List.mem_singleton.1 hx]; exact hp.pu n p ci hpar⟩) (fun _ h => h.inv)

end
end IncrVerif.Proofs.FullT
