import IncrVerif.Proofs.TidyH12
/-!
# T2b, part 4: the drain of the fragment static + map_with_old RETURNS

Port of `Sched12` (`recompute_total`, `drainHeap_total`) over the drain invariant `DInvW`, with the measure
`unrun (virt s)` and `Safe (virt s)`.
* a node that is not a map_with_old node: the virtual step has the same outcome as the actual one (`recomputeOne_sim`), and
  the virtual step can only run out of fuel with `fuel = 0` (`Sched.recomputeOne_safe`);
* a map_with_old node: master equation `recomputeOne_mwo_run`; the notification walk `maybeChangeValueManual` from the
  state `mwoX …` has the same outcome as the virtual walk (`Sim.maybeChangeValueManual`), which is safe by `Sched.mcvm_safe`.
-/
namespace IncrVerif.Proofs.TidyH.WT
open IncrVerif.Engine IncrVerif.Proofs IncrVerif.Proofs.Step IncrVerif.Proofs.Sched IncrVerif.Proofs.Quiet
open IncrVerif.Proofs.MapOldH

variable {env : Env} {C : Val → Prop} {sp : Nat → Val → Val} {s : State}

/-- a failing `recomputeOne` on the current node of the drain invariant can only be out of fuel, with `fuel = 0`:
a node that is not a map_with_old node -/
theorem recomputeOneW_safe_static {fuel n : Nat} {s' : State} {e : Panic}
    (D : DInvW env C sp s (some n)) (Sf : Safe (virt s)) (hk : ∀ g i, (s.nodeD n).kind ≠ .mapWithOld g i)
    (h : (recomputeOne env fuel n).run.run s = (.error e, s')) : e = .outOfFuel ∧ fuel = 0 := by
  have F := D.frag
  have I := D.inv
  have gr := I.graph
  obtain ⟨hnv, -⟩ := I.cur n rfl
  obtain ⟨hlt, -, -, -, -⟩ := gr.nec n hnv
  rw [virt_size] at hlt
  have hkids : ∀ a, a ∈ kidsW (s.nodeD n).kind → (s.value env a).isSome = true := by
    intro a ha
    obtain ⟨w, hw⟩ := Inv.kids_some I a ha
    rw [F.value a, hw]; rfl
  have hvar : ∀ c, (s.nodeD n).kind = .var c → ∃ vc, s.vars[c]? = some vc := by
    intro c hc
    exact gr.var n c hnv (by rw [virt_nodeD, virtNode_kind, hc]; rfl)
  obtain ⟨hsim, -⟩ := recomputeOne_sim (sp := sp) F (F.fr D.pinv) hlt hk hvar hkids h
  exact recomputeOne_safe I Sf hsim

/-- … a map_with_old node -/
theorem recomputeOneW_safe_mwo {fuel n g i : Nat} {s' : State} {e : Panic}
    (D : DInvW env C sp s (some n)) (Sf : Safe (virt s)) (hk : (s.nodeD n).kind = .mapWithOld g i)
    (h : (recomputeOne env fuel n).run.run s = (.error e, s')) : e = .outOfFuel ∧ fuel = 0 := by
  have F := D.frag
  have I := D.inv
  have gr := I.graph
  have hi := I.heap
  obtain ⟨hnv, -⟩ := I.cur n rfl
  have hlt := F.lt_of_mwo hk
  have hnn := some_of_lt hlt
  -- the input
  obtain ⟨x, hx⟩ := Inv.kids_some I i (by rw [hk]; simp [kidsW])
  have hxv : s.value env i = some x := by rw [F.value i]; exact hx
  generalize hw : env.withOld g (s.nodeD n).oldState (s.nodeD n).value x = w at *
  obtain ⟨es, hrun⟩ := recomputeOne_mwo_run env fuel n s (s.nodeD n) g i x hnn (F.valid n hlt) hk hxv F.pc
  rw [hw] at hrun
  rw [hrun] at h
  have hXe : setWithOld n w.2.1 w.1 (logged es (started n s)) = mwoX n w.2.1 w.1 es s := rfl
  rw [hXe] at h
  cases hdid : w.2.2 with
  | false => rw [hdid, run_mcvm_false] at h; cases h
  | true =>
    rw [hdid] at h
    -- the state in which the notifications start is in the fragment
    have hX := fun m => mwoX_nodeD n m w.2.1 w.1 es s hlt
    have hXfr : Fr (mwoX n w.2.1 w.1 es s) := by
      have hfr := F.fr D.pinv
      refine ⟨fun m e' => ?_, fun m => ?_, D.pinv, fun m p j => ?_⟩
      · rw [hX]; by_cases hm : m = n
        · rw [if_pos hm]; exact hfr.noExp n e'
        · rw [if_neg hm]; exact hfr.noExp m e'
      · rw [hX]; by_cases hm : m = n
        · rw [if_pos hm]; exact hfr.valid n
        · rw [if_neg hm]; exact hfr.valid m
      · rw [hX]; by_cases hm : m = n
        · rw [if_pos hm]; exact hfr.noRef n p j
        · rw [if_neg hm]; exact hfr.noRef m p j
    obtain ⟨hsim, -⟩ := Sim.maybeChangeValueManual (sp := sp) env fuel n none true true _ hXfr _ s' h
    have hUself : Upd n (virt s) (virt (mwoX n w.2.1 w.1 es s)) :=
      mwoX_upd (virt s) hlt F.pc (fun m => ⟨_, rfl⟩) (fun _ _ => rfl) (virt_size s) rfl rfl rfl
    generalize hWd : virt (mwoX n w.2.1 w.1 es s) = W at hUself hsim
    have hltv : n < (virt s).nodes.size := by rw [virt_size]; exact hlt
    have hltW : n < W.nodes.size := by rw [hUself.size]; exact hltv
    have hUT : Upd n (virt s) (touched n W) := hUself.touched
    have eT : (touched n W).nodeD n = { W.nodeD n with changedAt := W.stabNum } := by
      rw [touched_nodeD, if_pos ⟨rfl, hltW⟩]
    have hparT : ((touched n W).nodeD n).parents = ((virt s).nodeD n).parents := hUT.shape.parents
    refine mcvm_safe hltW (hUT.heap hi) ?_ hsim
    intro p hp
    rw [hparT] at hp
    obtain ⟨hpn, hkid, hanc, -, hne⟩ := gr.parent_facts hp
    obtain ⟨h1, h2, h3, _, h5⟩ := gr.nec p hpn
    have ep : (touched n W).nodeD p = (virt s).nodeD p := hUT.other p hne
    refine ⟨⟨by rw [hUT.size]; exact h1, by rw [ep]; exact h2, by rw [ep]; exact h3,
      by rw [hUT.nec]; exact hpn⟩, by rw [ep]; exact hkid, ?_, by rw [ep]; exact h5, ?_, ?_⟩
    · rw [ep, eT]
      show _ < W.stabNum
      rw [hUself.stabNum]; exact I.fresh n (Or.inr rfl) p hanc
    · rw [ep, hUT.rch]; exact Sf.height p hpn
    · rw [ep]; exact Sf.scope p hpn

/-- **one step is safe**: a `recomputeOne` on the current node of the drain invariant cannot fail an assertion; it can
only run out of fuel, and only with `fuel = 0` -/
theorem recomputeOneW_safe {fuel n : Nat} {s' : State} {e : Panic}
    (D : DInvW env C sp s (some n)) (Sf : Safe (virt s))
    (h : (recomputeOne env fuel n).run.run s = (.error e, s')) : e = .outOfFuel ∧ fuel = 0 := by
  by_cases hk : ∀ g i, (s.nodeD n).kind ≠ .mapWithOld g i
  · exact recomputeOneW_safe_static D Sf hk h
  · have : ∃ g i, (s.nodeD n).kind = .mapWithOld g i := by
      cases hkd : (s.nodeD n).kind <;>
        first | exact ⟨_, _, rfl⟩ | (exfalso; apply hk; intro g i; rw [hkd]; intro h; cases h)
    obtain ⟨g, i, hkk⟩ := this
    exact recomputeOneW_safe_mwo D Sf hkk h

/-- **the chain terminates** -/
theorem recomputeW_total (V : ValOK env C sp) : ∀ (fuel n : Nat) (s : State), DInvW env C sp s (some n) →
    Safe (virt s) → unrun (virt s) + 1 ≤ fuel → ∃ s', (recompute env fuel n).run.run s = (.ok (), s') := by
  intro fuel
  induction fuel with
  | zero => intro n s _ _ h; omega
  | succ fuel ih =>
    intro n s D S hf
    have I := D.inv
    have hnlt := (I.graph.nec n (I.cur n rfl).1).1
    have hpos := unrun_pos hnlt I.cur_not_yet
    unfold recompute
    rw [run_bind]
    rcases h1 : (recomputeOne env fuel n).run.run s with ⟨r | r, s1⟩
    · exfalso
      have := (recomputeOneW_safe D S h1).2
      omega
    · obtain ⟨D1, f1, hn1⟩ := recomputeOneW_inv V D h1
      cases r with
      | none => exact ⟨s1, rfl⟩
      | some p =>
        have hlt := f1.frame.unrun_lt I.stamps hnlt I.cur_not_yet hn1
        exact ih p s1 D1 (S.frame f1.frame) (by omega)

/-- after its `recompute` the current node carries the stamp of the round -/
theorem recomputeW_ran (V : ValOK env C sp) : ∀ (fuel n : Nat) (s s' : State), DInvW env C sp s (some n) →
    (recompute env fuel n).run.run s = (.ok (), s') → ((virt s').nodeD n).recomputedAt = s.stabNum := by
  intro fuel
  cases fuel with
  | zero => intro n s s' _ h; unfold recompute at h; cases h
  | succ fuel =>
    intro n s s' D h
    unfold recompute at h
    obtain ⟨r, s1, h1, h2⟩ := bind_ok_inv h
    obtain ⟨D1, f1, hn1⟩ := recomputeOneW_inv V D h1
    cases r with
    | none => obtain ⟨-, rfl⟩ := pure_ok_inv h2; exact hn1
    | some p =>
      obtain ⟨-, f2⟩ := recomputeW_inv V fuel p s1 s' D1 h2
      have := f2.frame.ran n (by rw [f1.frame.stabNum]; exact hn1)
      rw [f1.frame.stabNum] at this; exact this

/-- `remove_min` under the drain invariant returns, in the actual state -/
theorem rchRemoveMinW_ok (D : DInvW env C sp s none) (S : Safe (virt s)) :
    ∃ r s1, rchRemoveMin.run.run s = (.ok r, s1) ∧ Safe (virt s1) := by
  obtain ⟨r, t1, hr, S1⟩ := rchRemoveMin_safe D.inv S
  obtain ⟨s1, h1, rfl, -⟩ := (Sim.rchRemoveMin s).rev (D.frag.fr D.pinv) hr
  exact ⟨r, s1, h1, S1⟩

/-- **the drain terminates**: with `fuel ≥ unrun (virt s) + 2` a `drainHeap` from a state with the drain invariant and
`Safe` returns -/
theorem drainHeapW_total (V : ValOK env C sp) : ∀ (fuel : Nat) (s : State), DInvW env C sp s none →
    Safe (virt s) → unrun (virt s) + 2 ≤ fuel → ∃ s', (drainHeap env fuel).run.run s = (.ok (), s') := by
  intro fuel
  induction fuel with
  | zero => intro s _ _ h; omega
  | succ fuel ih =>
    intro s D S hf
    obtain ⟨r, s1, hpop, S1⟩ := rchRemoveMinW_ok D S
    unfold drainHeap
    rw [run_bind, hpop]
    cases r with
    | none => exact ⟨s1, rfl⟩
    | some n =>
      obtain ⟨hv, F1, M1, hp1⟩ := popW D hpop
      obtain ⟨I1, f1⟩ := pop_inv D.inv hv
      have D1 : DInvW env C sp s1 (some n) := ⟨F1, I1, M1, hp1⟩
      have hle := f1.unrun_le D.inv.stamps
      obtain ⟨s2, hrec⟩ := recomputeW_total V fuel n s1 D1 S1 (by omega)
      obtain ⟨D2, f2⟩ := recomputeW_inv V fuel n s1 s2 D1 hrec
      have hnlt := (I1.graph.nec n (I1.cur n rfl).1).1
      have hlt := f2.frame.unrun_lt I1.stamps hnlt I1.cur_not_yet (recomputeW_ran V fuel n s1 s2 D1 hrec)
      obtain ⟨s', hd⟩ := ih s2 D2 (S1.frame f2.frame) (by omega)
      refine ⟨s', ?_⟩
      simp only [run_bind, hrec, hd]

/-- **total correctness of the drain** of the fragment static + map_with_old: from the drain invariant and `Safe` of
the virtual state, with `fuel ≥ s.nodes.size + 2`, `drainHeap` returns; the final state satisfies the drain invariant and
has an empty heap -/
theorem drainHeapW_total_inv (V : ValOK env C sp) {fuel : Nat} (D : DInvW env C sp s none) (S : Safe (virt s))
    (hf : s.nodes.size + 2 ≤ fuel) :
    ∃ s', (drainHeap env fuel).run.run s = (.ok (), s') ∧ DInvW env C sp s' none ∧ s'.rch.length = 0 ∧
      DStep env sp s s' := by
  have := unrun_le_size (virt s)
  rw [virt_size] at this
  obtain ⟨s', h⟩ := drainHeapW_total V fuel s D S (by omega)
  obtain ⟨D', he, f⟩ := drainHeapW_inv V fuel s s' D h
  exact ⟨s', h, D', he, f⟩

end IncrVerif.Proofs.TidyH.WT
