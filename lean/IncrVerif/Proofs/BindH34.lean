import IncrVerif.Proofs.BindH33
/-!
# Binds, `relink`, part 4: the state after the first two updates of `relink`; the pure prefix of
`changeChildBindRhs` (through virtual intermediate states); the unforcing tail
-/
namespace IncrVerif.Proofs.BindH
open IncrVerif.Engine IncrVerif.Proofs IncrVerif.Proofs.Step IncrVerif.Proofs.Sched IncrVerif.Proofs.Quiet

namespace BR

/-- the state after `modBind b (rhs := some rhs); modNode n (changedAt := v)` -/
def pre (b n rhs : Nat) (v : Int) (s : State) : State :=
  { s with binds := s.binds.modify b (fun x => { x with rhs := some rhs }),
           nodes := s.nodes.modify n (fun x => { x with changedAt := v }) }

theorem pre_binds_self {b n rhs : Nat} {v : Int} {s : State} {br : BindRec} (hb : s.binds[b]? = some br) :
    (pre b n rhs v s).binds[b]? = some { br with rhs := some rhs } := by
  show (s.binds.modify b _)[b]? = _
  rw [Array.getElem?_modify, if_pos rfl, hb]; rfl

theorem pre_binds_other {b n rhs : Nat} {v : Int} {s : State} {b' : Nat} (h : b' ≠ b) :
    (pre b n rhs v s).binds[b']? = s.binds[b']? := by
  show (s.binds.modify b _)[b']? = _
  rw [Array.getElem?_modify, if_neg (fun e => h e.symm)]

theorem pre_binds_same {b n rhs : Nat} {v : Int} {s : State} {br : BindRec} (hb : s.binds[b]? = some br)
    (hr : br.rhs = some rhs) : (pre b n rhs v s).binds = s.binds := by
  apply Array.ext_getElem?
  intro i
  by_cases e : i = b
  · rw [e, pre_binds_self hb, hb]
    congr 1
    cases br
    simp only at hr
    rw [hr]
  · exact pre_binds_other e

theorem nodeD_modify2 (s : State) (o m : Nat) (f g : Node → Node) :
    ({ s with nodes := (s.nodes.modify o f).modify o g } : State).nodeD m =
      if o = m ∧ m < s.nodes.size then g (f (s.nodeD m)) else s.nodeD m := by
  have h1 := nodeD_modify { s with nodes := s.nodes.modify o f } o m g
  have h2 := nodeD_modify s o m f
  have hsz : (s.nodes.modify o f).size = s.nodes.size := Array.size_modify
  show ({ { s with nodes := s.nodes.modify o f } with
    nodes := ({ s with nodes := s.nodes.modify o f } : State).nodes.modify o g } : State).nodeD m = _
  rw [h1, h2]
  show (if o = m ∧ m < (s.nodes.modify o f).size then _ else _) = _
  rw [hsz]
  split <;> rfl

/-- removing the recorded parent entry number `pi` -/
def fDrop (pi : Nat) : Node → Node := fun x => { x with parents := swapRemove x.parents pi }
/-- setting the force flag -/
def fForce (f : Bool) : Node → Node := fun x => { x with forceNecessary := f }

section
variable {env : Env} {s : State} {ex : Nat → Prop} {b n main rhs : Nat} {br : BindRec}

/-- the stamped state: basic facts -/
theorem stamped_main (hnm : n < main) (v : Int) : (stamped n v s).nodeD main = s.nodeD main := by
  rw [stamped_nodeD, if_neg (fun e => by omega)]

theorem stamped_self (hn : n < s.nodes.size) (v : Int) :
    (stamped n v s).nodeD n = { s.nodeD n with changedAt := v } := by
  rw [stamped_nodeD, if_pos ⟨rfl, hn⟩]

theorem stamped_other {m : Nat} (h : m ≠ n) (v : Int) : (stamped n v s).nodeD m = s.nodeD m := by
  rw [stamped_nodeD, if_neg (fun e => h e.1.symm)]

/-- case `oldRhs = none` -/
theorem pre_inv_none (I : GInvB env s allClosed ex) (hex : ex main)
    (hb : s.binds[b]? = some br) (hr : br.rhs = none) (hm : br.main = main)
    (hkn : (s.nodeD n).kind = .bindLhsChange b) (hkm : (s.nodeD main).kind = .bindMain b n) (hnm : n < main)
    (hms : main < s.nodes.size) (hnecm : s.isNecessary main = true)
    (hrn : rhs < n) (hrk : ∀ b', (s.nodeD rhs).kind ≠ .bindLhsChange b')
    (hrm : (s.nodeD main).recomputedAt < s.stabNum) :
    GInvB env (pre b n rhs s.stabNum s) (upd allClosed main (.linking 1)) ex := by
  have hn : n < s.nodes.size := by omega
  have IA := stamp I hkn hb hm hkm hms hn hex hrm
  have hmA := stamped_main (s := s) hnm s.stabNum
  have hvA : ((stamped n s.stabNum s).nodeD main).valid = true := by rw [hmA]; exact (I.node hms).valid
  have hkA : ((stamped n s.stabNum s).nodeD main).kind = .bindMain b n := by rw [hmA]; exact hkm
  have hchA : (stamped n s.stabNum s).children main = [n] := by
    rw [children_main (br := br) hvA hkA hb, hr]; rfl
  have hnA : (stamped n s.stabNum s).isNecessary main = true := by
    simp only [State.isNecessary, hmA]; exact hnecm
  have IB := open_full IA rfl hnA
  rw [hchA] at IB
  refine setRhs (b := b) (n := n) (rhs := rhs) (br := br) IB (upd_self _ _ _) hb hm hkA hnm (by omega) ?_
    (fun _ => rfl) rfl rfl rfl rfl rfl rfl (pre_binds_self hb) (fun b' e => pre_binds_other e) ?_
  · intro b'; rw [stamped_other (by omega)]; exact hrk b'
  · rw [hmA, stamped_self hn]; exact hrm

/-- case `oldRhs = some rhs`: the record does not change -/
theorem pre_inv_same (I : GInvB env s allClosed ex) (hex : ex main)
    (hb : s.binds[b]? = some br) (hr : br.rhs = some rhs) (hm : br.main = main)
    (hkn : (s.nodeD n).kind = .bindLhsChange b) (hkm : (s.nodeD main).kind = .bindMain b n) (hnm : n < main)
    (hms : main < s.nodes.size) (hrm : (s.nodeD main).recomputedAt < s.stabNum) :
    GInvB env (pre b n rhs s.stabNum s) allClosed ex := by
  have hn : n < s.nodes.size := by omega
  have IA := stamp I hkn hb hm hkm hms hn hex hrm
  exact BL.GInvB.congr IA ⟨SameG.of_nodes rfl rfl rfl rfl rfl, pre_binds_same hb hr⟩

/-- the state after the pure prefix of `changeChildBindRhs` in the case `oldRhs = some o`, `o ≠ rhs` -/
def pre4 (b n rhs o pi : Nat) (v : Int) (s : State) : State :=
  { pre b n rhs v s with nodes := ((pre b n rhs v s).nodes.modify o (fDrop pi)).modify o (fForce true) }

theorem pre4_nodeD (o pi : Nat) (v : Int) (m : Nat) :
    (pre4 b n rhs o pi v s).nodeD m =
      if o = m ∧ m < s.nodes.size then fForce true (fDrop pi ((stamped n v s).nodeD m))
      else (stamped n v s).nodeD m := by
  have := nodeD_modify2 (pre b n rhs v s) o m (fDrop pi) (fForce true)
  have hsz : (pre b n rhs v s).nodes.size = s.nodes.size := Array.size_modify
  rw [hsz] at this
  exact this

/-- case `oldRhs = some o`, `o ≠ rhs` -/
theorem pre_inv_some {o pi : Nat} (I : GInvB env s allClosed ex) (hex : ex main)
    (hb : s.binds[b]? = some br) (hr : br.rhs = some o) (hm : br.main = main)
    (hkn : (s.nodeD n).kind = .bindLhsChange b) (hkm : (s.nodeD main).kind = .bindMain b n) (hnm : n < main)
    (hms : main < s.nodes.size) (hnecm : s.isNecessary main = true)
    (hrn : rhs < n) (hrk : ∀ b', (s.nodeD rhs).kind ≠ .bindLhsChange b') (hon : o < n)
    (hrm : (s.nodeD main).recomputedAt < s.stabNum)
    (hidx : (s.nodeD o).parents.idxOf? (main, 1) = some pi) :
    GInvB env (pre4 b n rhs o pi s.stabNum s) (upd allClosed main (.linking 1)) ex := by
  have hn : n < s.nodes.size := by omega
  have ho : o < s.nodes.size := by omega
  have IA := stamp I hkn hb hm hkm hms hn hex hrm
  -- the virtual states: stamped, then forced, then the edge dropped
  have hszA : (stamped n s.stabNum s).nodes.size = s.nodes.size := Array.size_modify
  have hoA : (stamped n s.stabNum s).nodeD o = s.nodeD o := stamped_other (by omega) _
  have hmA := stamped_main (s := s) hnm s.stabNum
  have hvA : ((stamped n s.stabNum s).nodeD main).valid = true := by rw [hmA]; exact (I.node hms).valid
  have hkA : ((stamped n s.stabNum s).nodeD main).kind = .bindMain b n := by rw [hmA]; exact hkm
  have hchA : (stamped n s.stabNum s).children main = [n, o] := by
    rw [children_main (br := br) hvA hkA hb, hr]; rfl
  have hnA : (stamped n s.stabNum s).isNecessary main = true := by
    simp only [State.isNecessary, hmA]; exact hnecm
  have memA : (main, 1) ∈ ((stamped n s.stabNum s).nodeD o).parents :=
    IA.conv main 1 o (by rw [hchA]; rfl) ((wants_closed rfl).2 hnA)
  have hoB : (forced o true (stamped n s.stabNum s)).nodeD o =
      { (stamped n s.stabNum s).nodeD o with forceNecessary := true } := by
    rw [forced_nodeD, if_pos ⟨rfl, by rw [hszA]; exact ho⟩]
  have hmB : (forced o true (stamped n s.stabNum s)).nodeD main = (stamped n s.stabNum s).nodeD main := by
    rw [forced_nodeD, if_neg (fun e => by omega)]
  have hnBo : (forced o true (stamped n s.stabNum s)).isNecessary o = true := by
    rw [isNecessary_iff, hoB]; exact Or.inr (Or.inr rfl)
  have IB := (setForce (o := o) (f := true) IA).1 (hnBo.trans (nec_of_mem_parents memA).symm)
  have hszB : (forced o true (stamped n s.stabNum s)).nodes.size = s.nodes.size := by
    rw [← hszA]; exact Array.size_modify
  have U : NodeUpd o (fParents (swapRemove ((forced o true (stamped n s.stabNum s)).nodeD o).parents pi))
      (forced o true (stamped n s.stabNum s))
      { forced o true (stamped n s.stabNum s) with
        nodes := (forced o true (stamped n s.stabNum s)).nodes.modify o (fDrop pi) } :=
    NodeUpd.modify' (by rw [hszB]; exact ho) rfl
  have hidxB : ((forced o true (stamped n s.stabNum s)).nodeD o).parents.idxOf? (main, 1) = some pi := by
    rw [hoB]; show ((stamped n s.stabNum s).nodeD o).parents.idxOf? (main, 1) = some pi
    rw [hoA]; exact hidx
  have hvB : ((forced o true (stamped n s.stabNum s)).nodeD main).valid = true := by rw [hmB]; exact hvA
  have hkB : ((forced o true (stamped n s.stabNum s)).nodeD main).kind = .bindMain b n := by rw [hmB]; exact hkA
  have hchB : (forced o true (stamped n s.stabNum s)).children main = [n, o] := by
    rw [children_main (br := br) hvB hkB hb, hr]; rfl
  have hnB : (forced o true (stamped n s.stabNum s)).isNecessary main = true := by
    simp only [State.isNecessary, hmB]; exact hnA
  -- the nodes of the last virtual state and of the real one
  have hC : ∀ m, ({ forced o true (stamped n s.stabNum s) with
        nodes := (forced o true (stamped n s.stabNum s)).nodes.modify o (fDrop pi) } : State).nodeD m =
      if o = m ∧ m < s.nodes.size then fDrop pi (fForce true ((stamped n s.stabNum s).nodeD m))
      else (stamped n s.stabNum s).nodeD m := by
    intro m
    have := nodeD_modify2 (stamped n s.stabNum s) o m (fForce true) (fDrop pi)
    rw [hszA] at this
    exact this
  have hnCo : ({ forced o true (stamped n s.stabNum s) with
        nodes := (forced o true (stamped n s.stabNum s)).nodes.modify o (fDrop pi) } : State).isNecessary o =
      true := by
    rw [isNecessary_iff, hC, if_pos ⟨rfl, ho⟩]; exact Or.inr (Or.inr rfl)
  have IC := (IB.dropLastEdge hidxB U rfl rfl hnB (by rw [hchB]; rfl) (by rw [hchB]; rfl) rfl).1 hnCo
  have hmC : ({ forced o true (stamped n s.stabNum s) with
        nodes := (forced o true (stamped n s.stabNum s)).nodes.modify o (fDrop pi) } : State).nodeD main =
      s.nodeD main := by
    rw [hC, if_neg (fun e => by omega)]; exact hmA
  refine setRhs (s' := pre4 b n rhs o pi s.stabNum s) (b := b) (n := n) (rhs := rhs) (br := br) IC
    (upd_self _ _ _) hb hm (by rw [hmC]; exact hkm) hnm
    (by omega) ?_ ?_ ?_ rfl rfl rfl rfl rfl (pre_binds_self (n := n) (v := s.stabNum) hb)
    (fun b' e => pre_binds_other (n := n) (v := s.stabNum) e) ?_
  · intro b'
    by_cases e : o = rhs
    · rw [hC, if_pos ⟨e, by omega⟩]
      show ((stamped n s.stabNum s).nodeD rhs).kind ≠ _
      rw [stamped_other (by omega)]; exact hrk b'
    · rw [hC, if_neg (fun h => e h.1), stamped_other (by omega)]; exact hrk b'
  · intro m
    rw [pre4_nodeD, hC]
    split <;> rfl
  · show ((((pre b n rhs s.stabNum s).nodes.modify o (fDrop pi)).modify o (fForce true)).size) =
      ((forced o true (stamped n s.stabNum s)).nodes.modify o (fDrop pi)).size
    rw [Array.size_modify, Array.size_modify, Array.size_modify, hszB]
    exact Array.size_modify
  · rw [hmC, hC, if_neg (fun e => by omega), stamped_self hn]; exact hrm

/-! ## the linking part, from either prefix -/

theorem link_part {fuel : Nat} {t t' : State}
    (h : (stateAddParent env fuel rhs 1 main).run.run t = (.ok (), t'))
    (I : GInvB env s allClosed ex) (It : GInvB env t (upd allClosed main (.linking 1)) ex) (hex : ex main)
    (hat : AhhEmpty t) (hb : s.binds[b]? = some br)
    (hkm : (s.nodeD main).kind = .bindMain b n) (hnm : n < main) (hms : main < s.nodes.size)
    (hnecm : s.isNecessary main = true) (hrn : rhs < n)
    (hnorhs : ∀ (b' : Nat) (br' : BindRec), s.binds[b']? = some br' → br'.allNodesCreatedOnRhs = [])
    (hpi : t.propagateInvalidity = []) (hrm : (s.nodeD main).recomputedAt < s.stabNum)
    (htm : t.nodeD main = s.nodeD main) (htn : t.nodeD n = { s.nodeD n with changedAt := s.stabNum })
    (htb : t.binds = (pre b n rhs s.stabNum s).binds) :
    GInvB env t' allClosed ex ∧ AhhEmpty t' ∧ KRel t t' := by
  have hbt : t.binds[b]? = some { br with rhs := some rhs } := by rw [htb]; exact pre_binds_self hb
  have hkt : (t.nodeD main).kind = .bindMain b n := by rw [htm]; exact hkm
  have hvm := (I.node hms).valid
  have hcht : t.children main = [n, rhs] :=
    children_main (br := { br with rhs := some rhs }) (by rw [htm]; exact hvm) hkt hbt
  have hk0 : (s.children main)[0]? = some n := by rw [children_main hvm hkm hb]; rfl
  have hmem := I.conv main 0 n hk0 ((wants_closed rfl).2 hnecm)
  refine stateAddParent_specB h It hex hat hbt hkt hcht hrn hnm ?_ ?_ ?_ hpi ?_ ?_
  · rw [htn, htm]; exact I.hlt n main 0 hmem rfl
  · rw [htm]; exact I.hpos main hnecm rfl
  · rw [htm]; exact fun hq => I.hgt main hq rfl
  · intro b' br' hb'
    rw [htb] at hb'
    by_cases e : b' = b
    · rw [e, pre_binds_self hb] at hb'
      cases hb'
      exact hnorhs b br hb
    · rw [pre_binds_other e] at hb'; exact hnorhs b' br' hb'
  · rw [htm, htn]; exact hrm

/-! ## the unforcing tail -/

theorem unforce_part {fuel o : Nat} {t t' : State}
    (h : (checkIfUnnecessary fuel o).run.run (forced o false t) = (.ok (), t'))
    (I : GInvB env t allClosed ex) (hnec : t.isNecessary o = true) (E : AhhEmpty t) :
    GInvB env t' allClosed ex ∧ AhhEmpty t' ∧ KRel (forced o false t) t' := by
  have E8 : AhhEmpty (forced o false t) := by
    refine ahhEmpty_frame E rfl fun m => ?_
    rw [forced_nodeD]; split <;> rfl
  have fin : ∀ op, GInvB env (forced o false t) op ex → upd op o .closed = allClosed →
      (∀ m, op m ≠ .closed → o ≤ m) →
      (((forced o false t).isNecessary o = true ∧ op o = .closed) ∨
        ((forced o false t).isNecessary o = false ∧ op o = .unlinking 0)) →
      GInvB env t' allClosed ex ∧ AhhEmpty t' ∧ KRel (forced o false t) t' := by
    intro op I8 hop hlow hcase
    obtain ⟨I9, -, hu⟩ := checkIfUnnecessary_specB h I8 hlow hcase
    rw [hop] at I9
    exact ⟨I9, ahhEmpty_frame E8 (CFrame.ahh hu.fr) (((PresM.unlink fuel).2.1 o).h _ _ _ h),
      KRel.of_cframe hu.fr hu.pinv⟩
  cases hno : (forced o false t).isNecessary o with
  | true =>
    exact fin allClosed ((setForce (o := o) (f := false) I).1 (by rw [hno, hnec])) (upd_allClosed_closed o)
      (fun m hm => absurd rfl hm) (Or.inl ⟨hno, rfl⟩)
  | false =>
    refine fin _ ((setForce (o := o) (f := false) I).2 hnec rfl hno) ?_ ?_ (Or.inr ⟨hno, upd_self _ _ _⟩)
    · rw [upd_upd]; exact upd_allClosed_closed o
    · intro m hm
      by_cases e : m = o
      · omega
      · rw [upd_other _ _ _ e] at hm; exact absurd rfl hm

end

end BR

end IncrVerif.Proofs.BindH
