import IncrVerif.Proofs.NestH5
/-!
# Nested binds (F2), part d: frames — what `All2`, child lists, staleness read (`BL.KeyEq`), `AboveR2`
-/
namespace IncrVerif.Proofs.NestH
open IncrVerif.Engine IncrVerif.Proofs IncrVerif.Proofs.Step IncrVerif.Proofs.Sched IncrVerif.Proofs.Quiet
open IncrVerif.Proofs.BindH

/-- nodes of higher rank than `n` are untouched (the rank version of `Quiet.Above`) -/
def AboveR2 (rk : Nat → Nat) (s : State) (n : Nat) (s' : State) : Prop := ∀ m, rk n < rk m → s'.nodeD m = s.nodeD m

theorem AboveR2.trans {rk : Nat → Nat} {n : Nat} {a b c : State} (h1 : AboveR2 rk a n b) (h2 : AboveR2 rk b n c) :
    AboveR2 rk a n c := fun m hm => (h2 m hm).trans (h1 m hm)

theorem AboveR2.mono {rk : Nat → Nat} {n k : Nat} {a b : State} (h : AboveR2 rk a n b) (hk : rk n ≤ rk k) : AboveR2 rk a k b :=
  fun m hm => h m (by omega)

namespace KeyEq2
variable {env : Env} {rk : Nat → Nat} {s s' : State} {dy : List Nat}

theorem children2 (E : BL.KeyEq s s') (A : All2 env rk s dy) (m : Nat) : s'.children m = s.children m := by
  by_cases hm : m < s.nodes.size
  · exact children_congr_B (E.kind m) (E.valid m) E.binds (A.node m hm).kind
  · rw [children_default s m (by omega), children_default s' m (by rw [E.size]; omega)]

theorem isStale2 (E : BL.KeyEq s s') (A : All2 env rk s dy) (m : Nat) : s'.isStale m = s.isStale m := by
  by_cases hm : m < s.nodes.size
  · exact isStale_congr_B (A.node m hm).kind (E.kind m) (E.valid m) (E.recomputedAt m) E.vars E.binds
      (fun c _ => E.changedAt c)
  · rw [BL.isStale_default s m (by omega), BL.isStale_default s' m (by rw [E.size]; omega)]

theorem frag2 (E : BL.KeyEq s s') (A : All2 env rk s dy) (hpc : s'.panicCountdown = none)
    (hsc : s'.currentScope = .top) : All2 env rk s' dy := by
  refine ⟨hpc, hsc, fun n hn => ?_, ?_, ?_, ?_, ?_, ?_, ?_, ?_, ?_⟩
  · have sn := A.node n (by rw [← E.size]; exact hn)
    refine ⟨by rw [E.kind]; exact sn.kind, by rw [E.cutoff]; exact sn.cutoff, ?_, ?_, ?_, ?_, ?_, ?_, ?_, ?_⟩
    · rw [children2 E A, E.size]; exact sn.kidsIn
    · intro c hc; rw [children2 E A] at hc; rw [E.valid]; exact sn.kidsValid c hc
    · rw [children2 E A]; exact sn.kidLt
    · rw [E.kind, E.binds]; exact sn.lcRec
    · rw [E.kind, E.binds]; exact sn.mainRec
    · intro c b hc hk
      rw [children2 E A] at hc
      rw [E.kind] at hk ⊢
      exact sn.lcChild c b hc hk
    · intro h
      rw [E.createdIn] at h
      obtain ⟨h1, h2⟩ := sn.top h
      refine ⟨by rw [E.valid]; exact h1, ?_⟩
      intro c hc
      rw [children2 E A] at hc
      rw [E.createdIn, E.kind]
      exact h2 c hc
    · intro b h
      rw [E.createdIn] at h
      obtain ⟨h2, br, h3, h4, h5⟩ := sn.inScope b h
      refine ⟨by rw [E.kind]; exact h2, br, by rw [E.binds]; exact h3, h4, ?_⟩
      intro c hc
      rw [children2 E A] at hc
      rw [E.createdIn, E.kind]
      exact h5 c hc
  · intro b br hb
    rw [E.binds] at hb
    rw [E.size, E.kind, E.kind, E.createdIn, E.createdIn]
    exact A.recs b br hb
  · intro b br hb m
    rw [E.binds] at hb
    rw [E.size, E.valid, E.createdIn]
    exact A.gen b br hb m
  · intro b br hb
    rw [E.binds] at hb
    exact A.genDy b br hb
  · intro m hm
    rw [E.size, E.createdIn]
    exact A.dyIn m hm
  · intro n b br hn hv hsc hb
    rw [E.size] at hn; rw [E.valid] at hv; rw [E.createdIn] at hsc; rw [E.binds] at hb
    rw [E.valid, E.valid]
    exact A.scopeValid n b br hn hv hsc hb
  · intro b br hb
    rw [E.binds] at hb
    rw [E.valid, E.valid]
    exact A.recValid b br hb
  · intro n b br hn hsc hb
    rw [E.size] at hn; rw [E.createdIn] at hsc; rw [E.binds] at hb
    exact A.scopeRk n b br hn hsc hb
  · intro n m hn hm
    rw [E.size] at hn hm
    exact A.rkInj n m hn hm

end KeyEq2

end IncrVerif.Proofs.NestH
