import IncrVerif.Proofs.LeakF4
import IncrVerif.Proofs.LeakF5
import IncrVerif.Proofs.LeakH8
import IncrVerif.Proofs.FullH61
/-!
# LeakF6 — C12 for the combined fragment: drops of node handles / observers, then one `stabilise`

* `HDrop a`: `dropHandle`, `dropObs`, `disallow` (NOT `dropVar`).  `hdrop_step`: such an action keeps `QInvFE`
  (`dropHandle` only changes `handles`, which the invariant does not read: `qinvFE_erase`; the other two are actions
  of the fragment).
* `stabilise_handles` (`LeakF1…4`): for ALL programs, a `stabilise` that returns leaves `handles` unchanged.
* `engine_roots`: from `QInvFE s`, `ObsDead s`, all clone counts `0`, `handles = []`: after a `stabilise` that returns
  the roots are the shared cells and the variables' nodes only.
-/
namespace IncrVerif.Proofs.LeakF
open IncrVerif.Engine IncrVerif.Driver IncrVerif.Proofs IncrVerif.Proofs.FullH IncrVerif.Proofs.LeakH
open IncrVerif.Proofs.Own

variable {env : Env} {sp : Nat → Val → Val}

/-- the drops of this file: everything but `dropVar` -/
def HDrop : Action → Prop
  | .dropHandle _ | .dropObs _ | .disallow _ => True
  | _ => False

theorem HDrop.drop {a : Action} (h : HDrop a) : DropAction a := by
  cases a <;> first | exact h.elim | trivial

/-- **for all programs**: a `stabilise` that returns does not change the program's node handles -/
theorem stabilise_handles {fuel : Nat} {s s' : State} (h : (stabilise env fuel).run.run s = (.ok (), s')) :
    s'.handles = s.handles := sim_stabilise env fuel s s' () h

theorem hdrop_step (E : EnvS env sp) (hF : FirstFn env) {s s' : State} {a : Action} {tk : Array Nat}
    {r : String × Array Nat} (Q : QInvFE env sp s) (ha : HDrop a)
    (h : (stepAction env a tk).run.run s = (.ok r, s')) : QInvFE env sp s' := by
  cases a <;> try exact ha.elim
  case dropHandle o =>
    rw [dropHandle_run] at h
    cases hr : resolve s [] o with
    | error p => rw [hr] at h; cases h
    | ok n =>
      rw [hr] at h
      dsimp only at h
      split at h
      · obtain ⟨-, e⟩ := Prod.mk.inj h
        rw [← e]; exact qinvFE_erase (H := s.handles.erase n) Q
      · obtain ⟨-, e⟩ := Prod.mk.inj h
        rw [← e]; exact Q
  case dropObs o => exact FullH.step_all E hF Q (a := .dropObs o) trivial h
  case disallow o => exact FullH.step_all E hF Q (a := .disallow o) trivial h

theorem hdrop_run (E : EnvS env sp) (hF : FirstFn env) {acts : List Action} {s s' : State} {tk tk' : Array Nat}
    (Q : QInvFE env sp s) (ha : ∀ a, a ∈ acts → HDrop a) (h : Quiet.runActions env acts s tk = .ok (s', tk')) :
    QInvFE env sp s' := by
  induction acts generalizing s tk with
  | nil => simp only [Quiet.runActions] at h; cases h; exact Q
  | cons a as ih =>
    simp only [Quiet.runActions] at h
    rcases hx : (stepAction env a tk).run.run s with ⟨_ | r, s1⟩
    · rw [hx] at h; cases h
    · rw [hx] at h
      exact ih (hdrop_step E hF Q (ha a (List.mem_cons_self ..)) hx)
        (fun b hb => ha b (List.mem_cons_of_mem _ hb)) h

/-- the part of `State.roots` that belongs to the variables -/
def varRoots (s : State) : List Nat :=
  s.vars.toList.filterMap fun vc => if vc.handles > 0 || vc.linked then some vc.node else none

theorem flatten_nil_of_buckets (q : Array (List Nat)) (h : ∀ (i : Nat) (hi : i < q.size), q[i] = []) :
    q.toList.flatten = [] := by
  rw [List.flatten_eq_nil_iff]
  intro x hx
  obtain ⟨i, hi, e⟩ := List.getElem_of_mem hx
  have hi' : i < q.size := by simpa using hi
  rw [← e]
  simpa using h i hi'

/-- **state level**: the invariant of the combined fragment, no node handle, every observer dropped; after one
`stabilise` the engine itself roots nothing: the roots are the shared cells and the nodes of the variables -/
theorem engine_roots (E : EnvS env sp) (hF : FirstFn env) {fuel : Nat} {s s' : State} (Q : QInvFE env sp s)
    (OD : ObsDead s) (hh : s.handles = [])
    (hc : ∀ (o : Nat) (ob : ObsRec), s.observers[o]? = some ob → ob.clones = 0)
    (h : (stabilise env fuel).run.run s = (.ok (), s')) :
    s'.handles = [] ∧ s'.vars = s.vars ∧ s'.rch.queues.toList.flatten = [] ∧
      (∀ (o : Nat) (ob : ObsRec), s'.observers[o]? = some ob → ob.clones = 0 ∧ ob.state = .unlinked) ∧
      s'.roots = s'.slots.map (·.2) ++ varRoots s := by
  obtain ⟨g, Q⟩ := Q
  obtain ⟨g', R⟩ := stabilise_full' E hF Q h
  have A := AuditF.audit_of_qinvF R.inv
  have hheap := flatten_nil_of_buckets _ (A.heap_empty (fun n hn => (R.fresh n hn).2)).2.1
  have h1 : s'.handles = [] := by rw [stabilise_handles h]; exact hh
  obtain ⟨-, -, hsz, -, hobs, -, -⟩ := IncrVerif.Proofs.Life.stabilise_spec env fuel s s' h
  have hob : ∀ (o : Nat) (ob : ObsRec), s'.observers[o]? = some ob → ob.clones = 0 ∧ ob.state = .unlinked := by
    intro o ob' ho'
    have hlt : o < s.observers.size := by
      rw [← hsz]
      by_cases hlt : o < s'.observers.size
      · exact hlt
      · rw [Array.getElem?_eq_none (by omega)] at ho'; cases ho'
    have hob0 := Array.getElem?_eq_getElem hlt
    obtain ⟨ob1, ho1, -, hcl, -⟩ := hobs o _ hob0
    obtain ⟨ob2, ho2, -, hst⟩ := R.obs.2 o _ hob0
    rw [ho'] at ho1 ho2
    cases ho1; cases ho2
    refine ⟨by rw [hcl]; exact hc o _ hob0, ?_⟩
    rw [hst]
    rcases OD o _ hob0 (hc o _ hob0) with e | e <;> rw [e] <;> rfl
  have h4 : (s'.observers.toList.filterMap fun ob =>
      if ob.clones > 0 || ob.state == .inUse || ob.state == .disallowed then some ob.node else none) = [] := by
    rw [List.filterMap_eq_nil_iff]
    intro ob' hm
    obtain ⟨o, ho⟩ := mem_toList_getElem? hm
    obtain ⟨hc0, hun⟩ := hob o ob' ho
    simp [hc0, hun]
  refine ⟨h1, R.vars, hheap, hob, ?_⟩
  unfold State.roots
  rw [h1, h4, hheap, R.vars]
  simp [varRoots]

/-- history of the combined fragment, then drops of node handles / observers: the invariant and `ObsDead` -/
theorem history_hdrops (E : EnvS env sp) (hF : FirstFn env) {N : Nat} {d : Bool} {acts drops : List Action}
    {s : State} {tk : Array Nat} (hH : HistFull env sp 0 acts) (hd : ∀ a, a ∈ drops → HDrop a)
    (h : Quiet.runActions env (acts ++ drops) (State.init N d) #[] = .ok (s, tk)) :
    QInvFE env sp s ∧ ObsDead s := by
  refine ⟨?_, obsDead_run (obsDead_init N d) h⟩
  rw [Quiet.runActions_append] at h
  rcases h1 : Quiet.runActions env acts (State.init N d) #[] with e | ⟨s1, tk1⟩
  · rw [h1] at h; cases h
  · rw [h1] at h
    exact hdrop_run E hF (FullH.history_inv E hF hH h1) hd h

end IncrVerif.Proofs.LeakF
