import IncrVerif.Proofs.ExpertH48
import IncrVerif.Proofs.ExpertH42
import IncrVerif.Proofs.ExpertH21
/-!
# Expert nodes: the two expert-specific API actions (`create (expert f)`, `addDep`) keep the invariant
-/
namespace IncrVerif.Proofs.ExpertH
open IncrVerif.Engine IncrVerif.Driver IncrVerif.Proofs IncrVerif.Proofs.Step IncrVerif.Proofs.Sched
open IncrVerif.Proofs.ExpertH.QR IncrVerif.Proofs.Xp

/-- the state after `create (expert f)` at top level -/
def xCreated (f : Nat) (s : State) : State :=
  { s with
    experts := s.experts.push { f := f, node := s.nodes.size },
    nodes := s.nodes.push { kind := .expert s.experts.size, createdIn := .top, cutoff := .eq },
    counters := { s.counters with created := s.counters.created + 1 },
    top := s.top.push s.nodes.size,
    handles := s.nodes.size :: s.handles }

/-- the state after elaborating `expert f` at top level -/
def xElab (f : Nat) (s : State) : State :=
  { s with
    experts := s.experts.push { f := f, node := s.nodes.size },
    nodes := s.nodes.push { kind := .expert s.experts.size, createdIn := .top, cutoff := .eq },
    counters := { s.counters with created := s.counters.created + 1 } }

theorem push_modify_last {α} (xs : Array α) (r : α) (g : α → α) :
    (xs.push r).modify xs.size g = xs.push (g r) := by
  apply Array.ext_getElem?
  intro i
  rw [Array.getElem?_modify, Array.getElem?_push, Array.getElem?_push]
  by_cases h : i = xs.size
  · subst h; simp
  · simp [h, Ne.symm h]

theorem run_elab_expert (env : Env) (f : Nat) (s : State) (hsc : s.currentScope = .top) :
    (elabInstrM env [] .unit (.expert f)).run.run s = (.ok (some s.nodes.size), xElab f s) := by
  simp only [elabInstrM, elabInstr, createNode, bumpCounter, modExpert, xElab, bind_assoc, run_bind_get,
    run_bind_modify, hsc, pure_bind, run_pure]
  rw [push_modify_last]

theorem step_create_expert_inv {env : Env} {f : Nat} {tk : Array Nat} {s s' : State} {r : String × Array Nat}
    (hsc : s.currentScope = .top)
    (h : (stepAction env (.create (.expert f)) tk).run.run s = (.ok r, s')) : s' = xCreated f s := by
  unfold stepAction at h
  dsimp only at h
  rw [run_bind_ok (run_elab_expert env f s hsc)] at h
  dsimp only at h
  rw [run_bind_modify] at h
  obtain ⟨-, rfl⟩ := pure_ok_inv h
  rfl

/-! ## `create (expert f)` keeps the invariant -/

theorem xRec_push_lt {xs : Array ExpertRec} {r : ExpertRec} {e : Nat} (h : e < xs.size) :
    xRec (xs.push r) e = xRec xs e := by
  unfold xRec; rw [Array.getElem?_push_lt h]; simp [h]

theorem xRec_push_size (xs : Array ExpertRec) (r : ExpertRec) : xRec (xs.push r) xs.size = r := by
  unfold xRec; simp

theorem XFrag.xlt {env : Env} {s : State} (F : XFrag env s) {m e : Nat} (hk : (s.nodeD m).kind = .expert e) :
    e < s.experts.size := by
  obtain ⟨er, h1, -⟩ := F.xrec m e (F.lt_of_expert hk) hk
  exact (Array.getElem?_eq_some_iff.1 h1).1

theorem xCreated_nodeD_lt (f : Nat) (s : State) {m : Nat} (h : m < s.nodes.size) :
    (xCreated f s).nodeD m = s.nodeD m := by
  simp only [State.nodeD, xCreated, Array.getElem?_push_lt h]
  simp [h]

theorem xCreated_nodeD_new (f : Nat) (s : State) :
    (xCreated f s).nodeD s.nodes.size = { kind := .expert s.experts.size, createdIn := .top, cutoff := .eq } := by
  simp [State.nodeD, xCreated]

theorem virt_xCreated_nodes {env : Env} (f : Nat) {s : State} (F : XFrag env s) :
    (virt (xCreated f s)).nodes = (virt s).nodes.push (newNode (.fold (xBase + f) (.int 0) [])) := by
  simp only [virt, xCreated, Array.map_push]
  congr 1
  · apply Array.map_congr_left
    intro nd hnd
    apply virtNode_congrD
    intro e' hk'
    obtain ⟨i, hi, rfl⟩ := Array.mem_iff_getElem.1 hnd
    have hD : s.nodeD i = s.nodes[i] := by simp [State.nodeD, hi]
    exact xRec_push_lt (F.xlt (m := i) (by rw [hD]; exact hk'))
  · simp only [virtNode, virtKind, forced, xRec_push_size, newNode, List.map_nil]
    rfl

theorem created_virt {env : Env} (f : Nat) {s : State} (F : XFrag env s) :
    Created (.fold (xBase + f) (.int 0) []) (virt s) (virt (xCreated f s)) ((virt s).top.push (virt s).nodes.size) where
  nodes := virt_xCreated_nodes f F
  vars := Or.inl ⟨fun _ h => Kind.noConfusion h, rfl⟩
  rch := rfl
  pc := rfl
  scope := rfl
  stabNum := rfl
  status := rfl
  alive := rfl
  setDuringStab := rfl
  deadVars := rfl
  handleAfterStab := rfl
  pinv := rfl
  observers := rfl
  newObservers := rfl
  disallowedObservers := rfl
  top := by simp [virt, xCreated]

theorem XFrag.created {env : Env} {f : Nat} {s : State} (F : XFrag env s) (hf : XEnvOK env f) (hfb : f < xBase) :
    XFrag env (xCreated f s) where
  pc := F.pc
  kind m hm := by
    by_cases h : m < s.nodes.size
    · rw [xCreated_nodeD_lt f s h]; exact F.kind m h
    · have : m = s.nodes.size := by simp [xCreated] at hm; omega
      rw [this, xCreated_nodeD_new]; trivial
  valid m hm := by
    by_cases h : m < s.nodes.size
    · rw [xCreated_nodeD_lt f s h]; exact F.valid m h
    · have : m = s.nodes.size := by simp [xCreated] at hm; omega
      rw [this, xCreated_nodeD_new]
  xrec m e hm hk := by
    by_cases h : m < s.nodes.size
    · rw [xCreated_nodeD_lt f s h] at hk
      obtain ⟨er, h1, h2⟩ := F.xrec m e h hk
      refine ⟨er, ?_, h2⟩
      have hlt := (Array.getElem?_eq_some_iff.1 h1).1
      show (s.experts.push _)[e]? = some er
      rw [Array.getElem?_push_lt hlt]; exact (Array.getElem?_eq_some_iff.1 h1).2 ▸ rfl
    · have hms : m = s.nodes.size := by simp [xCreated] at hm; omega
      rw [hms, xCreated_nodeD_new] at hk
      cases hk
      refine ⟨{ f := f, node := s.nodes.size }, ?_, hms.symm⟩
      show (s.experts.push _)[s.experts.size]? = _
      simp
  xok e er he := by
    have he' : (s.experts.push { f := f, node := s.nodes.size })[e]? = some er := he
    by_cases h : e < s.experts.size
    · rw [Array.getElem?_push_lt h] at he'
      exact F.xok e er (by rw [Array.getElem?_eq_getElem h]; exact he')
    · by_cases h2 : e = s.experts.size
      · subst h2
        simp at he'
        subst he'
        exact ⟨rfl, rfl, hf, hfb⟩
      · rw [Array.getElem?_eq_none (by simp; omega)] at he'; cases he'

theorem ahhEmpty_created {f : Nat} {s : State} (A : AhhEmpty s) : AhhEmpty (xCreated f s) := by
  refine ⟨A.length, A.buckets, fun m => ?_⟩
  by_cases h : m < s.nodes.size
  · rw [xCreated_nodeD_lt f s h]; exact A.marks m
  · by_cases h2 : m = s.nodes.size
    · rw [h2, xCreated_nodeD_new]
    · rw [nodeD_default_of_ge _ m (by simp [xCreated]; omega)]; rfl

/-- **creating an expert node keeps the invariant** -/
theorem step_create_expert {env : Env} {rk : Nat → Nat} {f : Nat} {tk : Array Nat} {s s' : State}
    {r : String × Array Nat} (Q : QInvX env rk s) (hf : XEnvOK env f) (hfb : f < xBase)
    (h : (stepAction env (.create (.expert f)) tk).run.run s = (.ok r, s')) : QInvX env rk s' := by
  have hsc : s.currentScope = .top := Q.q.struct.static.scope
  rw [step_create_expert_inv hsc h]
  exact ⟨Q.frag.created hf hfb,
    Created.qinv (created_virt f Q.frag) Q.q trivial (fun c hc => by cases hc), ahhEmpty_created Q.ahh⟩

end IncrVerif.Proofs.ExpertH
