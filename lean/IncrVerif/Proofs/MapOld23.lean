import IncrVerif.Proofs.MapOld14
import IncrVerif.Proofs.MapOld15
import IncrVerif.Proofs.MapOld17
/-!
# map_with_old fragment: `stabilise` with pending observers (M2)
-/
namespace IncrVerif.Proofs.MapOldH
open IncrVerif.Engine IncrVerif.Driver IncrVerif.Proofs IncrVerif.Proofs.Step IncrVerif.Proofs.Sched IncrVerif.Proofs.Quiet

variable {env : Env} {C : Val → Prop} {sp : Nat → Val → Val} {s : State}

theorem QInvW.pinv (Q : QInvW env C sp s) : s.propagateInvalidity = [] := Q.q.pinv

/-- `Finished'` (the description of `stabiliseEnd`) of the actual states gives it for the virtual states -/
theorem finished_virt {t s' : State} (E : Finished' t s') : Finished' (virt t) (virt s') where
  size := by rw [virt_size, virt_size]; exact E.size
  node m := by
    obtain ⟨b, hb⟩ := E.node m
    refine ⟨b, ?_⟩
    rw [virt_nodeD, virt_nodeD, hb]
    rfl
  vars := E.vars
  rch := E.rch
  ahh := E.ahh
  observers := E.observers
  newObservers := E.newObservers
  disallowedObservers := E.disallowedObservers
  allObservers := E.allObservers
  scope := E.scope
  pc := E.pc
  top := E.top
  handles := E.handles
  alive := E.alive
  pinv := E.pinv
  cfg := E.cfg
  stabNum := E.stabNum
  status := E.status
  setDuringStab := E.setDuringStab
  deadVars := E.deadVars
  handleAfterStab := E.handleAfterStab

/-- what `stabilise` establishes, in terms of the actual state -/
structure StabilisedW (env : Env) (C : Val → Prop) (sp : Nat → Val → Val) (fuel : Nat) (s s' : State) : Prop where
  inv : QInvW env C sp s'
  virt : MapRefH.StabilisedC (virtEnv env sp) (virt s) (virt s')
  /-- every necessary node is not stale and READS its from-scratch value -/
  values : ∀ n, s'.isNecessary n = true → ∀ k, (s'.nodeD n).height.toNat < k →
    s'.isStale n = false ∧ s'.value env n = evalW env sp s' k n ∧ (evalW env sp s' k n).isSome = true
  /-- the drain starts in a state with the drain invariant of M1 and ends in one, with an empty heap -/
  drain : ∃ t2 t3, DrainInvW env C sp t2 ∧ (drainHeap env fuel).run.run t2 = (.ok (), t3) ∧ DrainInvW env C sp t3 ∧
    t3.rch.length = 0 ∧ t2.vars = s.vars ∧ ∀ m, s'.isNecessary m = t2.isNecessary m

set_option maxHeartbeats 800000 in
/-- **M2: `stabilise` with pending observers**, fragment static + map_with_old. -/
theorem stabiliseW {fuel : Nat} {s' : State} (V : ValOK env C sp) (Q : QInvW env C sp s)
    (h : (stabilise env fuel).run.run s = (.ok (), s')) : StabilisedW env C sp fuel s s' := by
  unfold stabilise at h
  rw [run_bind_get] at h
  obtain ⟨_, sa, ha, h⟩ := bind_ok_inv h
  have hsa : sa = s := by
    rw [run_assertM] at ha
    split at ha <;> cases ha
    rfl
  rw [hsa] at h
  obtain ⟨s0, hs0, h⟩ := bind_modify_inv h
  obtain ⟨_, t1, h1, h⟩ := bind_ok_inv h
  obtain ⟨_, t2, h2, h⟩ := bind_ok_inv h
  obtain ⟨_, t3, h3, h4⟩ := bind_ok_inv h
  have Qv := Q.q
  -- the state with the status set
  have hs0v : virt s0 = { virt s with status := .stabilising } := by rw [hs0]; rfl
  have W0 : WFr s s0 := by
    rw [hs0]; exact ⟨rfl, fun _ => rfl, rfl, id⟩
  have F0 : WFrag env (Good env C sp) s0 := W0.frag Q.frag
  have M0 : MInv env C s0 := W0.minv Q.m
  have hp0 : s0.propagateInvalidity = [] := by rw [hs0]; exact Q.pinv
  have S0 : SInv (virtEnv env sp) (virt s0) (virt s0).newObservers (virt s0).disallowedObservers := by
    rw [hs0v]
    exact ⟨Qv.struct.congr (SameG.of_nodes rfl rfl rfl rfl rfl),
      ⟨Qv.obs.inRange, Qv.obs.mem, Qv.obs.created, Qv.obs.newIn, Qv.obs.dis, Qv.obs.disIn, Qv.obs.disNodup⟩,
      Qv.pinv, Qv.handlers⟩
  -- the prefix: simulated by the virtual engine; it does not touch what the fragment and the value invariant read
  obtain ⟨hv1, fr1⟩ := Sim.addNewObservers (sp := sp) env fuel s0 (F0.fr hp0) _ t1 h1
  obtain ⟨S1, hn1, hd1, P1, O1, -⟩ := addNewObservers_s S0 hv1
  have W1 : WFr s0 t1 := addNewObservers_wfr (F0.fr hp0) h1
  obtain ⟨hv2, fr2⟩ := Sim.unlinkDisallowedObservers fuel t1 fr1 _ t2 h2
  obtain ⟨S2, hn2, hd2, P2, O2⟩ := unlinkDisallowedObservers_s S1 hn1 hv2
  have W2 : WFr t1 t2 := unlinkDisallowedObservers_wfr h2
  have F2 : WFrag env (Good env C sp) t2 := W2.frag (W1.frag F0)
  have M2 : MInv env C t2 := W2.minv (W1.minv M0)
  have hp2 : t2.propagateInvalidity = [] := fr2.pinv
  have P := P1.trans P2
  -- the drain
  obtain ⟨D2, U2⟩ := MapRefH.drain_start Qv hs0v S2 P
  have DR2 : DInvW env C sp t2 none := ⟨F2, D2, M2, hp2⟩
  obtain ⟨DR3, he3, f3⟩ := drainHeapW_inv V fuel t2 t3 DR2 h3
  have U3 := f3.unnec U2
  -- the end
  have c3 := f3.calm
  have E := stabiliseEnd_fin (env := env) (fuel := fuel) (s := t3) (s' := s')
    (by
      have := c3.setDuringStab
      show t3.setDuringStab = []
      have e1 : (virt t3).setDuringStab = t3.setDuringStab := rfl
      rw [← e1, this, P.setDuringStab, hs0v]; exact Qv.setDuringStab)
    (by
      have := c3.deadVars
      have e1 : (virt t3).deadVars = t3.deadVars := rfl
      rw [← e1, this, P.deadVars, hs0v]; exact Qv.deadVars)
    (by
      intro o ob ho
      have hk := f3.keyD
      simp only [KeyD, stateKeyD, Prod.mk.injEq] at hk
      have e1 : (virt t3).observers = t3.observers := rfl
      rw [← e1, hk.1] at ho
      exact (S2.obs.inRange o ob ho).2) h4
  have Ev := finished_virt E
  have SC := MapRefH.stab_core Qv hs0v S2 hn2 hd2 P O1 O2 DR3.inv he3 f3.frame c3 f3.keyD U3 Ev
  -- the actual final state
  have hEn : ∀ m, ∃ b, s'.nodeD m = { t3.nodeD m with inHandleAfterStab := b } := E.node
  have W3 : WFr t3 s' := by
    refine ⟨E.size, fun m => ?_, E.vars, fun hp => by rw [E.pc]; exact hp⟩
    obtain ⟨b, hb⟩ := hEn m; rw [hb]; rfl
  have hkind : ∀ m, (s'.nodeD m).kind = (t3.nodeD m).kind := fun m => wKey_kind (W3.node m)
  have hvalid : ∀ m, (s'.nodeD m).valid = (t3.nodeD m).valid := fun m => wKey_valid (W3.node m)
  have hvalue : ∀ m, (s'.nodeD m).value = (t3.nodeD m).value := fun m => wKey_value (W3.node m)
  have hnec : ∀ m, s'.isNecessary m = t3.isNecessary m := fun m => by
    obtain ⟨b, hb⟩ := hEn m; simp only [State.isNecessary, hb]; rfl
  have hheight : ∀ m, (s'.nodeD m).height = (t3.nodeD m).height := fun m => by obtain ⟨b, hb⟩ := hEn m; rw [hb]
  have F' : WFrag env (Good env C sp) s' := W3.frag DR3.frag
  have hval : ∀ m, s'.value env m = t3.value env m := fun m => by
    rw [F'.value, DR3.frag.value, hvalue]
  refine ⟨⟨F', SC.inv, W3.minv DR3.m⟩, SC, ?_, ?_⟩
  · intro n hn k hk
    have hn3 : t3.isNecessary n = true := by rw [← hnec]; exact hn
    obtain ⟨-, v2, v3, v4⟩ := drainedW_values DR3 he3 n hn3 k (by rw [← hheight]; exact hk)
    have hev : evalW env sp s' k n = evalW env sp t3 k n := evalW_congr hkind E.vars k n
    refine ⟨?_, by rw [hval, hev]; exact v3, by rw [hev]; exact v4⟩
    have := (SC.values n (by rw [virt_isNecessary]; exact hn) k
      (by rw [virt_nodeD, virtNode_height]; exact hk)).2.1
    rwa [virt_isStale] at this
  · refine ⟨t2, t3, DR2, h3, DR3, he3, ?_, fun m => ?_⟩
    · have := P.vars; rw [hs0v] at this; exact this
    · rw [hnec]
      have := f3.frame.nec m
      rwa [virt_isNecessary, virt_isNecessary] at this

end IncrVerif.Proofs.MapOldH
