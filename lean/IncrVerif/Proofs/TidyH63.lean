import IncrVerif.Proofs.TidyH62
/-!
# T1b, part 6: `maybeChangeValueManual`, `maybeChangeValue`, `recomputeOne` bisimulate / return
-/
namespace IncrVerif.Proofs.TidyH.RT
open IncrVerif.Engine IncrVerif.Driver IncrVerif.Proofs IncrVerif.Proofs.Step IncrVerif.Proofs.Sched IncrVerif.Proofs.Quiet
open IncrVerif.Proofs.MapRefH

section
variable {g : Nat → Option Val} {N : Nat} {K : Nat → Kind}

theorem BSim.mcvm_true (env : Env) (fuel n : Nat) (o o' : Option Val) (did : Bool) (hf : N ≤ fuel + n + 1) :
    BSim (P3 N K env n) g (maybeChangeValueManual env fuel n o did true)
      (maybeChangeValueManual (virtEnv env) fuel n o' did true) := by
  intro s
  unfold maybeChangeValueManual
  simp only [↓reduceIte]
  refine BSimAt.cond Iff.rfl (fun _ => BSimAt.ret _) (fun _ => ?_)
  bsim
  refine BSimAt.intro_inv fun hp3 => ?_
  have hmem : ∀ x, x ∈ nd.parents → n ∈ kidsR (K x.1) ∧ N ≤ fuel + x.1 := by
    intro x hx
    obtain ⟨h1, h2, h3⟩ := hp3.p2.parent_facts (c := n) (p := x.1) (i := x.2)
      (by rw [nodeD_of_some hnd]; exact hx)
    exact ⟨h3, by omega⟩
  rcases hpar : nd.parents with _ | ⟨⟨p0, ci0⟩, rest⟩
  · exact BSimAt.ret _
  rw [hpar] at hmem
  dsimp only
  bsim
  · exact BSimAt.childChanged (hmem _ (List.mem_cons_of_mem _ (by assumption))).1
      (hmem _ (List.mem_cons_of_mem _ (by assumption))).2
  · exact BSimAt.childChanged (hmem _ (List.mem_cons_self ..)).1 (hmem _ (List.mem_cons_self ..)).2

/-- a notification of the virtual engine (a no-op on a static parent) that the actual engine does not make -/
theorem BSimAt.cc_right {β : Type} {s : State} {x : M β} {k' : Unit → M β} {env' : Env} {fuel' p c ci : Nat}
    {o' : Option Val} (hp : p < N) (h : BSimAt (P2 N K) g s x (k' ())) :
    BSimAt (P2 N K) g s x (Engine.childChanged env' (fuel' + 1) p c ci o' >>= k') := by
  refine BSimAt.intro_inv fun hp2 => BSimAt.congr h rfl ?_ id
  have hnd : s.nodes[p]? = some (s.nodeD p) := some_of_lt (by rw [hp2.size]; exact hp)
  rw [run_bind_ok (virt_childChanged_run hnd (hp2.fr.valid p) (hp2.fr.noExp p))]

/-- the notification part of the step of a map_ref node (no `child_changed` calls) against the propagating
`maybe_change_value_manual` of the virtual engine -/
theorem BSim.mcvm_false (env : Env) (fuel fuel' n : Nat) (o o' : Option Val) (did : Bool) :
    BSim (P2 N K) g (maybeChangeValueManual env fuel n o did false)
      (maybeChangeValueManual (virtEnv env) (fuel' + 1) n o' did true) := by
  intro s
  unfold maybeChangeValueManual
  simp only [↓reduceIte, Bool.false_eq_true]
  refine BSimAt.cond Iff.rfl (fun _ => BSimAt.ret _) (fun _ => ?_)
  bsim
  refine BSimAt.intro_inv fun hp2 => ?_
  have hmem : ∀ x, x ∈ nd.parents → x.1 < N := by
    intro x hx
    exact (hp2.parent_facts (c := n) (p := x.1) (i := x.2) (by rw [nodeD_of_some hnd]; exact hx)).2.1
  rcases hpar : nd.parents with _ | ⟨⟨p0, ci0⟩, rest⟩
  · exact BSimAt.ret _
  rw [hpar] at hmem
  dsimp only
  repeat (any_goals (first | (refine BSimAt.cc_right ?_ ?_) | bsim_step))
  · exact hmem _ (List.mem_cons_of_mem _ (by assumption))
  · exact hmem _ (List.mem_cons_self ..)

/-! ## `maybe_change_value` on a node that is not a map_ref node -/

/-- writing the value of a node that is not a map_ref node -/
theorem BSimAt.modNode_value {s : State} {n : Nat} (v : Option Val) (h : ∀ p i, K n ≠ .mapRef p i) :
    BSimAt (P2 N K) g s (Engine.modNode n fun x => { x with value := v })
      (Engine.modNode n fun x => { x with value := v }) := by
  intro hp
  refine ⟨fun r s' hr => ?_, fun r t hr => ?_⟩
  · obtain ⟨e, hfr⟩ := SimAt.modNode_value (g := g) v (by rw [hp.kind]; exact h) hp.fr r s' hr
    refine ⟨e, ?_⟩
    rw [run_modNode] at hr; cases hr
    refine hp.of_nodeD hfr (by simp) (fun m => ?_) (fun m x hx => ?_)
    · rw [nodeD_modify]; split <;> rfl
    · rw [nodeD_modify] at hx; split at hx <;> exact hx
  · rw [run_modNode] at hr; cases hr; exact ⟨_, run_modNode _ _ _⟩

theorem value_after_set {env : Env} {s : State} {n : Nat} {v : Val} (hn : n < s.nodes.size)
    (hk : ∀ p i, (s.nodeD n).kind ≠ .mapRef p i) :
    ({ s with nodes := s.nodes.modify n fun x => { x with value := some v } } : State).value env n = some v := by
  rw [value_plain]
  · rw [nodeD_modify, if_pos ⟨rfl, hn⟩]
  · intro p i; rw [nodeD_modify, if_pos ⟨rfl, hn⟩]; exact hk p i

theorem BSimAt.maybeChangeValue {env : Env} {fuel n : Nat} {v : Val} {t : State} (hn : n < N)
    (hk : ∀ p i, K n ≠ .mapRef p i) (hf : N ≤ fuel + n + 1) :
    BSimAt (P2 N K) g t (Engine.maybeChangeValue env fuel n v) (Engine.maybeChangeValue (virtEnv env) fuel n v) := by
  unfold Engine.maybeChangeValue
  refine BSimAt.getNode_seq fun nd hnd hne hval => ?_
  refine BSimAt.intro_inv fun hp0 => ?_
  have hnk : ∀ p i, nd.kind ≠ .mapRef p i := by
    have := hp0.kind n; rw [nodeD_of_some hnd] at this; rw [this]; exact hk
  rw [virtNode_value_of_not_mapRef _ _ hnk]
  dsimp only
  refine BSimAt.seq (BSimAt.modNode_value none hk) fun _ s1 h1 => ?_
  -- the tail: write the new value, then notify
  have tail : ∀ (s2 : State) (c : Bool), BSimAt (P2 N K) g s2
      (do Engine.modNode n fun x => { x with value := some v }
          Engine.maybeChangeValueManual env fuel n nd.value c true)
      (do Engine.modNode n fun x => { x with value := some v }
          Engine.maybeChangeValueManual (virtEnv env) fuel n nd.value c true) := by
    intro s2 c
    refine BSimAt.intro_inv fun hp2 => ?_
    refine BSimAt.seq (BSimAt.modNode_value _ hk) fun _ s3 h3 => ?_
    rw [run_modNode] at h3; cases h3
    refine (BSim.mcvm_true env fuel n _ _ c hf _).change (fun hp => ⟨hp, ?_⟩) (fun _ hp => hp.p2)
    rw [value_after_set (by rw [hp2.size]; exact hn) (by rw [hp2.kind]; exact hk)]; rfl
  cases hov : nd.value with
  | none =>
    simp only [pure_bind]
    rw [hov] at tail
    exact tail _ _
  | some ov =>
    dsimp only
    rw [hov] at tail
    refine BSimAt.seq (BSim.shouldCutoff env n ov v _) fun c s2 h2 => ?_
    simp only [pure_bind]
    exact tail _ _

end
end IncrVerif.Proofs.TidyH.RT
