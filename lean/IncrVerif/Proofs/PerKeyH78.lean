import IncrVerif.Proofs.PerKeyH47
import IncrVerif.Proofs.PerKeyH8
/-!
# Per-key operators, `stabilise`, part 2: the frame `PKF` of the bookkeeping invariant

`PKF s s'`: `XF s s'` (same size, kinds; the records keep `f`, `node`, `children`, `pk`, `forceStale`), every node keeps its
value and its staleness, `top`, `perkeys`, `vars` are unchanged.
* `PKF.vKind`: the kinds of `V` are unchanged.
* **`PKOK.of_frame`** (+ two hypotheses on observers: the records keep their node, a listed observer watches that node),
  **`NoRem.of_frame`**.
-/
namespace IncrVerif.Proofs.PerKeyH
open IncrVerif.Engine IncrVerif.Driver IncrVerif.Proofs IncrVerif.Proofs.Step IncrVerif.Proofs.Sched
open IncrVerif.Proofs.ExpertH IncrVerif.Proofs.EffH IncrVerif.Proofs.DriverH

structure PKF (s s' : State) : Prop where
  xf : XF s s'
  value : ∀ m, (s'.nodeD m).value = (s.nodeD m).value
  stale : ∀ m, s'.isStale m = s.isStale m
  top : s'.top = s.top
  perkeys : s'.perkeys = s.perkeys
  vars : s'.vars = s.vars
  /-- the virtual stamps are kept (no node runs) -/
  stamp : ∀ m, ((V s').nodeD m).recomputedAt = ((V s).nodeD m).recomputedAt

theorem PKF.refl (s : State) : PKF s s := ⟨XF.refl s, fun _ => rfl, fun _ => rfl, rfl, rfl, rfl, fun _ => rfl⟩

theorem PKF.trans {a b c : State} (h1 : PKF a b) (h2 : PKF b c) : PKF a c :=
  ⟨h1.xf.trans h2.xf, fun m => (h2.value m).trans (h1.value m), fun m => (h2.stale m).trans (h1.stale m),
    h2.top.trans h1.top, h2.perkeys.trans h1.perkeys, h2.vars.trans h1.vars, fun m => (h2.stamp m).trans (h1.stamp m)⟩

/-- the records read through `xRec` along `XF` -/
theorem xRec_of_xf {s s' : State} (h : XF s s') (e : Nat) :
    (xRec s'.experts e).f = (xRec s.experts e).f ∧ (xRec s'.experts e).children = (xRec s.experts e).children ∧
      (xRec s'.experts e).pk = (xRec s.experts e).pk := by
  cases he : s.experts[e]? with
  | none => rw [xRec_none he, xRec_none (h.xnone he)]; exact ⟨rfl, rfl, rfl⟩
  | some er =>
    obtain ⟨er', he', hf, -, hc, hpk, -⟩ := h.xrec he
    rw [xRec_some he, xRec_some he']; exact ⟨hf, hc, hpk⟩

theorem kidsX_of_xf {s s' : State} (h : XF s s') (m : Nat) :
    kidsX s'.experts (s'.nodeD m).kind = kidsX s.experts (s.nodeD m).kind := by
  rw [h.kind m]
  cases (s.nodeD m).kind <;> simp only [kidsX]
  rw [(xRec_of_xf h _).2.1]

theorem vKind_of_xf {s s' : State} (h : XF s s') (hp : s'.perkeys = s.perkeys) (k : Kind) :
    vKind s' k = vKind s k := by
  cases k <;> try rfl
  rename_i e
  obtain ⟨h1, h2, h3⟩ := xRec_of_xf h e
  simp only [vKind, pkRec, h1, h2, h3, hp]

theorem PKF.vKind {s s' : State} (F : PKF s s') (m : Nat) : ((V s').nodeD m).kind = ((V s).nodeD m).kind := by
  rw [V_kind, V_kind, F.xf.kind m, vKind_of_xf F.xf F.perkeys]

theorem PKF.kf {s s' : State} (F : PKF s s') : KF s s' := by
  refine ⟨Nat.le_of_eq F.xf.size.symm, fun m _ => F.xf.kind m, fun e er he => ?_, fun k n h => by rw [F.top]; exact h,
    fun m _ => kidsX_of_xf F.xf m, fun m _ _ _ hs => by rw [F.stamp m]; exact hs⟩
  obtain ⟨er', he', h1, h2, h3, h4, h5⟩ := F.xf.xrec he
  exact ⟨er', he', by simp only [xCore, h1, h2, h3, h4, h5]⟩

/-- **the bookkeeping invariant along the frame `PKF`** -/
theorem PKOK.of_frame {env : Env} {s s' : State} (F : PKF s s') (h : PKOK env s)
    (hrec : ∀ (o : Nat) (ob' : ObsRec), s'.observers[o]? = some ob' → ∃ ob, s.observers[o]? = some ob ∧ ob.node = ob'.node)
    (hlist : ∀ m o, o ∈ (s'.nodeD m).observers → ∃ ob', s'.observers[o]? = some ob' ∧ ob'.node = m) :
    PKOK env s' := by
  have K := F.kf
  have hsz := F.xf.size
  refine ⟨fun op pr hpr => ?_, ?_, ?_, fun n f args hn hk hf => ?_, fun o ob' ho => ?_, fun op pr hpr v hv => ?_⟩
  · rw [F.perkeys] at hpr
    have O := h.ops op pr hpr
    refine ⟨O.cut, fun c x hc hx hp => ?_, fun x hp => ?_, fun k x hk hp => ?_, O.templ, ?_, O.keys, O.deps, O.sorted,
      O.dom, fun hst => ?_⟩
    · rw [kidsX_of_xf F.xf] at hx; exact O.own c x (by rw [← hsz]; exact hc) hx hp
    · cases hl : (s'.nodeD x).observers with
      | nil => rfl
      | cons o rest =>
        exfalso
        obtain ⟨ob', ho', hn'⟩ := hlist x o (by rw [hl]; exact List.mem_cons_self ..)
        obtain ⟨ob, ho, hn⟩ := hrec o ob' ho'
        obtain ⟨k, hk⟩ := h.obsTop o ob ho
        rw [hn, hn'] at hk
        exact O.privTop k x hk hp
    · rw [F.top] at hk; exact O.privTop k x hk hp
    · obtain ⟨x, e, er, hN, he, hpk, hch, hent, hout⟩ := O.nodes
      obtain ⟨er', he', hcore⟩ := K.xrec e er he
      have hc := xCore_inj hcore
      refine ⟨x, e, er', hN.of_frame K, he', by rw [hc.2.2.2.1]; exact hpk, by rw [hc.2.2.1]; exact hch,
        fun key p d hm => (hent key p d hm).of_frame K hc.2.2.1, fun k hk => ?_⟩
      obtain ⟨o, ho, hlt⟩ := hout k hk
      exact ⟨o, K.top k o ho, hlt⟩
    · rw [F.stale] at hst; rw [F.value]; exact O.input hst
  · refine RecsOK.of_frame h.recs F.perkeys fun e er' he' => ?_
    obtain ⟨er, he, -, hn, -, hpk, -⟩ := F.xf.xrec_back he'
    exact ⟨er, he, hpk, hn⟩
  · obtain ⟨ψ, P⟩ := h.pot
    exact ⟨ψ, P.of_frame hsz F.xf.kind (fun e => (xRec_of_xf F.xf e).2.1) F.top F.perkeys⟩
  · rw [F.xf.kind] at hk; rw [hsz] at hn; rw [F.perkeys]; exact h.lcs n f args hn hk hf
  · obtain ⟨ob, ho', hn⟩ := hrec o ob' ho
    obtain ⟨k, hk⟩ := h.obsTop o ob ho'
    exact ⟨k, by rw [F.top, ← hn]; exact hk⟩
  · rw [F.perkeys] at hpr; rw [F.value] at hv; exact h.maps op pr hpr v hv

/-- **stage 1 (no key removal) along a frame**: kinds, cells, values, `perkeys` -/
theorem NoRem.of_frame {s s' : State} (h : NoRem s) (hk : ∀ m, (s'.nodeD m).kind = (s.nodeD m).kind)
    (hval : ∀ m, (s'.nodeD m).value = (s.nodeD m).value) (hp : s'.perkeys = s.perkeys) (hv : s'.vars = s.vars) :
    NoRem s' := by
  intro op pr hpr
  rw [hp] at hpr
  obtain ⟨x, c, vc, mv, h1, h2, h3, h4, h5, h6, h7, h8⟩ := (h op pr hpr).input
  exact ⟨x, c, vc, mv, by rw [hk]; exact h1, by rw [hk]; exact h2, by rw [hv]; exact h3, h4, h5, h6,
    by rw [hval]; exact h7, by rw [hval, hval]; exact h8⟩

theorem NoRem.of_pkf {s s' : State} (F : PKF s s') (h : NoRem s) : NoRem s' :=
  h.of_frame F.xf.kind F.value F.perkeys F.vars

end IncrVerif.Proofs.PerKeyH
