import IncrVerif.Proofs.Quiet8
import IncrVerif.Proofs.BindH4
/-!
# Binds, part 2a: the structural invariant with open nodes, for graphs with bind nodes (fragment F0)

Port of `Proofs/Quiet1.lean` (`AllStatic`, `GInv`, `Struct`) to graphs that contain the two bind kinds.

FRAGMENT F0 (`AllB env s`): every node is valid, of a kind of the bind fragment (`BKind`: `const`, `var`, pure `map`,
`fold`, `bindLhsChange`, `bindMain`), has cutoff `.eq` or `.never`, was created at top level, and its CURRENT children
(`State.children`: for a `bindLhsChange b` the bind's lhs, for a `bindMain b lc` the node `lc` and the bind's current
right-hand side) were created before it.  So: closures only RETURN nodes (they create none), and only nodes that are
older than the bind.  Bind kinds name their records; only a bind's main node has the bind's change detector as a child.

`GInvB env s op ex` is `Quiet.GInv` with `kids (kind)` replaced by `State.children`, `staleOf` by `State.isStale`,
without the requirement `forceNecessary = false` (the old right-hand side of a bind is forced necessary while the new
one is linked), and with a set `ex` of EXCUSED nodes that may be closed, necessary and stale without being queued
(during a drain: the node that is running; inside the run of a change detector: the bind's main node).  `StructB := GInvB … allClosed`.  Reused from `Quiet`: `Op`, `Wants`, `upd`, `HeapG`, `NodeG`, `SameG`.
-/
namespace IncrVerif.Proofs.BindH
open IncrVerif.Engine IncrVerif.Proofs IncrVerif.Proofs.Step IncrVerif.Proofs.Sched IncrVerif.Proofs.Quiet

/-! ## the fragment -/

structure BNode (env : Env) (s : State) (n : Nat) : Prop where
  valid : (s.nodeD n).valid = true
  kind : BKind env (s.nodeD n).kind
  cutoff : (s.nodeD n).cutoff = .eq ∨ (s.nodeD n).cutoff = .never
  top : (s.nodeD n).createdIn = .top
  kidsLt : ∀ c, c ∈ s.children n → c < n
  lcRec : ∀ b, (s.nodeD n).kind = .bindLhsChange b → ∃ br, s.binds[b]? = some br ∧ br.lhsChange = n
  mainRec : ∀ b lc, (s.nodeD n).kind = .bindMain b lc →
    ∃ br, s.binds[b]? = some br ∧ br.main = n ∧ br.lhsChange = lc
  lcChild : ∀ c b, c ∈ s.children n → (s.nodeD c).kind = .bindLhsChange b → (s.nodeD n).kind = .bindMain b c

structure AllB (env : Env) (s : State) : Prop where
  pc : s.panicCountdown = none
  scope : s.currentScope = .top
  node : ∀ n, n < s.nodes.size → BNode env s n

/-! ## the structural invariant with open nodes -/

structure GInvB (env : Env) (s : State) (op : Nat → Op) (ex : Nat → Prop) : Prop where
  frag : AllB env s
  /-- recorded parent entries are real child edges that should be recorded -/
  par : ∀ c p i, (p, i) ∈ (s.nodeD c).parents → (s.children p)[i]? = some c ∧ Wants s op p i
  /-- child edges that should be recorded are -/
  conv : ∀ p i c, (s.children p)[i]? = some c → Wants s op p i → (p, i) ∈ (s.nodeD c).parents
  nodup : ∀ c, (s.nodeD c).parents.Nodup
  /-- children of closed nodes are strictly lower -/
  hlt : ∀ c p i, (p, i) ∈ (s.nodeD c).parents → op p = .closed → (s.nodeD c).height < (s.nodeD p).height
  hpos : ∀ n, s.isNecessary n = true → op n = .closed → 0 ≤ (s.nodeD n).height
  lnec : ∀ p k, op p = .linking k → s.isNecessary p = true
  unec : ∀ p k, op p = .unlinking k → s.isNecessary p = false
  heap : HeapG s
  hgt : ∀ m, (s.nodeD m).inRch = true → op m = .closed → (s.nodeD m).heightInRch = (s.nodeD m).height
  qnec : ∀ m, (s.nodeD m).inRch = true → s.isNecessary m = true ∨ ∃ k, op m = .unlinking k
  /-- closed necessary stale nodes are queued, except the excused ones -/
  queued : ∀ m, op m = .closed → s.isNecessary m = true → s.isStale m = true → ¬ ex m →
    (s.nodeD m).inRch = true
  /-- only stale nodes are queued -/
  qstale : ∀ m, (s.nodeD m).inRch = true → s.isStale m = true
  opLt : ∀ m, op m ≠ .closed → m < s.nodes.size

/-- nobody is excused -/
def noEx : Nat → Prop := fun _ => False

/-- the structural invariant at rest -/
def StructB (env : Env) (s : State) : Prop := GInvB env s allClosed noEx

/-! ## basic facts -/

theorem children_default (s : State) (n : Nat) (h : s.nodes.size ≤ n) : s.children n = [] := by
  unfold State.children
  rw [nodeD_default s n h]
  rfl

theorem getElem?_mem {l : List Nat} {i c : Nat} (h : l[i]? = some c) : c ∈ l := List.mem_of_getElem? h

namespace GInvB
variable {env : Env} {s : State} {op : Nat → Op} {ex : Nat → Prop}

theorem node (I : GInvB env s op ex) {n : Nat} (h : n < s.nodes.size) : BNode env s n := I.frag.node n h

theorem kid_lt (I : GInvB env s op ex) {p i c : Nat} (h : (s.children p)[i]? = some c) : c < p := by
  by_cases hp : p < s.nodes.size
  · exact (I.node hp).kidsLt c (getElem?_mem h)
  · rw [children_default s p (by omega)] at h; simp at h

theorem kid_lt_size (_I : GInvB env s op ex) {p i c : Nat} (h : (s.children p)[i]? = some c) :
    p < s.nodes.size := by
  by_cases hp : p < s.nodes.size
  · exact hp
  · rw [children_default s p (by omega)] at h; simp at h

theorem par_lt (I : GInvB env s op ex) {c p i : Nat} (h : (p, i) ∈ (s.nodeD c).parents) : c < p :=
  I.kid_lt (I.par c p i h).1

theorem par_lt_size (I : GInvB env s op ex) {c p i : Nat} (h : (p, i) ∈ (s.nodeD c).parents) :
    p < s.nodes.size := I.kid_lt_size (I.par c p i h).1

end GInvB

/-! ## `StructB` gives the structural part of the drain invariant -/

theorem StructB.heapInv {env : Env} {s : State} (I : StructB env s) : HeapInv s where
  wf := I.heap.wf
  hgt m hm := I.hgt m hm rfl
  lb m hm := by rw [← I.hgt m hm rfl]; exact I.heap.lb m hm
  lb0 := I.heap.lb0
  nec m hm := by
    rcases I.qnec m hm with h | ⟨k, h⟩
    · exact h
    · cases h

theorem StructB.graph {env : Env} {s : State} (I : StructB env s) (V : VarsOK s) : BGraph env s where
  pc := I.frag.pc
  node n hn _ := by
    have sn := I.node hn
    refine ⟨sn.kind, sn.cutoff, fun c hc => ?_⟩
    have hlt : c < s.nodes.size := by have := sn.kidsLt c hc; omega
    exact ⟨hlt, (I.node hlt).valid⟩
  nec n hn := ⟨(I.node (nec_lt_size hn)).valid, I.hpos n hn rfl⟩
  var n c hn _ hk := by
    obtain ⟨vc, h, -⟩ := V.node n c hn hk
    exact ⟨vc, h⟩
  child n hn i c hk := by
    have hm := I.conv n i c hk ((wants_closed rfl).2 hn)
    exact ⟨nec_of_mem_parents hm, hm, I.hlt c n i hm rfl⟩
  parent c p i h := by
    obtain ⟨h1, h2⟩ := I.par c p i h
    exact ⟨(wants_closed rfl).1 h2, h1⟩
  scope n b hn _ hsc := by
    have := (I.node hn).top
    rw [hsc] at this; cases this
  lcRec n b hn _ hk := (I.node hn).lcRec b hk
  mainRec n b lc hn _ hk := by
    obtain ⟨br, h1, h2, h3⟩ := (I.node hn).mainRec b lc hk
    refine ⟨br, h1, h2, h3, ?_⟩
    rw [(I.node hn).top]
    by_cases hl : lc < s.nodes.size
    · exact (I.node hl).top
    · rw [nodeD_default s lc (by omega)]; rfl
  lcChild m c b hm _ hc hk := (I.node hm).lcChild c b hc hk
  acyc := by
    refine ⟨id, ?_⟩
    intro a c h
    cases h with
    | child hc =>
      by_cases ha : a < s.nodes.size
      · exact (I.node ha).kidsLt c hc
      · rw [children_default s a (by omega)] at hc; cases hc
    | scope hv hsc hb =>
      rename_i b br
      by_cases ha : a < s.nodes.size
      · have := (I.node ha).top
        rw [hsc] at this; cases this
      · rw [nodeD_default s a (by omega)] at hsc; cases hsc

/-- at rest the heap holds exactly the necessary stale nodes -/
theorem StructB.queued_iff {env : Env} {s : State} (I : StructB env s) (m : Nat) :
    (s.nodeD m).inRch = true ↔ (s.isNecessary m = true ∧ s.isStale m = true) := by
  constructor
  · intro h
    exact ⟨I.heapInv.nec m h, I.qstale m h⟩
  · rintro ⟨hn, hs⟩
    exact I.queued m rfl hn hs (fun h => h)

/-! ## frames -/

/-- `SameG` plus the bind table -/
structure SameB (s s' : State) : Prop where
  g : SameG s s'
  binds : s'.binds = s.binds

theorem SameB.refl (s : State) : SameB s s := ⟨SameG.refl s, rfl⟩

theorem SameB.trans {a b c : State} (h1 : SameB a b) (h2 : SameB b c) : SameB a c :=
  ⟨h1.g.trans h2.g, h2.binds.trans h1.binds⟩

/-- the child list only depends on kind, validity and the record tables -/
theorem children_congr {s s' : State} {n : Nat} (hk : (s'.nodeD n).kind = (s.nodeD n).kind)
    (hv : (s'.nodeD n).valid = (s.nodeD n).valid) (hb : s'.binds = s.binds) (he : s'.experts = s.experts) :
    s'.children n = s.children n := by
  unfold State.children Node.kind?
  rw [hk, hv, hb, he]

/-- the child list of a node of the bind fragment does not read the expert table -/
theorem children_congr_B {env : Env} {s s' : State} {n : Nat} (hk : (s'.nodeD n).kind = (s.nodeD n).kind)
    (hv : (s'.nodeD n).valid = (s.nodeD n).valid) (hb : s'.binds = s.binds)
    (hB : BKind env (s.nodeD n).kind) : s'.children n = s.children n := by
  unfold State.children Node.kind?
  rw [hk, hv, hb]
  cases hvv : (s.nodeD n).valid
  · rfl
  · cases h : (s.nodeD n).kind <;> rw [h] at hB <;> first | rfl | exact False.elim hB

/-- staleness of a node of the bind fragment: what it reads -/
theorem isStale_congr_B {env : Env} {s s' : State} {m : Nat} (hB : BKind env (s.nodeD m).kind)
    (hk : (s'.nodeD m).kind = (s.nodeD m).kind) (hv : (s'.nodeD m).valid = (s.nodeD m).valid)
    (hr : (s'.nodeD m).recomputedAt = (s.nodeD m).recomputedAt) (hvars : s'.vars = s.vars)
    (hb : s'.binds = s.binds)
    (hc : ∀ c, c ∈ s.children m → (s'.nodeD c).changedAt = (s.nodeD c).changedAt) :
    s'.isStale m = s.isStale m := by
  have hch := children_congr_B hk hv hb hB
  unfold State.isStale
  simp only [hch, Node.kind?, hk, hv, hr, hvars]
  have hany : ((s.children m).any fun c => decide ((s'.nodeD c).changedAt > (s.nodeD m).recomputedAt)) =
      ((s.children m).any fun c => decide ((s.nodeD c).changedAt > (s.nodeD m).recomputedAt)) := by
    apply any_congr'
    intro a ha
    rw [hc a ha]
  rw [hany]
  cases hvv : (s.nodeD m).valid
  · rfl
  · cases h : (s.nodeD m).kind <;> rw [h] at hB <;> first | rfl | exact False.elim hB

end IncrVerif.Proofs.BindH
