import IncrVerif.Proofs.TidyH31
/-!
# Converse simulation (virtual run returns ⇒ actual run returns), part 1: the calculus
-/
namespace IncrVerif.Proofs.TidyH.XT
namespace XR
open IncrVerif.Engine IncrVerif.Driver IncrVerif.Proofs IncrVerif.Proofs.Step IncrVerif.Proofs.Sched
open IncrVerif.Proofs.ExpertH

/-- what the converse simulation needs to know of the actual state: `Fr` + every expert node has its record -/
structure FrR (s : State) : Prop where
  fr : Fr s
  xrec : ∀ n e, (s.nodeD n).kind = .expert e → ∃ er, s.experts[e]? = some er

theorem FrR.of_frag {env : Env} {s : State} (F : XFrag env s) (hp : s.propagateInvalidity = []) : FrR s := by
  refine ⟨F.fr hp, fun n e hk => ?_⟩
  have ln : n < s.nodes.size := by
    by_cases h : n < s.nodes.size
    · exact h
    · rw [nodeD_default_of_ge s n (by omega)] at hk; cases hk
  obtain ⟨er, h, _⟩ := F.xrec n e ln hk
  exact ⟨er, h⟩

/-- the general way to keep `FrR`: every expert kind of `s'` is an expert kind of `s`, no record is lost -/
theorem FrR.of_fr {s s' : State} (h : FrR s) (fr : Fr s')
    (hk : ∀ m e, (s'.nodeD m).kind = .expert e → ∃ m', (s.nodeD m').kind = .expert e)
    (hs : s.experts.size ≤ s'.experts.size) : FrR s' := by
  refine ⟨fr, fun n e hn => ?_⟩
  obtain ⟨m', hm'⟩ := hk n e hn
  obtain ⟨er, he⟩ := h.xrec m' e hm'
  have hlt : e < s.experts.size := by
    rcases Nat.lt_or_ge e s.experts.size with h1 | h1
    · exact h1
    · rw [Array.getElem?_eq_none h1] at he; cases he
  exact ⟨s'.experts[e]'(by omega), Array.getElem?_eq_getElem (by omega)⟩

theorem FrR.of_kinds {s s' : State} (h : FrR s) (fr : Fr s')
    (hk : ∀ m, (s'.nodeD m).kind = (s.nodeD m).kind) (hs : s'.experts.size = s.experts.size) : FrR s' :=
  h.of_fr fr (fun m e hm => ⟨m, by rw [← hk]; exact hm⟩) (by omega)

theorem FrR.of_nodes {s s' : State} (h : FrR s) (e : s'.nodes = s.nodes)
    (e2 : s'.propagateInvalidity = s.propagateInvalidity) (e3 : s'.panicCountdown = s.panicCountdown)
    (e4 : s'.experts = s.experts) : FrR s' :=
  h.of_kinds (h.fr.of_nodes e e2 e3 e4) (fun n => by simp [State.nodeD, e]) (by rw [e4])

theorem FrR.nd {s : State} (h : FrR s) {n : Nat} {nd : Node} (hn : s.nodes[n]? = some nd) :
    XK nd.kind ∧ nd.valid = true := h.fr.some hn

theorem FrR.xrec_some {s : State} (h : FrR s) {n e : Nat} {nd : Node} (hn : s.nodes[n]? = some nd)
    (hk : nd.kind = .expert e) : ∃ er, s.experts[e]? = some er :=
  h.xrec n e (by rw [nodeD_of_some hn]; exact hk)

theorem FrR.of_veq {s s' : State} (h : FrR s) (hv : VEq s s') (hs : s'.experts.size = s.experts.size) : FrR s' :=
  h.of_kinds (hv.fr h.fr) hv.kind hs

def SimRAt (s : State) {α} (x x' : M α) : Prop :=
  FrR s → ∀ r t, x'.run.run (virt s) = (.ok r, t) → ∃ s', x.run.run s = (.ok r, s') ∧ t = virt s' ∧ FrR s'

def SimR {α} (x x' : M α) : Prop := ∀ s, SimRAt s x x'

section
variable {s : State} {α β : Type}

theorem SimR.at {x x' : M α} (h : SimR x x') (s : State) : SimRAt s x x' := h s

theorem SimRAt.ret (a : α) : SimRAt s (pure a : M α) (pure a) := by
  intro hn r t h; rw [run_pure] at h; cases h; exact ⟨s, rfl, rfl, hn⟩

/-- the virtual side throws: nothing to show -/
theorem SimRAt.thr (x : M α) (e : Panic) : SimRAt s x (throw e : M α) := by
  intro _ r t h; rw [run_throw] at h; cases h

theorem SimRAt.pan (x : M α) (e : String) : SimRAt s x (Engine.panic e : M α) := SimRAt.thr _ _

theorem SimRAt.seq {x x' : M α} {f f' : α → M β} (hx : SimRAt s x x')
    (hf : ∀ a s1, x.run.run s = (.ok a, s1) → SimRAt s1 (f a) (f' a)) :
    SimRAt s (x >>= f) (x' >>= f') := by
  intro hn r t h
  obtain ⟨a, t1, h1, h2⟩ := bind_ok_inv h
  obtain ⟨s1, e1, e0, n1⟩ := hx hn a t1 h1
  rw [e0] at h2
  obtain ⟨s', e2, e3, n2⟩ := hf a s1 e1 n1 r t h2
  exact ⟨s', by rw [run_bind_ok e1]; exact e2, e3, n2⟩

/-- the virtual side does nothing for the first half -/
theorem SimRAt.seq_left {x : M α} {f : α → M β} {y' : M β} (hx : SimRAt s (x >>= fun _ => pure ()) (pure ()))
    (hf : ∀ a s1, x.run.run s = (.ok a, s1) → SimRAt s1 (f a) y') :
    SimRAt s (x >>= f) y' := by
  intro hn r t h
  obtain ⟨s1, e1, e2, n1⟩ := hx hn () (virt s) (run_pure _ _)
  obtain ⟨a, s1', h1, h2⟩ := bind_ok_inv e1
  rw [run_pure] at h2
  have e3 : s1' = s1 := congrArg Prod.snd h2
  rw [e3] at h1
  rw [e2] at h
  obtain ⟨s', e3, e4, n2⟩ := hf a s1 h1 n1 r t h
  exact ⟨s', by rw [run_bind_ok h1]; exact e3, e4, n2⟩

/-- invisible (total) work followed by `k` is simulated by `k'` if `k` is -/
theorem SimRAt.veq_seq {x : M Unit} {k : Unit → M β} {k' : M β} (hx : SimRAt s x (pure ()))
    (hk : ∀ s1, x.run.run s = (.ok (), s1) → SimRAt s1 (k ()) k') : SimRAt s (x >>= k) k' := by
  intro hn r t h
  obtain ⟨s1, e1, e2, n1⟩ := hx hn () (virt s) (run_pure _ _)
  rw [e2] at h
  obtain ⟨s', e3, e4, n2⟩ := hk s1 e1 n1 r t h
  exact ⟨s', by rw [run_bind_ok e1]; exact e3, e4, n2⟩

theorem SimRAt.get_seq {k k' : State → M β} (h : SimRAt s (k s) (k' (virt s))) :
    SimRAt s (get >>= k) (get >>= k') := by
  intro hn r t hr
  rw [run_bind_get] at hr ⊢
  exact h hn r t hr

/-- a read of the state on the actual side only -/
theorem SimRAt.getL_seq {k : State → M β} {x' : M β} (h : SimRAt s (k s) x') :
    SimRAt s (get >>= k) x' := by
  intro hn r t hr
  rw [run_bind_get]
  exact h hn r t hr

theorem SimRAt.getNode_seq {n : Nat} {k k' : Node → M β}
    (h : ∀ nd, s.nodes[n]? = some nd → XK nd.kind → nd.valid = true →
      SimRAt s (k nd) (k' (virtNode s.experts nd))) :
    SimRAt s (getNode n >>= k) (getNode n >>= k') := by
  intro hn r t hr
  obtain ⟨vnd, hvnd, hr⟩ := bind_getNode_inv hr
  rw [virt_getElem?] at hvnd
  cases hnd : s.nodes[n]? with
  | none => rw [hnd] at hvnd; cases hvnd
  | some nd =>
    rw [hnd] at hvnd
    simp only [Option.map_some, Option.some.injEq] at hvnd
    rw [← hvnd] at hr
    obtain ⟨s', e1, e2, n2⟩ := h nd hnd (hn.nd hnd).1 (hn.nd hnd).2 hn r t hr
    exact ⟨s', by rw [run_bind_ok (run_getNode_some hnd)]; exact e1, e2, n2⟩

/-- a read of a node on the actual side only: the node must exist -/
theorem SimRAt.getNodeL_seq {n : Nat} {k : Node → M β} {x' : M β} (hex : ∃ nd, s.nodes[n]? = some nd)
    (h : ∀ nd, s.nodes[n]? = some nd → XK nd.kind → nd.valid = true → SimRAt s (k nd) x') :
    SimRAt s (getNode n >>= k) x' := by
  intro hn r t hr
  obtain ⟨nd, hnd⟩ := hex
  obtain ⟨s', e1, e2, n2⟩ := h nd hnd (hn.nd hnd).1 (hn.nd hnd).2 hn r t hr
  exact ⟨s', by rw [run_bind_ok (run_getNode_some hnd)]; exact e1, e2, n2⟩

/-- a read of an expert record (actual side only): the record must exist -/
theorem SimRAt.getExpertL_seq {e : Nat} {k : ExpertRec → M β} {x' : M β} (hex : ∃ er, s.experts[e]? = some er)
    (h : ∀ er, s.experts[e]? = some er → SimRAt s (k er) x') :
    SimRAt s (getExpert e >>= k) x' := by
  intro hn r t hr
  obtain ⟨er, he⟩ := hex
  obtain ⟨s', e1, e2, n2⟩ := h er he hn r t hr
  exact ⟨s', by rw [run_bind_ok (Xp.run_getExpert_some he)]; exact e1, e2, n2⟩

theorem SimRAt.mod {f f' : State → State} (h : virt (f s) = f' (virt s)) (hn : (f s).nodes = s.nodes)
    (hp : (f s).propagateInvalidity = s.propagateInvalidity) (hc : (f s).panicCountdown = s.panicCountdown)
    (he : (f s).experts = s.experts) :
    SimRAt s (modify f : M Unit) (modify f') := by
  intro hne r t hr; rw [run_modify] at hr; cases hr
  exact ⟨f s, run_modify _ _, h.symm, hne.of_nodes hn hp hc he⟩

theorem SimRAt.mod_seq {f f' : State → State} {k k' : Unit → M β} (h : virt (f s) = f' (virt s))
    (hn : (f s).nodes = s.nodes) (hp : (f s).propagateInvalidity = s.propagateInvalidity)
    (hc : (f s).panicCountdown = s.panicCountdown) (he : (f s).experts = s.experts)
    (hk : SimRAt (f s) (k ()) (k' ())) :
    SimRAt s ((modify f : M Unit) >>= k) ((modify f' : M Unit) >>= k') := by
  intro hne r t hr
  rw [run_bind_modify] at hr ⊢
  rw [← h] at hr; exact hk (hne.of_nodes hn hp hc he) r t hr

theorem SimRAt.cond {c c' : Prop} {_ : Decidable c} {_ : Decidable c'} {a b a' b' : M α} (hc : c ↔ c')
    (ha : c → SimRAt s a a') (hb : ¬ c → SimRAt s b b') :
    SimRAt s (if c then a else b) (if c' then a' else b') := by
  by_cases h : c
  · rw [if_pos h, if_pos (hc.1 h)]; exact ha h
  · rw [if_neg h, if_neg (fun h' => h (hc.2 h'))]; exact hb h

theorem SimRAt.ite_left {c : Prop} {_ : Decidable c} {a b x' : M α}
    (ha : c → SimRAt s a x') (hb : ¬ c → SimRAt s b x') : SimRAt s (if c then a else b) x' := by
  by_cases h : c
  · rw [if_pos h]; exact ha h
  · rw [if_neg h]; exact hb h

theorem frr_modify {s : State} (hn : FrR s) (n : Nat) (f : Node → Node)
    (hk : ∀ nd, (f nd).kind = nd.kind ∧ (f nd).valid = nd.valid) :
    FrR { s with nodes := s.nodes.modify n f } := by
  refine hn.of_kinds (fr_modify hn.fr n f hk) (fun m => ?_) rfl
  rw [nodeD_modify]
  split
  · exact (hk _).1
  · rfl

/-- a commuting node update -/
theorem SimR.modNode (n : Nat) {f f' : Node → Node} (hf : ∀ xs nd, virtNode xs (f nd) = f' (virtNode xs nd))
    (hk : ∀ nd, (f nd).kind = nd.kind ∧ (f nd).valid = nd.valid) :
    SimR (Engine.modNode n f) (Engine.modNode n f') := by
  intro s hne r t hr
  rw [run_modNode] at hr
  cases hr
  exact ⟨_, run_modNode _ _ _, by rw [virt_modNode s n f f' (hf _)], frr_modify hne n f hk⟩

theorem SimR.forIn {γ : Type} (l : List γ) {f f' : γ → β → M (ForInStep β)} (h : ∀ a b, SimR (f a b) (f' a b))
    (b : β) : SimR (ForIn.forIn l b f) (ForIn.forIn l b f') := by
  induction l generalizing b with
  | nil => intro s; rw [List.forIn_nil, List.forIn_nil]; exact SimRAt.ret _
  | cons a l ih =>
    intro s
    rw [List.forIn_cons, List.forIn_cons]
    refine SimRAt.seq (h a b s) fun r s1 _ => ?_
    cases r with
    | done b' => exact SimRAt.ret _
    | yield b' => exact ih b' s1

theorem SimRAt.forIn_at {γ : Type} (l : List γ) {f f' : γ → β → M (ForInStep β)}
    (h : ∀ a b, SimR (f a b) (f' a b)) (b : β) {s : State} :
    SimRAt s (ForIn.forIn l b f) (ForIn.forIn l b f') := SimR.forIn l h b s

theorem SimRAt.map {x x' : M α} (f : α → β) (hx : SimRAt s x x') : SimRAt s (f <$> x) (f <$> x') := by
  rw [map_eq_pure_bind, map_eq_pure_bind]
  exact SimRAt.seq hx fun _ _ _ => SimRAt.ret _

theorem SimRAt.discard {x x' : M α} (hx : SimRAt s x x') : SimRAt s (discard x) (discard x') := by
  unfold Functor.discard
  exact SimRAt.map (Function.const α PUnit.unit) hx

theorem SimR.mapM {γ : Type} {f f' : γ → M β} (h : ∀ a, SimR (f a) (f' a)) (l : List γ) :
    SimR (l.mapM f) (l.mapM f') := by
  induction l with
  | nil => intro s; simp only [List.mapM_nil]; exact SimRAt.ret _
  | cons a l ih =>
    intro s
    simp only [List.mapM_cons]
    exact SimRAt.seq (h a s) fun _ s1 _ => SimRAt.seq (ih s1) fun _ _ _ => SimRAt.ret _

end

theorem SimR.dassert (c : Bool) (site : String) : SimR (Engine.dassert c site) (Engine.dassert c site) := by
  intro s hn r t h
  rw [run_dassert] at h
  by_cases hc : s.cfg.debug = true ∧ c = false
  · rw [virt_cfg, if_pos hc] at h; cases h
  · rw [virt_cfg, if_neg hc] at h; cases h
    exact ⟨s, by rw [run_dassert, if_neg hc], rfl, hn⟩

theorem SimR.assertM (c : Bool) (site : String) : SimR (Engine.assertM c site) (Engine.assertM c site) := by
  intro s hn r t h
  rw [run_assertM] at h
  split at h
  · rename_i hc; cases h; exact ⟨s, by rw [run_assertM, if_pos hc], rfl, hn⟩
  · cases h

theorem SimR.tick : SimR Engine.tick Engine.tick := by
  intro s hn r t h
  rw [run_tick_none (virt s) hn.fr.pc] at h
  cases h
  exact ⟨s, run_tick_none s hn.fr.pc, rfl, hn⟩

theorem SimR.logEv (e : Event) : SimR (Engine.logEv e) (if keepEv e then Engine.logEv e else pure ()) := by
  intro s hn r t h
  refine ⟨_, run_logEv e s, ?_, hn.of_nodes rfl rfl rfl rfl⟩
  cases hk : keepEv e
  · rw [if_neg (by simp [hk]), run_pure] at h
    cases h
    simp only [virt, List.filter_cons, hk]; rfl
  · rw [if_pos hk, run_logEv] at h
    cases h
    simp only [virt, List.filter_cons, hk]; rfl

theorem SimR.logEv_keep (e : Event) (h : keepEv e = true) : SimR (Engine.logEv e) (Engine.logEv e) := by
  have := SimR.logEv e; rwa [if_pos h] at this

/-! ## work that is invisible in the virtual state: it must be TOTAL -/

section
variable {s : State} {β : Type}

/-- an invisible program that returns (keeping the size of the expert array) is simulated by doing nothing -/
theorem SimRAt.of_veq {x : M Unit} (h : Step.Pres VEqP x)
    (ht : FrR s → ∃ s', x.run.run s = (.ok (), s') ∧ s'.experts.size = s.experts.size) :
    SimRAt s x (pure ()) := by
  intro hn r t hr
  rw [run_pure] at hr; cases hr
  obtain ⟨s', h1, h2⟩ := ht hn
  have hv := h.h s _ s' h1 hn.fr.pc
  exact ⟨s', h1, hv.veq.symm, hn.of_veq hv h2⟩

end

theorem tot_observabilityChange {s : State} {e : Nat} (b : Bool) (hex : ∃ er, s.experts[e]? = some er) :
    ∃ s', (Engine.observabilityChange e b).run.run s = (.ok (), s') ∧ s'.experts.size = s.experts.size := by
  obtain ⟨er, he⟩ := hex
  unfold Engine.observabilityChange
  rw [run_bind_ok (Xp.run_getExpert_some he)]
  cases hpk : er.pk.isNone <;> cases b <;>
    simp only [if_true, if_false, Bool.false_eq_true, Bool.not_true, Bool.not_false, bind_assoc, pure_bind,
      run_bind_get, run_bind_logEv, run_pure, Xp.run_modExpert] <;>
    exact ⟨_, rfl, by simp⟩

theorem SimRAt.observabilityChange {s : State} {e : Nat} (b : Bool) (hex : ∃ er, s.experts[e]? = some er) :
    SimRAt s (Engine.observabilityChange e b) (pure ()) :=
  SimRAt.of_veq (PresV.observabilityChange e b) fun _ => tot_observabilityChange b hex

theorem tot_edgeOnChange {s : State} (env : Env) {e : Nat} (edge : ExpertEdge) (hpc : s.panicCountdown = none)
    (hex : ∃ er, s.experts[e]? = some er) :
    ∃ s', (Engine.edgeOnChange env e edge).run.run s = (.ok (), s') ∧ s'.experts.size = s.experts.size := by
  obtain ⟨er, he⟩ := hex
  unfold Engine.edgeOnChange
  cases edge.cb with
  | none => exact ⟨s, rfl, rfl⟩
  | some c =>
    simp only [run_bind_get]
    cases s.value env edge.child with
    | none => exact ⟨s, rfl, rfl⟩
    | some v =>
      simp only []
      rw [run_bind_ok (Xp.run_getExpert_some he)]
      cases hpk : er.pk.isNone <;>
        simp only [if_true, if_false, Bool.false_eq_true, bind_assoc, pure_bind,
          run_bind_tick_none _ _ hpc, run_bind_logEv, run_pure, Xp.run_modExpert] <;>
        exact ⟨_, rfl, by simp⟩

theorem SimRAt.edgeOnChange {s : State} (env : Env) {e : Nat} (edge : ExpertEdge)
    (hex : ∃ er, s.experts[e]? = some er) : SimRAt s (Engine.edgeOnChange env e edge) (pure ()) :=
  SimRAt.of_veq (PresV.edgeOnChange env e edge) fun hn => tot_edgeOnChange env edge hn.fr.pc hex

theorem tot_runEdgeCallback {s : State} (env : Env) {e : Nat} (i : Nat) (hpc : s.panicCountdown = none)
    (hex : ∃ er, s.experts[e]? = some er) :
    ∃ s', (Engine.runEdgeCallback env e i).run.run s = (.ok (), s') ∧ s'.experts.size = s.experts.size := by
  obtain ⟨er, he⟩ := hex
  unfold Engine.runEdgeCallback
  rw [run_bind_ok (Xp.run_getExpert_some he)]
  cases er.willFireAllCallbacks
  · simp only [Bool.not_false, if_true]
    cases er.children[i]? with
    | none => exact ⟨s, rfl, rfl⟩
    | some edge => exact tot_edgeOnChange env edge hpc ⟨er, he⟩
  · exact ⟨s, rfl, rfl⟩

theorem SimRAt.runEdgeCallback {s : State} (env : Env) {e : Nat} (i : Nat)
    (hex : ∃ er, s.experts[e]? = some er) : SimRAt s (Engine.runEdgeCallback env e i) (pure ()) :=
  SimRAt.of_veq (PresV.runEdgeCallback env e i) fun hn => tot_runEdgeCallback env i hn.fr.pc hex

end XR
end IncrVerif.Proofs.TidyH.XT
