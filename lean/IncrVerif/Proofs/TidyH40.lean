import IncrVerif.Proofs.TidyH39
/-!
# Converse simulation, part 2: the `rsim` tactics; the heap and height functions (mirror of ExpertH24)
-/
namespace IncrVerif.Proofs.TidyH.XT
namespace XR
open IncrVerif.Engine IncrVerif.Driver IncrVerif.Proofs IncrVerif.Proofs.Step IncrVerif.Proofs.Sched
open IncrVerif.Proofs.ExpertH

/-- `FrR s` may be assumed while proving `SimRAt s` -/
theorem SimRAt.with_frr {s : State} {α} {x x' : M α} (h : FrR s → SimRAt s x x') : SimRAt s x x' :=
  fun hn => h hn hn

/-- the invisible leaves, the record being the one of an expert node read in the same state -/
theorem SimRAt.observabilityChange_nd {s : State} {n e : Nat} {nd : Node} (b : Bool)
    (hnd : s.nodes[n]? = some nd) (hk : nd.kind = .expert e) :
    SimRAt s (Engine.observabilityChange e b) (pure ()) :=
  SimRAt.with_frr fun hn => SimRAt.observabilityChange b (hn.xrec_some hnd hk)

theorem SimRAt.runEdgeCallback_nd {s : State} {n e : Nat} {nd : Node} (env : Env) (i : Nat)
    (hnd : s.nodes[n]? = some nd) (hk : nd.kind = .expert e) :
    SimRAt s (Engine.runEdgeCallback env e i) (pure ()) :=
  SimRAt.with_frr fun hn => SimRAt.runEdgeCallback env i (hn.xrec_some hnd hk)

/-- registered `SimR` lemmas -/
syntax "rsim_leaf" : tactic
macro_rules | `(tactic| rsim_leaf) => `(tactic| fail "no leaf")

/-- registered `SimRAt` lemmas that need hypotheses of the context (`hnd`, `hk` of `rsim_kind`) -/
syntax "rsim_leafAt" : tactic
macro_rules | `(tactic| rsim_leafAt) => `(tactic| fail "no leaf")

set_option hygiene false in
macro_rules | `(tactic| rsim_leafAt) => `(tactic|
  with_reducible exact IncrVerif.Proofs.TidyH.XT.XR.SimRAt.observabilityChange_nd _ hnd hk)
set_option hygiene false in
macro_rules | `(tactic| rsim_leafAt) => `(tactic|
  with_reducible exact IncrVerif.Proofs.TidyH.XT.XR.SimRAt.runEdgeCallback_nd _ _ hnd hk)

set_option hygiene false in
macro "rsim_step" : tactic => `(tactic| first
  | with_reducible exact IncrVerif.Proofs.TidyH.XT.XR.SimRAt.ret _
  | with_reducible exact IncrVerif.Proofs.TidyH.XT.XR.SimRAt.thr _ _
  | with_reducible exact IncrVerif.Proofs.TidyH.XT.XR.SimRAt.pan _ _
  | ((with_reducible refine IncrVerif.Proofs.TidyH.XT.XR.SimRAt.get_seq ?_); try xnorm)
  | ((with_reducible refine IncrVerif.Proofs.TidyH.XT.XR.SimRAt.getNode_seq fun nd hnd hxk hval => ?_); try xnorm)
  | ((with_reducible refine IncrVerif.Proofs.TidyH.XT.XR.SimRAt.mod_seq ?_ ?_ ?_ ?_ ?_ ?_) <;> (first | rfl | skip))
  | ((with_reducible refine IncrVerif.Proofs.TidyH.XT.XR.SimRAt.mod ?_ ?_ ?_ ?_ ?_) <;> rfl)
  | ((with_reducible refine IncrVerif.Proofs.TidyH.XT.XR.SimR.at ?_ _); rsim_leaf)
  | rsim_leafAt
  | ((with_reducible refine IncrVerif.Proofs.TidyH.XT.XR.SimRAt.forIn_at _ (fun _ _ => ?_) _); intro _)
  | (with_reducible refine IncrVerif.Proofs.TidyH.XT.XR.SimRAt.seq ?_ fun _ _ _ => ?_)
  | (refine IncrVerif.Proofs.TidyH.XT.XR.SimRAt.cond Iff.rfl (fun _ => ?_) (fun _ => ?_)))

macro "rsim" : tactic => `(tactic| repeat (any_goals rsim_step))

set_option hygiene false in
/-- a `match` on the kind of the node last read by `getNode` -/
macro "rsim_kind" : tactic => `(tactic| (
  simp only [IncrVerif.Proofs.ExpertH.virtNode_kind?, IncrVerif.Proofs.ExpertH.kind?_of_valid hval, Option.map_some]
  cases hk : nd.kind
  all_goals simp only [IncrVerif.Proofs.ExpertH.virtKind]
  all_goals try exact absurd hxk (by rw [hk]; exact fun h => h)
  rsim))

macro_rules | `(tactic| rsim_leaf) => `(tactic| with_reducible exact IncrVerif.Proofs.TidyH.XT.XR.SimR.dassert _ _)
macro_rules | `(tactic| rsim_leaf) => `(tactic| with_reducible exact IncrVerif.Proofs.TidyH.XT.XR.SimR.assertM _ _)
macro_rules | `(tactic| rsim_leaf) => `(tactic| with_reducible exact IncrVerif.Proofs.TidyH.XT.XR.SimR.tick)
macro_rules | `(tactic| rsim_leaf) => `(tactic|
  ((with_reducible refine IncrVerif.Proofs.TidyH.XT.XR.SimR.modNode _ ?_ ?_) <;> first | xcomm | xkind))

theorem SimR.addParent (c i p : Nat) : SimR (Engine.addParent c i p) (Engine.addParent c i p) := by
  intro s; unfold Engine.addParent; rsim
macro_rules | `(tactic| rsim_leaf) => `(tactic| with_reducible exact IncrVerif.Proofs.TidyH.XT.XR.SimR.addParent _ _ _)

theorem SimR.removeParent (c i p : Nat) : SimR (Engine.removeParent c i p) (Engine.removeParent c i p) := by
  intro s; unfold Engine.removeParent; rsim
  split <;> rsim
macro_rules | `(tactic| rsim_leaf) => `(tactic| with_reducible exact IncrVerif.Proofs.TidyH.XT.XR.SimR.removeParent _ _ _)

theorem SimR.setHeight (n : Nat) (h : Int) : SimR (Engine.setHeight n h) (Engine.setHeight n h) := by
  intro s; unfold Engine.setHeight; rsim
macro_rules | `(tactic| rsim_leaf) => `(tactic| with_reducible exact IncrVerif.Proofs.TidyH.XT.XR.SimR.setHeight _ _)

theorem SimR.rchLink (n : Nat) : SimR (Engine.rchLink n) (Engine.rchLink n) := by
  intro s; unfold Engine.rchLink; rsim
macro_rules | `(tactic| rsim_leaf) => `(tactic| with_reducible exact IncrVerif.Proofs.TidyH.XT.XR.SimR.rchLink _)

theorem SimR.rchUnlink (n : Nat) : SimR (Engine.rchUnlink n) (Engine.rchUnlink n) := by
  intro s; unfold Engine.rchUnlink; rsim
  split <;> rsim
  split <;> rsim
  split <;> rsim
macro_rules | `(tactic| rsim_leaf) => `(tactic| with_reducible exact IncrVerif.Proofs.TidyH.XT.XR.SimR.rchUnlink _)

theorem SimR.rchInsert (n : Nat) : SimR (Engine.rchInsert n) (Engine.rchInsert n) := by
  intro s; unfold Engine.rchInsert; rsim
macro_rules | `(tactic| rsim_leaf) => `(tactic| with_reducible exact IncrVerif.Proofs.TidyH.XT.XR.SimR.rchInsert _)

theorem SimR.rchRemove (n : Nat) : SimR (Engine.rchRemove n) (Engine.rchRemove n) := by
  intro s; unfold Engine.rchRemove; rsim
macro_rules | `(tactic| rsim_leaf) => `(tactic| with_reducible exact IncrVerif.Proofs.TidyH.XT.XR.SimR.rchRemove _)

theorem SimR.rchRemoveMin : SimR Engine.rchRemoveMin Engine.rchRemoveMin := by
  intro s; unfold Engine.rchRemoveMin; rsim
  split <;> rsim
macro_rules | `(tactic| rsim_leaf) => `(tactic| with_reducible exact IncrVerif.Proofs.TidyH.XT.XR.SimR.rchRemoveMin)

theorem SimR.rchMinHeight : SimR Engine.rchMinHeight Engine.rchMinHeight := by
  intro s; unfold Engine.rchMinHeight; rsim
  exact SimRAt.ret _
macro_rules | `(tactic| rsim_leaf) => `(tactic| with_reducible exact IncrVerif.Proofs.TidyH.XT.XR.SimR.rchMinHeight)

theorem SimR.rchIncreaseHeight (n : Nat) : SimR (Engine.rchIncreaseHeight n) (Engine.rchIncreaseHeight n) := by
  intro s; unfold Engine.rchIncreaseHeight; rsim
macro_rules | `(tactic| rsim_leaf) => `(tactic| with_reducible exact IncrVerif.Proofs.TidyH.XT.XR.SimR.rchIncreaseHeight _)

theorem SimR.ahhAddUnlessMem (n : Nat) : SimR (Engine.ahhAddUnlessMem n) (Engine.ahhAddUnlessMem n) := by
  intro s; unfold Engine.ahhAddUnlessMem; rsim
macro_rules | `(tactic| rsim_leaf) => `(tactic| with_reducible exact IncrVerif.Proofs.TidyH.XT.XR.SimR.ahhAddUnlessMem _)

theorem SimR.ahhRemoveMin : SimR Engine.ahhRemoveMin Engine.ahhRemoveMin := by
  intro s; unfold Engine.ahhRemoveMin; rsim
  split <;> rsim
macro_rules | `(tactic| rsim_leaf) => `(tactic| with_reducible exact IncrVerif.Proofs.TidyH.XT.XR.SimR.ahhRemoveMin)

theorem SimR.ensureHeightRequirement (oc op c p : Nat) :
    SimR (Engine.ensureHeightRequirement oc op c p) (Engine.ensureHeightRequirement oc op c p) := by
  intro s; unfold Engine.ensureHeightRequirement; rsim
macro_rules | `(tactic| rsim_leaf) => `(tactic|
  with_reducible exact IncrVerif.Proofs.TidyH.XT.XR.SimR.ensureHeightRequirement _ _ _ _)

theorem SimR.getBind (b : Nat) : SimR (Engine.getBind b) (Engine.getBind b) := by
  intro s; unfold Engine.getBind; rsim
  split <;> rsim
macro_rules | `(tactic| rsim_leaf) => `(tactic| with_reducible exact IncrVerif.Proofs.TidyH.XT.XR.SimR.getBind _)

theorem SimR.bumpCounter (f : Counters → Counters) : SimR (Engine.bumpCounter f) (Engine.bumpCounter f) := by
  intro s; unfold Engine.bumpCounter; rsim
macro_rules | `(tactic| rsim_leaf) => `(tactic| with_reducible exact IncrVerif.Proofs.TidyH.XT.XR.SimR.bumpCounter _)

theorem SimR.scopeHeight (sc : Scope) : SimR (Engine.scopeHeight sc) (Engine.scopeHeight sc) := by
  intro s; unfold Engine.scopeHeight
  cases sc with
  | top => rsim
  | bind b => rsim
macro_rules | `(tactic| rsim_leaf) => `(tactic| with_reducible exact IncrVerif.Proofs.TidyH.XT.XR.SimR.scopeHeight _)

theorem SimR.scopeIsNecessary (sc : Scope) : SimR (Engine.scopeIsNecessary sc) (Engine.scopeIsNecessary sc) := by
  intro s; unfold Engine.scopeIsNecessary
  cases sc with
  | top => rsim
  | bind b => rsim
macro_rules | `(tactic| rsim_leaf) => `(tactic| with_reducible exact IncrVerif.Proofs.TidyH.XT.XR.SimR.scopeIsNecessary _)

theorem SimR.handleAfterStabilisation (n : Nat) :
    SimR (Engine.handleAfterStabilisation n) (Engine.handleAfterStabilisation n) := by
  intro s; unfold Engine.handleAfterStabilisation; rsim
macro_rules | `(tactic| rsim_leaf) => `(tactic|
  with_reducible exact IncrVerif.Proofs.TidyH.XT.XR.SimR.handleAfterStabilisation _)

theorem SimR.maybeHandleAfterStabilisation (n : Nat) :
    SimR (Engine.maybeHandleAfterStabilisation n) (Engine.maybeHandleAfterStabilisation n) := by
  intro s; unfold Engine.maybeHandleAfterStabilisation; rsim
macro_rules | `(tactic| rsim_leaf) => `(tactic|
  with_reducible exact IncrVerif.Proofs.TidyH.XT.XR.SimR.maybeHandleAfterStabilisation _)

/-- no map_ref nodes: a no-op on both sides -/
theorem SimR.markMapRefUnknown (fuel n : Nat) :
    SimR (Engine.markMapRefUnknown fuel n) (Engine.markMapRefUnknown fuel n) := by
  intro s
  cases fuel with
  | zero => unfold Engine.markMapRefUnknown; rsim
  | succ fuel =>
    unfold Engine.markMapRefUnknown
    rsim
    rsim_kind
macro_rules | `(tactic| rsim_leaf) => `(tactic| with_reducible exact IncrVerif.Proofs.TidyH.XT.XR.SimR.markMapRefUnknown _ _)

/-! ## `adjust_heights` (no bind nodes: the `bindLhsChange` branch is dead) -/

theorem SimR.adjustHeightsLoop (oc op fuel : Nat) :
    SimR (Engine.adjustHeightsLoop oc op fuel) (Engine.adjustHeightsLoop oc op fuel) := by
  induction fuel with
  | zero => intro s; unfold Engine.adjustHeightsLoop; rsim
  | succ fuel ih =>
    intro s
    unfold Engine.adjustHeightsLoop
    refine SimRAt.seq (SimR.ahhRemoveMin s) fun r s1 _ => ?_
    cases r with
    | none => exact SimRAt.ret _
    | some c =>
      dsimp only
      rsim
      all_goals first
        | exact ih _
        | (rsim_kind; all_goals exact ih _)
macro_rules | `(tactic| rsim_leaf) => `(tactic|
  with_reducible exact IncrVerif.Proofs.TidyH.XT.XR.SimR.adjustHeightsLoop _ _ _)

theorem SimR.adjustHeights (oc op fuel : Nat) :
    SimR (Engine.adjustHeights oc op fuel) (Engine.adjustHeights oc op fuel) := by
  intro s; unfold Engine.adjustHeights; rsim
  · simp only [virt_nodeD, virtNode_height]; rfl
macro_rules | `(tactic| rsim_leaf) => `(tactic| with_reducible exact IncrVerif.Proofs.TidyH.XT.XR.SimR.adjustHeights _ _ _)



end XR
end IncrVerif.Proofs.TidyH.XT
