import IncrVerif.Proofs.CutH4
-- Port of Proofs/Sched6.lean to ARBITRARY cutoffs (scratch name S6); overview in Props/C06History.lean
/-!
# C06 for whole histories, part 5: no node runs twice in one round (any cutoff)

Port of `Proofs/Sched6.lean`; `Sched.chainTrace`, `Sched.drainTrace`, `Sched.RanOnce` are re-used.
-/
namespace IncrVerif.Proofs.CutH
open IncrVerif.Engine IncrVerif.Proofs IncrVerif.Proofs.Step IncrVerif.Proofs.Sched

theorem chain_once {env : Env} {e : Bool} : ∀ (fuel n : Nat) (s s' : State), Inv env e s (some n) →
    (recompute env fuel n).run.run s = (.ok (), s') →
    (chainTrace env fuel n s).Nodup ∧ ∀ m, m ∈ chainTrace env fuel n s → RanOnce s s' m := by
  intro fuel
  induction fuel with
  | zero => intro n s s' _ h; unfold recompute at h; cases h
  | succ fuel ih =>
    intro n s s' I h
    unfold recompute at h
    obtain ⟨r, s1, h1, h2⟩ := bind_ok_inv h
    obtain ⟨I1, f1, hn1⟩ := recomputeOne_inv I h1
    have hn0 := I.cur_not_yet
    have hnec := (I.cur n rfl).1
    unfold chainTrace
    rw [h1]
    cases r with
    | none =>
      obtain ⟨-, rfl⟩ := pure_ok_inv h2
      refine ⟨by simp, ?_⟩
      intro m hm
      rw [List.mem_singleton] at hm
      subst hm
      exact ⟨hnec, hn0, hn1⟩
    | some p =>
      obtain ⟨hnd, hall⟩ := ih p s1 s' I1 h2
      obtain ⟨-, f2⟩ := recompute_inv fuel p s1 s' I1 h2
      have hnot : n ∉ chainTrace env fuel p s1 := by
        intro hmem
        have := (hall n hmem).2.1
        rw [f1.stabNum] at this
        omega
      refine ⟨List.nodup_cons.2 ⟨hnot, hnd⟩, ?_⟩
      intro m hm
      rcases List.mem_cons.1 hm with rfl | hm
      · refine ⟨hnec, hn0, ?_⟩
        have := f2.ran m (by rw [f1.stabNum]; exact hn1)
        rw [f1.stabNum] at this; exact this
      · exact (hall m hm).extend_left f1 I.stamps

/-- **at most once.** The nodes run by a successful `drainHeap` from a state satisfying the drain
invariant are pairwise distinct; each is necessary, had `recomputedAt < stabNum` before the drain and
has `recomputedAt = stabNum` after it. -/
theorem drain_once {env : Env} {e : Bool} : ∀ (fuel : Nat) (s s' : State), DrainInv env e s →
    (drainHeap env fuel).run.run s = (.ok (), s') →
    (drainTrace env fuel s).Nodup ∧ ∀ m, m ∈ drainTrace env fuel s → RanOnce s s' m := by
  intro fuel
  induction fuel with
  | zero => intro s s' _ h; unfold drainHeap at h; cases h
  | succ fuel ih =>
    intro s s' I h
    unfold drainHeap at h
    obtain ⟨r, s1, h1, h2⟩ := bind_ok_inv h
    unfold drainTrace
    rw [h1]
    cases r with
    | none => exact ⟨List.nodup_nil, fun m hm => by cases hm⟩
    | some n =>
      obtain ⟨u, s2, h3, h4⟩ := bind_ok_inv h2
      dsimp only
      rw [h3]
      dsimp only
      obtain ⟨I1, f1⟩ := pop_inv I h1
      obtain ⟨I2, f2⟩ := recompute_inv fuel n s1 s2 I1 h3
      obtain ⟨-, -, f3⟩ := drainHeap_inv fuel s2 s' I2 h4
      obtain ⟨hnd1, hall1⟩ := chain_once fuel n s1 s2 I1 h3
      obtain ⟨hnd2, hall2⟩ := ih s2 s' I2 h4
      refine ⟨List.nodup_append.2 ⟨hnd1, hnd2, ?_⟩, ?_⟩
      · intro a ha b hb e
        subst e
        have h5 := (hall1 a ha).2.2
        have h6 := (hall2 a hb).2.1
        rw [f2.stabNum] at h6
        omega
      · intro m hm
        rcases List.mem_append.1 hm with hm | hm
        · obtain ⟨a1, a2, a3⟩ := hall1 m hm
          have : RanOnce s1 s' m := by
            refine ⟨a1, a2, ?_⟩
            have := f3.ran m (by rw [f2.stabNum]; exact a3)
            rw [f2.stabNum] at this; exact this
          exact this.extend_left f1 I.stamps
        · exact (hall2 m hm).extend_left (f1.trans f2) I.stamps

end IncrVerif.Proofs.CutH
