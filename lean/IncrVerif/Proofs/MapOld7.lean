import IncrVerif.Proofs.MapOld5
import IncrVerif.Proofs.MapOld2
/-!
# map_with_old fragment: simulation of the notification walk, part 1
(`tick`, `shouldCutoff`, `childChanged`, `rchMinHeight`, `parentIterCanRecomputeNow`)
-/
namespace IncrVerif.Proofs.MapOldH
open IncrVerif.Engine IncrVerif.Proofs IncrVerif.Proofs.Step IncrVerif.Proofs.Sched IncrVerif.Proofs.Quiet

variable {sp : Nat → Val → Val}

section

theorem Sim.tick : Sim Engine.tick Engine.tick := by
  intro s; unfold Engine.tick; wsim
  split <;> wsim
macro_rules | `(tactic| wsim_leaf) => `(tactic| with_reducible exact Sim.tick)

theorem St.bumpCounter (f : Counters → Counters) : Sim (Engine.bumpCounter f) (Engine.bumpCounter f) := by
  intro s; unfold Engine.bumpCounter; wsim
macro_rules | `(tactic| wsim_leaf) => `(tactic| with_reducible exact St.bumpCounter _)

theorem Sim.shouldCutoff (env : Env) (n : Nat) (o v : Val) :
    Sim (Engine.shouldCutoff env n o v) (Engine.shouldCutoff (virtEnv env sp) n o v) := by
  intro s; unfold Engine.shouldCutoff; simp only [virtEnv_cutoff]; wsim
  split <;> wsim
macro_rules | `(tactic| wsim_leaf) => `(tactic| with_reducible exact Sim.shouldCutoff _ _ _ _)

/-! ## `child_changed`: the parent is neither an expert nor a map_ref node, so nothing happens -/

theorem Sim.childChanged (env : Env) (fuel p c ci : Nat) (o : Option Val) :
    Sim (Engine.childChanged env fuel p c ci o) (Engine.childChanged (virtEnv env sp) fuel p c ci o) := by
  intro s
  cases fuel with
  | zero => unfold Engine.childChanged; exact SimAt.thr _ _
  | succ fuel =>
    unfold Engine.childChanged
    wsim
    wsim_kind
macro_rules | `(tactic| wsim_leaf) => `(tactic| with_reducible exact Sim.childChanged _ _ _ _ _ _)

/-! ## `parent_iter_can_recompute_now` -/

theorem St.rchMinHeight : Sim Engine.rchMinHeight Engine.rchMinHeight := by
  intro s; unfold Engine.rchMinHeight; wsim
  exact SimAt.ret _
macro_rules | `(tactic| wsim_leaf) => `(tactic| with_reducible exact St.rchMinHeight)

theorem Sim.parentIterCanRecomputeNow (p child : Nat) :
    Sim (Engine.parentIterCanRecomputeNow p child) (Engine.parentIterCanRecomputeNow p child) := by
  intro s; unfold Engine.parentIterCanRecomputeNow; wsim
  wsim_kind
  have e : ∀ (x : Nat), ¬ ([x].length ≥ 2) := by intro x; simp
  all_goals try rw [if_neg (by simp)]
  all_goals wsim
  all_goals exact SimAt.ret _
macro_rules | `(tactic| wsim_leaf) => `(tactic| with_reducible exact Sim.parentIterCanRecomputeNow _ _)

end
end IncrVerif.Proofs.MapOldH
