import IncrVerif.Proofs.ExpertH39
import IncrVerif.Proofs.ExpertH29
import IncrVerif.Proofs.ExpertH30
import IncrVerif.Proofs.ExpertH16
import IncrVerif.Proofs.ExpertH32
import IncrVerif.Proofs.ExpertH34
import IncrVerif.Proofs.ExpertH36
/-!
# Expert fragment: the drain invariant `DInvX` through `recomputeOne`, `recompute`, a pop and `drainHeap`
(port of MapRef15; no ghost values, no `KInv`)
-/
namespace IncrVerif.Proofs.ExpertH
open IncrVerif.Engine IncrVerif.Driver IncrVerif.Proofs IncrVerif.Proofs.Step IncrVerif.Proofs.Sched
open IncrVerif.Proofs.ExpertH.QR

/-- the drain invariant of the fragment static + expert, with the current node `x`: the state is in the fragment;
the virtual static state satisfies the scheduling invariant of the static fragment; nothing to invalidate; the
adjust-heights heap is empty -/
structure DInvX (env : Env) (s : State) (x : Option Nat) : Prop where
  frag : XFrag env s
  inv : Inv (virtEnv env) (virt s) x
  pinv : s.propagateInvalidity = []
  ahh : QR.AhhEmpty s

/-- what the drain keeps, read in the virtual states -/
structure DStepX (env : Env) (s s' : State) : Prop where
  frame : Frame (virt s) (virt s')
  calm : Calm (virt s) (virt s')
  keyD : KeyD (virt s) (virt s')
  unnec : UnnecOK (virtEnv env) (virt s) → UnnecOK (virtEnv env) (virt s')

theorem DStepX.refl (env : Env) (s : State) : DStepX env s s :=
  ⟨Frame.refl _, Calm.refl _, KeyD.refl _, id⟩

theorem DStepX.trans {env : Env} {a b c : State} (h1 : DStepX env a b) (h2 : DStepX env b c) : DStepX env a c :=
  ⟨h1.frame.trans h2.frame, h1.calm.trans h2.calm, KeyD.trans h1.keyD h2.keyD, fun h => h2.unnec (h1.unnec h)⟩

/-! ## the fragment and the adjust-heights heap along the frames `XF`, `AhF` -/

/-- the fragment along the frame `XF`: validity, the countdown and the counts of invalid children come from `Fr` -/
theorem XFrag.of_xf {env : Env} {s s' : State} (F : XFrag env s) (h : XF s s') (fr : Fr s') : XFrag env s' := by
  refine ⟨fr.pc, fun m _ => ?_, fun m _ => fr.valid m, fun m e hm hk => ?_, fun e er' he' => ?_⟩
  · rw [h.kind]; exact F.kindD m
  · rw [h.kind] at hk; rw [h.size] at hm
    obtain ⟨er, he, hnode⟩ := F.xrec m e hm hk
    obtain ⟨er', he', -, hn', -⟩ := h.xrec he
    exact ⟨er', he', by rw [hn', hnode]⟩
  · obtain ⟨er, he, hf, -, -, hpk, -⟩ := h.xrec_back he'
    obtain ⟨h1, -, h3, h4⟩ := F.xok e er he
    exact ⟨by rw [hpk, h1], fr.ni e er' he', by rw [hf]; exact h3, by rw [hf]; exact h4⟩

theorem ahhEmpty_of_ahf {s s' : State} (A : QR.AhhEmpty s) (h : AhF s s') : QR.AhhEmpty s' := by
  refine ⟨by rw [h.ahh]; exact A.length, ?_, fun m => by rw [h.mark]; exact A.marks m⟩
  rw [h.ahh]; exact A.buckets

theorem xf_started_logged (es : List Event) (n : Nat) (s : State) : XF s (logged es (started n s)) := by
  refine ⟨by simp [logged, started], fun m => ?_, rfl, fun _ => rfl, rfl⟩
  show ((started n s).nodeD m).kind = _
  rw [started_nodeD]; split <;> rfl

theorem ahf_started_logged (es : List Event) (n : Nat) (s : State) : AhF s (logged es (started n s)) := by
  refine ⟨by simp [logged, started], rfl, fun m => ?_⟩
  show ((started n s).nodeD m).heightInAhh = _
  rw [started_nodeD]; split <;> rfl

/-- a successful `recomputeOne` of a node of the fragment that is not an expert node is a `maybeChangeValue` run -/
theorem recomputeOne_as_mcv_x {env : Env} {s s' : State} {fuel n : Nat} {r : Option Nat}
    (hfr : Fr s) (hn : n < s.nodes.size) (hxk : XKind env (s.nodeD n).kind)
    (hne : ∀ e, (s.nodeD n).kind ≠ .expert e)
    (h : (recomputeOne env fuel n).run.run s = (.ok r, s')) :
    ∃ v es, (recomputeOne env fuel n).run.run s =
      (maybeChangeValue env fuel n v).run.run (logged es (started n s)) := by
  have hnd := some_of_lt hn
  have hval := hfr.valid n
  cases hkd : (s.nodeD n).kind with
  | const v => exact ⟨v, [], recomputeOne_const_run env fuel n s _ v hnd hval hkd⟩
  | var c =>
    obtain ⟨vc, hvc⟩ := recomputeOne_ok_var hnd hval hkd h
    exact ⟨vc.value, [], recomputeOne_var_run env fuel n s _ c vc hnd hval hkd hvc⟩
  | map f args =>
    rw [hkd] at hxk
    obtain ⟨vals, hvals⟩ := recomputeOne_ok_vals hnd hval (Or.inl ⟨f, hkd⟩) h
    by_cases hf : f < fnZip
    · exact ⟨_, _, recomputeOne_map_run env fuel n s _ f args vals hnd hval hkd hf hvals (hxk.2 hf vals) hfr.pc⟩
    · exact ⟨_, [], recomputeOne_mapBuiltin_run env fuel n s _ f args vals hnd hval hkd hf hxk.1 hvals⟩
  | fold f init cs =>
    obtain ⟨vals, hvals⟩ := recomputeOne_ok_vals hnd hval (Or.inr ⟨f, init, hkd⟩) h
    exact ⟨_, _, recomputeOne_fold_run env fuel n s _ f init cs vals hnd hval hkd hvals hfr.pc⟩
  | expert e => exact absurd hkd (hne e)
  | _ => rw [hkd] at hxk; exact hxk.elim

/-- a successful `recomputeOne` of a node that is not an expert node keeps the frames `XF` and `AhF` -/
theorem recomputeOne_static_frames {env : Env} {s s' : State} {fuel n : Nat} {r : Option Nat}
    (hfr : Fr s) (hn : n < s.nodes.size) (hxk : XKind env (s.nodeD n).kind)
    (hne : ∀ e, (s.nodeD n).kind ≠ .expert e)
    (h : (recomputeOne env fuel n).run.run s = (.ok r, s')) : XF s s' ∧ AhF s s' := by
  obtain ⟨v, es, hrun⟩ := recomputeOne_as_mcv_x hfr hn hxk hne h
  rw [hrun] at h
  exact ⟨(xf_started_logged es n s).trans ((PresX.maybeChangeValue env fuel n v).h _ _ _ h),
    (ahf_started_logged es n s).trans ((PresAh.maybeChangeValue env fuel n v).h _ _ _ h)⟩

/-! ## the recompute of an expert node, with the intermediate state `ranState` explicit -/

theorem step_expert_ran {env : Env} {s s' : State} {fuel n e : Nat} {r : Option Nat} (F : XFrag env s)
    (I : Inv (virtEnv env) (virt s) (some n)) (hp : s.propagateInvalidity = [])
    (hk : (s.nodeD n).kind = .expert e)
    (h : (recomputeOne env fuel n).run.run s = (.ok r, s')) :
    ∃ (v : Val) (ch : Bool) (er : ExpertRec),
      Target (virtEnv env) (virt s) n v ∧ StepRel n v ch r (virt s) (virt s') ∧ Fr s' ∧
      s.experts[e]? = some er ∧
      (maybeChangeValue env fuel n v).run.run (ranState env n e s er) = (.ok r, s') ∧
      (maybeChangeValue (virtEnv env) fuel n v).run.run (virt (ranState env n e s er)) = (.ok r, virt s') ∧
      Fr (ranState env n e s er) := by
  have hnec : (virt s).isNecessary n = true := (I.cur n rfl).1
  have hlt : n < s.nodes.size := by rw [← virt_size]; exact (I.graph.nec n hnec).1
  obtain ⟨er, he, hnode⟩ := F.xrec n e hlt hk
  obtain ⟨hpk, hni, hok, _⟩ := F.xok e er he
  have hx : Xp.IsExpert s n (s.nodeD n) e er := ⟨some_of_lt hlt, F.valid n hlt, hk, he⟩
  rw [Xp.recomputeOne_expert_run env fuel n hx hpk F.pc (by omega)] at h
  obtain ⟨vals, hvals⟩ := I.kids_values
  obtain ⟨hv0, htarget⟩ := expert_target F hk he hvals
  rw [hv0] at h
  have hT : logged [.inv s!"x{er.f}" n [] (List.foldl (xStep er.f) (.int 0) vals).render] (Xp.readyState env n e s er) =
      ranState env n e s er := by
    unfold ranState; rw [hv0]
  rw [hT] at h
  have hFr : Fr (ranState env n e s er) := ranState_fr (F.fr hp) he
  obtain ⟨hvirt, hFr'⟩ := Sim.maybeChangeValue env fuel n _ (ranState env n e s er) hFr r s' h
  have hU := ranState_upd (env := env) F hlt hk he
  have hself := ranState_virt_self (env := env) hlt hk he
  obtain ⟨ch, hS⟩ := mcv_static I.graph I.heap hnec hU (by rw [hself, virt_nodeD]) (by rw [hself]; rfl)
    (by rw [hself, virt_nodeD]) hvirt
  exact ⟨_, ch, er, htarget, hS, hFr', he, h, hvirt, hFr⟩

/-- the state in which the closure has run is in the fragment -/
theorem ranState_frag {env : Env} {n e : Nat} {s : State} {er : ExpertRec} (F : XFrag env s)
    (hk : (s.nodeD n).kind = .expert e) (he : s.experts[e]? = some er)
    (hFr : Fr (ranState env n e s er)) : XFrag env (ranState env n e s er) := by
  obtain ⟨f1, f2, _, _, _, f6, _, _, _⟩ := Xp.readyRec_fields env s er
  have hsz : (ranState env n e s er).nodes.size = s.nodes.size := by
    rw [ranState_nodes]; simp [started]
  have hkind : ∀ m, ((ranState env n e s er).nodeD m).kind = (s.nodeD m).kind := by
    intro m; rw [ranState_nodeD, started_nodeD]; split <;> rfl
  refine ⟨hFr.pc, fun m _ => by rw [hkind]; exact F.kindD m, fun m _ => hFr.valid m, fun m e' hm hk' => ?_,
    fun e' er' he' => ?_⟩
  · rw [hkind] at hk'; rw [hsz] at hm
    obtain ⟨er0, he0, hnode0⟩ := F.xrec m e' hm hk'
    by_cases hee : e' = e
    · subst hee
      rw [he] at he0; cases he0
      exact ⟨_, ranState_get env n e' he, by rw [f2]; exact hnode0⟩
    · exact ⟨er0, by rw [ranState_get_ne env n e s er hee]; exact he0, hnode0⟩
  · by_cases hee : e' = e
    · subst hee
      rw [ranState_get env n e' he] at he'; cases he'
      obtain ⟨h1, -, h3, h4⟩ := F.xok e' er he
      exact ⟨by rw [f6, h1], hFr.ni _ _ (ranState_get env n e' he), by rw [f1]; exact h3, by rw [f1]; exact h4⟩
    · rw [ranState_get_ne env n e s er hee] at he'
      obtain ⟨h1, -, h3, h4⟩ := F.xok e' er' he'
      exact ⟨h1, hFr.ni _ _ (by rw [ranState_get_ne env n e s er hee]; exact he'), h3, h4⟩

theorem ranState_ahf (env : Env) (n e : Nat) (s : State) (er : ExpertRec) : AhF s (ranState env n e s er) := by
  refine ⟨by rw [ranState_nodes]; simp [started], rfl, fun m => ?_⟩
  rw [ranState_nodeD, started_nodeD]; split <;> rfl

theorem ranState_calm (env : Env) (n e : Nat) (s : State) (er : ExpertRec) :
    Calm (virt s) (virt (ranState env n e s er)) := by
  refine ⟨rfl, rfl, rfl, rfl, rfl, fun m => ?_, fun _ => rfl⟩
  rw [virt_nodeD, virt_nodeD, virtNode_num, virtNode_num, ranState_nodeD, started_nodeD]; split <;> rfl

theorem ranState_keyD (env : Env) (n e : Nat) (s : State) (er : ExpertRec) :
    KeyD (virt s) (virt (ranState env n e s er)) := rfl

section
variable {env : Env} {s : State}

/-- **one `recomputeOne`.** On the current node of the invariant a successful `recomputeOne` re-establishes the
invariant, the handed-over parent being the new current node. -/
theorem recomputeOneX_inv {fuel n : Nat} {s' : State} {r : Option Nat} (D : DInvX env s (some n))
    (h : (recomputeOne env fuel n).run.run s = (.ok r, s')) :
    DInvX env s' r ∧ DStepX env s s' ∧ ((virt s').nodeD n).recomputedAt = s.stabNum := by
  have hnec : (virt s).isNecessary n = true := (D.inv.cur n rfl).1
  have hlt : n < s.nodes.size := by rw [← virt_size]; exact (D.inv.graph.nec n hnec).1
  by_cases hk : ∀ e, (s.nodeD n).kind ≠ .expert e
  · obtain ⟨hsim, fr'⟩ := recomputeOne_sim (D.frag.fr D.pinv) hlt (D.frag.kind n hlt) hk h
    obtain ⟨I', fr, hrec⟩ := recomputeOne_inv D.inv hsim
    have hc := recomputeOne_calm D.inv.graph hnec D.inv.kids_values hsim
    have hkd := recomputeOne_keyD D.inv.graph hnec D.inv.kids_values hsim
    obtain ⟨hxf, hahf⟩ := recomputeOne_static_frames (D.frag.fr D.pinv) hlt (D.frag.kind n hlt) hk h
    exact ⟨⟨D.frag.of_xf hxf fr', I', fr'.pinv, ahhEmpty_of_ahf D.ahh hahf⟩,
      ⟨fr, hc, hkd, fun hU => recomputeOne_unnec D.inv hU hsim⟩, hrec⟩
  · have : ∃ e, (s.nodeD n).kind = .expert e := by
      cases hkd : (s.nodeD n).kind <;>
        first | exact ⟨_, rfl⟩ | (exfalso; apply hk; intro e; rw [hkd]; intro h; cases h)
    obtain ⟨e, hkk⟩ := this
    obtain ⟨v, ch, er, ht, R, fr', he, hrun, hvrun, frT⟩ := step_expert_ran D.frag D.inv D.pinv hkk h
    have FT := ranState_frag D.frag hkk he frT
    have F' : XFrag env s' := FT.of_xf ((PresX.maybeChangeValue env fuel n v).h _ _ _ hrun) fr'
    have A' : QR.AhhEmpty s' :=
      ahhEmpty_of_ahf D.ahh ((ranState_ahf env n e s er).trans ((PresAh.maybeChangeValue env fuel n v).h _ _ _ hrun))
    have hc : Calm (virt s) (virt s') :=
      (ranState_calm env n e s er).trans ((PresC.maybeChangeValue (virtEnv env) fuel n v).h _ _ _ hvrun)
    have hkd : KeyD (virt s) (virt s') :=
      KeyD.trans (ranState_keyD env n e s er) ((PresK.maybeChangeValue (virtEnv env) fuel n v).h _ _ _ hvrun)
    refine ⟨⟨F', step_inv D.inv ht R, fr'.pinv, A'⟩,
      ⟨⟨R.size, R.vars, R.stabNum, R.shapes, ?_, R.qsize⟩, hc, hkd, fun hU => step_unnec hnec R hU⟩, R.recomputedAt⟩
    intro m hm
    by_cases hmn : m = n
    · subst hmn; exact R.recomputedAt
    · rw [(R.other m hmn).recomputedAt]; exact hm

/-- **the direct-recompute chain.** -/
theorem recomputeX_inv : ∀ (fuel n : Nat) (s s' : State), DInvX env s (some n) →
    (recompute env fuel n).run.run s = (.ok (), s') → DInvX env s' none ∧ DStepX env s s' := by
  intro fuel
  induction fuel with
  | zero => intro n s s' _ h; unfold recompute at h; cases h
  | succ fuel ih =>
    intro n s s' D h
    unfold recompute at h
    obtain ⟨r, s1, h1, h2⟩ := bind_ok_inv h
    obtain ⟨D1, f1, -⟩ := recomputeOneX_inv D h1
    cases r with
    | none =>
      obtain ⟨-, rfl⟩ := pure_ok_inv h2
      exact ⟨D1, f1⟩
    | some p =>
      obtain ⟨D2, f2⟩ := ih p s1 s' D1 h2
      exact ⟨D2, f1.trans f2⟩

theorem heapInv_of_virt (h : HeapInv (virt s)) : HeapInv s :=
  h.congr rfl (virt_size s).symm fun m => by
    rw [virt_nodeD]
    exact ⟨(virtNode_heightInRch _ _).symm, (virtNode_height _ _).symm, (virt_isNecessary s m).symm⟩

/-- taking a node out of the heap, in the actual and in the virtual state -/
theorem popX {s1 : State} {r : Option Nat} (D : DInvX env s none)
    (h : rchRemoveMin.run.run s = (.ok r, s1)) :
    rchRemoveMin.run.run (virt s) = (.ok r, virt s1) ∧ XFrag env s1 ∧ s1.propagateInvalidity = [] ∧
      QR.AhhEmpty s1 := by
  obtain ⟨hv, hfr⟩ := Sim.rchRemoveMin s (D.frag.fr D.pinv) r s1 h
  exact ⟨hv, D.frag.of_xf (PresX.rchRemoveMin.h _ _ _ h) hfr, hfr.pinv,
    ahhEmpty_of_ahf D.ahh (PresAh.rchRemoveMin.h _ _ _ h)⟩

/-- **one pop of `drainHeap`.** -/
theorem popX_recompute {fuel n : Nat} {s1 s' : State} (D : DInvX env s none)
    (hpop : rchRemoveMin.run.run s = (.ok (some n), s1))
    (hrec : (recompute env fuel n).run.run s1 = (.ok (), s')) :
    DInvX env s' none ∧ DStepX env s s' := by
  obtain ⟨hv, F1, hp1, A1⟩ := popX D hpop
  obtain ⟨I1, f1⟩ := pop_inv D.inv hv
  have D1 : DInvX env s1 (some n) := ⟨F1, I1, hp1, A1⟩
  obtain ⟨D', f2⟩ := recomputeX_inv fuel n s1 s' D1 hrec
  exact ⟨D', DStepX.trans ⟨f1, pop_calm D.inv.heap hv, pop_keyD D.inv.heap hv,
    fun hU => pop_unnec D.inv.heap hU hv⟩ f2⟩

/-- **the loop.** A successful `drainHeap` from the drain invariant ends with the drain invariant and an empty
heap. -/
theorem drainHeapX_inv : ∀ (fuel : Nat) (s s' : State), DInvX env s none →
    (drainHeap env fuel).run.run s = (.ok (), s') →
    DInvX env s' none ∧ s'.rch.length = 0 ∧ DStepX env s s' := by
  intro fuel
  induction fuel with
  | zero => intro s s' _ h; unfold drainHeap at h; cases h
  | succ fuel ih =>
    intro s s' D h
    unfold drainHeap at h
    obtain ⟨r, s1, h1, h2⟩ := bind_ok_inv h
    cases r with
    | none =>
      obtain ⟨-, rfl⟩ := pure_ok_inv h2
      obtain ⟨rfl, he⟩ := rchRemoveMin_inv (heapInv_of_virt D.inv.heap) h1
      exact ⟨D, he, DStepX.refl env _⟩
    | some n =>
      obtain ⟨u, s2, h3, h4⟩ := bind_ok_inv h2
      obtain ⟨D2, f2⟩ := popX_recompute D h1 h3
      obtain ⟨D3, he, f3⟩ := ih s2 s' D2 h4
      exact ⟨D3, he, f2.trans f3⟩

end
end IncrVerif.Proofs.ExpertH
