import IncrVerif.Proofs.PerKeyH6
/-!
# Per-key operators, kind-twins part 2: transfer of kind-agnostic statements along `Kin t t'` (one state)

`SK env t`: every kind of `t` is static for `env` (all indices; the default node is a constant).  Statements that
read `State.children`/`State.isStale` need `SK` on both sides (`children = kids` only for static kinds).
-/
namespace IncrVerif.Proofs.PerKeyH
open IncrVerif.Engine IncrVerif.Driver IncrVerif.Proofs IncrVerif.Proofs.Step IncrVerif.Proofs.Sched
open IncrVerif.Proofs.ExpertH IncrVerif.Proofs.EffH IncrVerif.Proofs.ExpertH.QR

/-- every kind of the state is static -/
def SK (env : Env) (t : State) : Prop := ∀ m, StaticKind env (t.nodeD m).kind

theorem SK.of_lt {env : Env} {t : State} (h : ∀ m, m < t.nodes.size → StaticKind env (t.nodeD m).kind) : SK env t := by
  intro m
  by_cases hm : m < t.nodes.size
  · exact h m hm
  · rw [nodeD_default_of_ge t m (by omega)]; trivial

theorem SK.of_allStatic {env : Env} {rk : Nat → Nat} {t : State} (A : AllStatic env rk t) : SK env t :=
  SK.of_lt fun m hm => (A.node m hm).kind

theorem sk_V {env : Env} {s : State} (F : PFrag env s) : SK (penv env) (V s) := staticKind_VD F

theorem sk_virt_twin {env : Env} (l : List Event) {s : State} (F : PFrag env s) :
    SK (virtEnv (twEnv env)) (virt (twL l s)) := by
  intro m
  rw [virt_nodeD, virtNode_kind]
  exact staticKind_virt ((xfrag_twin l F).kindD m)

theorem node_swap {a b : Node} (h : a = { b with kind := a.kind }) : b = { a with kind := b.kind } := by
  cases a; cases b
  simp only [Node.mk.injEq, true_and] at h ⊢
  simp only [h, and_self]

namespace Kin
variable {t t' : State}

theorem refl (t : State) : Kin t t :=
  ⟨rfl, fun _ => rfl, fun _ => rfl, fun _ _ => Iff.rfl, fun _ => Iff.rfl, rfl⟩

theorem symm (K : Kin t t') : Kin t' t :=
  ⟨K.size.symm, fun m => node_swap (K.node m), fun m => (K.kids m).symm, fun m c => (K.var m c).symm,
    fun m => (K.const m).symm, K.rest.symm⟩

theorem trans {t'' : State} (K : Kin t t') (L : Kin t' t'') : Kin t t'' where
  size := L.size.trans K.size
  node m := by
    have h1 := K.node m
    have h2 := L.node m
    rw [h1] at h2
    exact h2
  kids m := (L.kids m).trans (K.kids m)
  var m c := (L.var m c).trans (K.var m c)
  const m := (L.const m).trans (K.const m)
  rest := L.rest.trans K.rest

section fields
variable (K : Kin t t') (m : Nat)
include K

theorem valid : (t'.nodeD m).valid = (t.nodeD m).valid := by
  have := congrArg Node.valid (K.node m); exact this
theorem cutoff : (t'.nodeD m).cutoff = (t.nodeD m).cutoff := by
  have := congrArg Node.cutoff (K.node m); exact this
theorem createdIn : (t'.nodeD m).createdIn = (t.nodeD m).createdIn := by
  have := congrArg Node.createdIn (K.node m); exact this
theorem value : (t'.nodeD m).value = (t.nodeD m).value := by
  have := congrArg Node.value (K.node m); exact this
theorem recomputedAt : (t'.nodeD m).recomputedAt = (t.nodeD m).recomputedAt := by
  have := congrArg Node.recomputedAt (K.node m); exact this
theorem changedAt : (t'.nodeD m).changedAt = (t.nodeD m).changedAt := by
  have := congrArg Node.changedAt (K.node m); exact this
theorem height : (t'.nodeD m).height = (t.nodeD m).height := by
  have := congrArg Node.height (K.node m); exact this
theorem heightInRch : (t'.nodeD m).heightInRch = (t.nodeD m).heightInRch := by
  have := congrArg Node.heightInRch (K.node m); exact this
theorem heightInAhh : (t'.nodeD m).heightInAhh = (t.nodeD m).heightInAhh := by
  have := congrArg Node.heightInAhh (K.node m); exact this
theorem parents : (t'.nodeD m).parents = (t.nodeD m).parents := by
  have := congrArg Node.parents (K.node m); exact this
theorem observers : (t'.nodeD m).observers = (t.nodeD m).observers := by
  have := congrArg Node.observers (K.node m); exact this
theorem forceNecessary : (t'.nodeD m).forceNecessary = (t.nodeD m).forceNecessary := by
  have := congrArg Node.forceNecessary (K.node m); exact this
theorem numOnUpdateHandlers : (t'.nodeD m).numOnUpdateHandlers = (t.nodeD m).numOnUpdateHandlers := by
  have := congrArg Node.numOnUpdateHandlers (K.node m); exact this
theorem inHandleAfterStab : (t'.nodeD m).inHandleAfterStab = (t.nodeD m).inHandleAfterStab := by
  have := congrArg Node.inHandleAfterStab (K.node m); exact this
theorem oldState : (t'.nodeD m).oldState = (t.nodeD m).oldState := by
  have := congrArg Node.oldState (K.node m); exact this
theorem didChange : (t'.nodeD m).didChange = (t.nodeD m).didChange := by
  have := congrArg Node.didChange (K.node m); exact this

theorem inRch : (t'.nodeD m).inRch = (t.nodeD m).inRch := by
  simp only [Node.inRch, K.heightInRch]

theorem isNecessary : t'.isNecessary m = t.isNecessary m := by
  simp only [State.isNecessary, Node.isNecessary, K.parents, K.observers, K.forceNecessary]

end fields

section statefields
variable (K : Kin t t')
include K

theorem vars : t'.vars = t.vars := by have := congrArg State.vars K.rest; exact this
theorem binds : t'.binds = t.binds := by have := congrArg State.binds K.rest; exact this
theorem experts : t'.experts = t.experts := by have := congrArg State.experts K.rest; exact this
theorem stObservers : t'.observers = t.observers := by have := congrArg State.observers K.rest; exact this
theorem rch : t'.rch = t.rch := by have := congrArg State.rch K.rest; exact this
theorem ahh : t'.ahh = t.ahh := by have := congrArg State.ahh K.rest; exact this
theorem cfg : t'.cfg = t.cfg := by have := congrArg State.cfg K.rest; exact this
theorem maxHeightSeen : t'.maxHeightSeen = t.maxHeightSeen := by
  have := congrArg State.maxHeightSeen K.rest; exact this
theorem status : t'.status = t.status := by have := congrArg State.status K.rest; exact this
theorem stabNum : t'.stabNum = t.stabNum := by have := congrArg State.stabNum K.rest; exact this
theorem scope : t'.currentScope = t.currentScope := by have := congrArg State.currentScope K.rest; exact this
theorem pinv : t'.propagateInvalidity = t.propagateInvalidity := by
  have := congrArg State.propagateInvalidity K.rest; exact this
theorem handleAfterStab : t'.handleAfterStab = t.handleAfterStab := by
  have := congrArg State.handleAfterStab K.rest; exact this
theorem newObservers : t'.newObservers = t.newObservers := by
  have := congrArg State.newObservers K.rest; exact this
theorem disallowedObservers : t'.disallowedObservers = t.disallowedObservers := by
  have := congrArg State.disallowedObservers K.rest; exact this
theorem allObservers : t'.allObservers = t.allObservers := by
  have := congrArg State.allObservers K.rest; exact this
theorem setDuringStab : t'.setDuringStab = t.setDuringStab := by
  have := congrArg State.setDuringStab K.rest; exact this
theorem deadVars : t'.deadVars = t.deadVars := by have := congrArg State.deadVars K.rest; exact this
theorem counters : t'.counters = t.counters := by have := congrArg State.counters K.rest; exact this
theorem pc : t'.panicCountdown = t.panicCountdown := by
  have := congrArg State.panicCountdown K.rest; exact this
theorem currentlyRunning : t'.currentlyRunning = t.currentlyRunning := by
  have := congrArg State.currentlyRunning K.rest; exact this
theorem alive : t'.alive = t.alive := by have := congrArg State.alive K.rest; exact this
theorem top : t'.top = t.top := by have := congrArg State.top K.rest; exact this
theorem handles : t'.handles = t.handles := by have := congrArg State.handles K.rest; exact this
theorem slots : t'.slots = t.slots := by have := congrArg State.slots K.rest; exact this
theorem memos : t'.memos = t.memos := by have := congrArg State.memos K.rest; exact this
theorem perkeys : t'.perkeys = t.perkeys := by have := congrArg State.perkeys K.rest; exact this
theorem nextToken : t'.nextToken = t.nextToken := by have := congrArg State.nextToken K.rest; exact this
theorem nextDep : t'.nextDep = t.nextDep := by have := congrArg State.nextDep K.rest; exact this

end statefields

/-! ## staleness, children -/

theorem staleOf_generic (s : State) (m : Nat) (hv : ∀ c, (s.nodeD m).kind ≠ .var c)
    (hc : ∀ v, (s.nodeD m).kind ≠ .const v) :
    staleOf s m = ((s.nodeD m).recomputedAt == -1 ||
      (Sched.kids (s.nodeD m).kind).any fun c => decide ((s.nodeD c).changedAt > (s.nodeD m).recomputedAt)) := by
  unfold Sched.staleOf
  cases h : (s.nodeD m).kind <;> first | rfl | exact absurd h (hv _) | exact absurd h (hc _)

theorem staleOf (K : Kin t t') (m : Nat) : staleOf t' m = staleOf t m := by
  by_cases hv : ∃ c, (t.nodeD m).kind = .var c
  · obtain ⟨c, hc⟩ := hv
    have hc' := (K.var m c).2 hc
    unfold Sched.staleOf
    rw [hc, hc', K.vars, K.recomputedAt]
  by_cases hc : ∃ v, (t.nodeD m).kind = .const v
  · obtain ⟨v', hc'⟩ := (K.const m).2 hc
    obtain ⟨v, hc⟩ := hc
    unfold Sched.staleOf
    rw [hc, hc', K.recomputedAt]
  · have hv' : ∀ c, (t'.nodeD m).kind ≠ .var c := fun c h => hv ⟨c, (K.var m c).1 h⟩
    have hc' : ∀ v, (t'.nodeD m).kind ≠ .const v := fun v h => hc ((K.const m).1 ⟨v, h⟩)
    rw [staleOf_generic t' m hv' hc', staleOf_generic t m (fun c h => hv ⟨c, h⟩) (fun v h => hc ⟨v, h⟩),
      K.kids, K.recomputedAt]
    congr 1
    apply any_congr'
    intro a _
    rw [K.changedAt]

theorem children_invalid (s : State) (m : Nat) (h : (s.nodeD m).valid = false) : s.children m = [] := by
  unfold State.children Node.kind?
  rw [h]; rfl

theorem isStale_invalid (s : State) (m : Nat) (h : (s.nodeD m).valid = false) : s.isStale m = false := by
  unfold State.isStale Node.kind?
  simp only [h]; rfl

/-- `children` of a node whose two kinds are static -/
theorem children {env env' : Env} (K : Kin t t') {m : Nat} (hs : StaticKind env (t.nodeD m).kind)
    (hs' : StaticKind env' (t'.nodeD m).kind) : t'.children m = t.children m := by
  cases hv : (t.nodeD m).valid with
  | false => rw [children_invalid t m hv, children_invalid t' m (by rw [K.valid]; exact hv)]
  | true =>
    rw [children_eq_kids t m hv hs, children_eq_kids t' m (by rw [K.valid]; exact hv) hs', K.kids]

theorem isStale {env env' : Env} (K : Kin t t') {m : Nat} (hs : StaticKind env (t.nodeD m).kind)
    (hs' : StaticKind env' (t'.nodeD m).kind) : t'.isStale m = t.isStale m := by
  cases hv : (t.nodeD m).valid with
  | false => rw [isStale_invalid t m hv, isStale_invalid t' m (by rw [K.valid]; exact hv)]
  | true =>
    rw [isStale_static t m hv hs, isStale_static t' m (by rw [K.valid]; exact hv) hs', K.staleOf]

theorem needsToBeComputed {env env' : Env} (K : Kin t t') {m : Nat} (hs : StaticKind env (t.nodeD m).kind)
    (hs' : StaticKind env' (t'.nodeD m).kind) : t'.needsToBeComputed m = t.needsToBeComputed m := by
  simp only [State.needsToBeComputed, K.isNecessary, K.isStale hs hs']

/-- stored values: no map_ref nodes on either side -/
theorem stValue {env env' : Env} (K : Kin t t') {m : Nat} (hs : StaticKind env (t.nodeD m).kind)
    (hs' : StaticKind env' (t'.nodeD m).kind) : t'.value env' m = t.value env m := by
  rw [value_plain env' t' m (fun p i => hs'.not_mapRef p i), value_plain env t m (fun p i => hs.not_mapRef p i),
    K.value]

theorem plainVals (K : Kin t t') (args : List Nat) : plainVals t' args = plainVals t args := by
  unfold Sched.plainVals
  exact evalArgs_congr _ _ _ fun a _ => K.value a

/-! ## heap, stamps -/

theorem heapWF (K : Kin t t') (h : HeapWF t) : HeapWF t' :=
  HeapWF_congr h K.rch K.size (fun m => K.heightInRch m)

theorem heapInv (K : Kin t t') (h : HeapInv t) : HeapInv t' :=
  h.congr K.rch K.size (fun m => ⟨K.heightInRch m, K.height m, K.isNecessary m⟩)

theorem heapG (K : Kin t t') (h : HeapG t) : HeapG t' :=
  h.congr K.rch K.size (fun m => K.heightInRch m)

theorem stamps (K : Kin t t') (h : Stamps t) : Stamps t' where
  now := by rw [K.stabNum]; exact h.now
  node m := by rw [K.recomputedAt, K.changedAt, K.stabNum]; exact h.node m
  var c vc hc := by rw [K.vars] at hc; rw [K.stabNum]; exact h.var c vc hc

theorem ahhEmpty (K : Kin t t') (h : AhhEmpty t) : AhhEmpty t' where
  length := by rw [K.ahh]; exact h.length
  buckets := by rw [K.ahh]; exact h.buckets
  marks m := by rw [K.heightInAhh]; exact h.marks m

theorem varsOK (K : Kin t t') (h : VarsOK t) : VarsOK t' where
  node n c hn hk := by
    rw [K.size] at hn
    rw [K.vars]; exact h.node n c hn ((K.var n c).1 hk)
  cell c vc hc := by
    rw [K.vars] at hc
    obtain ⟨h1, h2⟩ := h.cell c vc hc
    exact ⟨by rw [K.size]; exact h1, (K.var _ c).2 h2⟩

/-! ## the structural invariants -/

theorem wants (K : Kin t t') (op : Nat → Op) (p i : Nat) : Wants t' op p i ↔ Wants t op p i := by
  unfold Wants; rw [K.isNecessary]

theorem allStatic {env env' : Env} {rk : Nat → Nat} (K : Kin t t') (A : AllStatic env rk t) (hs' : SK env' t') :
    AllStatic env' rk t' := by
  refine ⟨by rw [K.pc]; exact A.pc, by rw [K.scope]; exact A.scope, fun n hn => ?_, A.inj,
    by rw [K.size]; exact A.top⟩
  have sn := A.node n (by rw [← K.size]; exact hn)
  exact ⟨by rw [K.valid]; exact sn.valid, hs' n, by rw [K.cutoff]; exact sn.cutoff,
    by rw [K.createdIn]; exact sn.top, by rw [K.forceNecessary]; exact sn.force,
    by rw [K.kids]; exact sn.kidsLt, by rw [K.kids, K.size]; exact sn.kidsIn⟩

theorem gInv {env env' : Env} {rk : Nat → Nat} {op : Nat → Op} (K : Kin t t') (I : GInv env rk t op)
    (hs' : SK env' t') : GInv env' rk t' op where
  static := K.allStatic I.static hs'
  par c p i hm := by
    rw [K.parents] at hm
    rw [K.kids, K.wants]
    exact I.par c p i hm
  conv p i c hk hw := by
    rw [K.kids] at hk
    rw [K.wants] at hw
    rw [K.parents]
    exact I.conv p i c hk hw
  nodup c := by rw [K.parents]; exact I.nodup c
  hlt c p i hm ho := by
    rw [K.parents] at hm
    rw [K.height, K.height]
    exact I.hlt c p i hm ho
  hpos n hn ho := by
    rw [K.isNecessary] at hn
    rw [K.height]; exact I.hpos n hn ho
  lnec p k ho := by rw [K.isNecessary]; exact I.lnec p k ho
  unec p k ho := by rw [K.isNecessary]; exact I.unec p k ho
  heap := K.heapG I.heap
  hgt m hq ho := by
    rw [K.inRch] at hq
    rw [K.heightInRch, K.height]; exact I.hgt m hq ho
  qnec m hq := by
    rw [K.inRch] at hq
    rw [K.isNecessary]; exact I.qnec m hq
  queued m ho hn hs := by
    rw [K.isNecessary] at hn
    rw [K.staleOf] at hs
    rw [K.inRch]; exact I.queued m ho hn hs
  qstale m hq := by
    rw [K.inRch] at hq
    rw [K.staleOf]; exact I.qstale m hq
  opLt m ho := by rw [K.size]; exact I.opLt m ho

theorem struct {env env' : Env} {rk : Nat → Nat} (K : Kin t t') (I : Struct env rk t) (hs' : SK env' t') :
    Struct env' rk t' := K.gInv I hs'

/-! ## the graph of the bind fragment (static states) -/

theorem edge {env env' : Env} (K : Kin t t') (hs : SK env t) (hs' : SK env' t') {a c : Nat}
    (he : BindH.Edge t' a c) : BindH.Edge t a c := by
  cases he with
  | child hc => rw [K.children (hs a) (hs' a)] at hc; exact BindH.Edge.child hc
  | scope hv hsc hb =>
    rw [K.valid] at hv; rw [K.createdIn] at hsc; rw [K.binds] at hb
    exact BindH.Edge.scope hv hsc hb

theorem below {env env' : Env} (K : Kin t t') (hs : SK env t) (hs' : SK env' t') {a d : Nat}
    (h : BindH.Below t' a d) : BindH.Below t a d := by
  induction h with
  | refl a => exact BindH.Below.refl a
  | step he _ ih => exact BindH.Below.step (K.edge hs hs' he) ih

theorem bgraph {env env' : Env} (K : Kin t t') (g : BindH.BGraph env t) (hs : SK env t) (hs' : SK env' t') :
    BindH.BGraph env' t' where
  pc := by rw [K.pc]; exact g.pc
  node n hn hv := by
    rw [K.size] at hn; rw [K.valid] at hv
    obtain ⟨_, h2, h3⟩ := g.node n hn hv
    rw [K.cutoff, K.children (hs n) (hs' n)]
    refine ⟨DriverH.bkind_of_static (hs' n), h2, fun c hc => ?_⟩
    rw [K.size, K.valid]; exact h3 c hc
  nec n hn := by
    rw [K.isNecessary] at hn; rw [K.valid, K.height]; exact g.nec n hn
  var n c hn hv hk := by
    rw [K.size] at hn; rw [K.valid] at hv
    rw [K.vars]; exact g.var n c hn hv ((K.var n c).1 hk)
  child n hn i c hc := by
    rw [K.isNecessary] at hn; rw [K.children (hs n) (hs' n)] at hc
    rw [K.isNecessary, K.parents, K.height, K.height]; exact g.child n hn i c hc
  parent c p i hm := by
    rw [K.parents] at hm
    rw [K.isNecessary, K.children (hs p) (hs' p)]; exact g.parent c p i hm
  scope n b hn hv hsc := by
    rw [K.size] at hn; rw [K.valid] at hv; rw [K.createdIn] at hsc
    obtain ⟨br, h1, h2, h3, h4⟩ := g.scope n b hn hv hsc
    refine ⟨br, by rw [K.binds]; exact h1, by rw [K.size]; exact h2, by rw [K.valid]; exact h3, ?_⟩
    rw [K.isNecessary, K.isNecessary, K.height, K.height]; exact h4
  lcRec n b _ _ hk := by have := hs' n; rw [hk] at this; exact this.elim
  mainRec n b lc _ _ hk := by have := hs' n; rw [hk] at this; exact this.elim
  lcChild m c b _ _ _ hk := by have := hs' c; rw [hk] at this; exact this.elim
  acyc := by
    obtain ⟨rk, hrk⟩ := g.acyc
    exact ⟨rk, fun a c he => hrk a c (K.edge hs hs' he)⟩

/-- `Sched.Graph` (the static-fragment graph invariant) -/
theorem graph {env env' : Env} (K : Kin t t') (g : Graph env t) (hs' : SK env' t') : Graph env' t' where
  pc := by rw [K.pc]; exact g.pc
  nec n hn := by
    rw [K.isNecessary] at hn
    obtain ⟨h1, h2, _, h4, h5⟩ := g.nec n hn
    exact ⟨by rw [K.size]; exact h1, by rw [K.valid]; exact h2, hs' n, by rw [K.cutoff]; exact h4,
      by rw [K.height]; exact h5⟩
  var n c hn hk := by
    rw [K.isNecessary] at hn
    rw [K.vars]; exact g.var n c hn ((K.var n c).1 hk)
  child n hn i c hk := by
    rw [K.isNecessary] at hn; rw [K.kids] at hk
    rw [K.isNecessary, K.parents, K.height, K.height]; exact g.child n hn i c hk
  parent c p i hm := by
    rw [K.parents] at hm
    rw [K.isNecessary, K.kids]; exact g.parent c p i hm

end Kin

end IncrVerif.Proofs.PerKeyH
