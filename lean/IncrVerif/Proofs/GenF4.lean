import IncrVerif.Proofs.GenF1
import IncrVerif.Proofs.GenF3
/-!
# C03, combined fragment, part 4: whole histories

* `unreg_dead`: a node that was registered in bind `b`'s generation list in some state satisfying the invariant, and is not registered in `b`'s list in a state reached
  from it by any sequence of API actions, is `Dead` there (the scope field and the bind record are kept: `CK.ckey_runActions`).
* `dead_forever`: a node that is dead in a state satisfying the invariant exists and is invalid in every state reached from it (`Inval.Mono` along histories), and is
  still dead there whenever that state satisfies the invariant.
* `history_noDead`, `history_dead_forever`: the same at the `stabilise`s / states of a history of the combined fragment run from `State.init`.
-/
namespace IncrVerif.Proofs.GenF
open IncrVerif.Engine IncrVerif.Driver IncrVerif.Proofs IncrVerif.Proofs.Step IncrVerif.Proofs.Sched IncrVerif.Proofs.Quiet
open IncrVerif.Proofs.FullH IncrVerif.Proofs.TidyH IncrVerif.Proofs.OnceF

section
variable {env : Env} {sp : Nat → Val → Val}

/-- **a node of an earlier generation is dead**: registered in `b`'s list in `s0`, not registered in `b`'s list in `s1` (reached from `s0`) -/
theorem unreg_dead {s0 s1 : State} {acts : List Action} {tk tk' : Array Nat} {b n : Nat} (Q0 : QInvFE env sp s0)
    (h : Quiet.runActions env acts s0 tk = .ok (s1, tk')) (hr : Reg s0 b n) (hu : ¬ Reg s1 b n) : Dead s1 n := by
  obtain ⟨hn, -, hc⟩ := reg_facts_q Q0 hr
  have K := CK.ckey_runActions env acts s0 s1 tk tk' h
  obtain ⟨br, hb, -⟩ := hr
  obtain ⟨br', hb', -, -⟩ := K.binds b br hb
  exact ⟨Nat.lt_of_lt_of_le hn K.size, b, br', by rw [K.cin n hn]; exact hc, hb', fun hm => hu ⟨br', hb', hm⟩⟩

/-- **DEAD MEANS INVALID FOR EVER** (and dead for ever) -/
theorem dead_forever {s1 s2 : State} {acts : List Action} {tk tk' : Array Nat} {n : Nat} (Q1 : QInvFE env sp s1) (hd : Dead s1 n)
    (h : Quiet.runActions env acts s1 tk = .ok (s2, tk')) :
    n < s2.nodes.size ∧ (s2.nodeD n).valid = false ∧ (QInvFE env sp s2 → Dead s2 n) := by
  have hv := dead_invalid_q Q1 hd
  have M := mono_runActions env acts s1 s2 tk tk' h
  have K := CK.ckey_runActions env acts s1 s2 tk tk' h
  obtain ⟨hn, b, br, hc, hb, -⟩ := hd
  obtain ⟨br', hb', -, -⟩ := K.binds b br hb
  have hn2 := Nat.lt_of_lt_of_le hn M.size
  have hv2 := M.keep n hn hv
  exact ⟨hn2, hv2, fun Q2 => invalid_scope_dead_q Q2 hn2 (by rw [K.cin n hn]; exact hc) hb' hv2⟩

/-- **NO DEAD-GENERATION NODE RUNS, at every `stabilise` of every history of the combined fragment** run from the initial state -/
theorem history_noDead (E : EnvS env sp) (hF : FirstFn env) {N : Nat} {d : Bool} {as bs : List Action}
    {s : State} {tk : Array Nat} (hH : HistFull env sp 0 (as ++ Action.stabilise :: bs))
    (h : Quiet.runActions env (as ++ Action.stabilise :: bs) (State.init N d) #[] = .ok (s, tk)) :
    ∃ s1 tk1 s2, Quiet.runActions env as (State.init N d) #[] = .ok (s1, tk1) ∧ QInvFE env sp s1 ∧
      (stabilise env fuelDefault).run.run s1 = (.ok (), s2) ∧ QInvFE env sp s2 ∧
      OnceStab env fuelDefault s1 s2 ∧ NoDeadStab env fuelDefault s1 s2 ∧
      Quiet.runActions env bs s2 tk1 = .ok (s, tk) := by
  obtain ⟨s1, tk1, s2, h1, Q1, hst, Q2, O, -, h2⟩ := history_c02 E hF hH h
  exact ⟨s1, tk1, s2, h1, Q1, hst, Q2, O, stabilise_noDead E hF Q1 hst, h2⟩

/-- **DEAD MEANS INVALID FOR EVER, whole histories**: a history `as ++ bs ++ cs` of the combined fragment run from the initial state; a node registered in bind `b`'s
generation list after `as` and not registered in it after `as ++ bs` is dead and invalid after `as ++ bs`, and dead and invalid after `as ++ bs ++ cs` -/
theorem history_dead_forever (E : EnvS env sp) (hF : FirstFn env) {N : Nat} {d : Bool} {as bs cs : List Action}
    {s : State} {tk : Array Nat} (hH : HistFull env sp 0 (as ++ (bs ++ cs)))
    (h : Quiet.runActions env (as ++ (bs ++ cs)) (State.init N d) #[] = .ok (s, tk)) :
    ∃ s0 tk0 s1 tk1, Quiet.runActions env as (State.init N d) #[] = .ok (s0, tk0) ∧
      Quiet.runActions env bs s0 tk0 = .ok (s1, tk1) ∧ Quiet.runActions env cs s1 tk1 = .ok (s, tk) ∧
      QInvFE env sp s0 ∧ QInvFE env sp s1 ∧ QInvFE env sp s ∧
      ∀ b n, Reg s0 b n → ¬ Reg s1 b n →
        Dead s1 n ∧ (s1.nodeD n).valid = false ∧ Dead s n ∧ n < s.nodes.size ∧ (s.nodeD n).valid = false := by
  have X := kit E hF
  obtain ⟨s0, tk0, h0, H0, hH0, hrest⟩ := runActions_split X (hi_init env sp (fun _ => true) N d) hH h
  obtain ⟨s1, tk1, h1, H1, hH1, h2⟩ := runActions_split X H0 hH0 hrest
  obtain ⟨s2, tk2, h3, H2, -, h4⟩ := runActions_split (as := cs) (bs := []) X H1 (by rw [List.append_nil]; exact hH1)
    (by rw [List.append_nil]; exact h2)
  simp only [Quiet.runActions] at h4
  cases h4
  obtain ⟨g0, Q0, -, -⟩ := H0
  obtain ⟨g1, Q1, -, -⟩ := H1
  obtain ⟨g2, Q2, -, -⟩ := H2
  refine ⟨s0, tk0, s1, tk1, h0, h1, h2, ⟨g0, Q0⟩, ⟨g1, Q1⟩, ⟨g2, Q2⟩, fun b n hr hu => ?_⟩
  have D1 := unreg_dead ⟨g0, Q0⟩ h1 hr hu
  obtain ⟨a1, a2, a3⟩ := dead_forever ⟨g1, Q1⟩ D1 h2
  exact ⟨D1, dead_invalid_q ⟨g1, Q1⟩ D1, a3 ⟨g2, Q2⟩, a1, a2⟩

end
end IncrVerif.Proofs.GenF
