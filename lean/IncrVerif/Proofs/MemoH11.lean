import IncrVerif.Proofs.MemoH9
/-!
# K3, invalidation part (1): the guarded relation `GJ P`, `invalidateNode`

`GJ P s s'`: if `s` satisfies `J` (`RegScoped ∧ TopValid`) and the structural side condition `P`, then `s'` is a
future of `s` that satisfies `J`.  `P` is a predicate that futures keep (`FutStable`), so `GJ P` is a preorder;
`J` is kept by every frame step, so `GJ P` is `FLocal` and the whole `PresF` ladder applies.
-/
namespace IncrVerif.Proofs.MemoH
open IncrVerif.Engine IncrVerif.Proofs.Obs IncrVerif.Proofs.Memo

namespace KA

/-- registrations scoped, static top-level nodes valid -/
structure J (s : State) : Prop where
  reg : RegScoped s
  tv : TopValid s

class FutStable (P : State → Prop) : Prop where
  keep : ∀ s s', Fut s s' → P s → P s'

def GJ (P : State → Prop) (s s' : State) : Prop := J s → P s → Fut s s' ∧ J s'

instance (P : State → Prop) [FutStable P] : PreOrd (GJ P) where
  refl s := fun hj _ => ⟨Fut.refl s, hj⟩
  trans {a b _} h1 h2 := fun hj hp =>
    have q1 := h1 hj hp
    have q2 := h2 q1.2 (FutStable.keep a b q1.1 hp)
    ⟨q1.1.trans q2.1, q2.2⟩

theorem J.of_frame {s s' : State} (h : F0V s s') (hj : J s) : J s' where
  reg := h.reg hj.reg
  tv n hn := by
    by_cases hlt : n < s.nodes.size
    · rw [h.valid n hlt]; exact hj.tv n (hn.back h.toF0.fut hlt)
    · exact h.newValid n (Nat.le_of_not_lt hlt) hn.lt

instance (P : State → Prop) [FutStable P] : FLocal (GJ P) where
  of_frame _ _ h := fun hj _ => ⟨h.toF0.fut, hj.of_frame h⟩

theorem GJ.weaken {P P' : State → Prop} {s s' : State} (h : GJ P' s s') (hp : P s → P' s) : GJ P s s' :=
  fun hj hq => h hj (hp hq)

theorem Pres.weaken {P P' : State → Prop} {α} {m : M α} (h : Pres (GJ P') m) (hp : ∀ s, J s → P s → P' s) :
    Pres (GJ P) m :=
  ⟨fun s r s' e => fun hj hq => h.h s r s' e hj (hp s hj hq)⟩

/-- no side condition -/
def PT : State → Prop := fun _ => True
instance : FutStable PT := ⟨fun _ _ _ _ => trivial⟩

/-- `n` exists and is not a hereditarily static top-level node -/
def PN (n : Nat) (s : State) : Prop := n < s.nodes.size ∧ ¬ STop s n
instance (n : Nat) : FutStable (PN n) :=
  ⟨fun _ _ hf h => ⟨Nat.lt_of_lt_of_le h.1 hf.nodesLe, fun hs => h.2 (hs.back hf h.1)⟩⟩

/-- … and the nodes of `all` exist and were created in the scope of bind `b` -/
def PL (n b : Nat) (all : List Nat) (s : State) : Prop :=
  PN n s ∧ ∀ r ∈ all, r < s.nodes.size ∧ (s.nodeD r).createdIn = .bind b
instance (n b : Nat) (all : List Nat) : FutStable (PL n b all) :=
  ⟨fun s s' hf h => ⟨FutStable.keep s s' hf h.1, fun r hr => by
    have := h.2 r hr
    have hc := hf.core r this.1
    simp only [nodeK, Prod.mk.injEq] at hc
    exact ⟨Nat.lt_of_lt_of_le this.1 hf.nodesLe, hc.2.trans this.2⟩⟩⟩

theorem PL.pn {n b : Nat} {all : List Nat} {s : State} (h : PL n b all s) {r : Nat} (hr : r ∈ all) :
    PN r s := by
  have := h.2 r hr
  refine ⟨this.1, fun hs => ?_⟩
  have := hs.scope.symm.trans this.2
  cases this

/-- reading a bind record: the continuation runs in a state where the record is the bind's -/
theorem GJ.bind_getBind {β} (n b : Nat) (f : BindRec → M β)
    (hf : ∀ br, Pres (GJ (PL n b br.allNodesCreatedOnRhs)) (f br)) : Pres (GJ (PN n)) (getBind b >>= f) := by
  constructor
  intro s r s' h
  unfold Engine.getBind at h
  rw [bind_assoc, run_bind, run_get] at h
  dsimp only at h
  cases hb : s.binds[b]? with
  | none =>
    rw [hb] at h
    dsimp only at h
    change (throw _ >>= f).run.run s = _ at h
    rw [run_bind, run_throw] at h
    cases h; exact PreOrd.refl s
  | some br =>
    rw [hb] at h
    dsimp only at h
    rw [pure_bind] at h
    intro hj hp
    exact (hf br).h s r s' h hj ⟨hp, hj.reg b br hb⟩

/-- the one write of `valid := false`, on a node that is not hereditarily static -/
theorem markInvalid (n : Nat) : Pres (GJ (PN n)) (modNode n fun x => { x with valid := false }) := by
  unfold Engine.modNode
  refine Pres.modify fun s => ?_
  intro hj hp
  have hf0 : F0 s { s with nodes := s.nodes.modify n fun x => { x with valid := false } } :=
    F0.modNode s n _ fun _ => rfl
  refine ⟨hf0.fut, hf0.reg hj.reg, ?_⟩
  intro m hm
  have hlt : m < s.nodes.size := by
    have := hm.lt
    simpa using this
  have hm0 : STop s m := hm.back hf0.fut hlt
  have hne : n ≠ m := fun e => hp.2 (e ▸ hm0)
  rw [nodeD_modify, if_neg hne]
  exact hj.tv m hm0

syntax "kleaf" : tactic
macro_rules | `(tactic| kleaf) => `(tactic| with_reducible apply GJ.bind_getBind)
macro_rules | `(tactic| kleaf) => `(tactic| with_reducible apply Pres.forIn_mem')
macro_rules | `(tactic| kleaf) => `(tactic| with_reducible apply markInvalid)

macro "kpres" : tactic => `(tactic| repeat (any_goals (first | kleaf | mstep)))

/-- `invalidate_node` on a node that is not hereditarily static keeps `J` -/
theorem inval_pres (fuel n : Nat) : Pres (GJ (PN n)) (invalidateNode fuel n) := by
  induction fuel generalizing n with
  | zero => unfold Engine.invalidateNode; mpres
  | succ fuel ih =>
    unfold Engine.invalidateNode
    kpres
    all_goals first
      | exact ih _
      | exact Pres.weaken (markInvalid _) fun _ _ hp => hp.1
      | (refine Pres.weaken (ih _) ?_; intro _ _ hp; exact PL.pn hp (by assumption))

end KA

end IncrVerif.Proofs.MemoH
