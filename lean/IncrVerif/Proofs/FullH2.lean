import IncrVerif.Proofs.FullH1
/-!
# C01 full fragment, part 1: the simulation calculus

`Sim K g x x'`: every successful run of `x` from `s` is matched by a successful run of `x'` from `virt g s`, with the same
result, ending in `virt g` of the final state (SAME ghost).  `SimX g x x'`: the same, but the ghost may change — to `none` —
on nodes that are invalid in the final state (invalidation erases the ghost value of a `map_ref` node).
States may contain invalid nodes and pending invalidations (unlike `MapRefH.Fr`).
-/
namespace IncrVerif.Proofs.FullH
open IncrVerif.Engine IncrVerif.Proofs IncrVerif.Proofs.Step IncrVerif.Proofs.Sched IncrVerif.Proofs.Quiet

/-- the cutoffs of the fragment: `.eq` (default), `.never` (set by the `cutoff` action; change detectors), or `.dependOn a` on a `depend_on` node
`map fnFirst [a, b]` -/
def CutK (k : Kind) (c : CutoffK) : Prop := c = .eq ∨ c = .never ∨ ∃ a b, c = .dependOn a ∧ k = .map fnFirst [a, b]

/-- what the simulation needs to know of the actual state and the ghost all along: no expert nodes, cutoffs of the fragment (no cutoff closure runs), the ghost
is `none` beyond the nodes of the state; `K`: a predicate all kinds satisfy -/
structure Fr (K : Kind → Prop) (g : Nat → Option Val) (s : State) : Prop where
  /-- the kinds of the nodes satisfy `K` (kinds never change; `createNode k` needs `K k`) -/
  kinds : ∀ n, n < s.nodes.size → K (s.nodeD n).kind
  noExp : ∀ n e, (s.nodeD n).kind ≠ .expert e
  cut : ∀ n, CutK (s.nodeD n).kind (s.nodeD n).cutoff
  fresh : ∀ n, s.nodes.size ≤ n → g n = none

/-- what every simulated function keeps: the state grows, invalid nodes stay invalid, and the nodes that exist keep their kind, cutoff and machine
state; `didChange` flags are only RAISED (only the own recompute step of a `map_ref` / `map_with_old` node — which is not simulated — lowers a flag or
changes a machine state) -/
structure VM (s s' : State) : Prop where
  size : s.nodes.size ≤ s'.nodes.size
  valid : ∀ m, (s.nodeD m).valid = false → (s'.nodeD m).valid = false
  kind : ∀ m, m < s.nodes.size → (s'.nodeD m).kind = (s.nodeD m).kind ∧ (s'.nodeD m).cutoff = (s.nodeD m).cutoff ∧
    (s'.nodeD m).oldState = (s.nodeD m).oldState
  flag : ∀ m, m < s.nodes.size → (s'.nodeD m).didChange = false → (s.nodeD m).didChange = false
  /-- new nodes: flag up, machine state initial, the input of a new `map_ref` node is an earlier node -/
  newn : ∀ m, s.nodes.size ≤ m → m < s'.nodes.size → (s'.nodeD m).didChange = true ∧ (s'.nodeD m).oldState = .unit ∧
    ∀ p i, (s'.nodeD m).kind = .mapRef p i → i < m

theorem VM.refl (s : State) : VM s s :=
  ⟨Nat.le_refl _, fun _ h => h, fun _ _ => ⟨rfl, rfl, rfl⟩, fun _ _ h => h, fun m h1 h2 => absurd h2 (by omega)⟩
theorem VM.trans {a b c : State} (h1 : VM a b) (h2 : VM b c) : VM a c :=
  ⟨Nat.le_trans h1.size h2.size, fun m h => h2.valid m (h1.valid m h),
    fun m hm => by
      obtain ⟨x1, x2, x3⟩ := h1.kind m hm
      obtain ⟨y1, y2, y3⟩ := h2.kind m (Nat.lt_of_lt_of_le hm h1.size)
      exact ⟨y1.trans x1, y2.trans x2, y3.trans x3⟩,
    fun m hm h => h1.flag m hm (h2.flag m (Nat.lt_of_lt_of_le hm h1.size) h),
    fun m hm1 hm2 => by
      by_cases hb : m < b.nodes.size
      · obtain ⟨x1, x2, x3⟩ := h1.newn m hm1 hb
        obtain ⟨y1, -, y3⟩ := h2.kind m hb
        refine ⟨?_, y3.trans x2, fun p i hk => x3 p i (by rw [← y1]; exact hk)⟩
        cases hd : (c.nodeD m).didChange with
        | true => rfl
        | false => rw [h2.flag m hb hd] at x1; cases x1
      · exact h2.newn m (by omega) hm2⟩
theorem VM.of_nodes {s s' : State} (e : s'.nodes = s.nodes) : VM s s' := by
  have hn : ∀ n, s'.nodeD n = s.nodeD n := fun n => by simp [State.nodeD, e]
  exact ⟨by rw [e]; exact Nat.le_refl _, fun m h => by rw [hn]; exact h, fun m _ => by rw [hn]; exact ⟨rfl, rfl, rfl⟩,
    fun m _ h => by rw [hn] at h; exact h, fun m h1 h2 => by rw [e] at h2; omega⟩

/-- how the ghost may change: only to `none`, only on nodes that are invalid afterwards -/
structure GR (g g' : Nat → Option Val) (s s' : State) : Prop where
  vm : VM s s'
  gh : ∀ m, g' m = g m ∨ (g' m = none ∧ (s'.nodeD m).valid = false)

theorem GR.refl (g : Nat → Option Val) (s : State) : GR g g s s := ⟨VM.refl s, fun _ => Or.inl rfl⟩
theorem GR.of_vm {g : Nat → Option Val} {s s' : State} (h : VM s s') : GR g g s s' := ⟨h, fun _ => Or.inl rfl⟩
theorem GR.trans {g1 g2 g3 : Nat → Option Val} {a b c : State} (h1 : GR g1 g2 a b) (h2 : GR g2 g3 b c) :
    GR g1 g3 a c := by
  refine ⟨h1.vm.trans h2.vm, fun m => ?_⟩
  rcases h2.gh m with e | ⟨e, hv⟩
  · rcases h1.gh m with e1 | ⟨e1, hv1⟩
    · exact Or.inl (e.trans e1)
    · exact Or.inr ⟨e.trans e1, h2.vm.valid m hv1⟩
  · exact Or.inr ⟨e, hv⟩

/-- on nodes that are valid afterwards the ghost is unchanged -/
theorem GR.valid_eq {g g' : Nat → Option Val} {s s' : State} (h : GR g g' s s') {m : Nat}
    (hv : (s'.nodeD m).valid = true) : g' m = g m := by
  rcases h.gh m with e | ⟨-, e⟩
  · exact e
  · rw [hv] at e; cases e

theorem Fr.of_nodes {K : Kind → Prop} {g : Nat → Option Val} {s s' : State} (h : Fr K g s) (e : s'.nodes = s.nodes) : Fr K g s' := by
  have hn : ∀ n, s'.nodeD n = s.nodeD n := fun n => by simp [State.nodeD, e]
  exact ⟨fun n hn' => by rw [hn]; exact h.kinds n (by rw [← e]; exact hn'), fun n x => by rw [hn]; exact h.noExp n x, fun n => by rw [hn]; exact h.cut n,
    fun n hn' => h.fresh n (by rw [← e]; exact hn')⟩

theorem Fr.some {K : Kind → Prop} {g : Nat → Option Val} {s : State} (h : Fr K g s) {n : Nat} {nd : Node} (hn : s.nodes[n]? = some nd) :
    ∀ e, nd.kind ≠ .expert e := by
  have h1 := h.noExp n
  rw [nodeD_of_some hn] at h1; exact h1

def SimAt (K : Kind → Prop) (g : Nat → Option Val) (s : State) {α} (x x' : M α) : Prop :=
  Fr K g s → ∀ r s', x.run.run s = (.ok r, s') →
    x'.run.run (virt g s) = (.ok r, virt g s') ∧ Fr K g s' ∧ VM s s'

def Sim (K : Kind → Prop) (g : Nat → Option Val) {α} (x x' : M α) : Prop := ∀ s, SimAt K g s x x'

def SimXAt (K : Kind → Prop) (g : Nat → Option Val) (s : State) {α} (x x' : M α) : Prop :=
  Fr K g s → ∀ r s', x.run.run s = (.ok r, s') →
    ∃ g', x'.run.run (virt g s) = (.ok r, virt g' s') ∧ Fr K g' s' ∧ GR g g' s s'

/-- `SimX K x x'`: for EVERY ghost -/
def SimX (K : Kind → Prop) {α} (x x' : M α) : Prop := ∀ g s, SimXAt K g s x x'

section
variable {K : Kind → Prop} {g : Nat → Option Val} {s : State} {α β : Type}

theorem Sim.at {x x' : M α} (h : Sim K g x x') (s : State) : SimAt K g s x x' := h s

theorem SimAt.toX {x x' : M α} (h : SimAt K g s x x') : SimXAt K g s x x' := by
  intro hf r s' hr
  obtain ⟨h1, h2, h3⟩ := h hf r s' hr
  exact ⟨g, h1, h2, GR.of_vm h3⟩

theorem SimX.at {x x' : M α} (h : SimX K x x') (g : Nat → Option Val) (s : State) : SimXAt K g s x x' := h g s

theorem SimX.of_sim {x x' : M α} (h : ∀ g, Sim K g x x') : SimX K x x' := fun g s => (h g s).toX

theorem SimAt.ret (a : α) : SimAt K g s (pure a : M α) (pure a) := by
  intro hn r s' h; rw [run_pure] at h; cases h; exact ⟨rfl, hn, VM.refl _⟩

theorem SimAt.thr (e : Panic) (x' : M α) : SimAt K g s (throw e : M α) x' := by
  intro _ r s' h; rw [run_throw] at h; cases h

theorem SimAt.pan (e : String) (x' : M α) : SimAt K g s (Engine.panic e : M α) x' := SimAt.thr _ _

theorem SimAt.seq {x x' : M α} {f f' : α → M β} (hx : SimAt K g s x x')
    (hf : ∀ a s1, x.run.run s = (.ok a, s1) → SimAt K g s1 (f a) (f' a)) :
    SimAt K g s (x >>= f) (x' >>= f') := by
  intro hn r s' h
  obtain ⟨a, s1, h1, h2⟩ := bind_ok_inv h
  obtain ⟨e1, n1, v1⟩ := hx hn a s1 h1
  rw [run_bind_ok e1]
  obtain ⟨e2, n2, v2⟩ := hf a s1 h1 n1 r s' h2
  exact ⟨e2, n2, v1.trans v2⟩

theorem SimAt.get_seq {k k' : State → M β} (h : SimAt K g s (k s) (k' (virt g s))) :
    SimAt K g s (get >>= k) (get >>= k') := by
  intro hn r s' hr
  rw [run_bind_get] at hr ⊢
  exact h hn r s' hr

theorem SimAt.getNode_seq {n : Nat} {k k' : Node → M β}
    (h : ∀ nd, s.nodes[n]? = some nd → (∀ e, nd.kind ≠ .expert e) →
      SimAt K g s (k nd) (k' (virtNode (g n) nd))) :
    SimAt K g s (getNode n >>= k) (getNode n >>= k') := by
  intro hn r s' hr
  obtain ⟨nd, hnd, hr⟩ := bind_getNode_inv hr
  have hv : (virt g s).nodes[n]? = some (virtNode (g n) nd) := by rw [virt_getElem?, hnd]; rfl
  rw [run_bind_ok (run_getNode_some hv)]
  exact h nd hnd (hn.some hnd) hn r s' hr

theorem SimAt.mod {f f' : State → State} (h : virt g (f s) = f' (virt g s)) (hn : (f s).nodes = s.nodes) :
    SimAt K g s (modify f : M Unit) (modify f') := by
  intro hne r s' hr; rw [run_modify] at hr ⊢; cases hr; rw [h]
  exact ⟨rfl, hne.of_nodes hn, VM.of_nodes hn⟩

theorem SimAt.mod_seq {f f' : State → State} {k k' : Unit → M β} (h : virt g (f s) = f' (virt g s))
    (hn : (f s).nodes = s.nodes) (hk : SimAt K g (f s) (k ()) (k' ())) :
    SimAt K g s ((modify f : M Unit) >>= k) ((modify f' : M Unit) >>= k') := by
  intro hne r s' hr
  rw [run_bind_modify] at hr ⊢
  rw [← h]
  obtain ⟨e, n, v⟩ := hk (hne.of_nodes hn) r s' hr
  exact ⟨e, n, (VM.of_nodes hn).trans v⟩

theorem SimAt.cond {c c' : Prop} {_ : Decidable c} {_ : Decidable c'} {a b a' b' : M α} (hc : c ↔ c')
    (ha : c → SimAt K g s a a') (hb : ¬ c → SimAt K g s b b') :
    SimAt K g s (if c then a else b) (if c' then a' else b') := by
  by_cases h : c
  · rw [if_pos h, if_pos (hc.1 h)]; exact ha h
  · rw [if_neg h, if_neg (fun h' => h (hc.2 h'))]; exact hb h

theorem fr_modify (hn : Fr K g s) (n : Nat) (f : Node → Node)
    (hk : ∀ nd, (f nd).kind = nd.kind ∧ (f nd).cutoff = nd.cutoff) :
    Fr K g { s with nodes := s.nodes.modify n f } := by
  refine ⟨fun m hm => ?_, fun m e => ?_, fun m => ?_, fun m hm => hn.fresh m (by simpa using hm)⟩
  · have hm' : m < s.nodes.size := by simpa using hm
    rw [nodeD_modify]
    split
    · rw [(hk _).1]; exact hn.kinds m hm'
    · exact hn.kinds m hm'
  · rw [nodeD_modify]
    split
    · rw [(hk _).1]; exact hn.noExp m e
    · exact hn.noExp m e
  · rw [nodeD_modify]
    split
    · rw [(hk _).1, (hk _).2]; exact hn.cut m
    · exact hn.cut m

theorem vm_modify (s : State) (n : Nat) (f : Node → Node)
    (hv : ∀ nd, (f nd).kind = nd.kind ∧ (f nd).cutoff = nd.cutoff ∧ (f nd).oldState = nd.oldState ∧
      (nd.valid = false → (f nd).valid = false) ∧ ((f nd).didChange = false → nd.didChange = false)) :
    VM s { s with nodes := s.nodes.modify n f } := by
  refine ⟨by simp, fun m h => ?_, fun m _ => ?_, fun m _ h => ?_, fun m h1 h2 => absurd h2 (by simp; omega)⟩
  · rw [nodeD_modify]
    split
    · exact (hv _).2.2.2.1 h
    · exact h
  · rw [nodeD_modify]
    split
    · exact ⟨(hv _).1, (hv _).2.1, (hv _).2.2.1⟩
    · exact ⟨rfl, rfl, rfl⟩
  · rw [nodeD_modify] at h
    split at h
    · exact (hv _).2.2.2.2 h
    · exact h

theorem virt_nodes_modify (g : Nat → Option Val) (s : State) (n : Nat) (f f' : Node → Node)
    (hf : ∀ gv nd, virtNode gv (f nd) = f' (virtNode gv nd)) :
    virt g { s with nodes := s.nodes.modify n f } = { virt g s with nodes := (virt g s).nodes.modify n f' } := by
  simp only [virt]
  congr 1
  apply Array.ext
  · simp
  · intro i h1 h2
    simp only [Array.getElem_mapIdx, Array.getElem_modify]
    split
    · rename_i e; subst e; exact hf _ _
    · rfl

/-- a commuting node update -/
theorem Sim.modNode (n : Nat) {f f' : Node → Node} (hf : ∀ gv nd, virtNode gv (f nd) = f' (virtNode gv nd))
    (hk : ∀ nd, (f nd).kind = nd.kind ∧ (f nd).cutoff = nd.cutoff ∧ (f nd).oldState = nd.oldState ∧
      (nd.valid = false → (f nd).valid = false) ∧ ((f nd).didChange = false → nd.didChange = false)) :
    Sim K g (Engine.modNode n f) (Engine.modNode n f') := by
  intro s hne r s' hr
  rw [run_modNode] at hr ⊢
  cases hr
  refine ⟨?_, fr_modify hne n f (fun nd => ⟨(hk nd).1, (hk nd).2.1⟩), vm_modify s n f hk⟩
  rw [virt_nodes_modify g s n f f' hf]

theorem Sim.forIn {γ : Type} (l : List γ) {f f' : γ → β → M (ForInStep β)} (h : ∀ a b, Sim K g (f a b) (f' a b))
    (b : β) : Sim K g (ForIn.forIn l b f) (ForIn.forIn l b f') := by
  induction l generalizing b with
  | nil => intro s; rw [List.forIn_nil, List.forIn_nil]; exact SimAt.ret _
  | cons a l ih =>
    intro s
    rw [List.forIn_cons, List.forIn_cons]
    refine SimAt.seq (h a b s) fun r s1 _ => ?_
    cases r with
    | done b' => exact SimAt.ret _
    | yield b' => exact ih b' s1

/-! ## the calculus with a changing ghost -/

theorem SimXAt.ret (a : α) : SimXAt K g s (pure a : M α) (pure a) := (SimAt.ret a).toX
theorem SimXAt.thr (e : Panic) (x' : M α) : SimXAt K g s (throw e : M α) x' := (SimAt.thr e x').toX
theorem SimXAt.pan (e : String) (x' : M α) : SimXAt K g s (Engine.panic e : M α) x' := SimXAt.thr _ _

theorem SimXAt.seq {x x' : M α} {f f' : α → M β} (hx : SimXAt K g s x x')
    (hf : ∀ a s1 g1, x.run.run s = (.ok a, s1) → SimXAt K g1 s1 (f a) (f' a)) :
    SimXAt K g s (x >>= f) (x' >>= f') := by
  intro hn r s' h
  obtain ⟨a, s1, h1, h2⟩ := bind_ok_inv h
  obtain ⟨g1, e1, n1, v1⟩ := hx hn a s1 h1
  rw [run_bind_ok e1]
  obtain ⟨g2, e2, n2, v2⟩ := hf a s1 g1 h1 n1 r s' h2
  exact ⟨g2, e2, n2, v1.trans v2⟩

theorem SimXAt.get_seq {k k' : State → M β} (h : SimXAt K g s (k s) (k' (virt g s))) :
    SimXAt K g s (get >>= k) (get >>= k') := by
  intro hn r s' hr
  rw [run_bind_get] at hr ⊢
  exact h hn r s' hr

theorem SimXAt.getNode_seq {n : Nat} {k k' : Node → M β}
    (h : ∀ nd, s.nodes[n]? = some nd → (∀ e, nd.kind ≠ .expert e) →
      SimXAt K g s (k nd) (k' (virtNode (g n) nd))) :
    SimXAt K g s (getNode n >>= k) (getNode n >>= k') := by
  intro hn r s' hr
  obtain ⟨nd, hnd, hr⟩ := bind_getNode_inv hr
  have hv : (virt g s).nodes[n]? = some (virtNode (g n) nd) := by rw [virt_getElem?, hnd]; rfl
  rw [run_bind_ok (run_getNode_some hv)]
  exact h nd hnd (hn.some hnd) hn r s' hr

theorem SimXAt.mod_seq {f f' : State → State} {k k' : Unit → M β} (h : virt g (f s) = f' (virt g s))
    (hn : (f s).nodes = s.nodes) (hk : SimXAt K g (f s) (k ()) (k' ())) :
    SimXAt K g s ((modify f : M Unit) >>= k) ((modify f' : M Unit) >>= k') := by
  intro hne r s' hr
  rw [run_bind_modify] at hr ⊢
  rw [← h]
  obtain ⟨g', e, n, v⟩ := hk (hne.of_nodes hn) r s' hr
  exact ⟨g', e, n, (GR.of_vm (VM.of_nodes hn)).trans v⟩

theorem SimXAt.cond {c c' : Prop} {_ : Decidable c} {_ : Decidable c'} {a b a' b' : M α} (hc : c ↔ c')
    (ha : c → SimXAt K g s a a') (hb : ¬ c → SimXAt K g s b b') :
    SimXAt K g s (if c then a else b) (if c' then a' else b') := by
  by_cases h : c
  · rw [if_pos h, if_pos (hc.1 h)]; exact ha h
  · rw [if_neg h, if_neg (fun h' => h (hc.2 h'))]; exact hb h

theorem SimX.forIn {γ : Type} (l : List γ) {f f' : γ → β → M (ForInStep β)} (h : ∀ a b, SimX K (f a b) (f' a b))
    (b : β) : SimX K (ForIn.forIn l b f) (ForIn.forIn l b f') := by
  induction l generalizing b with
  | nil => intro g s; rw [List.forIn_nil, List.forIn_nil]; exact SimXAt.ret _
  | cons a l ih =>
    intro g s
    rw [List.forIn_cons, List.forIn_cons]
    refine SimXAt.seq (h a b g s) fun r s1 g1 _ => ?_
    cases r with
    | done b' => exact SimXAt.ret _
    | yield b' => exact ih b' g1 s1

/-- the one place where the ghost changes: a node update that erases the stored value (of a node that will be invalid) is
matched by erasing the ghost; the relation `GR` is re-established by the caller once the node is invalid -/
theorem virt_erase (g : Nat → Option Val) (s : State) (n : Nat) (f f' : Node → Node)
    (hf : ∀ gv nd, virtNode none (f nd) = f' (virtNode gv nd)) :
    virt (fun m => if m = n then none else g m) { s with nodes := s.nodes.modify n f } =
      { virt g s with nodes := (virt g s).nodes.modify n f' } := by
  simp only [virt]
  congr 1
  apply Array.ext
  · simp
  · intro i h1 h2
    simp only [Array.getElem_mapIdx, Array.getElem_modify]
    by_cases e : n = i
    · subst e; simp only [if_true]; exact hf _ _
    · simp only [if_neg e, if_neg (fun h : i = n => e h.symm)]

end

/-! ## tactics -/

/-- normalise everything a model function reads of `virt g s` / `virtNode gv nd` -/
macro "fnorm" : tactic => `(tactic| simp only [virt_cfg, virt_binds, virt_experts, virt_observers, virt_ahh,
  virt_maxHeightSeen, virt_status, virt_currentScope, virt_propagateInvalidity, virt_handleAfterStab,
  virt_newObservers, virt_disallowedObservers, virt_allObservers, virt_setDuringStab, virt_deadVars, virt_counters,
  virt_panicCountdown, virt_alive, virt_top, virt_handles, virt_slots, virt_log, virt_memos, virt_perkeys, virt_nextToken,
  virt_nextDep, virt_currentlyRunning, virt_vars, virt_rch, virt_stabNum,
  virt_isNecessary, virt_isStale, virt_needsToBeComputed, virt_shouldBeInvalidated, virt_children, virt_size, virt_nodeD,
  virtNode_valid, virtNode_cutoff, virtNode_createdIn, virtNode_parents, virtNode_observers,
  virtNode_forceNecessary, virtNode_height, virtNode_heightInRch, virtNode_heightInAhh, virtNode_recomputedAt,
  virtNode_changedAt, virtNode_num, virtNode_inHas, virtNode_oldState, virtNode_isNecessary, virtNode_inRch])

/-- closes `∀ gv nd, virtNode gv (f nd) = f (virtNode gv nd)` for an `f` that does not touch `kind`, `value`, `didChange` -/
macro "fcomm" : tactic => `(tactic| (intro gv nd; rcases nd with ⟨k⟩; cases k <;> rfl))
/-- closes the side goal of `Sim.modNode` / `vm_modify`: `f` keeps `kind`, `cutoff`, `oldState`, does not revalidate, does not lower `didChange` -/
macro "fkind" : tactic => `(tactic| (intro nd; exact ⟨rfl, rfl, rfl, fun h => (by first | exact h | rfl), fun h => (by first | exact h | cases h)⟩))

section
variable {K : Kind → Prop} {g : Nat → Option Val}

theorem Sim.dassert (c : Bool) (site : String) : Sim K g (Engine.dassert c site) (Engine.dassert c site) := by
  intro s hn r s' h
  rw [run_dassert] at h ⊢
  by_cases hc : s.cfg.debug = true ∧ c = false
  · rw [if_pos hc] at h; cases h
  · rw [if_neg hc] at h; cases h; exact ⟨if_neg hc, hn, VM.refl _⟩

theorem Sim.assertM (c : Bool) (site : String) : Sim K g (Engine.assertM c site) (Engine.assertM c site) := by
  intro s hn r s' h
  rw [run_assertM] at h ⊢
  split at h
  · rename_i hc; cases h; rw [if_pos hc]; exact ⟨rfl, hn, VM.refl _⟩
  · cases h

end
end IncrVerif.Proofs.FullH
