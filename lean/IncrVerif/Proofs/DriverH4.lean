import IncrVerif.Proofs.DriverH1
import IncrVerif.Proofs.DriverH2
/-!
# Drivers, part 2: the auxiliary drain invariant, the drain frame, and the contracts between the assembly files
-/
namespace IncrVerif.Proofs.DriverH
open IncrVerif.Engine IncrVerif.Driver IncrVerif.Proofs IncrVerif.Proofs.Step IncrVerif.Proofs.Sched
open IncrVerif.Proofs.ExpertH IncrVerif.Proofs.ExpertH.QR IncrVerif.Proofs.EffH

/-! ## the invariant of the drain -/

/-- the auxiliary invariant of the drain (it accompanies `BindH.DInv (virtEnv E) (virt s) x`) -/
structure AuxD (E : Env) (s : State) : Prop where
  frag : XFrag E s
  ahh : QR.AhhEmpty s
  pinv : s.propagateInvalidity = []
  handlers : ∀ m, (s.nodeD m).numOnUpdateHandlers ≤ 0
  rank : ∃ rk, QR.AllStatic (virtEnv E) rk (virt s)
  nodup : ∀ c, (s.nodeD c).parents.Nodup
  vars : QR.VarsOK (virt s)

/-- **the drain invariant with drivers**: `E = noEff env`; the virtual static state satisfies the drain invariant with a
changing graph of `Props/C03Order.lean`; the auxiliary invariant; the drivers are well-formed -/
structure DD (env : Env) (s : State) (x : Option Nat) : Prop where
  inv : BindH.DInv (virtEnv (noEff env)) (virt s) x
  aux : AuxD (noEff env) s
  drv : DrvOK env s

/-- node fields no step of the drain changes -/
def dnKey (nd : Node) :=
  (nd.kind, nd.createdIn, nd.cutoff, nd.valid, nd.observers, nd.forceNecessary, nd.numOnUpdateHandlers)

/-- what every step of the drain keeps (`eKey`: the state fields; `frameB`: round number, cells, stamps of this round,
read in the virtual states) -/
structure DStep (s s' : State) : Prop where
  frameB : BindH.FrameB (virt s) (virt s')
  size : s'.nodes.size = s.nodes.size
  key : eKey s' = eKey s
  node : ∀ m, dnKey (s'.nodeD m) = dnKey (s.nodeD m)

theorem DStep.refl (s : State) : DStep s s := ⟨BindH.FrameB.refl _, rfl, rfl, fun _ => rfl⟩
theorem DStep.trans {a b c : State} (h1 : DStep a b) (h2 : DStep b c) : DStep a c :=
  ⟨h1.frameB.trans h2.frameB, h2.size.trans h1.size, h2.key.trans h1.key, fun m => (h2.node m).trans (h1.node m)⟩

/-! ## contracts -/

/-- the expert records the driver `n` may edit: those of the nodes it drives -/
def DOf (s : State) (n : Nat) : Nat → Prop := fun e => ∃ x, Drives s n x ∧ (s.nodeD x).kind = .expert e

/-- **the effect list of a driver**, from `Mid` to `Mid` -/
def EffectsSpec (env : Env) : Prop :=
  ∀ (fuel n : Nat) (effs : List Effect) (arg : Int) (s s' : State),
    Mid (noEff env) s → (∀ eff, eff ∈ effs → EffOK s n eff) →
    (runEffects env fuel effs arg).run.run s = (.ok (), s') →
    Mid (noEff env) s' ∧ EF (DOf s n) s s' ∧ (∀ m x, Drives s m x → Drives s' m x) ∧
      (s.isNecessary n = true → s'.isNecessary n = true)

/-- the virtual state in which the static step of the driver starts: `S` with the stamp of `n` put back to `r` -/
def unstamp (n : Nat) (r : Int) (S : State) : State :=
  { S with nodes := S.nodes.modify n fun x => { x with recomputedAt := r } }

/-- the nodes rewired between `s` and `s2`: expert nodes whose record changed in `children` or `forceStale` -/
def Rewired (s s2 : State) (x : Nat) : Prop :=
  ∃ e er er', (s.nodeD x).kind = .expert e ∧ s.experts[e]? = some er ∧ s2.experts[e]? = some er' ∧
    ¬ (er'.children = er.children ∧ er'.forceStale = er.forceStale)

/-- **bridge 1**: when a non-expert node `n` is about to run, the state in which it is stamped satisfies `Mid` -/
def MidOfDInv (E : Env) : Prop :=
  ∀ (n : Nat) (s : State), BindH.DInv (virtEnv E) (virt s) (some n) → AuxD E s →
    (∀ e, (s.nodeD n).kind ≠ .expert e) → Mid E (started n s)

/-- **bridge 2**: from `Mid` after the effects (state `s2`, reached from `started n s` by the frame `EF D`, where every
record in `D` belongs to a node that has `n` as a child) to the rewiring step `StepW` of the virtual states, and the
auxiliary invariant of `s2` -/
def StepWOfMid (E : Env) : Prop :=
  ∀ (n : Nat) (D : Nat → Prop) (s s2 : State), BindH.DInv (virtEnv E) (virt s) (some n) → AuxD E s →
    (∀ e, (s.nodeD n).kind ≠ .expert e) → Mid E s2 → EF D (started n s) s2 →
    (∀ e x, D e → (s.nodeD x).kind = .expert e → n ∈ s.children x) → s2.isNecessary n = true →
    StepW (virtEnv E) (Rewired s s2) n (virt s) (unstamp n (s.nodeD n).recomputedAt (virt s2)) ∧ AuxD E s2

/-- **one `recomputeOne` of the drain** (any node of the fragment) -/
def StepSpec (env : Env) : Prop :=
  ∀ (fuel n : Nat) (s s' : State) (r : Option Nat), DD env s (some n) →
    (recomputeOne env fuel n).run.run s = (.ok r, s') →
    DD env s' r ∧ DStep s s' ∧ ((virt s').nodeD n).recomputedAt = s.stabNum

/-- **one pop** -/
def PopSpec (env : Env) : Prop :=
  ∀ (s s1 : State) (n : Nat), DD env s none → rchRemoveMin.run.run s = (.ok (some n), s1) →
    DD env s1 (some n) ∧ DStep s s1

/-- **the drain** -/
def DrainSpec (env : Env) : Prop :=
  ∀ (fuel : Nat) (s s' : State), DD env s none → (drainHeap env fuel).run.run s = (.ok (), s') →
    DD env s' none ∧ s'.rch.length = 0 ∧ DStep s s' ∧ (drainTrace env fuel s).Nodup

end IncrVerif.Proofs.DriverH
