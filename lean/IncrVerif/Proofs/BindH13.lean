import IncrVerif.Proofs.BindH12
import IncrVerif.Proofs.Sched6
/-!
# Binds, part 3g: what the drain achieves — from-scratch values, at most once, dead generations never ran
-/
namespace IncrVerif.Proofs.BindH
open IncrVerif.Engine IncrVerif.Proofs IncrVerif.Proofs.Step IncrVerif.Proofs.Sched

/-! ## from-scratch evaluation with binds -/

/-- from-scratch evaluation of node `n` (fuel `k`): as `Sched.eval`, a change detector evaluates to `()`, and a bind's
main node to the evaluation of the bind's CURRENT right-hand side -/
def evalB (env : Env) (s : State) : Nat → Nat → Option Val
  | 0, _ => none
  | k+1, n =>
    match (s.nodeD n).kind with
    | .const v => some v
    | .var c => (s.vars[c]?).map (·.value)
    | .map f args => (evalArgs (fun a => evalB env s k a) args).map (env.fn f)
    | .fold f init cs => (evalArgs (fun a => evalB env s k a) cs).map (List.foldl (env.foldStep f) init)
    | .bindLhsChange _ => some .unit
    | .bindMain b _ => match s.binds[b]? with
      | some br => (match br.rhs with
        | some r => evalB env s k r
        | none => none)
      | none => none
    | _ => none

theorem evalB_of_consistent {env : Env} {s : State} (g : BGraph env s)
    (hc : ∀ m, s.isNecessary m = true → ConsistentB env s m) :
    ∀ k n, s.isNecessary n = true → (s.nodeD n).height.toNat < k → (s.nodeD n).value = evalB env s k n := by
  intro k
  induction k with
  | zero => intro n _ h; omega
  | succ k ih =>
    intro n hn hk
    obtain ⟨v, ht, hv⟩ := hc n hn
    have hnlt := g.nec_lt hn
    have hnv := (g.nec n hn).1
    have hkids : ∀ a, a ∈ s.children n → (s.nodeD a).value = evalB env s k a := by
      intro a ha
      obtain ⟨h1, h2⟩ := g.edge_nec hn (Edge.child ha)
      have h0 := (g.nec a h1).2
      exact ih a h1 (by omega)
    rw [hv]
    unfold TargetB at ht
    unfold evalB
    cases hkd : (s.nodeD n).kind with
    | const w => rw [hkd] at ht; simp only [Target, hkd] at ht; simp only [ht]
    | var c =>
      rw [hkd] at ht
      simp only [Target, hkd] at ht
      obtain ⟨vc, h1, h2⟩ := ht
      simp only [h1, h2, Option.map_some]
    | map f args =>
      rw [hkd] at ht
      have hcs : s.children n = args := by unfold State.children Node.kind?; rw [hnv, hkd]; rfl
      rw [hcs] at hkids
      simp only [Target, hkd] at ht
      obtain ⟨vals, h1, h2⟩ := ht
      simp only
      rw [← evalArgs_congr _ _ args (fun a ha => hkids a ha)]
      unfold plainVals at h1
      rw [h1, h2]; rfl
    | fold f init cs =>
      rw [hkd] at ht
      have hcs : s.children n = cs := by unfold State.children Node.kind?; rw [hnv, hkd]; rfl
      rw [hcs] at hkids
      simp only [Target, hkd] at ht
      obtain ⟨vals, h1, h2⟩ := ht
      simp only
      rw [← evalArgs_congr _ _ cs (fun a ha => hkids a ha)]
      unfold plainVals at h1
      rw [h1, h2]; rfl
    | bindLhsChange b => rw [hkd] at ht; simp only at ht; rw [ht]
    | bindMain b lc =>
      rw [hkd] at ht
      obtain ⟨br, r, h1, h2, h3⟩ := ht
      have hr : r ∈ s.children n := by
        unfold State.children Node.kind?
        rw [hnv, hkd]
        simp only [if_true, h1, h2]
        simp
      simp only [h1, h2]
      rw [← hkids r hr, h3]
    | mapRef _ _ => rw [hkd] at ht; simp only [Target, hkd] at ht
    | mapWithOld _ _ => rw [hkd] at ht; simp only [Target, hkd] at ht
    | expert _ => rw [hkd] at ht; simp only [Target, hkd] at ht

/-- **The values after the drain.** With the drain invariant and an empty heap, every necessary node is valid, not
stale, and carries — in its `value` field and as seen by observers — its from-scratch value `evalB`; for a bind's
main node that is the from-scratch value of the bind's current right-hand side, and the bind's change detector is not
stale (it last ran on the current value of the lhs). -/
theorem drained_valuesB {env : Env} {s : State} (I : DInv env s none) (he : s.rch.length = 0)
    (n : Nat) (hn : s.isNecessary n = true) (k : Nat) (hk : (s.nodeD n).height.toNat < k) :
    (s.nodeD n).valid = true ∧ s.isStale n = false ∧
      (s.nodeD n).value = evalB env s k n ∧ s.value env n = evalB env s k n ∧
      (evalB env s k n).isSome = true := by
  have g := I.graph
  have hall : ∀ m, s.isNecessary m = true → s.isStale m = false ∧ ConsistentB env s m := by
    intro m hm
    have hns : s.isStale m = false := by
      cases hst : s.isStale m with
      | false => rfl
      | true =>
        rcases I.pending m hm hst with h1 | h1
        · rw [I.heap.empty he m] at h1; cases h1
        · cases h1
    exact ⟨hns, I.cons m (g.nec_lt hm) (g.nec m hm).1 hns⟩
  have hv := evalB_of_consistent g (fun m hm => (hall m hm).2) k n hn hk
  obtain ⟨v, _, hval⟩ := (hall n hn).2
  refine ⟨(g.nec n hn).1, (hall n hn).1, hv, ?_, ?_⟩
  · rw [g.value_plain (g.nec_lt hn) (g.nec n hn).1]; exact hv
  · rw [← hv, hval]; rfl

/-- **The values after `drainHeap`.** -/
theorem drainHeap_valuesB {env : Env} {Aux : State → Prop} (H : LcStepsOK env Aux) {fuel : Nat} {s s' : State}
    (I : DInv env s none) (hA : Aux s) (h : (drainHeap env fuel).run.run s = (.ok (), s')) :
    DInv env s' none ∧ Aux s' ∧ s'.rch.length = 0 ∧ s'.vars = s.vars ∧ s'.stabNum = s.stabNum ∧
    ∀ n, s'.isNecessary n = true → ∀ k, (s'.nodeD n).height.toNat < k →
      (s'.nodeD n).valid = true ∧ s'.isStale n = false ∧
        (s'.nodeD n).value = evalB env s' k n ∧ s'.value env n = evalB env s' k n ∧
        (evalB env s' k n).isSome = true := by
  obtain ⟨I', hA', he, f⟩ := drainHeap_invB H fuel s s' I hA h
  exact ⟨I', hA', he, f.vars, f.stabNum, fun n hn k hk => drained_valuesB I' he n hn k hk⟩

/-! ## at most once; dead generations -/

/-- what is said about each node of a trace from `s` to `s'`: it had not run in this round before, it is stamped
afterwards, and it is still a VALID node at the end (it does not belong to a generation that died in this drain) -/
def RanOnceB (s s' : State) (m : Nat) : Prop :=
  (s.nodeD m).recomputedAt < s.stabNum ∧ (s'.nodeD m).recomputedAt = s.stabNum ∧ (s'.nodeD m).valid = true

theorem FrameB.not_yet {s s' : State} (f : FrameB s s') (st : Stamps s) {m : Nat}
    (h : (s'.nodeD m).recomputedAt < s.stabNum) : (s.nodeD m).recomputedAt < s.stabNum := by
  have h1 := (st.node m).1
  by_cases e : (s.nodeD m).recomputedAt = s.stabNum
  · have := (f.ran m e).1; omega
  · omega

theorem RanOnceB.extend_left {a b c : State} {m : Nat} (f : FrameB a b) (st : Stamps a)
    (h : RanOnceB b c m) : RanOnceB a c m := by
  obtain ⟨h2, h3, h4⟩ := h
  rw [f.stabNum] at h2 h3
  exact ⟨f.not_yet st h2, h3, h4⟩

theorem RanOnceB.extend_right {a b c : State} {m : Nat} (f : FrameB b c) (hab : b.stabNum = a.stabNum)
    (h : RanOnceB a b m) : RanOnceB a c m := by
  obtain ⟨h2, h3, h4⟩ := h
  obtain ⟨k1, k2⟩ := f.ran m (by rw [hab]; exact h3)
  exact ⟨h2, by rw [hab] at k1; exact k1, by rw [k2]; exact h4⟩

theorem chain_onceB {env : Env} {Aux : State → Prop} (H : LcStepsOK env Aux) :
    ∀ (fuel n : Nat) (s s' : State), DInv env s (some n) → Aux s →
    (recompute env fuel n).run.run s = (.ok (), s') →
    (chainTrace env fuel n s).Nodup ∧ ∀ m, m ∈ chainTrace env fuel n s → RanOnceB s s' m := by
  intro fuel
  induction fuel with
  | zero => intro n s s' _ _ h; unfold recompute at h; cases h
  | succ fuel ih =>
    intro n s s' I hA h
    unfold recompute at h
    obtain ⟨r, s1, h1, h2⟩ := bind_ok_inv h
    obtain ⟨I1, hA1, f1, hn1, hv1⟩ := recomputeOne_invB H I hA h1
    have hn0 := I.cur_facts.2.2.2.2
    unfold chainTrace
    rw [h1]
    cases r with
    | none =>
      obtain ⟨-, rfl⟩ := pure_ok_inv h2
      refine ⟨by simp, ?_⟩
      intro m hm
      rw [List.mem_singleton] at hm
      subst hm
      exact ⟨hn0, hn1, hv1⟩
    | some p =>
      obtain ⟨hnd, hall⟩ := ih p s1 s' I1 hA1 h2
      obtain ⟨-, -, f2⟩ := recompute_invB H fuel p s1 s' I1 hA1 h2
      have hnot : n ∉ chainTrace env fuel p s1 := by
        intro hmem
        have := (hall n hmem).1
        rw [f1.stabNum] at this
        omega
      refine ⟨List.nodup_cons.2 ⟨hnot, hnd⟩, ?_⟩
      intro m hm
      rcases List.mem_cons.1 hm with rfl | hm
      · exact RanOnceB.extend_right f2 f1.stabNum ⟨hn0, hn1, hv1⟩
      · exact (hall m hm).extend_left f1 I.stamps

/-- **At most once, and never a dying generation.** The nodes run by a successful `drainHeap` from a state with the
drain invariant are pairwise distinct; each had `recomputedAt < stabNum` before the drain, has `recomputedAt = stabNum`
after it, and is still valid at the end of the drain — so no node of a generation that is invalidated during this
drain was recomputed in it (neither before nor after the bind's change detector ran). -/
theorem drain_onceB {env : Env} {Aux : State → Prop} (H : LcStepsOK env Aux) :
    ∀ (fuel : Nat) (s s' : State), DInv env s none → Aux s →
    (drainHeap env fuel).run.run s = (.ok (), s') →
    (drainTrace env fuel s).Nodup ∧ ∀ m, m ∈ drainTrace env fuel s → RanOnceB s s' m := by
  intro fuel
  induction fuel with
  | zero => intro s s' _ _ h; unfold drainHeap at h; cases h
  | succ fuel ih =>
    intro s s' I hA h
    unfold drainHeap at h
    obtain ⟨r, s1, h1, h2⟩ := bind_ok_inv h
    unfold drainTrace
    rw [h1]
    cases r with
    | none => exact ⟨List.nodup_nil, fun m hm => by cases hm⟩
    | some n =>
      obtain ⟨u, s2, h3, h4⟩ := bind_ok_inv h2
      dsimp only
      rw [h3]
      dsimp only
      obtain ⟨I1, f1⟩ := pop_invB I h1
      have hA1 := H.pop s s1 n I hA h1
      obtain ⟨I2, hA2, f2⟩ := recompute_invB H fuel n s1 s2 I1 hA1 h3
      obtain ⟨-, -, -, f3⟩ := drainHeap_invB H fuel s2 s' I2 hA2 h4
      obtain ⟨hnd1, hall1⟩ := chain_onceB H fuel n s1 s2 I1 hA1 h3
      obtain ⟨hnd2, hall2⟩ := ih s2 s' I2 hA2 h4
      refine ⟨List.nodup_append.2 ⟨hnd1, hnd2, ?_⟩, ?_⟩
      · intro a ha b hb e
        subst e
        have h5 := (hall1 a ha).2.1
        have h6 := (hall2 a hb).1
        rw [f2.stabNum] at h6
        omega
      · intro m hm
        rcases List.mem_append.1 hm with hm | hm
        · exact ((hall1 m hm).extend_right f3 f2.stabNum).extend_left f1 I.stamps
        · exact (hall2 m hm).extend_left (f1.trans f2) I.stamps

/-- **C03, step form.** When a change detector is about to run (it is the current node of the invariant), no valid
node created in its bind's scope — in particular no node of the generation that this run will invalidate — has been
recomputed in this round. -/
theorem scope_not_yet_run {env : Env} {s : State} {n b m : Nat} {br : BindRec} (I : DInv env s (some n))
    (hb : s.binds[b]? = some br) (hlc : br.lhsChange = n)
    (hv : (s.nodeD m).valid = true) (hsc : (s.nodeD m).createdIn = .bind b) :
    (s.nodeD m).recomputedAt < s.stabNum := by
  have he : Edge s m n := by
    have := Edge.scope hv hsc hb
    rw [hlc] at this; exact this
  exact I.fresh m n (Below.of_edge he) (Or.inr rfl)

/-- **C03, ordering form.** When a valid node `m` created in scope `.bind b` is about to run (it is the current node),
the change detector of `b` is neither queued nor stale: it has had its chance in this round. -/
theorem scope_node_settled {env : Env} {s : State} {m b : Nat} {br : BindRec} (I : DInv env s (some m))
    (hb : s.binds[b]? = some br) (hsc : (s.nodeD m).createdIn = .bind b) :
    (s.nodeD br.lhsChange).inRch = false ∧ s.isStale br.lhsChange = false := by
  obtain ⟨hn, hlt, hv, -, -⟩ := I.cur_facts
  have he : Edge s m br.lhsChange := Edge.scope hv hsc hb
  have hq := (I.cur m rfl).2 _ (Below.of_edge he)
  refine ⟨hq, ?_⟩
  cases hst : s.isStale br.lhsChange with
  | false => rfl
  | true =>
    rcases I.pending _ (I.graph.edge_nec hn he).1 hst with h | h
    · rw [hq] at h; cases h
    · injection h with h
      exact absurd h (I.graph.edge_ne he)

end IncrVerif.Proofs.BindH
