import IncrVerif.Proofs.PerKeyH22
/-!
# twin simulation, part 9: one `recomputeOne` of a node that is neither an expert node nor a change detector
(port of `Proofs/ExpertH29.lean`)
-/
namespace IncrVerif.Proofs.PerKeyH
open IncrVerif.Engine IncrVerif.Driver IncrVerif.Proofs IncrVerif.Proofs.Step IncrVerif.Proofs.Sched
open IncrVerif.Proofs.ExpertH IncrVerif.Proofs.EffH

/-! ## `twL` commutes with the bookkeeping at the start of a step -/

theorem twL_started (l : List Event) (n : Nat) (s : State) : twL l (started n s) = started n (twL l s) := by
  simp only [twL, started]
  rw [tw_map_modify s.nodes n (fun x => { x with recomputedAt := s.stabNum })
    (fun x => { x with recomputedAt := s.stabNum }) (fun _ => rfl)]
  rfl

theorem logged_twL (es : List Event) (l : List Event) (s : State) :
    logged es (twL l s) = twL (logged es (twL l s)).log s := rfl

/-- the kinds whose recompute is simulated by itself on the twin -/
def TKind (env : Env) : Kind → Prop
  | .const _ => True
  | .var _ => True
  | .map f _ => f < fnPerKey ∧ (f < fnZip → ∀ vals, env.fnEff f vals = [])
  | .fold _ _ _ => True
  | _ => False

theorem valuesOf_twL (env : Env) (l : List Event) (s : State) (args : List Nat) :
    valuesOf (twEnv env) (twL l s) args = valuesOf env s args := by
  induction args with
  | nil => rfl
  | cons a as ih =>
    simp only [valuesOf]
    rw [twL_value, ih]

/-- both steps reduce to `maybe_change_value` from corresponding states -/
theorem recomputeOne_tsim_finish {env : Env} {s s' : State} {l : List Event} {fuel n : Nat} {r : Option Nat}
    {es : List Event} {v : Val} (hfr : Fr s)
    (ha : (recomputeOne env fuel n).run.run s
      = (maybeChangeValue env fuel n v).run.run (logged es (started n s)))
    (hv : (recomputeOne (twEnv env) fuel n).run.run (twL l s)
      = (maybeChangeValue (twEnv env) fuel n v).run.run (logged es (started n (twL l s))))
    (h : (recomputeOne env fuel n).run.run s = (.ok r, s')) :
    (∃ l', (recomputeOne (twEnv env) fuel n).run.run (twL l s) = (.ok r, twL l' s')) ∧ Fr s' := by
  rw [ha] at h
  rw [hv, ← twL_started l n s, logged_twL]
  have := TSim.maybeChangeValue env fuel n v (logged es (started n s)) ((hfr.started n).logged es)
    (logged es (twL l (started n s))).log r s' h
  exact this

/-- one `recomputeOne` of a `const`, `var`, `fold` or pure `map f` (`f < fnPerKey`) node -/
theorem recomputeOne_tsim {env : Env} {s s' : State} {fuel n : Nat} {r : Option Nat}
    (hfr : Fr s) (hn : n < s.nodes.size) (hxk : TKind env (s.nodeD n).kind) (l : List Event)
    (h : (recomputeOne env fuel n).run.run s = (.ok r, s')) :
    (∃ l', (recomputeOne (twEnv env) fuel n).run.run (twL l s) = (.ok r, twL l' s')) ∧ Fr s' := by
  have hnd := some_of_lt hn
  have hval := hfr.valid n
  have hsmall : twKind (s.nodeD n).kind = (s.nodeD n).kind := by
    cases hk : (s.nodeD n).kind <;> try rfl
    rw [hk] at hxk
    exact twKind_small hxk.1
  have hvn : (twL l s).nodes[n]? = some (twNode (s.nodeD n)) := by
    rw [twL_getElem?, hnd]; rfl
  have hvalt : (twNode (s.nodeD n)).valid = true := hval
  have hkt : (twNode (s.nodeD n)).kind = (s.nodeD n).kind := hsmall
  cases hkd : (s.nodeD n).kind with
  | const v =>
    refine recomputeOne_tsim_finish (es := []) (v := v) hfr ?_ ?_ h
    · exact recomputeOne_const_run env fuel n s _ v hnd hval hkd
    · exact recomputeOne_const_run (twEnv env) fuel n (twL l s) _ v hvn hvalt (hkt.trans hkd)
  | var c =>
    obtain ⟨vc, hvc⟩ := recomputeOne_ok_var hnd hval hkd h
    refine recomputeOne_tsim_finish (es := []) (v := vc.value) hfr ?_ ?_ h
    · exact recomputeOne_var_run env fuel n s _ c vc hnd hval hkd hvc
    · exact recomputeOne_var_run (twEnv env) fuel n (twL l s) _ c vc hvn hvalt (hkt.trans hkd) hvc
  | map f args =>
    rw [hkd] at hxk
    obtain ⟨vals, hvals⟩ := recomputeOne_ok_vals hnd hval (Or.inl ⟨f, hkd⟩) h
    have hvvals : valuesOf (twEnv env) (twL l s) args = some vals := by
      rw [valuesOf_twL env l s args]; exact hvals
    by_cases hf : f < fnZip
    · refine recomputeOne_tsim_finish (es := [.inv s!"f{f}" n vals (env.fn f vals).render]) (v := env.fn f vals)
        hfr ?_ ?_ h
      · exact recomputeOne_map_run env fuel n s _ f args vals hnd hval hkd hf hvals (hxk.2 hf vals) hfr.pc
      · exact recomputeOne_map_run (twEnv env) fuel n (twL l s) _ f args vals hvn hvalt (hkt.trans hkd) hf hvvals
          rfl hfr.pc
    · refine recomputeOne_tsim_finish (es := []) (v := env.fn f vals) hfr ?_ ?_ h
      · exact recomputeOne_mapBuiltin_run env fuel n s _ f args vals hnd hval hkd hf hxk.1 hvals
      · exact recomputeOne_mapBuiltin_run (twEnv env) fuel n (twL l s) _ f args vals hvn hvalt (hkt.trans hkd) hf
          hxk.1 hvvals
  | fold f init cs =>
    obtain ⟨vals, hvals⟩ := recomputeOne_ok_vals hnd hval (Or.inr ⟨f, init, hkd⟩) h
    have hvvals : valuesOf (twEnv env) (twL l s) cs = some vals := by
      rw [valuesOf_twL env l s cs]; exact hvals
    refine recomputeOne_tsim_finish (es := [.inv s!"fold{f}" n vals (vals.foldl (env.foldStep f) init).render])
      (v := vals.foldl (env.foldStep f) init) hfr ?_ ?_ h
    · exact recomputeOne_fold_run env fuel n s _ f init cs vals hnd hval hkd hvals hfr.pc
    · exact recomputeOne_fold_run (twEnv env) fuel n (twL l s) _ f init cs vals hvn hvalt (hkt.trans hkd) hvvals
        hfr.pc
  | _ => rw [hkd] at hxk; exact hxk.elim

end IncrVerif.Proofs.PerKeyH
