import IncrVerif.Proofs.Sched13
import IncrVerif.Engine.Run
/-!
# Per-key operators, `stabilise`, part 1: the prefix of `stabilise` keeps `State.perkeys`

`KP.*`: `Step.Pres KPk` (`KPk s s' := s'.perkeys = s.perkeys`) for the cascades, `addNewObservers`,
`unlinkDisallowedObservers` (mechanical port of `Proofs/ExpertH32.lean`; few imports on purpose: `qpres` tries every
registered leaf).
-/
namespace IncrVerif.Proofs.PerKeyH
open IncrVerif.Engine IncrVerif.Proofs IncrVerif.Proofs.Step

/-- `perkeys` is unchanged -/
def KPk (s s' : State) : Prop := s'.perkeys = s.perkeys

instance : Step.PreOrd KPk := ⟨fun _ => rfl, fun h1 h2 => Eq.trans h2 h1⟩

macro_rules
  | `(tactic| qleaf) =>
    `(tactic| ((with_reducible apply Step.Pres.modify); intro _; exact (rfl : State.perkeys _ = State.perkeys _)))

macro "kp_leaf " n:ident : command =>
  `(macro_rules | `(tactic| qleaf) => `(tactic| with_reducible apply $n))

theorem KP.modNode (n f) : Step.Pres KPk (Engine.modNode n f) := by unfold Engine.modNode; qpres
kp_leaf KP.modNode
theorem KP.modExpert (e f) : Step.Pres KPk (Engine.modExpert e f) := by unfold Engine.modExpert; qpres
kp_leaf KP.modExpert
theorem KP.discard {α} {x : M α} (h : Step.Pres KPk x) : Step.Pres KPk (discard x) := by
  unfold Functor.discard; exact Step.Pres.map _ h
kp_leaf KP.discard

theorem KP.logEv (e) : Step.Pres KPk (Engine.logEv e) := by unfold Engine.logEv; qpres
kp_leaf KP.logEv
theorem KP.tick : Step.Pres KPk Engine.tick := by unfold Engine.tick; qpres
kp_leaf KP.tick
theorem KP.bumpCounter (f) : Step.Pres KPk (Engine.bumpCounter f) := by unfold Engine.bumpCounter; qpres
kp_leaf KP.bumpCounter
theorem KP.modBind (b f) : Step.Pres KPk (Engine.modBind b f) := by unfold Engine.modBind; qpres
kp_leaf KP.modBind
theorem KP.modObs (o f) : Step.Pres KPk (Engine.modObs o f) := by unfold Engine.modObs; qpres
kp_leaf KP.modObs
theorem KP.modVar (v f) : Step.Pres KPk (Engine.modVar v f) := by unfold Engine.modVar; qpres
kp_leaf KP.modVar
theorem KP.getObs (o) : Step.Pres KPk (Engine.getObs o) := by unfold Engine.getObs; qpres
kp_leaf KP.getObs
theorem KP.getVar (v) : Step.Pres KPk (Engine.getVar v) := Step.Pres.getVar v
theorem KP.addParent (c i p) : Step.Pres KPk (Engine.addParent c i p) := by unfold Engine.addParent; qpres
kp_leaf KP.addParent
theorem KP.removeParent (c i p) : Step.Pres KPk (Engine.removeParent c i p) := by
  unfold Engine.removeParent; qpres
kp_leaf KP.removeParent
theorem KP.setHeight (n h) : Step.Pres KPk (Engine.setHeight n h) := by unfold Engine.setHeight; qpres
kp_leaf KP.setHeight
theorem KP.rchLink (n) : Step.Pres KPk (Engine.rchLink n) := by unfold Engine.rchLink; qpres
kp_leaf KP.rchLink
theorem KP.rchUnlink (n) : Step.Pres KPk (Engine.rchUnlink n) := by unfold Engine.rchUnlink; qpres
kp_leaf KP.rchUnlink
theorem KP.rchInsert (n) : Step.Pres KPk (Engine.rchInsert n) := by unfold Engine.rchInsert; qpres
kp_leaf KP.rchInsert
theorem KP.rchRemove (n) : Step.Pres KPk (Engine.rchRemove n) := by unfold Engine.rchRemove; qpres
kp_leaf KP.rchRemove
theorem KP.rchRemoveMin : Step.Pres KPk Engine.rchRemoveMin := by unfold Engine.rchRemoveMin; qpres
kp_leaf KP.rchRemoveMin
theorem KP.rchMinHeight : Step.Pres KPk Engine.rchMinHeight := by unfold Engine.rchMinHeight; qpres
kp_leaf KP.rchMinHeight
theorem KP.rchIncreaseHeight (n) : Step.Pres KPk (Engine.rchIncreaseHeight n) := by
  unfold Engine.rchIncreaseHeight; qpres
kp_leaf KP.rchIncreaseHeight
theorem KP.ahhAddUnlessMem (n) : Step.Pres KPk (Engine.ahhAddUnlessMem n) := by
  unfold Engine.ahhAddUnlessMem; qpres
kp_leaf KP.ahhAddUnlessMem
theorem KP.ahhRemoveMin : Step.Pres KPk Engine.ahhRemoveMin := by unfold Engine.ahhRemoveMin; qpres
kp_leaf KP.ahhRemoveMin
theorem KP.ensureHeightRequirement (oc op c p) : Step.Pres KPk (Engine.ensureHeightRequirement oc op c p) := by
  unfold Engine.ensureHeightRequirement; qpres
kp_leaf KP.ensureHeightRequirement

theorem KP.adjustHeightsLoop (oc op fuel) : Step.Pres KPk (Engine.adjustHeightsLoop oc op fuel) := by
  induction fuel with
  | zero => unfold Engine.adjustHeightsLoop; qpres
  | succ fuel ih =>
    unfold Engine.adjustHeightsLoop
    qpres
    all_goals first
      | exact ih
      | (apply Step.Pres.forIn; intro a b; qpres)
kp_leaf KP.adjustHeightsLoop

theorem KP.adjustHeights (oc op fuel) : Step.Pres KPk (Engine.adjustHeights oc op fuel) := by
  unfold Engine.adjustHeights; qpres
kp_leaf KP.adjustHeights

theorem KP.scopeHeight (sc) : Step.Pres KPk (Engine.scopeHeight sc) := Step.Pres.scopeHeight sc
theorem KP.scopeIsNecessary (sc) : Step.Pres KPk (Engine.scopeIsNecessary sc) := by
  unfold Engine.scopeIsNecessary; qpres
kp_leaf KP.scopeIsNecessary
theorem KP.handleAfterStabilisation (n) : Step.Pres KPk (Engine.handleAfterStabilisation n) := by
  unfold Engine.handleAfterStabilisation; qpres
kp_leaf KP.handleAfterStabilisation
theorem KP.maybeHandleAfterStabilisation (n) : Step.Pres KPk (Engine.maybeHandleAfterStabilisation n) := by
  unfold Engine.maybeHandleAfterStabilisation; qpres
kp_leaf KP.maybeHandleAfterStabilisation
theorem KP.edgeOnChange (env e edge) : Step.Pres KPk (Engine.edgeOnChange env e edge) := by
  unfold Engine.edgeOnChange; qpres
kp_leaf KP.edgeOnChange
theorem KP.runEdgeCallback (env e i) : Step.Pres KPk (Engine.runEdgeCallback env e i) := by
  unfold Engine.runEdgeCallback; qpres
kp_leaf KP.runEdgeCallback
theorem KP.observabilityChange (e b) : Step.Pres KPk (Engine.observabilityChange e b) := by
  unfold Engine.observabilityChange; qpres
kp_leaf KP.observabilityChange

theorem KP.markMapRefUnknown (fuel n) : Step.Pres KPk (Engine.markMapRefUnknown fuel n) := by
  induction fuel generalizing n with
  | zero => unfold Engine.markMapRefUnknown; qpres
  | succ fuel ih =>
    unfold Engine.markMapRefUnknown
    qpres
    all_goals (apply Step.Pres.forIn; intro a b; qpres; all_goals exact ih _)
kp_leaf KP.markMapRefUnknown

theorem KP.link (env : Env) (fuel : Nat) :
    (∀ n, Step.Pres KPk (Engine.becameNecessary env fuel n)) ∧
    (∀ c i p, Step.Pres KPk (Engine.addParentWithoutAdjustingHeights env fuel c i p)) := by
  induction fuel with
  | zero =>
    constructor
    · intro n; unfold Engine.becameNecessary; qpres
    · intro c i p; unfold Engine.addParentWithoutAdjustingHeights; qpres
  | succ fuel ih =>
    constructor
    · intro n
      unfold Engine.becameNecessary
      qpres
      all_goals (apply Step.Pres.forIn; intro a b; qpres; all_goals exact ih.2 _ _ _)
    · intro c i p
      unfold Engine.addParentWithoutAdjustingHeights
      qpres
      all_goals exact ih.1 _

theorem KP.becameNecessary (env fuel n) : Step.Pres KPk (Engine.becameNecessary env fuel n) :=
  (KP.link env fuel).1 n
kp_leaf KP.becameNecessary
theorem KP.addParentWithoutAdjustingHeights (env fuel c i p) :
    Step.Pres KPk (Engine.addParentWithoutAdjustingHeights env fuel c i p) :=
  (KP.link env fuel).2 c i p
kp_leaf KP.addParentWithoutAdjustingHeights

theorem KP.unlink (fuel : Nat) :
    (∀ n, Step.Pres KPk (Engine.becameUnnecessary fuel n)) ∧
    (∀ n, Step.Pres KPk (Engine.checkIfUnnecessary fuel n)) ∧
    (∀ n, Step.Pres KPk (Engine.removeChildren fuel n)) := by
  induction fuel with
  | zero =>
    refine ⟨?_, ?_, ?_⟩
    · intro n; unfold Engine.becameUnnecessary; qpres
    · intro n; unfold Engine.checkIfUnnecessary; qpres
    · intro n; unfold Engine.removeChildren; qpres
  | succ fuel ih =>
    refine ⟨?_, ?_, ?_⟩
    · intro n
      unfold Engine.becameUnnecessary
      qpres
      all_goals exact ih.2.2 _
    · intro n
      unfold Engine.checkIfUnnecessary
      qpres
      all_goals exact ih.1 _
    · intro n
      unfold Engine.removeChildren
      qpres
      all_goals (apply Step.Pres.forIn; intro a b; qpres; all_goals exact ih.2.1 _)

theorem KP.becameUnnecessary (fuel n) : Step.Pres KPk (Engine.becameUnnecessary fuel n) :=
  (KP.unlink fuel).1 n
kp_leaf KP.becameUnnecessary
theorem KP.checkIfUnnecessary (fuel n) : Step.Pres KPk (Engine.checkIfUnnecessary fuel n) :=
  (KP.unlink fuel).2.1 n
kp_leaf KP.checkIfUnnecessary
theorem KP.removeChildren (fuel n) : Step.Pres KPk (Engine.removeChildren fuel n) :=
  (KP.unlink fuel).2.2 n
kp_leaf KP.removeChildren

theorem KP.invalidateNode (fuel n) : Step.Pres KPk (Engine.invalidateNode fuel n) := by
  induction fuel generalizing n with
  | zero => unfold Engine.invalidateNode; qpres
  | succ fuel ih =>
    unfold Engine.invalidateNode
    qpres
    all_goals (apply Step.Pres.forIn; intro a b; qpres; all_goals exact ih _)
kp_leaf KP.invalidateNode

theorem KP.propagateInvalidity (fuel) : Step.Pres KPk (Engine.propagateInvalidity fuel) := by
  induction fuel with
  | zero => unfold Engine.propagateInvalidity; qpres
  | succ fuel ih =>
    unfold Engine.propagateInvalidity
    qpres
    all_goals exact ih
kp_leaf KP.propagateInvalidity

theorem KP.becameNecessaryPropagate (env fuel n) : Step.Pres KPk (Engine.becameNecessaryPropagate env fuel n) := by
  unfold Engine.becameNecessaryPropagate; qpres
kp_leaf KP.becameNecessaryPropagate
theorem KP.stateAddParent (env fuel c i p) : Step.Pres KPk (Engine.stateAddParent env fuel c i p) := by
  unfold Engine.stateAddParent; qpres
kp_leaf KP.stateAddParent
theorem KP.shouldCutoff (env n o v) : Step.Pres KPk (Engine.shouldCutoff env n o v) := by
  unfold Engine.shouldCutoff; qpres
kp_leaf KP.shouldCutoff

theorem KP.childChanged (env : Env) (fuel p c ci : Nat) (o : Option Val) :
    Step.Pres KPk (Engine.childChanged env fuel p c ci o) := by
  induction fuel generalizing p c ci o with
  | zero => unfold Engine.childChanged; qpres
  | succ fuel ih =>
    unfold Engine.childChanged
    qpres
    all_goals (apply Step.Pres.forIn; intro a b; qpres; all_goals exact ih _ _ _ _)
kp_leaf KP.childChanged

theorem KP.parentIterCanRecomputeNow (p c : Nat) : Step.Pres KPk (Engine.parentIterCanRecomputeNow p c) := by
  unfold Engine.parentIterCanRecomputeNow; qpres
kp_leaf KP.parentIterCanRecomputeNow

theorem KP.maybeChangeValueManual (env fuel n o d b) :
    Step.Pres KPk (Engine.maybeChangeValueManual env fuel n o d b) := by
  unfold Engine.maybeChangeValueManual
  qpres
  all_goals (apply Step.Pres.forIn; intro a b; qpres)
kp_leaf KP.maybeChangeValueManual

theorem KP.maybeChangeValue (env fuel n v) : Step.Pres KPk (Engine.maybeChangeValue env fuel n v) := by
  unfold Engine.maybeChangeValue; qpres
kp_leaf KP.maybeChangeValue

theorem KP.addNewObservers (env fuel) : Step.Pres KPk (Engine.addNewObservers env fuel) := by
  unfold Engine.addNewObservers
  qpres
  all_goals (apply Step.Pres.forIn; intro a b; qpres)
kp_leaf KP.addNewObservers

theorem KP.unlinkDisallowedObservers (fuel) : Step.Pres KPk (Engine.unlinkDisallowedObservers fuel) := by
  unfold Engine.unlinkDisallowedObservers
  qpres
  all_goals (apply Step.Pres.forIn; intro a b; qpres)
kp_leaf KP.unlinkDisallowedObservers

end IncrVerif.Proofs.PerKeyH
