import IncrVerif.Proofs.NestH31
/-!
# Nested binds (F2), phase 3 (`lhsInvalidateOld`), part 2: the run of `invalidateNode` on a dying subtree, the loop, the whole phase
-/
namespace IncrVerif.Proofs.NestH
open IncrVerif.Engine IncrVerif.Proofs IncrVerif.Proofs.Step IncrVerif.Proofs.Sched IncrVerif.Proofs.Quiet
open IncrVerif.Proofs.BindH

namespace NI

/-! ## the pieces of `invalidateNode` on an unnecessary, unqueued, handler-free main node -/

theorem handled_noh (n : Nat) (s : State) (h : (s.nodeD n).numOnUpdateHandlers = 0) : Inval.handled n s = s := by
  unfold Inval.handled
  rw [if_neg]
  rw [h]
  intro hc
  exact absurd hc.1 (by decide)

/-- the state in which the cascade loop of a main node starts -/
def openedT (r b2 : Nat) (t : State) : State :=
  { opened r b2 t with counters := { t.counters with invalidated := t.counters.invalidated + 1 } }

theorem invCascade_main_run (fuel b2 lc2 : Nat) (t : State) (br2 : BindRec) (hb : t.binds[b2]? = some br2) :
    (Inval.invCascade fuel (.bindMain b2 lc2)).run.run t =
      (forIn br2.allNodesCreatedOnRhs PUnit.unit fun (r : Nat) (_ : PUnit) => do
          invalidateNode fuel r
          pure (ForInStep.yield PUnit.unit) : M PUnit).run.run
        { t with binds := t.binds.modify b2 fun x => { x with allNodesCreatedOnRhs := [] } } := by
  unfold Inval.invCascade
  simp only [getBind, modBind, bind_assoc, run_bind_get, hb, pure_bind, run_bind_modify, bind_pure_unit]

/-- `invalidateNode` on a valid, unnecessary, handler-free main node: the loop over the registered nodes of its bind, then the last part -/
theorem invalidateNode_main_inv {fuel r b2 lc2 : Nat} {t t' : State} {br2 : BindRec} {u : Unit}
    (hlt : r < t.nodes.size) (hv : (t.nodeD r).valid = true) (hnec : t.isNecessary r = false)
    (hk : (t.nodeD r).kind = .bindMain b2 lc2) (hnoh : (t.nodeD r).numOnUpdateHandlers = 0)
    (hb : t.binds[b2]? = some br2)
    (h : (invalidateNode (fuel + 1) r).run.run t = (.ok u, t')) :
    ∃ (a : PUnit) (t2 : State),
      (forIn br2.allNodesCreatedOnRhs PUnit.unit fun (r' : Nat) (_ : PUnit) => do
          invalidateNode fuel r'
          pure (ForInStep.yield PUnit.unit) : M PUnit).run.run (openedT r b2 t) = (.ok a, t2) ∧
      (Inval.invFinish r).run.run t2 = (.ok u, t') := by
  rw [Inval.invalidateNode_run fuel r t (t.nodeD r) (some_of_lt hlt) hv, handled_noh r t hnoh] at h
  have hD1 : (Inval.invStamped r t).nodeD r = stamp t.stabNum (t.nodeD r) := by
    rw [Inval.nodeD_of_modify (t := Inval.invStamped r t) (s := t) (n := r) (f := stamp t.stabNum) rfl,
      if_pos ⟨rfl, hlt⟩]
  have hnec1 : (Inval.invStamped r t).isNecessary r = false := by
    unfold State.isNecessary at hnec ⊢
    rw [hD1]
    exact hnec
  obtain ⟨_, t1, h1, h⟩ := bind_ok_inv h
  unfold Inval.invDetach at h1
  rw [run_bind_get] at h1
  simp only [hnec1, Bool.false_eq_true, if_false] at h1
  obtain ⟨-, e1⟩ := pure_ok_inv h1
  subst e1
  obtain ⟨a, t2, h2, h3⟩ := bind_ok_inv h
  have hb' : (Inval.invStamped r t).binds[b2]? = some br2 := hb
  rw [hk, invCascade_main_run fuel b2 lc2 (Inval.invStamped r t) br2 hb'] at h2
  exact ⟨a, t2, h2, h3⟩

/-! ## what the run needs to know about a dying subtree -/

/-- the dying subtree of `r` in the reference state `s`: its nodes are valid, unnecessary, unqueued, handler-free; the main nodes among them have their
records, whose lists are exactly the valid nodes of their scopes; scope nodes have smaller rank than the main node -/
structure Sub (rk : Nat → Nat) (s : State) (r : Nat) : Prop where
  leaf : ∀ m, Dying s [r] m → m < s.nodes.size ∧ (s.nodeD m).valid = true ∧ s.isNecessary m = false ∧
    (s.nodeD m).inRch = false ∧ (s.nodeD m).numOnUpdateHandlers = 0
  main : ∀ m b2 lc2, Dying s [r] m → (s.nodeD m).kind = .bindMain b2 lc2 →
    ∃ br2, s.binds[b2]? = some br2 ∧ br2.main = m ∧
      (∀ x, x ∈ br2.allNodesCreatedOnRhs ↔
        (x < s.nodes.size ∧ (s.nodeD x).valid = true ∧ (s.nodeD x).createdIn = .bind b2)) ∧
      (∀ x, x < s.nodes.size → (s.nodeD x).createdIn = .bind b2 → rk x < rk m)

/-- the main node of record `b'` has kind `bindMain b' _` -/
def RecsK (s : State) : Prop :=
  ∀ (b' : Nat) (br0 : BindRec), s.binds[b']? = some br0 → ∃ lc, (s.nodeD br0.main).kind = .bindMain b' lc

theorem recsK_opened {s : State} {r b2 : Nat} (h : RecsK s) : RecsK (opened r b2 s) := by
  intro b' br0 hb
  rw [opened_binds] at hb
  rw [(opened_sameSk r b2 s).kind]
  by_cases e : b2 = b'
  · rw [if_pos e] at hb
    cases hs : s.binds[b']? with
    | none => rw [hs] at hb; cases hb
    | some br1 =>
      rw [hs] at hb
      simp only [Option.map_some, Option.some.injEq] at hb
      rw [← hb]
      exact h b' br1 hs
  · rw [if_neg e] at hb
    exact h b' br0 hb

theorem closed_congr {s t : State} {D : Nat → Prop} (hsk : SameSk s t) (h : Closed s D) : Closed t D :=
  fun p m hp hm => h p m hp ((dying_congr hsk [p] m).1 hm)

/-- ranks in a subtree are at most the rank of its root -/
theorem rk_le_root {rk : Nat → Nat} {s : State} {r : Nat}
    (H : ∀ p b3 lc3 x, Dying s [r] p → (s.nodeD p).kind = .bindMain b3 lc3 → x < s.nodes.size →
      (s.nodeD x).createdIn = .bind b3 → rk x < rk p) {m : Nat} (hm : Dying s [r] m) : rk m ≤ rk r := by
  induction hm with
  | base h1 => rw [List.mem_singleton.1 h1]; exact Nat.le_refl _
  | inner hp hk hl _ hsc ih =>
    have := H _ _ _ _ hp hk hl hsc
    omega

theorem Sub.rk_le {rk : Nat → Nat} {s : State} {r m : Nat} (S : Sub rk s r) (hm : Dying s [r] m) : rk m ≤ rk r := by
  refine rk_le_root (fun p b3 lc3 x hp hk hl hsc => ?_) hm
  obtain ⟨_, _, _, _, h⟩ := S.main p b3 lc3 hp hk
  exact h x hl hsc

/-- the subtrees of the registered nodes of a dying main node -/
theorem Sub.below {rk : Nat → Nat} {s : State} {r b2 lc2 r' m : Nat} {br2 : BindRec} (S : Sub rk s r)
    (hk : (s.nodeD r).kind = .bindMain b2 lc2) (hb2 : s.binds[b2]? = some br2)
    (hr' : r' ∈ br2.allNodesCreatedOnRhs) (hm : Dying s [r'] m) : Dying s [r] m ∧ rk m < rk r := by
  obtain ⟨br, hb, -, hlist, hrk⟩ := S.main r b2 lc2 (dying_self s r) hk
  rw [hb2] at hb; cases hb
  obtain ⟨hl, hv, hsc⟩ := (hlist r').1 hr'
  have hsub : ∀ x, Dying s [r'] x → Dying s [r] x :=
    fun x hx => dying_trans (.inner (dying_self s r) hk hl hv hsc) hx
  refine ⟨hsub m hm, ?_⟩
  have h1 : rk m ≤ rk r' := by
    refine rk_le_root (fun p b3 lc3 x hp hk3 hl3 hsc3 => ?_) hm
    obtain ⟨_, _, _, _, h⟩ := S.main p b3 lc3 (hsub p hp) hk3
    exact h x hl3 hsc3
  have := hrk r' hl hsc
  omega

theorem sub_child {rk : Nat → Nat} {s : State} {r b2 lc2 r' : Nat} {br2 : BindRec} (S : Sub rk s r)
    (hk : (s.nodeD r).kind = .bindMain b2 lc2) (hb2 : s.binds[b2]? = some br2)
    (hr' : r' ∈ br2.allNodesCreatedOnRhs) : Sub rk (opened r b2 s) r' := by
  have hsk := opened_sameSk r b2 s
  obtain ⟨br, hb, hmain, -, -⟩ := S.main r b2 lc2 (dying_self s r) hk
  rw [hb2] at hb; cases hb
  refine ⟨fun m hm => ?_, fun m b3 lc3 hm hk3 => ?_⟩
  · have hm' := (dying_congr hsk [r'] m).1 hm
    obtain ⟨hd, hlt⟩ := S.below hk hb2 hr' hm'
    have hne : m ≠ r := fun e => by rw [e] at hlt; exact Nat.lt_irrefl _ hlt
    obtain ⟨h1, h2, h3, h4, h5⟩ := S.leaf m hd
    unfold State.isNecessary at h3 ⊢
    rw [opened_other s hne, hsk.size]
    exact ⟨h1, h2, h3, h4, h5⟩
  · have hm' := (dying_congr hsk [r'] m).1 hm
    obtain ⟨hd, hlt⟩ := S.below hk hb2 hr' hm'
    have hne : m ≠ r := fun e => by rw [e] at hlt; exact Nat.lt_irrefl _ hlt
    rw [hsk.kind] at hk3
    obtain ⟨br3, hb3, hmain3, hlist3, hrk3⟩ := S.main m b3 lc3 hd hk3
    have hbne : b2 ≠ b3 := by
      intro e
      subst e
      rw [hb2] at hb3; cases hb3
      exact hne (hmain3.symm.trans hmain)
    refine ⟨br3, by rw [opened_binds, if_neg hbne]; exact hb3, hmain3, fun x => ?_, fun x hx hsc => ?_⟩
    · rw [hsk.size, hsk.valid, hsk.createdIn]
      exact hlist3 x
    · rw [hsk.size] at hx; rw [hsk.createdIn] at hsc
      exact hrk3 x hx hsc

/-- the dying subtree of a main node: the node and the subtrees of the registered nodes of its bind -/
theorem dying_main_iff {rk : Nat → Nat} {s : State} {r b2 lc2 : Nat} {br2 : BindRec} (S : Sub rk s r)
    (hk : (s.nodeD r).kind = .bindMain b2 lc2) (hb2 : s.binds[b2]? = some br2) (m : Nat) :
    Dying s [r] m ↔ (m = r ∨ Dying s br2.allNodesCreatedOnRhs m) := by
  obtain ⟨br, hb, -, hlist, -⟩ := S.main r b2 lc2 (dying_self s r) hk
  rw [hb2] at hb; cases hb
  constructor
  · intro hm
    induction hm with
    | base h1 => exact Or.inl (List.mem_singleton.1 h1)
    | inner _ hk3 hl hv hsc ih =>
      rcases ih with e | h
      · rw [e, hk] at hk3
        injection hk3 with e1 e2
        subst e1
        exact Or.inr (.base ((hlist _).2 ⟨hl, hv, hsc⟩))
      · exact Or.inr (.inner h hk3 hl hv hsc)
  · rintro (e | h)
    · rw [e]; exact dying_self s r
    · obtain ⟨r', hr', hd⟩ := dying_split h
      exact (S.below hk hb2 hr' hd).1

end NI

end IncrVerif.Proofs.NestH
