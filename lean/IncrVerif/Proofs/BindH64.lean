import IncrVerif.Proofs.BindH63
import IncrVerif.Proofs.Quiet10
/-!
# Binds, fragment F1, the closure run, part 3: the run — operands, instructions, the loop of `elabTemplate`, `closure_spec1`
-/
namespace IncrVerif.Proofs.BindH
open IncrVerif.Engine IncrVerif.Proofs IncrVerif.Proofs.Step IncrVerif.Proofs.Sched IncrVerif.Proofs.Quiet

namespace CN

/-- the state with the scope reset to top level (`All1` wants `currentScope = .top`; nothing else of `GInv1` reads the scope) -/
def T (t : State) : State := { t with currentScope := .top }

/-- a legal child of a node created by the closure of bind `b` (change detector `lc`, dying generation `dy`) -/
def KidOK (t : State) (b lc : Nat) (dy : List Nat) (c : Nat) : Prop :=
  c < t.nodes.size ∧ (t.nodeD c).valid = true ∧ (∀ b', (t.nodeD c).kind ≠ .bindLhsChange b') ∧
    (((t.nodeD c).createdIn = .top ∧ c < lc) ∨ ((t.nodeD c).createdIn = .bind b ∧ c ∉ dy))

/-- what operand resolution reads -/
structure RC (s0 t : State) (b lc : Nat) (dy : List Nat) (j : Nat) (loc : List Nat) : Prop where
  top : t.top = s0.top
  outer : ∀ (k r : Nat), s0.top[k]? = some r → r < lc → KidOK t b lc dy r ∧ (t.nodeD r).createdIn = .top
  locs : ∀ i, i < j → ∃ c, loc[i]? = some c ∧ KidOK t b lc dy c ∧ s0.nodes.size ≤ c

section resolve
variable {s0 t t' : State} {b lc j : Nat} {dy : List Nat} {loc : List Nat}

theorem resolve_inv (R : RC s0 t b lc dy j loc) {o : Opnd} {c : Nat} (ho : OpndOK s0 lc j o)
    (h : (resolveOpnd loc o).run.run t = (.ok c, t')) :
    t' = t ∧ KidOK t b lc dy c ∧ (((t.nodeD c).createdIn = .top ∧ c < lc) ∨ s0.nodes.size ≤ c) := by
  cases o with
  | outer k =>
    obtain ⟨r, hr, hlt⟩ := ho
    unfold resolveOpnd at h
    simp only at h
    rw [run_bind_get, R.top, hr] at h
    obtain ⟨e1, e2⟩ := pure_ok_inv h
    rw [e1]
    obtain ⟨h1, h2⟩ := R.outer k r hr hlt
    exact ⟨e2, h1, Or.inl ⟨h2, hlt⟩⟩
  | loc i =>
    obtain ⟨c', hc, h1, h2⟩ := R.locs i ho
    unfold resolveOpnd at h
    simp only [hc] at h
    obtain ⟨e1, e2⟩ := pure_ok_inv h
    rw [e1]
    exact ⟨e2, h1, Or.inr h2⟩
  | abs _ => exact ho.elim
  | slot _ => exact ho.elim

theorem mapM_resolve_inv (R : RC s0 t b lc dy j loc) :
    ∀ (l : List Opnd) (r : List Nat) (t' : State), (∀ a, a ∈ l → OpndOK s0 lc j a) →
      (l.mapM (fun o => resolveOpnd loc o)).run.run t = (.ok r, t') →
      t' = t ∧ ∀ c, c ∈ r → KidOK t b lc dy c := by
  intro l
  induction l with
  | nil =>
    intro r t' _ h
    rw [List.mapM_nil] at h
    obtain ⟨e1, e2⟩ := pure_ok_inv h
    rw [e1]; exact ⟨e2, fun c hc => by cases hc⟩
  | cons a l ih =>
    intro r t' hl h
    rw [List.mapM_cons] at h
    obtain ⟨x, t1, h1, h2⟩ := bind_ok_inv h
    obtain ⟨et, hk, -⟩ := resolve_inv R (hl a (List.mem_cons_self ..)) h1
    rw [et] at h2
    obtain ⟨xs, t2, h3, h4⟩ := bind_ok_inv h2
    obtain ⟨et2, hxs⟩ := ih xs t2 (fun y hy => hl y (List.mem_cons_of_mem _ hy)) h3
    obtain ⟨e1, e2⟩ := pure_ok_inv h4
    rw [e1, e2]
    refine ⟨et2, fun c hc => ?_⟩
    rcases List.mem_cons.1 hc with e | hc
    · rw [e]; exact hk
    · exact hxs c hc

end resolve

/-! ## one instruction -/

theorem createNode_push {k : Kind} {b n : Nat} {t t1 : State}
    (h : (createNode k (.bind b)).run.run t = (.ok n, t1)) : n = t.nodes.size ∧ Push k b t t1 := by
  rw [Inval.createNode_run] at h
  cases h
  exact ⟨rfl, ⟨rfl, rfl, rfl, rfl, rfl, rfl, rfl, rfl, rfl, rfl, rfl, rfl⟩⟩

/-- an instruction of an F1 closure creates exactly one node, static, with legal children -/
theorem elab_inv {env : Env} {s0 t t1 : State} {b lc j : Nat} {dy : List Nat} {loc : List Nat} {i : Instr}
    {v : Val} {ro : Option Nat} (R : RC s0 t b lc dy j loc) (hsc : t.currentScope = .bind b)
    (hi : InstrOK env s0 lc j i) (h : (elabInstrM env loc v i).run.run t = (.ok ro, t1)) :
    ∃ k, ro = some t.nodes.size ∧ StaticKind env k ∧ (∀ c, k ≠ .var c) ∧
      (∀ c, c ∈ kids k → KidOK t b lc dy c) ∧ Push k b t t1 := by
  cases i with
  | const w =>
    unfold elabInstrM at h
    simp only at h
    unfold elabInstr at h
    rw [run_bind_get] at h
    simp only [hsc] at h
    obtain ⟨n, h1, e⟩ := map_ok_inv h
    obtain ⟨en, C⟩ := createNode_push h1
    exact ⟨.const w, by rw [e, en], trivial, (fun c e => by cases e), (fun c hc => by cases hc), C⟩
  | lhsConst =>
    unfold elabInstrM at h
    simp only at h
    unfold elabInstr at h
    rw [run_bind_get] at h
    simp only [hsc] at h
    obtain ⟨n, h1, e⟩ := map_ok_inv h
    obtain ⟨en, C⟩ := createNode_push h1
    exact ⟨.const v, by rw [e, en], trivial, (fun c e => by cases e), (fun c hc => by cases hc), C⟩
  | map f args =>
    unfold elabInstrM at h
    simp only at h
    unfold elabInstr at h
    rw [run_bind_get] at h
    simp only [hsc] at h
    obtain ⟨as, t2, h1, h2⟩ := bind_ok_inv h
    obtain ⟨et, has⟩ := mapM_resolve_inv R args as t2 hi.2.2 h1
    rw [et] at h2
    obtain ⟨n, h3, e⟩ := map_ok_inv h2
    obtain ⟨en, C⟩ := createNode_push h3
    exact ⟨.map f as, by rw [e, en], ⟨hi.1, hi.2.1⟩, (fun c e => by cases e), has, C⟩
  | fold f init cs =>
    unfold elabInstrM at h
    simp only at h
    unfold elabInstr at h
    rw [run_bind_get] at h
    simp only [hsc] at h
    obtain ⟨as, t2, h1, h2⟩ := bind_ok_inv h
    obtain ⟨et, has⟩ := mapM_resolve_inv R cs as t2 hi h1
    rw [et] at h2
    split at h2
    · obtain ⟨n, h3, e⟩ := map_ok_inv h2
      obtain ⟨en, C⟩ := createNode_push h3
      exact ⟨.const init, by rw [e, en], trivial, (fun c e => by cases e), (fun c hc => by cases hc), C⟩
    · obtain ⟨n, h3, e⟩ := map_ok_inv h2
      obtain ⟨en, C⟩ := createNode_push h3
      exact ⟨.fold f init as, by rw [e, en], trivial, (fun c e => by cases e), has, C⟩
  | _ => exact hi.elim

/-! ## `CRel` through a creation -/

theorem crel_push {k : Kind} {b : Nat} {br : BindRec} {s0 t t1 : State} (C : Push k b t t1) (R : CRel b br s0 t) :
    CRel b br s0 t1 := by
  have hsz := C.size
  have hg := R.grow
  obtain ⟨l, hl, hmem⟩ := R.bind
  refine
    { grow := by omega
      old := fun m hm => by rw [C.nodeD_lt (by omega)]; exact R.old m hm
      new := ?_
      bind := ⟨l ++ [t.nodes.size], ?_, ?_⟩
      bindsSize := by rw [C.binds, Array.size_modify]; exact R.bindsSize
      bindsOther := fun b' hne => by
        rw [C.binds, Array.getElem?_modify, if_neg (fun e => hne e.symm)]; exact R.bindsOther b' hne
      vars := C.vars.trans R.vars
      stabNum := C.stabNum.trans R.stabNum
      status := C.status.trans R.status
      cfg := C.cfg.trans R.cfg
      scope := C.scope.trans R.scope
      pc := C.pc.trans R.pc
      rch := C.rch.trans R.rch
      ahh := C.ahh.trans R.ahh
      top := C.top.trans R.top
      pinv := C.pinv.trans R.pinv }
  · intro m h1 h2
    rcases Nat.lt_or_ge m t.nodes.size with h | h
    · rw [C.nodeD_lt h]; exact R.new m h1 h
    · have : m = t.nodes.size := by omega
      subst this
      rw [C.nodeD_new]
      exact ⟨rfl, rfl, rfl, rfl, rfl, rfl, rfl, rfl, rfl, rfl, rfl⟩
  · rw [C.binds, Array.getElem?_modify, if_pos rfl, hl]; rfl
  · intro m
    simp only [List.mem_append, List.mem_singleton, hmem m]
    omega

/-! ## the loop -/

/-- the invariant of the loop of `elabTemplate` inside the closure run of bind `b` (record `br` when the run started, in state `s0`) -/
structure LI (env : Env) (b : Nat) (br : BindRec) (s0 : State) (ex : Nat → Prop) (j : Nat) (loc : List Nat)
    (t : State) : Prop where
  inv : GInv1 env (T t) allClosed ex br.allNodesCreatedOnRhs
  ahh : AhhEmpty t
  rel : CRel b br s0 (T t)
  scope : t.currentScope = .bind b
  len : loc.length = j
  loc : ∀ c, c ∈ loc → s0.nodes.size ≤ c ∧ c < t.nodes.size

section loop
variable {env : Env} {b : Nat} {br : BindRec} {s0 : State} {ex : Nat → Prop}

/-- a node created by the run so far is a legal child -/
theorem LI.kid_new {j : Nat} {loc : List Nat} {t : State} (L : LI env b br s0 ex j loc t)
    (hdy : ∀ m, m ∈ br.allNodesCreatedOnRhs → m < s0.nodes.size) {c : Nat} (h1 : s0.nodes.size ≤ c)
    (h2 : c < t.nodes.size) : KidOK t b br.lhsChange br.allNodesCreatedOnRhs c := by
  obtain ⟨hc, hv, -⟩ := L.rel.new c h1 h2
  have hc' : (t.nodeD c).createdIn = .bind b := hc
  refine ⟨h2, hv, ?_, Or.inr ⟨hc', fun h => by have := hdy c h; omega⟩⟩
  intro b' hk
  have hs := ((L.inv.frag.node c h2).inScope b hc).1
  have hk' : ((T t).nodeD c).kind = .bindLhsChange b' := hk
  rw [hk'] at hs
  exact hs

theorem LI.rc {j : Nat} {loc : List Nat} {t : State} (L : LI env b br s0 ex j loc t) (A0 : All1 env s0 [])
    (hdy : ∀ m, m ∈ br.allNodesCreatedOnRhs → m < s0.nodes.size)
    (htop : ∀ (k r : Nat), s0.top[k]? = some r →
      r < s0.nodes.size ∧ (s0.nodeD r).createdIn = .top ∧ ∀ b', (s0.nodeD r).kind ≠ .bindLhsChange b') :
    RC s0 t b br.lhsChange br.allNodesCreatedOnRhs j loc where
  top := L.rel.top
  outer k r hr hlt := by
    obtain ⟨h1, h2, h3⟩ := htop k r hr
    have ho : t.nodeD r = s0.nodeD r := L.rel.old r h1
    have hg : s0.nodes.size ≤ t.nodes.size := L.rel.grow
    rw [KidOK, ho]
    exact ⟨⟨by omega, ((A0.node r h1).top h2).1, h3, Or.inl ⟨h2, hlt⟩⟩, h2⟩
  locs i hi := by
    rw [← L.len] at hi
    refine ⟨loc[i], List.getElem?_eq_getElem hi, ?_⟩
    obtain ⟨h1, h2⟩ := L.loc _ (List.getElem_mem hi)
    exact ⟨L.kid_new hdy h1 h2, h1⟩

/-- one iteration -/
theorem LI.step {j : Nat} {loc : List Nat} {t t1 : State} {i : Instr} {v : Val} {ro : Option Nat}
    (L : LI env b br s0 ex j loc t) (A0 : All1 env s0 [])
    (hdy : ∀ m, m ∈ br.allNodesCreatedOnRhs → m < s0.nodes.size)
    (htop : ∀ (k r : Nat), s0.top[k]? = some r →
      r < s0.nodes.size ∧ (s0.nodeD r).createdIn = .top ∧ ∀ b', (s0.nodeD r).kind ≠ .bindLhsChange b')
    (hi : InstrOK env s0 br.lhsChange j i) (h : (elabInstrM env loc v i).run.run t = (.ok ro, t1)) :
    ro = some t.nodes.size ∧ LI env b br s0 ex (j + 1) (loc ++ [t.nodes.size]) t1 := by
  obtain ⟨k, e, hk, hnv, hkids, C⟩ := elab_inv (L.rc A0 hdy htop) L.scope hi h
  refine ⟨e, ?_⟩
  have CT : Push k b (T t) (T t1) :=
    ⟨C.nodes, C.binds, C.vars, C.rch, C.ahh, C.pc, rfl, C.stabNum, C.status, C.cfg, C.top, C.pinv⟩
  obtain ⟨l, hl, -⟩ := L.rel.bind
  have hsz := C.size
  refine ⟨CT.ginv1 L.inv hl hk hnv ?_, C.grow1.ahhEmpty L.ahh, crel_push CT L.rel, C.scope.trans L.scope, ?_, ?_⟩
  · intro c hc
    exact hkids c hc
  · rw [List.length_append, L.len]; rfl
  · intro c hc
    rcases List.mem_append.1 hc with hc | hc
    · obtain ⟨h1, h2⟩ := L.loc c hc
      exact ⟨h1, by omega⟩
    · rw [List.mem_singleton.1 hc]
      have : s0.nodes.size ≤ t.nodes.size := L.rel.grow
      exact ⟨this, by omega⟩

/-- **the template**: `elabTemplate` inside the closure run -/
theorem elabTemplate_inv {tm : Template} {v : Val} {t t' : State} {rhs : Nat}
    (L : LI env b br s0 ex 0 [] t) (A0 : All1 env s0 [])
    (hdy : ∀ m, m ∈ br.allNodesCreatedOnRhs → m < s0.nodes.size)
    (htop : ∀ (k r : Nat), s0.top[k]? = some r →
      r < s0.nodes.size ∧ (s0.nodeD r).createdIn = .top ∧ ∀ b', (s0.nodeD r).kind ≠ .bindLhsChange b')
    (hT : TemplOK env s0 br.lhsChange tm) (h : (elabTemplate env tm v).run.run t = (.ok rhs, t')) :
    ∃ loc, LI env b br s0 ex tm.instrs.length loc t' ∧ rhs < t'.nodes.size ∧
      (((t'.nodeD rhs).createdIn = .top ∧ rhs < br.lhsChange ∧ ∀ b', (t'.nodeD rhs).kind ≠ .bindLhsChange b') ∨
        s0.nodes.size ≤ rhs) := by
  unfold elabTemplate at h
  obtain ⟨loc, t1, h1, h2⟩ := bind_ok_inv h
  have hloop := forIn_ok_inv _ tm.instrs (fun j loc t => LI env b br s0 ex j loc t) ?_ tm.instrs 0 [] t loc t1 rfl
    (Nat.zero_le _) L h1
  · have hloop : LI env b br s0 ex tm.instrs.length loc t1 := hloop
    obtain ⟨et, hk, hd⟩ := resolve_inv (hloop.rc A0 hdy htop) hT.2 h2
    subst et
    refine ⟨loc, hloop, hk.1, ?_⟩
    rcases hd with ⟨hd1, hd2⟩ | hd
    · exact Or.inl ⟨hd1, hd2, hk.2.2.1⟩
    · exact Or.inr hd
  · intro j a loc0 t0 r t0' hj hL hrun
    have hL : LI env b br s0 ex j loc0 t0 := hL
    obtain ⟨ro, t2, h3, h4⟩ := bind_ok_inv hrun
    obtain ⟨e, hL'⟩ := hL.step A0 hdy htop (hT.1 j a hj) h3
    subst e
    simp only at h4
    obtain ⟨e1, e2⟩ := pure_ok_inv h4
    subst e2
    exact ⟨_, e1, hL'⟩

end loop

end CN

end IncrVerif.Proofs.BindH
