import IncrVerif.Proofs.TidyH10
/-!
# T2b, part 2: the exact-simulation ladder (notification walk, observers, variables)
Obtained from `MapOld7, 8, 15` by changing the namespace and the tactic names.
-/
namespace IncrVerif.Proofs.TidyH.WT
open IncrVerif.Engine IncrVerif.Proofs IncrVerif.Proofs.Step IncrVerif.Proofs.Sched IncrVerif.Proofs.Quiet
open IncrVerif.Proofs.MapOldH

variable {sp : Nat → Val → Val}


section

theorem Sim.tick : Sim Engine.tick Engine.tick := by
  intro s; unfold Engine.tick; esim
  split <;> esim
macro_rules | `(tactic| esim_leaf) => `(tactic| with_reducible exact Sim.tick)

theorem St.bumpCounter (f : Counters → Counters) : Sim (Engine.bumpCounter f) (Engine.bumpCounter f) := by
  intro s; unfold Engine.bumpCounter; esim
macro_rules | `(tactic| esim_leaf) => `(tactic| with_reducible exact St.bumpCounter _)

theorem Sim.shouldCutoff (env : Env) (n : Nat) (o v : Val) :
    Sim (Engine.shouldCutoff env n o v) (Engine.shouldCutoff (virtEnv env sp) n o v) := by
  intro s; unfold Engine.shouldCutoff; simp only [virtEnv_cutoff]; esim
  split <;> esim
macro_rules | `(tactic| esim_leaf) => `(tactic| with_reducible exact Sim.shouldCutoff _ _ _ _)

/-! ## `child_changed`: the parent is neither an expert nor a map_ref node, so nothing happens -/

theorem Sim.childChanged (env : Env) (fuel p c ci : Nat) (o : Option Val) :
    Sim (Engine.childChanged env fuel p c ci o) (Engine.childChanged (virtEnv env sp) fuel p c ci o) := by
  intro s
  cases fuel with
  | zero => unfold Engine.childChanged; exact SimAt.thr _
  | succ fuel =>
    unfold Engine.childChanged
    esim
    esim_kind
macro_rules | `(tactic| esim_leaf) => `(tactic| with_reducible exact Sim.childChanged _ _ _ _ _ _)

/-! ## `parent_iter_can_recompute_now` -/

theorem St.rchMinHeight : Sim Engine.rchMinHeight Engine.rchMinHeight := by
  intro s; unfold Engine.rchMinHeight; esim
  exact SimAt.ret _
macro_rules | `(tactic| esim_leaf) => `(tactic| with_reducible exact St.rchMinHeight)

theorem Sim.parentIterCanRecomputeNow (p child : Nat) :
    Sim (Engine.parentIterCanRecomputeNow p child) (Engine.parentIterCanRecomputeNow p child) := by
  intro s; unfold Engine.parentIterCanRecomputeNow; esim
  esim_kind
  have e : ∀ (x : Nat), ¬ ([x].length ≥ 2) := by intro x; simp
  all_goals try rw [if_neg (by simp)]
  all_goals esim
  all_goals exact SimAt.ret _
macro_rules | `(tactic| esim_leaf) => `(tactic| with_reducible exact Sim.parentIterCanRecomputeNow _ _)

end


section

theorem Sim.maybeChangeValueManual (env : Env) (fuel n : Nat) (o : Option Val) (did b : Bool) :
    Sim (Engine.maybeChangeValueManual env fuel n o did b)
      (Engine.maybeChangeValueManual (virtEnv env sp) fuel n o did b) := by
  intro s
  unfold Engine.maybeChangeValueManual
  refine SimAt.cond Iff.rfl (fun _ => SimAt.ret _) (fun _ => ?_)
  esim
  split
  · esim
  · esim
macro_rules | `(tactic| esim_leaf) => `(tactic| with_reducible exact Sim.maybeChangeValueManual _ _ _ _ _ _)

theorem Sim.maybeChangeValue (env : Env) (fuel n : Nat) (v : Val) :
    Sim (Engine.maybeChangeValue env fuel n v) (Engine.maybeChangeValue (virtEnv env sp) fuel n v) := by
  intro s
  unfold Engine.maybeChangeValue
  esim
  all_goals (split <;> esim)
macro_rules | `(tactic| esim_leaf) => `(tactic| with_reducible exact Sim.maybeChangeValue _ _ _ _)

end


section
theorem Sim.getObs (o : Nat) : Sim (Engine.getObs o) (Engine.getObs o) := by
  intro s; unfold Engine.getObs; esim
  split <;> esim
macro_rules | `(tactic| esim_leaf) => `(tactic| with_reducible exact Sim.getObs _)

theorem Sim.modObs (o : Nat) (f : ObsRec → ObsRec) : Sim (Engine.modObs o f) (Engine.modObs o f) := by
  intro s; unfold Engine.modObs; esim
macro_rules | `(tactic| esim_leaf) => `(tactic| with_reducible exact Sim.modObs _ _)

theorem Sim.bumpCounter (f : Counters → Counters) : Sim (Engine.bumpCounter f) (Engine.bumpCounter f) := by
  intro s; unfold Engine.bumpCounter; esim
macro_rules | `(tactic| esim_leaf) => `(tactic| with_reducible exact Sim.bumpCounter _)

theorem Sim.getVar (v : Nat) : Sim (Engine.getVar v) (Engine.getVar v) := by
  intro s; unfold Engine.getVar; esim
  split <;> esim
macro_rules | `(tactic| esim_leaf) => `(tactic| with_reducible exact Sim.getVar _)

theorem Sim.modVar (v : Nat) (f : VarCell → VarCell) : Sim (Engine.modVar v f) (Engine.modVar v f) := by
  intro s; unfold Engine.modVar; esim
macro_rules | `(tactic| esim_leaf) => `(tactic| with_reducible exact Sim.modVar _ _)

theorem Sim.addNewObservers (env : Env) (fuel : Nat) :
    Sim (Engine.addNewObservers env fuel) (Engine.addNewObservers (virtEnv env sp) fuel) := by
  intro s; unfold Engine.addNewObservers; esim
  split <;> esim
macro_rules | `(tactic| esim_leaf) => `(tactic| with_reducible exact Sim.addNewObservers _ _)

theorem Sim.unlinkDisallowedObservers (fuel : Nat) :
    Sim (Engine.unlinkDisallowedObservers fuel) (Engine.unlinkDisallowedObservers fuel) := by
  intro s; unfold Engine.unlinkDisallowedObservers; esim
macro_rules | `(tactic| esim_leaf) => `(tactic| with_reducible exact Sim.unlinkDisallowedObservers _)

theorem Sim.disallowFutureUse (o : Nat) : Sim (Engine.disallowFutureUse o) (Engine.disallowFutureUse o) := by
  intro s; unfold Engine.disallowFutureUse; esim
  split <;> esim
macro_rules | `(tactic| esim_leaf) => `(tactic| with_reducible exact Sim.disallowFutureUse _)

theorem Sim.didSetVarWhileNotStabilising (v : Nat) :
    Sim (Engine.didSetVarWhileNotStabilising v) (Engine.didSetVarWhileNotStabilising v) := by
  intro s; unfold Engine.didSetVarWhileNotStabilising; esim
macro_rules | `(tactic| esim_leaf) => `(tactic| with_reducible exact Sim.didSetVarWhileNotStabilising _)

theorem Sim.writeVar (v : Nat) (f : Val → Val) (isSet : Bool) :
    Sim (Engine.writeVar v f isSet) (Engine.writeVar v f isSet) := by
  intro s; unfold Engine.writeVar; esim
  split <;> esim
  split <;> esim
macro_rules | `(tactic| esim_leaf) => `(tactic| with_reducible exact Sim.writeVar _ _ _)

end

end IncrVerif.Proofs.TidyH.WT
