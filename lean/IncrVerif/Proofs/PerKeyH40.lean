import IncrVerif.Proofs.PerKeyH38
import IncrVerif.Proofs.PerKeyH30
import IncrVerif.Proofs.PerKeyH39
/-!
# A run of a per-key change detector, part 5c: **one `.unequal` iteration keeps the loop invariant**

`iterUnequal_of`: `IterUnequal env` from the two transport facts of `lc-infra` (`mid_below_nec`, `mid_nec_alive`).
Two cases (`EntryOK.input`): the per-key input node is used by its instance — then it is necessary, hence alive, and
`expertMakeStale` flags it —, or its virtual stamp is `-1` already (never computed): whether or not the run calls
`expertMakeStale` (`isAlive` is unknown), the virtual stamp is `-1` afterwards.
-/
namespace IncrVerif.Proofs.PerKeyH
open IncrVerif.Engine IncrVerif.Driver IncrVerif.Proofs IncrVerif.Proofs.Step IncrVerif.Proofs.Sched
open IncrVerif.Proofs.ExpertH IncrVerif.Proofs.EffH IncrVerif.Proofs.DriverH IncrVerif.Proofs.ExpertH.QR

/-- the statement of `mid_below_nec` (LC2) -/
def UBelowNec (env : Env) : Prop :=
  ∀ (l : List Event) (σ : State) (a b : Nat), Mid (twEnv env) (twL l σ) → σ.isNecessary a = true →
    ExpertH.Below σ a b → σ.isNecessary b = true

/-- the statement of `mid_nec_alive` (LC2) -/
def UNecAlive (env : Env) : Prop :=
  ∀ (l : List Event) (σ : State) (p : Nat), Mid (twEnv env) (twL l σ) → PFrag env σ → ObsListed σ →
    σ.isNecessary p = true → σ.isAlive p = true

/-- `Mid` on the twin after `expertMakeStale` on an expert node -/
theorem u_mid {env : Env} {σ σ' : State} {x e : Nat} {er : ExpertRec} (M : Mid (twEnv env) (twL [] σ))
    (F : PFrag env σ) (hlt : x < σ.nodes.size) (hk : (σ.nodeD x).kind = .expert e) (hx : σ.experts[e]? = some er)
    (h : (expertMakeStale x).run.run σ = (.ok (), σ')) : Mid (twEnv env) (twL [] σ') := by
  have hfr : Fr σ := fr_of_pfrag F M.pinv
  obtain ⟨⟨l', h'⟩, -⟩ := TSim.expertMakeStale x σ hfr [] () σ' h
  have := staleSpec (twEnv env) x e (twL [] σ) (twL l' σ') (twRec er) M (by rw [KtwL_size]; exact hlt)
    (by rw [KtwL_kind, hk]; rfl) (by rw [KtwL_expert?, hx]; rfl) h'
  exact mid_relog this.1 []

theorem iterUnequal_of (env : Env) (hbn : UBelowNec env) (hna : UNecAlive env) : IterUnequal env := by
  intro s n op pr eres rk uk σ σ' fuel key a b B I hkey hrun
  obtain ⟨pn, hpop⟩ := I.pop
  have C := I.core _ hpop
  have hOK := B.pd.aux.pk.ops op pr B.hop
  -- the entry of `key`
  have h1 : (pr.prevNodes.lookup key).isSome = true := by rw [← hOK.dom]; exact hkey
  obtain ⟨⟨node, d⟩, hl⟩ := Option.isSome_iff_exists.1 h1
  have hm0 : (key, (node, d)) ∈ pr.prevNodes := (list_lookup_eq_some_iff_mem hOK.keys key _).1 hl
  have hm : (key, (node, d)) ∈ pn := I.pnOld _ hpop key node d hm0
  have hlk : pn.lookup key = some (node, d) := (list_lookup_eq_some_iff_mem C.keys key _).2 hm
  -- the bookkeeping of the entry in `σ`
  obtain ⟨x0, e0, er0, hN, he0, hpk0, hch, hent, hout⟩ := C.nodes
  have E := hent key node d hm
  obtain ⟨e, er, d0, hk, hx, hpk, hchildren⟩ := E.pnode
  have hlt := E.plt
  -- the run
  unfold PKL.perKeyStep at hrun
  rw [run_bind_get] at hrun
  dsimp only at hrun
  have hg : σ.perkeys[op]?.getD default = { pr with prevNodes := pn } := by rw [hpop]; rfl
  rw [hg] at hrun
  dsimp only at hrun
  rw [hlk] at hrun
  dsimp only at hrun
  rw [run_bind_get] at hrun
  -- the record of `node` is not the result's
  have hne : e ≠ eres := by
    intro h
    obtain ⟨xs, es, ers, hNs, hes, hpks, -⟩ := hOK.nodes
    have h2 : es = eres := by
      have := hNs.result; rw [B.hres] at this; cases this; rfl
    subst h2
    obtain ⟨er1, k1, -, -, k3, -⟩ := I.lf.xrec es ers hes
    rw [← h, hx] at k1
    cases k1
    rw [hpks, hpk] at k3
    cases k3
  have hnode : er.node = node := by
    obtain ⟨er2, k1, k2⟩ := I.frag.xrec node e hlt hk
    rw [hx] at k1; cases k1; exact k2
  -- the node is alive when it is used by its instance (necessary ⇒ alive); otherwise its virtual stamp is `-1` already
  have hcase : σ.isAlive node = true ∨ (σ.isAlive node = false ∧ ((V σ).nodeD node).recomputedAt = -1) := by
    rcases E.input with ⟨ed, hed, -, hb⟩ | h0
    · refine Or.inl (hna [] σ node I.mid I.frag I.obs ?_)
      refine hbn [] σ pr.result node I.mid I.resNec (.step ?_ hb)
      have hr : (σ.nodeD pr.result).kind = .expert e0 := hN.result
      rw [hr]
      simp only [ExpertH.kidsX, xRec_some he0]
      exact List.mem_map_of_mem hed
    · cases ha : σ.isAlive node with
      | true => exact Or.inl rfl
      | false => exact Or.inr ⟨rfl, h0⟩
  rcases hcase with halive | ⟨hdead, h0⟩
  rotate_left
  · -- nobody holds the node: nothing happens; the node has never been computed
    rw [if_neg (by rw [hdead]; exact Bool.false_ne_true)] at hrun
    have e' : σ' = σ := by cases hrun; rfl
    subst e'
    exact
      { mid := I.mid, lf := I.lf, frag := I.frag, slots := I.slots, obs := I.obs, psize := I.psize, pother := I.pother,
        pop := I.pop, core := I.core, dom := I.dom, pnOld := I.pnOld, newrec := I.newrec, pot := I.pot,
        newKids := I.newKids, resKids := I.resKids, resNec := I.resNec,
        forcedU := fun key' p d' hmem hp => by
          rcases List.mem_cons.1 hmem with rfl | hmem
          · have : (node, d) = (p, d') := by
              have h2 := (list_lookup_eq_some_iff_mem hOK.keys key' _).2 hp
              rw [hl] at h2; cases h2; rfl
            cases this
            exact h0
          · exact I.forcedU key' p d' hmem hp,
        resAlt := I.resAlt,
        fsame := fun e' ers er'' hne' hs h => by
          rcases I.fsame e' ers er'' hne' hs h with h2 | ⟨key', d', j1, j2⟩
          · exact Or.inl h2
          · exact Or.inr ⟨key', d', List.mem_cons_of_mem _ j1, j2⟩ }
  rw [if_pos halive] at hrun
  have hX : Xp.IsExpert σ node (σ.nodeD node) e er := ⟨some_of_lt hlt, I.frag.valid node hlt, hk, hx⟩
  have U := u_run hX hrun
  have M' := u_mid I.mid I.frag hlt hk hx hrun
  refine
    { mid := M', lf := I.lf.trans (U.lf _), frag := U.frag I.frag, slots := U.slots I.slots, obs := U.obs I.obs,
      psize := by rw [U.perkeys]; exact I.psize,
      pother := fun op' h => by rw [U.perkeys]; exact I.pother op' h,
      pop := ⟨pn, by rw [U.perkeys]; exact hpop⟩,
      core := fun pr' h => U.opcore (I.core pr' (by rw [← U.perkeys]; exact h)),
      dom := fun pr' h => I.dom pr' (by rw [← U.perkeys]; exact h),
      pnOld := fun pr' h => I.pnOld pr' (by rw [← U.perkeys]; exact h),
      newrec := ?_, pot := ?_, newKids := ?_, resKids := ?_,
      resNec := by rw [U.isNecessary]; exact I.resNec,
      forcedU := ?_, resAlt := ?_, fsame := ?_ }
  · intro e' er'' hge h
    obtain ⟨er', k1, k2, -⟩ := U.bwd h
    obtain ⟨pr', key', d', j1, j2, j3⟩ := I.newrec e' er' hge k1
    exact ⟨pr', key', d', by rw [U.perkeys]; exact j1, by rw [k2]; exact j2, by rw [k2]; exact j3⟩
  · obtain ⟨ψ, P⟩ := I.pot
    exact ⟨ψ, U.pot P⟩
  · intro c x hc1 hc2 hx'
    rw [U.kidsX] at hx'
    exact I.newKids c x hc1 (by rw [← U.size]; exact hc2) hx'
  · intro ers er'' hs h ed hed
    obtain ⟨er', k1, k2, -⟩ := U.bwd h
    exact I.resKids ers er' hs k1 ed (by rw [k2] at hed; exact hed)
  · intro key' p d' hmem hp
    rcases List.mem_cons.1 hmem with rfl | hmem
    · -- the new key: `p = node`
      have : (node, d) = (p, d') := by
        have h2 := (list_lookup_eq_some_iff_mem hOK.keys key' _).2 hp
        rw [hl] at h2; cases h2; rfl
      cases this
      exact (V_stamp_iff σ' _).2 (Or.inl (U.forced_self hk))
    · exact (U.lf (fun _ => False)).stamp
        ((hent key' p d' (I.pnOld _ hpop key' p d' hp)).plt) (I.forcedU key' p d' hmem hp)
  · rcases I.resAlt with ⟨hL1, hL2⟩ | hR
    · refine Or.inl ⟨fun pr' h => hL1 pr' (by rw [← U.perkeys]; exact h), fun ers er'' hs h => ?_⟩
      rw [U.xother eres (Ne.symm hne)] at h
      exact hL2 ers er'' hs h
    · exact Or.inr (U.forced_mono _ hR)
  · intro e' ers er'' hne' hs h
    by_cases he : e' = e
    · subst he
      refine Or.inr ⟨key, d, List.mem_cons_self .., ?_⟩
      obtain ⟨er1, k1, -, k2, -⟩ := I.lf.xrec e' ers hs
      rw [hx] at k1; cases k1
      rw [← k2, hnode]; exact hm0
    · rw [U.xother e' he] at h
      rcases I.fsame e' ers er'' hne' hs h with h2 | ⟨key', d', j1, j2⟩
      · exact Or.inl h2
      · exact Or.inr ⟨key', d', List.mem_cons_of_mem _ j1, j2⟩

end IncrVerif.Proofs.PerKeyH
