import IncrVerif.Proofs.ExpertH30
/-!
# Expert fragment: simulation of the API actions (all but `stabilise`, `addDep`, the creation of an expert node)

The action is the same on both sides: a newly created node is not an expert node.
-/
namespace IncrVerif.Proofs.ExpertH
open IncrVerif.Engine IncrVerif.Driver IncrVerif.Proofs IncrVerif.Proofs.Step IncrVerif.Proofs.Sched

/-- creation instructions of the static fragment -/
def XInstr : Instr → Prop
  | .const _ => True
  | .var _ => True
  | .map _ _ => True
  | .fold _ _ _ => True
  | .zip _ _ => True
  | _ => False

/-- API actions simulated here -/
def XAction : Action → Prop
  | .create i => XInstr i
  | .observe _ => True
  | .cloneObs _ => True
  | .dropObs _ => True
  | .disallow _ => True
  | .set _ _ => True
  | .modify _ _ => True
  | .update _ _ => True
  | .replace _ _ => True
  | .replaceWith _ _ => True
  | .get _ => True
  | .isStable => True
  | .stats => True
  | _ => False

/-! ## programs that do not change the state -/

/-- `s' = s` -/
def SameS (s s' : State) : Prop := s' = s
instance : Step.PreOrd SameS := ⟨fun _ => rfl, fun h1 h2 => Eq.trans h2 h1⟩

theorem RO.resolveOpnd (loc : List Nat) (o : Opnd) : Step.Pres SameS (Engine.resolveOpnd loc o) := by
  unfold Engine.resolveOpnd; qpres

theorem RO.isConstant (n : Nat) : Step.Pres SameS (Engine.isConstant n) := by
  unfold Engine.isConstant; qpres

section
variable {s : State} {α β : Type}

/-- a read-only program followed by a continuation: the continuation starts in the same state -/
theorem SimAt.ro_seq {x x' : M α} {f f' : α → M β} (hro : Step.Pres SameS x) (hx : SimAt s x x')
    (hf : ∀ a, SimAt s (f a) (f' a)) : SimAt s (x >>= f) (x' >>= f') := by
  refine SimAt.seq hx fun a s1 h1 => ?_
  have e : s1 = s := hro.h s _ s1 h1
  rw [e]; exact hf a

end

theorem Sim.resolveOpnd (loc : List Nat) (o : Opnd) : Sim (Engine.resolveOpnd loc o) (Engine.resolveOpnd loc o) := by
  intro s; unfold Engine.resolveOpnd
  cases o <;> dsimp only <;> xsim <;> split <;> xsim
macro_rules | `(tactic| xsim_leaf) => `(tactic| with_reducible exact IncrVerif.Proofs.ExpertH.Sim.resolveOpnd _ _)

theorem Sim.isConstant (n : Nat) : Sim (Engine.isConstant n) (Engine.isConstant n) := by
  intro s; unfold Engine.isConstant; xsim
  xsim_kind
macro_rules | `(tactic| xsim_leaf) => `(tactic| with_reducible exact IncrVerif.Proofs.ExpertH.Sim.isConstant _)

/-! ## node creation -/

/-- the state after `createNode k sc c` -/
def crState (k : Kind) (sc : Scope) (c : CutoffK) (s : State) : State :=
  let s1 : State := { s with
    counters := { s.counters with created := s.counters.created + 1 }
    nodes := s.nodes.push { kind := k, createdIn := sc, cutoff := c } }
  match sc with
  | .top => s1
  | .bind b => { s1 with binds := s1.binds.modify b fun x =>
      { x with allNodesCreatedOnRhs := x.allNodesCreatedOnRhs ++ [s.nodes.size] } }

theorem run_createNode (k : Kind) (sc : Scope) (c : CutoffK) (s : State) :
    (Engine.createNode k sc c).run.run s = (.ok s.nodes.size, crState k sc c s) := by
  unfold Engine.createNode crState
  cases sc <;> rfl

theorem crState_nodes (k : Kind) (sc : Scope) (c : CutoffK) (s : State) :
    (crState k sc c s).nodes = s.nodes.push { kind := k, createdIn := sc, cutoff := c } := by
  unfold crState; cases sc <;> rfl

theorem crState_pinv (k : Kind) (sc : Scope) (c : CutoffK) (s : State) :
    (crState k sc c s).propagateInvalidity = s.propagateInvalidity := by
  unfold crState; cases sc <;> rfl

theorem crState_pc (k : Kind) (sc : Scope) (c : CutoffK) (s : State) :
    (crState k sc c s).panicCountdown = s.panicCountdown := by
  unfold crState; cases sc <;> rfl

theorem crState_experts (k : Kind) (sc : Scope) (c : CutoffK) (s : State) :
    (crState k sc c s).experts = s.experts := by
  unfold crState; cases sc <;> rfl

theorem virt_crState (k : Kind) (sc : Scope) (c : CutoffK) (s : State) (hne : ∀ e, k ≠ .expert e) :
    virt (crState k sc c s) = crState k sc c (virt s) := by
  have h : (s.nodes.push { kind := k, createdIn := sc, cutoff := c }).map (virtNode s.experts)
      = (virt s).nodes.push { kind := k, createdIn := sc, cutoff := c } := by
    rw [Array.map_push, virtNode_of_not_expert _ _ (by exact hne)]; rfl
  unfold crState virt at *
  cases sc <;> simp only [] <;> rw [h] <;> simp

theorem fr_crState {k : Kind} (sc : Scope) {c : CutoffK} {s : State} (hn : Fr s) (hk : XK k) :
    Fr (crState k sc c s) := by
  have hnd : ∀ m, (crState k sc c s).nodeD m = s.nodeD m ∨
      (crState k sc c s).nodeD m = { kind := k, createdIn := sc, cutoff := c } := by
    intro m
    simp only [State.nodeD, crState_nodes, Array.getElem?_push]
    split
    · right; rfl
    · left; rfl
  refine ⟨?_, fun m => ?_, ?_, fun m => ?_, ?_⟩
  · rw [crState_pc]; exact hn.pc
  · rcases hnd m with h | h <;> rw [h]
    · exact hn.valid m
  · rw [crState_pinv]; exact hn.pinv
  · rcases hnd m with h | h <;> rw [h]
    · exact hn.kind m
    · exact hk
  · rw [crState_experts]; exact hn.ni

theorem SimAt.createNode {s : State} {k : Kind} (sc : Scope) (c : CutoffK) (hne : ∀ e, k ≠ .expert e) (hk : XK k) :
    SimAt s (Engine.createNode k sc c) (Engine.createNode k sc c) := by
  intro hn r s' hr
  rw [run_createNode] at hr ⊢
  cases hr
  rw [virt_size, virt_crState k sc c s hne]
  exact ⟨rfl, fr_crState sc hn hk⟩

theorem SimAt.createVar {s : State} (v : Val) (sc : Scope) :
    SimAt s (Engine.createVar v sc) (Engine.createVar v sc) := by
  unfold Engine.createVar
  refine SimAt.get_seq ?_
  xnorm
  refine SimAt.seq (SimAt.createNode sc .eq (fun e h => by cases h) trivial) fun _ _ _ => ?_
  xsim

/-! ## `elabInstr`, `stepAction` -/

/-- `some <$> createNode k sc` for a static kind -/
macro "xcr_node" : tactic => `(tactic|
  exact IncrVerif.Proofs.ExpertH.SimAt.map _
    (IncrVerif.Proofs.ExpertH.SimAt.createNode _ _ (fun e h => by cases h) trivial))

theorem SimAt.elabInstr {s : State} {i : Instr} (hR : XInstr i) :
    SimAt s (Engine.elabInstr [] .unit i) (Engine.elabInstr [] .unit i) := by
  unfold Engine.elabInstr
  cases i <;> simp only [XInstr] at hR <;> refine SimAt.get_seq ?_ <;> try xnorm
  case const v => xcr_node
  case var v => exact SimAt.map _ (SimAt.createVar v .top)
  case map f args =>
    refine SimAt.ro_seq (Step.Pres.mapM (fun a => RO.resolveOpnd [] a) args)
      (Sim.mapM (fun a => Sim.resolveOpnd [] a) args s) fun as => ?_
    xcr_node
  case fold f init cs =>
    refine SimAt.ro_seq (Step.Pres.mapM (fun a => RO.resolveOpnd [] a) cs)
      (Sim.mapM (fun a => Sim.resolveOpnd [] a) cs s) fun as => ?_
    refine SimAt.cond Iff.rfl (fun _ => ?_) (fun _ => ?_) <;> xcr_node
  case zip a b =>
    refine SimAt.ro_seq (RO.resolveOpnd [] a) (Sim.resolveOpnd [] a s) fun x => ?_
    refine SimAt.ro_seq (RO.resolveOpnd [] b) (Sim.resolveOpnd [] b s) fun y => ?_
    refine SimAt.ro_seq (RO.isConstant x) (Sim.isConstant x s) fun cx => ?_
    refine SimAt.ro_seq (RO.isConstant y) (Sim.isConstant y s) fun cy => ?_
    split <;> xcr_node

theorem elabInstrM_eq (env : Env) (loc : List Nat) (v : Val) {i : Instr} (hR : XInstr i) :
    Engine.elabInstrM env loc v i = Engine.elabInstr loc v i := by
  cases i <;> first | rfl | exact absurd hR (by simp [XInstr])

theorem SimAt.elabInstrM {s : State} {i : Instr} (env : Env) (hR : XInstr i) :
    SimAt s (Engine.elabInstrM env [] .unit i) (Engine.elabInstrM (virtEnv env) [] .unit i) := by
  rw [elabInstrM_eq _ _ _ hR, elabInstrM_eq _ _ _ hR]
  exact SimAt.elabInstr hR

theorem virt_isStable (s : State) : (virt s).isStable = s.isStable := rfl

/-- every API action of the fragment (identical on both sides) -/
theorem SimAt.stepAction {s : State} {a : Action} (env : Env) (tk : Array Nat) (hR : XAction a) :
    SimAt s (Engine.stepAction env a tk) (Engine.stepAction (virtEnv env) a tk) := by
  unfold Engine.stepAction
  cases a <;> simp only [XAction] at hR
  case create i =>
    refine SimAt.seq (SimAt.elabInstrM env hR) fun r _ _ => ?_
    cases r <;> xsim
  all_goals first
    | (refine SimAt.seq (SimAt.discard (Sim.writeVar _ _ _ _)) fun _ _ _ => ?_; xsim; done)
    | (xsim; done)
    | (xsim; exact SimAt.ret _)

end IncrVerif.Proofs.ExpertH
