import IncrVerif.Proofs.FullH9
/-!
# C01 full fragment: simulation of the notification walk, part 2 (port of MapRef8 / MapOld8)
(`maybeChangeValueManual`, `maybeChangeValue`)
-/
namespace IncrVerif.Proofs.FullH
open IncrVerif.Engine IncrVerif.Proofs IncrVerif.Proofs.Step IncrVerif.Proofs.Sched IncrVerif.Proofs.Quiet

section
variable {K : Kind → Prop} {g : Nat → Option Val} {sp : Nat → Val → Val}

/-- validity and parent lists are untouched -/
structure PV (s s' : State) : Prop where
  valid : ∀ m, (s'.nodeD m).valid = (s.nodeD m).valid
  parents : ∀ m, (s'.nodeD m).parents = (s.nodeD m).parents

instance : Step.PreOrd PV :=
  ⟨fun _ => ⟨fun _ => rfl, fun _ => rfl⟩,
   fun h1 h2 => ⟨fun m => (h2.valid m).trans (h1.valid m), fun m => (h2.parents m).trans (h1.parents m)⟩⟩

theorem PV.of_quiet {s s' : State} (q : Step.Quiet s s') : PV s s' :=
  ⟨fun m => (q.node m).valid, fun m => (q.node m).parents⟩

theorem PV.of_nodes {s s' : State} (e : s'.nodes = s.nodes) : PV s s' := by
  have hn : ∀ n, s'.nodeD n = s.nodeD n := fun n => by simp [State.nodeD, e]
  exact ⟨fun m => by rw [hn], fun m => by rw [hn]⟩

theorem PV.modNode (s : State) (n : Nat) (f : Node → Node) (hf : ∀ x, (f x).valid = x.valid ∧ (f x).parents = x.parents) :
    PV s { s with nodes := s.nodes.modify n f } := by
  refine ⟨fun m => ?_, fun m => ?_⟩ <;> rw [nodeD_modify] <;> split
  · exact (hf _).1
  · rfl
  · exact (hf _).2
  · rfl

/-- sequencing that remembers a frame fact about the first program -/
theorem SimAt.seqP {α β : Type} {R : State → State → Prop} {s : State} {x x' : M α} {f f' : α → M β}
    (hp : Step.Pres R x) (hx : SimAt K g s x x') (hf : ∀ a s1, R s s1 → SimAt K g s1 (f a) (f' a)) :
    SimAt K g s (x >>= f) (x' >>= f') :=
  SimAt.seq hx fun a s1 h1 => hf a s1 (hp.h s _ s1 h1)

/-- a loop whose bodies simulate each other under a state condition that the (frame relation of the) bodies keep -/
theorem SimAt.forInR {γ β : Type} {R : State → State → Prop} (I : State → Prop) (hIR : ∀ s s', I s → R s s' → I s')
    (l : List γ) {f f' : γ → β → M (ForInStep β)} (hq : ∀ a b, Step.Pres R (f a b))
    (h : ∀ a, a ∈ l → ∀ b s, I s → SimAt K g s (f a b) (f' a b)) (b : β) (s : State) (hs : I s) :
    SimAt K g s (ForIn.forIn l b f) (ForIn.forIn l b f') := by
  induction l generalizing b s with
  | nil => rw [List.forIn_nil, List.forIn_nil]; exact SimAt.ret _
  | cons a l ih =>
    rw [List.forIn_cons, List.forIn_cons]
    refine SimAt.seqP (hq a b) (h a (List.mem_cons_self ..) b s hs) fun r s1 q => ?_
    cases r with
    | done b' => exact SimAt.ret _
    | yield b' => exact ih (fun a' ha' => h a' (List.mem_cons_of_mem _ ha')) b' s1 (hIR _ _ hs q)

/-- optional notification on the actual side, (no-op) notification on the virtual side -/
theorem SimAt.ccThen {β : Type} {s : State} {b : Bool} {k k' : Unit → M β} {env : Env}
    {fuel fuel' p n ci : Nat} {o o' : Option Val}
    (hf : 0 < fuel' ∨ (b = true ∧ fuel = 0))
    (hv : b = true ∨ (s.nodeD p).valid = true)
    (hex : ∀ r s', (k ()).run.run s = (.ok r, s') → ∃ nd, s.nodes[p]? = some nd)
    (hk : Sim K g (k ()) (k' ())) :
    SimAt K g s (if b = true then Engine.childChanged env fuel p n ci o >>= k else k ())
      (Engine.childChanged (virtEnv env sp) fuel' p n ci o' >>= k') := by
  cases b with
  | true =>
    rw [if_pos rfl]
    refine SimAt.seq (Sim.childChanged' env fuel fuel' p n ci o o' ?_ s) fun _ s1 _ => hk s1
    rcases hf with h | h
    · exact Or.inl h
    · exact Or.inr h.2
  | false =>
    rw [if_neg (by decide)]
    intro hfr r s' h
    obtain ⟨nd, hnd⟩ := hex r s' h
    obtain ⟨f', rfl⟩ : ∃ f', fuel' = f' + 1 := ⟨fuel' - 1, by rcases hf with h | h; omega; cases h.1⟩
    have hval : nd.valid = true := by
      rcases hv with h | h
      · cases h
      · rwa [nodeD_of_some hnd] at h
    rw [run_bind_ok (virt_childChanged_run hnd hval (hfr.some hnd))]
    exact hk s hfr r s' h

theorem SimAt.mcvm (env : Env) (fuel fuel' n : Nat) (o o' : Option Val) (did b : Bool) {s : State}
    (hf : 0 < fuel' ∨ (b = true ∧ fuel = 0))
    (hpv : b = true ∨ ∀ x ∈ (s.nodeD n).parents, (s.nodeD x.1).valid = true) :
    SimAt K g s (Engine.maybeChangeValueManual env fuel n o did b)
      (Engine.maybeChangeValueManual (virtEnv env sp) fuel' n o' did true) := by
  unfold Engine.maybeChangeValueManual
  simp only [↓reduceIte]
  refine SimAt.cond Iff.rfl (fun _ => SimAt.ret _) (fun _ => ?_)
  refine SimAt.get_seq ?_
  fnorm
  refine SimAt.seqP (R := PV) ?_ (Sim.modNode _ (by fcomm) (by fkind) s) fun _ s1 q1 => ?_
  · exact Step.Pres.modify fun t => PV.modNode t n _ fun x => ⟨rfl, rfl⟩
  refine SimAt.seqP (R := PV) ?_ (Sim.bumpCounter _ s1) fun _ s2 q2 => ?_
  · exact Step.Pres.modify fun t => PV.of_nodes rfl
  refine SimAt.seqP (R := PV) ?_ (Sim.maybeHandleAfterStabilisation _ s2) fun _ s3 q3 => ?_
  · exact (Step.Pres.maybeHandleAfterStabilisation n).mono fun _ _ => PV.of_quiet
  have q : PV s s3 := Step.PreOrd.trans (Step.PreOrd.trans q1 q2) q3
  refine SimAt.getNode_seq fun nd hnd hne => ?_
  fnorm
  have hpar : nd.parents = (s.nodeD n).parents := by rw [← q.parents n, nodeD_of_some hnd]
  have hex : ∀ {β : Type} (p : Nat) (s : State) (k : Node → M β) (r : β) (s' : State),
      (do let t ← get
          dassert (t.needsToBeComputed p) "node:maybe_change_value:parent-needs-to-be-computed"
          let nd ← getNode p
          k nd : M β).run.run s = (.ok r, s') → ∃ nd, s.nodes[p]? = some nd := by
    intro β p s k r s' h
    rw [run_bind_get] at h
    obtain ⟨na, hna, -⟩ := bind_getNode_inv (bind_dassert_inv h)
    exact ⟨na, hna⟩
  -- the condition kept along the walk: the parents are valid (needed when the actual run does not notify)
  have hI : ∀ t, Step.Quiet s3 t → (b = true ∨ ∀ x ∈ nd.parents, (t.nodeD x.1).valid = true) := by
    intro t qt
    rcases hpv with h | h
    · exact Or.inl h
    · refine Or.inr fun x hx => ?_
      rw [(qt.node x.1).valid, q.valid]
      exact h x (hpar ▸ hx)
  revert hI
  generalize nd.parents = ps
  intro hI
  split
  · exact SimAt.ret _
  · rename_i p0 ci0 rest
    refine SimAt.seqP (R := Step.Quiet) ?_
      (SimAt.forInR (R := Step.Quiet) (fun t => Step.Quiet s3 t) (fun _ _ h1 h2 => Step.PreOrd.trans h1 h2) rest ?_ ?_ _ s3
        (Step.PreOrd.refl _)) fun _ s4 q4 => ?_
    · apply Step.Pres.forIn; intro a b'; qpres
    · intro a b'; qpres
    · intro a ha b' t qt
      refine SimAt.ccThen hf ?_ (hex _ _ _) ?_
      · rcases hI t qt with h | h
        · exact Or.inl h
        · exact Or.inr (h a (List.mem_cons_of_mem _ ha))
      · intro s5; fsim
    · refine SimAt.ccThen hf ?_ (hex _ _ _) ?_
      · rcases hI s4 q4 with h | h
        · exact Or.inl h
        · exact Or.inr (h (p0, ci0) (List.mem_cons_self ..))
      · intro s5; fsim

/-- with notification on both sides (every node but a map_ref node): no condition on the state, unrelated fuels and old values -/
theorem St.mcvm (env : Env) (fuel fuel' n : Nat) (o o' : Option Val) (did : Bool) (hf : 0 < fuel' ∨ fuel = 0) :
    Sim K g (Engine.maybeChangeValueManual env fuel n o did true)
      (Engine.maybeChangeValueManual (virtEnv env sp) fuel' n o' did true) := by
  intro s
  refine SimAt.mcvm env fuel fuel' n o o' did true ?_ (Or.inl rfl)
  rcases hf with h | h
  · exact Or.inl h
  · exact Or.inr ⟨rfl, h⟩

theorem Sim.maybeChangeValueManual (env : Env) (fuel n : Nat) (o o' : Option Val) (did : Bool) :
    Sim K g (Engine.maybeChangeValueManual env fuel n o did true)
      (Engine.maybeChangeValueManual (virtEnv env sp) fuel n o' did true) := by
  refine St.mcvm env fuel fuel n o o' did ?_
  cases fuel with
  | zero => exact Or.inr rfl
  | succ f => exact Or.inl (Nat.succ_pos _)
macro_rules | `(tactic| fsim_leaf) => `(tactic| with_reducible exact Sim.maybeChangeValueManual _ _ _ _ _ _)

/-- the own step of a map_ref node (no notification by the actual run; the virtual run notifies, which does nothing):
the parents of `n` must be valid -/
theorem SimAt.maybeChangeValueManual_quiet (env : Env) (fuel n : Nat) (o o' : Option Val) (did : Bool) {s : State}
    (hf : 0 < fuel) (hpv : ∀ x ∈ (s.nodeD n).parents, (s.nodeD x.1).valid = true) :
    SimAt K g s (Engine.maybeChangeValueManual env fuel n o did false)
      (Engine.maybeChangeValueManual (virtEnv env sp) fuel n o' did true) :=
  SimAt.mcvm env fuel fuel n o o' did false (Or.inl hf) (Or.inr hpv)

/-! ## `maybe_change_value` on a node that is not a map_ref node -/

/-- writing the value of a node that is not a map_ref node commutes with `virt` -/
theorem SimAt.modNode_value {s : State} {n : Nat} (v : Option Val)
    (h : ∀ p i, (s.nodeD n).kind ≠ .mapRef p i) :
    SimAt K g s (Engine.modNode n fun x => { x with value := v }) (Engine.modNode n fun x => { x with value := v }) := by
  intro hfr r s' hr
  rw [run_modNode] at hr ⊢
  cases hr
  refine ⟨?_, fr_modify hfr n _ (fun nd => ⟨rfl, rfl⟩), vm_modify s n _ (by fkind)⟩
  congr 1
  simp only [virt]
  congr 1
  apply Array.ext
  · simp
  · intro i h1 h2
    simp only [Array.getElem_mapIdx, Array.getElem_modify]
    split
    · rename_i e; subst e
      have hlt : n < s.nodes.size := by simpa using h1
      have hk : ∀ p i, (s.nodes[n]).kind ≠ .mapRef p i := by
        have e : s.nodeD n = s.nodes[n] := by simp [State.nodeD, hlt]
        rw [← e]; exact h
      generalize s.nodes[n] = x at hk
      rcases x with ⟨k⟩
      cases k <;> first | rfl | exact absurd rfl (hk _ _)
    · rfl

theorem SimAt.maybeChangeValue {env : Env} {fuel n : Nat} {v : Val} {t : State}
    (hk : ∀ p i, (t.nodeD n).kind ≠ .mapRef p i)
    (hc : (t.nodeD n).cutoff = virtCut (t.nodeD n).kind (t.nodeD n).cutoff) :
    SimAt K g t (Engine.maybeChangeValue env fuel n v) (Engine.maybeChangeValue (virtEnv env sp) fuel n v) := by
  unfold Engine.maybeChangeValue
  refine SimAt.getNode_seq fun nd hnd hne => ?_
  have hnk : ∀ p i, nd.kind ≠ .mapRef p i := by
    have := hk; rw [nodeD_of_some hnd] at this; exact this
  rw [virtNode_value_of_not_mapRef _ _ hnk]
  dsimp only
  refine SimAt.seq (SimAt.modNode_value none hk) fun _ s1 h1 => ?_
  rw [run_modNode] at h1; cases h1
  have hk1 : ∀ p i, (({ t with nodes := t.nodes.modify n fun x => { x with value := none } } : State).nodeD n).kind
      ≠ .mapRef p i := by
    intro p i; rw [nodeD_modify]; split <;> exact hk p i
  cases nd.value with
  | none =>
    simp only [pure_bind]
    refine SimAt.seq (SimAt.modNode_value _ hk1) fun _ _ _ => ?_
    exact Sim.maybeChangeValueManual env fuel n _ _ _ _
  | some ov =>
    dsimp only
    have hc1 : (({ t with nodes := t.nodes.modify n fun x => { x with value := none } } : State).nodeD n).cutoff =
        virtCut (({ t with nodes := t.nodes.modify n fun x => { x with value := none } } : State).nodeD n).kind
          (({ t with nodes := t.nodes.modify n fun x => { x with value := none } } : State).nodeD n).cutoff := by
      rw [nodeD_modify]; split <;> exact hc
    refine SimAt.seq (SimAt.shouldCutoff env n ov v hc1) fun c s2 h2 => ?_
    have q := (Step.Pres.shouldCutoff env n ov v).h _ _ _ h2
    have hk2 : ∀ p i, (s2.nodeD n).kind ≠ .mapRef p i := by
      intro p i; rw [(q.node n).kind]; exact hk1 p i
    simp only [pure_bind]
    refine SimAt.seq (SimAt.modNode_value _ hk2) fun _ _ _ => ?_
    exact Sim.maybeChangeValueManual env fuel n _ _ _ _

end
end IncrVerif.Proofs.FullH
