import IncrVerif.Proofs.PerKeyH29
import IncrVerif.Proofs.PerKeyH36
import IncrVerif.Proofs.PerKeyH41
import IncrVerif.Proofs.PerKeyH55
/-!
# A run of a per-key change detector, part 9: `LcStepSpec env` modulo the `.right` iteration

`lcStepSpec_of_right : IterRight env → LcStepSpec env`; the closed theorem `lcStepSpec` is in LC10.lean (imports LC4*).
-/
namespace IncrVerif.Proofs.PerKeyH
open IncrVerif.Engine IncrVerif.Driver IncrVerif.Proofs IncrVerif.Proofs.Step IncrVerif.Proofs.Sched
open IncrVerif.Proofs.ExpertH IncrVerif.Proofs.EffH IncrVerif.Proofs.DriverH IncrVerif.Proofs.ExpertH.QR

theorem resNecSpec (env : Env) : ResNecSpec env := fun _ _ _ _ D hop hn => res_nec D hop hn

theorem lcStepSpec_of_right {env : Env} (hR : IterRight env) : LcStepSpec env :=
  lcStepSpec_of hR (iterUnequal env) (resNecSpec env) (lcFinalSpec env)

end IncrVerif.Proofs.PerKeyH
