import IncrVerif.Proofs.FullH49
/-!
# C01 full fragment, API actions, part 2: every API action other than `stabilise` keeps the invariant `QInvFE`
(port of MapRef19 `SimAt.stepAction`, MapRef26 `AFrame.kInv`, MapRef28 `actionR`, `init_invR`; stage S3: `depend_on` nodes, the `cutoff` action, `DepInv`)
-/
namespace IncrVerif.Proofs.FullH
open IncrVerif.Engine IncrVerif.Driver IncrVerif.Proofs IncrVerif.Proofs.Step IncrVerif.Proofs.Sched IncrVerif.Proofs.Quiet
open IncrVerif.Proofs.MapOldH (enc dec WId dec_enc MReach GoodMachine)
open IncrVerif.Proofs.NestH (QG2 QI2 QInv2 GenOK2)

namespace AP

/-! ## corollaries of the frame -/

theorem AFrame.valueCore {s s' : State} (A : AFrame s s') {n : Nat} (hn : n < s.nodes.size) :
    Step.valueCore (s'.nodeD n) = Step.valueCore (s.nodeD n) := by
  have := A.node n hn
  simp only [aCore, Prod.mk.injEq] at this
  simp only [Step.valueCore, this.1, this.2.1, this.2.2.1]

theorem AFrame.value {env : Env} {s s' : State} (A : AFrame s s') (hb : MapRefsBack s) :
    ∀ n, n < s.nodes.size → s'.value env n = s.value env n := by
  intro n hn
  unfold State.value
  exact Step.valueWith_congr_below env.proj s s' hb n
    (fun m hm => A.valueCore (by omega)) _ _ (by omega) (by have := A.sizeLe; omega)

theorem AFrame.isNecessary {s s' : State} (A : AFrame s s') :
    ∀ n, n < s.nodes.size → s'.isNecessary n = s.isNecessary n := by
  intro n hn
  unfold State.isNecessary
  exact isNecessary_of_aCore (A.node n hn)

theorem AFrame.fields {s s' : State} (A : AFrame s s') {n : Nat} (hn : n < s.nodes.size) :
    (s'.nodeD n).kind = (s.nodeD n).kind ∧ (s'.nodeD n).valid = (s.nodeD n).valid ∧
    (s'.nodeD n).value = (s.nodeD n).value ∧ (s'.nodeD n).didChange = (s.nodeD n).didChange ∧
    (s'.nodeD n).oldState = (s.nodeD n).oldState ∧ (s'.nodeD n).changedAt = (s.nodeD n).changedAt := by
  have := A.node n hn; simp only [aCore, Prod.mk.injEq] at this
  exact ⟨this.1, this.2.1, this.2.2.1, this.2.2.2.1, this.2.2.2.2.2.2.2.1, this.2.2.2.2.2.2.2.2.1⟩

/-- no API action other than `stabilise` changes a `changedAt` stamp (a new node has the stamp of a missing node) -/
theorem AFrame.changedAt {s s' : State} (A : AFrame s s') (n : Nat) : (s'.nodeD n).changedAt = (s.nodeD n).changedAt := by
  by_cases hn : n < s.nodes.size
  · exact (A.fields hn).2.2.2.2.2
  · rw [(A.fresh n (by omega)).2.2.2, (value_default_of_ge s n (by omega)).2.2]

/-- **the `didChange` invariant is kept** -/
theorem AFrame.kInv {env : Env} {g : Nat → Option Val} {s s' : State} (A : AFrame s s') (hb : MapRefsBack s)
    (K : KInv env g s) : KInv env g s' := by
  intro m p i hv hnec hk hd
  by_cases hm : m < s.nodes.size
  · obtain ⟨f1, f2, -, f4, -⟩ := A.fields hm
    rw [A.isNecessary m hm] at hnec
    rw [f1] at hk
    rw [f2] at hv
    rw [f4] at hd
    rw [A.value hb m hm]
    exact K m p i hv hnec hk hd
  · rw [(A.fresh m (by omega)).1] at hnec; cases hnec

/-- **the machine invariant is kept**: a new `map_with_old` node is in the initial machine state -/
theorem AFrame.mInv {env : Env} {s s' : State} (A : AFrame s s') (M : MInv env s) : MInv env s' := by
  intro n m i hv hk
  by_cases hn : n < s.nodes.size
  · obtain ⟨f1, f2, f3, -, f5, -⟩ := A.fields hn
    rw [f3, f5]
    exact M n m i (by rw [← f2]; exact hv) (by rw [← f1]; exact hk)
  · obtain ⟨-, h2, h3, -⟩ := A.fresh n (by omega)
    rw [h2, h3]; exact MReach.init

theorem virtNode_value_none {nd : Node} (h : nd.value = none) : (virtNode none nd).value = none := by
  by_cases hk : ∃ p i, nd.kind = .mapRef p i
  · obtain ⟨p, i, hk⟩ := hk
    exact virtNode_value_mapRef _ _ hk
  · rw [virtNode_value_of_not_mapRef _ _ (fun p i e => hk ⟨p, i, e⟩)]; exact h

/-- every node virtually stores the same value (same ghost; the ghost is `none` beyond the nodes of `s`) -/
theorem AFrame.tv {g : Nat → Option Val} {s s' : State} (A : AFrame s s') (hg : ∀ n, s.nodes.size ≤ n → g n = none)
    (a : Nat) : tv g s' a = tv g s a := by
  by_cases ha : a < s.nodes.size
  · obtain ⟨f1, -, f3, -⟩ := A.fields ha
    by_cases h : ∃ p i, (s.nodeD a).kind = .mapRef p i
    · obtain ⟨p, i, hk⟩ := h
      rw [tv_mapRef hk, tv_mapRef (s := s') (by rw [f1]; exact hk)]
    · have h1 : ∀ p i, (s.nodeD a).kind ≠ .mapRef p i := fun p i hk => h ⟨p, i, hk⟩
      rw [tv_not_mapRef h1, tv_not_mapRef (s := s') (fun p i => by rw [f1]; exact h1 p i), f3]
  · have h1 : ((virt g s').nodeD a).value = none := by
      rw [virt_nodeD, hg a (by omega)]
      exact virtNode_value_none (A.fresh a (by omega)).2.1
    have h2 : ((virt g s).nodeD a).value = none := by
      rw [virt_nodeD, hg a (by omega)]
      exact virtNode_value_none (value_default_of_ge s a (by omega)).1
    exact h1.trans h2.symm

/-- **the `depend_on` invariant is kept**: stamps, kinds, validity and stored values do not change, a cutoff is never SET to `.dependOn _`, a new node
stores nothing -/
theorem AFrame.depInv {g : Nat → Option Val} {s s' : State} (A : AFrame s s') (hg : ∀ n, s.nodes.size ≤ n → g n = none)
    (D : DepInv g s) : DepInv g s' := by
  intro n a b v hv hk hc hch hval
  by_cases hn : n < s.nodes.size
  · obtain ⟨f1, f2, f3, -⟩ := A.fields hn
    rw [A.tv hg]
    rw [A.changedAt, A.changedAt] at hch
    refine D n a b v (by rw [← f2]; exact hv) (by rw [← f1]; exact hk) ?_ hch (by rw [← f3]; exact hval)
    rcases A.cut n hn with e | e | e
    · rw [← e]; exact hc
    · rw [e] at hc; cases hc
    · rw [e] at hc; cases hc
  · rw [(A.fresh n (by omega)).2.1] at hval; cases hval

end AP

/-! ## the relation `VM` without the cutoffs (the `cutoff` action changes one) -/

/-- `VM` without "cutoffs are kept" -/
structure VMc (s s' : State) : Prop where
  size : s.nodes.size ≤ s'.nodes.size
  valid : ∀ m, (s.nodeD m).valid = false → (s'.nodeD m).valid = false
  kind : ∀ m, m < s.nodes.size → (s'.nodeD m).kind = (s.nodeD m).kind ∧ (s'.nodeD m).oldState = (s.nodeD m).oldState
  flag : ∀ m, m < s.nodes.size → (s'.nodeD m).didChange = false → (s.nodeD m).didChange = false
  newn : ∀ m, s.nodes.size ≤ m → m < s'.nodes.size → (s'.nodeD m).didChange = true ∧ (s'.nodeD m).oldState = .unit ∧
    ∀ p i, (s'.nodeD m).kind = .mapRef p i → i < m

theorem VM.toC {s s' : State} (v : VM s s') : VMc s s' :=
  ⟨v.size, v.valid, fun m hm => ⟨(v.kind m hm).1, (v.kind m hm).2.2⟩, v.flag, v.newn⟩

/-- a frame that creates no node -/
theorem VMc.of_frame {s s' : State} (A : AP.AFrame s s') (hsz : s'.nodes.size = s.nodes.size) : VMc s s' := by
  refine ⟨A.sizeLe, fun m hv => ?_, fun m hm => ⟨(A.fields hm).1, (A.fields hm).2.2.2.2.1⟩,
    fun m hm hd => by rw [← (A.fields hm).2.2.2.1]; exact hd, fun m h1 h2 => absurd h2 (by omega)⟩
  by_cases hm : m < s.nodes.size
  · rw [(A.fields hm).2.1]; exact hv
  · rw [nodeD_default_of_ge s m (by omega)] at hv
    rw [nodeD_default_of_ge s' m (by omega)]; exact hv

theorem GSome.of_vmc {g : Nat → Option Val} {s s' : State} (G : GSome g s) (R : VMc s s') : GSome g s' := by
  intro m p i hv hk hd
  by_cases hm : m < s.nodes.size
  · obtain ⟨k1, -⟩ := R.kind m hm
    have hv0 : (s.nodeD m).valid = true := by
      cases h : (s.nodeD m).valid with
      | true => rfl
      | false => rw [R.valid m h] at hv; cases hv
    exact G m p i hv0 (by rw [← k1]; exact hk) (R.flag m hm hd)
  · by_cases hm' : m < s'.nodes.size
    · rw [(R.newn m (by omega) hm').1] at hd; cases hd
    · rw [nodeD_default_of_ge s' m (by omega)] at hk; cases hk

theorem mapRefsBack_of_vmc {s s' : State} (hb : MapRefsBack s) (v : VMc s s') : MapRefsBack s' := by
  intro n nd p i hn hk
  have hlt := lt_of_some hn
  have hk' : (s'.nodeD n).kind = .mapRef p i := by rw [nodeD_of_some hn]; exact hk
  by_cases h : n < s.nodes.size
  · rw [(v.kind n h).1] at hk'
    exact hb n (s.nodeD n) p i (some_of_lt h) hk'
  · exact (v.newn n (by omega) hlt).2.2 p i hk'

/-! ## the simulation -/

theorem opndS_of_ok {o : Opnd} (h : Quiet.OpndOK o) : OpndS o := by
  cases o <;> first | trivial | exact h.elim

/-- the top-level creation instructions of the fragment (other than the `cutoff` action) are simulated instructions over `.outer` operands -/
theorem instrS_of_top {env : Env} {sp : Nat → Val → Val} {T : Nat} {i : Instr} (h : InstrTopF env sp T i)
    (hnc : ∀ n c, i ≠ .cutoff n c) : InstrS env sp i ∧ ∀ o ∈ InstrOpnds i, OpndS o := by
  cases i <;> simp only [InstrTopF] at h <;> simp only [InstrS, InstrOpnds] <;> try exact h.elim
  case const v => exact ⟨trivial, fun o ho => by cases ho⟩
  case var v => exact ⟨trivial, fun o ho => by cases ho⟩
  case map f args => exact ⟨⟨h.1, h.2.1⟩, fun o ho => opndS_of_ok (h.2.2 o ho)⟩
  case fold f init cs => exact ⟨trivial, fun o ho => opndS_of_ok (h o ho)⟩
  case zip a b =>
    refine ⟨trivial, fun o ho => ?_⟩
    simp only [List.mem_cons, List.mem_nil_iff, or_false] at ho
    rcases ho with rfl | rfl
    · exact opndS_of_ok h.1
    · exact opndS_of_ok h.2
  case dependOn a b =>
    refine ⟨trivial, fun o ho => ?_⟩
    simp only [List.mem_cons, List.mem_nil_iff, or_false] at ho
    rcases ho with rfl | rfl
    · exact opndS_of_ok h.1
    · exact opndS_of_ok h.2
  case mapRef p o =>
    refine ⟨h.1, fun o' ho => ?_⟩
    simp only [List.mem_cons, List.mem_nil_iff, or_false] at ho
    subst ho; exact opndS_of_ok h.2
  case mapWithOld m o =>
    refine ⟨⟨h.1, h.2.1⟩, fun o' ho => ?_⟩
    simp only [List.mem_cons, List.mem_nil_iff, or_false] at ho
    subst ho; exact opndS_of_ok h.2.2
  case bind body lhs =>
    refine ⟨trivial, fun o' ho => ?_⟩
    simp only [List.mem_cons, List.mem_nil_iff, or_false] at ho
    obtain ⟨k, rfl⟩ := h.1
    subst ho; trivial
  case cutoff n c => exact absurd rfl (hnc n c)

theorem aaction_of_full {env : Env} {sp : Nat → Val → Val} {T : Nat} {a : Action} (hA : ActionFull env sp T a)
    (hs : a ≠ .stabilise) : AP.AAction env sp a := by
  cases a <;> simp only [ActionFull] at hA <;> simp only [AP.AAction] <;> try exact hA.elim
  case create i =>
    by_cases hc : ∃ n c, i = .cutoff n c
    · obtain ⟨n, c, rfl⟩ := hc
      exact Or.inr ⟨n, c, rfl, hA.2⟩
    · exact Or.inl (instrS_of_top hA (fun n c e => hc ⟨n, c, e⟩)).1
  case stabilise => exact absurd rfl hs

theorem virtA_create {i : Instr} (h : ∀ n c, i ≠ .cutoff n c) : virtA (.create i) = .create (virtI i) := by
  cases i <;> first | rfl | exact absurd rfl (h _ _)

theorem virtA_other {a : Action} (h : ∀ i, a ≠ .create i) : virtA a = a := by
  cases a <;> first | rfl | exact absurd rfl (h _)

section
variable {env : Env} {sp : Nat → Val → Val} {g : Nat → Option Val}

theorem SimAt.discard {K : Kind → Prop} {α : Type} {s : State} {x x' : M α} (hx : SimAt K g s x x') :
    SimAt K g s (discard x) (discard x') := by
  unfold Functor.discard
  exact SC.simAt_map (Function.const α PUnit.unit) hx

theorem virt_isStable (s : State) : (virt g s).isStable = s.isStable := rfl

/-- every API action but `stabilise` and the `cutoff` action is simulated with `VM` -/
theorem SimAt.stepAction {s : State} {T : Nat} {a : Action} (tk : Array Nat) (hA : ActionFull env sp T a)
    (hs : a ≠ .stabilise) (hnc : ∀ n c, a ≠ .create (.cutoff n c)) (ht : TopLt s) :
    SimAt (FK env sp) g s (Engine.stepAction env a tk) (Engine.stepAction (VE env sp) (virtA a) tk) := by
  cases a <;> simp only [ActionFull] at hA <;> try exact hA.elim
  case create i =>
    have hnc' : ∀ n c, i ≠ .cutoff n c := fun n c e => hnc n c (by rw [e])
    rw [virtA_create hnc']
    unfold Engine.stepAction
    simp only []
    obtain ⟨hi, ho⟩ := instrS_of_top hA hnc'
    refine SimAt.seq (SimAt.elabInstrM [] .unit i hi ho ht (fun m hm => by cases hm)) fun r _ _ => ?_
    cases r <;> fsim
  case stabilise => exact absurd rfl hs
  all_goals
    rw [virtA_other (fun i h => by cases h)]
    unfold Engine.stepAction
    simp only []
    first
    | (refine SimAt.seq (SimAt.discard (Sim.writeVar _ _ _ _)) fun _ _ _ => ?_; fsim; done)
    | (fsim; done)
    | (fsim; exact SimAt.ret _)

/-! ## the `cutoff` action -/

/-- the naming table names nodes that are not change detectors -/
def TopNoLc (s : State) : Prop := ∀ (k r : Nat), s.top[k]? = some r → ∀ b, (s.nodeD r).kind ≠ .bindLhsChange b

/-- what a successful `cutoff` action does -/
theorem cutoff_run {s s' : State} {n : Opnd} {c : CutoffK} {tk : Array Nat} {r : String × Array Nat} (hn : Quiet.OpndOK n)
    (h : (stepAction env (.create (.cutoff n c)) tk).run.run s = (.ok r, s')) :
    r = ("ok", tk) ∧ ∃ k m : Nat, s.top[k]? = some m ∧ s' = { s with nodes := s.nodes.modify m fun x => { x with cutoff := c } } := by
  unfold Engine.stepAction at h
  simp only [] at h
  obtain ⟨ro, s1, h1, h2⟩ := bind_ok_inv h
  have h1' : (Engine.elabInstr [] .unit (.cutoff n c)).run.run s = (.ok ro, s1) := h1
  unfold Engine.elabInstr at h1'
  simp only [] at h1'
  rw [run_bind_get] at h1'
  obtain ⟨m, s2, h3, h4⟩ := bind_ok_inv h1'
  obtain ⟨e2, hm⟩ := SC.resolveOpnd_inv (opndS_of_ok hn) h3
  subst e2
  rw [run_bind_modNode] at h4
  obtain ⟨e3, e4⟩ := pure_ok_inv h4
  subst e3 e4
  obtain ⟨e5, e6⟩ := pure_ok_inv h2
  subst e5 e6
  rcases hm with ⟨k, hk⟩ | hm
  · exact ⟨rfl, k, m, hk, rfl⟩
  · cases hm

theorem virtNode_cut (gv : Option Val) (nd : Node) (c : CutoffK) (h : ∀ b, nd.kind ≠ .bindLhsChange b) :
    virtNode gv { nd with cutoff := c } = virtNode gv nd := by
  rcases nd with ⟨k⟩
  cases k <;> first | rfl | exact absurd rfl (h _)

/-- resetting the cutoff of a node that is not a change detector is invisible in the virtual state -/
theorem virt_cut (g : Nat → Option Val) (s : State) (m : Nat) (c : CutoffK) (h : ∀ b, (s.nodeD m).kind ≠ .bindLhsChange b) :
    virt g { s with nodes := s.nodes.modify m fun x => { x with cutoff := c } } = virt g s := by
  simp only [virt]
  congr 1
  apply Array.ext
  · simp
  · intro i h1 h2
    simp only [Array.getElem_mapIdx, Array.getElem_modify]
    split
    · rename_i e; subst e
      refine virtNode_cut _ _ c ?_
      have hlt : m < s.nodes.size := by simpa using h1
      have e : s.nodeD m = s.nodes[m]'hlt := by simp [State.nodeD, Array.getElem?_eq_getElem hlt]
      intro b hb
      exact h b (by rw [e]; exact hb)
    · rfl

theorem fr_cut {K : Kind → Prop} {s : State} (F : Fr K g s) (m : Nat) {c : CutoffK} (hc : c = .eq ∨ c = .never) :
    Fr K g { s with nodes := s.nodes.modify m fun x => { x with cutoff := c } } := by
  refine ⟨fun n hn => ?_, fun n e => ?_, fun n => ?_, fun n hn => F.fresh n (by simpa using hn)⟩
  · have hn' : n < s.nodes.size := by simpa using hn
    rw [nodeD_modify]
    split
    · exact F.kinds n hn'
    · exact F.kinds n hn'
  · rw [nodeD_modify]
    split
    · exact F.noExp n e
    · exact F.noExp n e
  · rw [nodeD_modify]
    split
    · rcases hc with rfl | rfl
      · exact Or.inl rfl
      · exact Or.inr (Or.inl rfl)
    · exact F.cut n

/-- the frame of the actual run -/
theorem stepAction_frame {s : State} {T : Nat} {a : Action} {tk : Array Nat} {r : Except Panic (String × Array Nat)}
    {s' : State} (hA : ActionFull env sp T a) (hs : a ≠ .stabilise)
    (h : (stepAction env a tk).run.run s = (r, s')) : AP.AFrame s s' :=
  (AP.PresA.stepAction a tk (aaction_of_full hA hs)).h _ _ _ h

/-- **1. the virtual engine does the same API action** (same ghost: no API action of the fragment invalidates; the `cutoff` action is invisible in the
virtual state; `VMc`: `VM` without the cutoffs) -/
theorem stepAction_sim {s : State} {T : Nat} {a : Action} {tk : Array Nat} {r : String × Array Nat} {s' : State}
    (hA : ActionFull env sp T a) (hs : a ≠ .stabilise) (F : FFrag env sp g s) (ht : TopLt s) (hlc : TopNoLc s)
    (h : (stepAction env a tk).run.run s = (.ok r, s')) :
    (stepAction (VE env sp) (virtA a) tk).run.run (virt g s) = (.ok r, virt g s') ∧ Fr (FK env sp) g s' ∧ VMc s s' := by
  by_cases hc : ∃ n c, a = .create (.cutoff n c)
  · obtain ⟨n, c, rfl⟩ := hc
    have A := stepAction_frame hA hs h
    simp only [ActionFull, InstrTopF] at hA
    obtain ⟨rfl, k, m, hk, rfl⟩ := cutoff_run hA.1 h
    refine ⟨?_, fr_cut F.fr m hA.2, VMc.of_frame A (by simp)⟩
    rw [virt_cut g s m c (hlc k m hk)]
    rfl
  · obtain ⟨h1, h2, h3⟩ := SimAt.stepAction tk hA hs (fun n c e => hc ⟨n, c, e⟩) ht F.fr r s' h
    exact ⟨h1, h2, h3.toC⟩

/-! ## 2. the ghost invariants, from the frame of the actual run -/

theorem stepAction_kinv {s : State} {T : Nat} {a : Action} {tk : Array Nat} {r : String × Array Nat} {s' : State}
    (hA : ActionFull env sp T a) (hs : a ≠ .stabilise) (hb : MapRefsBack s)
    (h : (stepAction env a tk).run.run s = (.ok r, s')) (K : KInv env g s) : KInv env g s' :=
  (stepAction_frame hA hs h).kInv hb K

theorem stepAction_minv {s : State} {T : Nat} {a : Action} {tk : Array Nat} {r : String × Array Nat} {s' : State}
    (hA : ActionFull env sp T a) (hs : a ≠ .stabilise)
    (h : (stepAction env a tk).run.run s = (.ok r, s')) (M : MInv env s) : MInv env s' :=
  (stepAction_frame hA hs h).mInv M

theorem stepAction_depInv {s : State} {T : Nat} {a : Action} {tk : Array Nat} {r : String × Array Nat} {s' : State}
    (hA : ActionFull env sp T a) (hs : a ≠ .stabilise) (hg : ∀ n, s.nodes.size ≤ n → g n = none)
    (h : (stepAction env a tk).run.run s = (.ok r, s')) (D : DepInv g s) : DepInv g s' :=
  (stepAction_frame hA hs h).depInv hg D

theorem stepAction_pc {s : State} {T : Nat} {a : Action} {tk : Array Nat} {r : String × Array Nat} {s' : State}
    (hA : ActionFull env sp T a) (hs : a ≠ .stabilise)
    (h : (stepAction env a tk).run.run s = (.ok r, s')) (hpc : s.panicCountdown = none) : s'.panicCountdown = none :=
  (stepAction_frame hA hs h).pc.trans hpc

theorem stepAction_gsome {s : State} {T : Nat} {a : Action} {tk : Array Nat} {r : String × Array Nat} {s' : State}
    (hA : ActionFull env sp T a) (hs : a ≠ .stabilise) (F : FFrag env sp g s) (ht : TopLt s) (hlc : TopNoLc s)
    (h : (stepAction env a tk).run.run s = (.ok r, s')) (G : GSome g s) : GSome g s' :=
  G.of_vmc (stepAction_sim hA hs F ht hlc h).2.2

theorem stepAction_back {s : State} {T : Nat} {a : Action} {tk : Array Nat} {r : String × Array Nat} {s' : State}
    (hA : ActionFull env sp T a) (hs : a ≠ .stabilise) (F : FFrag env sp g s) (ht : TopLt s) (hlc : TopNoLc s)
    (h : (stepAction env a tk).run.run s = (.ok r, s')) : MapRefsBack s' :=
  mapRefsBack_of_vmc F.back (stepAction_sim hA hs F ht hlc h).2.2

/-! ## 3. the headline -/

/-- the naming table names nodes of the state that are not change detectors -/
theorem topLt_of_qg2 {s : State} (Q : QG2 (VE env sp) (virt g s)) : TopLt s ∧ TopNoLc s := by
  obtain ⟨⟨rk, Q2⟩, -⟩ := Q
  refine ⟨fun k r hk => ?_, fun k r hk b hb => ?_⟩
  · have := (Q2.f2.topOK k r hk).1
    rwa [virt_size] at this
  · refine (Q2.f2.topOK k r hk).2.2 b ?_
    rw [virt_nodeD, virtNode_kind, hb]; rfl

/-- every API action of the full fragment other than `stabilise` keeps the invariant, with the SAME ghost -/
theorem step_fullG {s s' : State} {a : Action} {tk : Array Nat} {r : String × Array Nat}
    (Q : QInvF env sp s g) (hA : ActionFull env sp s.top.size a) (hs : a ≠ .stabilise)
    (h : (stepAction env a tk).run.run s = (.ok r, s')) : QInvF env sp s' g := by
  obtain ⟨ht, hlc⟩ := topLt_of_qg2 Q.q
  obtain ⟨hv, hfr, vm⟩ := stepAction_sim hA hs Q.frag ht hlc h
  have A := stepAction_frame hA hs h
  have Qv' : QG2 (VE env sp) (virt g s') := NestH.step_F2 Q.q (actionF2_virt hA) hv
  exact ⟨⟨hfr, mapRefsBack_of_vmc Q.frag.back vm, A.pc.trans Q.frag.pc⟩, Qv', A.kInv Q.frag.back Q.k, A.mInv Q.m,
    Q.gs.of_vmc vm, A.depInv Q.frag.fr.fresh Q.dep⟩

/-- **HEADLINE: every API action of the full fragment other than `stabilise` keeps the invariant `QInvFE`.** -/
theorem step_full {s s' : State} {a : Action} {tk : Array Nat} {r : String × Array Nat}
    (Q : QInvFE env sp s) (hA : ActionFull env sp s.top.size a) (hs : a ≠ .stabilise)
    (h : (stepAction env a tk).run.run s = (.ok r, s')) : QInvFE env sp s' := by
  obtain ⟨g, Q⟩ := Q
  exact ⟨g, step_fullG Q hA hs h⟩

end

/-! ## 4. the initial state -/

theorem virt_init (g : Nat → Option Val) (N : Nat) (d : Bool) : virt g (State.init N d) = State.init N d := by
  unfold virt; congr 1

theorem init_nodeD (N : Nat) (d : Bool) (m : Nat) : (State.init N d).nodeD m = default := by
  simp [State.nodeD, State.init]

theorem qinvF_init (env : Env) (sp : Nat → Val → Val) (N : Nat) (d : Bool) : QInvFE env sp (State.init N d) := by
  refine ⟨fun _ => none, ⟨⟨fun n hn => ?_, fun n e hk => ?_, fun n => ?_, fun _ _ => rfl⟩, ?_, rfl⟩, ?_, ?_, ?_, ?_, ?_⟩
  · simp [State.init] at hn
  · rw [init_nodeD] at hk; cases hk
  · rw [init_nodeD]; exact Or.inl rfl
  · intro n nd p i hn
    simp [State.init] at hn
  · rw [virt_init]; exact NestH.qg2_init _ N d
  · intro m p i _ _ hk
    rw [init_nodeD] at hk; cases hk
  · intro n m i _ hk
    rw [init_nodeD] at hk; cases hk
  · intro m p i _ hk
    rw [init_nodeD] at hk; cases hk
  · intro n a b v _ hk
    rw [init_nodeD] at hk; cases hk

end IncrVerif.Proofs.FullH
