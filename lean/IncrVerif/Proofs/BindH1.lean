import IncrVerif.Proofs.Sched13
/-!
# Binds, part 1 (B1): the ordering lemma — pure logic

"Nodes built inside a bind closure never run before the bind's change detector had its chance."

`OrderInv s x` collects what the argument needs of a state `s` during a drain (`x` = the node that is
currently running / about to run, if any):
* `heap : Sched.HeapInv s` — buckets = heights, lower bound below every queued node, queued ⟹ necessary;
* `scope` — THE SCOPE HEIGHT RULE: a valid necessary node created in scope `.bind b` is strictly higher than
  the lhs-change node of `b`;
* `scopeNec` — a valid necessary node created in scope `.bind b` makes the lhs-change node of `b` necessary
  (through the bind's main node);
* `pending` — a necessary stale node is queued or is `x`;
* `mainLc` — a valid necessary `bindMain b' lc'` node: `lc'` is valid, necessary and was created in the same scope;
* `lcPar` — the parents of an lhs-change node are not created in the scope of its own bind.

Theorems: `pop_order` (the node popped by `remove_min`), `handover_order` (the node handed over by
`parent_iter_can_recompute_now`, both the "D2 repair" branch `min_height > scope.height()` and the branch
`height ≤ min_height`), `d2_needed` (what the guard buys: with a queued change detector the guard is false).
-/
namespace IncrVerif.Proofs.BindH
open IncrVerif.Engine IncrVerif.Proofs IncrVerif.Proofs.Step IncrVerif.Proofs.Sched

/-- the invariants of a draining state that the ordering lemma consumes -/
structure OrderInv (s : State) (x : Option Nat) : Prop where
  heap : HeapInv s
  /-- the scope height rule -/
  scope : ∀ n b br, (s.nodeD n).valid = true → s.isNecessary n = true →
    (s.nodeD n).createdIn = .bind b → s.binds[b]? = some br →
    br.lhsChange < s.nodes.size ∧ (s.nodeD br.lhsChange).height < (s.nodeD n).height
  /-- scope necessity, at the change detector -/
  scopeNec : ∀ n b br, (s.nodeD n).valid = true → s.isNecessary n = true →
    (s.nodeD n).createdIn = .bind b → s.binds[b]? = some br → s.isNecessary br.lhsChange = true
  /-- necessary stale nodes are queued (or are the current node) -/
  pending : ∀ m, s.isNecessary m = true → s.isStale m = true → (s.nodeD m).inRch = true ∨ x = some m
  /-- a bind main and its change detector live in the same scope -/
  mainLc : ∀ p b' lc', (s.nodeD p).valid = true → s.isNecessary p = true →
    (s.nodeD p).kind = .bindMain b' lc' →
    lc' < s.nodes.size ∧ (s.nodeD lc').valid = true ∧ s.isNecessary lc' = true ∧
      (s.nodeD lc').createdIn = (s.nodeD p).createdIn
  /-- the parents of a change detector are not in its own scope -/
  lcPar : ∀ b br p i, s.binds[b]? = some br → (p, i) ∈ (s.nodeD br.lhsChange).parents →
    (s.nodeD p).createdIn ≠ .bind b

/-- "the change detector of scope `b` has had its chance": it is not queued and not stale -/
def Settled (s : State) (b : Nat) : Prop :=
  ∀ br, s.binds[b]? = some br →
    (s.nodeD br.lhsChange).inRch = false ∧ s.isStale br.lhsChange = false

/-! ## the popped node -/

/-- **Ordering lemma, pop.** In a state with the ordering invariants (no current node), if `remove_min` returns a
VALID node `n` created in scope `.bind b`, then the lhs-change node of `b` is neither queued nor stale — in the
state before the pop and in the state in which `n` is about to run — and it is not `n` itself. -/
theorem pop_order {s s1 : State} {n b : Nat} (I : OrderInv s none)
    (hr : rchRemoveMin.run.run s = (.ok (some n), s1))
    (hv : (s.nodeD n).valid = true) (hsc : (s.nodeD n).createdIn = .bind b) :
    Settled s b ∧ Settled s1 b ∧ ∀ br, s.binds[b]? = some br → br.lhsChange ≠ n := by
  have hpop := rchRemoveMin_inv I.heap hr
  simp only at hpop
  obtain ⟨hq, hmin, -, hs1, -⟩ := hpop
  have hnec := I.heap.nec n hq
  have key : ∀ br, s.binds[b]? = some br →
      (s.nodeD br.lhsChange).inRch = false ∧ s.isStale br.lhsChange = false ∧ br.lhsChange ≠ n := by
    intro br hb
    obtain ⟨-, hlt⟩ := I.scope n b br hv hnec hsc hb
    have hnq : (s.nodeD br.lhsChange).inRch = false := by
      cases h : (s.nodeD br.lhsChange).inRch with
      | false => rfl
      | true => have := hmin _ h; omega
    refine ⟨hnq, ?_, ?_⟩
    · cases hst : s.isStale br.lhsChange with
      | false => rfl
      | true =>
        rcases I.pending _ (I.scopeNec n b br hv hnec hsc hb) hst with h | h
        · rw [hnq] at h; cases h
        · cases h
    · intro e; rw [e] at hlt; omega
  refine ⟨fun br hb => ⟨(key br hb).1, (key br hb).2.1⟩, ?_, fun br hb => (key br hb).2.2⟩
  intro br hb
  have hb0 : s.binds[b]? = some br := by rw [hs1] at hb; exact hb
  obtain ⟨k1, k2, k3⟩ := key br hb0
  have hnode : s1.nodeD br.lhsChange = s.nodeD br.lhsChange := by
    rw [hs1]
    have := nodeD_modify { s with rch := s1.rch } n br.lhsChange (fun x => { x with heightInRch := -1 })
    refine this.trans ?_
    rw [if_neg (fun h => k3 h.1.symm)]; rfl
  refine ⟨by rw [hnode]; exact k1, ?_⟩
  -- staleness does not read `heightInRch` or the heap
  have hst : ∀ m, s1.isStale m = s.isStale m := by
    intro m
    have hnd : ∀ c, (s1.nodeD c).changedAt = (s.nodeD c).changedAt ∧
        (s1.nodeD c).recomputedAt = (s.nodeD c).recomputedAt ∧ (s1.nodeD c).kind? = (s.nodeD c).kind? := by
      intro c
      rw [hs1]
      have := nodeD_modify { s with rch := s1.rch } n c (fun x => { x with heightInRch := -1 })
      rw [this]
      split <;> exact ⟨rfl, rfl, rfl⟩
    have hbinds : s1.binds = s.binds := by rw [hs1]
    have hvars : s1.vars = s.vars := by rw [hs1]
    have hexp : s1.experts = s.experts := by rw [hs1]
    have hch : s1.children m = s.children m := by
      simp only [State.children, (hnd m).2.2, hbinds, hexp]
    simp only [State.isStale, hch, (hnd m).2.2, (hnd m).2.1, fun c => (hnd c).1, hvars, hexp]
  rw [hst]; exact k2

/-! ## the node handed over by the direct-recompute chain -/

/-- what a `true` answer of `parent_iter_can_recompute_now` means (closed form, from `Step.picrn_run`) -/
theorem picrn_true {p child : Nat} {s s' : State}
    (h : (parentIterCanRecomputeNow p child).run.run s = (.ok true, s')) :
    ∃ pn k cn can, s.nodes[p]? = some pn ∧ pn.kind? = some k ∧ s.nodes[child]? = some cn ∧
      canRecomputeNow s pn k cn.height (minHeightOf s) = .ok can ∧
      (can = true ∨ pn.height ≤ minHeightOf s) ∧ s' = withMinHeight s := by
  rw [picrn_run] at h
  cases hp : s.nodes[p]? with
  | none => rw [hp] at h; cases h
  | some pn =>
    rw [hp] at h; dsimp only at h
    cases hk : pn.kind? with
    | none => rw [hk] at h; cases h
    | some k =>
      rw [hk] at h; dsimp only at h
      cases hc : s.nodes[child]? with
      | none => rw [hc] at h; cases h
      | some cn =>
        rw [hc] at h; dsimp only at h
        cases hcan : canRecomputeNow s pn k cn.height (minHeightOf s) with
        | error e => rw [hcan] at h; cases h
        | ok can =>
          rw [hcan] at h; dsimp only at h
          split at h
          · rename_i hc1
            cases h
            refine ⟨pn, k, cn, can, rfl, hk, rfl, hcan, ?_, rfl⟩
            simpa using hc1
          split at h
          · cases h
          split at h
          · cases h
          rcases hi : (rchInsert p).run.run (withMinHeight s) with ⟨_ | u, s2⟩ <;>
            rw [hi] at h <;> cases h

/-- the `can` flag for a parent created in scope `.bind b` implies `min_height > height of b's change detector`
(the D2 repair), given the scope rule for bind-main parents -/
theorem can_minHeight {s : State} {x : Option Nat} (I : OrderInv s x) {p b : Nat} {br : BindRec} {k : Kind}
    {ch : Int} (hk : (s.nodeD p).kind? = some k) (hnec : s.isNecessary p = true)
    (hsc : (s.nodeD p).createdIn = .bind b) (hb : s.binds[b]? = some br)
    (hcan : canRecomputeNow s (s.nodeD p) k ch (minHeightOf s) = .ok true) :
    (s.nodeD br.lhsChange).height < minHeightOf s ∧ (s.nodeD br.lhsChange).height < ch := by
  have hv : (s.nodeD p).valid = true := by
    cases h : (s.nodeD p).valid with
    | true => rfl
    | false => simp [Node.kind?, h] at hk
  have hkk : k = (s.nodeD p).kind := by
    simp [Node.kind?, hv] at hk; exact hk.symm
  obtain ⟨hlclt, hlt⟩ := I.scope p b br hv hnec hsc hb
  have hsh : scopeHeightOf s (.bind b) = .ok (s.nodeD br.lhsChange).height := by
    simp only [scopeHeightOf, hb, some_of_lt hlclt]
  have generic : (scopeHeightOf s (s.nodeD p).createdIn).map
      (fun sh => decide (ch > sh) && decide (minHeightOf s > sh)) = .ok true →
      (s.nodeD br.lhsChange).height < minHeightOf s ∧ (s.nodeD br.lhsChange).height < ch := by
    intro h
    rw [hsc, hsh] at h
    simp only [Except.map] at h
    injection h with h
    simp only [Bool.and_eq_true, decide_eq_true_eq] at h
    omega
  cases k with
  | const _ => cases hcan
  | var _ => cases hcan
  | fold _ _ _ => cases hcan
  | expert _ => cases hcan
  | map f args =>
    simp only [canRecomputeNow] at hcan
    split at hcan
    · cases hcan
    · exact generic hcan
  | bindLhsChange _ => exact generic hcan
  | mapRef _ _ => exact generic hcan
  | mapWithOld _ _ => exact generic hcan
  | bindMain b' lc' =>
    obtain ⟨hl, hlv, hln, hlsc⟩ := I.mainLc p b' lc' hv hnec hkk.symm
    obtain ⟨-, hlt2⟩ := I.scope lc' b br hlv hln (hlsc.trans hsc) hb
    simp only [canRecomputeNow, some_of_lt hl] at hcan
    injection hcan with hcan
    simp only [Bool.and_eq_true, decide_eq_true_eq] at hcan
    omega

/-- **Ordering lemma, hand-over.** `c` is the running node (it has just changed), `p` one of its parents:
valid, necessary, created in scope `.bind b`.  If `parent_iter_can_recompute_now p c` answers `true` (so that `p`
is recomputed at once, above whatever is queued), then the lhs-change node of `b` is neither queued nor stale,
before and after the call (which only raises the heap's lower bound), and it is neither `c` nor `p`. -/
theorem handover_order {s s' : State} {c p i b : Nat} (I : OrderInv s (some c))
    (hpar : (p, i) ∈ (s.nodeD c).parents)
    (hr : (parentIterCanRecomputeNow p c).run.run s = (.ok true, s'))
    (hnec : s.isNecessary p = true) (hsc : (s.nodeD p).createdIn = .bind b) :
    Settled s b ∧ Settled s' b ∧ ∀ br, s.binds[b]? = some br → br.lhsChange ≠ c ∧ br.lhsChange ≠ p := by
  obtain ⟨pn, k, cn, can, hpn, hk, hcn, hcan, hor, hs'⟩ := picrn_true hr
  have hplt := lt_of_some hpn
  have hpd := nodeD_of_some hpn
  have hv : (s.nodeD p).valid = true := by
    rw [hpd]
    cases h : pn.valid with
    | true => rfl
    | false => simp [Node.kind?, h] at hk
  have key : ∀ br, s.binds[b]? = some br →
      (s.nodeD br.lhsChange).inRch = false ∧ s.isStale br.lhsChange = false ∧
        br.lhsChange ≠ c ∧ br.lhsChange ≠ p := by
    intro br hb
    obtain ⟨-, hlt⟩ := I.scope p b br hv hnec hsc hb
    have hmin : (s.nodeD br.lhsChange).height < minHeightOf s := by
      rcases hor with h | h
      · subst h
        rw [← hpd] at hcan hk
        exact (can_minHeight I hk hnec hsc hb hcan).1
      · rw [← hpd] at h; omega
    have hnq : (s.nodeD br.lhsChange).inRch = false := by
      cases h : (s.nodeD br.lhsChange).inRch with
      | false => rfl
      | true => have := minHeightOf_le I.heap h; omega
    have hne : br.lhsChange ≠ c := by
      intro e
      rw [← e] at hpar
      exact I.lcPar b br p i hb hpar hsc
    refine ⟨hnq, ?_, hne, ?_⟩
    · cases hst : s.isStale br.lhsChange with
      | false => rfl
      | true =>
        rcases I.pending _ (I.scopeNec p b br hv hnec hsc hb) hst with h | h
        · rw [hnq] at h; cases h
        · injection h with h; exact absurd h.symm hne
    · intro e; rw [e] at hlt; omega
  refine ⟨fun br hb => ⟨(key br hb).1, (key br hb).2.1⟩, ?_, fun br hb => (key br hb).2.2⟩
  intro br hb
  have hb0 : s.binds[b]? = some br := by rw [hs'] at hb; exact hb
  obtain ⟨k1, k2, -⟩ := key br hb0
  subst hs'
  exact ⟨k1, k2⟩

/-- **What the D2 guard buys.** If the change detector of scope `b` IS queued, then no valid necessary node of
scope `b` passes `parent_iter_can_recompute_now`: the answer is not `true`. -/
theorem queued_blocks_handover {s s' : State} {x : Option Nat} {c p b : Nat} {br : BindRec} (I : OrderInv s x)
    (hb : s.binds[b]? = some br) (hq : (s.nodeD br.lhsChange).inRch = true)
    (hv : (s.nodeD p).valid = true) (hnec : s.isNecessary p = true) (hsc : (s.nodeD p).createdIn = .bind b) :
    (parentIterCanRecomputeNow p c).run.run s ≠ (.ok true, s') := by
  intro hr
  obtain ⟨pn, k, cn, can, hpn, hk, hcn, hcan, hor, -⟩ := picrn_true hr
  have hplt := lt_of_some hpn
  have hpd := nodeD_of_some hpn
  obtain ⟨-, hlt⟩ := I.scope p b br hv hnec hsc hb
  have hle := minHeightOf_le I.heap hq
  rcases hor with h | h
  · subst h
    rw [← hpd] at hcan hk
    have := (can_minHeight I hk hnec hsc hb hcan).1
    omega
  · rw [← hpd] at h; omega

end IncrVerif.Proofs.BindH
