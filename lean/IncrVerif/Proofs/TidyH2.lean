import IncrVerif.Proofs.MapRef29
import IncrVerif.Proofs.TidyH1
/-!
# At most once per round: the fragment static + `map_ref`
-/
namespace IncrVerif.Proofs.TidyH
open IncrVerif.Engine IncrVerif.Driver IncrVerif.Proofs IncrVerif.Proofs.Step IncrVerif.Proofs.Sched IncrVerif.Proofs.Quiet
open IncrVerif.Proofs.MapRefH

/-- the drain invariant of the fragment static + map_ref, for some ghost values -/
def JR (env : Env) (s : State) (x : Option Nat) : Prop := ∃ g, DInvR env s g x

theorem frA_of_virt {s s' : State} {g g' : Nat → Option Val} (f : Frame (virt g s) (virt g' s')) : FrA s s' where
  stabNum := f.stabNum
  nec m := by have := f.nec m; rwa [virt_isNecessary, virt_isNecessary] at this
  ran m h := by
    have := f.ran m (by rw [virt_nodeD, virtNode_recomputedAt]; exact h)
    rwa [virt_nodeD, virtNode_recomputedAt] at this

theorem onceKitR (env : Env) : OnceKit env (JR env) where
  stamps s x m := by
    rintro ⟨g, D⟩
    have := (D.inv.stamps.node m).1
    rwa [virt_nodeD, virtNode_recomputedAt] at this
  cur s n := by
    rintro ⟨g, D⟩
    have h1 := (D.inv.cur n rfl).1
    have h2 := D.inv.cur_not_yet
    rw [virt_isNecessary] at h1
    rw [virt_nodeD, virtNode_recomputedAt] at h2
    exact ⟨h1, h2⟩
  step s n fuel r s' := by
    rintro ⟨g, D⟩ h
    obtain ⟨g', D', f, hr⟩ := recomputeOneR_inv D h
    rw [virt_nodeD, virtNode_recomputedAt] at hr
    exact ⟨⟨g', D'⟩, frA_of_virt f.frame, hr⟩
  pop s n s1 := by
    rintro ⟨g, D⟩ h
    obtain ⟨hv, F1, K1, hp1⟩ := popR D h
    obtain ⟨I1, f1⟩ := pop_inv D.inv hv
    exact ⟨⟨g, F1, I1, K1, hp1⟩, frA_of_virt f1⟩
  popNone s s1 := by
    rintro ⟨g, D⟩ h
    exact (rchRemoveMin_inv (heapInv_of_virt D.inv.heap) h).1

/-- **T1a, the drain.** A successful `drainHeap` from the drain invariant of the fragment static + map_ref: the nodes
on which `recomputeOne` is invoked are pairwise distinct; each is necessary, had not been recomputed in this round and
is stamped with this round afterwards; each `recomputeOne` happens in a state with the drain invariant. -/
theorem drain_onceR {env : Env} {fuel : Nat} {s s' : State} (D : DrainInvR env s)
    (h : (drainHeap env fuel).run.run s = (.ok (), s')) :
    (drainTrace env fuel s).Nodup ∧ (∀ m, m ∈ drainTrace env fuel s → RanOnce s s' m) ∧
      ∀ p, p ∈ drainSteps env fuel s → (∃ g, DInvR env p.2 g (some p.1)) ∧ FrA s p.2 := by
  have R := drain_onceG (onceKitR env) fuel s s' D h
  rw [← drainSteps_fst]
  exact ⟨R.nodup, R.once, R.steps⟩

section
variable {env : Env} {g : Nat → Option Val} {s : State}

/-- the prefix of `stabilise` (`addNewObservers`, `unlinkDisallowedObservers`) establishes the drain invariant -/
theorem prefix_drainInvR {fuel : Nat} {t1 t2 : State} (Q : QInvR env s g)
    (h1 : (addNewObservers env fuel).run.run { s with status := .stabilising } = (.ok (), t1))
    (h2 : (unlinkDisallowedObservers fuel).run.run t1 = (.ok (), t2)) :
    DInvR env t2 g none ∧ t2.stabNum = s.stabNum ∧ t2.setDuringStab = [] ∧ t2.deadVars = [] ∧
      (∀ (o : Nat) (ob : ObsRec), t2.observers[o]? = some ob → ob.handlers = []) := by
  have Qv := Q.q
  have hs0v : virt g { s with status := .stabilising } = { virt g s with status := .stabilising } := rfl
  have V0 : VFrame s { s with status := .stabilising } := VFrame.of_nodes rfl rfl
  have F0 : RFrag env { s with status := .stabilising } := RFrag.of_vframe V0 Q.frag
  have T0 : Inherit env g { s with status := .stabilising } := Inherit.of_vframe V0 Q.inherit
  have hp0 : ({ s with status := .stabilising } : State).propagateInvalidity = [] := Q.pinv
  have K0 : KInv env g { s with status := .stabilising } := by
    have : ∀ m, ({ s with status := .stabilising } : State).nodeD m = s.nodeD m := fun m => rfl
    refine Q.k.congr (fun m => by simp only [State.isNecessary, this]) (fun m => by rw [this])
      (fun m hd => by rw [← this]; exact hd) (fun m _ _ _ _ _ => ?_)
    exact value_congr env s { s with status := .stabilising } rfl (fun k => rfl) m
  have S0 : SInv (virtEnv env) (virt g { s with status := .stabilising })
      (virt g { s with status := .stabilising }).newObservers
      (virt g { s with status := .stabilising }).disallowedObservers := by
    rw [hs0v]
    exact ⟨Qv.struct.congr (SameG.of_nodes rfl rfl rfl rfl rfl),
      ⟨Qv.obs.inRange, Qv.obs.mem, Qv.obs.created, Qv.obs.newIn, Qv.obs.dis, Qv.obs.disIn, Qv.obs.disNodup⟩,
      Qv.pinv, Qv.handlers⟩
  obtain ⟨hv1, fr1⟩ := Sim.addNewObservers (g := g) env fuel _ (F0.fr hp0) _ t1 h1
  obtain ⟨S1, hn1, hd1, P1, O1, -⟩ := addNewObservers_s S0 hv1
  obtain ⟨K1, hp1, -, V1⟩ := addNewObservers_keepsK' F0 T0 hp0 K0 h1
  have F1 : RFrag env t1 := RFrag.of_vframe V1 F0
  obtain ⟨hv2, fr2⟩ := Sim.unlinkDisallowedObservers (g := g) fuel t1 fr1 _ t2 h2
  obtain ⟨S2, hn2, hd2, P2, O2⟩ := unlinkDisallowedObservers_s S1 hn1 hv2
  have SH2 := unlinkDisallowedObservers_sh h2
  have K2 : KInv env g t2 := K1.of_sh SH2
  have F2 : RFrag env t2 := RFrag.of_vframe SH2.vf F1
  have hp2 : t2.propagateInvalidity = [] := SH2.pinv.trans hp1
  have P := P1.trans P2
  obtain ⟨D2, U2⟩ := drain_start Qv hs0v S2 P
  refine ⟨⟨F2, D2, K2, hp2⟩, ?_, ?_, ?_, ?_⟩
  · have := P.stabNum; rw [hs0v] at this; exact this
  · have := P.setDuringStab; rw [hs0v] at this; exact this.trans Qv.setDuringStab
  · have := P.deadVars; rw [hs0v] at this; exact this.trans Qv.deadVars
  · intro o ob ho
    exact (S2.obs.inRange o ob ho).2

/-- **T1a: at most once per round, and only necessary nodes**, for a `stabilise` from the invariant between API actions
of the fragment static + map_ref.  `t2` is the state in which the drain of this `stabilise` starts, `t3` the one in which
it ends: the nodes on which `recomputeOne` is invoked are pairwise distinct; each is necessary (at the start of the
drain and in the final state), had not run in this round, and carries the stamp of this round in the final state. -/
theorem stabilise_onceR {fuel : Nat} {s' : State} (Q : QInvR env s g)
    (h : (stabilise env fuel).run.run s = (.ok (), s')) :
    ∃ t1 t2 t3, (addNewObservers env fuel).run.run { s with status := .stabilising } = (.ok (), t1) ∧
      (unlinkDisallowedObservers fuel).run.run t1 = (.ok (), t2) ∧
      (drainHeap env fuel).run.run t2 = (.ok (), t3) ∧ (stabiliseEnd env fuel).run.run t3 = (.ok (), s') ∧
      DrainInvR env t2 ∧ (drainTrace env fuel t2).Nodup ∧
      ∀ m, m ∈ drainTrace env fuel t2 → t2.isNecessary m = true ∧ s'.isNecessary m = true ∧
        (t2.nodeD m).recomputedAt < s.stabNum ∧ (s'.nodeD m).recomputedAt = s.stabNum := by
  obtain ⟨t1, t2, t3, -, h1, h2, h3, h4⟩ := stabilise_split h
  obtain ⟨D2, hst, hsd, hdv, hobs⟩ := prefix_drainInvR Q h1 h2
  have R := drain_onceG (onceKitR env) fuel t2 t3 ⟨g, D2⟩ h3
  have hk := R.fr
  obtain ⟨g3, D3, -, f3⟩ := drainHeapR_inv fuel t2 t3 g D2 h3
  have c3 := f3.calm
  have E := stabiliseEnd_fin (env := env) (fuel := fuel) (s := t3) (s' := s')
    (by
      have := c3.setDuringStab
      have e1 : (virt g3 t3).setDuringStab = t3.setDuringStab := rfl
      rw [← e1, this]; exact hsd)
    (by
      have := c3.deadVars
      have e1 : (virt g3 t3).deadVars = t3.deadVars := rfl
      rw [← e1, this]; exact hdv)
    (by
      intro o ob ho
      have hkd := f3.keyD
      simp only [KeyD, stateKeyD, Prod.mk.injEq] at hkd
      have e1 : (virt g3 t3).observers = t3.observers := rfl
      rw [← e1, hkd.1] at ho
      exact hobs o ob ho) h4
  refine ⟨t1, t2, t3, h1, h2, h3, h4, ⟨g, D2⟩, ?_, ?_⟩
  · rw [← drainSteps_fst]; exact R.nodup
  · intro m hm
    rw [← drainSteps_fst] at hm
    obtain ⟨a1, a2, a3⟩ := R.once m hm
    obtain ⟨b, hb⟩ := E.node m
    refine ⟨a1, ?_, by rw [← hst]; exact a2, ?_⟩
    · have : s'.isNecessary m = t3.isNecessary m := by simp only [State.isNecessary, hb]; rfl
      rw [this, hk.nec]; exact a1
    · rw [hb, ← hst]; exact a3

end
end IncrVerif.Proofs.TidyH
