import IncrVerif.Proofs.Quiet28
import IncrVerif.Proofs.MapRef17
import IncrVerif.Props.C08
/-!
# Effects, part 1: definitions for map functions with WRITE EFFECTS (C08 over whole histories)

* `noEff env`: the environment with the function effects and the handler effects erased; every engine function except
  the `map` case of `recomputeOne` and the handler loop of `stabiliseEnd` is the same program under `env` and `noEff env`.
* `effWrite`, `WOnly env`: the fragment — function effects are the five write operations.
* `effStep`/`effSteps`: closed form of running write effects while `status = stabilising`.
* `SameP s s'`: the states agree except for `vars[·].pending`, `setDuringStab` and `log`.
* `Pend t W s`: ghost description of the deferred writes `W` (program order) issued since state `t`.
-/
namespace IncrVerif.Proofs.EffH
open IncrVerif.Engine IncrVerif.Driver IncrVerif.Proofs IncrVerif.Proofs.Step IncrVerif.Proofs.Sched
open IncrVerif.Proofs.Quiet

/-! ## erasing function effects -/

/-- the environment whose node functions and update handlers have no effects (values, cutoffs, … unchanged) -/
def noEff (env : Env) : Env := { env with fnEff := fun _ _ => [], handler := fun _ _ => [] }

theorem noEff_fn (env : Env) : (noEff env).fn = env.fn := rfl
theorem noEff_fnEff (env : Env) (f : Nat) (vals : List Val) : (noEff env).fnEff f vals = [] := rfl
theorem noEff_handler (env : Env) (hid : Nat) (u : Update) : (noEff env).handler hid u = [] := rfl

theorem shouldCutoff_noEff (env : Env) (n : Nat) (o v : Val) :
    shouldCutoff (noEff env) n o v = shouldCutoff env n o v := rfl

theorem edgeOnChange_noEff (env : Env) (e : Nat) (edge : ExpertEdge) :
    edgeOnChange (noEff env) e edge = edgeOnChange env e edge := rfl

theorem runEdgeCallback_noEff (env : Env) (e i : Nat) :
    runEdgeCallback (noEff env) e i = runEdgeCallback env e i := rfl

theorem valueUnwrap_noEff (env : Env) (n : Nat) (site : String) :
    valueUnwrap (noEff env) n site = valueUnwrap env n site := rfl

theorem value_noEff (env : Env) (s : State) (n : Nat) : s.value (noEff env) n = s.value env n := rfl

theorem valuesOf_noEff (env : Env) (s : State) (args : List Nat) :
    valuesOf (noEff env) s args = valuesOf env s args := by
  induction args with
  | nil => rfl
  | cons a as ih => simp only [valuesOf, ih, value_noEff]

theorem tryGetValue_noEff (env : Env) (s : State) (o : Nat) :
    s.tryGetValue (noEff env) o = s.tryGetValue env o := rfl

theorem eval_noEff (env : Env) (s : State) (k n : Nat) : eval (noEff env) s k n = eval env s k n := by
  induction k generalizing n with
  | zero => rfl
  | succ k ih =>
    unfold Sched.eval
    have : (fun a => Sched.eval (noEff env) s k a) = (fun a => Sched.eval env s k a) := funext ih
    rw [this]
    rfl

theorem childChanged_noEff (env : Env) (fuel p c ci : Nat) (o : Option Val) :
    childChanged (noEff env) fuel p c ci o = childChanged env fuel p c ci o := by
  induction fuel generalizing p c ci o with
  | zero => rfl
  | succ fuel ih =>
    unfold childChanged
    simp only [ih, runEdgeCallback_noEff, shouldCutoff_noEff, valueUnwrap_noEff]
    rfl

theorem mcvm_noEff (env : Env) (fuel n : Nat) (o : Option Val) (d b : Bool) :
    maybeChangeValueManual (noEff env) fuel n o d b = maybeChangeValueManual env fuel n o d b := by
  unfold maybeChangeValueManual
  simp only [childChanged_noEff]

theorem mcv_noEff (env : Env) (fuel n : Nat) (v : Val) :
    maybeChangeValue (noEff env) fuel n v = maybeChangeValue env fuel n v := by
  unfold maybeChangeValue
  simp only [mcvm_noEff, shouldCutoff_noEff]

theorem bn_ap_noEff (env : Env) (fuel : Nat) :
    (∀ n, becameNecessary (noEff env) fuel n = becameNecessary env fuel n) ∧
    (∀ c i p, addParentWithoutAdjustingHeights (noEff env) fuel c i p =
      addParentWithoutAdjustingHeights env fuel c i p) := by
  induction fuel with
  | zero =>
    exact ⟨fun n => by unfold becameNecessary; rfl,
      fun c i p => by unfold addParentWithoutAdjustingHeights; rfl⟩
  | succ fuel ih =>
    refine ⟨fun n => ?_, fun c i p => ?_⟩
    · unfold becameNecessary
      simp only [ih.2]
    · unfold addParentWithoutAdjustingHeights
      simp only [ih.1, runEdgeCallback_noEff]

theorem becameNecessaryPropagate_noEff (env : Env) (fuel n : Nat) :
    becameNecessaryPropagate (noEff env) fuel n = becameNecessaryPropagate env fuel n := by
  unfold becameNecessaryPropagate; rw [(bn_ap_noEff env fuel).1]

theorem addNewObservers_noEff (env : Env) (fuel : Nat) :
    addNewObservers (noEff env) fuel = addNewObservers env fuel := by
  unfold addNewObservers
  simp only [becameNecessaryPropagate_noEff]

theorem elabInstrM_noEff (env : Env) (loc : List Nat) (v : Val) (i : Instr) :
    elabInstrM (noEff env) loc v i = elabInstrM env loc v i := by
  cases i <;> rfl

/-- every action other than `stabilise` and `addDep` is the same program under `env` and `noEff env` -/
theorem stepAction_noEff (env : Env) (a : Action) (tk : Array Nat) (h1 : a ≠ .stabilise)
    (h2 : ∀ e c cb, a ≠ .addDep e c cb) :
    stepAction (noEff env) a tk = stepAction env a tk := by
  cases a
  case stabilise => exact absurd rfl h1
  case addDep e c cb => exact absurd rfl (h2 e c cb)
  case create i =>
    unfold stepAction
    simp only [elabInstrM_noEff]
  all_goals rfl

/-! ## the fragment: write effects -/

/-- the write operations among the effects, as "cell, new value from old value" -/
def effWrite : Effect → Option (Nat × (Val → Val))
  | .setVar v x => some (v, fun _ => x)
  | .modifyVar v d => some (v, fun y => y.addInt d 7)
  | .updateVar v d => some (v, fun y => y.addInt d 7)
  | .replaceVar v x => some (v, fun _ => x)
  | .replaceWithVar v d => some (v, fun y => y.addInt d 7)
  | _ => none

/-- what `replace`/`replace_with` log: the value they return -/
def effNote (e : Effect) (old : Val) : List Event :=
  match e with
  | .replaceVar v _ => [.note s!"replace v{v} -> {old.render}"]
  | .replaceWithVar v _ => [.note s!"replacewith v{v} -> {old.render}"]
  | _ => []

/-- FRAGMENT: the effects of node functions are `set`/`modify`/`update`/`replace`/`replace_with` only -/
def WOnly (env : Env) : Prop := ∀ f vals e, e ∈ env.fnEff f vals → (effWrite e).isSome = true

/-- the writes of a list of effects, in program order -/
def writesOf (es : List Effect) : List (Nat × (Val → Val)) := es.filterMap effWrite

/-- one write effect executed while `status = stabilising` (closed form) -/
def effStep (e : Effect) (s : State) : State :=
  match effWrite e with
  | none => s
  | some (v, f) =>
    match s.vars[v]? with
    | none => s
    | some vc => logged (effNote e (vc.pending.getD vc.value)) (deferred v vc f s)

def effSteps (es : List Effect) (s : State) : State := es.foldl (fun s e => effStep e s) s

theorem effSteps_nil (s : State) : effSteps [] s = s := rfl
theorem effSteps_cons (e : Effect) (es : List Effect) (s : State) :
    effSteps (e :: es) s = effSteps es (effStep e s) := rfl
theorem effSteps_append (es fs : List Effect) (s : State) :
    effSteps (es ++ fs) s = effSteps fs (effSteps es s) := by
  simp only [effSteps, List.foldl_append]

/-! ## states that agree up to deferred writes -/

/-- two cells that differ at most in `pending` -/
def CellP (a b : VarCell) : Prop := b = { a with pending := b.pending }

theorem CellP.refl (a : VarCell) : CellP a a := rfl
theorem CellP.trans {a b c : VarCell} (h1 : CellP a b) (h2 : CellP b c) : CellP a c := by
  unfold CellP at *; rw [h2, h1]
theorem CellP.symm {a b : VarCell} (h : CellP a b) : CellP b a := by
  unfold CellP at *; rw [h]
theorem CellP.value {a b : VarCell} (h : CellP a b) : b.value = a.value := by rw [h]
theorem CellP.setAt {a b : VarCell} (h : CellP a b) : b.setAt = a.setAt := by rw [h]
theorem CellP.node {a b : VarCell} (h : CellP a b) : b.node = a.node := by rw [h]
theorem CellP.linked {a b : VarCell} (h : CellP a b) : b.linked = a.linked := by rw [h]
theorem CellP.handles {a b : VarCell} (h : CellP a b) : b.handles = a.handles := by rw [h]

/-- `s'` is `s` up to `vars[·].pending`, `setDuringStab` and `log` -/
structure SameP (s s' : State) : Prop where
  eq : s' = { s with vars := s'.vars, setDuringStab := s'.setDuringStab, log := s'.log }
  size : s'.vars.size = s.vars.size
  cell : ∀ (v : Nat) (a : VarCell), s.vars[v]? = some a → ∃ b, s'.vars[v]? = some b ∧ CellP a b

/-- every cell: nothing pending, the handle is alive -/
def CellsOK (s : State) : Prop :=
  ∀ (v : Nat) (c : VarCell), s.vars[v]? = some c → c.pending = none ∧ c.handles ≠ 0

/-- every cell has a live handle (no `dropVar` in the fragment) -/
def HandlesOK (s : State) : Prop := ∀ (v : Nat) (c : VarCell), s.vars[v]? = some c → c.handles ≠ 0

/-! ## ghost: the deferred writes issued so far, in program order -/

abbrev Writes := List (Nat × (Val → Val))

/-- the writes to cell `v`, in program order -/
def writesTo (v : Nat) (W : Writes) : List (Val → Val) := (W.filter (fun w => w.1 == v)).map (·.2)

/-- program-order composition -/
def foldW (fs : List (Val → Val)) (x : Val) : Val := fs.foldl (fun a f => f a) x

/-- a cell after the deferred writes `fs` -/
def cellW (fs : List (Val → Val)) (c : VarCell) : VarCell :=
  match fs with
  | [] => c
  | _ :: _ => { c with pending := some (foldW fs (c.pending.getD c.value)) }

/-- `s` is a state of the stabilisation that started (its drain) in `t`, after the deferred writes `W`:
cell `v` is `t`'s cell with `pending` = the program-order fold of the writes to `v` over its value, and the stack
`setDuringStab` holds exactly the written cells -/
structure Pend (t : State) (W : Writes) (s : State) : Prop where
  size : s.vars.size = t.vars.size
  /-- nothing was pending when the drain started -/
  clean : ∀ (v : Nat) (c : VarCell), t.vars[v]? = some c → c.pending = none
  cell : ∀ (v : Nat) (c : VarCell), t.vars[v]? = some c → s.vars[v]? = some (cellW (writesTo v W) c)
  mem : ∀ v, v ∈ s.setDuringStab ↔ writesTo v W ≠ []

/-- the invariant between API actions for programs whose functions have write effects -/
structure EInv (env : Env) (s : State) : Prop where
  q : QInv (noEff env) s
  cells : CellsOK s

end IncrVerif.Proofs.EffH
