import IncrVerif.Proofs.PerKeyH98
import IncrVerif.Proofs.ExpertH44
/-!
# Per-key operators, API actions part 8: the virtual state after `create (.perKey ..)`

`V (pkCreated fam a0 s)` is `V s` plus four never-computed static nodes:
`N : map fnIdent [a0]`, `N+1 : fold xAsm (asmInit [(0,0)]) [N+2]`, `N+2 : map fLc [N]`, `N+3 : map fnIdent [N+1]`.
-/
namespace IncrVerif.Proofs.PerKeyH
open IncrVerif.Engine IncrVerif.Driver IncrVerif.Proofs IncrVerif.Proofs.Step IncrVerif.Proofs.Sched
open IncrVerif.Proofs.ExpertH IncrVerif.Proofs.EffH IncrVerif.Proofs.DriverH IncrVerif.Proofs.ExpertH.QR

/-! ## old nodes keep their virtual node -/

theorem xRec_pkc_lt (fam : FamCut) (a0 : Nat) (s : State) {e : Nat} (h : e < s.experts.size) :
    xRec (pkCreated fam a0 s).experts e = xRec s.experts e := by
  unfold xRec; rw [pkc_expert_lt fam a0 s h]

theorem pkRec_pkc_lt (fam : FamCut) (a0 : Nat) (s : State) {op : Nat} (h : op < s.perkeys.size) :
    pkRec (pkCreated fam a0 s) op = pkRec s op := by
  unfold pkRec
  rw [pkc_perkeys, Array.getElem?_push, if_neg (by omega)]

/-- an expert kind names an existing record whose operator exists -/
def KindIn (s : State) (k : Kind) : Prop :=
  ∀ e, k = .expert e → e < s.experts.size ∧ ∀ op o, (xRec s.experts e).pk = some (op, o) → op < s.perkeys.size

theorem vNode_pkc_old (fam : FamCut) (a0 : Nat) (s : State) (nd : Node) (h : KindIn s nd.kind) :
    vNode (pkCreated fam a0 s) nd = vNode s nd := by
  rcases nd with ⟨k⟩
  cases k <;> try rfl
  rename_i e
  obtain ⟨he, hop⟩ := h e rfl
  simp only [vNode, vKind, forced, xRec_pkc_lt fam a0 s he]
  cases hpk : (xRec s.experts e).pk with
  | none => rfl
  | some p =>
    obtain ⟨op, o⟩ := p
    have := hop op o hpk
    cases o <;> simp only [pkRec_pkc_lt fam a0 s this] <;> rfl

theorem kindIn_of {env : Env} {s : State} (F : PFrag env s) (R : RecsOK s) {m : Nat} (hm : m < s.nodes.size) :
    KindIn s (s.nodeD m).kind := by
  intro e hk
  obtain ⟨er, he, -⟩ := F.xrec m e hm hk
  have hlt := (Array.getElem?_eq_some_iff.1 he).1
  refine ⟨hlt, fun op o hpk => ?_⟩
  rw [xRec_some he] at hpk
  obtain ⟨op', pr, hpr, h⟩ := R e er he
  have hlt' := (Array.getElem?_eq_some_iff.1 hpr).1
  rcases h with ⟨h1, -⟩ | ⟨key, d, h1, -⟩
  · rw [hpk] at h1; cases h1; exact hlt'
  · rw [hpk] at h1; cases h1; exact hlt'

theorem map_vNode_pkc {env : Env} (fam : FamCut) (a0 : Nat) {s : State} (F : PFrag env s) (R : RecsOK s) :
    s.nodes.map (vNode (pkCreated fam a0 s)) = s.nodes.map (vNode s) := by
  apply Array.map_congr_left
  intro nd hnd
  obtain ⟨i, hi, rfl⟩ := Array.mem_iff_getElem.1 hnd
  have hD : s.nodeD i = s.nodes[i] := by simp [State.nodeD, hi]
  rw [← hD]
  exact vNode_pkc_old fam a0 s _ (kindIn_of F R hi)

/-! ## the new virtual nodes -/

theorem vNode_pkc_0 (fam : FamCut) (a0 : Nat) (s : State) :
    vNode (pkCreated fam a0 s) { kind := .map fnIdent [a0], createdIn := .top } = newNode (.map fnIdent [a0]) := by
  simp only [vNode, vKind, forced, newNode]
  rw [if_neg (by decide)]
  rfl

theorem vNode_pkc_1 (fam : FamCut) (a0 : Nat) (s : State) :
    vNode (pkCreated fam a0 s) { kind := .expert s.experts.size, createdIn := .top } =
      newNode (.fold xAsm (asmInit [(0, 0)]) [s.nodes.size + 2]) := by
  have h1 : xRec (pkCreated fam a0 s).experts s.experts.size = pkNewRec s := xRec_some (pkc_expert_new fam a0 s)
  have h2 : pkRec (pkCreated fam a0 s) s.perkeys.size = pkNewOp fam s := by
    unfold pkRec; rw [pkc_perkey_new]; rfl
  simp only [vNode, vKind, forced, h1, newNode]
  simp only [pkNewRec, h2, pkNewOp, tagsOf, List.map, List.find?]
  rfl

theorem vNode_pkc_2 (fam : FamCut) (a0 : Nat) (s : State) :
    vNode (pkCreated fam a0 s) { kind := .map (fnPerKey + s.perkeys.size) [s.nodes.size], createdIn := .top } =
      newNode (.map fLc [s.nodes.size]) := by
  simp only [vNode, vKind, forced, newNode]
  rw [if_pos (Nat.le_add_right _ _)]
  rfl

theorem vNode_pkc_3 (fam : FamCut) (a0 : Nat) (s : State) :
    vNode (pkCreated fam a0 s) { kind := .map fnIdent [s.nodes.size + 1], createdIn := .top } =
      newNode (.map fnIdent [s.nodes.size + 1]) := by
  simp only [vNode, vKind, forced, newNode]
  rw [if_neg (by decide)]
  rfl

theorem V_pkc_nodes {env : Env} (fam : FamCut) (a0 : Nat) {s : State} (F : PFrag env s) (R : RecsOK s) :
    (V (pkCreated fam a0 s)).nodes =
      ((((V s).nodes.push (newNode (.map fnIdent [a0]))).push
        (newNode (.fold xAsm (asmInit [(0, 0)]) [s.nodes.size + 2]))).push
        (newNode (.map fLc [s.nodes.size]))).push (newNode (.map fnIdent [s.nodes.size + 1])) := by
  show (pkCreated fam a0 s).nodes.map _ = _
  rw [pkc_nodes, Array.map_push, Array.map_push, Array.map_push, Array.map_push, map_vNode_pkc fam a0 F R,
    vNode_pkc_0, vNode_pkc_1, vNode_pkc_2, vNode_pkc_3]
  rfl

end IncrVerif.Proofs.PerKeyH
