import IncrVerif.Proofs.PerKeyH10
import IncrVerif.Proofs.PerKeyH3
/-!
# Node creation between two effects keeps `DriverH.Mid`, part 3: template elaboration (MC4)

`elabTemplateBase tm lhsVal [p]` for a template of the fragment (`TemplOK` of `PK2.lean`), from a state `t` with `Mid E t`:
exactly one static top-level node per instruction is appended, the `j`-th one has the kind
`instrKind t.top (p :: List.range' t.nodes.size j) lhsVal i`, everything else is untouched, `Mid` is kept.
-/
namespace IncrVerif.Proofs.PerKeyH
open IncrVerif.Engine IncrVerif.Driver IncrVerif.Proofs IncrVerif.Proofs.Step IncrVerif.Proofs.Sched
open IncrVerif.Proofs.ExpertH IncrVerif.Proofs.EffH IncrVerif.Proofs.DriverH

/-! ## operands -/

/-- operands of the fragment: locals and outer names -/
def OpndP : Opnd → Prop
  | .outer _ => True
  | .loc _ => True
  | _ => False

theorem OpndOK.p {j : Nat} {o : Opnd} (h : OpndOK j o) : OpndP o := by
  cases o <;> first | trivial | exact h.elim

theorem resolve_inv {loc : List Nat} {o : Opnd} {t t' : State} {c : Nat} (ho : OpndP o)
    (h : (resolveOpnd loc o).run.run t = (.ok c, t')) : t' = t ∧ resP t.top loc o = some c := by
  cases o with
  | outer k =>
    unfold resolveOpnd at h
    simp only at h
    rw [run_bind_get] at h
    cases hm : t.top[k]? with
    | some m =>
      rw [hm] at h
      obtain ⟨e1, e2⟩ := pure_ok_inv h
      rw [e1]; exact ⟨e2, hm⟩
    | none => rw [hm] at h; cases h
  | loc i =>
    unfold resolveOpnd at h
    simp only at h
    cases hm : loc[i]? with
    | some m =>
      rw [hm] at h
      obtain ⟨e1, e2⟩ := pure_ok_inv h
      rw [e1]; exact ⟨e2, hm⟩
    | none => rw [hm] at h; cases h
  | abs _ => exact ho.elim
  | slot _ => exact ho.elim

theorem mapM_resolve_inv {loc : List Nat} {t : State} :
    ∀ (l : List Opnd) (r : List Nat) (t' : State), (∀ a, a ∈ l → OpndP a) →
      (l.mapM (fun o => resolveOpnd loc o)).run.run t = (.ok r, t') →
      t' = t ∧ l.mapM (resP t.top loc) = some r ∧ r.length = l.length ∧
        ∀ c, c ∈ r → ∃ a, a ∈ l ∧ resP t.top loc a = some c := by
  intro l
  induction l with
  | nil =>
    intro r t' _ h
    rw [List.mapM_nil] at h
    obtain ⟨e1, e2⟩ := pure_ok_inv h
    rw [e1]; exact ⟨e2, rfl, rfl, fun c hc => by cases hc⟩
  | cons a l ih =>
    intro r t' hl h
    rw [List.mapM_cons] at h
    obtain ⟨x, t1, h1, h2⟩ := bind_ok_inv h
    obtain ⟨et, hk⟩ := resolve_inv (hl a (List.mem_cons_self ..)) h1
    rw [et] at h2
    obtain ⟨xs, t2, h3, h4⟩ := bind_ok_inv h2
    obtain ⟨et2, hxs, hlen, hmem⟩ := ih xs t2 (fun y hy => hl y (List.mem_cons_of_mem _ hy)) h3
    obtain ⟨e1, e2⟩ := pure_ok_inv h4
    rw [e1, e2]
    refine ⟨et2, ?_, by simp [hlen], fun c hc => ?_⟩
    · rw [List.mapM_cons, hk, hxs]; rfl
    · rcases List.mem_cons.1 hc with e | hc
      · rw [e]; exact ⟨a, List.mem_cons_self .., hk⟩
      · obtain ⟨b, hb, hb2⟩ := hmem c hc
        exact ⟨b, List.mem_cons_of_mem _ hb, hb2⟩

theorem mem_templOuter {tm : Template} {k : Nat}
    (h : Opnd.outer k ∈ tm.ret :: tm.instrs.flatMap instrOpnds) : k ∈ templOuter tm := by
  unfold templOuter
  exact List.mem_filterMap.2 ⟨.outer k, h, rfl⟩

theorem mem_templOuter_instr {tm : Template} {k : Nat} {i : Instr} (hi : i ∈ tm.instrs)
    (h : Opnd.outer k ∈ instrOpnds i) : k ∈ templOuter tm :=
  mem_templOuter (List.mem_cons_of_mem _ (List.mem_flatMap.2 ⟨i, hi, h⟩))

/-! ## one instruction -/

/-- **one instruction of a template of the fragment**: one static top-level node, of kind `instrKind …` -/
theorem elabInstr_inv {E E' : Env} {t1 t2 : State} {loc : List Nat} {lhsVal : Val} {i : Instr} {ro : Option Nat}
    (Md : Mid E t1) (hi : TInstrOK E' i)
    (hpure : ∀ f, (∀ vals, E'.fnEff f vals = []) → ∀ vals, E.fnEff f vals = [])
    (hop : ∀ o, o ∈ instrOpnds i → OpndP o)
    (hlt : ∀ o, o ∈ instrOpnds i → ∀ c, resP t1.top loc o = some c → c < t1.nodes.size)
    (h : (elabInstr loc lhsVal i).run.run t1 = (.ok ro, t2)) :
    ∃ k, instrKind t1.top loc lhsVal i = some k ∧ ro = some t1.nodes.size ∧ t2 = mkNode k t1 ∧ Mid E t2 := by
  have hsc := Md.scope
  cases i with
  | const w =>
    unfold elabInstr at h
    rw [run_bind_get] at h
    simp only [hsc] at h
    obtain ⟨n, h1, e⟩ := QR.map_ok_inv h
    obtain ⟨en, et, M2⟩ := createNode_mid (kind := .const w) Md trivial (fun _ h => by cases h)
      (fun _ h => by cases h) (fun c hc => by cases hc) h1
    exact ⟨.const w, rfl, by rw [e, en], et, M2⟩
  | lhsConst =>
    unfold elabInstr at h
    rw [run_bind_get] at h
    simp only [hsc] at h
    obtain ⟨n, h1, e⟩ := QR.map_ok_inv h
    obtain ⟨en, et, M2⟩ := createNode_mid (kind := .const lhsVal) Md trivial (fun _ h => by cases h)
      (fun _ h => by cases h) (fun c hc => by cases hc) h1
    exact ⟨.const lhsVal, rfl, by rw [e, en], et, M2⟩
  | map f args =>
    unfold elabInstr at h
    rw [run_bind_get] at h
    simp only [hsc] at h
    obtain ⟨as, t3, h1, h2⟩ := bind_ok_inv h
    obtain ⟨et, has, -, hmem⟩ := mapM_resolve_inv args as t3 hop h1
    rw [et] at h2
    obtain ⟨n, h3, e⟩ := QR.map_ok_inv h2
    have hf : f < fnZip := hi.1
    have hXK : XKind E (.map f as) :=
      ⟨Nat.lt_trans hf (by decide), fun _ => hpure f hi.2⟩
    obtain ⟨en, et2, M2⟩ := createNode_mid (kind := .map f as) Md hXK (fun _ h => by cases h)
      (fun _ h => by cases h)
      (fun c hc => by
        obtain ⟨a, ha, hr⟩ := hmem c hc
        exact hlt a ha c hr) h3
    refine ⟨.map f as, ?_, by rw [e, en], et2, M2⟩
    simp only [instrKind, has, Option.map_some]
  | fold f init cs =>
    unfold elabInstr at h
    rw [run_bind_get] at h
    simp only [hsc] at h
    obtain ⟨as, t3, h1, h2⟩ := bind_ok_inv h
    obtain ⟨et, has, hlen, hmem⟩ := mapM_resolve_inv cs as t3 hop h1
    rw [et] at h2
    have hcs : cs ≠ [] := hi.2
    have hne : as.isEmpty = false := by
      cases as with
      | nil => cases cs with
        | nil => exact absurd rfl hcs
        | cons _ _ => simp at hlen
      | cons _ _ => rfl
    have hne' : cs.isEmpty = false := by
      cases cs with
      | nil => exact absurd rfl hcs
      | cons _ _ => rfl
    rw [hne] at h2
    simp only [Bool.false_eq_true, if_false] at h2
    obtain ⟨n, h3, e⟩ := QR.map_ok_inv h2
    have hXK : XKind E (.fold f init as) := hi.1
    obtain ⟨en, et2, M2⟩ := createNode_mid (kind := .fold f init as) Md hXK (fun _ h => by cases h)
      (fun _ h => by cases h)
      (fun c hc => by
        obtain ⟨a, ha, hr⟩ := hmem c hc
        exact hlt a ha c hr) h3
    refine ⟨.fold f init as, ?_, by rw [e, en], et2, M2⟩
    simp only [instrKind, hne', Bool.false_eq_true, if_false, has, Option.map_some]
  | _ => exact hi.elim

/-! ## the loop -/

/-- the state `t1` after `j` instructions of the template `tm`, elaborated from `t` with first local `p`
(`loc`: the locals so far) -/
structure TI (E : Env) (t : State) (p : Nat) (lhsVal : Val) (tm : Template) (j : Nat) (loc : List Nat)
    (t1 : State) : Prop where
  mid : Mid E t1
  size : t1.nodes.size = t.nodes.size + j
  loc : loc = p :: List.range' t.nodes.size j
  /-- only `nodes` and `counters` change -/
  rest : ({ t1 with nodes := t.nodes, counters := t.counters } : State) = t
  old : ∀ m, m < t.nodes.size → t1.nodeD m = t.nodeD m
  new : ∀ j' i, j' < j → tm.instrs[j']? = some i →
    ∃ k, instrKind t.top (p :: List.range' t.nodes.size j') lhsVal i = some k ∧
      t1.nodeD (t.nodes.size + j') = { kind := k, createdIn := .top }

namespace TI
variable {E : Env} {t t1 : State} {p : Nat} {lhsVal : Val} {tm : Template} {j : Nat} {loc : List Nat}

theorem experts (L : TI E t p lhsVal tm j loc t1) : t1.experts = t.experts := by
  have h := congrArg State.experts L.rest; exact h
theorem nextDep (L : TI E t p lhsVal tm j loc t1) : t1.nextDep = t.nextDep := by
  have h := congrArg State.nextDep L.rest; exact h
theorem top (L : TI E t p lhsVal tm j loc t1) : t1.top = t.top := by
  have h := congrArg State.top L.rest; exact h
theorem perkeys (L : TI E t p lhsVal tm j loc t1) : t1.perkeys = t.perkeys := by
  have h := congrArg State.perkeys L.rest; exact h
theorem rch (L : TI E t p lhsVal tm j loc t1) : t1.rch = t.rch := by
  have h := congrArg State.rch L.rest; exact h
theorem ahh (L : TI E t p lhsVal tm j loc t1) : t1.ahh = t.ahh := by
  have h := congrArg State.ahh L.rest; exact h
theorem log (L : TI E t p lhsVal tm j loc t1) : t1.log = t.log := by
  have h := congrArg State.log L.rest; exact h
theorem slots (L : TI E t p lhsVal tm j loc t1) : t1.slots = t.slots := by
  have h := congrArg State.slots L.rest; exact h
theorem vars (L : TI E t p lhsVal tm j loc t1) : t1.vars = t.vars := by
  have h := congrArg State.vars L.rest; exact h
theorem eKey (L : TI E t p lhsVal tm j loc t1) : eKey t1 = eKey t := by
  have h := congrArg DriverH.eKey L.rest; exact h

theorem refl (Md : Mid E t) : TI E t p lhsVal tm 0 [p] t :=
  ⟨Md, rfl, rfl, rfl, fun _ _ => rfl, fun _ _ h => absurd h (Nat.not_lt_zero _)⟩

/-- a local is an existing node -/
theorem loc_lt (L : TI E t p lhsVal tm j loc t1) (hp : p < t.nodes.size) {c : Nat} (hc : c ∈ loc) :
    c < t1.nodes.size := by
  rw [L.loc] at hc
  rw [L.size]
  rcases List.mem_cons.1 hc with e | hc
  · omega
  · have := List.mem_range'_1.1 hc; omega

/-- one iteration -/
theorem step (L : TI E t p lhsVal tm j loc t1) {E' : Env} (hT : TemplOK E' tm)
    (hpure : ∀ f, (∀ vals, E'.fnEff f vals = []) → ∀ vals, E.fnEff f vals = [])
    (hout : ∀ k, k ∈ templOuter tm → ∀ o, t.top[k]? = some o → o < t.nodes.size)
    (hp : p < t.nodes.size) {i : Instr} (hj : tm.instrs[j]? = some i) {ro : Option Nat} {t2 : State}
    (h : (elabInstr loc lhsVal i).run.run t1 = (.ok ro, t2)) :
    ro = some t1.nodes.size ∧ TI E t p lhsVal tm (j + 1) (loc ++ [t1.nodes.size]) t2 := by
  have him : i ∈ tm.instrs := List.mem_of_getElem? hj
  have hlt : ∀ o, o ∈ instrOpnds i → ∀ c, resP t1.top loc o = some c → c < t1.nodes.size := by
    intro o ho c hr
    cases o with
    | outer k =>
      have : t1.top[k]? = some c := hr
      rw [L.top] at this
      have := hout k (mem_templOuter_instr him ho) c this
      rw [L.size]; omega
    | loc i' =>
      have : loc[i']? = some c := hr
      exact L.loc_lt hp (List.mem_of_getElem? this)
    | abs _ => cases hr
    | slot _ => cases hr
  obtain ⟨k, hk, e, et, M2⟩ := elabInstr_inv L.mid (hT.instr i him) hpure
    (fun o ho => (hT.opnd j i hj o ho).p) hlt h
  refine ⟨e, ?_⟩
  subst et
  refine ⟨M2, by rw [mkNode_size, L.size]; omega, ?_, L.rest, fun m hm => ?_, fun j' i' hj' hi' => ?_⟩
  · rw [L.loc, L.size, List.range'_1_concat]; rfl
  · rw [mkNode_nodeD_lt k t1 (by rw [L.size]; omega)]; exact L.old m hm
  · by_cases hjj : j' < j
    · obtain ⟨k', h1, h2⟩ := L.new j' i' hjj hi'
      refine ⟨k', h1, ?_⟩
      rw [mkNode_nodeD_lt k t1 (by rw [L.size]; omega)]; exact h2
    · have ej : j' = j := by omega
      subst ej
      rw [hj] at hi'
      cases hi'
      refine ⟨k, ?_, ?_⟩
      · rw [← L.top, ← L.loc]; exact hk
      · rw [← L.size]; exact mkNode_nodeD_new k t1

end TI

/-- **MC4**: `elabTemplateBase` of a template of the fragment between two effects -/
theorem elabTemplateBase_ti {E E' : Env} {t t' : State} {tm : Template} {lhsVal : Val} {p m : Nat}
    (Md : Mid E t) (hT : TemplOK E' tm)
    (hpure : ∀ f, (∀ vals, E'.fnEff f vals = []) → ∀ vals, E.fnEff f vals = [])
    (hout : ∀ k, k ∈ templOuter tm → ∀ o, t.top[k]? = some o → o < t.nodes.size)
    (hp : p < t.nodes.size)
    (h : (elabTemplateBase tm lhsVal [p]).run.run t = (.ok m, t')) :
    TI E t p lhsVal tm tm.instrs.length (p :: List.range' t.nodes.size tm.instrs.length) t' ∧
      resP t.top (p :: List.range' t.nodes.size tm.instrs.length) tm.ret = some m := by
  unfold elabTemplateBase at h
  obtain ⟨loc, t1, h1, h2⟩ := bind_ok_inv h
  have hloop := QR.forIn_ok_inv _ tm.instrs (fun j loc t1 => TI E t p lhsVal tm j loc t1) ?_ tm.instrs 0 [p] t
    loc t1 rfl (Nat.zero_le _) (TI.refl Md) h1
  · have hloop : TI E t p lhsVal tm tm.instrs.length loc t1 := hloop
    obtain ⟨et, hk⟩ := resolve_inv hT.ret.p h2
    subst et
    rw [hloop.top, hloop.loc] at hk
    rw [← hloop.loc]
    exact ⟨hloop, by rw [hloop.loc]; exact hk⟩
  · intro j a loc0 t0 r t0' hj hL hrun
    have hL : TI E t p lhsVal tm j loc0 t0 := hL
    obtain ⟨ro, t2, h3, h4⟩ := bind_ok_inv hrun
    obtain ⟨e, hL'⟩ := hL.step hT hpure hout hp hj h3
    subst e
    simp only at h4
    obtain ⟨e1, e2⟩ := pure_ok_inv h4
    subst e2
    exact ⟨_, e1, hL'⟩

/-! ## the statement unpacked -/

/-- the fields of a freshly created top-level node -/
theorem fresh_fields {nd : Node} {k : Kind} (h : nd = { kind := k, createdIn := .top }) :
    nd.kind = k ∧ nd.createdIn = .top ∧ nd.cutoff = .eq ∧ nd.valid = true ∧ nd.parents = [] ∧ nd.observers = [] ∧
      nd.forceNecessary = false ∧ nd.height = -1 ∧ nd.heightInRch = -1 ∧ nd.heightInAhh = -1 ∧
      nd.recomputedAt = -1 ∧ nd.changedAt = -1 ∧ nd.value = none ∧ nd.numOnUpdateHandlers = 0 := by
  subst h
  exact ⟨rfl, rfl, rfl, rfl, rfl, rfl, rfl, rfl, rfl, rfl, rfl, rfl, rfl, rfl⟩

/-- **MC4, unpacked** (`locs`: the new nodes, in order) -/
theorem elabTemplateBase_mid {E E' : Env} {t t' : State} {tm : Template} {lhsVal : Val} {p m : Nat}
    (Md : Mid E t) (hT : TemplOK E' tm)
    (hpure : ∀ f, (∀ vals, E'.fnEff f vals = []) → ∀ vals, E.fnEff f vals = [])
    (hout : ∀ k, k ∈ templOuter tm → ∀ o, t.top[k]? = some o → o < t.nodes.size)
    (hp : p < t.nodes.size)
    (h : (elabTemplateBase tm lhsVal [p]).run.run t = (.ok m, t')) :
    let locs := List.range' t.nodes.size tm.instrs.length
    Mid E t' ∧ t'.nodes.size = t.nodes.size + tm.instrs.length ∧
      (∀ j i, tm.instrs[j]? = some i →
        instrKind t.top (p :: locs.take j) lhsVal i = some (t'.nodeD (t.nodes.size + j)).kind ∧
        t'.nodeD (t.nodes.size + j) = { kind := (t'.nodeD (t.nodes.size + j)).kind, createdIn := .top }) ∧
      resP t.top (p :: locs) tm.ret = some m ∧ m < t'.nodes.size ∧
      (∀ n, n < t.nodes.size → t'.nodeD n = t.nodeD n) ∧
      ({ t' with nodes := t.nodes, counters := t.counters } : State) = t ∧
      t'.experts = t.experts ∧ t'.nextDep = t.nextDep ∧ t'.top = t.top ∧ t'.perkeys = t.perkeys ∧
      t'.rch = t.rch ∧ t'.ahh = t.ahh ∧ t'.log = t.log ∧ t'.vars = t.vars ∧ eKey t' = eKey t := by
  intro locs
  obtain ⟨L, hret⟩ := elabTemplateBase_ti Md hT hpure hout hp h
  refine ⟨L.mid, L.size, fun j i hj => ?_, hret, ?_, L.old, L.rest, L.experts, L.nextDep, L.top, L.perkeys,
    L.rch, L.ahh, L.log, L.vars, L.eKey⟩
  · have hlt : j < tm.instrs.length := by
      rcases Nat.lt_or_ge j tm.instrs.length with h | h
      · exact h
      · rw [List.getElem?_eq_none h] at hj; cases hj
    obtain ⟨k, h1, h2⟩ := L.new j i hlt hj
    have ht : locs.take j = List.range' t.nodes.size j := List.take_range'_of_length_ge (Nat.le_of_lt hlt)
    rw [ht, h2]
    exact ⟨h1, rfl⟩
  · have hO := hT.ret
    cases hr : tm.ret with
    | loc i =>
      rw [hr] at hret
      exact L.loc_lt hp (List.mem_of_getElem?
        (show (p :: List.range' t.nodes.size tm.instrs.length)[i]? = some m from hret))
    | outer k =>
      rw [hr] at hret
      have h1 : t.top[k]? = some m := hret
      have := hout k (mem_templOuter (by rw [hr]; exact List.mem_cons_self ..)) m h1
      rw [L.size]; omega
    | abs _ => rw [hr] at hO; exact hO.elim
    | slot _ => rw [hr] at hO; exact hO.elim

/-- **MC4 as an instance**: the new nodes are an instance of the template (`Inst` of `PK2.lean`) in the new state -/
theorem elabTemplateBase_inst {E E' : Env} {t t' : State} {tm : Template} {key : Int} {p m : Nat}
    (Md : Mid E t) (hT : TemplOK E' tm)
    (hpure : ∀ f, (∀ vals, E'.fnEff f vals = []) → ∀ vals, E.fnEff f vals = [])
    (hout : ∀ k, k ∈ templOuter tm → ∀ o, t.top[k]? = some o → o < t.nodes.size)
    (hp : p < t.nodes.size)
    (h : (elabTemplateBase tm (.int key) [p]).run.run t = (.ok m, t')) :
    Inst t' tm key p (List.range' t.nodes.size tm.instrs.length) m := by
  obtain ⟨-, hsz, hk, hret, -, -, -, -, -, htop, -⟩ := elabTemplateBase_mid Md hT hpure hout hp h
  refine ⟨List.length_range', fun c hc => ?_, fun j i c hj hc => ?_, by rw [htop]; exact hret⟩
  · have := List.mem_range'_1.1 hc; omega
  · have hlt : j < tm.instrs.length := by
      rcases Nat.lt_or_ge j tm.instrs.length with h | h
      · exact h
      · rw [List.getElem?_eq_none h] at hj; cases hj
    rw [List.getElem?_range' hlt] at hc
    cases hc
    rw [htop, Nat.one_mul]
    exact (hk j i hj).1

end IncrVerif.Proofs.PerKeyH
