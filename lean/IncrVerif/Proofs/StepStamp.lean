import IncrVerif.Proofs.Step
/-!
# Helper lemmas for C02.1 in full generality: nothing the engine does within a step lowers a
`recomputedAt` stamp of the current round

`Stamp s s'` (same round number, no node removed, every node stamped `recomputedAt = current round` is
still so stamped, `counters.recomputed` unchanged) is preserved by EVERY function reachable from
`recomputeOne` — node creation by bind bodies, re-linking, height adjustment, invalidation cascades,
the expert API and arbitrary side effects of user closures included — in the `Pres` style of
`Proofs/Step.lean`.  The only place where `recomputedAt` is written with something other than its old
value (`invalidate_node`, `recompute_one`) writes the current round number (`PresS.get_modNode`).
-/
open IncrVerif.Engine IncrVerif.Proofs IncrVerif.Proofs.Step
namespace IncrVerif.Proofs.Step

/-! ## the stamp of the current round is never lowered — by anything the engine does in a step -/

/-- `s'` comes after `s` within one round: same round number, no node removed, every node stamped
`recomputedAt = current round` is still so stamped, `counters.recomputed` unchanged -/
structure Stamp (s s' : State) : Prop where
  stabNum : s'.stabNum = s.stabNum
  size : s.nodes.size ≤ s'.nodes.size
  keep : ∀ m, m < s.nodes.size → (s.nodeD m).recomputedAt = s.stabNum →
    (s'.nodeD m).recomputedAt = s.stabNum
  recomputed : s'.counters.recomputed = s.counters.recomputed

theorem Stamp.refl (s : State) : Stamp s s := ⟨rfl, Nat.le_refl _, fun _ _ h => h, rfl⟩

theorem Stamp.trans {a b c : State} (h1 : Stamp a b) (h2 : Stamp b c) : Stamp a c where
  stabNum := h2.stabNum.trans h1.stabNum
  size := Nat.le_trans h1.size h2.size
  keep m hm h := by
    have := h2.keep m (Nat.lt_of_lt_of_le hm h1.size) (by rw [h1.stabNum]; exact h1.keep m hm h)
    rw [h1.stabNum] at this; exact this
  recomputed := h2.recomputed.trans h1.recomputed

instance : PreOrd Stamp := ⟨Stamp.refl, Stamp.trans⟩

theorem Stamp.of_eq {s s' : State} (h1 : s'.nodes = s.nodes) (h2 : s'.stabNum = s.stabNum)
    (h3 : s'.counters.recomputed = s.counters.recomputed) : Stamp s s' := by
  refine ⟨h2, by rw [h1]; exact Nat.le_refl _, fun m _ h => ?_, h3⟩
  have : s'.nodeD m = s.nodeD m := by simp [State.nodeD, h1]
  rw [this]; exact h

theorem Stamp.modNode (s : State) (n : Nat) (f : Node → Node)
    (hf : ∀ x, (f x).recomputedAt = x.recomputedAt) :
    Stamp s { s with nodes := s.nodes.modify n f } := by
  refine ⟨rfl, by simp, fun m _ h => ?_, rfl⟩
  rw [nodeD_modify]
  split
  · rw [hf]; exact h
  · exact h

theorem Stamp.push (s : State) (nd : Node) : Stamp s { s with nodes := s.nodes.push nd } := by
  refine ⟨rfl, by simp, fun m hm h => ?_, rfl⟩
  have : ({ s with nodes := s.nodes.push nd } : State).nodeD m = s.nodeD m := by
    simp [State.nodeD, Array.getElem?_push, Nat.ne_of_lt hm]
  rw [this]; exact h

theorem PresS.modNode (n : Nat) (f : Node → Node) (hf : ∀ x, (f x).recomputedAt = x.recomputedAt) :
    Pres Stamp (modNode n f) := by
  unfold Engine.modNode; exact Pres.modify fun s => Stamp.modNode s n f hf

macro_rules
  | `(tactic| qleaf) =>
    `(tactic| ((with_reducible apply Pres.modify); intro _; exact Stamp.of_eq rfl rfl rfl))
macro_rules
  | `(tactic| qleaf) => `(tactic| ((with_reducible apply PresS.modNode); intro _; rfl))
macro_rules
  | `(tactic| qleaf) =>
    `(tactic| ((with_reducible apply Pres.modify); intro _; exact Stamp.push _ _))

/-- register a `Pres Stamp` lemma as a leaf -/
macro "stamp_leaf " n:ident : command =>
  `(macro_rules | `(tactic| qleaf) => `(tactic| with_reducible apply $n))

theorem PresS.tick : Pres Stamp tick := by unfold Engine.tick; qpres
stamp_leaf PresS.tick
theorem PresS.logEv (e) : Pres Stamp (logEv e) := by unfold Engine.logEv; qpres
stamp_leaf PresS.logEv
theorem PresS.modBind (b f) : Pres Stamp (modBind b f) := by unfold Engine.modBind; qpres
stamp_leaf PresS.modBind
theorem PresS.modExpert (b f) : Pres Stamp (modExpert b f) := by unfold Engine.modExpert; qpres
stamp_leaf PresS.modExpert
theorem PresS.modVar (b f) : Pres Stamp (modVar b f) := by unfold Engine.modVar; qpres
stamp_leaf PresS.modVar
theorem PresS.modObs (b f) : Pres Stamp (modObs b f) := by unfold Engine.modObs; qpres
stamp_leaf PresS.modObs
theorem PresS.getObs {R : State → State → Prop} [PreOrd R] (n) : Pres R (getObs n) := by
  unfold Engine.getObs; qpres
stamp_leaf PresS.getObs
theorem PresS.scopeIsNecessary {R : State → State → Prop} [PreOrd R] (sc) :
    Pres R (scopeIsNecessary sc) := by unfold Engine.scopeIsNecessary; qpres
stamp_leaf PresS.scopeIsNecessary
theorem PresS.rchLink (n) : Pres Stamp (rchLink n) := by unfold Engine.rchLink; qpres
stamp_leaf PresS.rchLink
theorem PresS.rchUnlink (n) : Pres Stamp (rchUnlink n) := by unfold Engine.rchUnlink; qpres
stamp_leaf PresS.rchUnlink
theorem PresS.rchInsert (n) : Pres Stamp (rchInsert n) := by unfold Engine.rchInsert; qpres
stamp_leaf PresS.rchInsert
theorem PresS.rchRemove (n) : Pres Stamp (rchRemove n) := by unfold Engine.rchRemove; qpres
stamp_leaf PresS.rchRemove
theorem PresS.rchMinHeight : Pres Stamp rchMinHeight := by unfold Engine.rchMinHeight; qpres
stamp_leaf PresS.rchMinHeight
theorem PresS.rchIncreaseHeight (n) : Pres Stamp (rchIncreaseHeight n) := by
  unfold Engine.rchIncreaseHeight; qpres
stamp_leaf PresS.rchIncreaseHeight
theorem PresS.setHeight (n h) : Pres Stamp (setHeight n h) := by unfold Engine.setHeight; qpres
stamp_leaf PresS.setHeight
theorem PresS.ahhAddUnlessMem (n) : Pres Stamp (ahhAddUnlessMem n) := by
  unfold Engine.ahhAddUnlessMem; qpres
stamp_leaf PresS.ahhAddUnlessMem
theorem PresS.ahhRemoveMin : Pres Stamp ahhRemoveMin := by unfold Engine.ahhRemoveMin; qpres
stamp_leaf PresS.ahhRemoveMin
theorem PresS.ensureHeightRequirement (a b c d) : Pres Stamp (ensureHeightRequirement a b c d) := by
  unfold Engine.ensureHeightRequirement; qpres
stamp_leaf PresS.ensureHeightRequirement


macro_rules | `(tactic| qleaf) => `(tactic| apply Pres.forIn)

theorem PresS.adjustHeightsLoop (oc op fuel) : Pres Stamp (adjustHeightsLoop oc op fuel) := by
  induction fuel with
  | zero => unfold Engine.adjustHeightsLoop; qpres
  | succ fuel ih => unfold Engine.adjustHeightsLoop; qpres; all_goals exact ih
stamp_leaf PresS.adjustHeightsLoop
theorem PresS.adjustHeights (oc op fuel) : Pres Stamp (adjustHeights oc op fuel) := by
  unfold Engine.adjustHeights; qpres
stamp_leaf PresS.adjustHeights
theorem PresS.addParent (a b c) : Pres Stamp (addParent a b c) := by unfold Engine.addParent; qpres
stamp_leaf PresS.addParent
theorem PresS.removeParent (a b c) : Pres Stamp (removeParent a b c) := by
  unfold Engine.removeParent; qpres
stamp_leaf PresS.removeParent
theorem PresS.handleAfterStabilisation (n) : Pres Stamp (handleAfterStabilisation n) := by
  unfold Engine.handleAfterStabilisation; qpres
stamp_leaf PresS.handleAfterStabilisation
theorem PresS.maybeHandleAfterStabilisation (n) : Pres Stamp (maybeHandleAfterStabilisation n) := by
  unfold Engine.maybeHandleAfterStabilisation; qpres
stamp_leaf PresS.maybeHandleAfterStabilisation
theorem PresS.shouldCutoff (env n o v) : Pres Stamp (shouldCutoff env n o v) := by
  unfold Engine.shouldCutoff; qpres
stamp_leaf PresS.shouldCutoff
theorem PresS.edgeOnChange (env e edge) : Pres Stamp (edgeOnChange env e edge) := by
  unfold Engine.edgeOnChange; qpres
stamp_leaf PresS.edgeOnChange
theorem PresS.runEdgeCallback (env e i) : Pres Stamp (runEdgeCallback env e i) := by
  unfold Engine.runEdgeCallback; qpres
stamp_leaf PresS.runEdgeCallback
theorem PresS.observabilityChange (e b) : Pres Stamp (observabilityChange e b) := by
  unfold Engine.observabilityChange; qpres
stamp_leaf PresS.observabilityChange
theorem PresS.markMapRefUnknown (fuel n) : Pres Stamp (markMapRefUnknown fuel n) := by
  induction fuel generalizing n with
  | zero => unfold Engine.markMapRefUnknown; qpres
  | succ fuel ih => unfold Engine.markMapRefUnknown; qpres; all_goals exact ih _
stamp_leaf PresS.markMapRefUnknown

theorem PresS.necessary (env : Env) (fuel : Nat) :
    (∀ n, Pres Stamp (becameNecessary env fuel n)) ∧
    (∀ c i p, Pres Stamp (addParentWithoutAdjustingHeights env fuel c i p)) := by
  induction fuel with
  | zero =>
    constructor
    · intro n; unfold Engine.becameNecessary; qpres
    · intro c i p; unfold Engine.addParentWithoutAdjustingHeights; qpres
  | succ fuel ih =>
    constructor
    · intro n; unfold Engine.becameNecessary; qpres; all_goals exact ih.2 _ _ _
    · intro c i p; unfold Engine.addParentWithoutAdjustingHeights; qpres; all_goals exact ih.1 _
theorem PresS.becameNecessary (env fuel n) : Pres Stamp (becameNecessary env fuel n) :=
  (PresS.necessary env fuel).1 n
stamp_leaf PresS.becameNecessary
theorem PresS.addParentWithoutAdjustingHeights (env fuel c i p) :
    Pres Stamp (addParentWithoutAdjustingHeights env fuel c i p) := (PresS.necessary env fuel).2 c i p
stamp_leaf PresS.addParentWithoutAdjustingHeights

theorem PresS.unnecessary (fuel : Nat) :
    (∀ n, Pres Stamp (becameUnnecessary fuel n)) ∧ (∀ n, Pres Stamp (checkIfUnnecessary fuel n)) ∧
    (∀ n, Pres Stamp (removeChildren fuel n)) := by
  induction fuel with
  | zero =>
    refine ⟨?_, ?_, ?_⟩
    · intro n; unfold Engine.becameUnnecessary; qpres
    · intro n; unfold Engine.checkIfUnnecessary; qpres
    · intro n; unfold Engine.removeChildren; qpres
  | succ fuel ih =>
    refine ⟨?_, ?_, ?_⟩
    · intro n; unfold Engine.becameUnnecessary; qpres; all_goals exact ih.2.2 _
    · intro n; unfold Engine.checkIfUnnecessary; qpres; all_goals exact ih.1 _
    · intro n; unfold Engine.removeChildren; qpres; all_goals exact ih.2.1 _
theorem PresS.becameUnnecessary (fuel n) : Pres Stamp (becameUnnecessary fuel n) :=
  (PresS.unnecessary fuel).1 n
stamp_leaf PresS.becameUnnecessary
theorem PresS.checkIfUnnecessary (fuel n) : Pres Stamp (checkIfUnnecessary fuel n) :=
  (PresS.unnecessary fuel).2.1 n
stamp_leaf PresS.checkIfUnnecessary
theorem PresS.removeChildren (fuel n) : Pres Stamp (removeChildren fuel n) :=
  (PresS.unnecessary fuel).2.2 n
stamp_leaf PresS.removeChildren


/-- `let now := (← get).stabNum; modNode n (… now …)`: the one place where `recomputedAt` is written
with something other than its old value is a write of the current round number -/
theorem PresS.get_modNode {β} (n : Nat) (F : State → Node → Node) (k : State → Unit → M β)
    (hF : ∀ st x, (F st x).recomputedAt = x.recomputedAt ∨ (F st x).recomputedAt = st.stabNum)
    (hk : ∀ st u, Pres Stamp (k st u)) :
    Pres Stamp (get >>= fun st => Engine.modNode n (F st) >>= k st) := by
  constructor
  intro s r s' h
  rw [run_bind_get, run_bind_modNode] at h
  have h1 : Stamp s { s with nodes := s.nodes.modify n (F s) } := by
    refine ⟨rfl, by simp, fun m _ hm => ?_, rfl⟩
    rw [nodeD_modify]
    split
    · rcases hF s (s.nodeD m) with e | e
      · rw [e]; exact hm
      · exact e
    · exact hm
  exact h1.trans ((hk s ()).h _ _ _ h)

macro_rules
  | `(tactic| qspecial) =>
    `(tactic| ((with_reducible apply PresS.get_modNode)
               · intro _ _; first | exact Or.inl rfl | exact Or.inr rfl))

theorem PresS.invalidateNode (fuel n) : Pres Stamp (invalidateNode fuel n) := by
  induction fuel generalizing n with
  | zero => unfold Engine.invalidateNode; qpres
  | succ fuel ih => unfold Engine.invalidateNode; qpres; all_goals exact ih _
stamp_leaf PresS.invalidateNode

theorem PresS.propagateInvalidity (fuel) : Pres Stamp (propagateInvalidity fuel) := by
  induction fuel with
  | zero => unfold Engine.propagateInvalidity; qpres
  | succ fuel ih => unfold Engine.propagateInvalidity; qpres; all_goals exact ih
stamp_leaf PresS.propagateInvalidity
theorem PresS.stateAddParent (env fuel c i p) : Pres Stamp (stateAddParent env fuel c i p) := by
  unfold Engine.stateAddParent; qpres
stamp_leaf PresS.stateAddParent
theorem PresS.changeChildBindRhs (env fuel m o nw i) :
    Pres Stamp (changeChildBindRhs env fuel m o nw i) := by
  unfold Engine.changeChildBindRhs; qpres
stamp_leaf PresS.changeChildBindRhs

/-! ### expert API -/
theorem PresS.assertRunningIsChild (n name) : Pres Stamp (assertRunningIsChild n name) := by
  unfold Engine.assertRunningIsChild; qpres
stamp_leaf PresS.assertRunningIsChild
theorem PresS.expertOf {R : State → State → Prop} [PreOrd R] (n) : Pres R (expertOf n) := by
  unfold Engine.expertOf; qpres
stamp_leaf PresS.expertOf
theorem PresS.expertMakeStale (n) : Pres Stamp (expertMakeStale n) := by
  unfold Engine.expertMakeStale; qpres
stamp_leaf PresS.expertMakeStale
theorem PresS.expertAddDependency (env fuel n c cb) :
    Pres Stamp (expertAddDependency env fuel n c cb) := by
  unfold Engine.expertAddDependency; qpres
stamp_leaf PresS.expertAddDependency
theorem PresS.swapEdgeIndices (n c1 i1 c2 i2) : Pres Stamp (swapEdgeIndices n c1 i1 c2 i2) := by
  unfold Engine.swapEdgeIndices; qpres
stamp_leaf PresS.swapEdgeIndices
theorem PresS.expertRemoveDependency (fuel n dep) : Pres Stamp (expertRemoveDependency fuel n dep) := by
  unfold Engine.expertRemoveDependency; qpres
stamp_leaf PresS.expertRemoveDependency
theorem PresS.expertInvalidate (fuel n) : Pres Stamp (expertInvalidate fuel n) := by
  unfold Engine.expertInvalidate; qpres
stamp_leaf PresS.expertInvalidate

/-! ### node creation, var writes, effects -/
theorem PresS.bumpCounter (f : Counters → Counters) (hf : ∀ c, (f c).recomputed = c.recomputed) :
    Pres Stamp (bumpCounter f) := by
  unfold Engine.bumpCounter
  exact Pres.modify fun s => Stamp.of_eq rfl rfl (hf _)
macro_rules
  | `(tactic| qleaf) => `(tactic| ((with_reducible apply PresS.bumpCounter); intro _; rfl))
theorem PresS.createNode (k sc c) : Pres Stamp (createNode k sc c) := by
  unfold Engine.createNode; qpres
stamp_leaf PresS.createNode
theorem PresS.createVar (v sc) : Pres Stamp (createVar v sc) := by unfold Engine.createVar; qpres
stamp_leaf PresS.createVar
theorem PresS.createBind (b l) : Pres Stamp (createBind b l) := by unfold Engine.createBind; qpres
stamp_leaf PresS.createBind
theorem PresS.isConstant {R : State → State → Prop} [PreOrd R] (n) : Pres R (isConstant n) := by
  unfold Engine.isConstant; qpres
stamp_leaf PresS.isConstant
theorem PresS.resolveOpnd {R : State → State → Prop} [PreOrd R] (l o) : Pres R (resolveOpnd l o) := by
  unfold Engine.resolveOpnd; qpres
stamp_leaf PresS.resolveOpnd
set_option maxHeartbeats 1000000 in
theorem PresS.elabInstr (loc v i) : Pres Stamp (elabInstr loc v i) := by
  cases i with
  | mapOp op => cases op <;> (simp only [Engine.elabInstr]; qpres)
  | _ => simp only [Engine.elabInstr]; qpres
stamp_leaf PresS.elabInstr
theorem PresS.elabTemplateBase (t v init) : Pres Stamp (elabTemplateBase t v init) := by
  unfold Engine.elabTemplateBase; qpres
stamp_leaf PresS.elabTemplateBase
theorem PresS.memoCall (env m key) : Pres Stamp (memoCall env m key) := by
  unfold Engine.memoCall; qpres
stamp_leaf PresS.memoCall
theorem PresS.elabInstrM (env loc v i) : Pres Stamp (elabInstrM env loc v i) := by
  unfold Engine.elabInstrM; qpres
stamp_leaf PresS.elabInstrM
theorem PresS.elabTemplate (env t v) : Pres Stamp (elabTemplate env t v) := by
  unfold Engine.elabTemplate; qpres
stamp_leaf PresS.elabTemplate
theorem PresS.didSetVarWhileNotStabilising (v) : Pres Stamp (didSetVarWhileNotStabilising v) := by
  unfold Engine.didSetVarWhileNotStabilising; qpres
stamp_leaf PresS.didSetVarWhileNotStabilising
theorem PresS.writeVar (v f b) : Pres Stamp (writeVar v f b) := by unfold Engine.writeVar; qpres
stamp_leaf PresS.writeVar
theorem PresS.disallowFutureUse (o) : Pres Stamp (disallowFutureUse o) := by
  unfold Engine.disallowFutureUse; qpres
stamp_leaf PresS.disallowFutureUse
theorem PresS.discard {R : State → State → Prop} [PreOrd R] {α} {x : M α} (hx : Pres R x) :
    Pres R (discard x) := by
  unfold Functor.discard
  rw [LawfulFunctor.map_const]
  exact Pres.map _ hx
macro_rules | `(tactic| qleaf) => `(tactic| with_reducible apply PresS.discard)
/-- dropping a `Var` handle touches `vars` and `deadVars` only -/
theorem PresS.dropVarHandle (v) : Pres Stamp (dropVarHandle v) := by
  unfold Engine.dropVarHandle; qpres
stamp_leaf PresS.dropVarHandle
/-- `withVarHandle v act` is `act` or a no-op -/
theorem PresS.withVarHandle {R : State → State → Prop} [PreOrd R] (v) {act : M Unit}
    (h : Pres R act) : Pres R (withVarHandle v act) := by
  unfold Engine.withVarHandle; qpres; exact h; exact h
macro_rules | `(tactic| qleaf) => `(tactic| with_reducible apply PresS.withVarHandle)
theorem PresS.runEffectBasic (env e) : Pres Stamp (runEffectBasic env e) := by
  unfold Engine.runEffectBasic; qpres
stamp_leaf PresS.runEffectBasic
theorem PresS.expertIdxRaw {R : State → State → Prop} [PreOrd R] (n) : Pres R (expertIdxRaw n) := by
  unfold Engine.expertIdxRaw; qpres
stamp_leaf PresS.expertIdxRaw
theorem PresS.runEffects (env fuel effs arg) : Pres Stamp (runEffects env fuel effs arg) := by
  unfold Engine.runEffects; qpres
stamp_leaf PresS.runEffects


/-! ### per-key operators, operator closures -/
theorem PresS.expertValue (env e d sl) : Pres Stamp (expertValue env e d sl) := by
  unfold Engine.expertValue; qpres
stamp_leaf PresS.expertValue
theorem PresS.withOldEvents (env g n σ old x new did) :
    Pres Stamp (withOldEvents env g n σ old x new did) := by
  unfold Engine.withOldEvents; qpres
stamp_leaf PresS.withOldEvents
set_option maxHeartbeats 1000000 in
theorem PresS.perKeyDriver (env fuel op m) : Pres Stamp (perKeyDriver env fuel op m) := by
  unfold Engine.perKeyDriver; qpres
stamp_leaf PresS.perKeyDriver

/-! ### notifications, `maybeChangeValue`, `recomputeOne` -/
theorem PresS.childChanged (env fuel p c ci o) : Pres Stamp (childChanged env fuel p c ci o) := by
  induction fuel generalizing p c ci o with
  | zero => unfold Engine.childChanged; qpres
  | succ fuel ih => unfold Engine.childChanged; qpres; all_goals exact ih _ _ _ _
stamp_leaf PresS.childChanged
theorem PresS.parentIterCanRecomputeNow (p c) : Pres Stamp (parentIterCanRecomputeNow p c) := by
  constructor
  intro s r s' h
  rw [picrn_run] at h
  have hw : Stamp s (withMinHeight s) := Stamp.of_eq rfl rfl rfl
  split at h
  · cases h; exact Stamp.refl _
  split at h
  · cases h; exact Stamp.refl _
  split at h
  · cases h; exact hw
  split at h
  · cases h; exact hw
  split at h
  · cases h; exact hw
  split at h
  · cases h; exact hw
  split at h
  · cases h; exact hw
  rcases hi : (Engine.rchInsert p).run.run (withMinHeight s) with ⟨x, s2⟩
  rw [hi] at h
  have h2 := (PresS.rchInsert p).h _ _ _ hi
  cases x <;> (cases h; exact hw.trans h2)
stamp_leaf PresS.parentIterCanRecomputeNow
theorem PresS.maybeChangeValueManual (env fuel n o d b) :
    Pres Stamp (maybeChangeValueManual env fuel n o d b) := by
  unfold Engine.maybeChangeValueManual; qpres
stamp_leaf PresS.maybeChangeValueManual
theorem PresS.maybeChangeValue (env fuel n v) : Pres Stamp (maybeChangeValue env fuel n v) := by
  unfold Engine.maybeChangeValue; qpres
stamp_leaf PresS.maybeChangeValue

/-- for EVERY kind of node and EVERY outcome (return or panic) of `recompute_one n` on an existing
node: in the final state `recomputedAt n` is the current round, the round number is unchanged, the
`recomputed` counter went up by exactly one -/
theorem recomputeOne_stamp (env : Env) (fuel n : Nat) (s s' : State) (nd : Node)
    (r : Except Panic (Option Nat)) (hn : s.nodes[n]? = some nd)
    (h : (recomputeOne env fuel n).run.run s = (r, s')) :
    (s'.nodeD n).recomputedAt = s.stabNum ∧ s'.stabNum = s.stabNum ∧
      s'.counters.recomputed = s.counters.recomputed + 1 ∧ s.nodes.size ≤ s'.nodes.size := by
  have key : Stamp (started n s) s' := by
    unfold recomputeOne at h
    rw [run_bind_get] at h
    generalize hJ : (fun (_ : Unit) => (bumpCounter _ >>= _ : M (Option Nat))) = J at h
    have tail : ∀ (s0 : State) r s', (J ()).run.run s0 = (r, s') →
        Stamp { s0 with
          counters := { s0.counters with recomputed := s0.counters.recomputed + 1 },
          nodes := s0.nodes.modify n fun x => { x with recomputedAt := s0.stabNum } } s' := by
      subst hJ
      intro s0 r s' h0
      simp only [run_bind_bumpCounter, run_bind_get, run_bind_modNode] at h0
      refine Pres.h ?_ _ _ _ h0
      qpres
    cases hd : s.cfg.debug
    · simp only [hd, Bool.false_eq_true, if_false] at h
      have := tail _ _ _ h
      simpa only [started, hd, Bool.false_eq_true, if_false] using this
    · simp only [hd, if_true, run_bind_modify] at h
      have := tail _ _ _ h
      simpa only [started, hd, if_true] using this
  have hlt := lt_of_some hn
  have h1 : ((started n s).nodeD n).recomputedAt = (started n s).stabNum := by
    rw [started_nodeD, if_pos ⟨rfl, hlt⟩]; rfl
  have hsz : (started n s).nodes.size = s.nodes.size := by simp [started]
  refine ⟨key.keep n (by rw [hsz]; exact hlt) h1, key.stabNum, ?_, by rw [← hsz]; exact key.size⟩
  rw [key.recomputed]; rfl


end IncrVerif.Proofs.Step
