import IncrVerif.Proofs.CutH16
import IncrVerif.Proofs.CutH17
import IncrVerif.Proofs.CutH18
import IncrVerif.Proofs.CutH22
-- Port of Proofs/Quiet18.lean to ARBITRARY cutoffs (scratch name Q18); overview in Props/C06History.lean
/-!
# Part 16: every static API action keeps `QInv` (G3); whole histories (G4)
-/
namespace IncrVerif.Proofs.CutH
open IncrVerif.Engine IncrVerif.Driver IncrVerif.Proofs IncrVerif.Proofs.Step IncrVerif.Proofs.Sched
variable {e : Bool}

/-- the API actions of the static fragment -/
def StaticAction (env : Env) : Action → Prop
  | .create i => StaticInstr env i
  | .observe n => OpndOK n
  | .cloneObs _ | .dropObs _ | .disallow _ => True
  | .set _ _ | .modify _ _ | .update _ _ | .replace _ _ | .replaceWith _ _ | .get _ => True
  | .stabilise | .isStable | .stats => True
  | _ => False

/-- does the action keep "every cutoff ever in force was exact"? -/
def ExactAction : Action → Bool
  | .create i => ExactInstr i
  | _ => true

theorem step_stabilise {env : Env} {s s' : State} {tokens : Array Nat} {r : String × Array Nat}
    (h : (stepAction env .stabilise tokens).run.run s = (.ok r, s')) :
    (stabilise env fuelDefault).run.run s = (.ok (), s') := by
  unfold stepAction at h
  dsimp only at h
  obtain ⟨u, s1, h1, h2⟩ := bind_ok_inv h
  obtain ⟨-, e⟩ := pure_ok_inv h2
  rw [e]; exact h1

/-- **G3.** Every static API action that returns keeps the invariant. -/
theorem step_q {env : Env} {s s' : State} {a : Action} {tokens : Array Nat} {r : String × Array Nat}
    (Q : QInv env e s) (ha : StaticAction env a) (hx : e = true → ExactAction a = true)
    (h : (stepAction env a tokens).run.run s = (.ok r, s')) : QInv env e s' := by
  cases a <;> try exact ha.elim
  case create i => exact step_create Q ha hx h
  case observe n =>
    cases n <;> try exact ha.elim
    exact step_observe Q h
  case cloneObs o => exact step_cloneObs Q h
  case dropObs o => exact step_dropObs Q h
  case disallow o => exact step_disallow Q h
  case set v x => exact step_write (a := .set v x) Q trivial h
  case modify v d => exact step_write (a := .modify v d) Q trivial h
  case update v d => exact step_write (a := .update v d) Q trivial h
  case replace v x => exact step_write (a := .replace v x) Q trivial h
  case replaceWith v d => exact step_write (a := .replaceWith v d) Q trivial h
  case get v => exact step_write (a := .get v) Q trivial h
  case isStable => exact step_write (a := .isStable) Q trivial h
  case stats => exact step_write (a := .stats) Q trivial h
  case stabilise => exact (stabilise_q Q (step_stabilise h)).inv

/-- **G3, with the flag.** Every static API action that returns keeps the invariant; the flag "every cutoff ever in
force was exact" survives exactly the `ExactAction`s. -/
theorem step_qx {env : Env} {s s' : State} {a : Action} {tokens : Array Nat} {r : String × Array Nat}
    (Q : QInv env e s) (ha : StaticAction env a)
    (h : (stepAction env a tokens).run.run s = (.ok r, s')) : QInv env (e && ExactAction a) s' := by
  cases hb : (e && ExactAction a) with
  | true =>
    rw [Bool.and_eq_true] at hb
    obtain ⟨he, hxa⟩ := hb
    subst he
    exact step_q Q ha (fun _ => hxa) h
  | false => exact step_q Q.weaken ha (fun h => by cases h) h

/-! ## the initial state -/

theorem init_nodeD (N : Nat) (d : Bool) (m : Nat) : (State.init N d).nodeD m = default := by
  simp [State.nodeD, State.init]

theorem qinv_init (env : Env) (N : Nat) (d : Bool) : QInv env true (State.init N d) := by
  have hnd := init_nodeD N d
  have hnec : ∀ m, (State.init N d).isNecessary m = false := fun m => by
    rw [State.isNecessary, hnd]; rfl
  have hin : ∀ m, ((State.init N d).nodeD m).inRch = false := fun m => by rw [hnd]; rfl
  have hsz : (State.init N d).nodes.size = 0 := rfl
  have hpar : ∀ m, ((State.init N d).nodeD m).parents = [] := fun m => by rw [hnd]; rfl
  have hobs : ∀ m, ((State.init N d).nodeD m).observers = [] := fun m => by rw [hnd]; rfl
  refine ⟨?_, ?_, ?_, Int.le_refl _, ?_, ?_, ?_, ?_, rfl, rfl, rfl, rfl, rfl, ?_, rfl, ?_⟩
  · refine ⟨⟨rfl, rfl, fun n hn => by rw [hsz] at hn; omega⟩, ?_, ?_, ?_, ?_, ?_, ?_, ?_, ?_, ?_, ?_, ?_, ?_, ?_⟩
    · intro c p i hm; rw [hpar] at hm; cases hm
    · intro p i c hk hw
      rw [hnd] at hk
      have e : (default : Node).kind = .const .unit := rfl
      rw [e] at hk; simp [kids] at hk
    · intro c; rw [hpar]; exact List.nodup_nil
    · intro c p i hm; rw [hpar] at hm; cases hm
    · intro n hn; rw [hnec] at hn; cases hn
    · intro p k ho; cases ho
    · intro p k ho; cases ho
    · refine ⟨heapWF_init N d, ?_, ?_⟩
      · intro m hm; rw [hin] at hm; cases hm
      · show (0 : Int) ≤ (N : Int) + 1
        omega
    · intro m hm; rw [hin] at hm; cases hm
    · intro m hm; rw [hin] at hm; cases hm
    · intro m _ hn; rw [hnec] at hn; cases hn
    · intro m hm; rw [hin] at hm; cases hm
    · intro m ho; exact absurd rfl ho
  · refine ⟨fun n c hn => by rw [hsz] at hn; omega, fun c vc hc => ?_⟩
    simp [State.init] at hc
  · refine ⟨fun o ob ho => ?_, fun n o => ?_, fun o ob ho => ?_, fun o ho => ?_, fun o ob ho => ?_,
      fun o ho => ?_, List.nodup_nil⟩
    · simp [State.init] at ho
    · rw [hobs]
      constructor
      · intro h; cases h
      · rintro ⟨ob, ho, -⟩; simp [State.init] at ho
    · simp [State.init] at ho
    · simp [State.init] at ho
    · simp [State.init] at ho
    · simp [State.init] at ho
  · intro m; rw [hnd]; exact ⟨show (-1 : Int) < 0 by decide, show (-1 : Int) < 0 by decide⟩
  · intro c vc hc; simp [State.init] at hc
  · intro m hm; rw [hsz] at hm; omega
  · intro _ m; rw [hnd]; trivial
  · intro m; rw [hnd]; exact (show (0 : Int) ≤ 0 by decide)
  · intro k n hk; simp [State.init] at hk

/-! ## running a list of actions -/

/-- run the actions one after the other, stopping at the first panic -/
def runActions (env : Env) : List Action → State → Array Nat → Except Panic (State × Array Nat)
  | [], s, tk => .ok (s, tk)
  | a :: as, s, tk =>
    match (stepAction env a tk).run.run s with
    | (.ok r, s') => runActions env as s' r.2
    | (.error e, _) => .error e

theorem runActions_append (env : Env) (as bs : List Action) (s : State) (tk : Array Nat) :
    runActions env (as ++ bs) s tk =
      match runActions env as s tk with
      | .ok (s1, tk1) => runActions env bs s1 tk1
      | .error e => .error e := by
  induction as generalizing s tk with
  | nil => rfl
  | cons a as ih =>
    simp only [List.cons_append, runActions]
    rcases hx : (stepAction env a tk).run.run s with ⟨_ | r, s'⟩
    · rfl
    · exact ih s' r.2

/-- **G4 (a).** A list of static actions that runs without panic from a state satisfying the invariant
ends in a state satisfying it; the flag survives iff every action is an `ExactAction`. -/
theorem runActions_q {env : Env} {acts : List Action} {s s' : State} {tk tk' : Array Nat}
    (Q : QInv env e s) (ha : ∀ a, a ∈ acts → StaticAction env a)
    (h : runActions env acts s tk = .ok (s', tk')) : QInv env (e && acts.all ExactAction) s' := by
  induction acts generalizing e s tk with
  | nil => simp only [runActions] at h; cases h; simpa using Q
  | cons a as ih =>
    simp only [runActions] at h
    rcases hx : (stepAction env a tk).run.run s with ⟨_ | r, s1⟩
    · rw [hx] at h; cases h
    · rw [hx] at h
      have := ih (step_qx Q (ha a (List.mem_cons_self ..)) hx) (fun b hb => ha b (List.mem_cons_of_mem _ hb)) h
      simpa only [List.all_cons, Bool.and_assoc] using this

/-- a prefix of a run that returns also returns -/
theorem runActions_prefix {env : Env} {as bs : List Action} {s s' : State} {tk tk' : Array Nat}
    (h : runActions env (as ++ bs) s tk = .ok (s', tk')) :
    ∃ s1 tk1, runActions env as s tk = .ok (s1, tk1) ∧ runActions env bs s1 tk1 = .ok (s', tk') := by
  rw [runActions_append] at h
  rcases hx : runActions env as s tk with _ | ⟨s1, tk1⟩
  · rw [hx] at h; cases h
  · rw [hx] at h; exact ⟨s1, tk1, rfl, h⟩

end IncrVerif.Proofs.CutH
