import IncrVerif.Proofs.DriverH6
/-!
# Drivers: whole histories

* `step_d`: every action of the fragment with drivers (`DActionOK`) that returns keeps `QInvX (noEff env)`.
* `RunOKD.append`, `run_d`, `prefix_d`, `stabilise_in_run_d`, `history_d`, `history_stabilise_d`.
Everything is relative to the contract `StabSpec env` of `stabilise` with drivers.
-/
namespace IncrVerif.Proofs.DriverH
open IncrVerif.Engine IncrVerif.Driver IncrVerif.Proofs IncrVerif.Proofs.Step IncrVerif.Proofs.Sched
open IncrVerif.Proofs.ExpertH IncrVerif.Proofs.ExpertH.QR IncrVerif.Proofs.EffH

namespace Hist

/-! ## parametricity of `addDep` (same lemma as `expertAddDependency_noEff` of DE1; local copy, no dependency) -/

theorem stateAddParent_noEff (env : Env) (fuel c i p : Nat) :
    stateAddParent (noEff env) fuel c i p = stateAddParent env fuel c i p := by
  unfold stateAddParent
  simp only [(bn_ap_noEff env fuel).2]

theorem expertAddDependency_noEff (env : Env) (fuel n c : Nat) (cb : Bool) :
    expertAddDependency (noEff env) fuel n c cb = expertAddDependency env fuel n c cb := by
  unfold expertAddDependency
  simp only [stateAddParent_noEff]

/-- every action other than `stabilise` is the same program under `env` and `noEff env` -/
theorem stepAction_noEff' (env : Env) (a : Action) (tk : Array Nat) (h1 : a ≠ .stabilise) :
    stepAction (noEff env) a tk = stepAction env a tk := by
  cases a
  case addDep e c cb =>
    unfold stepAction
    simp only [expertAddDependency_noEff]
  all_goals exact stepAction_noEff env _ tk h1 (fun _ _ _ => by intro h; cases h)

end Hist

/-- for every action but `stabilise`, `DActionOK` is `XActionOK` of the effect-free environment -/
theorem DActionOK.x {env : Env} {s : State} {a : Action} (h1 : a ≠ .stabilise) (ha : DActionOK env s a) :
    XActionOK (noEff env) s a := by
  cases a
  case stabilise => exact absurd rfl h1
  all_goals exact ha

theorem DActionOK.of_x {env : Env} {s : State} {a : Action} (h1 : a ≠ .stabilise)
    (ha : XActionOK (noEff env) s a) : DActionOK env s a := by
  cases a
  case stabilise => exact absurd rfl h1
  all_goals exact ha

/-- **every action of the fragment with drivers that returns keeps the invariant** (for some rank) -/
theorem step_d {env : Env} (hStab : StabSpec env) {rk : Nat → Nat} {s s' : State} {a : Action} {tk : Array Nat}
    {r : String × Array Nat} (Q : QInvX (noEff env) rk s) (ha : DActionOK env s a)
    (h : (stepAction env a tk).run.run s = (.ok r, s')) : ∃ rk', QInvX (noEff env) rk' s' := by
  by_cases h1 : a = .stabilise
  · subst h1
    exact (hStab rk fuelDefault s s' Q ha (step_stabilise h)).inv
  · rw [← Hist.stepAction_noEff' env a tk h1] at h
    exact step_x Q (ha.x h1) h

/-- the token table is not touched by `stabilise` -/
theorem stabilise_tokens {env : Env} {s s' : State} {tk : Array Nat} {r : String × Array Nat}
    (hx : (stepAction env .stabilise tk).run.run s = (.ok r, s')) : r.2 = tk := by
  unfold stepAction at hx
  dsimp only at hx
  obtain ⟨u, s1', h1', h2'⟩ := bind_ok_inv hx
  obtain ⟨e, -⟩ := pure_ok_inv h2'
  subst e; rfl

theorem RunOKD.append {env : Env} {as bs : List Action} {s s1 : State} {tk tk1 : Array Nat}
    (h : RunOKD env (as ++ bs) s tk) (h1 : runActions env as s tk = .ok (s1, tk1)) :
    RunOKD env as s tk ∧ RunOKD env bs s1 tk1 := by
  induction as generalizing s tk with
  | nil => simp only [runActions] at h1; cases h1; exact ⟨trivial, h⟩
  | cons a as ih =>
    simp only [runActions] at h1
    rcases hx : (stepAction env a tk).run.run s with ⟨_ | r, s2⟩
    · rw [hx] at h1; cases h1
    · rw [hx] at h1
      obtain ⟨ha, hrest⟩ := h
      obtain ⟨i1, i2⟩ := ih (hrest r s2 hx) h1
      refine ⟨⟨ha, fun r' s' hx' => ?_⟩, i2⟩
      rw [hx] at hx'; cases hx'; exact i1

/-- **whole runs**: from a state satisfying the invariant, a run of the fragment with drivers that returns ends in a
state satisfying the invariant -/
theorem run_d {env : Env} (hStab : StabSpec env) {rk : Nat → Nat} {acts : List Action} {s s' : State}
    {tk tk' : Array Nat} (Q : QInvX (noEff env) rk s) (ha : RunOKD env acts s tk)
    (h : runActions env acts s tk = .ok (s', tk')) : ∃ rk', QInvX (noEff env) rk' s' := by
  induction acts generalizing s tk rk with
  | nil => simp only [runActions] at h; cases h; exact ⟨rk, Q⟩
  | cons a as ih =>
    simp only [runActions] at h
    rcases hx : (stepAction env a tk).run.run s with ⟨_ | r, s1⟩
    · rw [hx] at h; cases h
    · rw [hx] at h
      obtain ⟨rk1, Q1⟩ := step_d hStab Q ha.1 hx
      exact ih Q1 (ha.2 r s1 hx) h

theorem prefix_d {env : Env} (hStab : StabSpec env) {rk : Nat → Nat} {as bs : List Action} {s0 s : State}
    {tk0 tk : Array Nat} (Q0 : QInvX (noEff env) rk s0) (ha : RunOKD env (as ++ bs) s0 tk0)
    (h : runActions env (as ++ bs) s0 tk0 = .ok (s, tk)) :
    ∃ s1 tk1 rk1, runActions env as s0 tk0 = .ok (s1, tk1) ∧ QInvX (noEff env) rk1 s1 ∧ RunOKD env bs s1 tk1 ∧
      runActions env bs s1 tk1 = .ok (s, tk) := by
  obtain ⟨s1, tk1, h1, h2⟩ := runActions_prefix h
  obtain ⟨i1, i2⟩ := ha.append h1
  obtain ⟨rk1, Q1⟩ := run_d hStab Q0 i1 h1
  exact ⟨s1, tk1, rk1, h1, Q1, i2, h2⟩

/-- **every `stabilise` of a run of the fragment with drivers**: the state before satisfies the invariant and its
drivers are well-formed; the `stabilise` establishes `StabilisedD` -/
theorem stabilise_in_run_d {env : Env} (hStab : StabSpec env) {rk : Nat → Nat} {as bs : List Action} {s0 s : State}
    {tk0 tk : Array Nat} (Q0 : QInvX (noEff env) rk s0) (ha : RunOKD env (as ++ Action.stabilise :: bs) s0 tk0)
    (h : runActions env (as ++ Action.stabilise :: bs) s0 tk0 = .ok (s, tk)) :
    ∃ s1 tk1 s2 rk1, runActions env as s0 tk0 = .ok (s1, tk1) ∧ QInvX (noEff env) rk1 s1 ∧ DrvOK env s1 ∧
      (stabilise env fuelDefault).run.run s1 = (.ok (), s2) ∧ StabilisedD env fuelDefault s1 s2 ∧
      runActions env bs s2 tk1 = .ok (s, tk) := by
  obtain ⟨s1, tk1, rk1, h1, Q1, hb, h2⟩ := prefix_d hStab Q0 ha h
  simp only [runActions] at h2
  rcases hx : (stepAction env .stabilise tk1).run.run s1 with ⟨_ | r, s2⟩
  · rw [hx] at h2; cases h2
  · rw [hx] at h2
    replace h2 : runActions env bs s2 r.2 = .ok (s, tk) := h2
    have hst := step_stabilise hx
    rw [stabilise_tokens hx] at h2
    have hd : DrvOK env s1 := hb.1
    exact ⟨s1, tk1, s2, rk1, h1, Q1, hd, hst, hStab rk1 fuelDefault s1 s2 Q1 hd hst, h2⟩

/-- **whole histories** from the initial state -/
theorem history_d {env : Env} (hStab : StabSpec env) {N : Nat} {d : Bool} {acts : List Action} {s : State}
    {tk : Array Nat} (ha : RunOKD env acts (State.init N d) #[])
    (h : runActions env acts (State.init N d) #[] = .ok (s, tk)) : ∃ rk, QInvX (noEff env) rk s :=
  run_d hStab (qinvX_init (noEff env) N d) ha h

/-- **every `stabilise` of a whole history** -/
theorem history_stabilise_d {env : Env} (hStab : StabSpec env) {N : Nat} {d : Bool} {as bs : List Action}
    {s : State} {tk : Array Nat}
    (ha : RunOKD env (as ++ Action.stabilise :: bs) (State.init N d) #[])
    (h : runActions env (as ++ Action.stabilise :: bs) (State.init N d) #[] = .ok (s, tk)) :
    ∃ s1 tk1 s2 rk1, runActions env as (State.init N d) #[] = .ok (s1, tk1) ∧ QInvX (noEff env) rk1 s1 ∧
      DrvOK env s1 ∧ (stabilise env fuelDefault).run.run s1 = (.ok (), s2) ∧ StabilisedD env fuelDefault s1 s2 ∧
      runActions env bs s2 tk1 = .ok (s, tk) :=
  stabilise_in_run_d hStab (qinvX_init (noEff env) N d) ha h

end IncrVerif.Proofs.DriverH
