import IncrVerif.Proofs.NestH92
/-!
# Total correctness for nested binds (F2), the run of a change detector, part 1: the four phases return; the height bound through the phases

* `T2f.rest_size`: phases 2–4 never remove a node, WHATEVER their outcome (`Step.Stamp`): the room proviso on the final state gives room after phase 1.
* `T2f.phase1_tot … T2f.phase3_tot`: the phases return — the total-correctness theorems of the phases (`lhsRunClosure_total2`, `lhsRelink_total2`,
  `lhsInvalidateOld_total2`) applied to the hypotheses that `NC.phase1/2/3` supply to the partial-correctness contracts.
* `T2f.hbo2_phase1/3/4`: the height bound `HBo2` through the phases that do not link (phase 2: `lhsRelink_total2`).
* `T2f.lim_*`: the bucket counts of the two heaps never change.
-/
namespace IncrVerif.Proofs.NestH
open IncrVerif.Engine IncrVerif.Proofs IncrVerif.Proofs.Step IncrVerif.Proofs.Sched IncrVerif.Proofs.Quiet
open IncrVerif.Proofs.BindH

namespace T2f

/-! ## phases 2–4 create no node and remove none, whatever the outcome -/

theorem presS_relink (env : Env) (fuel n b : Nat) (br : BindRec) (now : Int) (rhs : Nat) :
    Step.Pres Step.Stamp (Inval.lhsRelink env fuel n b br now rhs) := by
  unfold Inval.lhsRelink; qpres

theorem presS_inval (fuel : Nat) (br : BindRec) : Step.Pres Step.Stamp (Inval.lhsInvalidateOld fuel br) := by
  unfold Inval.lhsInvalidateOld; qpres

theorem presS_finish (env : Env) (fuel n : Nat) : Step.Pres Step.Stamp (Inval.lhsFinish env fuel n) := by
  unfold Inval.lhsFinish; qpres

/-- phases 2–4 -/
def rest (env : Env) (fuel n b : Nat) (br : BindRec) (now : Int) (rhs : Nat) : M (Option Nat) := do
  Inval.lhsRelink env fuel n b br now rhs
  Inval.lhsInvalidateOld fuel br
  Inval.lhsFinish env fuel n

/-- the node count after phase 1 is at most the final node count, whatever the outcome of phases 2–4 -/
theorem rest_size {env : Env} {fuel n b rhs : Nat} {br : BindRec} {now : Int} {s1 s' : State}
    {r : Except Panic (Option Nat)}
    (h : (rest env fuel n b br now rhs).run.run s1 = (r, s')) : s1.nodes.size ≤ s'.nodes.size := by
  have P : Step.Pres Step.Stamp (rest env fuel n b br now rhs) :=
    Step.Pres.bind (presS_relink env fuel n b br now rhs) fun _ =>
      Step.Pres.bind (presS_inval fuel br) fun _ => presS_finish env fuel n
  exact (P.h _ _ _ h).size

/-! ## the height bound through phases 1, 3, 4 -/

section
variable {env : Env} {rk rk' : Nat → Nat} {n b rhs : Nat} {br : BindRec} {l : List Nat} {s s1 s2 s3 : State}

/-- after the closure run, under the extended rank: old nodes keep their order and their position only grows; new nodes are unnecessary -/
theorem hbo2_phase1 (P : NC.P1 env rk rk' n b rhs br l s s1) (hB : HBo2 rk s allClosed) : HBo2 rk' s1 allClosed := by
  intro m hm _
  rcases P.cases m with ⟨h1, y, e⟩ | ⟨h1, h2⟩ | ⟨h1, -⟩
  · have hnec : s.isNecessary m = true := by
      rw [State.isNecessary, e] at hm; exact hm
    have h3 := hB m hnec rfl
    have hc := cnt_ext (rk := rk) (rk' := rk') P.ext h1 P.grow
    rw [e]
    show (s.nodeD m).height ≤ _
    omega
  · exfalso
    obtain ⟨-, -, -, -, -, c6, c7, c8, -⟩ := P.new h1 h2
    rcases (isNecessary_iff s1 m).1 hm with h | h | h
    · exact h c6
    · exact h c7
    · rw [c8] at h; cases h
  · have := nec_lt_size hm
    omega

/-- after the invalidation of the previous generation: survivors unchanged, dead nodes unnecessary -/
theorem hbo2_phase3 {dy : List Nat} (Rl : IRel2 dy s2 s3) (hB : HBo2 rk' s2 allClosed) : HBo2 rk' s3 allClosed := by
  intro m hm _
  by_cases hd : Dying s2 dy m
  · exfalso
    obtain ⟨-, -, -, -, d5, d6, d7, -⟩ := Rl.dead m hd
    rcases (isNecessary_iff s3 m).1 hm with h | h | h
    · exact h d5
    · exact h d6
    · rw [d7] at h; cases h
  · have e := Rl.other m hd
    rw [e, Rl.size]
    refine hB m ?_ rfl
    rw [State.isNecessary, e] at hm; exact hm

/-- after `maybe_change_value` -/
theorem hbo2_phase4 {v : Val} {ch : Bool} {r : Option Nat} {t s' : State} (Rl : StepRelB n v ch r t s')
    (hB : HBo2 rk' t allClosed) : HBo2 rk' s' allClosed := by
  intro m hm _
  rw [Rl.nec m] at hm
  rw [(Rl.shapes m).height, Rl.size]
  exact hB m hm rfl

end

/-! ## the bucket counts -/

theorem lim_started {N n : Nat} {s : State} (L : Lim N s) : Lim N (started n s) := ⟨L.ahh, L.rch⟩

theorem lim_eq {N : Nat} {s s' : State} (L : Lim N s) (ha : s'.ahh = s.ahh) (hr : s'.rch = s.rch) : Lim N s' :=
  ⟨by rw [ha]; exact L.ahh, by rw [hr]; exact L.rch⟩

theorem lim_last {N n : Nat} {v : Val} {ch : Bool} {r : Option Nat} {t s' : State} (L : Lim N t)
    (Rl : StepRelB n v ch r t s') (K : BC.LastK t s') : Lim N s' :=
  ⟨by rw [K.ahh]; exact L.ahh, by rw [maxAllowed_congr Rl.qsize]; exact L.rch⟩

/-! ## the phases return -/

section
variable {env : Env} {rk rk' : Nat → Nat} {N fuel n b rhs : Nat} {br : BindRec} {l : List Nat} {s s1 s2 : State}

/-- phase 1: the closure run returns (no proviso: node creation never fails) -/
theorem phase1_tot (I : DInv env s (some n)) (A : F2Inv env rk s) (X : NC.Pre2 env rk n b br s) :
    Tot (Inval.lhsRunClosure env n b br) (started n s) (fun _ _ => True) := by
  refine lhsRunClosure_total2 (ex := (· = br.main)) X.g0 X.ahh0 X.hb X.hlc
    (by rw [CC.started_self X.hlt]; exact X.hvn)
    (by
      obtain ⟨f, hf⟩ := A.closures b br X.hb
      rw [X.hlc] at hf
      exact ⟨f, BodyOK2.mono (s := s) (s' := started n s) rfl (fun r h _ => h) f _ hf⟩)
    (fun k r hk => by
      obtain ⟨h1, h2, h3⟩ := A.topOK k r hk
      obtain ⟨y, e⟩ := CC.started_upto n s r
      refine ⟨by rw [CC.started_size]; exact h1, by rw [e]; exact h2, fun b' => by rw [e]; exact h3 b'⟩)
    (fun m b' hk => by
      obtain ⟨y, e⟩ := CC.started_upto n s m
      rw [e] at hk ⊢
      exact A.lcCut m b' hk) ?_
  -- the lhs has a value
  have hch : s.children n = [br.lhs] := by
    have := NC.lc_children_all A.frag X.hb (by rw [X.hlc]; exact X.hvn)
    rw [X.hlc] at this; exact this
  have hmem : br.lhs ∈ s.children n := by rw [hch]; exact List.mem_cons_self ..
  obtain ⟨v, hv⟩ := I.kids_values br.lhs hmem
  have hlt : br.lhs < s.nodes.size := (A.frag.node n X.hlt).kidsIn br.lhs hmem
  have hvl : (s.nodeD br.lhs).valid = true := (A.frag.node n X.hlt).kidsValid br.lhs hmem
  refine ⟨v, ?_⟩
  rw [value_congr env s (started n s) (CC.started_size n s)
    (fun m => by obtain ⟨y, e⟩ := CC.started_upto n s m; rw [e]; rfl) br.lhs,
    Step.value_plain env s br.lhs (BS.BKind.not_mapRef (A.frag.node br.lhs hlt).kind)]
  exact hv

/-- phase 2: `lhsRelink` returns and keeps the height bound and the room -/
theorem phase2_tot (X : NC.Pre2 env rk n b br s) (A : F2Inv env rk s) (P : NC.P1 env rk rk' n b rhs br l s s1)
    (hB : HBo2 rk' s1 allClosed) (R : Room N s1) (hf : 3 * s1.nodes.size + 3 ≤ fuel) :
    Tot (Inval.lhsRelink env fuel n b br s.stabNum rhs) s1 (fun _ s' => HBo2 rk' s' allClosed ∧ Room N s') := by
  have est : s1.stabNum = s.stabNum := P.stabNum
  rw [← est]
  have emain : s1.nodeD br.main = s.nodeD br.main := P.old_other X.hml X.ne
  exact lhsRelink_total2 (br1 := { br with allNodesCreatedOnRhs := l }) (ex := (· = br.main))
    (dy := br.allNodesCreatedOnRhs) P.g rfl P.ahh P.bind rfl rfl X.hlc
    (by rw [emain]; exact X.hvm)
    (by show (s1.nodeD br.main).isNecessary = true; rw [emain]; exact X.necMain)
    P.rlt (P.rhs_notDy X A) P.rhsK
    (by
      rcases P.rhs with h3 | h3
      · exact Or.inl h3
      · right
        obtain ⟨k1, k2, -⟩ := P.new h3 P.rlt
        exact ⟨k1, k2⟩)
    (fun o ho => by
      obtain ⟨k0, hk⟩ := A.rhsOK b br o X.hb ho X.hvm
      have hoc : o ∈ s.children br.main := by
        rw [NC.main_children_all A.frag X.hb X.hvm, ho]
        exact List.mem_cons_of_mem _ (List.mem_cons_self ..)
      have hlt : o < s.nodes.size := (A.frag.node br.main X.hml).kidsIn o hoc
      obtain ⟨e1, -, e3, -⟩ := P.sh hlt
      refine ⟨fun b' => by rw [e1]; exact k0 b', ?_⟩
      rcases hk with ⟨k1, k2⟩ | ⟨k1, k2⟩
      · left
        rw [X.hlc] at k2
        exact ⟨by rw [e3]; exact k1, (P.ext o n hlt X.hlt).2 k2⟩
      · right
        exact ⟨by rw [e3]; exact k1, X.dy_of_scope A k2 k1⟩)
    (fun m hm => by
      obtain ⟨hlt, -, k⟩ := X.dyOld A hm
      rw [(P.sh hlt).2.2.1]; exact k)
    (P.noForce A) (P.rel.pinv.trans A.pinv)
    (by rw [emain, est]; exact X.hmr)
    hB R hf

/-- phase 3: `lhsInvalidateOld` returns -/
theorem phase3_tot (X : NC.Pre2 env rk n b br s) (A : F2Inv env rk s) (P : NC.P1 env rk rk' n b rhs br l s s1)
    (Q : NC.P2 env rk' n b rhs br l s1 s2) (hf : s2.nodes.size + 2 ≤ fuel) :
    Tot (Inval.lhsInvalidateOld fuel br) s2 (fun _ _ => True) := by
  have hnd := P.rhs_notDy X A
  have hdy : ∀ m, m ∈ br.allNodesCreatedOnRhs →
      m < s2.nodes.size ∧ (s2.nodeD m).createdIn = .bind b ∧ (s2.nodeD m).valid = true := by
    intro m hm
    obtain ⟨hlt, k1, k2⟩ := X.dyOld A hm
    obtain ⟨-, e2, e3, -⟩ := NC.sh2 P Q hlt
    refine ⟨?_, by rw [e3]; exact k2, by rw [e2]; exact k1⟩
    rw [Q.rel.size]; have := P.grow; omega
  have hpar : ∀ m, m ∈ br.allNodesCreatedOnRhs → (s2.nodeD m).parents = [] := by
    apply Q.g.scope_no_parents Q.rel.bind (· ∈ br.allNodesCreatedOnRhs)
    · intro m hm; exact ⟨(hdy m hm).1, (hdy m hm).2.1⟩
    · intro p m hp hmc hm
      have hpl := lt_size_of_mem_children hmc
      obtain ⟨-, br', hb', hlt', hkids⟩ := (Q.g.frag.node p hpl).inScope b hp
      rcases hkids m hmc with k1 | ⟨-, k3⟩ | ⟨b2, lc2, k4, k5⟩
      · rw [(hdy m hm).2.1] at k1; cases k1
      · exact k3.1 hm
      · exfalso
        rw [(hdy m hm).2.1] at k5
        injection k5 with e
        subst e
        obtain ⟨br2, hb2, hm2, -⟩ := (Q.g.frag.node p hpl).mainRec _ lc2 k4
        rw [hb'] at hb2; cases hb2
        omega
    · intro m hm hr _
      have : rhs = m := Option.some.inj hr
      rw [this] at hnd; exact hnd hm
    · intro m k h; cases h
    · intro m _; exact Q.noForce m
  exact lhsInvalidateOld_total2 (b := b) Q.g (A.rhsNone b br X.hb)
    (fun m hm => ⟨(hdy m hm).2.1, hpar m hm, (hdy m hm).2.2⟩)
    (fun br1 r hb1 hr => by
      rw [Q.rel.bind] at hb1
      cases hb1
      have : rhs = r := Option.some.inj hr
      rw [← this]; exact hnd)
    Q.noForce (fun m => by rw [Q.num]; exact P.noHandlers A m) Q.pinv
    (fun b' br' hb' hr => by
      rcases NC.binds2_cases X P Q b' with ⟨-, e⟩ | ⟨-, -, e⟩ | ⟨-, hge, e⟩
      · rw [e] at hb'; cases hb'; cases hr
      · rw [e] at hb'; exact A.rhsNone b' br' hb' hr
      · rw [e] at hb'; exact (P.binds_new hge hb').2.1)
    hf

end

end T2f

end IncrVerif.Proofs.NestH
