import IncrVerif.Proofs.FullH56
/-!
# C01 full fragment: the `didChange` invariant through a run of a change detector, part 4
(the skeleton of `lhsRelink`: the state `u` in which the new right-hand side is linked, `state_add_parent` = the linking cascade followed by light
steps, the unlinking of the old right-hand side)
-/
namespace IncrVerif.Proofs.FullH
open IncrVerif.Engine IncrVerif.Proofs IncrVerif.Proofs.Step IncrVerif.Proofs.Sched IncrVerif.Proofs.Quiet
namespace KL

theorem propagateInvalidity_nil {fuel : Nat} {u u' : State} (hp : u.propagateInvalidity = [])
    (h : (propagateInvalidity fuel).run.run u = (.ok (), u')) : u' = u := by
  cases fuel with
  | zero => unfold propagateInvalidity at h; cases h
  | succ fuel =>
    unfold propagateInvalidity at h
    rw [run_bind_get, hp] at h
    exact (pure_ok_inv h).2

theorem sap_tail_inv {fuel c p : Nat} {u u' : State} (hp : u.propagateInvalidity = [])
    (h : (do
          propagateInvalidity fuel
          let __do_lift ← get
          dassert (__do_lift.isNecessary p) "node:state_add_parent:parent-necessary"
          let p_1 ← getNode p
          let c ← getNode c
          if (!p_1.inRch && (p_1.recomputedAt == -1 || decide (c.changedAt > p_1.recomputedAt))) = true then rchInsert p
            else pure () : M Unit).run.run u = (.ok (), u')) : HF u u' := by
  obtain ⟨_, u2, h1, h2⟩ := bind_ok_inv h
  have e := propagateInvalidity_nil hp h1
  rw [e] at h2
  refine Step.Pres.h ?_ _ _ _ h2
  qpres

theorem stateAddParent_inv {env : Env} {fuel c i p : Nat} {u u' : State}
    (h : (stateAddParent env fuel c i p).run.run u = (.ok (), u')) :
    ∃ u1, (addParentWithoutAdjustingHeights env fuel c i p).run.run u = (.ok (), u1) ∧
      (u1.propagateInvalidity = [] → HF u1 u') := by
  unfold stateAddParent at h
  rw [run_bind_get] at h
  replace h := bind_dassert_inv h
  obtain ⟨_, u1, h1, h⟩ := bind_ok_inv h
  refine ⟨u1, h1, fun hp => ?_⟩
  obtain ⟨nc, hnc, h⟩ := bind_getNode_inv h
  obtain ⟨np, hnp, h⟩ := bind_getNode_inv h
  dsimp only at h
  split at h
  · obtain ⟨_, u2, h2, h⟩ := bind_ok_inv h
    have H2 : HF u1 u2 := (PresHF.adjustHeights c p fuel).h _ _ _ h2
    exact PreOrd.trans H2 (sap_tail_inv (H2.pinv.trans hp) h)
  · exact sap_tail_inv hp h

/-- node `b` is node `a` up to the parent list, the `forceNecessary` bit and the `changedAt` stamp -/
def NodeUp (a b : Node) : Prop := ∃ pl f c, b = { a with parents := pl, forceNecessary := f, changedAt := c }
theorem NodeUp.refl (a : Node) : NodeUp a a := ⟨a.parents, a.forceNecessary, a.changedAt, rfl⟩
theorem NodeUp.trans {a b c : Node} (h1 : NodeUp a b) (h2 : NodeUp b c) : NodeUp a c := by
  obtain ⟨p1, f1, c1, rfl⟩ := h1
  obtain ⟨p2, f2, c2, rfl⟩ := h2
  exact ⟨p2, f2, c2, rfl⟩

/-- the state `u` in which the new right-hand side is linked (`state_add_parent rhs 1 main`), against the state `s1` after the closure run -/
structure PreU (n b rhs : Nat) (s1 u : State) : Prop where
  size : u.nodes.size = s1.nodes.size
  node : ∀ m, NodeUp (s1.nodeD m) (u.nodeD m)
  chg : ∀ m, m ≠ n → (u.nodeD m).changedAt = (s1.nodeD m).changedAt
  nec : ∀ m, u.isNecessary m = s1.isNecessary m
  binds : u.binds = s1.binds.modify b fun x => { x with rhs := some rhs }
  pinv : u.propagateInvalidity = s1.propagateInvalidity
  pc : u.panicCountdown = s1.panicCountdown

theorem shk_unforce (s : State) (o : Nat) :
    SHk s { s with nodes := s.nodes.modify o fun x => { x with forceNecessary := false } } := by
  refine ⟨by simp, fun m => ?_, fun m => ?_, fun m => ?_, fun m hd => ?_, fun m hm => ?_⟩
  · rw [nodeD_modify]; split <;> rfl
  · rw [nodeD_modify]; split <;> rfl
  · rw [nodeD_modify]; split <;> rfl
  · rw [nodeD_modify] at hd; split at hd <;> exact hd
  · rw [Quiet.isNecessary_iff] at hm ⊢
    rw [nodeD_modify] at hm
    split at hm
    · rcases hm with hm | hm | hm
      · exact Or.inl hm
      · exact Or.inr (Or.inl hm)
      · cases hm
    · exact hm

theorem lhsRelink_inv {env : Env} {fuel n b : Nat} {br : BindRec} {now : Int} {rhs : Nat} {s1 s2 : State}
    (h : (Inval.lhsRelink env fuel n b br now rhs).run.run s1 = (.ok (), s2)) :
    ∃ u, PreU n b rhs s1 u ∧
      (s2 = u ∨ ∃ u', (stateAddParent env fuel rhs 1 br.main).run.run u = (.ok (), u') ∧ SHk u' s2) := by
  unfold Inval.lhsRelink Engine.modBind at h
  obtain ⟨a1, ha1, h⟩ := bind_modify_inv h
  obtain ⟨a2, ha2, h⟩ := bind_modNode_inv h
  have P2 : PreU n b rhs s1 a2 := by
    rw [ha2, ha1]
    refine ⟨by simp, fun m => ?_, fun m hm => ?_, fun m => ?_, rfl, rfl, rfl⟩
    · show NodeUp (s1.nodeD m) (({ s1 with nodes := s1.nodes.modify n _ } : State).nodeD m)
      rw [nodeD_modify]; split
      · exact ⟨_, _, now, rfl⟩
      · exact NodeUp.refl _
    · show (({ s1 with nodes := s1.nodes.modify n _ } : State).nodeD m).changedAt = _
      rw [nodeD_modify, if_neg (fun e => hm e.1.symm)]
    · show (({ s1 with nodes := s1.nodes.modify n _ } : State).nodeD m).isNecessary = _
      rw [nodeD_modify]; split <;> rfl
  unfold changeChildBindRhs at h
  obtain ⟨nd, hnd, h⟩ := bind_getNode_inv h
  split at h
  · -- the main node is a valid `bindMain` node
    cases hr : br.rhs with
    | none =>
      rw [hr] at h
      exact ⟨a2, P2, Or.inr ⟨s2, h, SHk.refl _⟩⟩
    | some o =>
      rw [hr] at h
      dsimp only at h
      split at h
      · exact ⟨a2, P2, Or.inl (pure_ok_inv h).2⟩
      · unfold removeParent at h
        simp only [bind_assoc] at h
        obtain ⟨c, hc, h⟩ := bind_getNode_inv h
        cases hidx : c.parents.idxOf? (br.main, 1) with
        | none =>
          rw [hidx] at h; dsimp only at h
          obtain ⟨_, _, hp, _⟩ := bind_ok_inv h
          rw [run_panic] at hp; cases hp
        | some pi =>
          rw [hidx] at h
          dsimp only at h
          obtain ⟨a3, ha3, h⟩ := bind_modNode_inv h
          obtain ⟨a4, ha4, h⟩ := bind_modNode_inv h
          obtain ⟨_, a5, h5, h⟩ := bind_ok_inv h
          obtain ⟨a6, ha6, h⟩ := bind_modNode_inv h
          have hco : a2.nodeD o = c := nodeD_of_some hc
          have holt : o < a2.nodes.size := lt_of_some hc
          have hmem : (a2.nodeD o).parents ≠ [] := by
            rw [hco]
            unfold List.idxOf? at hidx
            rw [List.findIdx?_eq_some_iff_getElem] at hidx
            obtain ⟨hk, -, -⟩ := hidx
            intro e; rw [e] at hk; cases hk
          have e4 : a4 = { a2 with nodes := (a2.nodes.modify o (BindH.BR.fDrop pi)).modify o (BindH.BR.fForce true) } := by
            rw [ha4, ha3]; rfl
          have n4 : ∀ m, a4.nodeD m = if o = m ∧ m < a2.nodes.size then
              BindH.BR.fForce true (BindH.BR.fDrop pi (a2.nodeD m)) else a2.nodeD m := by
            intro m; rw [e4]; exact BindH.BR.nodeD_modify2 a2 o m _ _
          have P4 : PreU n b rhs s1 a4 := by
            refine ⟨?_, fun m => ?_, fun m hm => ?_, fun m => ?_, ?_, ?_, ?_⟩
            · rw [e4]; simp; exact P2.size
            · refine (P2.node m).trans ?_
              rw [n4]; split
              · exact ⟨_, _, _, rfl⟩
              · exact NodeUp.refl _
            · rw [← P2.chg m hm, n4]; split <;> rfl
            · rw [← P2.nec m]
              show (a4.nodeD m).isNecessary = (a2.nodeD m).isNecessary
              rw [n4]; split
              · rename_i hm
                obtain ⟨rfl, -⟩ := hm
                have : (a2.nodeD o).isNecessary = true := by
                  have := (Quiet.isNecessary_iff a2 o).2 (Or.inl hmem)
                  exact this
                rw [this]
                simp [BindH.BR.fForce, BindH.BR.fDrop, Node.isNecessary]
              · rfl
            · rw [e4]; exact P2.binds
            · rw [e4]; exact P2.pinv
            · rw [e4]; exact P2.pc
          refine ⟨a4, P4, Or.inr ⟨a5, h5, ?_⟩⟩
          have S6 : SHk a5 a6 := by rw [ha6]; exact shk_unforce a5 o
          exact S6.trans (SHk.of_sh (MapRefH.checkIfUnnecessary_sh h))
  · exact ⟨a2, P2, Or.inl (pure_ok_inv h).2⟩

end KL
end IncrVerif.Proofs.FullH
