import IncrVerif.Proofs.BindH84
/-!
# Binds, part 4c-5 (B4): creation of a static top-level node keeps `QInv1`
-/
namespace IncrVerif.Proofs.BindH
open IncrVerif.Engine IncrVerif.Driver IncrVerif.Proofs IncrVerif.Proofs.Step IncrVerif.Proofs.Sched IncrVerif.Proofs.Quiet

namespace C2c

/-- registering the new node in the naming table (and the handle list) keeps the extension relation -/
theorem Ext.withTop {s s1 : State} (E : Ext s s1) (tp : Array Nat) (hd : List Nat) :
    Ext s { s1 with top := tp, handles := hd } :=
  ⟨E.grow, E.old, E.new, E.bgrow, E.bold, E.vars, E.rch, E.ahh, E.pc, E.scope, E.stabNum, E.status, E.alive,
    E.setDuringStab, E.deadVars, E.handleAfterStab, E.pinv, E.observers, E.newObservers, E.disallowedObservers⟩

/-- what the naming table says about an operand -/
theorem top_entry {env : Env} {s : State} (Q : QInv1 env s) {j c : Nat} (h : s.top[j]? = some c) :
    c < s.nodes.size ∧ (s.nodeD c).createdIn = .top ∧ (∀ b', (s.nodeD c).kind ≠ .bindLhsChange b') ∧
      (s.nodeD c).valid = true := by
  obtain ⟨h1, h2, h3⟩ := Q.f1.topOK j c h
  exact ⟨h1, h2, h3, ((Q.struct.frag.node c h1).top h2).1⟩

namespace Made
variable {env : Env} {k : Kind} {s s1 : State}

theorem size (C : Made k s s1) : s1.nodes.size = s.nodes.size + 1 := by
  rw [C.nodes, Array.size_push]

theorem nodeD_new (C : Made k s s1) : s1.nodeD s.nodes.size = newNode k := by
  show s1.nodes[s.nodes.size]?.getD default = _
  rw [C.nodes, nodeD_push, if_pos rfl]

theorem children_new (C : Made k s s1) (hk : StaticKind env k) : s1.children s.nodes.size = kids k := by
  unfold State.children Node.kind?
  rw [C.nodeD_new]
  simp only [newNode, if_true]
  cases k <;> first | rfl | exact hk.elim

theorem stale_new (C : Made k s s1) (h0 : 0 ≤ s.stabNum) (hk : StaticKind env k) :
    s1.isStale s.nodes.size = true := by
  unfold State.isStale Node.kind?
  rw [C.nodeD_new]
  simp only [newNode, if_true]
  cases k with
  | var c =>
    rcases C.vars with ⟨h, -⟩ | ⟨v, e, ev⟩
    · exact absurd rfl (h c)
    · injection e with e
      simp only
      rw [ev, e, Array.getElem?_push, if_pos rfl]
      simp only [gt_iff_lt, decide_eq_true_eq]; omega
  | const v => rfl
  | map f args => rfl
  | fold f init cs => rfl
  | _ => exact hk.elim

theorem varsOK (C : Made k s s1) (V : VarsOK s) : VarsOK s1 := by
  have E := C.ext
  constructor
  · intro n c hn hkd
    rw [C.size] at hn
    by_cases e : n = s.nodes.size
    · rw [e, C.nodeD_new] at hkd
      rcases C.vars with ⟨h, -⟩ | ⟨v, ek, ev⟩
      · exact absurd hkd (h c)
      · have hc : c = s.vars.size := by
          have : k = .var c := hkd
          rw [this] at ek; injection ek
        refine ⟨{ value := v, setAt := s.stabNum, node := s.nodes.size }, ?_, e.symm⟩
        rw [ev, hc, Array.getElem?_push, if_pos rfl]
    · have hlt : n < s.nodes.size := by omega
      rw [E.old n hlt] at hkd
      obtain ⟨vc, h1, h2⟩ := V.node n c hlt hkd
      exact ⟨vc, E.vars_old h1, h2⟩
  · intro c vc h
    have old : s.vars[c]? = some vc → vc.node < s1.nodes.size ∧ (s1.nodeD vc.node).kind = .var c := by
      intro h'
      obtain ⟨h1, h2⟩ := V.cell c vc h'
      rw [C.size, E.old _ h1]
      exact ⟨by omega, h2⟩
    rcases C.vars with ⟨-, e⟩ | ⟨v, ek, ev⟩
    · rw [e] at h; exact old h
    · rw [ev, Array.getElem?_push] at h
      split at h
      · rename_i hc
        injection h with h
        rw [← h, C.size]
        refine ⟨by simp, ?_⟩
        show (s1.nodeD s.nodes.size).kind = _
        rw [C.nodeD_new, hc]; exact ek
      · exact old h

/-- the static facts about the new node -/
theorem n1_new (C : Made k s s1) (Q : QInv1 env s) (hk : StaticKind env k)
    (hkids : ∀ c, c ∈ kids k → ∃ j : Nat, s.top[j]? = some c) : N1 env s1 [] s.nodes.size := by
  have E := C.ext
  have hch := C.children_new hk
  have hkind : (s1.nodeD s.nodes.size).kind = k := by rw [C.nodeD_new]; rfl
  have notLc : ∀ b, k ≠ .bindLhsChange b := by
    intro b e; rw [e] at hk; exact hk
  have notMain : ∀ b lc, k ≠ .bindMain b lc := by
    intro b lc e; rw [e] at hk; exact hk
  have kid : ∀ c, c ∈ s1.children s.nodes.size →
      c < s.nodes.size ∧ (s1.nodeD c).createdIn = .top ∧ (∀ b', (s1.nodeD c).kind ≠ .bindLhsChange b') ∧
        (s1.nodeD c).valid = true := by
    intro c hc
    rw [hch] at hc
    obtain ⟨j, hj⟩ := hkids c hc
    obtain ⟨h1, h2, h3, h4⟩ := top_entry Q hj
    rw [E.old c h1]
    exact ⟨h1, h2, h3, h4⟩
  refine ⟨?_, ?_, ?_, ?_, ?_, ?_, ?_, ?_, ?_⟩
  · rw [hkind]
    cases k <;> first | exact hk | exact hk.elim
  · rw [C.nodeD_new]; exact Or.inl rfl
  · intro c hc
    have := (kid c hc).1
    rw [C.size]; omega
  · intro c hc; exact (kid c hc).2.2.2
  · intro b h
    rw [hkind] at h; exact absurd h (notLc b)
  · intro b lc h
    rw [hkind] at h; exact absurd h (notMain b lc)
  · intro c b hc h
    exact absurd h ((kid c hc).2.2.1 b)
  · intro _
    refine ⟨by rw [C.nodeD_new]; rfl, fun c hc => Or.inl ⟨(kid c hc).2.1, (kid c hc).1⟩⟩
  · intro b h
    rw [C.nodeD_new] at h; cases h

/-- the checks on the new node for a static creation, after the node has been entered in the naming table -/
theorem newOK (C : Made k s s1) (Q : QInv1 env s) (hk : StaticKind env k)
    (hkids : ∀ c, c ∈ kids k → ∃ j : Nat, s.top[j]? = some c) (hd : List Nat) :
    NewOK env s { s1 with top := s1.top.push s.nodes.size, handles := hd } := by
  have E := C.ext
  -- the static facts, child lists and staleness do not read the naming table
  have hN : N1 env { s1 with top := s1.top.push s.nodes.size, handles := hd } [] s.nodes.size := by
    have h := C.n1_new Q hk hkids
    exact ⟨h.kind, h.cutoff, h.kidsIn, h.kidsValid, h.lcRec, h.mainRec, h.lcChild, h.top, h.inScope⟩
  have hS : State.isStale { s1 with top := s1.top.push s.nodes.size, handles := hd } s.nodes.size = true :=
    C.stale_new Q.now hk
  have hV : VarsOK { s1 with top := s1.top.push s.nodes.size, handles := hd } := by
    have h := C.varsOK Q.vars
    exact ⟨h.node, h.cell⟩
  have hkind : (s1.nodeD s.nodes.size).kind = k := by rw [C.nodeD_new]; rfl
  refine ⟨?_, ?_, ?_, ?_, hV, ?_⟩
  · intro n h1 h2
    have h2' : n < s1.nodes.size := h2
    rw [C.size] at h2'
    have : n = s.nodes.size := by omega
    rw [this]; exact hN
  · intro n h1 h2
    have h2' : n < s1.nodes.size := h2
    rw [C.size] at h2'
    have : n = s.nodes.size := by omega
    rw [this]; exact hS
  · intro n b h1 h
    exfalso
    have h' : (s1.nodeD n).kind = .bindLhsChange b := h
    by_cases e : n = s.nodes.size
    · rw [e, hkind] at h'
      rw [h'] at hk; exact hk
    · rw [nodeD_default s1 n (by rw [C.size]; omega)] at h'
      cases h'
  · intro b br h1 h
    exfalso
    have h' : s1.binds[b]? = some br := h
    rw [C.binds, Array.getElem?_eq_none h1] at h'
    cases h'
  · refine ⟨s.nodes.size, ?_, Nat.le_refl _, ?_, ?_⟩
    · show s1.top.push _ = _
      rw [C.top]
    · show s.nodes.size < s1.nodes.size
      rw [C.size]; omega
    · intro b h
      have h' : (s1.nodeD s.nodes.size).kind = .bindLhsChange b := h
      rw [hkind] at h'
      rw [h'] at hk; exact hk

end Made
end C2c
end IncrVerif.Proofs.BindH
