import IncrVerif.Proofs.FullH46
import IncrVerif.Proofs.FullH23
import IncrVerif.Proofs.FullH39
import IncrVerif.Proofs.FullH40
import IncrVerif.Proofs.NestH123
/-!
# C01 full fragment: `stabilise` — the invariant between API actions is re-established, every in-use observer reads `den2` of the virtual state
-/
namespace IncrVerif.Proofs.FullH
open IncrVerif.Engine IncrVerif.Driver IncrVerif.Proofs IncrVerif.Proofs.Step IncrVerif.Proofs.Sched IncrVerif.Proofs.Quiet
open IncrVerif.Proofs.BindH (DInv BGraph StepRelB FrameB TargetB ConsistentB DKey NKey)
open IncrVerif.Proofs.NestH (AuxS2 Aux2 GenOK2 F2Inv StepL2 LcStepsOK2 QG2 QI2 QInv2 SInv2 den2)

section
variable {env : Env} {sp : Nat → Val → Val}

/-- `Finished'` (the description of `stabiliseEnd`) of the actual states gives it for the virtual states -/
theorem finished_virt {t s' : State} (g : Nat → Option Val) (E : Finished' t s') : Finished' (virt g t) (virt g s') where
  size := by rw [virt_size, virt_size]; exact E.size
  node m := by
    obtain ⟨b, hb⟩ := E.node m
    refine ⟨b, ?_⟩
    rw [virt_nodeD, virt_nodeD, hb]
    unfold virtNode
    cases (t.nodeD m).kind <;> rfl
  vars := E.vars
  rch := E.rch
  ahh := E.ahh
  observers := E.observers
  newObservers := E.newObservers
  disallowedObservers := E.disallowedObservers
  allObservers := E.allObservers
  scope := E.scope
  pc := E.pc
  top := E.top
  handles := E.handles
  alive := E.alive
  pinv := E.pinv
  cfg := E.cfg
  stabNum := E.stabNum
  status := E.status
  setDuringStab := E.setDuringStab
  deadVars := E.deadVars
  handleAfterStab := E.handleAfterStab

/-- `DepInv` for another ghost that agrees on the valid nodes (the inputs of valid nodes are valid) -/
theorem DepInv.of_ghost {g g' : Nat → Option Val} {s : State} (D : DepInv g s)
    (hg : ∀ m, (s.nodeD m).valid = true → g' m = g m)
    (hkv : ∀ x c, (s.nodeD x).valid = true → c ∈ s.children x → (s.nodeD c).valid = true) : DepInv g' s := by
  intro x a b w hv hk hc hca hw
  have hav : (s.nodeD a).valid = true := hkv x a hv (by rw [children_depend hv hk]; simp)
  have : tv g' s a = tv g s a := by
    by_cases hmr : ∀ p i, (s.nodeD a).kind ≠ .mapRef p i
    · rw [tv_not_mapRef hmr, tv_not_mapRef hmr]
    · have : ∃ p i, (s.nodeD a).kind = .mapRef p i := by
        cases hkd : (s.nodeD a).kind <;>
          first | exact ⟨_, _, rfl⟩ | (exfalso; apply hmr; intro p i; rw [hkd]; intro h; cases h)
      obtain ⟨p, i, hka⟩ := this
      rw [tv_mapRef hka, tv_mapRef hka, hg a hav]
  rw [this]
  exact D x a b w hv hk hc hca hw

/-- what `stabilise` establishes -/
structure StabF (env : Env) (sp : Nat → Val → Val) (s s' : State) (g' : Nat → Option Val) : Prop where
  inv : QInvF env sp s' g'
  newObservers : s'.newObservers = []
  disallowedObservers : s'.disallowedObservers = []
  vars : s'.vars = s.vars
  stabNum : s'.stabNum = s.stabNum + 1
  top : s'.top = s.top
  obs : ObsMap stabilisedState s s'
  /-- every necessary node is valid and not stale -/
  fresh : ∀ n, s'.isNecessary n = true → (s'.nodeD n).valid = true ∧ s'.isStale n = false

set_option maxHeartbeats 1000000 in
/-- **`stabilise` on a program of the full fragment.** -/
theorem stabilise_full (X : Kit env sp) {fuel : Nat} {s s' : State} {g : Nat → Option Val} (Q : QInvF env sp s g)
    (h : (stabilise env fuel).run.run s = (.ok (), s')) : ∃ g', StabF env sp s s' g' := by
  obtain ⟨⟨rk, Qv⟩, Gv⟩ := Q.q
  have hst := h
  unfold stabilise at h
  rw [run_bind_get] at h
  obtain ⟨_, sa, ha, h⟩ := bind_ok_inv h
  have hsa : sa = s := by
    rw [run_assertM] at ha
    split at ha <;> cases ha
    rfl
  rw [hsa] at h
  obtain ⟨s0, hs0, h⟩ := bind_modify_inv h
  obtain ⟨_, t1, h1, h⟩ := bind_ok_inv h
  obtain ⟨_, t2, h2, h⟩ := bind_ok_inv h
  obtain ⟨_, t3, h3, h4⟩ := bind_ok_inv h
  have hn0 : s0.nodes = s.nodes := by rw [hs0]
  have hnd0 : ∀ m, s0.nodeD m = s.nodeD m := fun m => by simp [State.nodeD, hn0]
  have e0 : virt g s0 = { virt g s with status := .stabilising } := by rw [hs0]; rfl
  -- the virtual state with the status set
  have S0 : SInv2 (VE env sp) rk (virt g s0) (virt g s0).newObservers (virt g s0).disallowedObservers := by
    have I0 := SInv2.of_qinv2 Qv
    rw [e0]
    exact NestH.N4p.sInv2_congr I0 rfl rfl rfl rfl rfl rfl rfl rfl
  have Fr0 : Fr (FK env sp) g s0 := Q.frag.fr.of_nodes hn0
  have hp0 : s0.propagateInvalidity = [] := by
    have := Qv.f2.pinv; rw [hs0]; exact this
  -- phase 1: add_new_observers (same ghost: nothing to propagate)
  obtain ⟨g1, h1v, Fr1, R1⟩ := SimX.addNewObservers (K := FK env sp) (sp := sp) env fuel g s0 Fr0 () t1 h1
  have vm1 := R1.vm
  obtain ⟨S1, hn1, hd1, F1, O1, -⟩ := NestH.addNewObservers_s2 S0 h1v
  have M1 := NestH.addNewObservers_marks2 S0 h1v
  -- phase 2: unlink_disallowed_observers
  obtain ⟨h2v, Fr2, vm2⟩ := Sim.unlinkDisallowedObservers (K := FK env sp) (g := g1) fuel t1 Fr1 () t2 h2
  obtain ⟨S2, hn2, hd2, F2, O2⟩ := NestH.unlinkDisallowedObservers_s2 S1 hn1 h2v
  have M2 := NestH.unlinkDisallowedObservers_marks2 S1 hn1 h2v
  have F : BindH.C2s.PreF (virt g s) (virt g1 t2) := BindH.C2s.PreF.of e0 (F1.trans F2) (fun m => (M2 m).trans (M1 m))
  obtain ⟨D2, A2⟩ := NestH.N4s.drain_start2 Qv F S2
  have G2 : GenOK2 (VE env sp) (virt g1 t2) :=
    NestH.N5g.genOK2_frame Gv Qv.f2.frag F.binds F.top F.kind F.valid F.recomputedAt F.changedAt F.value
  have X2 : AuxS2 (VE env sp) (virt g1 t2) (virt g1 t2) := ⟨⟨rk, A2⟩, DKey.refl _, NKey.refl _⟩
  -- the ghost invariants through the two phases
  have F0 : FFrag env sp g s0 := ⟨Fr0, by
    intro n nd p i hn hk; exact Q.frag.back n nd p i (by rw [← hn0]; exact hn) hk, by rw [hs0]; exact Q.frag.pc⟩
  have C0 : CFrag env sp g rk (s0) := by
    refine cfrag_of_ginv2 F0 S0.struct (fun _ => rfl) (fun m => ?_)
    have := S0.noForce m
    rw [virt_nodeD, virtNode_forceNecessary] at this; exact this
  have K0' : KInv env g s0 :=
    Q.k.congr (fun m => by rw [hnd0]) (fun m => by simp [State.isNecessary, hnd0]) (fun m => by rw [hnd0])
      (fun m hd => by rw [← hnd0]; exact hd)
      (fun m p i _ _ _ _ => value_congr env s s0 (by rw [hn0]) (fun k => by simp only [valueCore, hnd0]) m)
  have T0 : Inherit env g s0 := inherit_of_cons F0 (fun m hm hv hst => by
    have := Qv.cons m (by rw [virt_size, ← hn0]; exact hm) (by rw [virt_nodeD, virtNode_valid, ← hnd0]; exact hv)
      (by rw [virt_isStale]; rw [hs0] at hst; exact hst)
    rw [e0]; exact this)
  have Mi0 : MInv env s0 := fun n m i hv hk => by
    rw [hnd0] at hv hk ⊢; exact Q.m n m i hv hk
  have Gs0 : GSome g s0 := fun m p i hv hk hd => by
    rw [hnd0] at hv hk hd; exact Q.gs m p i hv hk hd
  obtain ⟨K1g, hp1, -, -⟩ := addNewObservers_keepsK C0 T0 hp0 K0' h1
  have K1 : KInv env g1 t1 := K1g.of_ghost (fun m hv => R1.valid_eq hv)
  have Mi1 := addNewObservers_mInv C0 T0 hp0 K0' Mi0 h1
  have Gs1 : GSome g1 t1 := Gs0.of_gr R1
  obtain ⟨K2, -⟩ := unlinkDisallowedObservers_keepsK K1 h2
  have Mi2 := unlinkDisallowedObservers_mInv Mi1 h2
  have Gs2 := unlinkDisallowedObservers_gSome Gs1 h2
  have Dp0 : DepInv g s0 := fun x a b w hv hk hc hca hw => by
    rw [hnd0] at hv hk hc hw
    rw [hnd0, hnd0] at hca
    have : tv g s0 a = tv g s a := by simp only [tv, virt_nodeD, hnd0]
    rw [this]; exact Q.dep x a b w hv hk hc hca hw
  have Dp1g := addNewObservers_depInv C0 T0 hp0 K0' Dp0 h1
  have hkv1 : ∀ x c, (t1.nodeD x).valid = true → c ∈ t1.children x → (t1.nodeD c).valid = true := by
    intro x c hxv hc
    have hx : x < t1.nodes.size := by
      by_cases hx : x < t1.nodes.size
      · exact hx
      · rw [BindH.children_default t1 x (by omega)] at hc; cases hc
    have := (S1.struct.frag.node x (by rw [virt_size]; exact hx)).kidsValid c (by rw [virt_children]; exact hc)
    rw [virt_nodeD, virtNode_valid] at this; exact this
  have Dp1 : DepInv g1 t1 := Dp1g.of_ghost (fun m hv => R1.valid_eq hv) hkv1
  have Dp2 := unlinkDisallowedObservers_depInv Dp1 h2
  have C2 : CRl t2 := by
    intro m _ _ _ hcm
    exfalso
    have h1' := F.changedAt m
    have h2' := F.stabNum
    have h3' := (Qv.stamps m).2
    rw [virt_nodeD, virt_nodeD, virtNode_changedAt, virtNode_changedAt] at h1'
    rw [virt_nodeD, virtNode_changedAt] at h3'
    have e1 : (virt g1 t2).stabNum = t2.stabNum := rfl
    have e2 : (virt g s).stabNum = s.stabNum := rfl
    rw [e1, e2] at h2'
    rw [e2] at h3'
    omega
  have Fg2 : FFrag env sp g1 t2 :=
    ⟨Fr2, mapRefsBack_of_vm (mapRefsBack_of_vm F0.back vm1) vm2, D2.graph.pc⟩
  have DF2 : DInvF env sp (virt g1 t2) t2 g1 none := ⟨Fg2, D2, X2, G2, K2, Mi2, Gs2, Dp2, C2⟩
  -- the drain
  obtain ⟨g3, DF3, he3, f3⟩ := drainHeap_full X fuel (virt g1 t2) t2 t3 g1 DF2 h3
  obtain ⟨⟨rk3, A3⟩, K3, N3⟩ := DF3.aux
  have D3 := DF3.inv
  obtain ⟨V3, O3, T3⟩ := NestH.N4s.after_drain2 A3 K3 N3 f3.vars (F.varsOK Qv.vars) S2.obs S2.obsTop
  -- the end
  have hsd : t3.setDuringStab = [] := by
    have := K3.setDuringStab; have h2' := F.setDuringStab; have h3' := Qv.setDuringStab
    exact this.trans (h2'.trans h3')
  have hdv : t3.deadVars = [] := by
    have := K3.deadVars; have h2' := F.deadVars; have h3' := Qv.deadVars
    exact this.trans (h2'.trans h3')
  have hoh : ∀ (o : Nat) (ob : ObsRec), t3.observers[o]? = some ob → ob.handlers = [] :=
    fun o ob ho => (O3.inRange o ob ho).2
  have E := stabiliseEnd_fin (env := env) (fuel := fuel) hsd hdv hoh h4
  have hb := BindH.C2s.stabiliseEnd_binds hsd hdv hoh h4
  have Ev := finished_virt g3 E
  have hno3 : t3.newObservers = [] := K3.newObservers.trans hn2
  have hdo3 : t3.disallowedObservers = [] := K3.disallowedObservers.trans hd2
  have hal3 : t3.alive = true := (K3.alive.trans F.alive).trans Qv.alive
  obtain ⟨Q', GG, hval⟩ := NestH.N4s.qinv2_end D3 A3 Ev hb V3 O3 hno3 hdo3 T3 hal3
  have KE := BindH.BL.KeyEq.of_same GG
  have G' : GenOK2 (VE env sp) (virt g3 s') :=
    NestH.N5g.genOK2_frame DF3.gen A3.frag hb Ev.top KE.kind KE.valid KE.recomputedAt KE.changedAt hval
  -- the ghost invariants at the end
  have hnE : ∀ m, ∃ b, s'.nodeD m = { t3.nodeD m with inHandleAfterStab := b } := E.node
  have hk' : ∀ m, (s'.nodeD m).kind = (t3.nodeD m).kind := fun m => by obtain ⟨b, hb⟩ := hnE m; rw [hb]
  have hv' : ∀ m, (s'.nodeD m).valid = (t3.nodeD m).valid := fun m => by obtain ⟨b, hb⟩ := hnE m; rw [hb]
  have hc' : ∀ m, (s'.nodeD m).cutoff = (t3.nodeD m).cutoff := fun m => by obtain ⟨b, hb⟩ := hnE m; rw [hb]
  have hval' : ∀ m, (s'.nodeD m).value = (t3.nodeD m).value := fun m => by obtain ⟨b, hb⟩ := hnE m; rw [hb]
  have hos' : ∀ m, (s'.nodeD m).oldState = (t3.nodeD m).oldState := fun m => by obtain ⟨b, hb⟩ := hnE m; rw [hb]
  have hfl' : ∀ m, (s'.nodeD m).didChange = (t3.nodeD m).didChange := fun m => by obtain ⟨b, hb⟩ := hnE m; rw [hb]
  have hnec' : ∀ m, s'.isNecessary m = t3.isNecessary m := fun m => by
    obtain ⟨b, hb⟩ := hnE m; simp only [State.isNecessary, hb]; rfl
  have hvalue' : ∀ m, s'.value env m = t3.value env m :=
    fun m => value_congr env t3 s' E.size (fun k => by simp only [valueCore, hk', hv', hval']) m
  have FgE : FFrag env sp g3 s' := DF3.frag.of_frame E.size hk' hc' (E.pc.trans DF3.frag.pc)
  have KE' : KInv env g3 s' := DF3.k.congr hv' hnec' hk' (fun m hd => by rw [← hfl']; exact hd) (fun m p i _ _ _ _ => hvalue' m)
  have ME : MInv env s' := fun n m i hv hk => by
    rw [hval', hos']; exact DF3.m n m i (by rw [← hv']; exact hv) (by rw [← hk']; exact hk)
  have GE : GSome g3 s' := fun m p i hv hk hd => DF3.gs m p i (by rw [← hv']; exact hv) (by rw [← hk']; exact hk) (by rw [← hfl']; exact hd)
  have hcg' : ∀ m, (s'.nodeD m).changedAt = (t3.nodeD m).changedAt := fun m => by obtain ⟨b, hb⟩ := hnE m; rw [hb]
  have htv' : ∀ m, tv g3 s' m = tv g3 t3 m := by
    intro m
    obtain ⟨b, hb⟩ := hnE m
    simp only [tv, virt_nodeD, hb]
    unfold virtNode
    cases (t3.nodeD m).kind <;> rfl
  have DE : DepInv g3 s' := fun x a b w hv hk hc hca hw => by
    rw [htv']
    exact DF3.dep x a b w (by rw [← hv']; exact hv) (by rw [← hk']; exact hk) (by rw [← hc']; exact hc)
      (by rw [← hcg', ← hcg']; exact hca) (by rw [← hval']; exact hw)
  refine ⟨g3, ⟨FgE, ⟨⟨rk3, Q'⟩, G'⟩, KE', ME, GE, DE⟩, ?_, ?_, ?_, ?_, ?_, ?_, ?_⟩
  · rw [E.newObservers]; exact hno3
  · rw [E.disallowedObservers]; exact hdo3
  · have := f3.vars; have h2' := F.vars
    rw [E.vars]; exact this.trans h2'
  · have := f3.stabNum; have h2' := F.stabNum
    rw [E.stabNum]
    show t3.stabNum + 1 = s.stabNum + 1
    rw [show t3.stabNum = s.stabNum from this.trans h2']
  · exact ((BindH.C2h.PresTop.stabilise env fuel).h _ _ _ hst).top
  · have hobs' : s'.observers = t2.observers := by
      have := K3.observers; rw [E.observers]; exact this
    refine ⟨by rw [hobs']; have a := O2.1; have b := O1.1; rw [hs0] at b; exact a.trans b, fun o ob ho => ?_⟩
    have ho0 : (virt g s0).observers[o]? = some ob := by rw [hs0]; exact ho
    obtain ⟨ob1, h1o, h1n, h1s⟩ := O1.2 o ob ho0
    obtain ⟨ob2, h2o, h2n, h2s⟩ := O2.2 o ob1 h1o
    exact ⟨ob2, by rw [hobs']; exact h2o, by rw [h2n, h1n], by rw [h2s, h1s, stabilisedState_eq]⟩
  · intro n hn
    have hn3 : (virt g3 t3).isNecessary n = true := by rw [virt_isNecessary, ← hnec']; exact hn
    obtain ⟨v1, v2, -⟩ := BindH.drained_valuesB D3 he3 n hn3 (((virt g3 t3).nodeD n).height.toNat + 1) (Nat.lt_succ_self _)
    rw [virt_nodeD, virtNode_valid] at v1
    refine ⟨by rw [hv']; exact v1, ?_⟩
    have := NestH.KeyEq2.isStale2 (BindH.BL.KeyEq.of_same GG) A3.frag (m := n)
    rw [virt_isStale, virt_isStale] at this
    rw [this]; rw [virt_isStale] at v2; exact v2

end
end IncrVerif.Proofs.FullH
