import IncrVerif.Proofs.NestH47
/-!
# Nested binds (F2), part 4c-5: creation of a top-level `bind` (closure in F2) keeps `QInv2` under the extended rank; the headline `step_create2`

The facts about `C2c.MadeBind` that do not mention the invariant (`size`, `nodeD_lc`, `nodeD_main`, `bind_new`, `bind_inv`, `children_lc`, `children_main`,
`stale_lc`, `stale_main`, `varsOK`, BindH86) are reused unchanged.
-/
namespace IncrVerif.Proofs.NestH
open IncrVerif.Engine IncrVerif.Driver IncrVerif.Proofs IncrVerif.Proofs.Step IncrVerif.Proofs.Sched IncrVerif.Proofs.Quiet
open IncrVerif.Proofs.BindH

namespace N4c

section
variable {env : Env} {rk rk' : Nat → Nat} {body lhs : Nat} {s s1 : State}

/-- the static facts about the new change detector -/
theorem mb_n2_lc (C : C2c.MadeBind body lhs s s1) (Q : QInv2 env rk s) (U : RkUp rk rk' s.nodes.size) {k : Nat}
    (hk : s.top[k]? = some lhs) : N2 env rk' s1 [] s.nodes.size := by
  have E := C.ext
  obtain ⟨h1, h2, h3, h4⟩ := top_entry2 Q hk
  have hch := C.children_lc
  refine ⟨?_, ?_, ?_, ?_, ?_, ?_, ?_, ?_, ?_, ?_⟩
  · rw [C.nodeD_lc]; exact trivial
  · rw [C.nodeD_lc]; exact Or.inr rfl
  · intro c hc
    rw [hch, List.mem_singleton] at hc
    rw [hc, C.size]; omega
  · intro c hc
    rw [hch, List.mem_singleton] at hc
    rw [hc, E.old lhs h1]; exact h4
  · intro c hc
    rw [hch, List.mem_singleton] at hc
    rw [hc]; exact U.above lhs _ h1 (Nat.le_refl _)
  · intro b h
    rw [C.nodeD_lc] at h
    injection h with h
    rw [← h]
    exact ⟨_, C.bind_new, rfl⟩
  · intro b lc h
    rw [C.nodeD_lc] at h; cases h
  · intro c b hc h
    rw [hch, List.mem_singleton] at hc
    rw [hc, E.old lhs h1] at h
    exact absurd h (h3 b)
  · intro _
    refine ⟨by rw [C.nodeD_lc], fun c hc => ?_⟩
    rw [hch, List.mem_singleton] at hc
    rw [hc, E.old lhs h1]
    exact Or.inl h2
  · intro b h
    rw [C.nodeD_lc] at h; cases h

/-- the static facts about the new main node (its only child is the new change detector, created just before) -/
theorem mb_n2_main (C : C2c.MadeBind body lhs s s1) (U : RkUp rk rk' s.nodes.size) :
    N2 env rk' s1 [] (s.nodes.size + 1) := by
  have hch := C.children_main
  refine ⟨?_, ?_, ?_, ?_, ?_, ?_, ?_, ?_, ?_, ?_⟩
  · rw [C.nodeD_main]; exact trivial
  · rw [C.nodeD_main]; exact Or.inl rfl
  · intro c hc
    rw [hch, List.mem_singleton] at hc
    rw [hc, C.size]; omega
  · intro c hc
    rw [hch, List.mem_singleton] at hc
    rw [hc, C.nodeD_lc]
  · intro c hc
    rw [hch, List.mem_singleton] at hc
    rw [hc]; exact U.newLt _ _ (Nat.le_refl _) (Nat.lt_succ_self _)
  · intro b h
    rw [C.nodeD_main] at h; cases h
  · intro b lc h
    rw [C.nodeD_main] at h
    injection h with hb hl
    rw [← hb, ← hl]
    exact ⟨_, C.bind_new, rfl, rfl⟩
  · intro c b hc h
    rw [hch, List.mem_singleton] at hc
    rw [hc, C.nodeD_lc] at h
    injection h with h
    rw [hc, C.nodeD_main, ← h]
  · intro _
    refine ⟨by rw [C.nodeD_main], fun c hc => ?_⟩
    rw [hch, List.mem_singleton] at hc
    rw [hc, C.nodeD_lc]
    exact Or.inl rfl
  · intro b h
    rw [C.nodeD_main] at h; cases h

/-- the checks on the new nodes and the new record for the creation of a bind, after the main node has been entered in the naming table -/
theorem mb_newOK2 (C : C2c.MadeBind body lhs s s1) (Q : QInv2 env rk s) (U : RkUp rk rk' s.nodes.size) {k : Nat}
    (hk : s.top[k]? = some lhs) {f : Nat} (hB : BodyF2 env s.top.size f body) (hd : List Nat) :
    NewOK2 env rk' s { s1 with top := s1.top.push (s.nodes.size + 1), handles := hd } := by
  have E := C.ext
  have hN1 : N2 env rk' { s1 with top := s1.top.push (s.nodes.size + 1), handles := hd } [] s.nodes.size := by
    have h := mb_n2_lc C Q U hk
    exact ⟨h.kind, h.cutoff, h.kidsIn, h.kidsValid, h.kidLt, h.lcRec, h.mainRec, h.lcChild, h.top, h.inScope⟩
  have hN2 : N2 env rk' { s1 with top := s1.top.push (s.nodes.size + 1), handles := hd } [] (s.nodes.size + 1) := by
    have h := mb_n2_main (env := env) C U
    exact ⟨h.kind, h.cutoff, h.kidsIn, h.kidsValid, h.kidLt, h.lcRec, h.mainRec, h.lcChild, h.top, h.inScope⟩
  have hS1 : State.isStale { s1 with top := s1.top.push (s.nodes.size + 1), handles := hd } s.nodes.size = true :=
    C.stale_lc
  have hS2 : State.isStale { s1 with top := s1.top.push (s.nodes.size + 1), handles := hd }
      (s.nodes.size + 1) = true := C.stale_main
  have hV : VarsOK { s1 with top := s1.top.push (s.nodes.size + 1), handles := hd } := by
    have h := C.varsOK Q.vars
    exact ⟨h.node, h.cell⟩
  obtain ⟨hl1, hl2, hl3, hl4⟩ := top_entry2 Q hk
  refine ⟨?_, ?_, ?_, ?_, hV, ?_⟩
  · intro n h1 h2
    have h2' : n < s1.nodes.size := h2
    rw [C.size] at h2'
    by_cases e : n = s.nodes.size
    · rw [e]; exact hN1
    · have e' : n = s.nodes.size + 1 := by omega
      rw [e']; exact hN2
  · intro n h1 h2
    have h2' : n < s1.nodes.size := h2
    rw [C.size] at h2'
    by_cases e : n = s.nodes.size
    · rw [e]; exact hS1
    · have e' : n = s.nodes.size + 1 := by omega
      rw [e']; exact hS2
  · intro n b h1 h
    have h' : (s1.nodeD n).kind = .bindLhsChange b := h
    show (s1.nodeD n).cutoff = .never
    by_cases e : n = s.nodes.size
    · rw [e, C.nodeD_lc]
    · exfalso
      by_cases e' : n = s.nodes.size + 1
      · rw [e', C.nodeD_main] at h'; cases h'
      · rw [nodeD_default s1 n (by rw [C.size]; omega)] at h'
        cases h'
  · intro b br h1 h
    have h' : s1.binds[b]? = some br := h
    obtain ⟨eb, ebr⟩ := C.bind_inv h1 h'
    rw [eb, ebr]
    refine ⟨⟨rfl, ?_, ?_, ?_, Nat.le_refl _⟩, rfl, rfl, ⟨f, ?_⟩, ?_⟩
    · show s.nodes.size + 1 < s1.nodes.size
      rw [C.size]; omega
    · show (s1.nodeD s.nodes.size).kind = _
      rw [C.nodeD_lc]
    · show (s1.nodeD (s.nodes.size + 1)).kind = _
      rw [C.nodeD_main]
    · -- the closure: every named node is old, hence below the new change detector
      refine bodyOK2_of_body (T := s.top.size) ?_ ?_ f body hB
      · show s.top.size ≤ (s1.top.push _).size
        rw [C.top, Array.size_push]; omega
      · intro j r hj hr
        have hr' : (s1.top.push (s.nodes.size + 1))[j]? = some r := hr
        rw [C.top, Array.getElem?_push, if_neg (by omega)] at hr'
        exact U.above r _ (Q.f2.topOK j r hr').1 (Nat.le_refl _)
    · intro b'
      show (s1.nodeD lhs).kind ≠ _
      rw [E.old lhs hl1]; exact hl3 b'
  · refine ⟨s.nodes.size + 1, ?_, by omega, ?_, ?_⟩
    · show s1.top.push _ = _
      rw [C.top]
    · show s.nodes.size + 1 < s1.nodes.size
      rw [C.size]; omega
    · intro b h
      have h' : (s1.nodeD (s.nodes.size + 1)).kind = .bindLhsChange b := h
      rw [C.nodeD_main] at h'; cases h'

end
end N4c

/-- **creation, with the ghost rank.**  A successful `create` action with an instruction of the fragment (static, or a top-level `bind` whose closure is in
F2) keeps the invariant between actions under an EXTENDED rank `rk'` (old ranks unchanged, the one or two new nodes above all old ones in creation
order); the state is extended by pristine top-level nodes (`C2c.Ext`: old nodes, records, heaps, observers, stamps untouched) and the naming table grows
by one entry, a new node. -/
theorem step_create2_rk {env : Env} {rk : Nat → Nat} {s s' : State} {i : Instr} {tokens : Array Nat} {r : String × Array Nat}
    (Q : QInv2 env rk s) (hi : InstrTop2 env s.top.size i)
    (h : (stepAction env (.create i) tokens).run.run s = (.ok r, s')) :
    ∃ rk', N4c.RkUp rk rk' s.nodes.size ∧ QInv2 env rk' s' ∧ C2c.Ext s s' ∧
      ∃ m, s'.top = s.top.push m ∧ s.nodes.size ≤ m ∧ m < s'.nodes.size ∧ s'.nodes.size ≤ s.nodes.size + 2 := by
  have hsc := Q.struct.frag.scope
  obtain ⟨R, hR⟩ := N4c.rk_bound rk s.nodes.size
  have U := N4c.rkUp_spec hR
  refine ⟨N4c.rkUp rk s.nodes.size R, U, ?_⟩
  unfold stepAction at h
  simp only at h
  obtain ⟨ro, s1, h1, h2⟩ := bind_ok_inv h
  by_cases hb : ∃ body lhs, i = .bind body lhs
  · obtain ⟨body, lhs, ei⟩ := hb
    rw [ei] at hi h1
    obtain ⟨⟨k, ek⟩, f, hB⟩ := hi
    rw [ek] at h1
    obtain ⟨l, hl, ero, C⟩ := C2c.elab_bind1 hsc h1
    rw [ero] at h2
    simp only at h2
    obtain ⟨s2, e2, h3⟩ := bind_modify_inv h2
    obtain ⟨-, e3⟩ := pure_ok_inv h3
    rw [e3, e2]
    refine ⟨N4c.qinv2 (C.ext.withTop _ _) Q U (N4c.mb_newOK2 C Q U hl hB _), C.ext.withTop _ _,
      s.nodes.size + 1, ?_, by omega, ?_, ?_⟩
    · show s1.top.push _ = _
      rw [C.top]
    · show s.nodes.size + 1 < s1.nodes.size
      rw [C.size]; omega
    · show s1.nodes.size ≤ _
      rw [C.size]; omega
  · have hst : StaticInstr env i := by
      cases i <;> first | exact hi | exact (hb ⟨_, _, rfl⟩).elim
    obtain ⟨k, ero, hk, hkids, C⟩ := C2c.elab_static1 hsc hst h1
    rw [ero] at h2
    simp only at h2
    obtain ⟨s2, e2, h3⟩ := bind_modify_inv h2
    obtain ⟨-, e3⟩ := pure_ok_inv h3
    rw [e3, e2]
    refine ⟨N4c.qinv2 (C.ext.withTop _ _) Q U (N4c.made_newOK2 C Q U hk hkids _), C.ext.withTop _ _,
      s.nodes.size, ?_, Nat.le_refl _, ?_, ?_⟩
    · show s1.top.push _ = _
      rw [C.top]
    · show s.nodes.size < s1.nodes.size
      rw [C.size]; omega
    · show s1.nodes.size ≤ _
      rw [C.size]; omega

/-- **creation.** A successful `create` action with an instruction of the fragment (static, or a top-level `bind` whose closure is in F2) keeps the
invariant between actions; the state is extended by pristine top-level nodes and the naming table grows by one entry. -/
theorem step_create2 {env : Env} {s s' : State} {i : Instr} {tokens : Array Nat} {r : String × Array Nat}
    (Q : QI2 env s) (hi : InstrTop2 env s.top.size i)
    (h : (stepAction env (.create i) tokens).run.run s = (.ok r, s')) :
    QI2 env s' ∧ C2c.Ext s s' ∧
      ∃ m, s'.top = s.top.push m ∧ s.nodes.size ≤ m ∧ m < s'.nodes.size ∧ s'.nodes.size ≤ s.nodes.size + 2 := by
  obtain ⟨rk, Q⟩ := Q
  obtain ⟨rk', -, Q', hE, hm⟩ := step_create2_rk Q hi h
  exact ⟨⟨rk', Q'⟩, hE, hm⟩

end IncrVerif.Proofs.NestH
