import IncrVerif.Proofs.NestH13
/-!
# Nested binds (F2), unlinking side, part 2: pure step lemmas for `GInv2` (unlinking)

Port of `BindH55` (`CU2.lean`): `GInv2.removeEdge`, `GInv2.removeEdge_mem`, `GInv2.dropLastEdge` (removing the last recorded child
edge of a CLOSED necessary parent, which opens it as `.linking idx`), `GInv2.close_unlink`, `GInv2.rchRemove_open`, `GInv2.remObs`.
The helpers `CU.upd_unl_closed`, `CU.op_ne_closed_of_linking/unlinking` of `BindH55` are generic and are not repeated.
-/
namespace IncrVerif.Proofs.NestH
open IncrVerif.Engine IncrVerif.Proofs IncrVerif.Proofs.Step IncrVerif.Proofs.Sched IncrVerif.Proofs.Quiet
open IncrVerif.Proofs.BindH

section
variable {env : Env} {rk : Nat → Nat} {s s' : State} {op : Nat → Op} {ex : Nat → Prop} {dy : List Nat}

/-! ## unlinking -/

/-- `removeParent c idx p` where `p` is being unlinked (`.unlinking idx`) and `c` is its child `idx`: afterwards `p` is
`.unlinking (idx + 1)`; `c` stays closed if it is still necessary and is relabelled `.unlinking 0` otherwise (the
caller runs `checkIfUnnecessary c` next) -/
theorem GInv2.removeEdge {c p idx pi : Nat} (I : GInv2 env rk s op ex dy)
    (hidx : (s.nodeD c).parents.idxOf? (p, idx) = some pi)
    (U : NodeUpd c (fParents (swapRemove (s.nodeD c).parents pi)) s s') (hb : s'.binds = s.binds)
    (hop : op p = .unlinking idx) (hk : (s.children p)[idx]? = some c) (hcl : op c = .closed) :
    (s'.isNecessary c = true → GInv2 env rk s' (upd op p (.unlinking (idx + 1))) ex dy) ∧
    (s'.isNecessary c = false →
      GInv2 env rk s' (upd (upd op p (.unlinking (idx + 1))) c (.unlinking 0)) ex dy) := by
  have F := BU.Fr.of_upd U (U4.keepB_fParents _) hb
  have hhr := U4.hir_of_upd U (U4.keepB_fParents _)
  have hpc : (s'.nodeD c).parents = swapRemove (s.nodeD c).parents pi := U.self.parents
  obtain ⟨hmem, hnd'⟩ := U4.swapRemove_spec _ _ _ (I.nodup c) hidx
  rw [← hpc] at hmem hnd'
  have hoth : ∀ m, m ≠ c → (s'.nodeD m).parents = (s.nodeD m).parents ∧
      (s'.nodeD m).observers = (s.nodeD m).observers :=
    fun m h => ⟨(U.other m h).parents, (U.other m h).observers⟩
  have hin : (p, idx) ∈ (s.nodeD c).parents := I.conv p idx c hk ((wants_unlinking hop).2 (Nat.le_refl _))
  have hn : s.isNecessary c = true := nec_of_mem_parents hin
  have hpc' : p ≠ c := Ne.symm (I.kid_ne hk)
  have mem0 : ∀ c' x, x ∈ (s'.nodeD c').parents → x ∈ (s.nodeD c').parents := by
    intro c' x h
    by_cases e : c' = c
    · rw [e] at h ⊢; exact ((hmem x).1 h).1
    · rw [← (hoth c' e).1]; exact h
  have common : ∀ op' : Nat → Op,
      ((s'.isNecessary c = true ∧ op' c = .closed) ∨ (s'.isNecessary c = false ∧ op' c = .unlinking 0)) →
      (∀ m, m ≠ c → op' m = upd op p (.unlinking (idx + 1)) m) → GInv2 env rk s' op' ex dy := by
    intro op' hd ho
    have clo : ∀ m, m ≠ c → (op' m = .closed ↔ op m = .closed) :=
      fun m e => by rw [ho m e]; exact U4.g1_upd hop m
    refine NU.core I F U.rch hhr hoth (fun x h => ((hmem x).1 h).1) hnd' (fun h => by rw [U.self.observers]; exact h)
      ?_ hn hcl hd ?_ ?_ ?_ ?_ ?_ ?_ ?_ ?_
    · -- hkeep
      intro q i h hq
      refine (hmem (q, i)).2 ⟨h, fun e => ?_⟩
      have e1 : q = p := congrArg Prod.fst e
      have := (clo q (by rw [e1]; exact hpc')).1 hq
      rw [e1, hop] at this; cases this
    · -- cl
      intro m h
      by_cases e : m = c
      · rw [e]; exact hcl
      · exact (clo m e).1 h
    · -- hln
      intro m k e h
      rw [ho m e] at h
      exact I.lnec m k ((U4.g2_upd hop m k).1 h)
    · -- hun
      intro m k e h
      rw [ho m e] at h
      obtain ⟨k', h'⟩ := (U4.g3_upd hop m).1 ⟨k, h⟩
      exact I.unec m k' h'
    · -- hqn
      intro m e h
      rw [ho m e]; exact (U4.g3_upd hop m).2 h
    · -- hlt
      intro m e h
      exact I.opLt m (fun h' => h ((clo m e).2 h'))
    · -- hval
      intro m e h
      exact I.valid_of_open (fun h' => h ((clo m e).2 h'))
    · -- hpar
      intro c' q i hm e hq'
      have hq : op q ≠ .closed := fun h' => hq' ((clo q e).2 h')
      have hm0 := mem0 c' _ hm
      by_cases ep : q = p
      · rw [ep] at hm hm0 ⊢
        have h1 := I.par c' p i hm0
        have h2 : idx ≤ i := (wants_unlinking hop).1 h1.2
        have hop' : op' p = .unlinking (idx + 1) := by rw [ho p hpc', upd_self]
        rw [wants_unlinking hop']
        by_cases ei : i = idx
        · rw [ei] at h1 hm
          have : c' = c := by
            have := h1.1; rw [hk] at this; exact (Option.some.inj this).symm
          rw [this] at hm
          exact absurd rfl ((hmem _).1 hm).2
        · omega
      · have hop' : op' q = op q := by rw [ho q e, upd_other _ _ _ ep]
        exact (U4.wants_open hop' hq).2 (I.par c' q i hm0).2
    · -- hconv
      intro q i c' hk' e hq' hw
      have hq : op q ≠ .closed := fun h' => hq' ((clo q e).2 h')
      by_cases ep : q = p
      · rw [ep] at hk' hw ⊢
        have hop' : op' p = .unlinking (idx + 1) := by rw [ho p hpc', upd_self]
        rw [wants_unlinking hop'] at hw
        have hm0 := I.conv p i c' hk' ((wants_unlinking hop).2 (by omega))
        by_cases ec : c' = c
        · rw [ec] at hm0 ⊢
          refine (hmem _).2 ⟨hm0, fun h => ?_⟩
          have : i = idx := congrArg Prod.snd h
          omega
        · rw [(hoth c' ec).1]; exact hm0
      · have hop' : op' q = op q := by rw [ho q e, upd_other _ _ _ ep]
        have hm0 := I.conv q i c' hk' ((U4.wants_open hop' hq).1 hw)
        by_cases ec : c' = c
        · rw [ec] at hm0 ⊢
          exact (hmem _).2 ⟨hm0, fun h => ep (congrArg Prod.fst h)⟩
        · rw [(hoth c' ec).1]; exact hm0
  constructor
  · intro h
    refine common _ (Or.inl ⟨h, ?_⟩) (fun _ _ => rfl)
    rw [upd_other _ _ _ (Ne.symm hpc')]; exact hcl
  · intro h
    exact common _ (Or.inr ⟨h, upd_self _ _ _⟩) (fun m e => upd_other _ _ _ e)

/-- the entry that `removeParent c idx p` looks for exists -/
theorem GInv2.removeEdge_mem {c p idx : Nat} (I : GInv2 env rk s op ex dy)
    (hop : op p = .unlinking idx) (hk : (s.children p)[idx]? = some c) :
    (p, idx) ∈ (s.nodeD c).parents :=
  I.conv p idx c hk ((wants_unlinking hop).2 (Nat.le_refl _))

/-- `removeParent c idx p` where `p` is closed and necessary (it stays necessary: `p ≠ c`), `(children p)[idx]? = some c`,
and `idx` is the LAST child index of `p` (`(s.children p).length = idx + 1`): afterwards the invariant holds with `p`
labelled `.linking idx` (exactly the first `idx` child edges recorded).  `c` keeps whatever necessity it has left: if
it is still necessary (other parents, observers, `forceNecessary`) it stays closed; if it became unnecessary it is
relabelled `.unlinking 0` (it still has its own child edges recorded) and the caller runs `checkIfUnnecessary c`
next — same convention as in `GInv2.removeEdge`. -/
theorem GInv2.dropLastEdge {c p idx pi : Nat} (I : GInv2 env rk s op ex dy)
    (hidx : (s.nodeD c).parents.idxOf? (p, idx) = some pi)
    (U : NodeUpd c (fParents (swapRemove (s.nodeD c).parents pi)) s s') (hb : s'.binds = s.binds)
    (hop : op p = .closed) (hnp : s.isNecessary p = true)
    (hk : (s.children p)[idx]? = some c) (hlen : (s.children p).length = idx + 1) (hcl : op c = .closed) :
    (s'.isNecessary c = true → GInv2 env rk s' (upd op p (.linking idx)) ex dy) ∧
    (s'.isNecessary c = false →
      GInv2 env rk s' (upd (upd op p (.linking idx)) c (.unlinking 0)) ex dy) := by
  have F := BU.Fr.of_upd U (U4.keepB_fParents _) hb
  have hhr := U4.hir_of_upd U (U4.keepB_fParents _)
  have hpc : (s'.nodeD c).parents = swapRemove (s.nodeD c).parents pi := U.self.parents
  obtain ⟨hmem, hnd'⟩ := U4.swapRemove_spec _ _ _ (I.nodup c) hidx
  rw [← hpc] at hmem hnd'
  have hoth : ∀ m, m ≠ c → (s'.nodeD m).parents = (s.nodeD m).parents ∧
      (s'.nodeD m).observers = (s.nodeD m).observers :=
    fun m h => ⟨(U.other m h).parents, (U.other m h).observers⟩
  have hin : (p, idx) ∈ (s.nodeD c).parents := I.conv p idx c hk ((wants_closed hop).2 hnp)
  have hn : s.isNecessary c = true := nec_of_mem_parents hin
  have hpc' : p ≠ c := Ne.symm (I.kid_ne hk)
  have mem0 : ∀ c' x, x ∈ (s'.nodeD c').parents → x ∈ (s.nodeD c').parents := by
    intro c' x h
    by_cases e : c' = c
    · rw [e] at h ⊢; exact ((hmem x).1 h).1
    · rw [← (hoth c' e).1]; exact h
  have common : ∀ op' : Nat → Op,
      ((s'.isNecessary c = true ∧ op' c = .closed) ∨ (s'.isNecessary c = false ∧ op' c = .unlinking 0)) →
      (∀ m, m ≠ c → op' m = upd op p (.linking idx) m) → GInv2 env rk s' op' ex dy := by
    intro op' hd ho
    have hop' : op' p = .linking idx := by rw [ho p hpc', upd_self]
    have oo : ∀ m, m ≠ c → m ≠ p → op' m = op m := fun m e1 e2 => by rw [ho m e1, upd_other _ _ _ e2]
    refine NU.core I F U.rch hhr hoth (fun x h => ((hmem x).1 h).1) hnd' (fun h => by rw [U.self.observers]; exact h)
      ?_ hn hcl hd ?_ ?_ ?_ ?_ ?_ ?_ ?_ ?_
    · -- hkeep
      intro q i h hq
      refine (hmem (q, i)).2 ⟨h, fun e => ?_⟩
      have e1 : q = p := congrArg Prod.fst e
      rw [e1, hop'] at hq; cases hq
    · -- cl
      intro m h
      by_cases e : m = c
      · rw [e]; exact hcl
      · by_cases e2 : m = p
        · rw [e2]; exact hop
        · rw [← oo m e e2]; exact h
    · -- hln
      intro m k e h
      by_cases e2 : m = p
      · rw [e2]; exact hnp
      · rw [oo m e e2] at h; exact I.lnec m k h
    · -- hun
      intro m k e h
      by_cases e2 : m = p
      · rw [e2, hop'] at h; cases h
      · rw [oo m e e2] at h; exact I.unec m k h
    · -- hqn
      intro m e h
      by_cases e2 : m = p
      · obtain ⟨k, h⟩ := h
        rw [e2, hop] at h; cases h
      · rw [oo m e e2]; exact h
    · -- hlt
      intro m e h
      by_cases e2 : m = p
      · rw [e2]; exact nec_lt_size hnp
      · rw [oo m e e2] at h; exact I.opLt m h
    · -- hval
      intro m e h
      by_cases e2 : m = p
      · rw [e2]; exact I.valid_of_nec hnp
      · rw [oo m e e2] at h; exact I.valid_of_open h
    · -- hpar
      intro c' q i hm e hq'
      have hm0 := mem0 c' _ hm
      by_cases ep : q = p
      · rw [ep] at hm hm0 ⊢
        have h1 := I.par c' p i hm0
        have h3 : i < (s.children p).length := (List.getElem?_eq_some_iff.1 h1.1).1
        rw [wants_linking hop']
        by_cases ei : i = idx
        · rw [ei] at h1 hm
          have : c' = c := by
            have := h1.1; rw [hk] at this; exact (Option.some.inj this).symm
          rw [this] at hm
          exact absurd rfl ((hmem _).1 hm).2
        · omega
      · have hoq : op' q = op q := oo q e ep
        have hq : op q ≠ .closed := by rw [← hoq]; exact hq'
        exact (U4.wants_open hoq hq).2 (I.par c' q i hm0).2
    · -- hconv
      intro q i c' hk' e hq' hw
      by_cases ep : q = p
      · rw [ep] at hk' hw ⊢
        rw [wants_linking hop'] at hw
        have hm0 := I.conv p i c' hk' ((wants_closed hop).2 hnp)
        by_cases ec : c' = c
        · rw [ec] at hm0 ⊢
          refine (hmem _).2 ⟨hm0, fun h => ?_⟩
          have : i = idx := congrArg Prod.snd h
          omega
        · rw [(hoth c' ec).1]; exact hm0
      · have hoq : op' q = op q := oo q e ep
        have hq : op q ≠ .closed := by rw [← hoq]; exact hq'
        have hm0 := I.conv q i c' hk' ((U4.wants_open hoq hq).1 hw)
        by_cases ec : c' = c
        · rw [ec] at hm0 ⊢
          exact (hmem _).2 ⟨hm0, fun h => ep (congrArg Prod.fst h)⟩
        · rw [(hoth c' ec).1]; exact hm0
  constructor
  · intro h
    refine common _ (Or.inl ⟨h, ?_⟩) (fun _ _ => rfl)
    rw [upd_other _ _ _ (Ne.symm hpc')]; exact hcl
  · intro h
    exact common _ (Or.inr ⟨h, upd_self _ _ _⟩) (fun m e => upd_other _ _ _ e)

/-- closing an unlinking node that is not queued -/
theorem GInv2.close_unlink {n k : Nat} (I : GInv2 env rk s op ex dy) (hop : op n = .unlinking k)
    (hk : (s.children n).length ≤ k) (hq : (s.nodeD n).inRch = false) :
    GInv2 env rk s (upd op n .closed) ex dy := by
  have hun := I.unec n k hop
  have noent : ∀ c i, (n, i) ∉ (s.nodeD c).parents := by
    intro c i h
    have h1 := I.par c n i h
    have h2 : k ≤ i := (wants_unlinking hop).1 h1.2
    have h3 : i < (s.children n).length := (List.getElem?_eq_some_iff.1 h1.1).1
    omega
  have oo : ∀ m, m ≠ n → upd op n .closed m = op m := fun m e => upd_other _ _ _ e
  have on : upd op n .closed n = .closed := upd_self _ _ _
  refine { frag := I.frag, par := ?_, conv := ?_, nodup := I.nodup, hlt := ?_, hpos := ?_, lnec := ?_,
           unec := ?_, heap := I.heap, hgt := ?_, qnec := ?_, queued := ?_, qstale := I.qstale, opLt := ?_,
           scopeH := ?_, inv := ?_, scopeObs := I.scopeObs, lcObs := I.lcObs }
  · intro c q i hm
    have e : q ≠ n := fun e => noent c i (e ▸ hm)
    exact ⟨(I.par c q i hm).1, (U4.wants_same (oo q e)).2 (I.par c q i hm).2⟩
  · intro q i c hk' hw
    by_cases e : q = n
    · rw [e] at hw
      rw [wants_closed on, hun] at hw; cases hw
    · exact I.conv q i c hk' ((U4.wants_same (oo q e)).1 hw)
  · intro c q i hm ho
    have e : q ≠ n := fun e => noent c i (e ▸ hm)
    exact I.hlt c q i hm (by rw [← oo q e]; exact ho)
  · intro m hm ho
    have e : m ≠ n := fun e => by rw [e, hun] at hm; cases hm
    exact I.hpos m hm (by rw [← oo m e]; exact ho)
  · intro q kk ho
    have e : q ≠ n := fun e => by rw [e, on] at ho; cases ho
    rw [oo q e] at ho; exact I.lnec q kk ho
  · intro q kk ho
    have e : q ≠ n := fun e => by rw [e, on] at ho; cases ho
    rw [oo q e] at ho; exact I.unec q kk ho
  · intro m hq' ho
    have e : m ≠ n := fun e => by rw [e, hq] at hq'; cases hq'
    exact I.hgt m hq' (by rw [← oo m e]; exact ho)
  · intro m hq'
    have e : m ≠ n := fun e => by rw [e, hq] at hq'; cases hq'
    rcases I.qnec m hq' with h | ⟨k', h⟩
    · exact Or.inl h
    · exact Or.inr ⟨k', by rw [oo m e]; exact h⟩
  · intro m ho hm hs hex
    have e : m ≠ n := fun e => by rw [e, hun] at hm; cases hm
    exact I.queued m (by rw [← oo m e]; exact ho) hm hs hex
  · intro m ho
    by_cases e : m = n
    · rw [e]; exact I.opLt n (by rw [hop]; intro h; cases h)
    · exact I.opLt m (by rw [← oo m e]; exact ho)
  · intro m b br hv hsc hb hm ho
    have e : m ≠ n := fun e => by rw [e, hun] at hm; cases hm
    exact I.scopeH m b br hv hsc hb hm (by rw [← oo m e]; exact ho)
  · intro m hv
    obtain ⟨h1, h2, h3, h4, h5⟩ := I.inv m hv
    refine ⟨h1, h2, h3, h4, ?_⟩
    by_cases e : m = n
    · rw [e]; exact on
    · rw [oo m e]; exact h5

/-- a successful `rchRemove` of an unlinking node -/
theorem GInv2.rchRemove_open {n k : Nat} {u : Unit} (I : GInv2 env rk s op ex dy) (hop : op n = .unlinking k)
    (hr : (rchRemove n).run.run s = (.ok u, s')) :
    GInv2 env rk s' op ex dy ∧ (s'.nodeD n).inRch = false := by
  obtain ⟨nd, q, idx, hnd, h0, hq, hi, hs'⟩ := rchRemove_ok_inv hr
  obtain ⟨hH, hnq, hoth, -, -⟩ := I.heap.removed hr
  refine ⟨?_, hnq⟩
  have hsz : s'.nodes.size = s.nodes.size := by rw [hs']; simp [removedAt]
  have B : U4.SameB s s' := by
    refine ⟨by rw [hs']; rfl, by rw [hs']; rfl, hsz, by rw [hs']; rfl, ?_, ?_, ?_, ?_, ?_, ?_, ?_, ?_⟩ <;>
      intro m <;> rw [hs', U4.removedAt_nodeD] <;> split <;> rfl
  have F : BU.Fr s s' := ⟨B, by rw [hs']; rfl⟩
  have E := CU.keyEq_of_fr F
  have hch : ∀ m, s'.children m = s.children m := KeyEq2.children2 E I.frag
  have hst : ∀ m, s'.isStale m = s.isStale m := KeyEq2.isStale2 E I.frag
  have hP : ∀ m, (s'.nodeD m).parents = (s.nodeD m).parents := by
    intro m; rw [hs', U4.removedAt_nodeD]; split <;> rfl
  have hO : ∀ m, (s'.nodeD m).observers = (s.nodeD m).observers := by
    intro m; rw [hs', U4.removedAt_nodeD]; split <;> rfl
  have nec : ∀ m, s'.isNecessary m = s.isNecessary m := fun m => U4.nec_congr (hP m) (hO m) (B.forceNecessary m)
  have wants : ∀ q i, Wants s' op q i ↔ Wants s op q i := by
    intro q i; unfold Wants; rw [nec]
  have inR : ∀ m, m ≠ n → (s'.nodeD m).inRch = (s.nodeD m).inRch := fun m e => U4.inRch_of_hir (hoth m e)
  have nq : ∀ m, (s'.nodeD m).inRch = true → m ≠ n := fun m h e => by rw [e, hnq] at h; cases h
  refine { frag := KeyEq2.frag2 E I.frag (by rw [B.pc]; exact I.frag.pc) (by rw [B.scope]; exact I.frag.scope),
           par := ?_, conv := ?_, nodup := ?_, hlt := ?_, hpos := ?_, lnec := ?_,
           unec := ?_, heap := hH, hgt := ?_, qnec := ?_, queued := ?_, qstale := ?_, opLt := ?_,
           scopeH := ?_, inv := ?_, scopeObs := ?_, lcObs := ?_ }
  · intro c p i hm
    rw [hP] at hm
    rw [hch, wants]; exact I.par c p i hm
  · intro p i c hk hw
    rw [hch] at hk
    rw [wants] at hw
    rw [hP]; exact I.conv p i c hk hw
  · intro c; rw [hP]; exact I.nodup c
  · intro c p i hm ho
    rw [hP] at hm
    rw [B.height, B.height]; exact I.hlt c p i hm ho
  · intro m hm ho
    rw [nec] at hm
    rw [B.height]; exact I.hpos m hm ho
  · intro p kk ho
    rw [nec]; exact I.lnec p kk ho
  · intro p kk ho
    rw [nec]; exact I.unec p kk ho
  · intro m hq' ho
    have e := nq m hq'
    rw [inR m e] at hq'
    rw [hoth m e, B.height]; exact I.hgt m hq' ho
  · intro m hq'
    have e := nq m hq'
    rw [inR m e] at hq'
    rw [nec]; exact I.qnec m hq'
  · intro m ho hm hs hex
    have e : m ≠ n := fun e => by rw [e, hop] at ho; cases ho
    rw [nec] at hm
    rw [hst] at hs
    rw [inR m e]; exact I.queued m ho hm hs hex
  · intro m hq'
    have e := nq m hq'
    rw [inR m e] at hq'
    rw [hst]; exact I.qstale m hq'
  · intro m ho
    rw [hsz]; exact I.opLt m ho
  · intro m b br hv hsc hb hm ho
    rw [B.valid] at hv
    rw [B.createdIn] at hsc
    rw [F.binds] at hb
    rw [nec] at hm
    rw [B.height, B.height]
    exact I.scopeH m b br hv hsc hb hm ho
  · intro m hv
    rw [B.valid] at hv
    obtain ⟨h1, h2, h3, h4, h5⟩ := I.inv m hv
    refine ⟨by rw [hP]; exact h1, by rw [hO]; exact h2, by rw [B.forceNecessary]; exact h3, ?_, h5⟩
    by_cases e : m = n
    · rw [e]; exact hnq
    · rw [inR m e]; exact h4
  · intro m b hsc
    rw [B.createdIn] at hsc
    rw [hO]; exact I.scopeObs m b hsc
  · intro m b hk
    rw [B.kind] at hk
    rw [hO]; exact I.lcObs m b hk

/-- removing an observer from a closed node -/
theorem GInv2.remObs {n : Nat} {l : List Nat} (I : GInv2 env rk s op ex dy) (U : NodeUpd n (fObservers l) s s')
    (hb : s'.binds = s.binds) (hcl : op n = .closed) (hn : s.isNecessary n = true)
    (hl : (s.nodeD n).observers = [] → l = []) :
    (s'.isNecessary n = true → GInv2 env rk s' op ex dy) ∧
    (s'.isNecessary n = false → GInv2 env rk s' (upd op n (.unlinking 0)) ex dy) := by
  have F := BU.Fr.of_upd U (U4.keepB_fObservers l) hb
  have hhr := U4.hir_of_upd U (U4.keepB_fObservers l)
  have hpn : (s'.nodeD n).parents = (s.nodeD n).parents := U.self.parents
  have hoth : ∀ m, m ≠ n → (s'.nodeD m).parents = (s.nodeD m).parents ∧
      (s'.nodeD m).observers = (s.nodeD m).observers :=
    fun m h => ⟨(U.other m h).parents, (U.other m h).observers⟩
  have hpall : ∀ m, (s'.nodeD m).parents = (s.nodeD m).parents := by
    intro m
    by_cases e : m = n
    · rw [e]; exact hpn
    · exact (hoth m e).1
  have common : ∀ op' : Nat → Op,
      ((s'.isNecessary n = true ∧ op' n = .closed) ∨ (s'.isNecessary n = false ∧ op' n = .unlinking 0)) →
      (∀ m, m ≠ n → op' m = op m) → GInv2 env rk s' op' ex dy := by
    intro op' hd ho
    refine NU.core I F U.rch hhr hoth (fun x h => by rw [← hpn]; exact h) (by rw [hpn]; exact I.nodup n)
      (fun h => by rw [U.self.observers]; exact hl h)
      (fun q i h _ => by rw [hpn]; exact h) hn hcl hd ?_
      (fun m k e h => by rw [ho m e] at h; exact I.lnec m k h)
      (fun m k e h => by rw [ho m e] at h; exact I.unec m k h)
      (fun m e h => by rw [ho m e]; exact h)
      (fun m e h => by rw [ho m e] at h; exact I.opLt m h)
      (fun m e h => by rw [ho m e] at h; exact I.valid_of_open h) ?_ ?_
    · intro m h
      by_cases e : m = n
      · rw [e]; exact hcl
      · rw [← ho m e]; exact h
    · intro c q i hm e hq'
      have hq : op q ≠ .closed := by rw [← ho q e]; exact hq'
      rw [hpall] at hm
      exact (U4.wants_open (ho q e) hq).2 (I.par c q i hm).2
    · intro q i c hk e hq' hw
      have hq : op q ≠ .closed := by rw [← ho q e]; exact hq'
      rw [hpall]
      exact I.conv q i c hk ((U4.wants_open (ho q e) hq).1 hw)
  constructor
  · intro h; exact common op (Or.inl ⟨h, hcl⟩) (fun _ _ => rfl)
  · intro h; exact common _ (Or.inr ⟨h, upd_self _ _ _⟩) (fun m e => upd_other _ _ _ e)

end

end IncrVerif.Proofs.NestH
