import IncrVerif.Proofs.BindH80
import IncrVerif.Proofs.StepStamp
/-!
# Binds, part 4h-0 (B4): nothing but the `create` action writes the naming table `top`

`TopSame s s'` (`s'.top = s.top`) is kept by EVERY function reachable from `stabilise` (and from the other API actions of the fragment), whatever the
outcome — a purely syntactic frame in the `Pres` style of `Proofs/Step.lean` (port of the ladder of `Proofs/StepStamp.lean`).
-/
open IncrVerif.Engine IncrVerif.Proofs IncrVerif.Proofs.Step
namespace IncrVerif.Proofs.BindH.C2h

/-- the naming table is unchanged -/
structure TopSame (s s' : State) : Prop where
  top : s'.top = s.top

instance : PreOrd TopSame := ⟨fun _ => ⟨rfl⟩, fun h1 h2 => ⟨h2.top.trans h1.top⟩⟩

macro_rules
  | `(tactic| qleaf) => `(tactic| ((with_reducible apply Step.Pres.modify); intro _; exact TopSame.mk rfl))

theorem PresTop.modNode (n : Nat) (f : Node → Node) : Step.Pres TopSame (modNode n f) := by
  unfold Engine.modNode; qpres

/-- register a `Step.Pres TopSame` lemma as a leaf -/
macro "top_leaf " n:ident : command =>
  `(macro_rules | `(tactic| qleaf) => `(tactic| with_reducible apply $n))
top_leaf PresTop.modNode

theorem PresTop.tick : Step.Pres TopSame tick := by unfold Engine.tick; qpres
top_leaf PresTop.tick
theorem PresTop.logEv (e) : Step.Pres TopSame (logEv e) := by unfold Engine.logEv; qpres
top_leaf PresTop.logEv
theorem PresTop.modBind (b f) : Step.Pres TopSame (modBind b f) := by unfold Engine.modBind; qpres
top_leaf PresTop.modBind
theorem PresTop.modExpert (b f) : Step.Pres TopSame (modExpert b f) := by unfold Engine.modExpert; qpres
top_leaf PresTop.modExpert
theorem PresTop.modVar (b f) : Step.Pres TopSame (modVar b f) := by unfold Engine.modVar; qpres
top_leaf PresTop.modVar
theorem PresTop.modObs (b f) : Step.Pres TopSame (modObs b f) := by unfold Engine.modObs; qpres
top_leaf PresTop.modObs
theorem PresTop.rchLink (n) : Step.Pres TopSame (rchLink n) := by unfold Engine.rchLink; qpres
top_leaf PresTop.rchLink
theorem PresTop.rchUnlink (n) : Step.Pres TopSame (rchUnlink n) := by unfold Engine.rchUnlink; qpres
top_leaf PresTop.rchUnlink
theorem PresTop.rchInsert (n) : Step.Pres TopSame (rchInsert n) := by unfold Engine.rchInsert; qpres
top_leaf PresTop.rchInsert
theorem PresTop.rchRemove (n) : Step.Pres TopSame (rchRemove n) := by unfold Engine.rchRemove; qpres
top_leaf PresTop.rchRemove
theorem PresTop.rchMinHeight : Step.Pres TopSame rchMinHeight := by unfold Engine.rchMinHeight; qpres
top_leaf PresTop.rchMinHeight
theorem PresTop.rchIncreaseHeight (n) : Step.Pres TopSame (rchIncreaseHeight n) := by
  unfold Engine.rchIncreaseHeight; qpres
top_leaf PresTop.rchIncreaseHeight
theorem PresTop.setHeight (n h) : Step.Pres TopSame (setHeight n h) := by unfold Engine.setHeight; qpres
top_leaf PresTop.setHeight
theorem PresTop.ahhAddUnlessMem (n) : Step.Pres TopSame (ahhAddUnlessMem n) := by
  unfold Engine.ahhAddUnlessMem; qpres
top_leaf PresTop.ahhAddUnlessMem
theorem PresTop.ahhRemoveMin : Step.Pres TopSame ahhRemoveMin := by unfold Engine.ahhRemoveMin; qpres
top_leaf PresTop.ahhRemoveMin
theorem PresTop.ensureHeightRequirement (a b c d) : Step.Pres TopSame (ensureHeightRequirement a b c d) := by
  unfold Engine.ensureHeightRequirement; qpres
top_leaf PresTop.ensureHeightRequirement


macro_rules | `(tactic| qleaf) => `(tactic| apply Pres.forIn)

theorem PresTop.adjustHeightsLoop (oc op fuel) : Step.Pres TopSame (adjustHeightsLoop oc op fuel) := by
  induction fuel with
  | zero => unfold Engine.adjustHeightsLoop; qpres
  | succ fuel ih => unfold Engine.adjustHeightsLoop; qpres; all_goals exact ih
top_leaf PresTop.adjustHeightsLoop
theorem PresTop.adjustHeights (oc op fuel) : Step.Pres TopSame (adjustHeights oc op fuel) := by
  unfold Engine.adjustHeights; qpres
top_leaf PresTop.adjustHeights
theorem PresTop.addParent (a b c) : Step.Pres TopSame (addParent a b c) := by unfold Engine.addParent; qpres
top_leaf PresTop.addParent
theorem PresTop.removeParent (a b c) : Step.Pres TopSame (removeParent a b c) := by
  unfold Engine.removeParent; qpres
top_leaf PresTop.removeParent
theorem PresTop.handleAfterStabilisation (n) : Step.Pres TopSame (handleAfterStabilisation n) := by
  unfold Engine.handleAfterStabilisation; qpres
top_leaf PresTop.handleAfterStabilisation
theorem PresTop.maybeHandleAfterStabilisation (n) : Step.Pres TopSame (maybeHandleAfterStabilisation n) := by
  unfold Engine.maybeHandleAfterStabilisation; qpres
top_leaf PresTop.maybeHandleAfterStabilisation
theorem PresTop.shouldCutoff (env n o v) : Step.Pres TopSame (shouldCutoff env n o v) := by
  unfold Engine.shouldCutoff; qpres
top_leaf PresTop.shouldCutoff
theorem PresTop.edgeOnChange (env e edge) : Step.Pres TopSame (edgeOnChange env e edge) := by
  unfold Engine.edgeOnChange; qpres
top_leaf PresTop.edgeOnChange
theorem PresTop.runEdgeCallback (env e i) : Step.Pres TopSame (runEdgeCallback env e i) := by
  unfold Engine.runEdgeCallback; qpres
top_leaf PresTop.runEdgeCallback
theorem PresTop.observabilityChange (e b) : Step.Pres TopSame (observabilityChange e b) := by
  unfold Engine.observabilityChange; qpres
top_leaf PresTop.observabilityChange
theorem PresTop.markMapRefUnknown (fuel n) : Step.Pres TopSame (markMapRefUnknown fuel n) := by
  induction fuel generalizing n with
  | zero => unfold Engine.markMapRefUnknown; qpres
  | succ fuel ih => unfold Engine.markMapRefUnknown; qpres; all_goals exact ih _
top_leaf PresTop.markMapRefUnknown

theorem PresTop.necessary (env : Env) (fuel : Nat) :
    (∀ n, Step.Pres TopSame (becameNecessary env fuel n)) ∧
    (∀ c i p, Step.Pres TopSame (addParentWithoutAdjustingHeights env fuel c i p)) := by
  induction fuel with
  | zero =>
    constructor
    · intro n; unfold Engine.becameNecessary; qpres
    · intro c i p; unfold Engine.addParentWithoutAdjustingHeights; qpres
  | succ fuel ih =>
    constructor
    · intro n; unfold Engine.becameNecessary; qpres; all_goals exact ih.2 _ _ _
    · intro c i p; unfold Engine.addParentWithoutAdjustingHeights; qpres; all_goals exact ih.1 _
theorem PresTop.becameNecessary (env fuel n) : Step.Pres TopSame (becameNecessary env fuel n) :=
  (PresTop.necessary env fuel).1 n
top_leaf PresTop.becameNecessary
theorem PresTop.addParentWithoutAdjustingHeights (env fuel c i p) :
    Step.Pres TopSame (addParentWithoutAdjustingHeights env fuel c i p) := (PresTop.necessary env fuel).2 c i p
top_leaf PresTop.addParentWithoutAdjustingHeights

theorem PresTop.unnecessary (fuel : Nat) :
    (∀ n, Step.Pres TopSame (becameUnnecessary fuel n)) ∧ (∀ n, Step.Pres TopSame (checkIfUnnecessary fuel n)) ∧
    (∀ n, Step.Pres TopSame (removeChildren fuel n)) := by
  induction fuel with
  | zero =>
    refine ⟨?_, ?_, ?_⟩
    · intro n; unfold Engine.becameUnnecessary; qpres
    · intro n; unfold Engine.checkIfUnnecessary; qpres
    · intro n; unfold Engine.removeChildren; qpres
  | succ fuel ih =>
    refine ⟨?_, ?_, ?_⟩
    · intro n; unfold Engine.becameUnnecessary; qpres; all_goals exact ih.2.2 _
    · intro n; unfold Engine.checkIfUnnecessary; qpres; all_goals exact ih.1 _
    · intro n; unfold Engine.removeChildren; qpres; all_goals exact ih.2.1 _
theorem PresTop.becameUnnecessary (fuel n) : Step.Pres TopSame (becameUnnecessary fuel n) :=
  (PresTop.unnecessary fuel).1 n
top_leaf PresTop.becameUnnecessary
theorem PresTop.checkIfUnnecessary (fuel n) : Step.Pres TopSame (checkIfUnnecessary fuel n) :=
  (PresTop.unnecessary fuel).2.1 n
top_leaf PresTop.checkIfUnnecessary
theorem PresTop.removeChildren (fuel n) : Step.Pres TopSame (removeChildren fuel n) :=
  (PresTop.unnecessary fuel).2.2 n
top_leaf PresTop.removeChildren


theorem PresTop.invalidateNode (fuel n) : Step.Pres TopSame (invalidateNode fuel n) := by
  induction fuel generalizing n with
  | zero => unfold Engine.invalidateNode; qpres
  | succ fuel ih => unfold Engine.invalidateNode; qpres; all_goals exact ih _
top_leaf PresTop.invalidateNode

theorem PresTop.propagateInvalidity (fuel) : Step.Pres TopSame (propagateInvalidity fuel) := by
  induction fuel with
  | zero => unfold Engine.propagateInvalidity; qpres
  | succ fuel ih => unfold Engine.propagateInvalidity; qpres; all_goals exact ih
top_leaf PresTop.propagateInvalidity
theorem PresTop.stateAddParent (env fuel c i p) : Step.Pres TopSame (stateAddParent env fuel c i p) := by
  unfold Engine.stateAddParent; qpres
top_leaf PresTop.stateAddParent
theorem PresTop.changeChildBindRhs (env fuel m o nw i) :
    Step.Pres TopSame (changeChildBindRhs env fuel m o nw i) := by
  unfold Engine.changeChildBindRhs; qpres
top_leaf PresTop.changeChildBindRhs

/-! ### expert API -/
theorem PresTop.assertRunningIsChild (n name) : Step.Pres TopSame (assertRunningIsChild n name) := by
  unfold Engine.assertRunningIsChild; qpres
top_leaf PresTop.assertRunningIsChild
theorem PresTop.expertMakeStale (n) : Step.Pres TopSame (expertMakeStale n) := by
  unfold Engine.expertMakeStale; qpres
top_leaf PresTop.expertMakeStale
theorem PresTop.expertAddDependency (env fuel n c cb) :
    Step.Pres TopSame (expertAddDependency env fuel n c cb) := by
  unfold Engine.expertAddDependency; qpres
top_leaf PresTop.expertAddDependency
theorem PresTop.swapEdgeIndices (n c1 i1 c2 i2) : Step.Pres TopSame (swapEdgeIndices n c1 i1 c2 i2) := by
  unfold Engine.swapEdgeIndices; qpres
top_leaf PresTop.swapEdgeIndices
theorem PresTop.expertRemoveDependency (fuel n dep) : Step.Pres TopSame (expertRemoveDependency fuel n dep) := by
  unfold Engine.expertRemoveDependency; qpres
top_leaf PresTop.expertRemoveDependency
theorem PresTop.expertInvalidate (fuel n) : Step.Pres TopSame (expertInvalidate fuel n) := by
  unfold Engine.expertInvalidate; qpres
top_leaf PresTop.expertInvalidate

/-! ### node creation, var writes, effects -/
theorem PresTop.bumpCounter (f : Counters → Counters) : Step.Pres TopSame (bumpCounter f) := by
  unfold Engine.bumpCounter; qpres
top_leaf PresTop.bumpCounter
theorem PresTop.createNode (k sc c) : Step.Pres TopSame (createNode k sc c) := by
  unfold Engine.createNode; qpres
top_leaf PresTop.createNode
theorem PresTop.createVar (v sc) : Step.Pres TopSame (createVar v sc) := by unfold Engine.createVar; qpres
top_leaf PresTop.createVar
theorem PresTop.createBind (b l) : Step.Pres TopSame (createBind b l) := by unfold Engine.createBind; qpres
top_leaf PresTop.createBind
set_option maxHeartbeats 1000000 in
theorem PresTop.elabInstr (loc v i) : Step.Pres TopSame (elabInstr loc v i) := by
  cases i with
  | mapOp op => cases op <;> (simp only [Engine.elabInstr]; qpres)
  | _ => simp only [Engine.elabInstr]; qpres
top_leaf PresTop.elabInstr
theorem PresTop.elabTemplateBase (t v init) : Step.Pres TopSame (elabTemplateBase t v init) := by
  unfold Engine.elabTemplateBase; qpres
top_leaf PresTop.elabTemplateBase
theorem PresTop.memoCall (env m key) : Step.Pres TopSame (memoCall env m key) := by
  unfold Engine.memoCall; qpres
top_leaf PresTop.memoCall
theorem PresTop.elabInstrM (env loc v i) : Step.Pres TopSame (elabInstrM env loc v i) := by
  unfold Engine.elabInstrM; qpres
top_leaf PresTop.elabInstrM
theorem PresTop.elabTemplate (env t v) : Step.Pres TopSame (elabTemplate env t v) := by
  unfold Engine.elabTemplate; qpres
top_leaf PresTop.elabTemplate
theorem PresTop.didSetVarWhileNotStabilising (v) : Step.Pres TopSame (didSetVarWhileNotStabilising v) := by
  unfold Engine.didSetVarWhileNotStabilising; qpres
top_leaf PresTop.didSetVarWhileNotStabilising
theorem PresTop.writeVar (v f b) : Step.Pres TopSame (writeVar v f b) := by unfold Engine.writeVar; qpres
top_leaf PresTop.writeVar
theorem PresTop.disallowFutureUse (o) : Step.Pres TopSame (disallowFutureUse o) := by
  unfold Engine.disallowFutureUse; qpres
top_leaf PresTop.disallowFutureUse
/-- dropping a `Var` handle touches `vars` and `deadVars` only -/
theorem PresTop.dropVarHandle (v) : Step.Pres TopSame (dropVarHandle v) := by
  unfold Engine.dropVarHandle; qpres
top_leaf PresTop.dropVarHandle
theorem PresTop.runEffectBasic (env e) : Step.Pres TopSame (runEffectBasic env e) := by
  unfold Engine.runEffectBasic; qpres
top_leaf PresTop.runEffectBasic
theorem PresTop.runEffects (env fuel effs arg) : Step.Pres TopSame (runEffects env fuel effs arg) := by
  unfold Engine.runEffects; qpres
top_leaf PresTop.runEffects


/-! ### per-key operators, operator closures -/
theorem PresTop.expertValue (env e d sl) : Step.Pres TopSame (expertValue env e d sl) := by
  unfold Engine.expertValue; qpres
top_leaf PresTop.expertValue
theorem PresTop.withOldEvents (env g n σ old x new did) :
    Step.Pres TopSame (withOldEvents env g n σ old x new did) := by
  unfold Engine.withOldEvents; qpres
top_leaf PresTop.withOldEvents
set_option maxHeartbeats 1000000 in
theorem PresTop.perKeyDriver (env fuel op m) : Step.Pres TopSame (perKeyDriver env fuel op m) := by
  unfold Engine.perKeyDriver; qpres
top_leaf PresTop.perKeyDriver

/-! ### notifications, `maybeChangeValue`, `recomputeOne` -/
theorem PresTop.childChanged (env fuel p c ci o) : Step.Pres TopSame (childChanged env fuel p c ci o) := by
  induction fuel generalizing p c ci o with
  | zero => unfold Engine.childChanged; qpres
  | succ fuel ih => unfold Engine.childChanged; qpres; all_goals exact ih _ _ _ _
top_leaf PresTop.childChanged
theorem PresTop.parentIterCanRecomputeNow (p c) : Step.Pres TopSame (parentIterCanRecomputeNow p c) := by
  unfold Engine.parentIterCanRecomputeNow; qpres
top_leaf PresTop.parentIterCanRecomputeNow
theorem PresTop.maybeChangeValueManual (env fuel n o d b) :
    Step.Pres TopSame (maybeChangeValueManual env fuel n o d b) := by
  unfold Engine.maybeChangeValueManual; qpres
top_leaf PresTop.maybeChangeValueManual
theorem PresTop.maybeChangeValue (env fuel n v) : Step.Pres TopSame (maybeChangeValue env fuel n v) := by
  unfold Engine.maybeChangeValue; qpres
top_leaf PresTop.maybeChangeValue


set_option maxHeartbeats 1000000 in
theorem PresTop.recomputeOne (env fuel n) : Step.Pres TopSame (recomputeOne env fuel n) := by
  unfold Engine.recomputeOne; qpres
top_leaf PresTop.recomputeOne

theorem PresTop.recompute (env fuel n) : Step.Pres TopSame (recompute env fuel n) := by
  induction fuel generalizing n with
  | zero => unfold Engine.recompute; qpres
  | succ fuel ih => unfold Engine.recompute; qpres; all_goals exact ih _
top_leaf PresTop.recompute

theorem PresTop.rchRemoveMin : Step.Pres TopSame rchRemoveMin := by unfold Engine.rchRemoveMin; qpres
top_leaf PresTop.rchRemoveMin

theorem PresTop.drainHeap (env fuel) : Step.Pres TopSame (drainHeap env fuel) := by
  induction fuel with
  | zero => unfold Engine.drainHeap; qpres
  | succ fuel ih => unfold Engine.drainHeap; qpres; all_goals exact ih
top_leaf PresTop.drainHeap

theorem PresTop.becameNecessaryPropagate (env fuel n) : Step.Pres TopSame (becameNecessaryPropagate env fuel n) := by
  unfold Engine.becameNecessaryPropagate; qpres
top_leaf PresTop.becameNecessaryPropagate
theorem PresTop.addNewObservers (env fuel) : Step.Pres TopSame (addNewObservers env fuel) := by
  unfold Engine.addNewObservers; qpres
top_leaf PresTop.addNewObservers
theorem PresTop.unlinkDisallowedObservers (fuel) : Step.Pres TopSame (unlinkDisallowedObservers fuel) := by
  unfold Engine.unlinkDisallowedObservers; qpres
top_leaf PresTop.unlinkDisallowedObservers
theorem PresTop.runAll (env fuel o n nu now) : Step.Pres TopSame (runAll env fuel o n nu now) := by
  unfold Engine.runAll; qpres
top_leaf PresTop.runAll
theorem PresTop.stabiliseEnd (env fuel) : Step.Pres TopSame (stabiliseEnd env fuel) := by
  unfold Engine.stabiliseEnd; qpres
top_leaf PresTop.stabiliseEnd

/-- **`stabilise` never touches the naming table**, whatever its outcome. -/
theorem PresTop.stabilise (env fuel) : Step.Pres TopSame (stabilise env fuel) := by
  unfold Engine.stabilise; qpres

end IncrVerif.Proofs.BindH.C2h
