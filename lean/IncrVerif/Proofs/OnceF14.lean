import IncrVerif.Proofs.OnceF11
/-!
# C02, combined fragment, part 14: the value frame `VR` (continued) — the necessity cascades, invalidation, the expert API
-/
open IncrVerif.Engine IncrVerif.Proofs IncrVerif.Proofs.Step
namespace IncrVerif.Proofs.OnceF

set_option maxHeartbeats 600000 in
theorem PresV.necessary (n0 : Nat) (env : Env) (fuel : Nat) :
    (∀ n, Step.Pres (VR n0) (becameNecessary env fuel n)) ∧
    (∀ c i p, Step.Pres (VR n0) (addParentWithoutAdjustingHeights env fuel c i p)) := by
  induction fuel with
  | zero =>
    constructor
    · intro n; unfold Engine.becameNecessary; qpres
    · intro c i p; unfold Engine.addParentWithoutAdjustingHeights; qpres
  | succ fuel ih =>
    constructor
    · intro n; unfold Engine.becameNecessary; qpres; all_goals exact ih.2 _ _ _
    · intro c i p; unfold Engine.addParentWithoutAdjustingHeights; qpres; all_goals exact ih.1 _
theorem PresV.becameNecessary (n0 : Nat) (env fuel n) : Step.Pres (VR n0) (becameNecessary env fuel n) :=
  (PresV.necessary n0 env fuel).1 n
v_leaf PresV.becameNecessary
theorem PresV.addParentWithoutAdjustingHeights (n0 : Nat) (env fuel c i p) :
    Step.Pres (VR n0) (addParentWithoutAdjustingHeights env fuel c i p) := (PresV.necessary n0 env fuel).2 c i p
v_leaf PresV.addParentWithoutAdjustingHeights

set_option maxHeartbeats 600000 in
theorem PresV.unnecessary (n0 : Nat) (fuel : Nat) :
    (∀ n, Step.Pres (VR n0) (becameUnnecessary fuel n)) ∧ (∀ n, Step.Pres (VR n0) (checkIfUnnecessary fuel n)) ∧
    (∀ n, Step.Pres (VR n0) (removeChildren fuel n)) := by
  induction fuel with
  | zero =>
    refine ⟨?_, ?_, ?_⟩
    · intro n; unfold Engine.becameUnnecessary; qpres
    · intro n; unfold Engine.checkIfUnnecessary; qpres
    · intro n; unfold Engine.removeChildren; qpres
  | succ fuel ih =>
    refine ⟨?_, ?_, ?_⟩
    · intro n; unfold Engine.becameUnnecessary; qpres; all_goals exact ih.2.2 _
    · intro n; unfold Engine.checkIfUnnecessary; qpres; all_goals exact ih.1 _
    · intro n; unfold Engine.removeChildren; qpres; all_goals exact ih.2.1 _
theorem PresV.becameUnnecessary (n0 : Nat) (fuel n) : Step.Pres (VR n0) (becameUnnecessary fuel n) :=
  (PresV.unnecessary n0 fuel).1 n
v_leaf PresV.becameUnnecessary
theorem PresV.checkIfUnnecessary (n0 : Nat) (fuel n) : Step.Pres (VR n0) (checkIfUnnecessary fuel n) :=
  (PresV.unnecessary n0 fuel).2.1 n
v_leaf PresV.checkIfUnnecessary
theorem PresV.removeChildren (n0 : Nat) (fuel n) : Step.Pres (VR n0) (removeChildren fuel n) :=
  (PresV.unnecessary n0 fuel).2.2 n
v_leaf PresV.removeChildren


theorem PresV.invalidateNode (n0 : Nat) (fuel n) : Step.Pres (VR n0) (invalidateNode fuel n) := by
  induction fuel generalizing n with
  | zero => unfold Engine.invalidateNode; qpres
  | succ fuel ih => unfold Engine.invalidateNode; qpres; all_goals exact ih _
v_leaf PresV.invalidateNode

theorem PresV.propagateInvalidity (n0 : Nat) (fuel) : Step.Pres (VR n0) (propagateInvalidity fuel) := by
  induction fuel with
  | zero => unfold Engine.propagateInvalidity; qpres
  | succ fuel ih => unfold Engine.propagateInvalidity; qpres; all_goals exact ih
v_leaf PresV.propagateInvalidity
theorem PresV.stateAddParent (n0 : Nat) (env fuel c i p) : Step.Pres (VR n0) (stateAddParent env fuel c i p) := by
  unfold Engine.stateAddParent; qpres
v_leaf PresV.stateAddParent
theorem PresV.changeChildBindRhs (n0 : Nat) (env fuel m o nw i) :
    Step.Pres (VR n0) (changeChildBindRhs env fuel m o nw i) := by
  unfold Engine.changeChildBindRhs; qpres
v_leaf PresV.changeChildBindRhs

/-! ### expert API -/
theorem PresV.assertRunningIsChild (n0 : Nat) (n name) : Step.Pres (VR n0) (assertRunningIsChild n name) := by
  unfold Engine.assertRunningIsChild; qpres
v_leaf PresV.assertRunningIsChild
theorem PresV.expertMakeStale (n0 : Nat) (n) : Step.Pres (VR n0) (expertMakeStale n) := by
  unfold Engine.expertMakeStale; qpres
v_leaf PresV.expertMakeStale
theorem PresV.expertAddDependency (n0 : Nat) (env fuel n c cb) :
    Step.Pres (VR n0) (expertAddDependency env fuel n c cb) := by
  unfold Engine.expertAddDependency; qpres
v_leaf PresV.expertAddDependency
theorem PresV.swapEdgeIndices (n0 : Nat) (n c1 i1 c2 i2) : Step.Pres (VR n0) (swapEdgeIndices n c1 i1 c2 i2) := by
  unfold Engine.swapEdgeIndices; qpres
v_leaf PresV.swapEdgeIndices
theorem PresV.expertRemoveDependency (n0 : Nat) (fuel n dep) : Step.Pres (VR n0) (expertRemoveDependency fuel n dep) := by
  unfold Engine.expertRemoveDependency; qpres
v_leaf PresV.expertRemoveDependency
theorem PresV.expertInvalidate (n0 : Nat) (fuel n) : Step.Pres (VR n0) (expertInvalidate fuel n) := by
  unfold Engine.expertInvalidate; qpres
v_leaf PresV.expertInvalidate


end IncrVerif.Proofs.OnceF
