import IncrVerif.Proofs.MapRef1
/-!
# map_ref fragment, part 2: reading values; the fragment; the coupling invariant

* `RFrag env s`: every node of `s` is valid and of a kind of the fragment static + map_ref, children were created
  earlier, map_ref nodes have the default cutoff, no fault is armed.
* `KInv env g s`: the `didChange` invariant — a necessary map_ref node whose flag is down still shows its parents'
  view: the ghost value `g m` ("the projection the parents of `m` last consumed") is what `m` reads now.
* `settled`: below the current node of the scheduling invariant the ghost values are the values read.
-/
namespace IncrVerif.Proofs.MapRefH
open IncrVerif.Engine IncrVerif.Proofs IncrVerif.Proofs.Step IncrVerif.Proofs.Sched IncrVerif.Proofs.Quiet

/-- the fragment static + map_ref -/
structure RFrag (env : Env) (s : State) : Prop where
  pc : s.panicCountdown = none
  kind : ∀ n, n < s.nodes.size → RKind env (s.nodeD n).kind
  valid : ∀ n, n < s.nodes.size → (s.nodeD n).valid = true
  back : ∀ n, n < s.nodes.size → ∀ c, c ∈ kidsR (s.nodeD n).kind → c < n
  cut : ∀ n p i, (s.nodeD n).kind = .mapRef p i → (s.nodeD n).cutoff = .eq

/-- the `didChange` invariant, relative to the ghost values `g` -/
def KInv (env : Env) (g : Nat → Option Val) (s : State) : Prop :=
  ∀ m p i, s.isNecessary m = true → (s.nodeD m).kind = .mapRef p i → (s.nodeD m).didChange = false →
    g m = s.value env m

/-- the value stored in the virtual node -/
def tv (g : Nat → Option Val) (s : State) (n : Nat) : Option Val := ((virt g s).nodeD n).value

theorem RFrag.mapRefsBack {env : Env} {s : State} (F : RFrag env s) : MapRefsBack s := by
  intro n nd p i hn hk
  have hlt := lt_of_some hn
  have := F.back n hlt i
  rw [nodeD_of_some hn, hk] at this
  exact this (by simp [kidsR])

theorem RFrag.lt_of_mapRef {env : Env} {s : State} (_F : RFrag env s) {n p i : Nat}
    (hk : (s.nodeD n).kind = .mapRef p i) : n < s.nodes.size := by
  by_cases h : n < s.nodes.size
  · exact h
  · rw [nodeD_default_of_ge s n (by omega)] at hk; cases hk

/-- a map_ref node reads the projection of what its input reads -/
theorem value_mapRef {env : Env} {s : State} (F : RFrag env s) {n p i : Nat}
    (hk : (s.nodeD n).kind = .mapRef p i) : s.value env n = (s.value env i).map (env.proj p) := by
  have hlt := F.lt_of_mapRef hk
  have hi : i < n := F.back n hlt i (by rw [hk]; simp [kidsR])
  unfold State.value
  rw [valueWith_succ']
  have hc : valueCore (s.nodeD n) = (.mapRef p i, true, (s.nodeD n).value) := by
    simp [valueCore, hk, F.valid n hlt]
  rw [hc]
  simp only [valueStep']
  congr 1
  exact valueWith_congr_below env.proj s s F.mapRefsBack i (fun _ _ => rfl) _ _ (by omega) (by omega)

theorem value_not_mapRef {env : Env} {s : State} {n : Nat} (h : ∀ p i, (s.nodeD n).kind ≠ .mapRef p i) :
    s.value env n = (s.nodeD n).value := value_plain env s n h

theorem tv_not_mapRef {env : Env} {g : Nat → Option Val} {s : State} {n : Nat}
    (h : ∀ p i, (s.nodeD n).kind ≠ .mapRef p i) : tv g s n = s.value env n := by
  rw [value_not_mapRef h, tv, virt_nodeD, virtNode_value_of_not_mapRef _ _ h]

theorem tv_mapRef {g : Nat → Option Val} {s : State} {n p i : Nat} (h : (s.nodeD n).kind = .mapRef p i) :
    tv g s n = g n := by
  rw [tv, virt_nodeD, virtNode_value_mapRef _ _ h]

/-- in the virtual state every node reads its stored value -/
theorem virt_value (env : Env) (g : Nat → Option Val) (s : State) (n : Nat) :
    (virt g s).value (virtEnv env) n = tv g s n := by
  rw [tv]
  apply value_plain
  intro p i
  rw [virt_nodeD]
  exact virtNode_not_mapRef _ _ p i

theorem virtEnv_fn_real (env : Env) {f : Nat} (h : f < projBase) (vals : List Val) :
    (virtEnv env).fn f vals = env.fn f vals := by
  simp [virtEnv, Nat.not_le.2 h]

theorem virtEnv_fn_proj (env : Env) (p : Nat) (vals : List Val) :
    (virtEnv env).fn (projBase + p) vals = env.proj p (vals.headD .unit) := by
  simp [virtEnv]

theorem virtEnv_foldStep (env : Env) : (virtEnv env).foldStep = env.foldStep := rfl
theorem virtEnv_fnEff (env : Env) : (virtEnv env).fnEff = env.fnEff := rfl

/-! ## the structural hypotheses of the scheduling theorem, read in the actual state -/

section
variable {env : Env} {g : Nat → Option Val} {s : State}

theorem virt_kids (m : Nat) : kids ((virt g s).nodeD m).kind = kidsR (s.nodeD m).kind := by
  rw [virt_nodeD, virtNode_kind, kids_virtKind']

theorem virt_plainVals (l : List Nat) : plainVals (virt g s) l = evalArgs (tv g s) l := rfl

/-- below a necessary node all of whose descendants are fresh (necessary, not stale, consistent), the ghost
values are the values read -/
theorem settled (F : RFrag env s) (gr : Graph (virtEnv env) (virt g s))
    (hcons : ∀ e, (virt g s).isNecessary e = true → (virt g s).isStale e = false →
      Consistent (virtEnv env) (virt g s) e) :
    ∀ d, s.isNecessary d = true → (∀ e, Anc (virt g s) d e → s.isStale e = false) → tv g s d = s.value env d := by
  intro d
  induction d using Nat.strongRecOn with
  | _ d ih =>
    intro hd hfresh
    by_cases hmr : ∀ p i, (s.nodeD d).kind ≠ .mapRef p i
    · exact tv_not_mapRef hmr
    · have : ∃ p i, (s.nodeD d).kind = .mapRef p i := by
        cases hk : (s.nodeD d).kind <;> first | exact ⟨_, _, rfl⟩ | (exfalso; apply hmr; intro p i; rw [hk]; intro h; cases h)
      obtain ⟨p, i, hk⟩ := this
      have hlt := F.lt_of_mapRef hk
      have hi : i < d := F.back d hlt i (by rw [hk]; simp [kidsR])
      have hdv : (virt g s).isNecessary d = true := by rw [virt_isNecessary]; exact hd
      have hns : (virt g s).isStale d = false := by rw [virt_isStale]; exact hfresh d (Anc.refl d)
      obtain ⟨w, hw, hv⟩ := hcons d hdv hns
      have hkv : ((virt g s).nodeD d).kind = .map (projBase + p) [i] := by
        rw [virt_nodeD, virtNode_kind, hk]; rfl
      unfold Target at hw
      rw [hkv] at hw
      obtain ⟨vals, hvals, hwv⟩ := hw
      -- the child
      have hci : i ∈ kids ((virt g s).nodeD d).kind := by rw [hkv]; simp [kids]
      obtain ⟨hin, -⟩ := gr.kids_nec hdv hci
      have hin' : s.isNecessary i = true := by rw [← virt_isNecessary g s]; exact hin
      have hti : tv g s i = s.value env i :=
        ih i hi hin' (fun e he => hfresh e (Anc.step hdv hci he))
      rw [virt_plainVals] at hvals
      simp only [evalArgs] at hvals
      rw [value_mapRef F hk, ← hti]
      show ((virt g s).nodeD d).value = _
      rw [hv, hwv, virtEnv_fn_proj]
      cases hx : tv g s i with
      | none => rw [hx] at hvals; simp at hvals
      | some x => rw [hx] at hvals; simp at hvals; subst hvals; rfl

end
end IncrVerif.Proofs.MapRefH
