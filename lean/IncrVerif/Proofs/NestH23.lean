import IncrVerif.Proofs.NestH22
import IncrVerif.Proofs.Quiet10
/-!
# Nested binds (F2), the closure run, part 4: `createBind` keeps `GInv2`; operands; one instruction

* `NN.pushBind_ginv2`: `createBind body' lhs` in scope `.bind b` (ONE step: fresh record, its change detector and main node) keeps `GInv2`, with the rank
  `rkBind rk br1.main s.nodes.size`.
* `NN.RC2`, `NN.resolve_inv2`, `NN.mapM_resolve_inv2`: operand resolution (port of `CN.resolve_inv`).
* `NN.elab_inv2`: an instruction of an F2 closure is either the creation of one static node with legal children, or `createBind` on a legal lhs.
-/
namespace IncrVerif.Proofs.NestH
open IncrVerif.Engine IncrVerif.Proofs IncrVerif.Proofs.Step IncrVerif.Proofs.Sched IncrVerif.Proofs.Quiet
open IncrVerif.Proofs.BindH

namespace NN

section pushBind
variable {env : Env} {rk : Nat → Nat} {body lhs b : Nat} {s s' : State} {dy : List Nat} {ex : Nat → Prop}

/-- **`createBind`** in scope `.bind b` keeps the structural invariant, with the rank extended twice -/
theorem pushBind_ginv2 (C : PushBind body lhs b s s') (I : GInv2 env rk s allClosed ex dy) {br1 : BindRec}
    (hb : s.binds[b]? = some br1) (hv : (s.nodeD br1.lhsChange).valid = true)
    (hlhs : KidOK2 rk s b br1.lhsChange dy lhs) :
    GInv2 env (rkBind rk br1.main s.nodes.size) s' allClosed ex dy := by
  have A := I.frag
  obtain ⟨r1, r2, -⟩ := A.recs b br1 hb
  have hvm : (s.nodeD br1.main).valid = true := by rw [A.recValid b br1 hb]; exact hv
  have hlm := A.lc_rk_main hb hvm
  have hmne : br1.main ≠ s.nodes.size := by omega
  have hmne' : br1.main ≠ s.nodes.size + 1 := by omega
  have hlne : br1.lhsChange ≠ s.nodes.size := by omega
  have hlne' : br1.lhsChange ≠ s.nodes.size + 1 := by omega
  have hsz := C.size
  have hmdy : s.nodes.size ∉ dy := fun h => by
    have := (A.dyIn _ h).1
    omega
  have hmdy' : s.nodes.size + 1 ∉ dy := fun h => by
    have := (A.dyIn _ h).1
    omega
  have hnew := C.binds_new hb
  have hbb := C.binds_b hb
  have hchl : s'.children s.nodes.size = [lhs] := by
    unfold State.children Node.kind?
    rw [C.nodeD_lc]
    simp only [if_true, hnew]
  have hchm : s'.children (s.nodes.size + 1) = [s.nodes.size] := by
    unfold State.children Node.kind?
    rw [C.nodeD_main]
    simp only [if_true, hnew]
  have hrl := hlhs.rk_lt A hb hlm
  obtain ⟨k1, k2, k3, k4⟩ := hlhs
  apply (C.ext hb).ginv2 I hb (rkBind_ext rk _ (Nat.le_refl _)) hv
  · intro n h1 h2
    rw [hsz] at h2
    have : n = s.nodes.size ∨ n = s.nodes.size + 1 := by omega
    rcases this with e | e
    · -- the change detector of the new bind
      subst e
      refine ⟨by rw [C.nodeD_lc]; exact trivial, by rw [C.nodeD_lc]; exact Or.inr rfl, ?_, ?_, ?_, ?_, ?_, ?_, ?_, ?_⟩
      · intro c hc
        rw [hchl, List.mem_singleton] at hc
        omega
      · intro c hc
        rw [hchl, List.mem_singleton] at hc
        rw [hc, C.nodeD_lt k1]; exact k2
      · intro c hc
        rw [hchl, List.mem_singleton] at hc
        rw [hc, rkBind_lc, rkBind_old _ _ _ (by omega) (by omega)]
        omega
      · intro b' hk
        rw [C.nodeD_lc] at hk
        simp only at hk
        injection hk with hk
        subst hk
        exact ⟨_, hnew, rfl⟩
      · intro b' lc hk
        rw [C.nodeD_lc] at hk
        cases hk
      · intro c b' hc hk
        rw [hchl, List.mem_singleton] at hc
        rw [hc, C.nodeD_lt k1] at hk
        exact absurd hk (k3 b')
      · intro h
        rw [C.nodeD_lc] at h
        cases h
      · intro b' h
        rw [C.nodeD_lc] at h ⊢
        simp only at h ⊢
        injection h with h
        subst h
        refine ⟨(fun c e => by cases e), _, hbb, r2, ?_⟩
        intro c hc
        rw [hchl, List.mem_singleton] at hc
        rw [hc, C.nodeD_lt k1]
        rcases k4 with ⟨h4, -⟩ | ⟨h4, h5⟩
        · exact Or.inl h4
        · exact Or.inr (Or.inl ⟨h4, ⟨fun h => absurd h h5, fun h => absurd h hmdy⟩⟩)
    · -- the main node of the new bind
      subst e
      refine ⟨by rw [C.nodeD_main]; exact trivial, by rw [C.nodeD_main]; exact Or.inl rfl, ?_, ?_, ?_, ?_, ?_, ?_, ?_, ?_⟩
      · intro c hc
        rw [hchm, List.mem_singleton] at hc
        omega
      · intro c hc
        rw [hchm, List.mem_singleton] at hc
        rw [hc, C.nodeD_lc]
      · intro c hc
        rw [hchm, List.mem_singleton] at hc
        rw [hc, rkBind_main rk hmne, rkBind_lc]
        omega
      · intro b' hk
        rw [C.nodeD_main] at hk
        cases hk
      · intro b' lc hk
        rw [C.nodeD_main] at hk
        simp only at hk
        injection hk with e1 e2
        subst e1
        subst e2
        exact ⟨_, hnew, rfl, rfl⟩
      · intro c b' hc hk
        rw [hchm, List.mem_singleton] at hc
        rw [hc, C.nodeD_lc] at hk
        simp only at hk
        injection hk with hk
        subst hk
        rw [C.nodeD_main, hc]
      · intro h
        rw [C.nodeD_main] at h
        cases h
      · intro b' h
        rw [C.nodeD_main] at h ⊢
        simp only at h ⊢
        injection h with h
        subst h
        have r3 : br1.main < s.nodes.size + 1 := by omega
        refine ⟨(fun c e => by cases e), _, hbb, r3, ?_⟩
        intro c hc
        rw [hchm, List.mem_singleton] at hc
        rw [hc, C.nodeD_lc]
        exact Or.inr (Or.inl ⟨rfl, ⟨fun h => absurd h hmdy, fun h => absurd h hmdy'⟩⟩)
  · intro m h1 h2
    rw [hsz] at h2
    have : m = s.nodes.size ∨ m = s.nodes.size + 1 := by omega
    rcases this with e | e
    · subst e
      rw [rkBind_lc, rkBind_old _ _ _ hlne hlne', rkBind_old _ _ _ hmne hmne']
      omega
    · subst e
      rw [rkBind_main rk hmne, rkBind_old _ _ _ hlne hlne', rkBind_old _ _ _ hmne hmne']
      omega
  · intro n m hn hm
    rw [hsz] at hn hm
    exact rkBind_inj A.rkInj (by omega) hmne n m hn hm

end pushBind

/-! ## operands -/

/-- what operand resolution reads (`rk0`, `s0`: the rank and the state when the closure run started; `rk`, `t`: now) -/
structure RC2 (rk0 rk : Nat → Nat) (s0 t : State) (b lc : Nat) (dy : List Nat) (j : Nat) (loc : List Nat) : Prop where
  top : t.top = s0.top
  outer : ∀ (k r : Nat), s0.top[k]? = some r → rk0 r < rk0 lc →
    KidOK2 rk t b lc dy r ∧ (t.nodeD r).createdIn = .top ∧ rk r < rk lc
  locs : ∀ i, i < j → ∃ c, loc[i]? = some c ∧ KidOK2 rk t b lc dy c ∧ s0.nodes.size ≤ c

section resolve
variable {rk0 rk : Nat → Nat} {s0 t t' : State} {b lc j : Nat} {dy : List Nat} {loc : List Nat}

theorem resolve_inv2 (R : RC2 rk0 rk s0 t b lc dy j loc) {o : Opnd} {c : Nat} (ho : OpndOK2 rk0 s0 lc j o)
    (h : (resolveOpnd loc o).run.run t = (.ok c, t')) :
    t' = t ∧ KidOK2 rk t b lc dy c ∧ (((t.nodeD c).createdIn = .top ∧ rk c < rk lc) ∨ s0.nodes.size ≤ c) := by
  cases o with
  | outer k =>
    obtain ⟨r, hr, hlt⟩ := ho
    unfold resolveOpnd at h
    simp only at h
    rw [run_bind_get, R.top, hr] at h
    obtain ⟨e1, e2⟩ := pure_ok_inv h
    rw [e1]
    obtain ⟨h1, h2, h3⟩ := R.outer k r hr hlt
    exact ⟨e2, h1, Or.inl ⟨h2, h3⟩⟩
  | loc i =>
    obtain ⟨c', hc, h1, h2⟩ := R.locs i ho
    unfold resolveOpnd at h
    simp only [hc] at h
    obtain ⟨e1, e2⟩ := pure_ok_inv h
    rw [e1]
    exact ⟨e2, h1, Or.inr h2⟩
  | abs _ => exact ho.elim
  | slot _ => exact ho.elim

theorem mapM_resolve_inv2 (R : RC2 rk0 rk s0 t b lc dy j loc) :
    ∀ (l : List Opnd) (r : List Nat) (t' : State), (∀ a, a ∈ l → OpndOK2 rk0 s0 lc j a) →
      (l.mapM (fun o => resolveOpnd loc o)).run.run t = (.ok r, t') →
      t' = t ∧ ∀ c, c ∈ r → KidOK2 rk t b lc dy c := by
  intro l
  induction l with
  | nil =>
    intro r t' _ h
    rw [List.mapM_nil] at h
    obtain ⟨e1, e2⟩ := pure_ok_inv h
    rw [e1]; exact ⟨e2, fun c hc => by cases hc⟩
  | cons a l ih =>
    intro r t' hl h
    rw [List.mapM_cons] at h
    obtain ⟨x, t1, h1, h2⟩ := bind_ok_inv h
    obtain ⟨et, hk, -⟩ := resolve_inv2 R (hl a (List.mem_cons_self ..)) h1
    rw [et] at h2
    obtain ⟨xs, t2, h3, h4⟩ := bind_ok_inv h2
    obtain ⟨et2, hxs⟩ := ih xs t2 (fun y hy => hl y (List.mem_cons_of_mem _ hy)) h3
    obtain ⟨e1, e2⟩ := pure_ok_inv h4
    rw [e1, e2]
    refine ⟨et2, fun c hc => ?_⟩
    rcases List.mem_cons.1 hc with e | hc
    · rw [e]; exact hk
    · exact hxs c hc

end resolve

/-! ## one instruction -/

/-- an instruction of an F2 closure: one static node with legal children, or `createBind` on a legal lhs (the LOCAL is the main node of the new bind) -/
theorem elab_inv2 {env : Env} {rk0 rk : Nat → Nat} {s0 t t1 : State} {P : Nat → Prop} {b lc j : Nat} {dy : List Nat}
    {loc : List Nat} {i : Instr} {v : Val} {ro : Option Nat} (R : RC2 rk0 rk s0 t b lc dy j loc)
    (hsc : t.currentScope = .bind b)
    (hi : InstrOK2 env rk0 s0 P lc j i) (h : (elabInstrM env loc v i).run.run t = (.ok ro, t1)) :
    (∃ k, ro = some t.nodes.size ∧ StaticKind env k ∧ (∀ c, k ≠ .var c) ∧
      (∀ c, c ∈ kids k → KidOK2 rk t b lc dy c) ∧ CN.Push k b t t1) ∨
    (∃ body' o lhs, i = .bind body' o ∧ P body' ∧ (resolveOpnd loc o).run.run t = (.ok lhs, t) ∧
      ro = some (t.nodes.size + 1) ∧ KidOK2 rk t b lc dy lhs ∧ PushBind body' lhs b t t1) := by
  cases i with
  | const w =>
    left
    unfold elabInstrM at h
    simp only at h
    unfold elabInstr at h
    rw [run_bind_get] at h
    simp only [hsc] at h
    obtain ⟨n, h1, e⟩ := map_ok_inv h
    obtain ⟨en, C⟩ := CN.createNode_push h1
    exact ⟨.const w, by rw [e, en], trivial, (fun c e => by cases e), (fun c hc => by cases hc), C⟩
  | lhsConst =>
    left
    unfold elabInstrM at h
    simp only at h
    unfold elabInstr at h
    rw [run_bind_get] at h
    simp only [hsc] at h
    obtain ⟨n, h1, e⟩ := map_ok_inv h
    obtain ⟨en, C⟩ := CN.createNode_push h1
    exact ⟨.const v, by rw [e, en], trivial, (fun c e => by cases e), (fun c hc => by cases hc), C⟩
  | map f args =>
    left
    unfold elabInstrM at h
    simp only at h
    unfold elabInstr at h
    rw [run_bind_get] at h
    simp only [hsc] at h
    obtain ⟨as, t2, h1, h2⟩ := bind_ok_inv h
    obtain ⟨et, has⟩ := mapM_resolve_inv2 R args as t2 hi.2.2 h1
    rw [et] at h2
    obtain ⟨n, h3, e⟩ := map_ok_inv h2
    obtain ⟨en, C⟩ := CN.createNode_push h3
    exact ⟨.map f as, by rw [e, en], ⟨hi.1, hi.2.1⟩, (fun c e => by cases e), has, C⟩
  | fold f init cs =>
    left
    unfold elabInstrM at h
    simp only at h
    unfold elabInstr at h
    rw [run_bind_get] at h
    simp only [hsc] at h
    obtain ⟨as, t2, h1, h2⟩ := bind_ok_inv h
    obtain ⟨et, has⟩ := mapM_resolve_inv2 R cs as t2 hi h1
    rw [et] at h2
    split at h2
    · obtain ⟨n, h3, e⟩ := map_ok_inv h2
      obtain ⟨en, C⟩ := CN.createNode_push h3
      exact ⟨.const init, by rw [e, en], trivial, (fun c e => by cases e), (fun c hc => by cases hc), C⟩
    · obtain ⟨n, h3, e⟩ := map_ok_inv h2
      obtain ⟨en, C⟩ := CN.createNode_push h3
      exact ⟨.fold f init as, by rw [e, en], trivial, (fun c e => by cases e), has, C⟩
  | bind body' o =>
    right
    unfold elabInstrM at h
    simp only at h
    unfold elabInstr at h
    rw [run_bind_get] at h
    simp only at h
    obtain ⟨x, t2, h1, h2⟩ := bind_ok_inv h
    obtain ⟨et, hk, -⟩ := resolve_inv2 R hi.2 h1
    rw [et] at h2 h1
    obtain ⟨n, h3, e⟩ := map_ok_inv h2
    obtain ⟨en, C⟩ := createBind_pushBind hsc h3
    exact ⟨body', o, x, rfl, hi.1, h1, by rw [e, en], hk, C⟩
  | _ => exact hi.elim

end NN

end IncrVerif.Proofs.NestH
