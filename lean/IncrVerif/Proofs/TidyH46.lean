import IncrVerif.Proofs.TidyH31
import IncrVerif.Proofs.TidyH45
/-!
# T4, part f (3): `stabiliseEnd` returns (port of `Proofs/Quiet25.lean`; statements about plain states, no invariant,
no order: they hold for every state of every fragment)
-/
namespace IncrVerif.Proofs.TidyH.XT
open IncrVerif.Engine IncrVerif.Driver IncrVerif.Proofs IncrVerif.Proofs.Step IncrVerif.Proofs.Sched
open IncrVerif.Proofs.ExpertH IncrVerif.Proofs.ExpertH.QR

namespace X4f

/-- a loop whose iterations all return, yield, and leave the state `K` alone -/
theorem forIn_same {α β} (K : State) (f : α → β → M (ForInStep β)) (l : List α)
    (hf : ∀ a, a ∈ l → ∀ b, Tot (f a b) K (fun r t => t = K ∧ ∃ b', r = .yield b')) :
    ∀ b, Tot (forIn l b f) K (fun _ t => t = K) := by
  induction l with
  | nil => intro b; exact ⟨b, K, by rw [List.forIn_nil, run_pure], rfl⟩
  | cons a l ih =>
    intro b
    obtain ⟨r, t, h1, e1, b1, er⟩ := hf a (List.mem_cons_self ..) b
    rw [e1, er] at h1
    obtain ⟨b2, t2, h2, e2⟩ := ih (fun a' ha' => hf a' (List.mem_cons_of_mem _ ha')) b1
    exact ⟨b2, t2, by rw [List.forIn_cons, run_bind_ok h1]; exact h2, e2⟩

/-- the third loop of `stabiliseEnd` (stated for any body that behaves like it) -/
theorem loop3 {s : State}
    (f : Nat → List (Nat × NodeUpdate) → M (ForInStep (List (Nat × NodeUpdate))))
    (hf : ∀ n q t, ∃ nu, (f n q).run.run t = (.ok (.yield (q ++ [(n, nu)])),
      { t with nodes := t.nodes.modify n fun x => { x with inHandleAfterStab := false } }))
    (hs : List Nat) (hhs : ∀ n, n ∈ hs → n < s.nodes.size) :
    ∀ q t, Mid s t → (∀ p, p ∈ q → p.1 < s.nodes.size) →
      ∃ q' t', (forIn hs q f).run.run t = (.ok q', t') ∧ Mid s t' ∧ (∀ p, p ∈ q' → p.1 < s.nodes.size) := by
  induction hs with
  | nil => intro q t M hq; exact ⟨q, t, by rw [List.forIn_nil, run_pure], M, hq⟩
  | cons a l ih =>
    intro q t M hq
    obtain ⟨nu, h1⟩ := hf a q t
    have hq' : ∀ p, p ∈ q ++ [(a, nu)] → p.1 < s.nodes.size := by
      intro p hp
      simp only [List.mem_append, List.mem_singleton] at hp
      rcases hp with hp | hp
      · exact hq p hp
      · rw [hp]; exact hhs a (List.mem_cons_self ..)
    obtain ⟨q2, t2, h2, M2, hq2⟩ := ih (fun n hn => hhs n (List.mem_cons_of_mem _ hn)) _ _ (M.modNode a false) hq'
    exact ⟨q2, t2, by rw [List.forIn_cons, run_bind_ok h1]; exact h2, M2, hq2⟩

theorem runAll_ret {env : Env} {fuel o n : Nat} {nu : NodeUpdate} {now : Int} {s : State} {ob : ObsRec}
    (ho : s.observers[o]? = some ob) (hh : ob.handlers = []) :
    (runAll env fuel o n nu now).run.run s = (.ok (), s) := by
  have hg : (getObs o).run.run s = (.ok ob, s) := by rw [QR.P12.run_getObs, ho]
  unfold runAll
  rw [run_bind_ok hg, hh]
  dsimp only
  rw [List.forIn_nil]
  rfl

end X4f

theorem stabiliseEnd_total {env : Env} {fuel : Nat} {s : State} (h1 : s.setDuringStab = [])
    (h2 : s.deadVars = [])
    (hobs : ∀ (o : Nat) (ob : ObsRec), s.observers[o]? = some ob → ob.handlers = [])
    (hhs : ∀ n, n ∈ s.handleAfterStab → n < s.nodes.size)
    (hno : ∀ n o, o ∈ (s.nodeD n).observers → o < s.observers.size) :
    Tot (stabiliseEnd env fuel) s (fun _ _ => True) := by
  unfold stabiliseEnd
  refine Tot.bind_modify ?_
  refine Tot.bind_get ?_
  dsimp only
  refine Tot.bind_modify ?_
  rw [h1, List.forIn_nil]
  refine Tot.bind_ok (run_pure _ _) ?_
  refine Tot.bind_get ?_
  dsimp only
  refine Tot.bind_modify ?_
  rw [h2, List.forIn_nil]
  refine Tot.bind_ok (run_pure _ _) ?_
  refine Tot.bind_get ?_
  dsimp only
  refine Tot.bind_modify ?_
  refine Tot.bind (Q := fun q t => Mid s t ∧ ∀ p, p ∈ q → p.1 < s.nodes.size) ?_ ?_
  · refine X4f.loop3 (s := s) _ ?_ s.handleAfterStab hhs [] _ ?_ ?_
    · intro n q t
      exact ⟨_, by rw [run_bind_modNode, run_bind_get, run_pure]⟩
    · exact ⟨rfl, fun m => ⟨_, rfl⟩, rfl, rfl, rfl, rfl, rfl, rfl, rfl, rfl, rfl, rfl, rfl, rfl, rfl, rfl, rfl,
        rfl, rfl, rfl, rfl, rfl⟩
    · intro p hp; cases hp
  intro q t _ ⟨M, hq⟩
  refine Tot.bind_modify ?_
  refine Tot.bind_get ?_
  refine Tot.bind (X4f.forIn_same _ _ q ?_ _) ?_
  · intro x hx b
    have hlt : x.1 < t.nodes.size := by rw [M.size]; exact hq x hx
    refine Tot.bind_getNode hlt ?_
    refine Tot.bind (X4f.forIn_same _ _ _ ?_ _) ?_
    · intro o ho b2
      have ho' : o ∈ (s.nodeD x.1).observers := by
        obtain ⟨bb, hbb⟩ := M.node x.1
        have : (t.nodeD x.1).observers = (s.nodeD x.1).observers := by rw [hbb]
        rw [← this]; exact ho
      have hlo := hno _ _ ho'
      have hsome : s.observers[o]? = some s.observers[o] := Array.getElem?_eq_getElem hlo
      have hh := hobs o _ hsome
      refine Tot.bind_ok (X4f.runAll_ret (ob := s.observers[o]) ?_ hh) (Tot.pure ⟨rfl, _, rfl⟩)
      show t.observers[o]? = _
      rw [M.observers]; exact hsome
    · intro _ t1 _ e
      rw [e]
      exact Tot.pure ⟨rfl, _, rfl⟩
  intro _ t1 _ e
  rw [e]
  refine Tot.bind_modify ?_
  exact ⟨(), _, run_modify _ _, trivial⟩

end IncrVerif.Proofs.TidyH.XT
