import IncrVerif.Proofs.HeightH1
/-!
# The unlinking cascade never raises `maxHeightSeen`

`maxHeightSeen` is changed only by `setHeight`; the unlinking cascade (`becameUnnecessary`, `checkIfUnnecessary`,
`removeChildren`) only calls `setHeight n (-1)`, which leaves a non-negative `maxHeightSeen` alone.
-/
namespace IncrVerif.Proofs.HeightH
open IncrVerif.Engine IncrVerif.Driver IncrVerif.Proofs IncrVerif.Proofs.Step IncrVerif.Proofs.Sched
open IncrVerif.Proofs.Quiet

/-- a non-negative `maxHeightSeen` is unchanged -/
def SeenU (s s' : State) : Prop := 0 ≤ s.maxHeightSeen → s'.maxHeightSeen = s.maxHeightSeen

theorem SeenU.refl (s : State) : SeenU s s := fun _ => rfl
theorem SeenU.trans {a b c : State} (h1 : SeenU a b) (h2 : SeenU b c) : SeenU a c := by
  intro h0
  have e1 := h1 h0
  have e2 := h2 (by rw [e1]; exact h0)
  rw [e2, e1]
instance : PreOrd SeenU := ⟨SeenU.refl, SeenU.trans⟩

theorem SeenU.of_eq {s s' : State} (h : s'.maxHeightSeen = s.maxHeightSeen) : SeenU s s' := fun _ => h

theorem PresU.modNode (n : Nat) (f : Node → Node) : Step.Pres SeenU (modNode n f) := by
  unfold Engine.modNode
  exact Step.Pres.modify fun s => SeenU.of_eq rfl

/-- the special leaf: `setHeight n (-1)` -/
theorem PresU.setHeight_neg (n : Nat) : Step.Pres SeenU (setHeight n (-1)) := by
  constructor
  intro s r s' h h0
  rw [setHeight_run] at h
  have hc : ¬ ((-1 : Int) > s.maxHeightSeen ∧ (-1 : Int) > s.ahh.maxAllowed) := by omega
  rw [if_neg hc] at h
  cases h
  show max s.maxHeightSeen (-1) = s.maxHeightSeen
  omega

macro_rules
  | `(tactic| qleaf) =>
    `(tactic| ((with_reducible apply Step.Pres.modify); intro _; exact SeenU.of_eq rfl))
macro_rules
  | `(tactic| qleaf) => `(tactic| (with_reducible apply PresU.modNode))
macro_rules
  | `(tactic| qleaf) => `(tactic| (with_reducible apply PresU.setHeight_neg))

macro "su_leaf " n:ident : command =>
  `(macro_rules | `(tactic| qleaf) => `(tactic| with_reducible apply $n))

theorem PresU.handleAfterStabilisation (n) : Step.Pres SeenU (handleAfterStabilisation n) := by
  unfold Engine.handleAfterStabilisation; qpres
su_leaf PresU.handleAfterStabilisation
theorem PresU.tick : Step.Pres SeenU tick := by unfold Engine.tick; qpres
su_leaf PresU.tick
theorem PresU.logEv (e) : Step.Pres SeenU (logEv e) := by unfold Engine.logEv; qpres
su_leaf PresU.logEv
theorem PresU.modExpert (e f) : Step.Pres SeenU (modExpert e f) := by unfold Engine.modExpert; qpres
su_leaf PresU.modExpert
theorem PresU.observabilityChange (e b) : Step.Pres SeenU (observabilityChange e b) := by
  unfold Engine.observabilityChange; qpres
su_leaf PresU.observabilityChange
theorem PresU.rchUnlink (n) : Step.Pres SeenU (rchUnlink n) := by unfold Engine.rchUnlink; qpres
su_leaf PresU.rchUnlink
theorem PresU.rchRemove (n) : Step.Pres SeenU (rchRemove n) := by unfold Engine.rchRemove; qpres
su_leaf PresU.rchRemove
theorem PresU.removeParent (c i p) : Step.Pres SeenU (removeParent c i p) := by
  unfold Engine.removeParent; qpres
su_leaf PresU.removeParent
theorem PresU.maybeHandleAfterStabilisation (n) : Step.Pres SeenU (maybeHandleAfterStabilisation n) := by
  unfold Engine.maybeHandleAfterStabilisation; qpres
su_leaf PresU.maybeHandleAfterStabilisation

theorem PresU.unlink (fuel : Nat) :
    (∀ n, Step.Pres SeenU (becameUnnecessary fuel n)) ∧
    (∀ n, Step.Pres SeenU (checkIfUnnecessary fuel n)) ∧
    (∀ n, Step.Pres SeenU (removeChildren fuel n)) := by
  induction fuel with
  | zero =>
    refine ⟨?_, ?_, ?_⟩
    · intro n; unfold becameUnnecessary; qpres
    · intro n; unfold checkIfUnnecessary; qpres
    · intro n; unfold removeChildren; qpres
  | succ fuel ih =>
    refine ⟨?_, ?_, ?_⟩
    · intro n
      unfold becameUnnecessary
      qpres
      all_goals exact ih.2.2 _
    · intro n
      unfold checkIfUnnecessary
      qpres
      all_goals exact ih.1 _
    · intro n
      unfold removeChildren
      qpres
      all_goals (apply Step.Pres.forIn; intro a b; qpres; exact ih.2.1 _)

theorem PresU.checkIfUnnecessary (fuel n) : Step.Pres SeenU (checkIfUnnecessary fuel n) :=
  (PresU.unlink fuel).2.1 n
su_leaf PresU.checkIfUnnecessary
theorem PresU.becameUnnecessary (fuel n) : Step.Pres SeenU (becameUnnecessary fuel n) :=
  (PresU.unlink fuel).1 n
theorem PresU.removeChildren (fuel n) : Step.Pres SeenU (removeChildren fuel n) :=
  (PresU.unlink fuel).2.2 n

/-- the unlinking cascade never raises the largest height seen (it only calls `setHeight n (-1)`) -/
theorem checkIfUnnecessary_seen {fuel n : Nat} {s s' : State} {r : Except Panic Unit}
    (h : (checkIfUnnecessary fuel n).run.run s = (r, s')) (h0 : 0 ≤ s.maxHeightSeen) :
    s'.maxHeightSeen = s.maxHeightSeen :=
  (PresU.checkIfUnnecessary fuel n).h s r s' h h0

theorem PresU.getObs (o) : Step.Pres SeenU (getObs o) := by unfold Engine.getObs; qpres
su_leaf PresU.getObs
theorem PresU.modObs (o f) : Step.Pres SeenU (modObs o f) := by unfold Engine.modObs; qpres
su_leaf PresU.modObs

theorem PresU.unlinkDisallowedObservers (fuel) : Step.Pres SeenU (unlinkDisallowedObservers fuel) := by
  unfold Engine.unlinkDisallowedObservers
  qpres
  all_goals (apply Step.Pres.forIn; intro a b; qpres)

theorem unlinkDisallowedObservers_seen {fuel : Nat} {s s' : State} {r : Except Panic Unit}
    (h : (unlinkDisallowedObservers fuel).run.run s = (r, s')) (h0 : 0 ≤ s.maxHeightSeen) :
    s'.maxHeightSeen = s.maxHeightSeen :=
  (PresU.unlinkDisallowedObservers fuel).h s r s' h h0

end IncrVerif.Proofs.HeightH
