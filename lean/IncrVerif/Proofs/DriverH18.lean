import IncrVerif.Proofs.DriverH4
import IncrVerif.Proofs.DriverH3
/-!
# Effects of a driver, part 1: bookkeeping

* parametricity of `stateAddParent`/`expertAddDependency` in the effect fields of the environment;
* run rules of `resolveOpnd []`, `expertIdxRaw`;
* `putExpert e er'` with `er'` differing from the record in `script`/`sel` only keeps `Mid` and is an `EF`;
* `Prot`: protected edges, and how `Drives` moves along one effect;
* `PS` along `EF`; a driven-by-a-necessary-node driver is necessary.
-/
namespace IncrVerif.Proofs.DriverH
open IncrVerif.Engine IncrVerif.Driver IncrVerif.Proofs IncrVerif.Proofs.Step IncrVerif.Proofs.Sched
open IncrVerif.Proofs.ExpertH IncrVerif.Proofs.ExpertH.QR IncrVerif.Proofs.EffH

/-! ## parametricity -/

theorem stateAddParent_noEff (env : Env) (fuel c i p : Nat) :
    stateAddParent (noEff env) fuel c i p = stateAddParent env fuel c i p := by
  unfold stateAddParent
  simp only [(bn_ap_noEff env fuel).2]

theorem expertAddDependency_noEff (env : Env) (fuel n c : Nat) (cb : Bool) :
    expertAddDependency (noEff env) fuel n c cb = expertAddDependency env fuel n c cb := by
  unfold expertAddDependency
  simp only [stateAddParent_noEff]

/-! ## run rules -/

theorem run_resolveOpnd {s : State} {o : Opnd} {x : Nat} (h : resOp s o = some x) :
    (resolveOpnd [] o).run.run s = (.ok x, s) := by
  cases o with
  | outer k =>
    simp only [resOp] at h
    unfold resolveOpnd
    simp only [run_bind_get, h]
    rfl
  | abs n =>
    simp only [resOp, Option.some.injEq] at h
    subst h
    rfl
  | loc j => simp [resOp] at h
  | slot k => simp [resOp] at h

theorem run_expertIdxRaw {s : State} {x e : Nat} (hx : x < s.nodes.size) (hk : (s.nodeD x).kind = .expert e) :
    (expertIdxRaw x).run.run s = (.ok (some e), s) := by
  unfold expertIdxRaw
  rw [run_bind_ok (run_getNode_some (some_of_lt hx))]
  simp only [hk]
  rfl

/-! ## editing `script`/`sel` of one record -/

/-- `er'` is `er` except for the driver fields -/
def SameBut (er er' : ExpertRec) : Prop := er' = { er with script := er'.script, sel := er'.sel }

theorem SameBut.script (er : ExpertRec) (sc : List Nat) : SameBut er { er with script := sc } := rfl
theorem SameBut.sel (er : ExpertRec) (sl : Option (Nat × Nat)) : SameBut er { er with sel := sl } := rfl

section put
variable {E : Env} {s : State} {e : Nat} {er er' : ExpertRec}

theorem xRec_put (hx : s.experts[e]? = some er) (e0 : Nat) :
    xRec (s.experts.setIfInBounds e er') e0 = if e0 = e then er' else xRec s.experts e0 := by
  have hlt := (Array.getElem?_eq_some_iff.1 hx).1
  unfold xRec
  rw [Array.getElem?_setIfInBounds]
  by_cases h : e0 = e
  · subst h; simp [hlt]
  · simp [h, Ne.symm h]

theorem virtNode_put (hx : s.experts[e]? = some er) (hs : SameBut er er') :
    virtNode (s.experts.setIfInBounds e er') = virtNode s.experts := by
  funext nd
  have key : ∀ e0, (xRec (s.experts.setIfInBounds e er') e0).f = (xRec s.experts e0).f ∧
      (xRec (s.experts.setIfInBounds e er') e0).children = (xRec s.experts e0).children ∧
      (xRec (s.experts.setIfInBounds e er') e0).forceStale = (xRec s.experts e0).forceStale := by
    intro e0
    rw [xRec_put hx]
    by_cases h : e0 = e
    · subst h
      rw [if_pos rfl, xRec_some hx, hs]
      exact ⟨rfl, rfl, rfl⟩
    · rw [if_neg h]; exact ⟨rfl, rfl, rfl⟩
  have h1 : ∀ k, virtKind (s.experts.setIfInBounds e er') k = virtKind s.experts k := by
    intro k
    cases k <;> first | rfl | skip
    rename_i e0
    obtain ⟨k1, k2, -⟩ := key e0
    simp only [virtKind, k1, k2]
  have h2 : ∀ k, forced (s.experts.setIfInBounds e er') k = forced s.experts k := by
    intro k
    cases k <;> first | rfl | skip
    rename_i e0
    exact (key e0).2.2
  unfold virtNode
  rw [h1, h2]

theorem virt_put (hx : s.experts[e]? = some er) (hs : SameBut er er') :
    virt (Xp.putExpert e er' s) = virt s := by
  unfold virt Xp.putExpert
  simp only [virtNode_put hx hs]

theorem put_get (hx : s.experts[e]? = some er) (e0 : Nat) :
    (Xp.putExpert e er' s).experts[e0]? = if e0 = e then some er' else s.experts[e0]? := by
  by_cases h : e0 = e
  · subst h; rw [if_pos rfl]; exact Xp.putExpert_get er' hx
  · rw [if_neg h]; exact Xp.putExpert_get_ne s er' (Ne.symm h)

theorem Mid.put (M : Mid E s) (hx : s.experts[e]? = some er) (hs : SameBut er er') :
    Mid E (Xp.putExpert e er' s) := by
  refine ⟨⟨M.frag.pc, M.frag.kind, M.frag.valid, ?_, ?_⟩, ⟨M.ahh.length, M.ahh.buckets, M.ahh.marks⟩, ?_,
    M.pinv, M.handlers⟩
  · intro n e0 hn hk
    obtain ⟨er0, h0, h1⟩ := M.frag.xrec n e0 hn hk
    rw [put_get hx]
    by_cases h : e0 = e
    · subst h
      rw [hx] at h0; cases h0
      rw [if_pos rfl]
      exact ⟨er', rfl, by rw [hs]; exact h1⟩
    · rw [if_neg h]; exact ⟨er0, h0, h1⟩
  · intro e0 er0 h0
    rw [put_get hx] at h0
    by_cases h : e0 = e
    · subst h
      rw [if_pos rfl] at h0; cases h0
      have := M.frag.xok e0 er hx
      rw [hs]; exact this
    · rw [if_neg h] at h0; exact M.frag.xok e0 er0 h0
  · rw [virt_put hx hs]; exact M.st

theorem EF.put (hx : s.experts[e]? = some er) (hs : SameBut er er') :
    EF (fun e' => e' = e) s (Xp.putExpert e er' s) := by
  refine ⟨rfl, fun _ => rfl, rfl, by simp [Xp.putExpert], ?_, ?_, ?_, Nat.le_refl _⟩
  · intro e0 er0 h0
    rw [put_get hx]
    by_cases h : e0 = e
    · subst h
      rw [hx] at h0; cases h0
      rw [if_pos rfl]
      exact ⟨er', rfl, by rw [hs], by rw [hs], by rw [hs]⟩
    · rw [if_neg h]; exact ⟨er0, h0, rfl, rfl, rfl⟩
  · intro e0 er0 er0' hD h0 h0'
    rw [put_get hx, if_neg hD, h0] at h0'
    cases h0'; rfl
  · intro e0 er0 er0' h0 h0'
    rw [put_get hx] at h0'
    by_cases h : e0 = e
    · subst h
      rw [hx] at h0; cases h0
      rw [if_pos rfl] at h0'; cases h0'
      exact Or.inl ⟨by rw [hs], by rw [hs]⟩
    · rw [if_neg h, h0] at h0'; cases h0'
      exact Or.inl ⟨rfl, rfl⟩

end put

/-! ## protected edges -/

/-- `ed` is a protected edge of the record `er` (names below `lim`) -/
def Prot (lim : Nat) (er : ExpertRec) (ed : ExpertEdge) : Prop :=
  ed ∈ er.children ∧ ed.dep < lim ∧ ed.dep ∉ er.script ∧ ∀ d c, er.sel = some (d, c) → d ≠ ed.dep

theorem drives_iff (s : State) (n x : Nat) :
    Drives s n x ↔ x < s.nodes.size ∧ ∃ e er, (s.nodeD x).kind = .expert e ∧ s.experts[e]? = some er ∧
      ∃ ed, Prot s.nextDep er ed ∧ ed.child = n := by
  unfold Drives Prot
  constructor
  · rintro ⟨h1, e, er, h2, h3, ed, h4, h5, h6, h7, h8⟩
    exact ⟨h1, e, er, h2, h3, ed, ⟨h4, h6, h7, h8⟩, h5⟩
  · rintro ⟨h1, e, er, h2, h3, ed, ⟨h4, h6, h7, h8⟩, h5⟩
    exact ⟨h1, e, er, h2, h3, ed, h4, h5, h6, h7, h8⟩

/-- one effect on the record `e`: the protected edges of `e` stay protected -/
theorem drives_step {t t' : State} {e : Nat} (ef : EF (fun e' => e' = e) t t')
    (hp : ∀ er, t.experts[e]? = some er → ∃ er', t'.experts[e]? = some er' ∧
      ∀ ed, Prot t.nextDep er ed → Prot t.nextDep er' ed) :
    ∀ m y, Drives t m y → Drives t' m y := by
  intro m y h
  rw [drives_iff] at h ⊢
  obtain ⟨hy, e0, er0, hk, hr, ed, hpr, hc⟩ := h
  have hk' : (t'.nodeD y).kind = .expert e0 := by
    have := congrArg (·.1) (ef.node y)
    exact this.trans hk
  have hmono : ∀ er1, Prot t.nextDep er1 ed → Prot t'.nextDep er1 ed := fun er1 h =>
    ⟨h.1, Nat.lt_of_lt_of_le h.2.1 ef.nextDep, h.2.2⟩
  refine ⟨by rw [ef.size]; exact hy, e0, ?_⟩
  by_cases h : e0 = e
  · subst h
    obtain ⟨er', h1, h2⟩ := hp er0 hr
    exact ⟨er', hk', h1, ed, hmono _ (h2 ed hpr), hc⟩
  · obtain ⟨er', h1, -⟩ := ef.xcore e0 er0 hr
    have hsame := ef.xsame e0 er0 er' h hr h1
    simp only [recK, Prod.mk.injEq] at hsame
    obtain ⟨c1, -, c3, c4⟩ := hsame
    refine ⟨er', hk', h1, ed, hmono _ ?_, hc⟩
    unfold Prot at hpr ⊢
    rw [c1, c3, c4]; exact hpr

/-! ## `PS`, `resOp`, kinds along `EF` -/

theorem EF.kind {D : Nat → Prop} {s s' : State} (ef : EF D s s') (m : Nat) : (s'.nodeD m).kind = (s.nodeD m).kind :=
  congrArg (·.1) (ef.node m)

theorem EF.top {D : Nat → Prop} {s s' : State} (ef : EF D s s') : s'.top = s.top := by
  have := ef.key
  simp only [eKey, Prod.mk.injEq] at this
  exact this.2.2.2.2.2.2.2.2.2.2.2.2.2.2.1

theorem EF.resOp {D : Nat → Prop} {s s' : State} (ef : EF D s s') (o : Opnd) : resOp s' o = resOp s o := by
  cases o <;> simp only [DriverH.resOp, ef.top]

theorem kidsX_of_not_expert (xs xs' : Array ExpertRec) {k : Kind} (h : ∀ e, k ≠ .expert e) :
    kidsX xs' k = kidsX xs k := by
  cases k <;> first | rfl | exact absurd rfl (h _)

/-- below a node that has no expert node below it, the graph is the same in every state with the same kinds -/
theorem below_back {s s' : State} (hk : ∀ m, (s'.nodeD m).kind = (s.nodeD m).kind) {a d : Nat}
    (h : Below s' a d) (hno : ∀ b, Below s a b → ∀ e, (s.nodeD b).kind ≠ .expert e) : Below s a d := by
  induction h with
  | refl a => exact .refl a
  | @step a b c hb _ ih =>
    have ha := hno a (.refl a)
    rw [hk a, kidsX_of_not_expert s.experts s'.experts ha] at hb
    exact .step hb (ih fun b' hb' => hno b' (.step hb hb'))

theorem PS.along {D : Nat → Prop} {s s' : State} (ef : EF D s s') {c : Nat} (h : PS s c) : PS s' c := by
  refine ⟨by rw [ef.size]; exact h.1, fun d hd e => ?_⟩
  rw [ef.kind d]
  exact h.2 d (below_back ef.kind hd h.2) e

/-! ## the driver of a necessary node is necessary -/

theorem nec_of_child {E : Env} {s : State} (M : Mid E s) {n x e : Nat} {er : ExpertRec} {ed : ExpertEdge}
    (hk : (s.nodeD x).kind = .expert e) (hr : s.experts[e]? = some er) (hm : ed ∈ er.children) (hc : ed.child = n)
    (hx : s.isNecessary x = true) : s.isNecessary n = true := by
  obtain ⟨rk, I⟩ := M.st
  have hkids : kids ((virt s).nodeD x).kind = er.children.map (·.child) := by
    rw [virt_kids, hk]; simp only [kidsX, xRec_some hr]
  have hmem : n ∈ er.children.map (·.child) := List.mem_map.2 ⟨ed, hm, hc⟩
  obtain ⟨j, hj⟩ := List.getElem?_of_mem hmem
  have := I.conv x j n (by rw [hkids]; exact hj) ((wants_closed rfl).2 (by rw [virt_isNecessary]; exact hx))
  rw [virt_nodeD, virtNode_parents] at this
  exact nec_of_mem_parents this

theorem nec_of_drives {E : Env} {s : State} (M : Mid E s) {n x : Nat} (h : Drives s n x)
    (hx : s.isNecessary x = true) : s.isNecessary n = true := by
  obtain ⟨-, e, er, hk, hr, ed, hm, hc, -⟩ := h
  exact nec_of_child M hk hr hm hc hx

end IncrVerif.Proofs.DriverH
