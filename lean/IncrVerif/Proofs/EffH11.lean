import IncrVerif.Proofs.EffH10
import IncrVerif.Proofs.Subs16
/-!
# Effects, part 11 (V3): update handlers with write effects — definitions

Handlers run at the end of `stabilise` under status `runningOnUpdateHandlers`: their writes are IMMEDIATE (ordinary
writes outside the drain), not deferred.
-/
namespace IncrVerif.Proofs.EffH
open IncrVerif.Engine IncrVerif.Driver IncrVerif.Proofs IncrVerif.Proofs.Step IncrVerif.Proofs.Sched
open IncrVerif.Proofs.Quiet

/-- FRAGMENT: the effects of update handlers are `set`/`modify`/`update`/`replace`/`replace_with` only -/
def WHandlers (env : Env) : Prop := ∀ hid u e, e ∈ env.handler hid u → (effWrite e).isSome = true

theorem pureHandlers_noEff (env : Env) : SubsH.PureHandlers (noEff env) := fun _ _ => rfl

/-- the invariant between API actions: subscriptions + write effects in functions and handlers -/
structure UInvE (env : Env) (s : State) : Prop where
  u : SubsH.UInv (noEff env) s
  cells : CellsOK s

/-! ## immediate writes (status ≠ stabilising): closed form -/

/-- one write effect executed outside the drain, when it returns: the ordinary immediate write `wroteOutside`;
`replace*` then log the value they return -/
def immStep (e : Effect) (s : State) : State :=
  match effWrite e with
  | none => s
  | some (v, f) =>
    match s.vars[v]? with
    | none => s
    | some vc => logged (effNote e vc.value) (wroteOutside v vc (f vc.value) s)

def immSteps (es : List Effect) (s : State) : State := es.foldl (fun s e => immStep e s) s

theorem immSteps_nil (s : State) : immSteps [] s = s := rfl
theorem immSteps_cons (e : Effect) (es : List Effect) (s : State) :
    immSteps (e :: es) s = immSteps es (immStep e s) := rfl
theorem immSteps_append (es fs : List Effect) (s : State) :
    immSteps (es ++ fs) s = immSteps fs (immSteps es s) := by
  simp only [immSteps, List.foldl_append]

/-! ## the effects of the handlers, in delivery order -/

/-- the effects of handler record `h` when its observer's node reports `nu` and holds `v` (cf. `SubsH.notifOf`) -/
def effsOf (env : Env) (nu : NodeUpdate) (v : Val) (h : HandlerRec) : List Effect :=
  match handlerStep h.prev nu with
  | some .changed => env.handler h.hid (.changed v)
  | some .necessary => env.handler h.hid (.initialised v)
  | _ => []

/-- the effects of the handlers of observer `o` of node `n` (cf. `SubsH.obsNotifs`) -/
def obsEffs (env : Env) (s : State) (n o : Nat) : List Effect :=
  match s.observers[o]?, s.value env n with
  | some ob, some v => ob.handlers.flatMap (effsOf env (SubsH.nuAt env s n) v)
  | _, _ => []

/-- all handler effects of a `stabiliseEnd` started in `s`, in the order the handlers run (cf. `SubsH.endNotifs`) -/
def endEffs (env : Env) (s : State) : List Effect :=
  s.handleAfterStab.flatMap fun n => (s.nodeD n).observers.flatMap (obsEffs env s n)

/-- the notifications in a log -/
def isNotif : Event → Bool
  | .notif _ _ => true
  | _ => false

def notifs (log : List Event) : List Event := log.filter isNotif

theorem cellAfter_cellAfter (now : Int) (fs gs : List (Val → Val)) (c : VarCell) :
    cellAfter now gs (cellAfter now fs c) = cellAfter now (fs ++ gs) c := by
  cases fs with
  | nil => rfl
  | cons f fs =>
    cases gs with
    | nil => simp [cellAfter]
    | cons g gs =>
      simp only [cellAfter, List.cons_append, foldW, List.foldl_cons, List.foldl_append]

/-- `s'` is `s` after a `stabiliseEnd` whose handlers have write effects (cf. `SubsH.Ended`): the bookkeeping of the
handlers is exactly as without effects; the variables have received the deferred writes (var phase) and then the
handlers' immediate writes; nodes differ from those of `s` only in the queue flag and the heap marker -/
structure EndedW (env : Env) (s s' : State) : Prop where
  size : s'.nodes.size = s.nodes.size
  node : ∀ m, ∃ h, s'.nodeD m = { s.nodeD m with inHandleAfterStab := false, heightInRch := h }
  ahh : s'.ahh = s.ahh
  newObservers : s'.newObservers = s.newObservers
  disallowedObservers : s'.disallowedObservers = s.disallowedObservers
  allObservers : s'.allObservers = s.allObservers
  scope : s'.currentScope = s.currentScope
  pc : s'.panicCountdown = s.panicCountdown
  top : s'.top = s.top
  handles : s'.handles = s.handles
  alive : s'.alive = s.alive
  pinv : s'.propagateInvalidity = s.propagateInvalidity
  cfg : s'.cfg = s.cfg
  nextToken : s'.nextToken = s.nextToken
  stabNum : s'.stabNum = s.stabNum + 1
  status : s'.status = .notStabilising
  setDuringStab : s'.setDuringStab = []
  deadVars : s'.deadVars = []
  handleAfterStab : s'.handleAfterStab = []
  obsSize : s'.observers.size = s.observers.size
  obs : ∀ (o : Nat) (ob : ObsRec), s.observers[o]? = some ob →
    s'.observers[o]? = some (if ob.state = .inUse ∧ ob.node ∈ s.handleAfterStab then
      { ob with handlers := ob.handlers.map (SubsH.stepPrev (SubsH.nuAt env s ob.node)) } else ob)
  /-- the notifications are exactly those of the effect-free `stabiliseEnd`, in the same order -/
  logN : notifs s'.log = (SubsH.endNotifs env s).reverse ++ notifs s.log
  /-- besides notifications only `note`s (of `replace`/`replace_with`) are logged -/
  logExt : ∃ new, s'.log = new ++ s.log ∧ ∀ e, e ∈ new → isNotif e = true ∨ ∃ str, e = .note str
  /-- the invariant between actions (subscription version) holds again -/
  q : SubsH.QInv (noEff env) s'
  vsize : s'.vars.size = s.vars.size
  /-- **the variables**: first the deferred writes (`applyCell`, for the cells on the stack), then the handlers'
  writes in delivery order, each acting on the then-current logical value -/
  vars : ∀ (v : Nat) (c : VarCell), s.vars[v]? = some c →
    s'.vars[v]? = some (cellAfter (s.stabNum + 1) (writesTo v (writesOf (endEffs env s)))
      (if v ∈ s.setDuringStab then applyCell (s.stabNum + 1) c else c))

end IncrVerif.Proofs.EffH
