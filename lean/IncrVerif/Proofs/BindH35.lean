import IncrVerif.Proofs.BindH34
/-!
# Binds, `relink`, part 5: `relink` keeps the structural invariant (fragment F0) — `relink_specB : RelinkSpec env`
-/
namespace IncrVerif.Proofs.BindH
open IncrVerif.Engine IncrVerif.Proofs IncrVerif.Proofs.Step IncrVerif.Proofs.Sched IncrVerif.Proofs.Quiet

namespace BR

/-- replace the force component of a node key -/
def setF {A B C D E F G H J : Type} (f : Bool) (k : A × B × C × D × E × F × G × H × Bool × J) :
    A × B × C × D × E × F × G × H × Bool × J :=
  (k.1, k.2.1, k.2.2.1, k.2.2.2.1, k.2.2.2.2.1, k.2.2.2.2.2.1, k.2.2.2.2.2.2.1, k.2.2.2.2.2.2.2.1, f,
    k.2.2.2.2.2.2.2.2.2)

theorem nodeKey_force (x : Node) (f : Bool) : nodeKey { x with forceNecessary := f } = setF f (nodeKey x) := rfl

theorem nodeKey_force_congr {x y : Node} (h : nodeKey x = nodeKey y) (f : Bool) :
    nodeKey { x with forceNecessary := f } = nodeKey { y with forceNecessary := f } :=
  (nodeKey_force x f).trans ((congrArg (setF f) h).trans (nodeKey_force y f).symm)

theorem nodeKey_force_self {x : Node} {f : Bool} (h : x.forceNecessary = f) :
    nodeKey { x with forceNecessary := f } = nodeKey x := by
  rw [← h]

theorem krel_compose {b n rhs o pi : Nat} {v : Int} {s s7 s' : State}
    (K47 : KRel (pre4 b n rhs o pi v s) s7) (K8 : KRel (forced o false s7) s')
    (hf : ((pre b n rhs v s).nodeD o).forceNecessary = false) : KRel (pre b n rhs v s) s' := by
  have hsz4 : (pre4 b n rhs o pi v s).nodes.size = (pre b n rhs v s).nodes.size := by
    show (((pre b n rhs v s).nodes.modify o _).modify o _).size = _
    rw [Array.size_modify, Array.size_modify]
  have hsz8 : (forced o false s7).nodes.size = s7.nodes.size := Array.size_modify
  refine ⟨K8.size.trans (hsz8.trans (K47.size.trans hsz4)), fun m => ?_, ?_⟩
  · have h4 : (pre4 b n rhs o pi v s).nodeD m =
        if o = m ∧ m < (pre b n rhs v s).nodes.size then fForce true (fDrop pi ((pre b n rhs v s).nodeD m))
        else (pre b n rhs v s).nodeD m :=
      nodeD_modify2 (pre b n rhs v s) o m (fDrop pi) (fForce true)
    rw [K8.node m, forced_nodeD]
    split
    · rename_i e
      have hlt : m < (pre b n rhs v s).nodes.size := by rw [← hsz4, ← K47.size]; exact e.2
      rw [if_pos ⟨e.1, hlt⟩] at h4
      rw [nodeKey_force_congr (K47.node m) false, h4]
      show nodeKey { (pre b n rhs v s).nodeD m with parents := _, forceNecessary := false } = _
      rw [← e.1]
      exact nodeKey_force_self (x := { (pre b n rhs v s).nodeD o with
        parents := swapRemove ((pre b n rhs v s).nodeD o).parents pi }) hf
    · rename_i e
      have e' : ¬ (o = m ∧ m < (pre b n rhs v s).nodes.size) := by
        intro h; apply e; refine ⟨h.1, ?_⟩; rw [K47.size, hsz4]; exact h.2
      rw [if_neg e'] at h4
      rw [K47.node m, h4]
  · exact K8.key.trans (show rKey (forced o false s7) = rKey (pre4 b n rhs o pi v s) from K47.key)

theorem rrel_of_krel {b n rhs : Nat} {br : BindRec} {s s' : State} (hb : s.binds[b]? = some br)
    (hn : n < s.nodes.size) (K : KRel (pre b n rhs s.stabNum s) s')
    (hpc : s'.panicCountdown = s.panicCountdown) : RRelB b n rhs br s s' where
  size := K.size.trans Array.size_modify
  node m hm := by
    rw [K.node m]
    show nodeKey ((stamped n s.stabNum s).nodeD m) = _
    rw [stamped_other hm]
  self := by
    rw [K.node n]
    show nodeKey ((stamped n s.stabNum s).nodeD n) = _
    rw [stamped_self hn]
  bind := by rw [K.binds]; exact pre_binds_self hb
  bindsSize := by rw [K.binds]; exact Array.size_modify
  bindsOther b' hb' := by rw [K.binds]; exact pre_binds_other hb'
  vars := K.vars
  stabNum := K.stabNum
  status := K.status
  cfg := K.cfg
  scope := K.scope
  pc := hpc
  qsize := K.qsize
  top := K.top

end BR

open BR in
/-- **`relink` keeps the structural invariant** (fragment F0): the record of the bind gets the new right-hand side,
the change detector gets the stamp of the round, the old right-hand side is unlinked from the bind's main node and the
new one linked (with heights adjusted), and everything is closed again -/
theorem relink_specB (env : Env) : RelinkSpec env := by
  intro fuel b n main rhs oldRhs s s' br ex h I hex hah hb hrhs0 hm _ hkn hkm hnm hms hnecm hrn hrk hold hnorhs hnf
    hpi hrm _ _
  have hn : n < s.nodes.size := by omega
  have hvm := (I.node hms).valid
  have hfP : ∀ m, ((pre b n rhs s.stabNum s).nodeD m).forceNecessary = false := by
    intro m
    show ((stamped n s.stabNum s).nodeD m).forceNecessary = false
    rw [stamped_nodeD]; split
    · exact hnf m
    · exact hnf m
  have hmP : ∀ m, ((pre b n rhs s.stabNum s).nodeD m).heightInAhh = (s.nodeD m).heightInAhh := by
    intro m
    show ((stamped n s.stabNum s).nodeD m).heightInAhh = _
    rw [stamped_nodeD]; split <;> rfl
  have EP : AhhEmpty (pre b n rhs s.stabNum s) := ahhEmpty_frame hah rfl hmP
  -- the common end
  have finish : GInvB env s' allClosed ex → AhhEmpty s' → KRel (pre b n rhs s.stabNum s) s' →
      GInvB env s' allClosed ex ∧ AhhEmpty s' ∧ RRelB b n rhs br s s' ∧ s'.propagateInvalidity = [] ∧
        (∀ m, (s'.nodeD m).forceNecessary = false) := by
    intro I' E' K
    refine ⟨I', E', rrel_of_krel hb hn K (by rw [I'.frag.pc, I.frag.pc]), ?_, ?_⟩
    · rw [K.pinv]; exact hpi
    · intro m; rw [K.force m]; exact hfP m
  unfold relink at h
  unfold modBind at h
  obtain ⟨s1, hs1, h⟩ := bind_modify_inv h
  obtain ⟨s2, hs2, h⟩ := bind_modNode_inv h
  have e2 : s2 = pre b n rhs s.stabNum s := by rw [hs2, hs1]; rfl
  rw [e2] at h
  unfold changeChildBindRhs at h
  obtain ⟨mn, hmn, h⟩ := bind_getNode_inv h
  have hmP' : (pre b n rhs s.stabNum s).nodeD main = s.nodeD main := stamped_main hnm _
  have hnP' : (pre b n rhs s.stabNum s).nodeD n = { s.nodeD n with changedAt := s.stabNum } := stamped_self hn _
  have hkq : mn.kind? = some (.bindMain b n) := by
    have e : (pre b n rhs s.stabNum s).nodeD main = mn := nodeD_of_some hmn
    rw [← e, hmP']
    unfold Node.kind?
    rw [hvm, hkm]; rfl
  rw [hkq] at h
  dsimp only at h
  cases oldRhs with
  | none =>
    dsimp only at h
    have It := pre_inv_none I hex hb hrhs0 hm hkn hkm hnm hms hnecm hrn hrk hrm
    obtain ⟨I', E', K⟩ := link_part h I It hex EP hb hkm hnm hms hnecm hrn hnorhs hpi hrm hmP' hnP' rfl
    exact finish I' E' K
  | some o =>
    dsimp only at h
    obtain ⟨hon, -⟩ := hold o rfl
    have ho : o < s.nodes.size := by omega
    by_cases hor : o = rhs
    · simp only [hor, beq_self_eq_true, if_true] at h
      obtain ⟨-, e⟩ := pure_ok_inv h
      exact finish (by rw [e]; exact pre_inv_same I hex hb (by rw [hrhs0, hor]) hm hkn hkm hnm hms hrm)
        (by rw [e]; exact EP) (by rw [e]; exact KRel.refl _)
    · have hbeq : (o == rhs) = false := by simpa using hor
      simp only [hbeq, Bool.false_eq_true, if_false] at h
      obtain ⟨_, s3, hrp, h⟩ := bind_ok_inv h
      obtain ⟨s4, hs4, h⟩ := bind_modNode_inv h
      obtain ⟨_, s7, hsap, h⟩ := bind_ok_inv h
      obtain ⟨s8, hs8, h⟩ := bind_modNode_inv h
      obtain ⟨nd, pi, hnd, hidx, e3⟩ := removeParent_ok_inv hrp
      have e4 : s4 = pre4 b n rhs o pi s.stabNum s := by rw [hs4, e3]; rfl
      have e8 : s8 = forced o false s7 := hs8
      rw [e4] at hsap
      rw [e8] at h
      have hoP : (pre b n rhs s.stabNum s).nodeD o = s.nodeD o := stamped_other (by omega) _
      have hndD : s.nodeD o = nd := by rw [← nodeD_of_some hnd]; exact hoP.symm
      rw [← hndD] at hidx
      have It := pre_inv_some I hex hb hrhs0 hm hkn hkm hnm hms hnecm hrn hrk hon hrm hidx
      have E4 : AhhEmpty (pre4 b n rhs o pi s.stabNum s) := by
        refine ahhEmpty_frame hah rfl fun m => ?_
        rw [pre4_nodeD]
        split
        · exact hmP m
        · exact hmP m
      have htm : (pre4 b n rhs o pi s.stabNum s).nodeD main = s.nodeD main := by
        rw [pre4_nodeD, if_neg (fun e => by omega)]; exact hmP'
      have htn : (pre4 b n rhs o pi s.stabNum s).nodeD n = { s.nodeD n with changedAt := s.stabNum } := by
        rw [pre4_nodeD, if_neg (fun e => by omega)]; exact hnP'
      obtain ⟨I7, E7, K47⟩ := link_part hsap I It hex E4 hb hkm hnm hms hnecm hrn hnorhs hpi hrm htm htn rfl
      have hnec7 : s7.isNecessary o = true := by
        rw [isNecessary_iff, K47.force o, pre4_nodeD, if_pos ⟨rfl, ho⟩]
        exact Or.inr (Or.inr rfl)
      obtain ⟨I', E', K8⟩ := unforce_part h I7 hnec7 E7
      exact finish I' E' (krel_compose K47 K8 (hfP o))

end IncrVerif.Proofs.BindH
