import IncrVerif.Proofs.CutH6
/-!
# C06 for whole histories, part 7: THE GATE, at the level of one drain

`drainRuns env fuel s`: the invocations of `recomputeOne` made by `drainHeap env fuel` from `s`, in order, each with
the state before (`pre`) and after (`post`) the call.  Under the drain invariant (any cutoffs):

* `drain_gate`: every invocation `ρ` satisfies `RunOK env e s s' ρ`: the scheduling invariant holds in `ρ.pre` with
  `ρ.node` as current node (so the node is necessary and STALE at that moment, `RunOK.stale`); the call is described
  by `StepRel` (its `verdict` field is the gate on `changedAt`); value and stamps of the node were untouched between
  the start of the drain and `ρ.pre`, and are untouched between `ρ.post` and the end of the drain; value and stamps
  of its CHILDREN are untouched from `ρ.pre` to the end of the drain (no child runs after its parent);
  a node that is not invoked is untouched by the whole drain.
* `ran_iff`: a node is invoked iff it is necessary and `staleMix s s' m`: it has never run / its variable was set
  after it last ran / some child's `changedAt` (at the moment of the invocation = at the end of the drain) is newer
  than the node's `recomputedAt` before the drain.
-/
namespace IncrVerif.Proofs.CutH
open IncrVerif.Engine IncrVerif.Proofs IncrVerif.Proofs.Step IncrVerif.Proofs.Sched

/-- one invocation of `recomputeOne`: the node, the state before, the state after -/
structure Run where
  node : Nat
  pre : State
  post : State

/-- the invocations made by `recompute env fuel n` from `s` (the direct-recompute chain), in order -/
def chainRuns (env : Env) : Nat → Nat → State → List Run
  | 0, _, _ => []
  | fuel+1, n, s =>
    match (recomputeOne env fuel n).run.run s with
    | (.ok (some p), s1) => ⟨n, s, s1⟩ :: chainRuns env fuel p s1
    | (_, s1) => [⟨n, s, s1⟩]

/-- the invocations made by `drainHeap env fuel` from `s`, in order -/
def drainRuns (env : Env) : Nat → State → List Run
  | 0, _ => []
  | fuel+1, s =>
    match rchRemoveMin.run.run s with
    | (.ok (some n), s1) =>
      chainRuns env fuel n s1 ++
        (match (recompute env fuel n).run.run s1 with
         | (.ok _, s2) => drainRuns env fuel s2
         | _ => [])
    | _ => []

theorem chainRuns_nodes (env : Env) : ∀ (fuel n : Nat) (s : State),
    (chainRuns env fuel n s).map (·.node) = chainTrace env fuel n s := by
  intro fuel
  induction fuel with
  | zero => intro n s; rfl
  | succ fuel ih =>
    intro n s
    unfold chainRuns chainTrace
    rcases hx : (recomputeOne env fuel n).run.run s with ⟨r, s1⟩
    cases r with
    | error err => rfl
    | ok o =>
      cases o with
      | none => rfl
      | some p => simp only [List.map_cons, ih]

theorem drainRuns_nodes (env : Env) : ∀ (fuel : Nat) (s : State),
    (drainRuns env fuel s).map (·.node) = drainTrace env fuel s := by
  intro fuel
  induction fuel with
  | zero => intro s; rfl
  | succ fuel ih =>
    intro s
    unfold drainRuns drainTrace
    rcases hx : rchRemoveMin.run.run s with ⟨r, s1⟩
    cases r with
    | error err => rfl
    | ok o =>
      cases o with
      | none => rfl
      | some n =>
        simp only [List.map_append, chainRuns_nodes]
        rcases hy : (recompute env fuel n).run.run s1 with ⟨r2, s2⟩
        cases r2 with
        | error err => rfl
        | ok u => simp only [ih]

theorem mem_trace_iff {env : Env} {fuel : Nat} {s : State} {m : Nat} :
    m ∈ drainTrace env fuel s ↔ ∃ ρ, ρ ∈ drainRuns env fuel s ∧ ρ.node = m := by
  rw [← drainRuns_nodes, List.mem_map]

theorem mem_chain_iff {env : Env} {fuel n : Nat} {s : State} {m : Nat} :
    m ∈ chainTrace env fuel n s ↔ ∃ ρ, ρ ∈ chainRuns env fuel n s ∧ ρ.node = m := by
  rw [← chainRuns_nodes, List.mem_map]

/-! ## untouched nodes -/

/-- value and both stamps of node `m` are the same in `s` and `s'` -/
def Untouched (s s' : State) (m : Nat) : Prop :=
  (s'.nodeD m).value = (s.nodeD m).value ∧ (s'.nodeD m).recomputedAt = (s.nodeD m).recomputedAt ∧
    (s'.nodeD m).changedAt = (s.nodeD m).changedAt

theorem Untouched.refl (s : State) (m : Nat) : Untouched s s m := ⟨rfl, rfl, rfl⟩

theorem Untouched.trans {a b c : State} {m : Nat} (h1 : Untouched a b m) (h2 : Untouched b c m) :
    Untouched a c m :=
  ⟨h2.1.trans h1.1, h2.2.1.trans h1.2.1, h2.2.2.trans h1.2.2⟩

theorem StepRel.untouched {env : Env} {n : Nat} {v : Val} {ch : Bool} {r : Option Nat} {s s' : State}
    (R : StepRel env n v ch r s s') {m : Nat} (hm : m ≠ n) : Untouched s s' m :=
  ⟨(R.other m hm).value, (R.other m hm).recomputedAt, (R.other m hm).changedAt⟩

theorem pop_untouched {s s1 : State} {n : Nat} (hi : HeapInv s)
    (hr : rchRemoveMin.run.run s = (.ok (some n), s1)) (m : Nat) : Untouched s s1 m := by
  obtain ⟨-, -, -, hs1, -⟩ := rchRemoveMin_inv hi hr
  have hnd : s1.nodeD m =
      if n = m ∧ m < s.nodes.size then { s.nodeD m with heightInRch := -1 } else s.nodeD m := by
    rw [hs1]; exact nodeD_modify s n m _
  rw [Untouched, hnd]
  split <;> exact ⟨rfl, rfl, rfl⟩

/-! ## what is known about each invocation -/

/-- invocation `ρ` inside a drain (or chain) from `s` to `s'` -/
structure RunOK (env : Env) (e : Bool) (s s' : State) (ρ : Run) : Prop where
  /-- the scheduling invariant at the moment of the invocation, `ρ.node` being the current node -/
  inv : Inv env e ρ.pre (some ρ.node)
  /-- the call computed the target value `v` and is described by `StepRel` -/
  step : ∃ v ch r, Target env ρ.pre ρ.node v ∧ StepRel env ρ.node v ch r ρ.pre ρ.post
  fromStart : Frame s ρ.pre
  /-- the node was not touched before its invocation -/
  before : Untouched s ρ.pre ρ.node
  toEnd : Frame ρ.post s'
  /-- the node is not touched after its invocation -/
  after : Untouched ρ.post s' ρ.node
  /-- the children of the node are not touched from the moment of the invocation on -/
  kidsAfter : ∀ c, c ∈ kids (ρ.pre.nodeD ρ.node).kind → Untouched ρ.pre s' c

/-- the node is necessary and stale at the moment of its invocation -/
theorem RunOK.stale {env : Env} {e : Bool} {s s' : State} {ρ : Run} (K : RunOK env e s s' ρ) :
    ρ.pre.isNecessary ρ.node = true ∧ ρ.pre.isStale ρ.node = true :=
  ⟨(K.inv.cur _ rfl).1, K.inv.qstale _ (Or.inr rfl)⟩

theorem RunOK.extend_left {env : Env} {e : Bool} {a b c : State} {ρ : Run} (f : Frame a b)
    (hu : Untouched a b ρ.node) (K : RunOK env e b c ρ) : RunOK env e a c ρ :=
  { K with fromStart := f.trans K.fromStart, before := hu.trans K.before }

theorem RunOK.extend_right {env : Env} {e : Bool} {a b c : State} {ρ : Run} (f : Frame b c)
    (hu : Untouched b c ρ.node) (hk : ∀ m, m ∈ kids (ρ.pre.nodeD ρ.node).kind → Untouched b c m)
    (K : RunOK env e a b ρ) : RunOK env e a c ρ :=
  { K with toEnd := K.toEnd.trans f, after := K.after.trans hu,
           kidsAfter := fun m hm => (K.kidsAfter m hm).trans (hk m hm) }

/-- a node that has already run in this round has no child that runs later -/
theorem RunOK.not_child_of_ran {env : Env} {e : Bool} {b c : State} {ρ : Run} (K : RunOK env e b c ρ) {n : Nat}
    (hn : b.isNecessary n = true) (hran : (b.nodeD n).recomputedAt = b.stabNum)
    (hc : ρ.node ∈ kids (b.nodeD n).kind) : False := by
  have f := K.fromStart
  have hanc : Anc ρ.pre n ρ.node :=
    Anc.step (by rw [f.nec]; exact hn) (by rw [(f.shape n).kind]; exact hc) (Anc.refl _)
  have h1 := K.inv.fresh ρ.node (Or.inr rfl) n hanc
  have h2 := f.ran n hran
  rw [f.stabNum] at h1
  omega

/-- a node is not its own child -/
theorem Graph.not_self_kid {env : Env} {s : State} (g : Graph env s) {n : Nat} (hn : s.isNecessary n = true) :
    n ∉ kids (s.nodeD n).kind := by
  intro h; have := (g.kids_nec hn h).2; omega

/-! ## the chain -/

theorem chain_gate {env : Env} {e : Bool} : ∀ (fuel n : Nat) (s s' : State), Inv env e s (some n) →
    (recompute env fuel n).run.run s = (.ok (), s') →
    (∀ ρ, ρ ∈ chainRuns env fuel n s → RunOK env e s s' ρ) ∧
      (∀ m, m ∉ chainTrace env fuel n s → Untouched s s' m) := by
  intro fuel
  induction fuel with
  | zero => intro n s s' _ h; unfold recompute at h; cases h
  | succ fuel ih =>
    intro n s s' I h
    unfold recompute at h
    obtain ⟨r, s1, h1, h2⟩ := bind_ok_inv h
    obtain ⟨v, ch, ht, R, I1⟩ := recomputeOne_step I h1
    have f1 := R.frame
    have hnec := (I.cur n rfl).1
    have hnk := I.graph.not_self_kid hnec
    unfold chainRuns chainTrace
    rw [h1]
    cases r with
    | none =>
      obtain ⟨-, rfl⟩ := pure_ok_inv h2
      dsimp only
      constructor
      · intro ρ hρ
        rw [List.mem_singleton] at hρ
        subst hρ
        exact ⟨I, ⟨v, ch, none, ht, R⟩, Frame.refl _, Untouched.refl _ _, Frame.refl _, Untouched.refl _ _,
          fun c hc => R.untouched (fun e => hnk (e ▸ hc))⟩
      · intro m hm
        rw [List.mem_singleton] at hm
        exact R.untouched hm
    | some p =>
      dsimp only
      obtain ⟨ihR, ihU⟩ := ih p s1 s' I1 h2
      obtain ⟨-, f2⟩ := recompute_inv fuel p s1 s' I1 h2
      obtain ⟨-, hall⟩ := chain_once fuel p s1 s' I1 h2
      have hn1 : (s1.nodeD n).recomputedAt = s1.stabNum := by rw [R.recomputedAt, R.stabNum]
      have hnot : n ∉ chainTrace env fuel p s1 := by
        intro hmem
        have := (hall n hmem).2.1
        omega
      have hnec1 : s1.isNecessary n = true := by rw [f1.nec]; exact hnec
      constructor
      · intro ρ hρ
        rcases List.mem_cons.1 hρ with rfl | hρ
        · refine ⟨I, ⟨v, ch, some p, ht, R⟩, Frame.refl _, Untouched.refl _ _, f2, ihU n hnot, fun c hc => ?_⟩
          have hcn : c ≠ n := fun e => hnk (e ▸ hc)
          refine (R.untouched hcn).trans (ihU c ?_)
          intro hmem
          obtain ⟨ρ', hρ', hnode⟩ := mem_chain_iff.1 hmem
          refine (ihR ρ' hρ').not_child_of_ran hnec1 hn1 ?_
          rw [hnode, (f1.shape n).kind]; exact hc
        · have hne : ρ.node ≠ n := by
            intro e
            exact hnot (mem_chain_iff.2 ⟨ρ, hρ, e⟩)
          exact (ihR ρ hρ).extend_left f1 (R.untouched hne)
      · intro m hm
        rw [List.mem_cons, not_or] at hm
        exact (R.untouched hm.1).trans (ihU m hm.2)

/-! ## the drain -/

theorem drain_gate {env : Env} {e : Bool} : ∀ (fuel : Nat) (s s' : State), DrainInv env e s →
    (drainHeap env fuel).run.run s = (.ok (), s') →
    (∀ ρ, ρ ∈ drainRuns env fuel s → RunOK env e s s' ρ) ∧
      (∀ m, m ∉ drainTrace env fuel s → Untouched s s' m) := by
  intro fuel
  induction fuel with
  | zero => intro s s' _ h; unfold drainHeap at h; cases h
  | succ fuel ih =>
    intro s s' I h
    unfold drainHeap at h
    obtain ⟨r, s1, h1, h2⟩ := bind_ok_inv h
    unfold drainRuns drainTrace
    rw [h1]
    cases r with
    | none =>
      obtain ⟨-, rfl⟩ := pure_ok_inv h2
      obtain ⟨rfl, -⟩ := rchRemoveMin_inv I.heap h1
      refine ⟨?_, fun m _ => Untouched.refl _ _⟩
      intro ρ hρ
      cases hρ
    | some n =>
      obtain ⟨u, s2, h3, h4⟩ := bind_ok_inv h2
      dsimp only
      rw [h3]
      dsimp only
      obtain ⟨I1, f1⟩ := pop_inv I h1
      have u1 := pop_untouched I.heap h1
      obtain ⟨I2, f2⟩ := recompute_inv fuel n s1 s2 I1 h3
      obtain ⟨-, -, f3⟩ := drainHeap_inv fuel s2 s' I2 h4
      obtain ⟨-, hall1⟩ := chain_once fuel n s1 s2 I1 h3
      obtain ⟨-, hall2⟩ := drain_once fuel s2 s' I2 h4
      obtain ⟨cR, cU⟩ := chain_gate fuel n s1 s2 I1 h3
      obtain ⟨dR, dU⟩ := ih s2 s' I2 h4
      -- the two parts are disjoint
      have hdisj : ∀ m, m ∈ chainTrace env fuel n s1 → m ∉ drainTrace env fuel s2 := by
        intro m hm1 hm2
        have h5 := (hall1 m hm1).2.2
        have h6 := (hall2 m hm2).2.1
        rw [f2.stabNum] at h6
        omega
      constructor
      · intro ρ hρ
        rcases List.mem_append.1 hρ with hρ | hρ
        · have K := (cR ρ hρ).extend_left f1 (u1 _)
          have hmem : ρ.node ∈ chainTrace env fuel n s1 := mem_chain_iff.2 ⟨ρ, hρ, rfl⟩
          obtain ⟨a1, -, a3⟩ := hall1 ρ.node hmem
          refine K.extend_right f3 (dU _ (hdisj _ hmem)) (fun c hc => dU c ?_)
          intro hc2
          obtain ⟨ρ', hρ', hnode⟩ := mem_trace_iff.1 hc2
          have fpre : Frame s1 ρ.pre := (cR ρ hρ).fromStart
          have fpost : Frame ρ.pre s2 := by
            obtain ⟨_, _, _, _, R⟩ := (cR ρ hρ).step
            exact R.frame.trans (cR ρ hρ).toEnd
          refine (dR ρ' hρ').not_child_of_ran (n := ρ.node) ?_ ?_ ?_
          · rw [f2.nec]; exact a1
          · rw [a3, f2.stabNum]
          · rw [hnode, (fpost.shape ρ.node).kind]; exact hc
        · have hmem : ρ.node ∈ drainTrace env fuel s2 := mem_trace_iff.2 ⟨ρ, hρ, rfl⟩
          have hnc : ρ.node ∉ chainTrace env fuel n s1 := fun hc => hdisj _ hc hmem
          exact (dR ρ hρ).extend_left (f1.trans f2) ((u1 _).trans (cU _ hnc))
      · intro m hm
        rw [List.mem_append, not_or] at hm
        exact ((u1 m).trans (cU m hm.1)).trans (dU m hm.2)

/-! ## who runs -/

/-- `is_stale` of node `m` with its own `recomputedAt` (and its variable) taken from `s` and its children's
`changedAt` from `s'` -/
def staleMix (s s' : State) (m : Nat) : Bool :=
  match (s.nodeD m).kind with
  | .var c => match s.vars[c]? with
    | some vc => decide (vc.setAt > (s.nodeD m).recomputedAt)
    | none => false
  | .const _ => (s.nodeD m).recomputedAt == -1
  | k => (s.nodeD m).recomputedAt == -1 ||
      (kids k).any fun c => decide ((s'.nodeD c).changedAt > (s.nodeD m).recomputedAt)

theorem staleMix_eq_staleOf {s s' p : State} {m : Nat} (hk : (p.nodeD m).kind = (s.nodeD m).kind)
    (hr : (p.nodeD m).recomputedAt = (s.nodeD m).recomputedAt) (hv : p.vars = s.vars)
    (hc : ∀ c, c ∈ kids (s.nodeD m).kind → (s'.nodeD c).changedAt = (p.nodeD c).changedAt) :
    staleMix s s' m = staleOf p m := by
  unfold staleMix staleOf
  rw [hk, hr, hv]
  cases h : (s.nodeD m).kind <;> rw [h] at hc <;> try rfl
  all_goals
    simp only
    congr 1
    apply any_congr'
    intro a ha
    rw [hc a ha]

theorem staleMix_self (s : State) (m : Nat) : staleMix s s m = staleOf s m :=
  staleMix_eq_staleOf rfl rfl rfl (fun _ _ => rfl)

/-- **who runs.** In a successful drain from a state with the drain invariant, a node is invoked iff it is
necessary and stale with respect to the final `changedAt` stamps of its children. -/
theorem ran_iff {env : Env} {e : Bool} {fuel : Nat} {s s' : State} (I : DrainInv env e s)
    (h : (drainHeap env fuel).run.run s = (.ok (), s')) (m : Nat) :
    m ∈ drainTrace env fuel s ↔ (s.isNecessary m = true ∧ staleMix s s' m = true) := by
  obtain ⟨dR, dU⟩ := drain_gate fuel s s' I h
  obtain ⟨I', he, f⟩ := drainHeap_inv fuel s s' I h
  constructor
  · intro hm
    obtain ⟨ρ, hρ, rfl⟩ := mem_trace_iff.1 hm
    have K := dR ρ hρ
    obtain ⟨hn, hst⟩ := K.stale
    refine ⟨by rw [← K.fromStart.nec]; exact hn, ?_⟩
    rw [K.inv.graph.isStale hn] at hst
    rw [← hst]
    refine staleMix_eq_staleOf (K.fromStart.shape _).kind K.before.2.1 K.fromStart.vars (fun c hc => ?_)
    exact (K.kidsAfter c (by rw [(K.fromStart.shape _).kind]; exact hc)).2.2
  · rintro ⟨hn, hst⟩
    refine Classical.byContradiction fun hnot => ?_
    have hu := dU m hnot
    have hn' : s'.isNecessary m = true := by rw [f.nec]; exact hn
    have hfin := (I'.all_consistent he m hn').1
    rw [I'.graph.isStale hn'] at hfin
    have : staleMix s s' m = staleOf s' m :=
      staleMix_eq_staleOf (f.shape m).kind hu.2.1 f.vars (fun _ _ => rfl)
    rw [this, hfin] at hst
    cases hst

end IncrVerif.Proofs.CutH
