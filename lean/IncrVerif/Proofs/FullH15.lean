import IncrVerif.Proofs.FullH4
import IncrVerif.Proofs.BindH5
/-!
# C01 full fragment: what is below the current node of the drain invariant is settled
(port of `MapRefH.settled` / `Inv.kids_settled` from `Sched.Inv` to `BindH.DInv` of the virtual state)
-/
namespace IncrVerif.Proofs.FullH
open IncrVerif.Engine IncrVerif.Proofs IncrVerif.Proofs.Step IncrVerif.Proofs.Sched IncrVerif.Proofs.Quiet
open IncrVerif.Proofs.BindH (DInv BGraph Below Edge ConsistentB TargetB)

section
variable {env : Env} {sp : Nat → Val → Val} {g : Nat → Option Val} {s : State}

theorem children_mapRef {n p i : Nat} (hv : (s.nodeD n).valid = true) (hk : (s.nodeD n).kind = .mapRef p i) :
    s.children n = [i] := by
  have : (s.nodeD n).kind? = some (.mapRef p i) := by simp [Node.kind?, hv, hk]
  unfold State.children; rw [this]

theorem children_mwo {n m i : Nat} (hv : (s.nodeD n).valid = true) (hk : (s.nodeD n).kind = .mapWithOld m i) :
    s.children n = [i] := by
  have : (s.nodeD n).kind? = some (.mapWithOld m i) := by simp [Node.kind?, hv, hk]
  unfold State.children; rw [this]

/-- a virtual child edge -/
theorem vedge_of_child {n c : Nat} (h : c ∈ s.children n) : Edge (virt g s) n c :=
  Edge.child (by rw [virt_children]; exact h)

/-- below a necessary node all of whose descendants are not stale, the ghost values are the values read
(`hcons`: `DInv.cons` of the virtual state) -/
theorem settled (F : FFrag env sp g s) (gr : BGraph (VE env sp) (virt g s))
    (hcons : ∀ m, m < (virt g s).nodes.size → ((virt g s).nodeD m).valid = true → (virt g s).isStale m = false →
      ConsistentB (VE env sp) (virt g s) m) :
    ∀ d, s.isNecessary d = true → (∀ e, Below (virt g s) d e → s.isStale e = false) → tv g s d = s.value env d := by
  intro d
  induction d using Nat.strongRecOn with
  | _ d ih =>
    intro hd hfresh
    by_cases hmr : ∀ p i, (s.nodeD d).kind ≠ .mapRef p i
    · exact tv_eq_value_of_not_mapRef hmr
    · have : ∃ p i, (s.nodeD d).kind = .mapRef p i := by
        cases hk : (s.nodeD d).kind <;> first | exact ⟨_, _, rfl⟩ | (exfalso; apply hmr; intro p i; rw [hk]; intro h; cases h)
      obtain ⟨p, i, hk⟩ := this
      have hlt := F.lt_of_mapRef hk
      have hi : i < d := F.input_lt hk
      have hdv : (virt g s).isNecessary d = true := by rw [virt_isNecessary]; exact hd
      have hvv : ((virt g s).nodeD d).valid = true := (gr.nec d hdv).1
      have hv : (s.nodeD d).valid = true := by rw [virt_nodeD, virtNode_valid] at hvv; exact hvv
      have hns : (virt g s).isStale d = false := by rw [virt_isStale]; exact hfresh d (Below.refl d)
      obtain ⟨w, hw, hvw⟩ := hcons d (by rw [virt_size]; exact hlt) hvv hns
      have hkv : ((virt g s).nodeD d).kind = .map (pBase + p) [i] := by
        rw [virt_nodeD, virtNode_kind, hk]; rfl
      unfold TargetB Target at hw
      rw [hkv] at hw
      obtain ⟨vals, hvals, hwv⟩ := hw
      -- the child
      have hci : i ∈ s.children d := by rw [children_mapRef hv hk]; exact List.mem_singleton.2 rfl
      have he : Edge (virt g s) d i := vedge_of_child hci
      have hin : s.isNecessary i = true := by rw [← virt_isNecessary g s]; exact (gr.edge_nec hdv he).1
      have hti : tv g s i = s.value env i := ih i hi hin (fun e hb => hfresh e (Below.step he hb))
      rw [virt_plainVals] at hvals
      simp only [evalArgs] at hvals
      rw [value_mapRef F hv hk, ← hti]
      show ((virt g s).nodeD d).value = _
      rw [hvw, hwv, virtEnv_fn_proj _ _ (F.pid hk)]
      cases hx : tv g s i with
      | none => rw [hx] at hvals; simp at hvals
      | some x => rw [hx] at hvals; simp at hvals; subst hvals; rfl

/-- nothing strictly below the current node is stale -/
theorem DInv.below_fresh {n : Nat} (I : DInv (VE env sp) (virt g s) (some n)) {a : Nat}
    (ha : Edge (virt g s) n a) : ∀ e, Below (virt g s) a e → s.isStale e = false := by
  intro e he
  have gr := I.graph
  obtain ⟨hn, hbelow⟩ := I.cur n rfl
  obtain ⟨han, hlt⟩ := gr.edge_nec hn ha
  obtain ⟨hen, hle⟩ := gr.below_nec he han
  cases hst : s.isStale e with
  | false => rfl
  | true =>
    rcases I.pending e hen (by rw [virt_isStale]; exact hst) with h | h
    · rw [hbelow e (Below.step ha he)] at h; cases h
    · cases h; omega

/-- **the children of the current node are settled**: the ghost values are the values read, and they exist -/
theorem kids_settled {t : State} {n : Nat} (D : DInvF env sp t s g (some n)) :
    ∀ a, a ∈ s.children n → tv g s a = s.value env a ∧ (s.value env a).isSome = true := by
  intro a ha
  have I := D.inv
  have gr := I.graph
  obtain ⟨hn, -⟩ := I.cur n rfl
  have he : Edge (virt g s) n a := vedge_of_child ha
  obtain ⟨han, -⟩ := gr.edge_nec hn he
  have hfresh := DInv.below_fresh I he
  have hset := settled D.frag gr I.cons a (by rw [← virt_isNecessary g s]; exact han) hfresh
  refine ⟨hset, ?_⟩
  obtain ⟨halt, hav⟩ := gr.edge_target he
  obtain ⟨w, -, hw⟩ := I.cons a halt hav (by rw [virt_isStale]; exact hfresh a (Below.refl a))
  rw [← hset]
  show ((virt g s).nodeD a).value.isSome = true
  rw [hw]; rfl

end
end IncrVerif.Proofs.FullH
