import IncrVerif.Proofs.ExpertH59
/-!
# Expert nodes, E2: threading `SlotInv` — the `Pres` ladders of `SR` and `FM`

`PresR.*`: `SR env` for every engine function outside a recompute (both cascades, heights, heaps, observers, writes).
`PresM.*`: `FM` for the linking cascade and the neutral steps.
`CR env`: `SR env ∧ FM` from states in which every node is valid and nothing waits in `propagateInvalidity`
(there `propagate_invalidity` is a no-op).
-/
namespace IncrVerif.Proofs.ExpertH
open IncrVerif.Engine IncrVerif.Driver IncrVerif.Proofs IncrVerif.Proofs.Step IncrVerif.Proofs.Sched
open IncrVerif.Proofs.ExpertH.QR IncrVerif.Proofs.Xp

/-! ## `SR` -/

section
variable {env : Env}

theorem PresR.modNode (n : Nat) (f : Node → Node) (hf : ∀ x, slotKey (f x) = slotKey x) :
    Step.Pres (SR env) (Engine.modNode n f) := by
  unfold Engine.modNode; exact Step.Pres.modify fun s => SR.modNode env s n f hf

theorem PresR.modExpert (e : Nat) (f : ExpertRec → ExpertRec) (hf : ∀ s x, RecR env s x (f x)) :
    Step.Pres (SR env) (Engine.modExpert e f) := by
  unfold Engine.modExpert; exact Step.Pres.modify fun s => SR.modExpert env s e f fun x _ => hf s x
end

macro_rules
  | `(tactic| qleaf) =>
    `(tactic| ((with_reducible apply Step.Pres.modify); intro _; exact SR.of_nodes rfl rfl rfl))
macro_rules
  | `(tactic| qleaf) => `(tactic| ((with_reducible apply PresR.modNode); intro _; rfl))
macro_rules
  | `(tactic| qleaf) =>
    `(tactic| ((with_reducible apply PresR.modExpert); intro _ _; exact RecR.of_same rfl rfl (fun _ => rfl) rfl))

macro "sr_leaf " n:ident : command =>
  `(macro_rules | `(tactic| qleaf) => `(tactic| with_reducible apply $n))

section
variable {env : Env}

theorem PresR.discard {α} {x : M α} (h : Step.Pres (SR env) x) : Step.Pres (SR env) (discard x) := by
  unfold Functor.discard; exact Step.Pres.map _ h
theorem PresR.logEv (e) : Step.Pres (SR env) (Engine.logEv e) := by unfold Engine.logEv; qpres
theorem PresR.tick : Step.Pres (SR env) Engine.tick := by unfold Engine.tick; qpres
end
sr_leaf PresR.discard
sr_leaf PresR.logEv
sr_leaf PresR.tick

section
variable {env : Env}
theorem PresR.bumpCounter (f) : Step.Pres (SR env) (Engine.bumpCounter f) := by unfold Engine.bumpCounter; qpres
theorem PresR.modBind (b f) : Step.Pres (SR env) (Engine.modBind b f) := by unfold Engine.modBind; qpres
theorem PresR.modObs (o f) : Step.Pres (SR env) (Engine.modObs o f) := by unfold Engine.modObs; qpres
theorem PresR.modVar (v f) : Step.Pres (SR env) (Engine.modVar v f) := by unfold Engine.modVar; qpres
theorem PresR.getObs (o) : Step.Pres (SR env) (Engine.getObs o) := by unfold Engine.getObs; qpres
theorem PresR.getVar (v) : Step.Pres (SR env) (Engine.getVar v) := Step.Pres.getVar v
theorem PresR.addParent (c i p) : Step.Pres (SR env) (Engine.addParent c i p) := by unfold Engine.addParent; qpres
theorem PresR.setHeight (n h) : Step.Pres (SR env) (Engine.setHeight n h) := by unfold Engine.setHeight; qpres
theorem PresR.rchLink (n) : Step.Pres (SR env) (Engine.rchLink n) := by unfold Engine.rchLink; qpres
theorem PresR.rchUnlink (n) : Step.Pres (SR env) (Engine.rchUnlink n) := by unfold Engine.rchUnlink; qpres
end
sr_leaf PresR.bumpCounter
sr_leaf PresR.modBind
sr_leaf PresR.modObs
sr_leaf PresR.modVar
sr_leaf PresR.getObs
sr_leaf PresR.addParent
sr_leaf PresR.setHeight
sr_leaf PresR.rchLink
sr_leaf PresR.rchUnlink

section
variable {env : Env}
theorem PresR.removeParent (c i p) : Step.Pres (SR env) (Engine.removeParent c i p) := by
  unfold Engine.removeParent; qpres
theorem PresR.rchInsert (n) : Step.Pres (SR env) (Engine.rchInsert n) := by unfold Engine.rchInsert; qpres
theorem PresR.rchRemove (n) : Step.Pres (SR env) (Engine.rchRemove n) := by unfold Engine.rchRemove; qpres
theorem PresR.rchIncreaseHeight (n) : Step.Pres (SR env) (Engine.rchIncreaseHeight n) := by
  unfold Engine.rchIncreaseHeight; qpres
theorem PresR.ahhAddUnlessMem (n) : Step.Pres (SR env) (Engine.ahhAddUnlessMem n) := by
  unfold Engine.ahhAddUnlessMem; qpres
theorem PresR.ahhRemoveMin : Step.Pres (SR env) Engine.ahhRemoveMin := by unfold Engine.ahhRemoveMin; qpres
theorem PresR.scopeHeight (sc) : Step.Pres (SR env) (Engine.scopeHeight sc) := Step.Pres.scopeHeight sc
theorem PresR.scopeIsNecessary (sc) : Step.Pres (SR env) (Engine.scopeIsNecessary sc) := by
  unfold Engine.scopeIsNecessary; qpres
theorem PresR.handleAfterStabilisation (n) : Step.Pres (SR env) (Engine.handleAfterStabilisation n) := by
  unfold Engine.handleAfterStabilisation; qpres
theorem PresR.observabilityChange (e b) : Step.Pres (SR env) (Engine.observabilityChange e b) := by
  unfold Engine.observabilityChange; qpres
end
sr_leaf PresR.removeParent
sr_leaf PresR.rchInsert
sr_leaf PresR.rchRemove
sr_leaf PresR.rchIncreaseHeight
sr_leaf PresR.ahhAddUnlessMem
sr_leaf PresR.ahhRemoveMin
sr_leaf PresR.scopeIsNecessary
sr_leaf PresR.handleAfterStabilisation
sr_leaf PresR.observabilityChange

/-- equal nodes, records, `nextDep`, `propagateInvalidity` -/
def SameX (s s' : State) : Prop :=
  s'.nodes = s.nodes ∧ s'.experts = s.experts ∧ s'.nextDep = s.nextDep ∧
    s'.propagateInvalidity = s.propagateInvalidity
instance : Step.PreOrd SameX :=
  ⟨fun _ => ⟨rfl, rfl, rfl, rfl⟩, fun h1 h2 => ⟨h2.1.trans h1.1, h2.2.1.trans h1.2.1, h2.2.2.1.trans h1.2.2.1,
    h2.2.2.2.trans h1.2.2.2⟩⟩
macro_rules
  | `(tactic| qleaf) => `(tactic| ((with_reducible apply Step.Pres.modify); intro _; exact ⟨rfl, rfl, rfl, rfl⟩))

theorem PresSame.logEv (e) : Step.Pres SameX (Engine.logEv e) := by unfold Engine.logEv; qpres
theorem PresSame.tick : Step.Pres SameX Engine.tick := by unfold Engine.tick; qpres

/-- the state after a callback stored `v` for dependency `d` of record `e` -/
theorem SR.deliver {env : Env} {s s1 s' : State} {e : Nat} {er : ExpertRec} {edge : ExpertEdge} {v : Val}
    (he : s.experts[e]? = some er) (hw : er.willFireAllCallbacks = false) (hed : edge ∈ er.children)
    (hv : s.value env edge.child = some v) (hs : SameX s s1) (g1 : s'.nodes = s1.nodes)
    (g2 : s'.experts = s1.experts.modify e fun x =>
      { x with slots := (edge.dep, v) :: x.slots.filter (·.1 != edge.dep) })
    (g3 : s'.nextDep = s1.nextDep) : SR env s s' := by
  obtain ⟨h1, h2, h3, -⟩ := hs
  have R : SR env s { s with experts := s.experts.modify e fun x =>
      { x with slots := (edge.dep, v) :: x.slots.filter (·.1 != edge.dep) } } := by
    refine SR.modExpert env s e _ fun x hx => ?_
    rw [he] at hx; cases hx
    refine ⟨rfl, rfl, ?_, fun d => ?_, fun p hp => ?_⟩
    · intro h; rw [hw] at h; cases h
    · by_cases hd : d = edge.dep
      · refine Or.inr ⟨hw, edge, hed, hd.symm, ?_⟩
        rw [hd, hv]; simp
      · left
        show List.lookup d ((edge.dep, v) :: _) = _
        rw [List.lookup_cons]
        have : (d == edge.dep) = false := by simpa using hd
        rw [this]
        exact lookup_filter_ne d edge.dep _ hd
    · rcases List.mem_cons.1 hp with rfl | hp
      · exact Or.inr ⟨edge, hed, rfl⟩
      · exact Or.inl (List.mem_filter.1 hp).1
  refine ⟨by rw [g1, h1], fun m => ?_, by rw [g3, h3], fun j => ?_⟩
  · have e1 : s'.nodeD m = s.nodeD m := by simp [State.nodeD, g1, h1]
    rw [e1]
  · have := R.recs j
    rw [g2, h2]
    exact this

theorem PresR.runEdgeCallback (env : Env) (e i : Nat) : Step.Pres (SR env) (Engine.runEdgeCallback env e i) := by
  constructor
  intro s r s' h
  unfold Engine.runEdgeCallback at h
  rw [run_bind, run_getExpert] at h
  cases he : s.experts[e]? with
  | none => rw [he] at h; cases h; exact SR.refl env s
  | some er =>
    rw [he] at h
    simp only at h
    cases hw : er.willFireAllCallbacks with
    | true =>
      rw [hw] at h
      simp only [Bool.not_true, Bool.false_eq_true, if_false, run_pure] at h
      cases h; exact SR.refl env s
    | false =>
      rw [hw] at h
      simp only [Bool.not_false, if_true] at h
      cases hi : er.children[i]? with
      | none => rw [hi] at h; simp only [run_pure] at h; cases h; exact SR.refl env s
      | some edge =>
        rw [hi] at h
        simp only at h
        have hed : edge ∈ er.children := List.mem_of_getElem? hi
        unfold Engine.edgeOnChange at h
        cases hcb : edge.cb with
        | none => rw [hcb] at h; simp only [run_pure] at h; cases h; exact SR.refl env s
        | some c =>
          rw [hcb] at h
          simp only [run_bind_get] at h
          cases hv : s.value env edge.child with
          | none => rw [hv] at h; simp only [run_pure] at h; cases h; exact SR.refl env s
          | some v =>
            rw [hv] at h
            simp only at h
            rw [run_bind_ok (run_getExpert_some he)] at h
            cases hpk : er.pk.isNone with
            | false =>
              rw [hpk] at h
              simp only [Bool.false_eq_true, if_false, run_modExpert] at h
              cases h
              exact SR.deliver he hw hed hv ⟨rfl, rfl, rfl, rfl⟩ rfl rfl rfl
            | true =>
              rw [hpk] at h
              simp only [if_true] at h
              rw [run_bind] at h
              rcases hx : Engine.tick.run.run s with ⟨r1, s1⟩
              have E := PresSame.tick.h _ _ _ hx
              rw [hx] at h
              cases r1 with
              | error p => cases h; exact SR.of_nodes E.1 E.2.1 E.2.2.1
              | ok u =>
                simp only [run_bind, run_logEv, run_modExpert] at h
                cases h
                exact SR.deliver he hw hed hv E rfl rfl rfl
sr_leaf PresR.runEdgeCallback

section
variable {env : Env}

theorem PresR.maybeHandleAfterStabilisation (n) : Step.Pres (SR env) (Engine.maybeHandleAfterStabilisation n) := by
  unfold Engine.maybeHandleAfterStabilisation; qpres
theorem PresR.ensureHeightRequirement (oc op c p) :
    Step.Pres (SR env) (Engine.ensureHeightRequirement oc op c p) := by
  unfold Engine.ensureHeightRequirement; qpres
end
sr_leaf PresR.maybeHandleAfterStabilisation
sr_leaf PresR.ensureHeightRequirement

theorem PresR.adjustHeightsLoop {env : Env} (oc op fuel) : Step.Pres (SR env) (Engine.adjustHeightsLoop oc op fuel) := by
  induction fuel with
  | zero => unfold Engine.adjustHeightsLoop; qpres
  | succ fuel ih =>
    unfold Engine.adjustHeightsLoop
    qpres
    all_goals first
      | exact ih
      | (apply Step.Pres.forIn; intro a b; qpres)
sr_leaf PresR.adjustHeightsLoop

theorem PresR.adjustHeights {env : Env} (oc op fuel) : Step.Pres (SR env) (Engine.adjustHeights oc op fuel) := by
  unfold Engine.adjustHeights; qpres
sr_leaf PresR.adjustHeights

theorem PresR.markMapRefUnknown {env : Env} (fuel n) : Step.Pres (SR env) (Engine.markMapRefUnknown fuel n) := by
  induction fuel generalizing n with
  | zero => unfold Engine.markMapRefUnknown; qpres
  | succ fuel ih =>
    unfold Engine.markMapRefUnknown
    qpres
    all_goals (apply Step.Pres.forIn; intro a b; qpres; all_goals exact ih _)
sr_leaf PresR.markMapRefUnknown

set_option maxHeartbeats 1000000 in
theorem PresR.link (env : Env) (fuel : Nat) :
    (∀ n, Step.Pres (SR env) (Engine.becameNecessary env fuel n)) ∧
    (∀ c i p, Step.Pres (SR env) (Engine.addParentWithoutAdjustingHeights env fuel c i p)) := by
  induction fuel with
  | zero =>
    constructor
    · intro n; unfold Engine.becameNecessary; qpres
    · intro c i p; unfold Engine.addParentWithoutAdjustingHeights; qpres
  | succ fuel ih =>
    constructor
    · intro n
      unfold Engine.becameNecessary
      qpres
      all_goals (apply Step.Pres.forIn; intro a b; qpres; all_goals exact ih.2 _ _ _)
    · intro c i p
      unfold Engine.addParentWithoutAdjustingHeights
      qpres
      all_goals exact ih.1 _

theorem PresR.becameNecessary (env fuel n) : Step.Pres (SR env) (Engine.becameNecessary env fuel n) :=
  (PresR.link env fuel).1 n
sr_leaf PresR.becameNecessary
theorem PresR.addParentWithoutAdjustingHeights (env fuel c i p) :
    Step.Pres (SR env) (Engine.addParentWithoutAdjustingHeights env fuel c i p) :=
  (PresR.link env fuel).2 c i p
sr_leaf PresR.addParentWithoutAdjustingHeights

theorem PresR.unlink {env : Env} (fuel : Nat) :
    (∀ n, Step.Pres (SR env) (Engine.becameUnnecessary fuel n)) ∧
    (∀ n, Step.Pres (SR env) (Engine.checkIfUnnecessary fuel n)) ∧
    (∀ n, Step.Pres (SR env) (Engine.removeChildren fuel n)) := by
  induction fuel with
  | zero =>
    refine ⟨?_, ?_, ?_⟩
    · intro n; unfold Engine.becameUnnecessary; qpres
    · intro n; unfold Engine.checkIfUnnecessary; qpres
    · intro n; unfold Engine.removeChildren; qpres
  | succ fuel ih =>
    refine ⟨?_, ?_, ?_⟩
    · intro n
      unfold Engine.becameUnnecessary
      qpres
      all_goals exact ih.2.2 _
    · intro n
      unfold Engine.checkIfUnnecessary
      qpres
      all_goals exact ih.1 _
    · intro n
      unfold Engine.removeChildren
      qpres
      all_goals (apply Step.Pres.forIn; intro a b; qpres; all_goals exact ih.2.1 _)

theorem PresR.becameUnnecessary {env : Env} (fuel n) : Step.Pres (SR env) (Engine.becameUnnecessary fuel n) :=
  (PresR.unlink fuel).1 n
sr_leaf PresR.becameUnnecessary
theorem PresR.checkIfUnnecessary {env : Env} (fuel n) : Step.Pres (SR env) (Engine.checkIfUnnecessary fuel n) :=
  (PresR.unlink fuel).2.1 n
sr_leaf PresR.checkIfUnnecessary
theorem PresR.removeChildren {env : Env} (fuel n) : Step.Pres (SR env) (Engine.removeChildren fuel n) :=
  (PresR.unlink fuel).2.2 n
sr_leaf PresR.removeChildren

theorem PresR.unlinkDisallowedObservers {env : Env} (fuel) :
    Step.Pres (SR env) (Engine.unlinkDisallowedObservers fuel) := by
  unfold Engine.unlinkDisallowedObservers
  qpres
  all_goals (apply Step.Pres.forIn; intro a b; qpres)

section
variable {env : Env}
theorem PresR.disallowFutureUse (o) : Step.Pres (SR env) (Engine.disallowFutureUse o) := by
  unfold Engine.disallowFutureUse; qpres
theorem PresR.didSetVarWhileNotStabilising (v) : Step.Pres (SR env) (Engine.didSetVarWhileNotStabilising v) := by
  unfold Engine.didSetVarWhileNotStabilising; qpres
end
sr_leaf PresR.disallowFutureUse
sr_leaf PresR.didSetVarWhileNotStabilising
section
variable {env : Env}
theorem PresR.writeVar (v f b) : Step.Pres (SR env) (Engine.writeVar v f b) := by
  unfold Engine.writeVar; qpres
theorem PresR.dropVarHandle (v) : Step.Pres (SR env) (Engine.dropVarHandle v) := by
  unfold Engine.dropVarHandle; qpres
theorem PresR.subscribe (o h) : Step.Pres (SR env) (Engine.subscribe o h) := by
  unfold Engine.subscribe; qpres
theorem PresR.unsubscribe (o t w) : Step.Pres (SR env) (Engine.unsubscribe o t w) := by
  unfold Engine.unsubscribe; qpres
theorem PresR.resolveOpnd (loc o) : Step.Pres (SR env) (Engine.resolveOpnd loc o) := by
  unfold Engine.resolveOpnd; qpres
theorem PresR.setMaxHeightAllowed (k) : Step.Pres (SR env) (Engine.setMaxHeightAllowed k) := by
  unfold Engine.setMaxHeightAllowed; qpres
end
sr_leaf PresR.writeVar
sr_leaf PresR.dropVarHandle
sr_leaf PresR.subscribe
sr_leaf PresR.unsubscribe
sr_leaf PresR.resolveOpnd
sr_leaf PresR.setMaxHeightAllowed

theorem PresR.stepAction (env : Env) (a : Action) (tk : Array Nat) (h : XAct a) :
    Step.Pres (SR env) (Engine.stepAction env a tk) := by
  unfold Engine.stepAction
  cases a <;> first | exact False.elim h | (dsimp only; qpres; done)

end IncrVerif.Proofs.ExpertH
