import IncrVerif.Proofs.PerKeyH52
import IncrVerif.Proofs.PerKeyH24
/-!
# A run of a per-key change detector, part 7c: the callback discipline and the auxiliary invariant (all but `pk`)
after the final `maybeChangeValue`
-/
namespace IncrVerif.Proofs.PerKeyH
open IncrVerif.Engine IncrVerif.Driver IncrVerif.Proofs IncrVerif.Proofs.Step IncrVerif.Proofs.Sched
open IncrVerif.Proofs.ExpertH IncrVerif.Proofs.EffH IncrVerif.Proofs.DriverH IncrVerif.Proofs.ExpertH.QR
open IncrVerif.Proofs.Xp

section
variable {env : Env} {s s2 s' : State} {n op eres fuel : Nat} {pr : PerKeyRec} {m : List (Int × Int)} {r : Option Nat}

/-- the precondition of the notification walk, on the twin of `s2` (port of `pre_of_pd`) -/
theorem lc_pre (B : LcBase env s n op pr eres) (E : LE env s n op pr eres m s2) (l : List Event) :
    Pre (twEnv env) n (twL l s2) := by
  have I' := lc_inv' B E
  have G := I'.graph
  have F2 := E.frag
  have L := E.slots
  obtain ⟨hst2, hk2, hnlt⟩ := lc_stamp2 B E
  have hnlt2 : n < s2.nodes.size := Nat.lt_of_lt_of_le hnlt (lf_grow E.lf)
  have hR := sameR_unstamp n (s.nodeD n).recomputedAt (V s2)
  have kidsOf : ∀ (q e : Nat) (er : ExpertRec), (s2.nodeD q).kind = .expert e → s2.experts[e]? = some er →
      (unstamp n (s.nodeD n).recomputedAt (V s2)).children q = er.children.map (·.child) := by
    intro q e er hk he
    rw [hR.children, V_children, sl_children_expert (F2.validD q) hk he]
  have parU : ∀ q, ((unstamp n (s.nodeD n).recomputedAt (V s2)).nodeD q).parents = (s2.nodeD q).parents := by
    intro q; rw [hR.parents, V_nodeD, vNode_parents]
  refine ⟨xfrag_twin l F2, by rw [twL_size]; exact hnlt2, ?_, ?_, ?_, ?_, ?_, ?_, ?_, ?_⟩
  · rw [twL_nodeD, twNode_cutoff]
    exact Or.inl (F2.cutoff n hnlt2)
  · -- par
    intro p ci e er' ed hp hk he' hed
    obtain ⟨er, he, rfl⟩ := tw_rec_inv he'
    rw [twL_nodeD, twNode_parents] at hp
    rw [twL_kind_expert] at hk
    rw [twRec_children] at hed
    have := (G.parent n p ci (by rw [parU]; exact hp)).2
    rw [kidsOf p e er hk he, List.getElem?_map, hed] at this
    simpa using this
  · -- child
    intro q e er' j ed hk he' hq hed hc
    obtain ⟨er, he, rfl⟩ := tw_rec_inv he'
    rw [twL_kind_expert] at hk
    rw [twL_isNecessary] at hq
    rw [twRec_children] at hed
    rw [twL_nodeD, twNode_parents]
    have := (G.child q (by rw [hR.nec, V_isNecessary]; exact hq) j n (by
      rw [kidsOf q e er hk he, List.getElem?_map, hed, ← hc]; rfl)).2.1
    rwa [parU] at this
  · -- deps
    intro e er' he'
    obtain ⟨er, he, rfl⟩ := tw_rec_inv he'
    exact L.deps e er he
  · -- flag
    intro x e er' hk he' hw
    obtain ⟨er, he, rfl⟩ := tw_rec_inv he'
    rw [twL_kind_expert] at hk
    rw [twL_isNecessary]
    exact L.flag x e er hk he hw
  · -- good
    intro x e er' hk he' hcond
    obtain ⟨er, he, rfl⟩ := tw_rec_inv he'
    rw [twL_kind_expert] at hk
    rw [twRec_willFireAllCallbacks, twL_isStale] at hcond
    rw [good_twin]
    exact L.good x e er hk he (hcond.imp id fun h => h.2)
  · -- old
    intro q e er' hk he' hw hmem
    obtain ⟨er, he, rfl⟩ := tw_rec_inv he'
    rw [twL_kind_expert] at hk
    rw [twRec_children] at hmem
    rw [twRec_forceStale, twL_nodeD, twNode_recomputedAt, twL_stabNum]
    have hqn : q ≠ n := by
      rintro rfl
      rw [hk2] at hk; cases hk
    have hv := I'.fresh q n (BindH.Below.step (BindH.Edge.child (by rw [kidsOf q e er hk he]; exact hmem))
      (BindH.Below.refl n)) (Or.inr rfl)
    rw [unstamp_other _ _ _ hqn, V_nodeD, vNode_recomputedAt, hk, hR.stabNum, V_stabNum] at hv
    simp only [ExpertH.forced, xRec_some he] at hv
    cases hf : er.forceStale with
    | true => exact Or.inl rfl
    | false => rw [hf] at hv; exact Or.inr (by simpa using hv)
  · -- cflag
    intro e er' hk he'
    rw [twL_kind_expert, hk2] at hk
    cases hk

/-- the callback discipline after the final `maybeChangeValue` -/
theorem lc_slots (B : LcBase env s n op pr eres) (E : LE env s n op pr eres m s2) {l l' : List Event}
    (htw : (maybeChangeValue (twEnv env) fuel n .unit).run.run (twL l s2) = (.ok r, twL l' s')) :
    SlotInv env s' :=
  (slotInv_twin env l' s').2 (mcv_slots (lc_pre B E l) htw)

/-! ## the auxiliary invariant, all but `pk` -/

/-- the shapes along the static step, read between `V s2` and `V s'` -/
theorem lc_shv {ch : Bool} {r0 : Int}
    (R : BindH.StepRelB n .unit ch r (unstamp n r0 (V s2)) (V s')) (x : Nat) :
    SameShape ((V s2).nodeD x) ((V s').nodeD x) :=
  (SameShape.symm' (unstamp_shape n r0 (V s2) x)).trans (R.shapes x)

theorem LE.ahh (E : LE env s n op pr eres m s2) : AhhEmpty s2 :=
  ⟨E.mid.ahh.length, E.mid.ahh.buckets, fun x => by have := E.mid.ahh.marks x; rwa [twL_nodeD] at this⟩

theorem LE.handlers (E : LE env s n op pr eres m s2) (x : Nat) : (s2.nodeD x).numOnUpdateHandlers ≤ 0 := by
  have := E.mid.handlers x; rwa [twL_nodeD] at this

/-- **part C, all but `pk`** -/
theorem lc_aux (B : LcBase env s n op pr eres) (E : LE env s n op pr eres m s2) {ch : Bool}
    (R : BindH.StepRelB n .unit ch r (unstamp n (s.nodeD n).recomputedAt (V s2)) (V s')) (fr' : Fr s')
    (sf : SF s2 s') (hslots : SlotInv env s') (hpk : PKOK env s') : AuxP env s' := by
  have F2 := E.frag
  have shv := lc_shv R
  obtain ⟨rk2, st2W⟩ := E.mid.st
  have st2 : Struct (penv env) rk2 (V s2) := struct_V F2 st2W
  have V2 : VarsOK (V s2) := lc_varsOK E.lf B.pd.aux.vars
  have hsz : (V s').nodes.size = (V s2).nodes.size := by rw [V_size, V_size]; exact sf.size
  refine ⟨F2.of_sf sf fr' shv, ahhEmpty_of_ahf E.ahh sf.df.ahf, fr'.pinv, fun x => ?_, ?_, fun c => ?_, ?_, hpk, hslots,
    fun x o ho => ?_, fun k x hk => ?_⟩
  · rw [sf.df.calm.num]; exact E.handlers x
  · exact ⟨rk2, allStatic_congr (allStatic_V F2 st2W.static) hsz shv R.pc sf.scope⟩
  · rw [(shape_actualV shv c).2.2.2.2.1]
    have := st2.nodup c
    rwa [V_nodeD, vNode_parents] at this
  · exact varsOK_congr V2 hsz (fun x => (shv x).kind) R.vars
  · rw [(shape_actualV shv x).2.2.2.2.2.1] at ho
    obtain ⟨ob, h1, h2⟩ := E.obs x o ho
    exact ⟨ob, by rw [sf.stObservers]; exact h1, h2⟩
  · rw [sf.top, (lf_key E.lf).2.2.2.1] at hk
    rw [sf.size]
    exact Nat.lt_of_lt_of_le (B.pd.aux.named k x hk) (lf_grow E.lf)

end

end IncrVerif.Proofs.PerKeyH
