import IncrVerif.Proofs.ExpertH70
/-!
# T4 (total correctness for the expert fragment X1), part 1: foundations

* `Tot x s Q` (copy of `Quiet.Tot` and its calculus): the run of `x` from `s` RETURNS in a state satisfying `Q`.
* `cnt rk N n`: position of `n` in the rank order (copy of `NestH.cnt`).
* `dp s n`: the DEPTH of node `n` in the child graph of `s` (longest chain of child edges below `n`), computed with
  fuel `s.nodes.size`.  Under a rank (`QR.AllStatic`): `dp c < dp n` along every child edge, `dp n < nodes.size`;
  `dp` only grows when edges/nodes are added (`dp_mono`, no rank needed).
* `HBd s op`: closed necessary nodes have `height ≤ dp + 1` (replaces `Quiet.HBo`, "height ≤ index + 1", which is
  false when children may be newer than parents, and `NestH.HBo2`, "≤ rank position + 1", which does not survive the
  re-ranking of `addDep`).
* `Room N s`, `TInvR N s` (copy of `Quiet.Room`, `Quiet.TInv` with `HBd`).
-/
namespace IncrVerif.Proofs.TidyH.XT
open IncrVerif.Engine IncrVerif.Driver IncrVerif.Proofs IncrVerif.Proofs.Step IncrVerif.Proofs.Sched
open IncrVerif.Proofs.ExpertH IncrVerif.Proofs.ExpertH.QR

/-! ## `Tot` -/

/-- the run returns, in a state (and with a value) satisfying `Q` -/
def Tot {α} (x : M α) (s : State) (Q : α → State → Prop) : Prop :=
  ∃ a s', x.run.run s = (.ok a, s') ∧ Q a s'

section tot
variable {α β : Type} {x : M α} {s : State} {Q : α → State → Prop}

theorem Tot.of_ok {a : α} {s1 : State} (h : x.run.run s = (.ok a, s1)) (hq : Q a s1) : Tot x s Q :=
  ⟨a, s1, h, hq⟩

theorem Tot.mono {Q' : α → State → Prop} (T : Tot x s Q) (h : ∀ a t, Q a t → Q' a t) : Tot x s Q' := by
  obtain ⟨a, s1, h1, h2⟩ := T; exact ⟨a, s1, h1, h a s1 h2⟩

theorem Tot.bind {f : α → M β} {Q' : β → State → Prop} (hx : Tot x s Q)
    (hf : ∀ a s1, x.run.run s = (.ok a, s1) → Q a s1 → Tot (f a) s1 Q') : Tot (x >>= f) s Q' := by
  obtain ⟨a, s1, h1, h2⟩ := hx
  obtain ⟨b, s2, h3, h4⟩ := hf a s1 h1 h2
  exact ⟨b, s2, by rw [run_bind_ok h1]; exact h3, h4⟩

theorem Tot.bind_ok {f : α → M β} {Q' : β → State → Prop} {a : α} {s1 : State}
    (h : x.run.run s = (.ok a, s1)) (T : Tot (f a) s1 Q') : Tot (x >>= f) s Q' := by
  obtain ⟨b, s2, h3, h4⟩ := T
  exact ⟨b, s2, by rw [run_bind_ok h]; exact h3, h4⟩

theorem Tot.pure {a : α} (h : Q a s) : Tot (pure a : M α) s Q := ⟨a, s, run_pure a s, h⟩

theorem Tot.bind_get {f : State → M β} {Q' : β → State → Prop} (T : Tot (f s) s Q') :
    Tot ((MonadState.get : M State) >>= f) s Q' := Tot.bind_ok (run_get s) T

theorem Tot.bind_modify {g : State → State} {f : Unit → M β} {Q' : β → State → Prop}
    (T : Tot (f ()) (g s) Q') : Tot (modify g >>= f) s Q' := Tot.bind_ok (run_modify g s) T

theorem Tot.bind_modNode {n : Nat} {g : Node → Node} {f : Unit → M β} {Q' : β → State → Prop}
    (T : Tot (f ()) { s with nodes := s.nodes.modify n g } Q') : Tot (modNode n g >>= f) s Q' :=
  Tot.bind_ok (run_modNode n g s) T

theorem run_dassert_true {c : Bool} {site : String} (s : State) (hc : s.cfg.debug = true → c = true) :
    (dassert c site).run.run s = (.ok (), s) := by
  rw [run_dassert, if_neg]
  rintro ⟨hd, h⟩; rw [hc hd] at h; cases h

theorem Tot.bind_dassert {c : Bool} {site : String} {f : Unit → M β} {Q' : β → State → Prop}
    (hc : s.cfg.debug = true → c = true) (T : Tot (f ()) s Q') : Tot (Engine.dassert c site >>= f) s Q' :=
  Tot.bind_ok (run_dassert_true s hc) T

theorem Tot.bind_getNode {n : Nat} {f : Node → M β} {Q' : β → State → Prop} (hn : n < s.nodes.size)
    (T : Tot (f (s.nodeD n)) s Q') : Tot (Engine.getNode n >>= f) s Q' :=
  Tot.bind_ok (run_getNode_some (some_of_lt hn)) T

/-- the run of a `Tot` is that run -/
theorem Tot.elim (T : Tot x s Q) {r : Except Panic α} {s' : State} (h : x.run.run s = (r, s')) :
    ∃ a, r = .ok a ∧ Q a s' := by
  obtain ⟨a, s1, h1, h2⟩ := T
  rw [h1] at h; cases h; exact ⟨a, rfl, h2⟩

theorem tot_bind_modNode' {n : Nat} {g : Node → Node} {f : Unit → M β} {Q' : β → State → Prop}
    (T : ∀ s1, s1 = { s with nodes := s.nodes.modify n g } → Tot (f ()) s1 Q') : Tot (modNode n g >>= f) s Q' :=
  Tot.bind_modNode (T _ rfl)

theorem tot_bind_modify' {g : State → State} {f : Unit → M β} {Q' : β → State → Prop}
    (T : ∀ s1, s1 = g s → Tot (f ()) s1 Q') : Tot (modify g >>= f) s Q' :=
  Tot.bind_modify (T _ rfl)

end tot

/-- forward loop rule: an invariant indexed by the number of iterations done; every iteration returns and yields -/
theorem forIn_tot {α β} (f : α → β → M (ForInStep β)) (l : List α) (I : Nat → β → State → Prop)
    (hstep : ∀ j a b t, l[j]? = some a → I j b t →
      ∃ b' t', (f a b).run.run t = (.ok (.yield b'), t') ∧ I (j + 1) b' t') :
    ∀ (rest : List α) (j : Nat) (b : β) (s : State), l.drop j = rest → j ≤ l.length → I j b s →
      ∃ b' s', (forIn rest b f).run.run s = (.ok b', s') ∧ I l.length b' s' := by
  intro rest
  induction rest with
  | nil =>
    intro j b s hd hle hI
    have : l.length ≤ j := List.drop_eq_nil_iff.1 hd
    have hj : j = l.length := by omega
    rw [hj] at hI
    exact ⟨b, s, by rw [List.forIn_nil, run_pure], hI⟩
  | cons a rest ih =>
    intro j b s hd hle hI
    have hj : l[j]? = some a := by
      have := congrArg List.head? hd
      simpa [List.head?_drop] using this
    have hlt : j < l.length := by
      rcases Nat.lt_or_ge j l.length with hlt | hge
      · exact hlt
      · rw [List.getElem?_eq_none hge] at hj; cases hj
    obtain ⟨b1, t1, h1, hI1⟩ := hstep j a b s hj hI
    have hd' : l.drop (j + 1) = rest := by
      have := congrArg List.tail hd
      simpa [List.tail_drop] using this
    obtain ⟨b2, s2, h2, hI2⟩ := ih (j + 1) b1 t1 hd' hlt hI1
    exact ⟨b2, s2, by rw [List.forIn_cons, run_bind_ok h1]; exact h2, hI2⟩

/-- `forIn_tot` in `Tot` form -/
theorem forIn_tot' {α β} (f : α → β → M (ForInStep β)) (l : List α) (I : Nat → β → State → Prop)
    (hstep : ∀ j a b t, l[j]? = some a → I j b t →
      Tot (f a b) t (fun r t' => ∃ b', r = .yield b' ∧ I (j + 1) b' t'))
    (b : β) (s : State) (h0 : I 0 b s) : Tot (forIn l b f) s (fun b' s' => I l.length b' s') := by
  refine forIn_tot f l I ?_ l 0 b s (by simp) (Nat.zero_le _) h0
  intro j a b t hj hI
  obtain ⟨r, t', h1, b', e, h2⟩ := hstep j a b t hj hI
  rw [e] at h1
  exact ⟨b', t', h1, h2⟩

/-! ## rank positions -/

/-- the position of `n` in the rank order of the first `N` nodes -/
def cnt (rk : Nat → Nat) (N n : Nat) : Nat := (List.range N).countP fun m => decide (rk m < rk n)

theorem cnt_lt_cnt {rk : Nat → Nat} {N a b : Nat} (ha : a < N) (h : rk a < rk b) : cnt rk N a < cnt rk N b := by
  unfold cnt
  apply countP_lt_of_imp _ _ _ _ a (List.mem_range.2 ha)
  · exact decide_eq_true h
  · exact decide_eq_false (Nat.lt_irrefl _)
  · intro m _ hm
    have := of_decide_eq_true hm
    exact decide_eq_true (by omega)

theorem cnt_lt_size {rk : Nat → Nat} {N n : Nat} (hn : n < N) : cnt rk N n < N := by
  have h1 : cnt rk N n < (List.range N).countP fun _ => true := by
    unfold cnt
    apply countP_lt_of_imp _ _ _ _ n (List.mem_range.2 hn) rfl
    · exact decide_eq_false (Nat.lt_irrefl _)
    · intro _ _ _; rfl
  have h2 : ((List.range N).countP fun _ => true) ≤ (List.range N).length := List.countP_le_length
  rw [List.length_range] at h2
  omega

/-! ## depth -/

/-- running maximum -/
def maxOver (g : Nat → Nat) (l : List Nat) : Nat := l.foldl (fun acc c => max acc (g c)) 0

theorem foldl_max_ge_init (g : Nat → Nat) (l : List Nat) (a : Nat) :
    a ≤ l.foldl (fun acc c => max acc (g c)) a := by
  induction l generalizing a with
  | nil => exact Nat.le_refl _
  | cons x l ih => exact Nat.le_trans (Nat.le_max_left _ _) (ih _)

theorem foldl_max_ge (g : Nat → Nat) (l : List Nat) (a : Nat) {c : Nat} (hc : c ∈ l) :
    g c ≤ l.foldl (fun acc c => max acc (g c)) a := by
  induction l generalizing a with
  | nil => cases hc
  | cons x l ih =>
    rcases List.mem_cons.1 hc with rfl | h
    · exact Nat.le_trans (Nat.le_max_right _ _) (foldl_max_ge_init g l _)
    · exact ih _ h

theorem foldl_max_le (g : Nat → Nat) (l : List Nat) (a B : Nat) (ha : a ≤ B) (h : ∀ c, c ∈ l → g c ≤ B) :
    l.foldl (fun acc c => max acc (g c)) a ≤ B := by
  induction l generalizing a with
  | nil => exact ha
  | cons x l ih =>
    exact ih _ (Nat.max_le.2 ⟨ha, h x (List.mem_cons_self ..)⟩) (fun c hc => h c (List.mem_cons_of_mem _ hc))

theorem maxOver_ge (g : Nat → Nat) {l : List Nat} {c : Nat} (hc : c ∈ l) : g c ≤ maxOver g l :=
  foldl_max_ge g l 0 hc

theorem maxOver_le (g : Nat → Nat) (l : List Nat) (B : Nat) (h : ∀ c, c ∈ l → g c ≤ B) : maxOver g l ≤ B :=
  foldl_max_le g l 0 B (Nat.zero_le _) h

theorem maxOver_congr {g g' : Nat → Nat} {l : List Nat} (h : ∀ c, c ∈ l → g c = g' c) :
    maxOver g l = maxOver g' l := by
  apply Nat.le_antisymm
  · exact maxOver_le g l _ fun c hc => by rw [h c hc]; exact maxOver_ge g' hc
  · exact maxOver_le g' l _ fun c hc => by rw [← h c hc]; exact maxOver_ge g hc

/-- depth with fuel -/
def dpF (s : State) : Nat → Nat → Nat
  | 0, _ => 0
  | f+1, n => maxOver (fun c => dpF s f c + 1) (kids (s.nodeD n).kind)

/-- the depth of `n`: the length of the longest chain of child edges below `n` -/
def dp (s : State) (n : Nat) : Nat := dpF s s.nodes.size n

theorem dpF_succ (s : State) (f n : Nat) :
    dpF s (f + 1) n = maxOver (fun c => dpF s f c + 1) (kids (s.nodeD n).kind) := rfl

/-- more fuel, more edges: not less depth (no acyclicity needed) -/
theorem dpF_mono {s s' : State}
    (hk : ∀ x c, c ∈ kids (s.nodeD x).kind → c ∈ kids (s'.nodeD x).kind) :
    ∀ (f f' m : Nat), f ≤ f' → dpF s f m ≤ dpF s' f' m := by
  intro f
  induction f with
  | zero => intro f' m _; exact Nat.zero_le _
  | succ f ih =>
    intro f' m hf
    obtain ⟨g, rfl⟩ : ∃ g, f' = g + 1 := ⟨f' - 1, by omega⟩
    rw [dpF_succ, dpF_succ]
    refine maxOver_le _ _ _ fun c hc => ?_
    have h1 := ih g c (by omega)
    have h2 : dpF s' g c + 1 ≤ _ := maxOver_ge (fun c => dpF s' g c + 1) (hk m c hc)
    omega

theorem dp_mono {s s' : State}
    (hk : ∀ x c, c ∈ kids (s.nodeD x).kind → c ∈ kids (s'.nodeD x).kind)
    (hsz : s.nodes.size ≤ s'.nodes.size) (m : Nat) : dp s m ≤ dp s' m :=
  dpF_mono hk _ _ m hsz

theorem dp_congr {s s' : State} (hk : ∀ x, (s'.nodeD x).kind = (s.nodeD x).kind)
    (hsz : s'.nodes.size = s.nodes.size) (m : Nat) : dp s' m = dp s m := by
  apply Nat.le_antisymm
  · exact dp_mono (fun x c hc => by rw [← hk x]; exact hc) (by omega) m
  · exact dp_mono (fun x c hc => by rw [hk x]; exact hc) (by omega) m

section ranked
variable {env : Env} {rk : Nat → Nat} {s : State}

theorem kids_nil_of_ge (s : State) {n : Nat} (h : s.nodes.size ≤ n) : kids (s.nodeD n).kind = [] := by
  rw [QR.nodeD_default s n h]; rfl

theorem dpF_le_cnt (A : AllStatic env rk s) : ∀ (f n : Nat), dpF s f n ≤ cnt rk s.nodes.size n := by
  intro f
  induction f with
  | zero => intro n; exact Nat.zero_le _
  | succ f ih =>
    intro n
    rw [dpF_succ]
    by_cases hn : n < s.nodes.size
    · refine maxOver_le _ _ _ fun c hc => ?_
      have h1 := ih c
      have h2 := cnt_lt_cnt (N := s.nodes.size) ((A.node n hn).kidsIn c hc) ((A.node n hn).kidsLt c hc)
      omega
    · rw [kids_nil_of_ge s (by omega)]; exact Nat.zero_le _

/-- the fuel does not matter once it exceeds the rank position -/
theorem dpF_stable (A : AllStatic env rk s) : ∀ (f f' n : Nat), cnt rk s.nodes.size n < f →
    cnt rk s.nodes.size n < f' → dpF s f n = dpF s f' n := by
  intro f
  induction f with
  | zero => intro f' n h; omega
  | succ f ih =>
    intro f' n hf hf'
    obtain ⟨g, rfl⟩ : ∃ g, f' = g + 1 := ⟨f' - 1, by omega⟩
    rw [dpF_succ, dpF_succ]
    by_cases hn : n < s.nodes.size
    · refine maxOver_congr fun c hc => ?_
      have h2 := cnt_lt_cnt (N := s.nodes.size) ((A.node n hn).kidsIn c hc) ((A.node n hn).kidsLt c hc)
      rw [ih g c (by omega) (by omega)]
    · rw [kids_nil_of_ge s (by omega)]; rfl

/-- **the depth strictly decreases along child edges** -/
theorem dp_kid_lt (A : AllStatic env rk s) {n c : Nat} (hn : n < s.nodes.size)
    (hc : c ∈ kids (s.nodeD n).kind) : dp s c < dp s n := by
  unfold dp
  obtain ⟨k, hk⟩ : ∃ k, s.nodes.size = k + 1 := ⟨s.nodes.size - 1, by omega⟩
  have h2 := cnt_lt_cnt (N := s.nodes.size) ((A.node n hn).kidsIn c hc) ((A.node n hn).kidsLt c hc)
  have h3 := cnt_lt_size (rk := rk) hn
  have e : dpF s s.nodes.size c = dpF s k c := dpF_stable A _ _ c (by omega) (by omega)
  rw [e]
  conv => rhs; rw [hk, dpF_succ]
  have : dpF s k c + 1 ≤ _ := maxOver_ge (fun c => dpF s k c + 1) hc
  omega

theorem dp_kid_lt' (A : AllStatic env rk s) {n i c : Nat}
    (hc : (kids (s.nodeD n).kind)[i]? = some c) : dp s c < dp s n := by
  by_cases hn : n < s.nodes.size
  · exact dp_kid_lt A hn (getElem?_mem_kids hc)
  · rw [kids_nil_of_ge s (by omega)] at hc; cases hc

/-- **the depth is below the number of nodes** -/
theorem dp_lt_size (A : AllStatic env rk s) {n : Nat} (hn : n < s.nodes.size) : dp s n < s.nodes.size :=
  Nat.lt_of_le_of_lt (dpF_le_cnt A _ n) (cnt_lt_size hn)

theorem dp_le_size (A : AllStatic env rk s) (n : Nat) : dp s n ≤ s.nodes.size :=
  Nat.le_trans (dpF_le_cnt A _ n) (by
    have : cnt rk s.nodes.size n ≤ (List.range s.nodes.size).length := List.countP_le_length
    rwa [List.length_range] at this)

end ranked

/-! ## the extra invariant -/

/-- closed necessary nodes are not higher than their depth + 1 -/
def HBd (s : State) (op : Nat → Op) : Prop :=
  ∀ m, s.isNecessary m = true → op m = .closed → (s.nodeD m).height ≤ (dp s m : Int) + 1

/-- both heaps have `N + 1` buckets and there are at most `N` nodes -/
structure Room (N : Nat) (s : State) : Prop where
  ahh : s.ahh.maxAllowed = (N : Int)
  rch : s.rch.maxAllowed = (N : Int)
  size : s.nodes.size ≤ N

/-- what the "no panic" argument needs besides `QR.QInv`, for a static (virtual) state -/
structure TInvR (N : Nat) (s : State) : Prop where
  hb : HBd s allClosed
  room : Room N s
  linked : ∀ (c : Nat) (vc : VarCell), s.vars[c]? = some vc → vc.linked = true
  topSize : s.top.size = s.nodes.size
  /-- the observers waiting to be added: no duplicates, each still `created` or already `unlinked` -/
  newNodup : s.newObservers.Nodup
  newState : ∀ (o : Nat) (ob : ObsRec), o ∈ s.newObservers → s.observers[o]? = some ob →
    ob.state = .created ∨ ob.state = .unlinked

theorem Room.of_cframe {N : Nat} {s s' : State} (R : Room N s) (h : CFrame s s') : Room N s' := by
  have hk := h.key
  simp only [stateKey, Prod.mk.injEq] at hk
  have h1 : s'.rch.queues.size = s.rch.queues.size := hk.2.2.2.2.2.2.2.2.2.2.2.2.2.2.1
  have h2 : s'.ahh = s.ahh := hk.2.2.2.2.2.2.2.2.2.2.2.2.2.2.2.1
  exact ⟨by rw [h2]; exact R.ahh, by rw [← R.rch]; simp only [Heap.maxAllowed, h1], by rw [h.size]; exact R.size⟩

theorem Room.of_pframe {N : Nat} {s s' : State} (R : Room N s) (h : PFrame s s') : Room N s' := by
  have hk := h.key
  simp only [stateKeyP, Prod.mk.injEq] at hk
  have h1 : s'.rch.queues.size = s.rch.queues.size := hk.2.2.2.2.2.2.2.2.2.2.1
  have h2 : s'.ahh = s.ahh := hk.2.2.2.2.2.2.2.2.2.2.2.1
  exact ⟨by rw [h2]; exact R.ahh, by rw [← R.rch]; simp only [Heap.maxAllowed, h1], by rw [h.size]; exact R.size⟩

theorem dp_of_cframe {s s' : State} (h : CFrame s s') (m : Nat) : dp s' m = dp s m :=
  dp_congr (fun x => h.kind x) h.size m

theorem dp_of_pframe {s s' : State} (h : PFrame s s') (m : Nat) : dp s' m = dp s m := by
  refine dp_congr (fun x => ?_) h.size m
  have := h.node x
  simp only [nodeKeyP, Prod.mk.injEq] at this
  exact this.1

/-- the bound that the cascades use: a closed necessary child of `n` is low enough for `n` to go on top -/
theorem hbd_kid {env : Env} {rk : Nat → Nat} {s : State} {op : Nat → Op} (A : AllStatic env rk s) (hb : HBd s op)
    {n i c : Nat} (hk : (kids (s.nodeD n).kind)[i]? = some c) (hnec : s.isNecessary c = true)
    (hcl : op c = .closed) : (s.nodeD c).height + 1 ≤ (dp s n : Int) + 1 := by
  have h1 := hb c hnec hcl
  have h2 := dp_kid_lt' A hk
  omega

/-- with room, depth + 1 is a legal height -/
theorem dp_room {env : Env} {rk : Nat → Nat} {N : Nat} {s : State} (A : AllStatic env rk s) (R : Room N s)
    {n : Nat} (hn : n < s.nodes.size) : (dp s n : Int) + 1 ≤ (N : Int) := by
  have h1 := dp_lt_size A hn
  have h2 := R.size
  omega

/-! ## the virtual state -/

theorem dp_virt_kids (s : State) (x : Nat) :
    kids ((virt s).nodeD x).kind = kidsX s.experts (s.nodeD x).kind := virt_kids (s := s) x

end IncrVerif.Proofs.TidyH.XT
