import Lean
import IncrVerif.Proofs.MapOld2
import IncrVerif.Props.C15
/-!
# map_with_old fragment: the machine contract instantiated for the machines of `Defs.toEnv`

* `Canon`: well-formed values (maps are strictly sorted association lists).
* `opSpec d g`: the plain function the incremental-map operator closure `g ≥ opBase` computes.
* `opGood`: every operator closure (`incr_filter_mapi`, `incr_unordered_fold`, `incr_merge`, `incr_partition_mapi`)
  is a `GoodMachine` for its `opSpec`.
* `echoGood`: `echo`, `flag true` and undefined machines are `GoodMachine`s for the identity.
* `valOK_toEnv`: `Canon` is kept by everything `Defs.toEnv` computes.

NOTE (`incr_merge`): on the very first run with two empty inputs the merge closure reports `did_change = false`
(`mergeFirstRun_flag_false`); this is why `GoodMachine.flag` allows `old = none`.
-/
namespace IncrVerif.Proofs.MapOldH
open IncrVerif IncrVerif.Engine IncrVerif.MapOps IncrVerif.Proofs IncrVerif.Proofs.Ops IncrVerif.AMap

/-- well-formed values: maps are strictly sorted association lists -/
def Canon : Val → Prop
  | .map m => AMap.Sorted m
  | .pair a b => Canon a ∧ Canon b
  | _ => True

/-- the plain (non-incremental) function an operator closure of kind `dec.1` with parameter set `dec.2` computes -/
def opSpecK (dec : OpKind × Nat) (d : Defs) (x : Val) : Val :=
  let (kind, m) := dec
  let p := d.opParams m
  match kind with
  | .fm => .map (filterMapSpec (opFmFn p) (asMap x))
  | .fold _ _ => .int (ufoldSpecSum (opG p) p.c (asMap x))
  | .merge => match x with
    | .pair a b => .map (mergeSpec' (opMergeFn p) (asMap a) (asMap b))
    | _ => .map (mergeSpec' (opMergeFn p) [] [])
  | .part => let r := partitionSpec (opPartFn p) (asMap x); .pair (.map r.1) (.map r.2)

/-- the plain (non-incremental) function the operator closure `g` computes.
(Stated through `opSpecK` on `decodeOp g` rather than with `let (kind, m) := decodeOp g` inline: unfolding a `match`
on `decodeOp g` makes the kernel evaluate `g - 1000000` in unary — see `opWithOld_eq`.) -/
def opSpec (d : Defs) (g : Nat) (x : Val) : Val := opSpecK (decodeOp g) d x

/-- what machine `g` of the definitions table computes: operators their spec, `echo`/`flag true`/undefined machines
the identity -/
def machSpec (d : Defs) (g : Nat) : Val → Val := if opBase ≤ g then opSpec d g else id

/-! ## canonical values -/

theorem canon_unit : Canon .unit := by simp [Canon]
theorem canon_int (i : Int) : Canon (.int i) := by simp [Canon]
theorem canon_map {m : List (Int × Int)} : Canon (.map m) ↔ AMap.Sorted m := by simp [Canon]
theorem canon_pair {a b : Val} : Canon (.pair a b) ↔ Canon a ∧ Canon b := by simp [Canon]

theorem canon_asMap {x : Val} (h : Canon x) : AMap.Sorted (asMap x) := by
  cases x with
  | map m => exact canon_map.1 h
  | unit => exact sorted_nil
  | int i => exact sorted_nil
  | pair a b => exact sorted_nil

/-- the two inputs of the merge closure -/
def mergeIn (x : Val) : AMap Int × AMap Int := match x with | .pair a b => (asMap a, asMap b) | _ => ([], [])

theorem canon_mergeIn {x : Val} (h : Canon x) : AMap.Sorted (mergeIn x).1 ∧ AMap.Sorted (mergeIn x).2 := by
  cases x with
  | pair a b => exact ⟨canon_asMap (canon_pair.1 h).1, canon_asMap (canon_pair.1 h).2⟩
  | unit => exact ⟨sorted_nil, sorted_nil⟩
  | int i => exact ⟨sorted_nil, sorted_nil⟩
  | map m => exact ⟨sorted_nil, sorted_nil⟩

theorem partitionSpec_sorted (f : Int → Int → Either) (m : AMap Int) (hm : AMap.Sorted m) :
    AMap.Sorted (partitionSpec f m).1 ∧ AMap.Sorted (partitionSpec f m).2 := by
  rw [partitionSpec_eq]
  exact ⟨filterMapSpec_sorted _ m hm, filterMapSpec_sorted _ m hm⟩

/-! ## `opSpec`, by kind -/

theorem opSpec_def (d : Defs) (g : Nat) (x : Val) : opSpec d g x = opSpecK (decodeOp g) d x := rfl

theorem opSpec_fm (d : Defs) (g m : Nat) (h : decodeOp g = (.fm, m)) (x : Val) :
    opSpec d g x = .map (filterMapSpec (opFmFn (d.opParams m)) (asMap x)) := by
  rw [opSpec_def, h]; rfl

theorem opSpec_fold (d : Defs) (g m : Nat) (rev upd : Bool) (h : decodeOp g = (.fold rev upd, m)) (x : Val) :
    opSpec d g x = .int (ufoldSpecSum (opG (d.opParams m)) (d.opParams m).c (asMap x)) := by
  rw [opSpec_def, h]; rfl

theorem opSpec_merge (d : Defs) (g m : Nat) (h : decodeOp g = (.merge, m)) (x : Val) :
    opSpec d g x = .map (mergeSpec' (opMergeFn (d.opParams m)) (mergeIn x).1 (mergeIn x).2) := by
  rw [opSpec_def, h]
  cases x <;> rfl

theorem opSpec_part (d : Defs) (g m : Nat) (h : decodeOp g = (.part, m)) (x : Val) :
    opSpec d g x = .pair (.map (partitionSpec (opPartFn (d.opParams m)) (asMap x)).1)
      (.map (partitionSpec (opPartFn (d.opParams m)) (asMap x)).2) := by
  rw [opSpec_def, h]; rfl

theorem canon_opSpec (d : Defs) (g : Nat) (x : Val) (hx : Canon x) : Canon (opSpec d g x) := by
  rcases h : decodeOp g with ⟨kind, m⟩
  cases kind with
  | fm => rw [opSpec_fm d g m h]; exact canon_map.2 (filterMapSpec_sorted _ _ (canon_asMap hx))
  | fold rev upd => rw [opSpec_fold d g m rev upd h]; exact canon_int _
  | merge =>
    rw [opSpec_merge d g m h]
    exact canon_map.2 (mergeSpec'_sorted _ _ _ (canon_mergeIn hx).1 (canon_mergeIn hx).2)
  | part =>
    rw [opSpec_part d g m h]
    have := partitionSpec_sorted (opPartFn (d.opParams m)) (asMap x) (canon_asMap hx)
    exact canon_pair.2 ⟨canon_map.2 this.1, canon_map.2 this.2⟩

/-! ## step-level contracts of the four closures -/

theorem fm_core (f : Int → Int → Option Int) (old : Option (AMap Int × AMap Int)) (hinv : FMInv f old)
    (m : AMap Int) (hm : AMap.Sorted m) :
    (filterMapiStep f old m).1 = filterMapSpec f m ∧
    ((filterMapiStep f old m).2.1 = false → ∃ a, old = some (a, filterMapSpec f m)) := by
  refine ⟨filterMapiStep_out f old hinv m hm, ?_⟩
  intro hf
  rcases old with _ | ⟨a, o⟩
  · rw [filterMapiStep_none] at hf; cases hf
  · obtain ⟨ha, ho⟩ := hinv
    obtain ⟨-, e, -⟩ := filterMapiStep_flag_false f a o m ha hm hf
    exact ⟨a, by rw [ho, e]⟩

theorem uf_core {ρ : Type} (u : UFold ρ) (spec : AMap Int → ρ) (init : ρ)
    (old : Option (AMap Int × ρ))
    (hinv : ∀ a o, old = some (a, o) → AMap.Sorted a ∧ o = spec a)
    (m : AMap Int) (hm : AMap.Sorted m) :
    (ufoldStep u init old m).2.1 = false → ∃ a, old = some (a, spec m) := by
  intro hf
  rcases old with _ | ⟨a, o⟩
  · rw [ufoldStep_none] at hf; cases hf
  · obtain ⟨ha, ho⟩ := hinv a o rfl
    have e := ufoldStep_flag_false u init a m o ha hm hf
    exact ⟨a, by rw [ho, e]⟩

theorem opUFold_laws (p : OpParams) (upd rev : Bool) : UFoldLaws (opUFold p upd rev) := by
  cases upd
  · exact sumLaws_plain (opG p) rev
  · exact sumLaws (opG p) _ (fun _ _ _ => rfl) (fun _ _ _ => rfl) (fun _ _ _ _ => rfl)

theorem opUFold_spec (p : OpParams) (upd rev : Bool) (init : Int) (m : AMap Int) :
    ufoldSpec (opUFold p upd rev) init m = ufoldSpecSum (opG p) init m := by
  cases upd
  · exact ufoldSpec_sum (opG p) _ (fun _ _ _ => rfl) init m
  · exact ufoldSpec_sum (opG p) _ (fun _ _ _ => rfl) init m

theorem mergeStep_getD (f : Int → MergeArg → Option Int) (old : Option (AMap Int × AMap Int × AMap Int))
    (nl nr : AMap Int) : mergeStep f old nl nr = mergeStep f (some (mergeOld old)) nl nr := by
  cases old <;> rfl

theorem merge_core (f : Int → MergeArg → Option Int) (old : Option (AMap Int × AMap Int × AMap Int))
    (hinv : Ops.MInv f old) (nl nr : AMap Int) (hl : AMap.Sorted nl) (hr : AMap.Sorted nr) :
    (mergeStep f old nl nr).1 = mergeSpec' f nl nr ∧
    ((mergeStep f old nl nr).2.1 = false → (mergeOld old).2.2 = mergeSpec' f nl nr) := by
  refine ⟨mergeStep_out f old hinv nl nr hl hr, ?_⟩
  intro hf
  rw [mergeStep_getD] at hf
  obtain ⟨h1, h2, h3⟩ := hinv
  obtain ⟨e1, e2⟩ := mergeStep_flag_false f (mergeOld old).1 (mergeOld old).2.1 (mergeOld old).2.2 nl nr h1 h2 hl hr hf
  rw [h3, e1, e2]

/-- the merge closure on a fresh node with two empty inputs reports "no change" -/
theorem mergeFirstRun_flag_false (f : Int → MergeArg → Option Int) : mergeStep f none [] [] = ([], false, []) := rfl

/-! ## `opWithOld` as a function of `decodeOp g`

`opWithOld d g σ old x` is `match decodeOp g with | (kind, m) => …`.  Unfolding it the usual way (`unfold`, `simp only
[opWithOld]`, `delta`) makes the kernel compare `opWithOld d g σ old x` with the `match`, for which it evaluates the
discriminant `decodeOp g`, i.e. `g - 1000000` with `g` a variable, in unary: "deep recursion detected" (and the
elaborator loops the same way).  So the body is exposed by comparing the *unapplied* constant with its own value, which
the kernel does by unfolding the constant only; `decodeOp g` is then generalised before anything is reduced. -/

open Lean Elab Term Meta in
/-- the value of a (universe-monomorphic) definition, as a term -/
elab "body_of% " id:ident : term => do
  let c ← realizeGlobalConstNoOverloadWithInfo id
  match (← getEnv).find? c with
  | some (.defnInfo info) => return info.value
  | _ => throwError "not a definition"

theorem opWithOld_body : @opWithOld = body_of% opWithOld := rfl

/-- `opWithOld` with the decoded machine id as an argument (a copy of the source of `opWithOld`) -/
def opW (dec : OpKind × Nat) (d : Defs) (σ : Val) (old : Option Val) (x : Val) : Val × Val × Bool :=
  let (kind, m) := dec
  let p := d.opParams m
  match kind with
  | .fm =>
    let oldPair := match σ, old with
      | .map oi, some (.map oo) => some (oi, oo)
      | _, _ => none
    let r := IncrVerif.MapOps.filterMapiStep (opFmFn p) oldPair (asMap x)
    (x, .map r.1, r.2.1)
  | .fold rev upd =>
    let oldPair := match σ, old with
      | .map oi, some (.int oo) => some (oi, oo)
      | _, _ => none
    let r := IncrVerif.MapOps.ufoldStep (opUFold p upd rev) p.c oldPair (asMap x)
    (x, .int r.1, r.2.1)
  | .merge =>
    let (nl, nr) := match x with | .pair a b => (asMap a, asMap b) | _ => ([], [])
    let oldT := match σ, old with
      | .pair ol orr, some (.map oo) => some (asMap ol, asMap orr, oo)
      | _, _ => none
    let r := IncrVerif.MapOps.mergeStep (opMergeFn p) oldT nl nr
    (x, .map r.1, r.2.1)
  | .part =>
    let oldPair := match σ, old with
      | .map oi, some (.pair (.map l) (.map rr)) => some (oi, (l, rr))
      | _, _ => none
    let r := IncrVerif.MapOps.ufoldStep (IncrVerif.MapOps.partitionUFold (opPartFn p)) ([], []) oldPair (asMap x)
    (x, .pair (.map r.1.1) (.map r.1.2), r.2.1)

theorem opWithOld_eq (d : Defs) (g : Nat) (σ : Val) (old : Option Val) (x : Val) :
    opWithOld d g σ old x = opW (decodeOp g) d σ old x := by
  have := congrFun (congrFun (congrFun (congrFun (congrFun opWithOld_body d) g) σ) old) x
  rw [this]
  clear this
  generalize decodeOp g = dec
  rcases dec with ⟨kind, m⟩
  cases kind <;> rfl

/-! ## the closures, by kind -/

/-- how the closures read their state: (closure state, stored value) ↦ (previous input, previous output) -/
def fmOld (σ : Val) (old : Option Val) : Option (AMap Int × AMap Int) :=
  match σ, old with
  | .map oi, some (.map oo) => some (oi, oo)
  | _, _ => none

def foldOld (σ : Val) (old : Option Val) : Option (AMap Int × Int) :=
  match σ, old with
  | .map oi, some (.int oo) => some (oi, oo)
  | _, _ => none

def mergeOldT (σ : Val) (old : Option Val) : Option (AMap Int × AMap Int × AMap Int) :=
  match σ, old with
  | .pair ol orr, some (.map oo) => some (asMap ol, asMap orr, oo)
  | _, _ => none

def partOld (σ : Val) (old : Option Val) : Option (AMap Int × (AMap Int × AMap Int)) :=
  match σ, old with
  | .map oi, some (.pair (.map l) (.map rr)) => some (oi, (l, rr))
  | _, _ => none

theorem opW_fm (m : Nat) (d : Defs) (σ : Val) (old : Option Val) (x : Val) :
    opW (.fm, m) d σ old x =
      (x, .map (filterMapiStep (opFmFn (d.opParams m)) (fmOld σ old) (asMap x)).1,
        (filterMapiStep (opFmFn (d.opParams m)) (fmOld σ old) (asMap x)).2.1) := rfl

theorem opW_fold (rev upd : Bool) (m : Nat) (d : Defs) (σ : Val) (old : Option Val) (x : Val) :
    opW (.fold rev upd, m) d σ old x =
      (x, .int (ufoldStep (opUFold (d.opParams m) upd rev) (d.opParams m).c (foldOld σ old) (asMap x)).1,
        (ufoldStep (opUFold (d.opParams m) upd rev) (d.opParams m).c (foldOld σ old) (asMap x)).2.1) := rfl

theorem opW_merge (m : Nat) (d : Defs) (σ : Val) (old : Option Val) (x : Val) :
    opW (.merge, m) d σ old x =
      (x, .map (mergeStep (opMergeFn (d.opParams m)) (mergeOldT σ old) (mergeIn x).1 (mergeIn x).2).1,
        (mergeStep (opMergeFn (d.opParams m)) (mergeOldT σ old) (mergeIn x).1 (mergeIn x).2).2.1) := by
  cases x <;> rfl

theorem opW_part (m : Nat) (d : Defs) (σ : Val) (old : Option Val) (x : Val) :
    opW (.part, m) d σ old x =
      (x, .pair (.map (ufoldStep (partitionUFold (opPartFn (d.opParams m))) ([], []) (partOld σ old) (asMap x)).1.1)
          (.map (ufoldStep (partitionUFold (opPartFn (d.opParams m))) ([], []) (partOld σ old) (asMap x)).1.2),
        (ufoldStep (partitionUFold (opPartFn (d.opParams m))) ([], []) (partOld σ old) (asMap x)).2.1) := rfl

theorem opSpecK_fm (m : Nat) (d : Defs) (x : Val) :
    opSpecK (.fm, m) d x = .map (filterMapSpec (opFmFn (d.opParams m)) (asMap x)) := rfl
theorem opSpecK_fold (rev upd : Bool) (m : Nat) (d : Defs) (x : Val) :
    opSpecK (.fold rev upd, m) d x = .int (ufoldSpecSum (opG (d.opParams m)) (d.opParams m).c (asMap x)) := rfl
theorem opSpecK_merge (m : Nat) (d : Defs) (x : Val) :
    opSpecK (.merge, m) d x = .map (mergeSpec' (opMergeFn (d.opParams m)) (mergeIn x).1 (mergeIn x).2) := by
  cases x <;> rfl
theorem opSpecK_part (m : Nat) (d : Defs) (x : Val) :
    opSpecK (.part, m) d x = .pair (.map (partitionSpec (opPartFn (d.opParams m)) (asMap x)).1)
      (.map (partitionSpec (opPartFn (d.opParams m)) (asMap x)).2) := rfl

/-- the closure state is the previous input, the stored value its spec -/
def StK (spec : Val → Val) (σ : Val) (old : Option Val) : Prop :=
  (σ = .unit ∧ old = none) ∨ (Canon σ ∧ old = some (spec σ))

theorem fmOld_inv (f : Int → Int → Option Int) (σ : Val) (old : Option Val)
    (hst : StK (fun x => .map (filterMapSpec f (asMap x))) σ old) :
    FMInv f (fmOld σ old) ∧ ∀ a o, fmOld σ old = some (a, o) → old = some (.map o) := by
  rcases hst with ⟨rfl, rfl⟩ | ⟨hc, rfl⟩
  · exact ⟨trivial, fun a o h => by cases h⟩
  · cases σ with
    | map m0 => exact ⟨⟨canon_map.1 hc, rfl⟩, fun a o h => by cases h; rfl⟩
    | unit => exact ⟨trivial, fun a o h => by cases h⟩
    | int i => exact ⟨trivial, fun a o h => by cases h⟩
    | pair a b => exact ⟨trivial, fun a o h => by cases h⟩

theorem foldOld_inv (u : UFold Int) (init : Int) (spec : AMap Int → Int) (hspec : ∀ a, spec a = ufoldSpec u init a)
    (σ : Val) (old : Option Val) (hst : StK (fun x => .int (spec (asMap x))) σ old) :
    UFInv u init (foldOld σ old) ∧ ∀ a o, foldOld σ old = some (a, o) → old = some (.int o) := by
  rcases hst with ⟨rfl, rfl⟩ | ⟨hc, rfl⟩
  · exact ⟨trivial, fun a o h => by cases h⟩
  · cases σ with
    | map m0 => exact ⟨⟨canon_map.1 hc, hspec m0⟩, fun a o h => by cases h; rfl⟩
    | unit => exact ⟨trivial, fun a o h => by cases h⟩
    | int i => exact ⟨trivial, fun a o h => by cases h⟩
    | pair a b => exact ⟨trivial, fun a o h => by cases h⟩

theorem partOld_inv (f : Int → Int → Either) (σ : Val) (old : Option Val)
    (hst : StK (fun x => .pair (.map (partitionSpec f (asMap x)).1) (.map (partitionSpec f (asMap x)).2)) σ old) :
    PInv f (partOld σ old) ∧ ∀ a o, partOld σ old = some (a, o) → old = some (.pair (.map o.1) (.map o.2)) := by
  rcases hst with ⟨rfl, rfl⟩ | ⟨hc, rfl⟩
  · exact ⟨trivial, fun a o h => by cases h⟩
  · cases σ with
    | map m0 => exact ⟨⟨canon_map.1 hc, rfl⟩, fun a o h => by cases h; rfl⟩
    | unit => exact ⟨trivial, fun a o h => by cases h⟩
    | int i => exact ⟨trivial, fun a o h => by cases h⟩
    | pair a b => exact ⟨trivial, fun a o h => by cases h⟩

theorem mergeOldT_inv (f : Int → MergeArg → Option Int) (σ : Val) (old : Option Val)
    (hst : StK (fun x => .map (mergeSpec' f (mergeIn x).1 (mergeIn x).2)) σ old) :
    Ops.MInv f (mergeOldT σ old) ∧ (old = none ∨ old = some (.map (mergeOld (mergeOldT σ old)).2.2)) := by
  rcases hst with ⟨rfl, rfl⟩ | ⟨hc, rfl⟩
  · exact ⟨MInv_none _, .inl rfl⟩
  · cases σ with
    | pair a b =>
      exact ⟨⟨canon_asMap (canon_pair.1 hc).1, canon_asMap (canon_pair.1 hc).2, rfl⟩, .inr rfl⟩
    | unit => exact ⟨MInv_none _, .inr rfl⟩
    | int i => exact ⟨MInv_none _, .inr rfl⟩
    | map m0 => exact ⟨MInv_none _, .inr rfl⟩

/-- one step of an operator closure (kind `kind`, parameter set `m`) from a state satisfying `StK` -/
theorem opW_step (kind : OpKind) (m : Nat) (d : Defs) (σ : Val) (old : Option Val)
    (hst : StK (opSpecK (kind, m) d) σ old) (x : Val) (hx : Canon x) :
    (opW (kind, m) d σ old x).1 = x ∧ (opW (kind, m) d σ old x).2.1 = opSpecK (kind, m) d x ∧
    ((opW (kind, m) d σ old x).2.2 = false → old = none ∨ old = some (opSpecK (kind, m) d x)) := by
  have hxs := canon_asMap hx
  cases kind with
  | fm =>
    rw [opW_fm, opSpecK_fm]
    have hinv := fmOld_inv (opFmFn (d.opParams m)) σ old hst
    obtain ⟨h1, h2⟩ := fm_core (opFmFn (d.opParams m)) (fmOld σ old) hinv.1 (asMap x) hxs
    refine ⟨rfl, congrArg Val.map h1, ?_⟩
    intro hf
    obtain ⟨a, ha⟩ := h2 hf
    exact .inr (hinv.2 a _ ha)
  | fold rev upd =>
    rw [opW_fold, opSpecK_fold]
    have hinv := foldOld_inv (opUFold (d.opParams m) upd rev) (d.opParams m).c
      (ufoldSpecSum (opG (d.opParams m)) (d.opParams m).c) (fun a => (opUFold_spec _ _ _ _ a).symm) σ old hst
    have h1 := ufoldStep_out (opUFold (d.opParams m) upd rev) (opUFold_laws _ _ _) (d.opParams m).c
      (foldOld σ old) hinv.1 (asMap x) hxs
    rw [opUFold_spec] at h1
    refine ⟨rfl, congrArg Val.int h1, ?_⟩
    intro hf
    obtain ⟨a, ha⟩ := uf_core (opUFold (d.opParams m) upd rev)
      (ufoldSpec (opUFold (d.opParams m) upd rev) (d.opParams m).c) (d.opParams m).c (foldOld σ old)
      (by intro a o e; rw [e] at hinv; exact hinv.1) (asMap x) hxs hf
    rw [hinv.2 a _ ha, opUFold_spec]
    exact .inr rfl
  | merge =>
    rw [opW_merge, opSpecK_merge]
    have hst' : StK (fun x => .map (mergeSpec' (opMergeFn (d.opParams m)) (mergeIn x).1 (mergeIn x).2)) σ old := by
      rcases hst with h | ⟨hc, h⟩
      · exact .inl h
      · exact .inr ⟨hc, by rw [h, opSpecK_merge]⟩
    have hinv := mergeOldT_inv (opMergeFn (d.opParams m)) σ old hst'
    obtain ⟨h1, h2⟩ := merge_core (opMergeFn (d.opParams m)) (mergeOldT σ old) hinv.1 (mergeIn x).1 (mergeIn x).2
      (canon_mergeIn hx).1 (canon_mergeIn hx).2
    refine ⟨rfl, congrArg Val.map h1, ?_⟩
    intro hf
    rcases hinv.2 with e | e
    · exact .inl e
    · rw [e, h2 hf]; exact .inr rfl
  | part =>
    rw [opW_part, opSpecK_part]
    have hinv := partOld_inv (opPartFn (d.opParams m)) σ old hst
    have h1 := partitionStep_out (opPartFn (d.opParams m)) (partOld σ old) hinv.1 (asMap x) hxs
    refine ⟨rfl, by rw [h1], ?_⟩
    intro hf
    obtain ⟨a, ha⟩ := uf_core (partitionUFold (opPartFn (d.opParams m)))
      (partitionSpec (opPartFn (d.opParams m))) ([], []) (partOld σ old)
      (by intro a o e; rw [e] at hinv; exact hinv.1) (asMap x) hxs hf
    exact .inr (hinv.2 a _ ha)

/-! ## the reachable states of an operator closure -/

/-- the closure state is the previous input, the stored value its spec -/
def OpSt (d : Defs) (g : Nat) (σ : Val) (old : Option Val) : Prop := StK (opSpec d g) σ old

theorem opSt_iff (d : Defs) (g : Nat) (σ : Val) (old : Option Val) :
    OpSt d g σ old ↔ (σ = .unit ∧ old = none) ∨ (Canon σ ∧ old = some (opSpec d g σ)) := Iff.rfl

theorem opSpec_fun (d : Defs) (g : Nat) : opSpec d g = opSpecK (decodeOp g) d :=
  funext fun x => opSpec_def d g x

/-- one step of an operator closure from a state satisfying `OpSt` -/
theorem op_step (d : Defs) (g : Nat) (σ : Val) (old : Option Val) (hst : OpSt d g σ old) (x : Val) (hx : Canon x) :
    (opWithOld d g σ old x).1 = x ∧ (opWithOld d g σ old x).2.1 = opSpec d g x ∧
    ((opWithOld d g σ old x).2.2 = false → old = none ∨ old = some (opSpec d g x)) := by
  rw [OpSt, opSpec_fun] at hst
  rw [opWithOld_eq, opSpec_def]
  generalize decodeOp g = dec at hst ⊢
  rcases dec with ⟨kind, m⟩
  exact opW_step kind m d σ old hst x hx

theorem toEnv_withOld_op (d : Defs) (g : Nat) (hg : opBase ≤ g) (σ : Val) (old : Option Val) (x : Val) :
    d.toEnv.withOld g σ old x = opWithOld d g σ old x := by
  simp only [Defs.toEnv, ge_iff_le, hg, if_true]

/-- every reachable state of an operator closure: fresh, or (previous input, its spec) -/
theorem opReach (d : Defs) (g : Nat) (hg : opBase ≤ g) (σ : Val) (old : Option Val)
    (h : MReach d.toEnv Canon g σ old) : OpSt d g σ old := by
  induction h with
  | init => exact (opSt_iff ..).2 (.inl ⟨rfl, rfl⟩)
  | step hr hx ih =>
    rename_i σ old x
    rw [toEnv_withOld_op d g hg]
    obtain ⟨h1, h2, -⟩ := op_step d g σ old ih x hx
    rw [h1, h2]
    exact (opSt_iff ..).2 (.inr ⟨hx, rfl⟩)

/-- **the operator closures satisfy the machine contract** -/
theorem opGood (d : Defs) (g : Nat) (hg : opBase ≤ g) : GoodMachine d.toEnv Canon g (opSpec d g) where
  out := by
    intro σ old hr x hx
    rw [toEnv_withOld_op d g hg]
    exact (op_step d g σ old (opReach d g hg σ old hr) x hx).2.1
  flag := by
    intro σ old hr x hx
    rw [toEnv_withOld_op d g hg]
    exact (op_step d g σ old (opReach d g hg σ old hr) x hx).2.2

/-- the closure state of an operator after a step is its input -/
theorem opState (d : Defs) (g : Nat) (hg : opBase ≤ g) (σ : Val) (old : Option Val) (x : Val) :
    (d.toEnv.withOld g σ old x).1 = x := by
  rw [toEnv_withOld_op d g hg]
  rcases h : decodeOp g with ⟨kind, m⟩
  rw [opWithOld_eq, h]
  cases kind <;> rfl

/-! ## the simple machines -/

theorem echoGood (d : Defs) (g : Nat) (hg : g < opBase)
    (h : d.olds.lookup g = some .echo ∨ d.olds.lookup g = some (.flag true) ∨ d.olds.lookup g = none) :
    GoodMachine d.toEnv Canon g id := by
  have hng : ¬ g ≥ opBase := by omega
  constructor
  · intro σ old _ x _
    rcases h with h | h | h <;> simp only [Defs.toEnv, hng, if_false, h] <;> rfl
  · intro σ old _ x _
    rcases h with h | h | h <;> simp only [Defs.toEnv, hng, if_false, h]
    · intro hf
      right
      simpa using hf
    · intro hf; cases hf
    · intro hf; cases hf

/-! ## `Canon` is kept by everything `Defs.toEnv` computes -/

theorem canon_headD (vals : List Val) (h : ∀ v, v ∈ vals → Canon v) : Canon (vals.headD .unit) := by
  cases vals with
  | nil => exact canon_unit
  | cons a as => exact h a (List.mem_cons_self ..)

theorem valOK_toEnv (d : Defs) : ValOK d.toEnv Canon (machSpec d) where
  fn := by
    intro f vals h
    simp only [Defs.toEnv]
    split
    · split
      · rename_i a b
        exact canon_pair.2 ⟨h a (by simp), h b (by simp)⟩
      · exact canon_unit
    · split
      · exact canon_headD vals h
      · split
        · exact canon_headD vals h
        · split
          · exact canon_int _
          · exact canon_int _
  fold := by
    intro f acc x ha _
    simp only [Defs.toEnv]
    split
    · exact canon_int _
    · exact ha
  int := canon_int
  pair := fun _ _ ha hb => canon_pair.2 ⟨ha, hb⟩
  spec := by
    intro g x hx
    unfold machSpec
    split
    · exact canon_opSpec d g x hx
    · exact hx

/-- every operator closure, `echo`, `flag true` and undefined machine is `Good` for `machSpec` -/
theorem machGood (d : Defs) (g : Nat)
    (h : opBase ≤ g ∨ d.olds.lookup g = some .echo ∨ d.olds.lookup g = some (.flag true) ∨ d.olds.lookup g = none) :
    Good d.toEnv Canon (machSpec d) g := by
  unfold Good machSpec
  by_cases hg : opBase ≤ g
  · rw [if_pos hg]; exact opGood d g hg
  · rw [if_neg hg]
    rcases h with h | h
    · exact absurd h hg
    · exact echoGood d g (by omega) h

/-- `opSpec` is the function written with the decoding inline -/
theorem opSpec_eq_inline (d : Defs) (g : Nat) (x : Val) :
    opSpec d g x =
      (let (kind, m) := decodeOp g
       let p := d.opParams m
       match kind with
       | .fm => .map (filterMapSpec (opFmFn p) (asMap x))
       | .fold _ _ => .int (ufoldSpecSum (opG p) p.c (asMap x))
       | .merge => match x with
         | .pair a b => .map (mergeSpec' (opMergeFn p) (asMap a) (asMap b))
         | _ => .map (mergeSpec' (opMergeFn p) [] [])
       | .part => let r := partitionSpec (opPartFn p) (asMap x); .pair (.map r.1) (.map r.2)) := by
  rw [opSpec_def]
  generalize decodeOp g = dec
  rcases dec with ⟨kind, m⟩
  cases kind <;> rfl

/-! ## non-vacuity: concrete runs -/

/-- parameters `a = 2, b = 1, m = 3, r = 0, c = 5` for operator family `M0` -/
def exDefs : Defs := { mfns := [(0, [2, 1, 3, 0, 5])], olds := [(7, .echo)] }

-- `incr_filter_mapi`, first run: the spec, flag `true`
example : exDefs.toEnv.withOld opBase .unit none (.map [(1, 1), (2, 1), (4, 4)]) =
    (.map [(1, 1), (2, 1), (4, 4)], .map [(1, 3), (4, 5)], true) := by decide
example : opSpec exDefs opBase (.map [(1, 1), (2, 1), (4, 4)]) = .map [(1, 3), (4, 5)] := by decide
-- second run on a changed input, incremental: the spec again, flag `true`
example : exDefs.toEnv.withOld opBase (.map [(1, 1), (2, 1), (4, 4)]) (some (.map [(1, 3), (4, 5)]))
    (.map [(1, 1), (2, 2), (4, 4)]) = (.map [(1, 1), (2, 2), (4, 4)], .map [(1, 3), (2, 6), (4, 5)], true) := by
  decide
-- same input again: flag `false`, same output
example : (exDefs.toEnv.withOld opBase (.map [(1, 1), (2, 1), (4, 4)]) (some (.map [(1, 3), (4, 5)]))
    (.map [(1, 1), (2, 1), (4, 4)])).2 = (.map [(1, 3), (4, 5)], false) := by decide
-- `incr_unordered_fold` (custom update, revert): 5 + (2*1+1) + (2*1+2) + (2*4+4)
example : exDefs.toEnv.withOld (opBase + 130000) .unit none (.map [(1, 1), (2, 1), (4, 4)]) =
    (.map [(1, 1), (2, 1), (4, 4)], .int 24, true) := by decide
-- `incr_merge`: the first run on two empty maps flags `false` (old = none): why `GoodMachine.flag` allows `old = none`
example : exDefs.toEnv.withOld (opBase + 200000) .unit none (.pair (.map []) (.map [])) =
    (.pair (.map []) (.map []), .map [], false) := by decide
example : exDefs.toEnv.withOld (opBase + 200000) .unit none (.pair (.map [(1, 2)]) (.map [(1, 3), (2, 5)])) =
    (.pair (.map [(1, 2)]) (.map [(1, 3), (2, 5)]), .map [(1, 5), (2, 3)], true) := by decide
-- `incr_partition_mapi`
example : (exDefs.toEnv.withOld (opBase + 300000) .unit none (.map [(1, 1), (2, 1), (4, 4)])).2 =
    (.pair (.map [(2, 1)]) (.map [(1, 2), (4, 5)]), true) := by decide
-- the `echo` machine
example : exDefs.toEnv.withOld 7 .unit (some (.int 3)) (.int 3) = (.unit, .int 3, false) := by decide

end IncrVerif.Proofs.MapOldH
