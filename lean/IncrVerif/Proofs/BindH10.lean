import IncrVerif.Proofs.BindH9
/-!
# Binds, BS2: `maybe_change_value` on a necessary node of a graph with binds (`mcv_stepB`, the port of
`Sched.mcv_static`), producing `StepRelB`
-/
namespace IncrVerif.Proofs.BindH
open IncrVerif.Engine IncrVerif.Proofs IncrVerif.Proofs.Step IncrVerif.Proofs.Sched
namespace BS

/-- assembling `StepRelB` from a state `X` of the `Upd` family and notification work after it -/
theorem stepRelB_of_quiet {env : Env} {n : Nat} {v : Val} {ch : Bool} {r : Option Nat} {s X s' : State}
    (g : BGraph env s) (hU : Upd n s X) (hb : X.binds = s.binds) (q : Quiet X s')
    (hv : (X.nodeD n).value = some v) (hr : (X.nodeD n).recomputedAt = s.stabNum)
    (hc : (X.nodeD n).changedAt = if ch = true then s.stabNum else (s.nodeD n).changedAt)
    (unch : ch = false → (s.nodeD n).value = some v ∧ r = none)
    (heap : HeapInv s') (hqs : s'.rch.queues.size = X.rch.queues.size)
    (newIn : ∀ m, (s'.nodeD m).inRch = true →
      (X.nodeD m).inRch = true ∨ (ch = true ∧ m ∈ (s.nodeD n).parents.map (·.1)))
    (parentsIn : ch = true → ∀ p, p ∈ (s.nodeD n).parents.map (·.1) →
      (s'.nodeD p).inRch = true ∨ r = some p)
    (ret : ∀ p, r = some p → ch = true ∧ p ∈ (s.nodeD n).parents.map (·.1) ∧
      (s'.nodeD p).inRch = false ∧
      ∃ minH, CanOK X n p minH ∧ ∀ m, (s'.nodeD m).inRch = true → minH ≤ (X.nodeD m).height) :
    StepRelB n v ch r s s' where
  size := q.size.trans hU.size
  vars := q.vars.trans hU.vars
  binds := q.binds.trans hb
  stabNum := q.stabNum.trans hU.stabNum
  pc := q.pc hU.pc
  qsize := by rw [hqs, hU.rch]
  other m hm := by have := q.node m; rw [hU.other m hm] at this; exact this
  shape := hU.shape.trans (SameShape.of_nodeSame (q.node n))
  value := (q.node n).value.trans hv
  recomputedAt := (q.node n).recomputedAt.trans hr
  changedAt := (q.node n).changedAt.trans hc
  unch := unch
  heap := heap
  newIn m hm := by
    rcases newIn m hm with h | h
    · left; rw [← hU.inRch m]; exact h
    · exact Or.inr h
  parentsIn := parentsIn
  ret p hp := by
    obtain ⟨h1, h2, h3, minH, hcan, hle⟩ := ret p hp
    refine ⟨h1, h2, h3, ?_⟩
    have hcan' : CanOK s n p minH :=
      CanOK.congr (fun m => ((hU.shapeAll m).kind).symm) (fun m => ((hU.shapeAll m).createdIn).symm)
        (fun m => ((hU.shapeAll m).height).symm) hb.symm hcan
    refine handOK_of_can g h2 hcan' fun m hm => ?_
    have := hle m hm
    rw [(hU.shapeAll m).height] at this
    exact this

/-- the common part: `maybe_change_value n v` run in a state `S0` that is `s` with `n`'s `recomputedAt` stamped
(and log/counters moved) -/
theorem mcv_stepB {env : Env} {fuel n : Nat} {v : Val} {s S0 s' : State} {r : Option Nat}
    (g : BGraph env s) (hi : HeapInv s) (hn : s.isNecessary n = true)
    (hU : Upd n s S0) (hb : S0.binds = s.binds) (hval : (S0.nodeD n).value = (s.nodeD n).value)
    (hrec : (S0.nodeD n).recomputedAt = s.stabNum)
    (hch : (S0.nodeD n).changedAt = (s.nodeD n).changedAt)
    (h : (maybeChangeValue env fuel n v).run.run S0 = (.ok r, s')) :
    ∃ ch, StepRelB n v ch r s s' := by
  have hlt := nec_lt hn
  obtain ⟨_, hcut, _⟩ := g.node n hlt (g.nec n hn).1
  have hlt0 : n < S0.nodes.size := by rw [hU.size]; exact hlt
  have hn0 := some_of_lt hlt0
  have hcut0 : (S0.nodeD n).cutoff = .eq ∨ (S0.nodeD n).cutoff = .never := by
    rw [hU.shape.cutoff]; exact hcut
  -- the state with the new value stored
  generalize hW : setValue n (some v) (logged (mcvLog env S0 n v) S0) = W
  have hUW : Upd n s W := by rw [← hW]; exact (hU.logged _).setValue _
  have hbW : W.binds = s.binds := by rw [← hW]; exact hb
  have eW : W.nodeD n = { S0.nodeD n with value := some v } := by
    rw [← hW, setValue_nodeD, if_pos ⟨rfl, hlt0⟩]; rfl
  rcases mcvChanges_static env S0 n v hcut0 with hd | ⟨hd, hold⟩
  · -- propagate
    rw [mcv_run' env fuel n v S0 _ hn0 hU.pc, hd] at h
    dsimp only at h
    rw [hW] at h
    have hltW : n < W.nodes.size := by rw [hUW.size]; exact hlt
    have q : Quiet (touched n W) s' := mcvm_true_quiet _ _ _ _ _ _ _ _ h
    have hUT : Upd n s (touched n W) := hUW.touched
    have hbT : (touched n W).binds = s.binds := hbW
    have eT : (touched n W).nodeD n = { W.nodeD n with changedAt := W.stabNum } := by
      rw [touched_nodeD, if_pos ⟨rfl, hltW⟩]
    have hparT : ((touched n W).nodeD n).parents = (s.nodeD n).parents := hUT.shape.parents
    have hpar : ∀ p, p ∈ ((touched n W).nodeD n).parents.map (·.1) →
        ParentOK env (touched n W) p := by
      intro p hp
      rw [hparT] at hp
      obtain ⟨⟨p', ci⟩, hmem, rfl⟩ := List.mem_map.1 hp
      have hpn := (g.parent n p' ci hmem).1
      have h1 := nec_lt hpn
      have h2 := (g.nec p' hpn).1
      have h3 := (g.node p' h1 h2).1
      have sh := hUT.shapeAll p'
      exact ⟨by rw [hUT.size]; exact h1, by rw [sh.valid]; exact h2, by rw [sh.kind]; exact h3,
        by rw [hUT.nec]; exact hpn⟩
    obtain ⟨k, hret⟩ := mcvm_heapB (hUT.heap hi) hpar h
    have hpin := mcvm_parents env fuel n _ W s' r _ (some_of_lt hltW) h
    have hparW : (W.nodeD n).parents = (s.nodeD n).parents := hUW.shape.parents
    refine ⟨true, stepRelB_of_quiet g hUT hbT q ?_ ?_ ?_ (fun hc => by cases hc) k.heap k.qsize ?_ ?_ ?_⟩
    · rw [eT, eW]
    · rw [eT, eW]; exact hrec
    · rw [eT, if_pos rfl]; exact hUW.stabNum
    · intro m hm
      rcases k.only m hm with h1 | h1
      · exact Or.inl h1
      · rw [hparT] at h1; exact Or.inr ⟨rfl, h1⟩
    · intro _ p hp
      rw [← hparW] at hp
      rcases hpin p hp with h1 | h1
      · exact Or.inl h1.2
      · exact Or.inr h1.2.1
    · intro p hp
      obtain ⟨h1, h2, h3⟩ := hret p hp
      rw [hparT] at h1
      exact ⟨rfl, h1, h2, h3⟩
  · -- suppress
    rw [mcv_suppress env fuel n v S0 _ hn0 hU.pc hd, hW] at h
    cases h
    refine ⟨false, stepRelB_of_quiet g hUW hbW (Quiet.refl _) ?_ ?_ ?_ (fun _ => ⟨?_, rfl⟩)
      (hUW.heap hi) rfl (fun m hm => Or.inl hm) (fun hc => by cases hc) (fun p hp => by cases hp)⟩
    · rw [eW]
    · rw [eW]; exact hrec
    · rw [eW, if_neg (by simp)]; exact hch
    · rw [← hval]; exact hold

end BS
end IncrVerif.Proofs.BindH
