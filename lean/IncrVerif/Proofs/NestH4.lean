import IncrVerif.Proofs.BindH48
/-!
# Nested binds (fragment F2), part a: the structural invariant

FRAGMENT F2.  Top-level nodes: `const`, `var`, pure `map`, `fold`, `bindLhsChange b`, `bindMain b lc` (valid for ever).  A run of the closure of bind `b`
creates nodes in scope `.bind b`: `const`/`map`/`fold` nodes AND THE TWO NODES OF INNER BINDS (`bind body' opnd` inside a closure: a fresh bind record `b2`,
its change detector and main node are created in scope `.bind b`; when the inner change detector runs, ITS closure creates nodes in scope `.bind b2`).
Children of a node of scope `b`: top-level nodes of smaller rank, nodes of the same scope and generation, and — for the main node of an inner bind `b2` —
the inner bind's right-hand side (a node of scope `b2`).

* THE RANK IS A GHOST `rk : Nat → Nat` (a parameter of the invariants): it decreases along every child edge and from a scope node to the change detector
  of its scope, a node of scope `b` lies strictly between the change detector and the main node of `b`, and it is injective on the nodes of the state.
  Frames keep it; node creation re-ranks (`rk' m = 2 * rk m` on old nodes, the new node of scope `b` gets `2 * rk main_b - 1`).
* `All2 env rk s dy`: the static facts (what `KeyEq`-style frames preserve: they read `valid`, `kind`, `cutoff`, `createdIn`, `binds`, the node count).
* `GInv2 env rk s op ex dy`: the structural invariant with open nodes.
-/
namespace IncrVerif.Proofs.NestH
open IncrVerif.Engine IncrVerif.Proofs IncrVerif.Proofs.Step IncrVerif.Proofs.Sched IncrVerif.Proofs.Quiet
open IncrVerif.Proofs.BindH

/-- the static facts about node `n` -/
structure N2 (env : Env) (rk : Nat → Nat) (s : State) (dy : List Nat) (n : Nat) : Prop where
  kind : BKind env (s.nodeD n).kind
  cutoff : (s.nodeD n).cutoff = .eq ∨ (s.nodeD n).cutoff = .never
  kidsIn : ∀ c, c ∈ s.children n → c < s.nodes.size
  kidsValid : ∀ c, c ∈ s.children n → (s.nodeD c).valid = true
  /-- children have smaller rank -/
  kidLt : ∀ c, c ∈ s.children n → rk c < rk n
  lcRec : ∀ b, (s.nodeD n).kind = .bindLhsChange b → ∃ br, s.binds[b]? = some br ∧ br.lhsChange = n
  mainRec : ∀ b lc, (s.nodeD n).kind = .bindMain b lc →
    ∃ br, s.binds[b]? = some br ∧ br.main = n ∧ br.lhsChange = lc
  lcChild : ∀ c b, c ∈ s.children n → (s.nodeD c).kind = .bindLhsChange b → (s.nodeD n).kind = .bindMain b c
  /-- a top-level node is valid; its children are top-level, except the right-hand side of a bind's main node -/
  top : (s.nodeD n).createdIn = .top → (s.nodeD n).valid = true ∧
    ∀ c, c ∈ s.children n → (s.nodeD c).createdIn = .top ∨
      ∃ b lc, (s.nodeD n).kind = .bindMain b lc ∧ (s.nodeD c).createdIn = .bind b
  /-- a node created by a closure: not a var, younger than the bind's main node; children = top-level nodes, nodes of the same scope and generation,
  or (main node of an inner bind) a node of the inner bind's scope -/
  inScope : ∀ b, (s.nodeD n).createdIn = .bind b →
    (∀ c, (s.nodeD n).kind ≠ .var c) ∧
    ∃ br, s.binds[b]? = some br ∧ br.main < n ∧
      ∀ c, c ∈ s.children n →
        (s.nodeD c).createdIn = .top ∨
        ((s.nodeD c).createdIn = .bind b ∧ (c ∈ dy ↔ n ∈ dy)) ∨
        ∃ b2 lc2, (s.nodeD n).kind = .bindMain b2 lc2 ∧ (s.nodeD c).createdIn = .bind b2

structure All2 (env : Env) (rk : Nat → Nat) (s : State) (dy : List Nat) : Prop where
  pc : s.panicCountdown = none
  scope : s.currentScope = .top
  node : ∀ n, n < s.nodes.size → N2 env rk s dy n
  /-- the two nodes of a bind record (also of the records of dead inner binds): adjacent, same scope -/
  recs : ∀ (b : Nat) (br : BindRec), s.binds[b]? = some br →
    br.main = br.lhsChange + 1 ∧ br.main < s.nodes.size ∧ (s.nodeD br.lhsChange).kind = .bindLhsChange b ∧
      (s.nodeD br.main).kind = .bindMain b br.lhsChange ∧
      (s.nodeD br.main).createdIn = (s.nodeD br.lhsChange).createdIn
  /-- the registered nodes of a bind, plus the dying ones, are exactly the valid nodes of its scope -/
  gen : ∀ (b : Nat) (br : BindRec), s.binds[b]? = some br → ∀ m,
    (m ∈ br.allNodesCreatedOnRhs ∨ (m ∈ dy ∧ (s.nodeD m).createdIn = .bind b)) ↔
      (m < s.nodes.size ∧ (s.nodeD m).valid = true ∧ (s.nodeD m).createdIn = .bind b)
  /-- registered nodes are not dying -/
  genDy : ∀ (b : Nat) (br : BindRec), s.binds[b]? = some br → ∀ m, m ∈ br.allNodesCreatedOnRhs → m ∉ dy
  dyIn : ∀ m, m ∈ dy → m < s.nodes.size ∧ ∃ b, (s.nodeD m).createdIn = .bind b
  /-- a valid node of a scope: the two nodes of the bind are valid -/
  scopeValid : ∀ (n b : Nat) (br : BindRec), n < s.nodes.size → (s.nodeD n).valid = true →
    (s.nodeD n).createdIn = .bind b → s.binds[b]? = some br →
    (s.nodeD br.lhsChange).valid = true ∧ (s.nodeD br.main).valid = true
  /-- the two nodes of a bind die together -/
  recValid : ∀ (b : Nat) (br : BindRec), s.binds[b]? = some br →
    (s.nodeD br.main).valid = (s.nodeD br.lhsChange).valid
  /-- the rank: a node of scope `b` lies strictly between the bind's change detector and its main node -/
  scopeRk : ∀ (n b : Nat) (br : BindRec), n < s.nodes.size → (s.nodeD n).createdIn = .bind b →
    s.binds[b]? = some br → rk br.lhsChange < rk n ∧ rk n < rk br.main
  /-- the rank is injective on the nodes of the state -/
  rkInj : ∀ n m, n < s.nodes.size → m < s.nodes.size → rk n = rk m → n = m

/-- the structural invariant with open nodes, fragment F2 -/
structure GInv2 (env : Env) (rk : Nat → Nat) (s : State) (op : Nat → Op) (ex : Nat → Prop) (dy : List Nat) : Prop where
  frag : All2 env rk s dy
  par : ∀ c p i, (p, i) ∈ (s.nodeD c).parents → (s.children p)[i]? = some c ∧ Wants s op p i
  conv : ∀ p i c, (s.children p)[i]? = some c → Wants s op p i → (p, i) ∈ (s.nodeD c).parents
  nodup : ∀ c, (s.nodeD c).parents.Nodup
  hlt : ∀ c p i, (p, i) ∈ (s.nodeD c).parents → op p = .closed → (s.nodeD c).height < (s.nodeD p).height
  hpos : ∀ n, s.isNecessary n = true → op n = .closed → 0 ≤ (s.nodeD n).height
  lnec : ∀ p k, op p = .linking k → s.isNecessary p = true
  unec : ∀ p k, op p = .unlinking k → s.isNecessary p = false
  heap : HeapG s
  hgt : ∀ m, (s.nodeD m).inRch = true → op m = .closed → (s.nodeD m).heightInRch = (s.nodeD m).height
  qnec : ∀ m, (s.nodeD m).inRch = true → s.isNecessary m = true ∨ ∃ k, op m = .unlinking k
  queued : ∀ m, op m = .closed → s.isNecessary m = true → s.isStale m = true → ¬ ex m →
    (s.nodeD m).inRch = true
  qstale : ∀ m, (s.nodeD m).inRch = true → s.isStale m = true
  opLt : ∀ m, op m ≠ .closed → m < s.nodes.size
  /-- THE SCOPE HEIGHT RULE, for closed necessary valid nodes (the change detector may itself be a node of an outer scope) -/
  scopeH : ∀ n b br, (s.nodeD n).valid = true → (s.nodeD n).createdIn = .bind b → s.binds[b]? = some br →
    s.isNecessary n = true → op n = .closed → (s.nodeD br.lhsChange).height < (s.nodeD n).height
  /-- invalid nodes are isolated and closed -/
  inv : ∀ m, (s.nodeD m).valid = false →
    (s.nodeD m).parents = [] ∧ (s.nodeD m).observers = [] ∧ (s.nodeD m).forceNecessary = false ∧
      (s.nodeD m).inRch = false ∧ op m = .closed
  /-- nodes created by closures and change detectors are never observed -/
  scopeObs : ∀ m b, (s.nodeD m).createdIn = .bind b → (s.nodeD m).observers = []
  lcObs : ∀ m b, (s.nodeD m).kind = .bindLhsChange b → (s.nodeD m).observers = []

def Struct2 (env : Env) (rk : Nat → Nat) (s : State) : Prop := GInv2 env rk s allClosed noEx []

namespace All2
variable {env : Env} {rk : Nat → Nat} {s : State} {dy : List Nat}

/-- children have smaller rank -/
theorem kid_rk (A : All2 env rk s dy) {n c : Nat} (hn : n < s.nodes.size) (hc : c ∈ s.children n) :
    rk c < rk n := (A.node n hn).kidLt c hc

/-- a node of scope `b` lies strictly between the bind's change detector and its main node -/
theorem scope_rk (A : All2 env rk s dy) {n b : Nat} {br : BindRec} (hn : n < s.nodes.size)
    (hsc : (s.nodeD n).createdIn = .bind b) (hb : s.binds[b]? = some br) :
    rk br.lhsChange < rk n ∧ rk n < rk br.main := A.scopeRk n b br hn hsc hb

/-- the bind of a scope node -/
theorem scope_bind (A : All2 env rk s dy) {n b : Nat} (hn : n < s.nodes.size)
    (hsc : (s.nodeD n).createdIn = .bind b) : ∃ br, s.binds[b]? = some br ∧ br.main < n := by
  obtain ⟨-, br, hb, hm, -⟩ := (A.node n hn).inScope b hsc
  exact ⟨br, hb, hm⟩

theorem rk_inj (A : All2 env rk s dy) {n m : Nat} (hn : n < s.nodes.size) (hm : m < s.nodes.size)
    (h : rk n = rk m) : n = m := A.rkInj n m hn hm h

/-- the change detector of a bind record is a node of the state -/
theorem lc_lt (A : All2 env rk s dy) {b : Nat} {br : BindRec} (hb : s.binds[b]? = some br) :
    br.lhsChange < s.nodes.size := by
  obtain ⟨h1, h2, -⟩ := A.recs b br hb
  omega

/-- the two nodes of a bind: the rank of the change detector is below the rank of the main node (when the main node is valid) -/
theorem lc_rk_main (A : All2 env rk s dy) {b : Nat} {br : BindRec} (hb : s.binds[b]? = some br)
    (hv : (s.nodeD br.main).valid = true) : rk br.lhsChange < rk br.main := by
  obtain ⟨-, h2, -, h4, -⟩ := A.recs b br hb
  apply A.kid_rk h2
  unfold State.children Node.kind?
  rw [hv, h4]
  simp only [if_true, hb]
  exact List.mem_cons_self ..

end All2

end IncrVerif.Proofs.NestH
