import IncrVerif.Proofs.MemoH18
/-!
# C20 over whole histories, part 11: sharing, trace form (K2, no restriction on bind closures)

`NK m key s s'`: events were only added to the log, and unless the invocation note of `(m, key)`
(`memoNote m key`, the event every miss logs before the body runs) is among them, the entry of `key` in table `m`
is untouched.  Every function of the model is an `NK` step — a miss with this very key logs the note.  So: if
the node stays allocated at the API boundaries and the trace shows no invocation of `(m, key)`, the entry stays,
whatever the bind closures call.
-/
namespace IncrVerif.Proofs.MemoH
open IncrVerif.Engine IncrVerif.Proofs.Obs IncrVerif.Proofs.Memo IncrVerif.Proofs.Own

def NK (m : Nat) (key : Int) (s s' : State) : Prop :=
  ∃ evs, s'.log = evs ++ s.log ∧ (memoNote m key ∉ evs → stored s' m key = stored s m key)

instance (m : Nat) (key : Int) : PreOrd (NK m key) where
  refl _ := ⟨[], rfl, fun _ => rfl⟩
  trans := by
    rintro a b c ⟨e1, h1, q1⟩ ⟨e2, h2, q2⟩
    refine ⟨e2 ++ e1, by rw [h2, h1, List.append_assoc], fun hn => ?_⟩
    rw [q2 fun h => hn (List.mem_append_left _ h), q1 fun h => hn (List.mem_append_right _ h)]

instance (m : Nat) (key : Int) : ILocal (NK m key) :=
  ⟨fun s s' hf => by
    obtain ⟨evs, h⟩ := hf.log
    exact ⟨evs, h, fun _ => by simp only [stored, hf.memos]⟩⟩

theorem NK.of_eq {m : Nat} {key : Int} {s s' : State} (h1 : s'.log = s.log) (h2 : s'.memos = s.memos) :
    NK m key s s' := ⟨[], by rw [h1]; rfl, fun _ => by simp only [stored, h2]⟩

theorem tick_log (s s1 : State) (r) (h : tick.run.run s = (r, s1)) : s1.log = s.log ∧ s1.memos = s.memos := by
  rw [tick_run] at h
  split at h
  · cases h; exact ⟨rfl, rfl⟩
  · split at h <;> cases h <;> exact ⟨rfl, rfl⟩

/-- a memoised call — any memo function, any key, from anywhere — is an `NK` step -/
theorem nk_memoCall (env : Env) (m : Nat) (key : Int) (m' : Nat) (key' : Int) :
    Pres (NK m key) (memoCall env m' key') := by
  refine ⟨fun s r s' hrun => ?_⟩
  rw [memoCall_run] at hrun
  split at hrun
  · cases hrun; exact PreOrd.refl _
  · rcases ht : tick.run.run s with ⟨_ | u, s1⟩
    · rw [ht] at hrun; cases hrun
      have := tick_log _ _ _ ht
      exact NK.of_eq this.1 this.2
    · rw [ht] at hrun
      dsimp only at hrun
      have htl := tick_log _ _ _ ht
      rcases he : (elabTemplateBase (env.memo m') (.int key')).run.run (memoStart m' key' s1) with ⟨_ | x, s2⟩
      · rw [he] at hrun; cases hrun
        have hk := (keep_elabTemplateBase _ _ _).h _ _ _ he
        refine ⟨[memoNote m' key'], ?_, fun _ => ?_⟩
        · rw [hk.1]; show memoNote m' key' :: s1.log = _; rw [htl.1]; rfl
        · simp only [stored, hk.2.2.1]; show List.lookup key ((List.lookup m s1.memos).getD []) = _
          rw [htl.2]
      · rw [he] at hrun; cases hrun
        have hk := (keep_elabTemplateBase _ _ _).h _ _ _ he
        refine ⟨[memoNote m' key'], ?_, fun hn => ?_⟩
        · show s2.log = _
          rw [hk.1]; show memoNote m' key' :: s1.log = _; rw [htl.1]; rfl
        · have hne : ¬ (m' = m ∧ key' = key) := by
            rintro ⟨rfl, rfl⟩
            exact hn List.mem_cons_self
          rw [stored_memoFinish_ne _ _ _ _ _ _ _ hne]
          simp only [stored, hk.2.2.1]; show List.lookup key ((List.lookup m s1.memos).getD []) = _
          rw [htl.2]

/-- what the two drops leave alone -/
structure QuietL (s s' : State) : Prop where
  memos : s'.memos = s.memos
  log : s'.log = s.log

instance : PreOrd QuietL := ⟨fun _ => ⟨rfl, rfl⟩, fun h1 h2 => ⟨h2.1.trans h1.1, h2.2.trans h1.2⟩⟩

macro "qlpres" : tactic => `(tactic| repeat (any_goals (first
  | with_reducible apply Pres.pure | with_reducible apply Pres.get
  | with_reducible apply Pres.bind | with_reducible apply Pres.getObs | with_reducible apply Pres.resolveOpnd
  | ((with_reducible apply Pres.modify); intro _; exact QuietL.mk rfl rfl)
  | intro _ | split | dsimp only)))

theorem QuietL.stepAction_dropHandle (env : Env) (o : Opnd) (tokens : Array Nat) :
    Pres QuietL (stepAction env (.dropHandle o) tokens) := by
  simp only [Engine.stepAction]; qlpres

theorem QuietL.disallowFutureUse (o : Nat) : Pres QuietL (disallowFutureUse o) := by
  unfold Engine.disallowFutureUse Engine.bumpCounter Engine.modObs; qlpres

theorem QuietL.stepAction_dropObs (env : Env) (o : Nat) (tokens : Array Nat) :
    Pres QuietL (stepAction env (.dropObs o) tokens) := by
  simp only [Engine.stepAction]
  unfold Engine.modObs
  repeat (any_goals (first
    | with_reducible apply QuietL.disallowFutureUse
    | with_reducible apply Pres.pure | with_reducible apply Pres.get
    | with_reducible apply Pres.bind | with_reducible apply Pres.getObs
    | ((with_reducible apply Pres.modify); intro _; exact QuietL.mk rfl rfl)
    | intro _ | split | dsimp only))

/-- every API action other than `stabilise` is an `NK` step -/
theorem nk_stepAction (env : Env) (m : Nat) (key : Int) (a : Action) (tokens : Array Nat)
    (hs : a ≠ .stabilise) : Pres (NK m key) (stepAction env a tokens) := by
  have hm : ∀ m' key', (fun _ _ => True : Nat → Int → Prop) m' key' →
      Pres (NK m key) (memoCall env m' key') := fun m' key' _ => nk_memoCall env m key m' key'
  by_cases hp : Action.isPlain a = true
  · exact PresI.stepAction_plain env a tokens hp
  · cases a <;> simp only [Action.isPlain, not_true_eq_false] at hp
    case create i =>
      exact PresB.stepAction_create hm (fun _ _ _ => trivial) tokens fun s x => NK.of_eq rfl rfl
    case observe o =>
      exact PresI.stepAction_observe env o tokens fun s ob l => NK.of_eq rfl rfl
    case cloneObs o =>
      exact PresI.stepAction_cloneObs env o tokens fun s f _ => NK.of_eq rfl rfl
    case dropObs o =>
      exact (QuietL.stepAction_dropObs env o tokens).mono fun _ _ h => NK.of_eq h.log h.memos
    case dropHandle o =>
      exact (QuietL.stepAction_dropHandle env o tokens).mono fun _ _ h => NK.of_eq h.log h.memos
    case stabilise => exact absurd rfl hs

/-- K2, one action, trace form: bind closures may call anything.  If `n` is the entry of `key`, is still allocated
after the action, and the action logged no invocation of `(m, key)`, the entry is still `n` -/
theorem quiet_entry_step (env : Env) (m : Nat) (key : Int) (n : Nat) (a : Action) (tokens : Array Nat)
    (s s' : State) (r) (h : (stepAction env a tokens).run.run s = (r, s'))
    (hs : stored s m key = some n) (ha : n ∈ s'.aliveSet) (hq : memoNote m key ∉ s'.log) :
    stored s' m key = some n := by
  have use : ∀ t, NK m key s t → memoNote m key ∉ t.log → stored t m key = some n := by
    rintro t ⟨evs, h1, h2⟩ hq
    rw [h2 fun hm => hq (by rw [h1]; exact List.mem_append_left _ hm)]; exact hs
  by_cases hst : a = .stabilise
  · subst hst
    have hm : ∀ m' key', (fun _ _ => True : Nat → Int → Prop) m' key' →
        Pres (NK m key) (memoCall env m' key') := fun m' key' _ => nk_memoCall env m key m' key'
    have h0 := SplitOk.stepAction_stabilise hm (bodiesP_true env) tokens
    cases r with
    | error e => exact use s' (h0.1 s e s' h) hq
    | ok x =>
      obtain ⟨t, h1, rfl⟩ := h0.2 s x s' h
      exact stored_sweep_keep t m key n (use t h1 hq) ha
  · exact use s' ((nk_stepAction env m key a tokens hst).h s r s' h) hq

/-- K2, SHARING, trace form: bind closures may call ANY memoised function with ANY key.  If table `m` has `key ↦ n`
and in every state of the history `n` is still allocated and the event log holds no invocation note of `(m, key)`
(in a harness run the log is reset before each action: "no action of the history logged `memo m invoked key`"),
the entry is still `key ↦ n` at the end -/
theorem share_quiet (env : Env) (m : Nat) (key : Int) (n : Nat) {s s' : State}
    (hs : stored s m key = some n)
    (h : RunI env (fun t => n ∈ t.aliveSet ∧ memoNote m key ∉ t.log) (fun _ => True) s s') :
    stored s' m key = some n := by
  induction h with
  | nil => exact hs
  | step a tokens r _ hrun hI _ ih =>
    exact ih (quiet_entry_step env m key n a tokens _ _ r hrun hs hI.1 hI.2)
  | clearLog _ ih => exact ih hs

theorem RunI.mono {env : Env} {I I' : State → Prop} {A : Action → Prop} (hI : ∀ t, I t → I' t) {s s' : State}
    (h : RunI env I A s s') : RunI env I' A s s' := by
  induction h with
  | nil => exact .nil _
  | step a tokens r ha hrun h1 _ ih => exact .step a tokens r ha hrun (hI _ h1) ih
  | clearLog _ ih => exact .clearLog ih

end IncrVerif.Proofs.MemoH
