import IncrVerif.Engine.Recompute
/-!
# Helper lemmas for C19 (the height limit is exact), and the small "run" calculus for `M`

`(m).run.run s : Except Panic α × State` is computed by the `run_*` rewrite rules below; every engine
function treated here gets a *master equation* `f_run : (f args).run.run s = <closed form>` from which
the property theorems of `Props/C19.lean` are read off.
-/
namespace IncrVerif.Proofs
open IncrVerif.Engine

/-! ## running `M` -/

theorem run_pure {α} (a : α) (s : State) : (pure a : M α).run.run s = (.ok a, s) := rfl

theorem run_bind {α β} (x : M α) (f : α → M β) (s : State) :
    (x >>= f).run.run s = match x.run.run s with
      | (.ok a, s') => (f a).run.run s'
      | (.error e, s') => (.error e, s') := by
  simp only [ExceptT.run_bind, StateT.run_bind]
  rcases h : x.run.run s with ⟨r, s'⟩
  cases r <;> simp_all <;> rfl

theorem run_get (s : State) : (get : M State).run.run s = (.ok s, s) := rfl

theorem run_modify (f : State → State) (s : State) :
    (modify f : M Unit).run.run s = (.ok (), f s) := rfl

theorem run_panic {α} (site : String) (s : State) :
    (Engine.panic site : M α).run.run s = (.error (.site site), s) := rfl

theorem run_ite {α} (c : Prop) [Decidable c] (a b : M α) (s : State) :
    (if c then a else b).run.run s = if c then a.run.run s else b.run.run s := by
  split <;> rfl

theorem run_assertM (c : Bool) (site : String) (s : State) :
    (assertM c site).run.run s = if c then (.ok (), s) else (.error (.site site), s) := by
  cases c <;> rfl

theorem run_dassert (c : Bool) (site : String) (s : State) :
    (dassert c site).run.run s =
      if s.cfg.debug = true ∧ c = false then (.error (.site site), s) else (.ok (), s) := by
  simp only [dassert, run_bind, run_get]
  cases s.cfg.debug <;> cases c <;> rfl

theorem run_getNode (n : Nat) (s : State) :
    (getNode n).run.run s = match s.nodes[n]? with
      | some x => (.ok x, s)
      | none => (.error (.site "model:no-such-node"), s) := by
  simp only [getNode, run_bind, run_get]
  cases s.nodes[n]? <;> rfl

theorem run_modNode (n : Nat) (f : Node → Node) (s : State) :
    (modNode n f).run.run s = (.ok (), { s with nodes := s.nodes.modify n f }) := rfl

/-! ## pure facts -/

theorem mkHeap_size (N : Nat) : (mkHeap N).queues.size = N + 1 := by simp [mkHeap]

theorem mkHeap_maxAllowed (N : Nat) : (mkHeap N).maxAllowed = N := by
  simp [mkHeap, Heap.maxAllowed]

theorem mkHeap_bucket (N i : Nat) (h : i ≤ N) : (mkHeap N).queues[i]? = some [] := by
  simp [mkHeap, Array.getElem?_replicate]; omega

theorem init_limits (N : Nat) (d : Bool) :
    (State.init N d).rch.maxAllowed = N ∧ (State.init N d).ahh.maxAllowed = N ∧
      (State.init N d).maxHeightSeen = 0 ∧ (State.init N d).rch.length = 0 ∧
      (State.init N d).ahh.length = 0 :=
  ⟨mkHeap_maxAllowed N, mkHeap_maxAllowed N, rfl, rfl, rfl⟩

/-- the bucket-vector resize of `set_max_height_allowed` (both heaps use the same one) -/
def resizeQ (N : Nat) (q : Array (List Nat)) : Array (List Nat) :=
  if q.size ≥ N + 1 then q.extract 0 (N + 1) else q ++ Array.replicate (N + 1 - q.size) []

theorem resizeQ_size (N : Nat) (q : Array (List Nat)) : (resizeQ N q).size = N + 1 := by
  unfold resizeQ; split <;> simp <;> omega

/-- every bucket that exists before and after keeps its contents; the others are empty -/
theorem resizeQ_getElem? (N : Nat) (q : Array (List Nat)) (i : Nat) :
    (resizeQ N q)[i]? = if i ≤ N then (if i < q.size then q[i]? else some []) else none := by
  unfold resizeQ
  split
  · rw [Array.getElem?_extract]
    by_cases h1 : i ≤ N
    · have h2 : i < q.size := by omega
      have h3 : i < min (N + 1) q.size := by omega
      simp [h1, h2, h3]
    · have h3 : ¬ i < min (N + 1) q.size := by omega
      simp [h1, h3]
  · by_cases h1 : i ≤ N
    · by_cases h2 : i < q.size
      · simp [h1, h2, Array.getElem?_append_left]
      · rw [Array.getElem?_append_right (by omega), Array.getElem?_replicate]
        have h3 : i - q.size < N + 1 - q.size := by omega
        simp [h1, h2, h3]
    · rw [Array.getElem?_append_right (by omega), Array.getElem?_replicate]
      have h3 : ¬ i - q.size < N + 1 - q.size := by omega
      simp [h1, h3]

/-! ## `setHeight` -/

theorem setHeight_run (n : Nat) (h : Int) (s : State) :
    (setHeight n h).run.run s =
      if h > s.maxHeightSeen ∧ h > s.ahh.maxAllowed then
        (.error (.site "height-limit"), { s with maxHeightSeen := h })
      else
        (.ok (), { s with maxHeightSeen := max s.maxHeightSeen h,
                          nodes := s.nodes.modify n fun x => { x with height := h } }) := by
  simp only [setHeight, modNode, run_bind, run_get, run_ite, run_modify, run_panic]
  by_cases h1 : h > s.maxHeightSeen
  · have hm : max s.maxHeightSeen h = h := by omega
    by_cases h2 : h > s.ahh.maxAllowed <;> simp [h1, h2, hm]
  · have hm : max s.maxHeightSeen h = s.maxHeightSeen := by omega
    simp [h1, hm]

/-! ## `setMaxHeightAllowed` -/

theorem setMaxHeightAllowed_run (N : Nat) (s : State) :
    (setMaxHeightAllowed N).run.run s =
      if s.status = .stabilising then
        (.error (.site "state:set_max_height_allowed:during-stabilisation"), s)
      else if (N : Int) < s.maxHeightSeen then
        (.error (.site "adjust_heights_heap:set_max_height_allowed:below-max-seen"), s)
      else if s.cfg.debug = true ∧ s.ahh.length ≠ 0 then
        (.error (.site "adjust_heights_heap:set_max_height_allowed:empty"), s)
      else if s.cfg.debug = true ∧ ((s.rch.queues.toList.drop (N + 1)).all (·.isEmpty)) = false then
        (.error (.site "recompute_heap:set_max_height_allowed:dropped-buckets-empty"),
          { s with ahh := { s.ahh with queues := resizeQ N s.ahh.queues, lowerBound := (N : Int) + 1 } })
      else
        (.ok (), { s with
          ahh := { s.ahh with queues := resizeQ N s.ahh.queues, lowerBound := (N : Int) + 1 },
          rch := { s.rch with queues := resizeQ N s.rch.queues,
                              lowerBound := min s.rch.lowerBound (((resizeQ N s.rch.queues).size : Int) + 1) } }) := by
  simp only [setMaxHeightAllowed, run_bind, run_get, run_ite, run_modify, run_panic,
    run_dassert, resizeQ]
  by_cases h1 : s.status = .stabilising
  · simp [h1]
  · have h1' : (s.status == Status.stabilising) = false := by simpa using h1
    simp only [h1, h1', if_false, Bool.false_eq_true]
    by_cases h2 : (N : Int) < s.maxHeightSeen
    · simp only [h2, if_true]
    · simp only [h2, if_false]
      by_cases h3 : s.cfg.debug = true ∧ (s.ahh.length == 0) = false
      · have h3' : s.cfg.debug = true ∧ s.ahh.length ≠ 0 := by simpa using h3
        simp only [if_pos h3, if_pos h3']
      · have h3' : ¬ (s.cfg.debug = true ∧ s.ahh.length ≠ 0) := by simpa using h3
        simp only [if_neg h3, if_neg h3']
        by_cases h4 : s.cfg.debug = true ∧
            ((s.rch.queues.toList.drop (N + 1)).all (·.isEmpty)) = false
        · simp only [if_pos h4]
        · simp only [if_neg h4]

/-! ## `rchLink`, `rchInsert` -/

/-- the state after a successful `link` of node `n` (whose height is `h`) -/
def linked (n : Nat) (h : Int) (s : State) : State :=
  { s with nodes := s.nodes.modify n fun x => { x with heightInRch := h },
           rch := { s.rch with queues := s.rch.queues.modify h.toNat (· ++ [n]) } }

theorem rchLink_run (n : Nat) (s : State) :
    (rchLink n).run.run s = match s.nodes[n]? with
      | none => (.error (.site "model:no-such-node"), s)
      | some nd =>
        if nd.height < 0 then (.error (.site "recompute_heap:link:height>=0"), s)
        else if nd.height > s.rch.maxAllowed then (.error (.site "recompute_heap:link:height<=max"), s)
        else (.ok (), linked n nd.height s) := by
  simp only [rchLink, run_bind, run_getNode]
  cases hn : s.nodes[n]? with
  | none => rfl
  | some nd =>
    simp only [run_get, run_assertM, run_modNode, run_modify, linked]
    by_cases h1 : nd.height < 0
    · have : decide (nd.height ≥ 0) = false := by simpa using h1
      simp only [this, if_pos h1, Bool.false_eq_true, if_false]
    · have : decide (nd.height ≥ 0) = true := by simpa using h1
      simp only [this, if_neg h1, if_true]
      by_cases h2 : nd.height > s.rch.maxAllowed
      · have : decide (nd.height ≤ s.rch.maxAllowed) = false := by simpa using h2
        simp only [this, if_pos h2, Bool.false_eq_true, if_false]
      · have : decide (nd.height ≤ s.rch.maxAllowed) = true := by simpa using h2
        simp only [this, if_neg h2, if_true]

/-- the state after a successful `insert` of node `n` (whose height is `h`) -/
def inserted (n : Nat) (h : Int) (s : State) : State :=
  { s with nodes := s.nodes.modify n fun x => { x with heightInRch := h },
           rch := { queues := s.rch.queues.modify h.toNat (· ++ [n]),
                    lowerBound := if h < s.rch.lowerBound then h else s.rch.lowerBound,
                    length := s.rch.length + 1 } }

/-- `insert` just before `link` is called: only the lower bound may have moved -/
def lowered (h : Int) (s : State) : State :=
  { s with rch := { s.rch with lowerBound := if h < s.rch.lowerBound then h else s.rch.lowerBound } }

theorem rchInsert_run (n : Nat) (s : State) :
    (rchInsert n).run.run s = match s.nodes[n]? with
      | none => (.error (.site "model:no-such-node"), s)
      | some nd =>
        if s.cfg.debug = true ∧ (!nd.inRch && s.needsToBeComputed n) = false then
          (.error (.site "recompute_heap:insert:precondition"), s)
        else if s.cfg.debug = true ∧ nd.height > s.rch.maxAllowed then
          (.error (.site "recompute_heap:insert:height<=max"), s)
        else if nd.height < 0 then
          (.error (.site "recompute_heap:link:height>=0"), lowered nd.height s)
        else if nd.height > s.rch.maxAllowed then
          (.error (.site "recompute_heap:link:height<=max"), lowered nd.height s)
        else (.ok (), inserted n nd.height s) := by
  simp only [rchInsert, run_bind, run_get, run_getNode]
  cases hn : s.nodes[n]? with
  | none => rfl
  | some nd =>
    simp only [run_dassert]
    by_cases h1 : s.cfg.debug = true ∧ (!nd.inRch && s.needsToBeComputed n) = false
    · simp only [if_pos h1]
    · simp only [if_neg h1]
      by_cases h2 : s.cfg.debug = true ∧ nd.height > s.rch.maxAllowed
      · have h2' : s.cfg.debug = true ∧ decide (nd.height ≤ s.rch.maxAllowed) = false := by
          simpa using h2
        simp only [if_pos h2, if_pos h2']
      · have h2' : ¬ (s.cfg.debug = true ∧ decide (nd.height ≤ s.rch.maxAllowed) = false) := by
          simpa using h2
        simp only [if_neg h2, if_neg h2']
        simp only [run_ite, run_bind, run_modify, rchLink_run, hn, lowered, inserted, linked,
          Heap.maxAllowed]
        by_cases hlb : nd.height < s.rch.lowerBound <;> by_cases h3 : nd.height < 0 <;>
          by_cases h4 : nd.height > (s.rch.queues.size : Int) - 1 <;> simp [hlb, h3, h4]

/-! ## consequences: `setHeight` -/

theorem setHeight_err_iff (n : Nat) (h : Int) (s : State) :
    ((setHeight n h).run.run s).1 = .error (.site "height-limit") ↔
      (h > s.maxHeightSeen ∧ h > s.ahh.maxAllowed) := by
  rw [setHeight_run]; split <;> simp_all

theorem setHeight_ok_iff (n : Nat) (h : Int) (s : State) :
    ((setHeight n h).run.run s).1 = .ok () ↔ ¬ (h > s.maxHeightSeen ∧ h > s.ahh.maxAllowed) := by
  rw [setHeight_run]; split <;> simp_all

theorem setHeight_only_panic (n : Nat) (h : Int) (s : State) (p : Panic)
    (hp : ((setHeight n h).run.run s).1 = .error p) : p = .site "height-limit" := by
  rw [setHeight_run] at hp; split at hp <;> simp_all

theorem setHeight_exact (n : Nat) (h : Int) (s : State) (inv : s.maxHeightSeen ≤ s.ahh.maxAllowed) :
    (((setHeight n h).run.run s).1 = .error (.site "height-limit") ↔ h > s.ahh.maxAllowed) ∧
    (((setHeight n h).run.run s).1 = .ok () ↔ h ≤ s.ahh.maxAllowed) := by
  rw [setHeight_err_iff, setHeight_ok_iff]
  constructor <;> constructor <;> intro <;> omega

theorem setHeight_ok_state (n : Nat) (h : Int) (s s' : State)
    (hr : (setHeight n h).run.run s = (.ok (), s')) :
    (n < s.nodes.size → (s'.nodeD n).height = h) ∧
    s'.maxHeightSeen = max s.maxHeightSeen h ∧
    s'.rch = s.rch ∧ s'.ahh = s.ahh ∧ s'.vars = s.vars ∧
    s'.nodes.size = s.nodes.size ∧
    (∀ m, m ≠ n → s'.nodes[m]? = s.nodes[m]?) ∧
    (s.maxHeightSeen ≤ s.ahh.maxAllowed → s'.maxHeightSeen ≤ s'.ahh.maxAllowed) := by
  rw [setHeight_run] at hr
  by_cases hc : h > s.maxHeightSeen ∧ h > s.ahh.maxAllowed
  · rw [if_pos hc] at hr; cases hr
  · rw [if_neg hc] at hr
    cases hr
    refine ⟨?_, rfl, rfl, rfl, rfl, by simp, ?_, ?_⟩
    · intro hn
      simp [State.nodeD, Array.getElem_modify, hn]
    · intro m hm
      simp [Array.getElem?_modify, Ne.symm hm]
    · intro inv
      show max s.maxHeightSeen h ≤ s.ahh.maxAllowed
      omega

theorem setHeight_panic_state (n : Nat) (h : Int) (s s' : State) (p : Panic)
    (hr : (setHeight n h).run.run s = (.error p, s')) :
    p = .site "height-limit" ∧ s'.maxHeightSeen = h ∧ s'.nodes = s.nodes ∧
      s'.rch = s.rch ∧ s'.ahh = s.ahh ∧ s'.maxHeightSeen > s'.ahh.maxAllowed := by
  rw [setHeight_run] at hr
  by_cases hc : h > s.maxHeightSeen ∧ h > s.ahh.maxAllowed
  · rw [if_pos hc] at hr
    cases hr
    exact ⟨rfl, rfl, rfl, rfl, rfl, hc.2⟩
  · rw [if_neg hc] at hr; cases hr

/-- once `maxHeightSeen` is above the limit (the state a caught "height-limit" panic leaves behind),
heights above the limit are accepted -/
theorem setHeight_above_limit (n : Nat) (h : Int) (s : State) (hle : h ≤ s.maxHeightSeen) :
    ((setHeight n h).run.run s).1 = .ok () := by
  rw [setHeight_ok_iff]; omega

/-! ## consequences: `setMaxHeightAllowed` -/

theorem all_drop_iff (l : List (List Nat)) (k : Nat) :
    (l.drop k).all (·.isEmpty) = true ↔ ∀ i, k ≤ i → ∀ x, l[i]? = some x → x = [] := by
  simp only [List.all_eq_true, List.isEmpty_iff]
  constructor
  · intro hall i hi x hx
    apply hall
    rw [List.mem_iff_getElem?]
    exact ⟨i - k, by rw [List.getElem?_drop]; rw [← hx]; congr 1; omega⟩
  · intro hall x hx
    rw [List.mem_iff_getElem?] at hx
    obtain ⟨i, hi⟩ := hx
    rw [List.getElem?_drop] at hi
    exact hall (k + i) (by omega) x hi

/-- "every bucket above `N` is empty" -/
def DroppedEmpty (N : Nat) (q : Array (List Nat)) : Prop :=
  ∀ i, N < i → ∀ x, q[i]? = some x → x = []

theorem dropped_all_iff (N : Nat) (q : Array (List Nat)) :
    (q.toList.drop (N + 1)).all (·.isEmpty) = true ↔ DroppedEmpty N q := by
  rw [all_drop_iff]
  simp only [DroppedEmpty, Array.getElem?_toList]
  constructor
  · intro h i hi; exact h i hi
  · intro h i hi; exact h i hi

theorem smha_stabilising (N : Nat) (s : State) (h : s.status = .stabilising) :
    (setMaxHeightAllowed N).run.run s =
      (.error (.site "state:set_max_height_allowed:during-stabilisation"), s) := by
  rw [setMaxHeightAllowed_run, if_pos h]

theorem smha_below_iff (N : Nat) (s : State) (h : s.status ≠ .stabilising) :
    ((setMaxHeightAllowed N).run.run s).1 =
        .error (.site "adjust_heights_heap:set_max_height_allowed:below-max-seen") ↔
      (N : Int) < s.maxHeightSeen := by
  rw [setMaxHeightAllowed_run, if_neg h]
  split
  · simp_all
  · split
    · simp_all
    · split <;> simp_all

/-- the state after a successful `set_max_height_allowed N` -/
def resized (N : Nat) (s : State) : State :=
  { s with
    ahh := { s.ahh with queues := resizeQ N s.ahh.queues, lowerBound := (N : Int) + 1 },
    rch := { s.rch with queues := resizeQ N s.rch.queues,
                        lowerBound := min s.rch.lowerBound (((resizeQ N s.rch.queues).size : Int) + 1) } }

theorem smha_ok_iff (N : Nat) (s s' : State) :
    (setMaxHeightAllowed N).run.run s = (.ok (), s') ↔
      (s.status ≠ .stabilising ∧ s.maxHeightSeen ≤ (N : Int) ∧
        (s.cfg.debug = false ∨ (s.ahh.length = 0 ∧ DroppedEmpty N s.rch.queues)) ∧
        s' = resized N s) := by
  rw [setMaxHeightAllowed_run, ← dropped_all_iff]
  have hres : ∀ x : State, ((Except.ok () : Except Panic Unit), x) = (.ok (), s') ↔ s' = x := by
    intro x; simp [eq_comm]
  have herr : ∀ (p : Panic) (x : State), ((Except.error p : Except Panic Unit), x) = (.ok (), s') ↔ False := by
    intro p x; constructor
    · intro h; cases h
    · exact False.elim
  by_cases h1 : s.status = .stabilising
  · rw [if_pos h1, herr]
    exact ⟨False.elim, fun h => h.1 h1⟩
  rw [if_neg h1]
  by_cases h2 : (N : Int) < s.maxHeightSeen
  · rw [if_pos h2, herr]
    exact ⟨False.elim, fun h => by omega⟩
  rw [if_neg h2]
  by_cases h3 : s.cfg.debug = true ∧ s.ahh.length ≠ 0
  · rw [if_pos h3, herr]
    refine ⟨False.elim, fun h => ?_⟩
    rcases h.2.2.1 with hd | ⟨hl, _⟩
    · rw [h3.1] at hd; cases hd
    · exact h3.2 hl
  rw [if_neg h3]
  by_cases h4 : s.cfg.debug = true ∧ ((s.rch.queues.toList.drop (N + 1)).all (·.isEmpty)) = false
  · rw [if_pos h4, herr]
    refine ⟨False.elim, fun h => ?_⟩
    rcases h.2.2.1 with hd | ⟨_, ha⟩
    · rw [h4.1] at hd; cases hd
    · rw [h4.2] at ha; cases ha
  rw [if_neg h4, hres]
  refine ⟨fun h => ⟨h1, by omega, ?_, h⟩, fun h => h.2.2.2⟩
  cases hd : s.cfg.debug
  · exact Or.inl rfl
  · refine Or.inr ⟨Decidable.byContradiction fun hne => h3 ⟨hd, hne⟩, ?_⟩
    cases ha : (s.rch.queues.toList.drop (N + 1)).all (·.isEmpty)
    · exact absurd ⟨hd, ha⟩ h4
    · rfl

theorem resized_facts (N : Nat) (s : State) :
    (resized N s).rch.queues.size = N + 1 ∧ (resized N s).ahh.queues.size = N + 1 ∧
    (resized N s).rch.maxAllowed = N ∧ (resized N s).ahh.maxAllowed = N ∧
    (∀ i, (resized N s).rch.queues[i]? =
      if i ≤ N then (if i < s.rch.queues.size then s.rch.queues[i]? else some []) else none) ∧
    (∀ i, (resized N s).ahh.queues[i]? =
      if i ≤ N then (if i < s.ahh.queues.size then s.ahh.queues[i]? else some []) else none) ∧
    (resized N s).nodes = s.nodes ∧ (resized N s).vars = s.vars ∧
    (resized N s).maxHeightSeen = s.maxHeightSeen ∧
    (resized N s).rch.length = s.rch.length ∧ (resized N s).ahh.length = s.ahh.length ∧
    (resized N s).status = s.status := by
  refine ⟨resizeQ_size _ _, resizeQ_size _ _, ?_, ?_, resizeQ_getElem? _ _, resizeQ_getElem? _ _,
    rfl, rfl, rfl, rfl, rfl, rfl⟩
  · simp [Heap.maxAllowed, resized, resizeQ_size]
  · simp [Heap.maxAllowed, resized, resizeQ_size]

theorem smha_then_setHeight (N : Nat) (s s' : State) (n : Nat) (h : Int)
    (hr : (setMaxHeightAllowed N).run.run s = (.ok (), s')) :
    ((setHeight n h).run.run s').1 = .ok () ↔ h ≤ (N : Int) := by
  rw [smha_ok_iff] at hr
  obtain ⟨_, hN, _, rfl⟩ := hr
  have hf := resized_facts N s
  have inv : (resized N s).maxHeightSeen ≤ (resized N s).ahh.maxAllowed := by
    rw [hf.2.2.2.1]; exact hN
  rw [(setHeight_exact n h _ inv).2, hf.2.2.2.1]

/-! ## consequences: `rchLink` -/

theorem rchLink_ok_iff (n : Nat) (s : State) (nd : Node) (hn : s.nodes[n]? = some nd) :
    ((rchLink n).run.run s).1 = .ok () ↔ (0 ≤ nd.height ∧ nd.height ≤ s.rch.maxAllowed) := by
  rw [rchLink_run, hn]
  simp only
  split
  · simp; omega
  · split
    · simp; omega
    · simp; omega

theorem rchLink_no_node (n : Nat) (s : State) (hn : s.nodes[n]? = none) :
    (rchLink n).run.run s = (.error (.site "model:no-such-node"), s) := by
  rw [rchLink_run, hn]

/-- without debug assertions `insert` fails exactly when `link` does -/
theorem rchInsert_ok_iff (n : Nat) (s : State) (nd : Node) (hn : s.nodes[n]? = some nd)
    (hd : s.cfg.debug = false) :
    ((rchInsert n).run.run s).1 = .ok () ↔ (0 ≤ nd.height ∧ nd.height ≤ s.rch.maxAllowed) := by
  rw [rchInsert_run, hn]
  simp only [hd, Bool.false_eq_true, false_and, if_false]
  split
  · simp; omega
  · split
    · simp; omega
    · simp; omega

/-! ## `ahhAddUnlessMem`, `ensureHeightRequirement` -/

/-- node `n` marked as a member of the adjust-heights heap at height `h` -/
def ahhMarked (n : Nat) (h : Int) (s : State) : State :=
  { s with nodes := s.nodes.modify n fun x => { x with heightInAhh := h } }

/-- ... and appended to bucket `h` -/
def ahhAdded (n : Nat) (h : Int) (s : State) : State :=
  { s with
    nodes := s.nodes.modify n fun x => { x with heightInAhh := h }
    ahh := { queues := s.ahh.queues.modify h.toNat (· ++ [n])
             length := s.ahh.length + 1
             lowerBound := s.ahh.lowerBound } }

theorem ahhAddUnlessMem_run (n : Nat) (s : State) (nd : Node) (hn : s.nodes[n]? = some nd) :
    (ahhAddUnlessMem n).run.run s =
      if (nd.heightInAhh == -1) = false then (.ok (), s)
      else if s.cfg.debug = true ∧ decide (nd.height ≥ s.ahh.lowerBound) = false then
        (.error (.site "adjust_heights_heap:add:height>=lower_bound"), s)
      else if s.cfg.debug = true ∧ decide (nd.height ≤ s.ahh.maxAllowed) = false then
        (.error (.site "adjust_heights_heap:add:height<=max"), s)
      else if (decide (nd.height < 0) || decide (nd.height.toNat ≥ s.ahh.queues.size)) = true then
        (.error (.site "adjust_heights_heap:add:no-queue"), ahhMarked n nd.height s)
      else (.ok (), ahhAdded n nd.height s) := by
  simp only [ahhAddUnlessMem, run_bind, run_getNode, hn]
  cases h0 : (nd.heightInAhh == -1)
  · simp only [Bool.false_eq_true, if_false, if_true]; rfl
  · simp only [if_true, Bool.true_eq_false, if_false, run_bind, run_get, run_dassert]
    by_cases h1 : s.cfg.debug = true ∧ decide (nd.height ≥ s.ahh.lowerBound) = false
    · simp only [if_pos h1]
    · simp only [if_neg h1]
      by_cases h2 : s.cfg.debug = true ∧ decide (nd.height ≤ s.ahh.maxAllowed) = false
      · simp only [if_pos h2]
      · simp only [if_neg h2, run_modNode, run_ite, run_modify]
        by_cases h3 : (decide (nd.height < 0) || decide (nd.height.toNat ≥ s.ahh.queues.size)) = true
        · simp only [if_pos h3]; rfl
        · simp only [if_neg h3]; rfl

/-- whatever `ahhAddUnlessMem` does, it leaves heights, the limit and the largest height seen alone -/
theorem ahhAddUnlessMem_frame (n : Nat) (s : State) (nd : Node) (hn : s.nodes[n]? = some nd) :
    let s1 := ((ahhAddUnlessMem n).run.run s).2
    s1.maxHeightSeen = s.maxHeightSeen ∧ s1.ahh.maxAllowed = s.ahh.maxAllowed ∧
      s1.nodes.size = s.nodes.size ∧ (∀ m, (s1.nodeD m).height = (s.nodeD m).height) ∧
      s1.rch = s.rch := by
  have hnodes : ∀ (h : Int) (m : Nat),
      ((ahhMarked n h s).nodeD m).height = (s.nodeD m).height := by
    intro h m
    simp only [ahhMarked, State.nodeD, Array.getElem?_modify]
    split
    · cases s.nodes[m]? <;> rfl
    · rfl
  rw [ahhAddUnlessMem_run n s nd hn]
  split
  · exact ⟨rfl, rfl, rfl, fun _ => rfl, rfl⟩
  · split
    · exact ⟨rfl, rfl, rfl, fun _ => rfl, rfl⟩
    · split
      · exact ⟨rfl, rfl, rfl, fun _ => rfl, rfl⟩
      · split
        · exact ⟨rfl, rfl, by simp [ahhMarked], hnodes _, rfl⟩
        · refine ⟨rfl, ?_, by simp [ahhAdded], hnodes _, rfl⟩
          simp [ahhAdded, Heap.maxAllowed]

theorem ensureHeightRequirement_run (oc op child parent : Nat) (s : State) (c p : Node)
    (hc : s.nodes[child]? = some c) (hp : s.nodes[parent]? = some p) :
    (ensureHeightRequirement oc op child parent).run.run s =
      if s.cfg.debug = true ∧ s.isNecessary child = false then
        (.error (.site "adjust_heights_heap:ensure:child-necessary"), s)
      else if s.cfg.debug = true ∧ s.isNecessary parent = false then
        (.error (.site "adjust_heights_heap:ensure:parent-necessary"), s)
      else if (parent == oc) = true then (.error (.site "cyclic"), s)
      else if c.height ≥ p.height then
        match (ahhAddUnlessMem parent).run.run s with
        | (.ok _, s1) => (setHeight parent (c.height + 1)).run.run s1
        | (.error e, s1) => (.error e, s1)
      else (.ok (), s) := by
  simp only [ensureHeightRequirement, run_bind, run_get, run_dassert]
  by_cases h1 : s.cfg.debug = true ∧ s.isNecessary child = false
  · simp only [if_pos h1]
  · simp only [if_neg h1]
    by_cases h2 : s.cfg.debug = true ∧ s.isNecessary parent = false
    · simp only [if_pos h2]
    · simp only [if_neg h2, run_ite, run_panic, run_bind, run_getNode, hc, hp, run_pure]
      by_cases h3 : (parent == oc) = true
      · simp only [if_pos h3]
      · simp only [if_neg h3]
        by_cases h4 : c.height ≥ p.height
        · simp only [if_pos h4]
          rcases (ahhAddUnlessMem parent).run.run s with ⟨_ | _, _⟩ <;> rfl
        · simp only [if_neg h4]

/-- `ensure_height_requirement` can never lift a parent above the limit: if it returns, either
nothing had to be done, or the parent now has height `child + 1` and that is within what
`set_height` accepts. -/
theorem ensureHeightRequirement_ok (oc op child parent : Nat) (s s' : State) (c p : Node)
    (hc : s.nodes[child]? = some c) (hp : s.nodes[parent]? = some p)
    (hr : (ensureHeightRequirement oc op child parent).run.run s = (.ok (), s')) :
    (c.height < p.height → s' = s) ∧
    (p.height ≤ c.height →
      (s'.nodeD parent).height = c.height + 1 ∧
      (c.height + 1 ≤ s.maxHeightSeen ∨ c.height + 1 ≤ s.ahh.maxAllowed) ∧
      s'.maxHeightSeen = max s.maxHeightSeen (c.height + 1) ∧
      s'.ahh.maxAllowed = s.ahh.maxAllowed) := by
  rw [ensureHeightRequirement_run oc op child parent s c p hc hp] at hr
  by_cases h1 : s.cfg.debug = true ∧ s.isNecessary child = false
  · rw [if_pos h1] at hr; cases hr
  rw [if_neg h1] at hr
  by_cases h2 : s.cfg.debug = true ∧ s.isNecessary parent = false
  · rw [if_pos h2] at hr; cases hr
  rw [if_neg h2] at hr
  by_cases h3 : (parent == oc) = true
  · rw [if_pos h3] at hr; cases hr
  rw [if_neg h3] at hr
  by_cases h4 : c.height ≥ p.height
  · rw [if_pos h4] at hr
    refine ⟨fun h => by omega, fun _ => ?_⟩
    have hf := ahhAddUnlessMem_frame parent s p hp
    rcases hadd : (ahhAddUnlessMem parent).run.run s with ⟨e | u, s1⟩
    · rw [hadd] at hr; cases hr
    · rw [hadd] at hr hf
      simp only at hr hf
      obtain ⟨f1, f2, f3, _, _⟩ := hf
      have hlt : parent < s1.nodes.size := by
        rw [f3]; exact (Array.getElem?_eq_some_iff.1 hp).1
      have hok := (setHeight_ok_iff parent (c.height + 1) s1).1 (by rw [hr])
      obtain ⟨g1, g2, _, g4, _⟩ := setHeight_ok_state parent (c.height + 1) s1 s' hr
      refine ⟨g1 hlt, ?_, by rw [g2, f1], by rw [g4, f2]⟩
      rw [f1, f2] at hok
      omega
  · rw [if_neg h4] at hr
    cases hr
    exact ⟨fun _ => rfl, fun h => by omega⟩

/-- the limit at the place where heights grow: raising a parent to `child + 1` above the limit
always panics (given the largest height seen is within the limit) -/
theorem ensureHeightRequirement_limit (oc op child parent : Nat) (s : State) (c p : Node)
    (hc : s.nodes[child]? = some c) (hp : s.nodes[parent]? = some p)
    (inv : s.maxHeightSeen ≤ s.ahh.maxAllowed)
    (hge : p.height ≤ c.height) (hlim : c.height + 1 > s.ahh.maxAllowed) :
    ((ensureHeightRequirement oc op child parent).run.run s).1 ≠ .ok () := by
  intro h
  rcases hrun : (ensureHeightRequirement oc op child parent).run.run s with ⟨r, s'⟩
  rw [hrun] at h
  simp only at h
  subst h
  have := (ensureHeightRequirement_ok oc op child parent s s' c p hc hp hrun).2 hge
  omega

/-! ## example states (non-vacuity witnesses used by `Props/C19.lean`) -/

/-- limit 4, one node, no debug assertions -/
def exH : State :=
  { State.init 4 false with nodes := #[{ kind := .const .unit, createdIn := .top, height := 2 }] }

/-- the same with debug assertions on -/
def exHd : State :=
  { State.init 4 true with nodes := #[{ kind := .const .unit, createdIn := .top, height := 2 }] }

/-- two necessary nodes, both at the limit 4: node 1 cannot become a parent of node 0 -/
def exHfull : State :=
  { State.init 4 false with
    maxHeightSeen := 4
    nodes := #[{ kind := .const .unit, createdIn := .top, height := 4, forceNecessary := true },
               { kind := .map 0 [0], createdIn := .top, height := 4, forceNecessary := true }] }

/-- `exH` during a stabilisation -/
def exHs : State := { exH with status := .stabilising }

end IncrVerif.Proofs
