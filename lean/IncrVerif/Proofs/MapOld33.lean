import IncrVerif.Proofs.MapOld32
/-!
# C17 for `opCalls`, continued: fold, merge, partition, the first run, examples

`x0` is the input the closure last ran on (closure state), `x` the current input, both `Canon`; the stored previous
output is `some (opSpec d g x0)` (`opReach`).  No hypothesis on the shape of `x0` / `x` is needed: the closures read a
value of the wrong shape as an empty map (`asMap`, `mergeIn`), and so do the statements.
-/
namespace IncrVerif.Proofs.MapOldH
open IncrVerif IncrVerif.Engine IncrVerif.MapOps IncrVerif.Proofs IncrVerif.Proofs.Ops

theorem C17name_add (m : Nat) : C17name m "add" = s!"M{m}.add" := by
  have e : toString "." ++ toString "add" = toString ".add" := by decide
  simp only [C17name]
  rw [String.append_assoc, e]

theorem C17name_remove (m : Nat) : C17name m "remove" = s!"M{m}.remove" := by
  have e : toString "." ++ toString "remove" = toString ".remove" := by decide
  simp only [C17name]
  rw [String.append_assoc, e]

theorem C17name_update (m : Nat) : C17name m "update" = s!"M{m}.update" := by
  have e : toString "." ++ toString "update" = toString ".update" := by decide
  simp only [C17name]
  rw [String.append_assoc, e]

theorem C17name_merge (m : Nat) : C17name m "merge" = s!"M{m}.merge" := by
  have e : toString "." ++ toString "merge" = toString ".merge" := by decide
  simp only [C17name]
  rw [String.append_assoc, e]

/-! ## (3) fold -/

/-- what is logged for a call of the fold: `M{m}.add` / `M{m}.remove` / `M{m}.update`, first argument a key with `P` -/
def C17FoldEv (m : Nat) (P : Int → Prop) (e : String × List Val × String) : Prop :=
  ∃ k rest, e.2.1 = .int k :: rest ∧ P k ∧
    (e.1 = s!"M{m}.add" ∨ e.1 = s!"M{m}.remove" ∨ e.1 = s!"M{m}.update")

/-- the log of the fold closure only mentions keys of the calls of `ufoldStep` -/
theorem C17foldStep_log (p : OpParams) (m : Nat) (upd : Bool) (input oldIn : AMap Int) (P : Int → Prop)
    (calls : List Call) (hc : ∀ c, c ∈ calls → P c.2) :
    ∀ acc : Int × List (String × List Val × String), (∀ e, e ∈ acc.2 → C17FoldEv m P e) →
      ∀ e, e ∈ (calls.foldl (C17foldStep p m upd input oldIn) acc).2 → C17FoldEv m P e := by
  induction calls with
  | nil => intro acc h; exact h
  | cons c cs ih =>
    intro acc h
    rw [List.foldl_cons]
    apply ih (fun c' hc' => hc c' (List.mem_cons_of_mem _ hc'))
    have hk := hc c (List.mem_cons_self ..)
    rcases acc with ⟨a, evs⟩
    rcases c with ⟨role, k⟩
    cases role with
    | fn => exact h
    | merge => exact h
    | add =>
      intro e he
      rcases List.mem_append.1 he with h' | h'
      · exact h e h'
      · rw [List.mem_singleton.1 h']
        exact ⟨k, _, rfl, hk, .inl (C17name_add m)⟩
    | remove =>
      intro e he
      rcases List.mem_append.1 he with h' | h'
      · exact h e h'
      · rw [List.mem_singleton.1 h']
        exact ⟨k, _, rfl, hk, .inr (.inl (C17name_remove m))⟩
    | update =>
      cases upd with
      | true =>
        intro e he
        rcases List.mem_append.1 he with h' | h'
        · exact h e h'
        · rw [List.mem_singleton.1 h']
          exact ⟨k, _, rfl, hk, .inr (.inr (C17name_update m))⟩
      | false =>
        intro e he
        rcases List.mem_append.1 he with h' | h'
        · exact h e h'
        · rcases List.mem_cons.1 h' with h'' | h''
          · rw [h'']
            exact ⟨k, _, rfl, hk, .inr (.inl (C17name_remove m))⟩
          · rw [List.mem_singleton.1 h'']
            exact ⟨k, _, rfl, hk, .inl (C17name_add m)⟩

theorem C17opUFold_rev (p : OpParams) (upd rev : Bool) : (opUFold p upd rev).revertToInitWhenEmpty = rev := by
  cases upd <;> rfl

/-- **C17, fold.**  Every call logged in the step from `(x0, some (opSpec d g x0))` on `x` is an `add`, `remove` or
`update` whose first argument is a key `k` whose binding in `x` differs from its binding in `x0` (a key of the
symmetric diff).  With `upd = false` an `update` diff entry is logged as a `remove` and an `add`, both for that key.
(In the revert-to-init branch — `rev = true`, `x` empty — there is no call at all: `C17_fold_revert`.) -/
theorem C17_fold_calls (d : Defs) (g m : Nat) (rev upd : Bool) (hd : decodeOp g = (.fold rev upd, m)) (x0 x : Val)
    (h0 : Canon x0) (hx : Canon x) :
    ∀ c, c ∈ opCalls d g x0 (some (opSpec d g x0)) x →
      ∃ k rest, c.2.1 = .int k :: rest ∧ AMap.lookup (asMap x) k ≠ AMap.lookup (asMap x0) k ∧
        (c.1 = s!"M{m}.add" ∨ c.1 = s!"M{m}.remove" ∨ c.1 = s!"M{m}.update") := by
  rw [opCalls_fold d g m rev upd hd, opSpec_fold d g m rev upd hd]
  have hold : (foldOld x0 (some (.int (ufoldSpecSum (opG (d.opParams m)) (d.opParams m).c (asMap x0)))) = none ∧
        asMap x0 = []) ∨
      ∃ o, foldOld x0 (some (.int (ufoldSpecSum (opG (d.opParams m)) (d.opParams m).c (asMap x0)))) =
        some (asMap x0, o) := by
    rcases C17foldOld_cases x0 (ufoldSpecSum (opG (d.opParams m)) (d.opParams m).c (asMap x0)) with h | h
    · exact .inl h
    · exact .inr ⟨_, h⟩
  exact C17foldStep_log (d.opParams m) m upd (asMap x) _
    (fun k => AMap.lookup (asMap x) k ≠ AMap.lookup (asMap x0) k) _
    (fun c hc => (C17ufold_keys _ _ _ (asMap x0) (asMap x) (canon_asMap h0) (canon_asMap hx) hold c hc).1)
    _ (fun e he => absurd he List.not_mem_nil)

/-- the revert-to-init branch of the fold: no call -/
theorem C17_fold_revert (d : Defs) (g m : Nat) (upd : Bool) (hd : decodeOp g = (.fold true upd, m)) (oi : AMap Int)
    (x : Val) (hx : asMap x = []) : opCalls d g (.map oi) (some (opSpec d g (.map oi))) x = [] := by
  rw [opCalls_fold d g m true upd hd, opSpec_fold d g m true upd hd, hx]
  have e : foldOld (.map oi) (some (.int (ufoldSpecSum (opG (d.opParams m)) (d.opParams m).c (asMap (.map oi))))) =
      some (oi, ufoldSpecSum (opG (d.opParams m)) (d.opParams m).c (asMap (.map oi))) := rfl
  rw [e, Props.C17.ufold_revert_no_calls _ _ _ _ (C17opUFold_rev _ _ _)]
  rfl

/-! ## (4) merge -/

/-- **C17, merge.**  Every call logged in the step from `(x0, some (opSpec d g x0))` on `x` is a call of the merge
function for a key `k` whose binding differs between the old and the new left input or between the old and the new
right input; the arguments are `k` and what the new left / right input hold for `k`. -/
theorem C17_merge_calls_gen (d : Defs) (g m : Nat) (hd : decodeOp g = (.merge, m)) (x0 x : Val)
    (h0 : Canon x0) (hx : Canon x) :
    ∀ c, c ∈ opCalls d g x0 (some (opSpec d g x0)) x →
      ∃ k, c = (s!"M{m}.merge",
            [.int k, optVal (AMap.lookup (mergeIn x).1 k), optVal (AMap.lookup (mergeIn x).2 k)],
            optStr (opMergeFn (d.opParams m) k
              (C17mergeArg (AMap.lookup (mergeIn x).1 k) (AMap.lookup (mergeIn x).2 k)))) ∧
        (AMap.lookup (mergeIn x).1 k ≠ AMap.lookup (mergeIn x0).1 k ∨
          AMap.lookup (mergeIn x).2 k ≠ AMap.lookup (mergeIn x0).2 k) := by
  rw [opCalls_merge d g m hd, opSpec_merge d g m hd]
  obtain ⟨o', e⟩ := C17mergeOldT_step (opMergeFn (d.opParams m)) x0
    (mergeSpec' (opMergeFn (d.opParams m)) (mergeIn x0).1 (mergeIn x0).2) (mergeIn x).1 (mergeIn x).2
  rw [e]
  intro c hc
  obtain ⟨call, hcall, rfl⟩ := List.mem_map.1 hc
  obtain ⟨-, h2⟩ := Props.C17.merge_calls_only_changed _ _ _ _ _ _ (canon_mergeIn h0).1 (canon_mergeIn h0).2
    (canon_mergeIn hx).1 (canon_mergeIn hx).2 call hcall
  refine ⟨call.2, ?_, ?_⟩
  · simp only [C17mergeEv, C17name_merge]
  · rcases h2 with h | h
    · exact .inl fun hh => h hh.symm
    · exact .inr fun hh => h hh.symm

/-- the form asked for: `x0 = .pair a0 b0`, `x = .pair a b` -/
theorem C17_merge_calls (d : Defs) (g m : Nat) (hd : decodeOp g = (.merge, m)) (a0 b0 a b : Val)
    (h0 : Canon (.pair a0 b0)) (hx : Canon (.pair a b)) :
    ∀ c, c ∈ opCalls d g (.pair a0 b0) (some (opSpec d g (.pair a0 b0))) (.pair a b) →
      ∃ k l r, c.2.1 = [.int k, l, r] ∧
        (AMap.lookup (asMap a) k ≠ AMap.lookup (asMap a0) k ∨ AMap.lookup (asMap b) k ≠ AMap.lookup (asMap b0) k) := by
  intro c hc
  obtain ⟨k, rfl, h⟩ := C17_merge_calls_gen d g m hd _ _ h0 hx c hc
  exact ⟨k, _, _, rfl, h⟩

/-! ## (5) partition -/

/-- **C17, partition.**  Every call logged in the step from `(x0, some (opSpec d g x0))` on `x` is a call of the
partition function for a binding `k ↦ v` of `x` that `x0` did not hold (removed keys: no call). -/
theorem C17_part_calls (d : Defs) (g m : Nat) (hd : decodeOp g = (.part, m)) (x0 x : Val)
    (h0 : Canon x0) (hx : Canon x) :
    ∀ c, c ∈ opCalls d g x0 (some (opSpec d g x0)) x →
      ∃ k v, c = (s!"M{m}.fn", [.int k, .int v], C17eitherStr (opPartFn (d.opParams m) k v)) ∧
        AMap.lookup (asMap x) k = some v ∧ AMap.lookup (asMap x0) k ≠ some v := by
  rw [opCalls_part d g m hd, opSpec_part d g m hd]
  have hold : (partOld x0 (some (.pair (.map (partitionSpec (opPartFn (d.opParams m)) (asMap x0)).1)
          (.map (partitionSpec (opPartFn (d.opParams m)) (asMap x0)).2))) = none ∧ asMap x0 = []) ∨
      ∃ o, partOld x0 (some (.pair (.map (partitionSpec (opPartFn (d.opParams m)) (asMap x0)).1)
          (.map (partitionSpec (opPartFn (d.opParams m)) (asMap x0)).2))) = some (asMap x0, o) := by
    rcases C17partOld_cases x0 (partitionSpec (opPartFn (d.opParams m)) (asMap x0)).1
      (partitionSpec (opPartFn (d.opParams m)) (asMap x0)).2 with h | h
    · exact .inl h
    · exact .inr ⟨_, h⟩
  intro c hc
  obtain ⟨call, hcall, hev⟩ := List.mem_filterMap.1 hc
  obtain ⟨h1, h2⟩ := C17ufold_keys _ _ _ (asMap x0) (asMap x) (canon_asMap h0) (canon_asMap hx) hold call hcall
  by_cases hr : call.1 = Role.remove
  · simp [C17partEv, hr] at hev
  · obtain ⟨v, hv⟩ := h2 hr
    simp only [C17partEv, beq_iff_eq, hr, if_false, Option.some.injEq, hv, Option.getD_some, C17name_fn] at hev
    refine ⟨call.2, v, hev.symm, hv, ?_⟩
    intro hh
    exact h1 (by rw [hv, hh])

/-! ## (6) the first run / a restart (`old = none`) -/

theorem C17fmOld_none (σ : Val) : fmOld σ none = none := by cases σ <;> rfl
theorem C17partOld_none (σ : Val) : partOld σ none = none := by cases σ <;> rfl

/-- filter-map without a stored previous output (fresh node, or the node was invalidated): one call per binding of the
input, in key order -/
theorem C17_fm_first (d : Defs) (g m : Nat) (hd : decodeOp g = (.fm, m)) (σ x : Val) (hx : Canon x) :
    opCalls d g σ none x =
      (asMap x).map fun kv => (s!"M{m}.fn", [.int kv.1, .int kv.2], optStr (opFmFn (d.opParams m) kv.1 kv.2)) := by
  rw [opCalls_fm d g m hd, C17fmOld_none, filterMapiStep_none]
  show List.map _ (List.map _ _) = _
  rw [List.map_map]
  apply List.map_congr_left
  intro kv hkv
  simp only [Function.comp, C17fmEv, AMap.lookup_of_mem (asMap x) (canon_asMap hx) kv hkv, Option.getD_some,
    C17name_fn]

theorem C17filterMap_eq_map {α β : Type} (f : α → Option β) (g : α → β) (l : List α)
    (h : ∀ a, a ∈ l → f a = some (g a)) : l.filterMap f = l.map g := by
  induction l with
  | nil => rfl
  | cons a l ih =>
    rw [List.filterMap_cons, h a (List.mem_cons_self ..), List.map_cons,
      ih (fun b hb => h b (List.mem_cons_of_mem _ hb))]

/-- partition without a stored previous output: one call per binding of the input, in key order -/
theorem C17_part_first (d : Defs) (g m : Nat) (hd : decodeOp g = (.part, m)) (σ x : Val) (hx : Canon x) :
    opCalls d g σ none x =
      (asMap x).map fun kv => (s!"M{m}.fn", [.int kv.1, .int kv.2],
        C17eitherStr (opPartFn (d.opParams m) kv.1 kv.2)) := by
  rw [opCalls_part d g m hd, C17partOld_none, ufoldStep_none]
  show List.filterMap _ (List.map _ _) = _
  rw [List.filterMap_map]
  apply C17filterMap_eq_map
  intro kv hkv
  simp [Function.comp, C17partEv, AMap.lookup_of_mem (asMap x) (canon_asMap hx) kv hkv, C17name_fn]

/-! ## the link to `Defs.toEnv` and to the operator ids of W30 -/

/-- what the harness logs for machine `g ≥ opBase` is `opCalls` -/
theorem C17toEnv_calls (d : Defs) (g : Nat) (hg : opBase ≤ g) (σ : Val) (old : Option Val) (x : Val) :
    d.toEnv.withOldCalls g σ old x = opCalls d g σ old x := by
  simp only [Defs.toEnv, ge_iff_le, hg, if_true]

-- the statements apply to the ids decoded in W30
example (d : Defs) (m : Nat) (hm : m < 100000) (x0 x : Val) (h0 : Canon x0) (hx : Canon x)
    (c : String × List Val × String) :
    c ∈ d.toEnv.withOldCalls (opBase + m) x0 (some (opSpec d (opBase + m) x0)) x ↔
      ∃ k v, c = (s!"M{m}.fn", [.int k, .int v], optStr (opFmFn (d.opParams m) k v)) ∧
        AMap.lookup (asMap x) k = some v ∧ AMap.lookup (asMap x0) k ≠ some v := by
  rw [C17toEnv_calls d _ (Nat.le_add_right ..)]
  exact C17_fm_calls_iff d (opBase + m) m (decodeOp_fm hm) x0 x h0 hx c

example (d : Defs) (m : Nat) (rev upd : Bool) (hm : m < 10000) (x0 x : Val) (h0 : Canon x0) (hx : Canon x) :=
  C17_fold_calls d _ m rev upd (decodeOp_fold rev upd hm) x0 x h0 hx

example (d : Defs) (m : Nat) (hm : m < 100000) (x0 x : Val) (h0 : Canon x0) (hx : Canon x) :=
  C17_merge_calls_gen d _ m (decodeOp_merge hm) x0 x h0 hx

example (d : Defs) (m : Nat) (hm : m < 100000) (x0 x : Val) (h0 : Canon x0) (hx : Canon x) :=
  C17_part_calls d _ m (decodeOp_part hm) x0 x h0 hx

/-! ## non-vacuity: concrete steps (family `M0`: `a = 2, b = 1, m = 3, r = 0, c = 5`) -/

-- filter-map: key 2 changed, keys 1 and 4 untouched: one call, for key 2
example : opSpec exDefs opBase (.map [(1, 1), (2, 1), (4, 4)]) = .map [(1, 3), (4, 5)] ∧
    opCalls exDefs opBase (.map [(1, 1), (2, 1), (4, 4)]) (some (.map [(1, 3), (4, 5)]))
      (.map [(1, 1), (2, 2), (4, 4)]) = [("M0.fn", [.int 2, .int 2], "6")] := by decide

-- fold with the default `update` (`upd = false`): key 2 changed (a `remove` and an `add`), key 4 removed, key 5 added;
-- nothing for the untouched key 1
example : opSpec exDefs (opBase + 100000) (.map [(1, 1), (2, 1), (4, 4)]) = .int 24 ∧
    opCalls exDefs (opBase + 100000) (.map [(1, 1), (2, 1), (4, 4)]) (some (.int 24))
      (.map [(1, 1), (2, 2), (5, 0)]) =
      [("M0.remove", [.int 2, .int 1], "20"), ("M0.add", [.int 2, .int 2], "26"),
       ("M0.remove", [.int 4, .int 4], "14"), ("M0.add", [.int 5, .int 0], "19")] := by decide

-- fold with a custom `update` (`upd = true`): one `update` call for key 2
example : opCalls exDefs (opBase + 110000) (.map [(1, 1), (2, 1), (4, 4)]) (some (.int 24))
      (.map [(1, 1), (2, 2), (5, 0)]) =
      [("M0.update", [.int 2, .int 1, .int 2], "26"), ("M0.remove", [.int 4, .int 4], "14"),
       ("M0.add", [.int 5, .int 0], "19")] := by decide

-- merge: only key 3 of the left input changed: one call
example : opSpec exDefs (opBase + 200000) (.pair (.map [(1, 2), (3, 3)]) (.map [(1, 3), (2, 5)])) =
      .map [(1, 5), (2, 3), (3, 3)] ∧
    opCalls exDefs (opBase + 200000) (.pair (.map [(1, 2), (3, 3)]) (.map [(1, 3), (2, 5)]))
      (some (.map [(1, 5), (2, 3), (3, 3)])) (.pair (.map [(1, 2), (3, 4)]) (.map [(1, 3), (2, 5)])) =
      [("M0.merge", [.int 3, .int 4, .unit], "4")] := by decide

-- partition: key 2 changed, key 4 removed (no call), key 5 added
example : opCalls exDefs (opBase + 300000) (.map [(1, 1), (2, 1), (4, 4)])
      (some (.pair (.map [(2, 1)]) (.map [(1, 2), (4, 5)]))) (.map [(1, 1), (2, 2), (5, 0)]) =
      [("M0.fn", [.int 2, .int 2], "R3"), ("M0.fn", [.int 5, .int 0], "R1")] := by decide

-- the same input again: no call
example : opCalls exDefs opBase (.map [(1, 1), (2, 1), (4, 4)]) (some (.map [(1, 3), (4, 5)]))
    (.map [(1, 1), (2, 1), (4, 4)]) = [] := by decide

end IncrVerif.Proofs.MapOldH
