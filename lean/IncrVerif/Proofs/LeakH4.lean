import IncrVerif.Proofs.LeakH3
/-!
# C12 over histories, part 4: no roots after the `stabilise`

`HoldsNothing s`: the program holds no node handle, no shared cell, no `Var` handle, no observer handle.
`ObsDead s`: an observer without handles has been disallowed (`Observer::drop` of the last clone calls
`disallow_future_use`).  `VarDead s`: a variable without handles that is still linked to its watch node is
queued in `deadVars` (`Var::drop` of the last clone).  Then after one `stabilise`: `roots = []`.
-/
namespace IncrVerif.Proofs.LeakH
open IncrVerif.Engine IncrVerif.Driver IncrVerif.Proofs IncrVerif.Proofs.Step IncrVerif.Proofs.Sched
open IncrVerif.Proofs.Quiet

structure HoldsNothing (s : State) : Prop where
  handles : s.handles = []
  slots : s.slots = []
  vars : ∀ (c : Nat) (vc : VarCell), s.vars[c]? = some vc → vc.handles = 0
  observers : ∀ (o : Nat) (ob : ObsRec), s.observers[o]? = some ob → ob.clones = 0

def ObsDead (s : State) : Prop :=
  ∀ (o : Nat) (ob : ObsRec), s.observers[o]? = some ob → ob.clones = 0 →
    ob.state = .disallowed ∨ ob.state = .unlinked

def VarDead (s : State) : Prop :=
  ∀ (c : Nat) (vc : VarCell), s.vars[c]? = some vc → vc.handles = 0 → vc.linked = true → c ∈ s.deadVars

theorem killVars_get : ∀ (dead : List Nat) (vs : Array VarCell) (c : Nat) (vc' : VarCell),
    (killVars dead vs)[c]? = some vc' →
    ∃ vc, vs[c]? = some vc ∧ vc'.handles = vc.handles ∧ (vc'.linked = true → vc.linked = true ∧ c ∉ dead) := by
  intro dead
  induction dead with
  | nil => intro vs c vc' h; exact ⟨vc', h, rfl, fun hl => ⟨hl, by simp⟩⟩
  | cons a l ih =>
    intro vs c vc' h
    have h' : (killVars l (vs.modify a fun x => { x with linked := false }))[c]? = some vc' := h
    obtain ⟨vc1, h1, hh, hl⟩ := ih _ c vc' h'
    rw [Array.getElem?_modify] at h1
    by_cases hac : a = c
    · rw [if_pos hac] at h1
      cases hv : vs[c]? with
      | none => rw [hv] at h1; cases h1
      | some vc =>
        rw [hv] at h1
        simp only [Option.map_some, Option.some.injEq] at h1
        refine ⟨vc, rfl, by rw [hh, ← h1], fun hlk => ?_⟩
        have := (hl hlk).1
        rw [← h1] at this
        cases this
    · rw [if_neg hac] at h1
      refine ⟨vc1, h1, hh, fun hlk => ⟨(hl hlk).1, ?_⟩⟩
      intro hm
      rcases List.mem_cons.1 hm with e | e
      · exact hac e.symm
      · exact (hl hlk).2 e

theorem mem_toList_getElem? {α} {a : Array α} {x : α} (h : x ∈ a.toList) : ∃ i : Nat, a[i]? = some x := by
  obtain ⟨i, hi, e⟩ := List.getElem_of_mem h
  refine ⟨i, ?_⟩
  have hi' : i < a.size := by simpa using hi
  rw [Array.getElem?_eq_getElem hi']
  simpa using e

theorem roots_nil_of_freed {s s' : State} (F : Freed s s') (H : HoldsNothing s) (OD : ObsDead s)
    (VD : VarDead s) : s'.roots = [] := by
  have h1 : s'.handles = [] := by rw [F.handles]; exact H.handles
  have h2 : s'.slots = [] := by rw [F.slots]; exact H.slots
  have h3 : (s'.vars.toList.filterMap fun vc =>
      if vc.handles > 0 || vc.linked then some vc.node else none) = [] := by
    rw [List.filterMap_eq_nil_iff]
    intro vc' hm
    obtain ⟨c, hc⟩ := mem_toList_getElem? hm
    rw [F.vars] at hc
    obtain ⟨vc, hv, hh, hl⟩ := killVars_get _ _ _ _ hc
    have hz : vc'.handles = 0 := by rw [hh]; exact H.vars c vc hv
    have hlk : vc'.linked = false := by
      cases hb : vc'.linked with
      | false => rfl
      | true =>
        obtain ⟨hl1, hl2⟩ := hl hb
        exact absurd (VD c vc hv (H.vars c vc hv) hl1) hl2
    simp [hz, hlk]
  have h4 : (s'.observers.toList.filterMap fun ob =>
      if ob.clones > 0 || ob.state == .inUse || ob.state == .disallowed then some ob.node else none) = [] := by
    rw [List.filterMap_eq_nil_iff]
    intro ob' hm
    obtain ⟨o, ho⟩ := mem_toList_getElem? hm
    have hlt : o < s.observers.size := by
      rw [← F.obsSize]
      by_cases hlt : o < s'.observers.size
      · exact hlt
      · rw [Array.getElem?_eq_none (by omega)] at ho; cases ho
    obtain ⟨ob2, ho2, -, hcl, hst⟩ := F.obs o s.observers[o] (Array.getElem?_eq_getElem hlt)
    rw [ho] at ho2
    cases ho2
    have hob := Array.getElem?_eq_getElem hlt
    have hc0 : ob'.clones = 0 := by rw [hcl]; exact H.observers o _ hob
    have hun : ob'.state = .unlinked := by
      rw [hst]
      rcases OD o _ hob (H.observers o _ hob) with e | e <;> rw [e] <;> rfl
    simp [hc0, hun]
  unfold State.roots
  rw [h1, h2, h3, h4, F.heap]
  rfl

end IncrVerif.Proofs.LeakH
