import IncrVerif.Proofs.ExpertH33
/-!
# The frame `XS`: the driver fields `script` and `sel` of an expert record, which only `runEffects` touches
-/
namespace IncrVerif.Proofs.DriverH
open IncrVerif.Engine IncrVerif.Proofs IncrVerif.Proofs.Step IncrVerif.Proofs.ExpertH

/-- the driver fields of an expert record -/
def xSS (er : ExpertRec) := (er.script, er.sel)

structure XS (s s' : State) : Prop where
  xsize : s'.experts.size = s.experts.size
  xss : ∀ e : Nat, (s'.experts[e]?).map xSS = (s.experts[e]?).map xSS

theorem XS.refl (s : State) : XS s s := ⟨rfl, fun _ => rfl⟩
theorem XS.trans {a b c : State} (h1 : XS a b) (h2 : XS b c) : XS a c :=
  ⟨h2.xsize.trans h1.xsize, fun e => (h2.xss e).trans (h1.xss e)⟩
instance : Step.PreOrd XS := ⟨XS.refl, XS.trans⟩

theorem XS.of_experts {s s' : State} (h : s'.experts = s.experts) : XS s s' :=
  ⟨by rw [h], fun e => by rw [h]⟩

theorem XS.modNode (s : State) (n : Nat) (f : Node → Node) :
    XS s { s with nodes := s.nodes.modify n f } := XS.of_experts rfl

theorem XS.modExpert (s : State) (e : Nat) (f : ExpertRec → ExpertRec) (hf : ∀ x, xSS (f x) = xSS x) :
    XS s { s with experts := s.experts.modify e f } := by
  refine ⟨by simp, fun j => ?_⟩
  simp only [Array.getElem?_modify]
  split
  · cases s.experts[j]? <;> simp [hf]
  · rfl

theorem PresS.modNode (n : Nat) (f : Node → Node) : Step.Pres XS (Engine.modNode n f) := by
  unfold Engine.modNode; exact Step.Pres.modify fun s => XS.modNode s n f

theorem PresS.modExpert (e : Nat) (f : ExpertRec → ExpertRec) (hf : ∀ x, xSS (f x) = xSS x) :
    Step.Pres XS (Engine.modExpert e f) := by
  unfold Engine.modExpert; exact Step.Pres.modify fun s => XS.modExpert s e f hf

macro_rules
  | `(tactic| qleaf) =>
    `(tactic| ((with_reducible apply Step.Pres.modify); intro _; exact XS.of_experts rfl))
macro_rules
  | `(tactic| qleaf) => `(tactic| (with_reducible apply PresS.modNode))
macro_rules
  | `(tactic| qleaf) => `(tactic| ((with_reducible apply PresS.modExpert); intro _; rfl))

macro "xs_leaf " n:ident : command =>
  `(macro_rules | `(tactic| qleaf) => `(tactic| with_reducible apply $n))

theorem PresS.discard {α} {x : M α} (h : Step.Pres XS x) : Step.Pres XS (discard x) := by
  unfold Functor.discard; exact Step.Pres.map _ h
xs_leaf PresS.discard

theorem PresS.logEv (e) : Step.Pres XS (Engine.logEv e) := by unfold Engine.logEv; qpres
xs_leaf PresS.logEv
theorem PresS.tick : Step.Pres XS Engine.tick := by unfold Engine.tick; qpres
xs_leaf PresS.tick
theorem PresS.bumpCounter (f) : Step.Pres XS (Engine.bumpCounter f) := by unfold Engine.bumpCounter; qpres
xs_leaf PresS.bumpCounter
theorem PresS.modBind (b f) : Step.Pres XS (Engine.modBind b f) := by unfold Engine.modBind; qpres
xs_leaf PresS.modBind
theorem PresS.modObs (o f) : Step.Pres XS (Engine.modObs o f) := by unfold Engine.modObs; qpres
xs_leaf PresS.modObs
theorem PresS.modVar (v f) : Step.Pres XS (Engine.modVar v f) := by unfold Engine.modVar; qpres
xs_leaf PresS.modVar
theorem PresS.getObs (o) : Step.Pres XS (Engine.getObs o) := by unfold Engine.getObs; qpres
xs_leaf PresS.getObs
theorem PresS.getVar (v) : Step.Pres XS (Engine.getVar v) := Step.Pres.getVar v
theorem PresS.addParent (c i p) : Step.Pres XS (Engine.addParent c i p) := by unfold Engine.addParent; qpres
xs_leaf PresS.addParent
theorem PresS.removeParent (c i p) : Step.Pres XS (Engine.removeParent c i p) := by
  unfold Engine.removeParent; qpres
xs_leaf PresS.removeParent
theorem PresS.setHeight (n h) : Step.Pres XS (Engine.setHeight n h) := by unfold Engine.setHeight; qpres
xs_leaf PresS.setHeight
theorem PresS.rchLink (n) : Step.Pres XS (Engine.rchLink n) := by unfold Engine.rchLink; qpres
xs_leaf PresS.rchLink
theorem PresS.rchUnlink (n) : Step.Pres XS (Engine.rchUnlink n) := by unfold Engine.rchUnlink; qpres
xs_leaf PresS.rchUnlink
theorem PresS.rchInsert (n) : Step.Pres XS (Engine.rchInsert n) := by unfold Engine.rchInsert; qpres
xs_leaf PresS.rchInsert
theorem PresS.rchRemove (n) : Step.Pres XS (Engine.rchRemove n) := by unfold Engine.rchRemove; qpres
xs_leaf PresS.rchRemove
theorem PresS.rchRemoveMin : Step.Pres XS Engine.rchRemoveMin := by unfold Engine.rchRemoveMin; qpres
xs_leaf PresS.rchRemoveMin
theorem PresS.rchMinHeight : Step.Pres XS Engine.rchMinHeight := by unfold Engine.rchMinHeight; qpres
xs_leaf PresS.rchMinHeight
theorem PresS.rchIncreaseHeight (n) : Step.Pres XS (Engine.rchIncreaseHeight n) := by
  unfold Engine.rchIncreaseHeight; qpres
xs_leaf PresS.rchIncreaseHeight
theorem PresS.ahhAddUnlessMem (n) : Step.Pres XS (Engine.ahhAddUnlessMem n) := by
  unfold Engine.ahhAddUnlessMem; qpres
xs_leaf PresS.ahhAddUnlessMem
theorem PresS.ahhRemoveMin : Step.Pres XS Engine.ahhRemoveMin := by unfold Engine.ahhRemoveMin; qpres
xs_leaf PresS.ahhRemoveMin
theorem PresS.ensureHeightRequirement (oc op c p) : Step.Pres XS (Engine.ensureHeightRequirement oc op c p) := by
  unfold Engine.ensureHeightRequirement; qpres
xs_leaf PresS.ensureHeightRequirement

theorem PresS.adjustHeightsLoop (oc op fuel) : Step.Pres XS (Engine.adjustHeightsLoop oc op fuel) := by
  induction fuel with
  | zero => unfold Engine.adjustHeightsLoop; qpres
  | succ fuel ih =>
    unfold Engine.adjustHeightsLoop
    qpres
    all_goals first
      | exact ih
      | (apply Step.Pres.forIn; intro a b; qpres)
xs_leaf PresS.adjustHeightsLoop

theorem PresS.adjustHeights (oc op fuel) : Step.Pres XS (Engine.adjustHeights oc op fuel) := by
  unfold Engine.adjustHeights; qpres
xs_leaf PresS.adjustHeights

theorem PresS.scopeHeight (sc) : Step.Pres XS (Engine.scopeHeight sc) := Step.Pres.scopeHeight sc
theorem PresS.scopeIsNecessary (sc) : Step.Pres XS (Engine.scopeIsNecessary sc) := by
  unfold Engine.scopeIsNecessary; qpres
xs_leaf PresS.scopeIsNecessary
theorem PresS.handleAfterStabilisation (n) : Step.Pres XS (Engine.handleAfterStabilisation n) := by
  unfold Engine.handleAfterStabilisation; qpres
xs_leaf PresS.handleAfterStabilisation
theorem PresS.maybeHandleAfterStabilisation (n) : Step.Pres XS (Engine.maybeHandleAfterStabilisation n) := by
  unfold Engine.maybeHandleAfterStabilisation; qpres
xs_leaf PresS.maybeHandleAfterStabilisation
theorem PresS.edgeOnChange (env e edge) : Step.Pres XS (Engine.edgeOnChange env e edge) := by
  unfold Engine.edgeOnChange; qpres
xs_leaf PresS.edgeOnChange
theorem PresS.runEdgeCallback (env e i) : Step.Pres XS (Engine.runEdgeCallback env e i) := by
  unfold Engine.runEdgeCallback; qpres
xs_leaf PresS.runEdgeCallback
theorem PresS.observabilityChange (e b) : Step.Pres XS (Engine.observabilityChange e b) := by
  unfold Engine.observabilityChange; qpres
xs_leaf PresS.observabilityChange

theorem PresS.markMapRefUnknown (fuel n) : Step.Pres XS (Engine.markMapRefUnknown fuel n) := by
  induction fuel generalizing n with
  | zero => unfold Engine.markMapRefUnknown; qpres
  | succ fuel ih =>
    unfold Engine.markMapRefUnknown
    qpres
    all_goals (apply Step.Pres.forIn; intro a b; qpres; all_goals exact ih _)
xs_leaf PresS.markMapRefUnknown

theorem PresS.link (env : Env) (fuel : Nat) :
    (∀ n, Step.Pres XS (Engine.becameNecessary env fuel n)) ∧
    (∀ c i p, Step.Pres XS (Engine.addParentWithoutAdjustingHeights env fuel c i p)) := by
  induction fuel with
  | zero =>
    constructor
    · intro n; unfold Engine.becameNecessary; qpres
    · intro c i p; unfold Engine.addParentWithoutAdjustingHeights; qpres
  | succ fuel ih =>
    constructor
    · intro n
      unfold Engine.becameNecessary
      qpres
      all_goals (apply Step.Pres.forIn; intro a b; qpres; all_goals exact ih.2 _ _ _)
    · intro c i p
      unfold Engine.addParentWithoutAdjustingHeights
      qpres
      all_goals exact ih.1 _

theorem PresS.becameNecessary (env fuel n) : Step.Pres XS (Engine.becameNecessary env fuel n) :=
  (PresS.link env fuel).1 n
xs_leaf PresS.becameNecessary
theorem PresS.addParentWithoutAdjustingHeights (env fuel c i p) :
    Step.Pres XS (Engine.addParentWithoutAdjustingHeights env fuel c i p) :=
  (PresS.link env fuel).2 c i p
xs_leaf PresS.addParentWithoutAdjustingHeights

theorem PresS.unlink (fuel : Nat) :
    (∀ n, Step.Pres XS (Engine.becameUnnecessary fuel n)) ∧
    (∀ n, Step.Pres XS (Engine.checkIfUnnecessary fuel n)) ∧
    (∀ n, Step.Pres XS (Engine.removeChildren fuel n)) := by
  induction fuel with
  | zero =>
    refine ⟨?_, ?_, ?_⟩
    · intro n; unfold Engine.becameUnnecessary; qpres
    · intro n; unfold Engine.checkIfUnnecessary; qpres
    · intro n; unfold Engine.removeChildren; qpres
  | succ fuel ih =>
    refine ⟨?_, ?_, ?_⟩
    · intro n
      unfold Engine.becameUnnecessary
      qpres
      all_goals exact ih.2.2 _
    · intro n
      unfold Engine.checkIfUnnecessary
      qpres
      all_goals exact ih.1 _
    · intro n
      unfold Engine.removeChildren
      qpres
      all_goals (apply Step.Pres.forIn; intro a b; qpres; all_goals exact ih.2.1 _)

theorem PresS.becameUnnecessary (fuel n) : Step.Pres XS (Engine.becameUnnecessary fuel n) :=
  (PresS.unlink fuel).1 n
xs_leaf PresS.becameUnnecessary
theorem PresS.checkIfUnnecessary (fuel n) : Step.Pres XS (Engine.checkIfUnnecessary fuel n) :=
  (PresS.unlink fuel).2.1 n
xs_leaf PresS.checkIfUnnecessary
theorem PresS.removeChildren (fuel n) : Step.Pres XS (Engine.removeChildren fuel n) :=
  (PresS.unlink fuel).2.2 n
xs_leaf PresS.removeChildren

theorem PresS.invalidateNode (fuel n) : Step.Pres XS (Engine.invalidateNode fuel n) := by
  induction fuel generalizing n with
  | zero => unfold Engine.invalidateNode; qpres
  | succ fuel ih =>
    unfold Engine.invalidateNode
    qpres
    all_goals (apply Step.Pres.forIn; intro a b; qpres; all_goals exact ih _)
xs_leaf PresS.invalidateNode

theorem PresS.propagateInvalidity (fuel) : Step.Pres XS (Engine.propagateInvalidity fuel) := by
  induction fuel with
  | zero => unfold Engine.propagateInvalidity; qpres
  | succ fuel ih =>
    unfold Engine.propagateInvalidity
    qpres
    all_goals exact ih
xs_leaf PresS.propagateInvalidity

theorem PresS.becameNecessaryPropagate (env fuel n) : Step.Pres XS (Engine.becameNecessaryPropagate env fuel n) := by
  unfold Engine.becameNecessaryPropagate; qpres
xs_leaf PresS.becameNecessaryPropagate
theorem PresS.stateAddParent (env fuel c i p) : Step.Pres XS (Engine.stateAddParent env fuel c i p) := by
  unfold Engine.stateAddParent; qpres
xs_leaf PresS.stateAddParent
theorem PresS.shouldCutoff (env n o v) : Step.Pres XS (Engine.shouldCutoff env n o v) := by
  unfold Engine.shouldCutoff; qpres
xs_leaf PresS.shouldCutoff

theorem PresS.childChanged (env : Env) (fuel p c ci : Nat) (o : Option Val) :
    Step.Pres XS (Engine.childChanged env fuel p c ci o) := by
  induction fuel generalizing p c ci o with
  | zero => unfold Engine.childChanged; qpres
  | succ fuel ih =>
    unfold Engine.childChanged
    qpres
    all_goals (apply Step.Pres.forIn; intro a b; qpres; all_goals exact ih _ _ _ _)
xs_leaf PresS.childChanged

theorem PresS.parentIterCanRecomputeNow (p c : Nat) : Step.Pres XS (Engine.parentIterCanRecomputeNow p c) := by
  unfold Engine.parentIterCanRecomputeNow; qpres
xs_leaf PresS.parentIterCanRecomputeNow

theorem PresS.maybeChangeValueManual (env fuel n o d b) :
    Step.Pres XS (Engine.maybeChangeValueManual env fuel n o d b) := by
  unfold Engine.maybeChangeValueManual
  qpres
  all_goals (apply Step.Pres.forIn; intro a b; qpres)
xs_leaf PresS.maybeChangeValueManual

theorem PresS.maybeChangeValue (env fuel n v) : Step.Pres XS (Engine.maybeChangeValue env fuel n v) := by
  unfold Engine.maybeChangeValue; qpres
xs_leaf PresS.maybeChangeValue

theorem PresS.addNewObservers (env fuel) : Step.Pres XS (Engine.addNewObservers env fuel) := by
  unfold Engine.addNewObservers
  qpres
  all_goals (apply Step.Pres.forIn; intro a b; qpres)
xs_leaf PresS.addNewObservers

theorem PresS.unlinkDisallowedObservers (fuel) : Step.Pres XS (Engine.unlinkDisallowedObservers fuel) := by
  unfold Engine.unlinkDisallowedObservers
  qpres
  all_goals (apply Step.Pres.forIn; intro a b; qpres)
xs_leaf PresS.unlinkDisallowedObservers

theorem PresS.disallowFutureUse (o) : Step.Pres XS (Engine.disallowFutureUse o) := by
  unfold Engine.disallowFutureUse; qpres
xs_leaf PresS.disallowFutureUse
theorem PresS.didSetVarWhileNotStabilising (v) : Step.Pres XS (Engine.didSetVarWhileNotStabilising v) := by
  unfold Engine.didSetVarWhileNotStabilising; qpres
xs_leaf PresS.didSetVarWhileNotStabilising
theorem PresS.writeVar (v f b) : Step.Pres XS (Engine.writeVar v f b) := by
  unfold Engine.writeVar; qpres
xs_leaf PresS.writeVar
theorem PresS.dropVarHandle (v) : Step.Pres XS (Engine.dropVarHandle v) := by
  unfold Engine.dropVarHandle; qpres
xs_leaf PresS.dropVarHandle
theorem PresS.subscribe (o h) : Step.Pres XS (Engine.subscribe o h) := by
  unfold Engine.subscribe; qpres
xs_leaf PresS.subscribe
theorem PresS.unsubscribe (o t w) : Step.Pres XS (Engine.unsubscribe o t w) := by
  unfold Engine.unsubscribe; qpres
xs_leaf PresS.unsubscribe
theorem PresS.resolveOpnd (loc o) : Step.Pres XS (Engine.resolveOpnd loc o) := by
  unfold Engine.resolveOpnd; qpres
xs_leaf PresS.resolveOpnd
theorem PresS.isConstant (n) : Step.Pres XS (Engine.isConstant n) := by unfold Engine.isConstant; qpres
xs_leaf PresS.isConstant
theorem PresS.setMaxHeightAllowed (k) : Step.Pres XS (Engine.setMaxHeightAllowed k) := by
  unfold Engine.setMaxHeightAllowed; qpres
xs_leaf PresS.setMaxHeightAllowed

/-! ## the expert API (its `modExpert`s change `children`, `forceStale`, `slots`, `numInvalidChildren` only) -/

theorem PresS.getExpert (e) : Step.Pres XS (Engine.getExpert e) := Step.Pres.getExpert e
theorem PresS.expertOf (n) : Step.Pres XS (Engine.expertOf n) := by unfold Engine.expertOf; qpres
xs_leaf PresS.expertOf
theorem PresS.assertRunningIsChild (n name) : Step.Pres XS (Engine.assertRunningIsChild n name) := by
  unfold Engine.assertRunningIsChild; qpres
xs_leaf PresS.assertRunningIsChild
theorem PresS.swapEdgeIndices (n c1 i1 c2 i2) : Step.Pres XS (Engine.swapEdgeIndices n c1 i1 c2 i2) := by
  unfold Engine.swapEdgeIndices; qpres
xs_leaf PresS.swapEdgeIndices
theorem PresS.expertMakeStale (n) : Step.Pres XS (Engine.expertMakeStale n) := by
  unfold Engine.expertMakeStale; qpres
xs_leaf PresS.expertMakeStale
theorem PresS.expertRemoveDependency (fuel n dep) : Step.Pres XS (Engine.expertRemoveDependency fuel n dep) := by
  unfold Engine.expertRemoveDependency; qpres
xs_leaf PresS.expertRemoveDependency
theorem PresS.expertAddDependency (env fuel n c cb) : Step.Pres XS (Engine.expertAddDependency env fuel n c cb) := by
  unfold Engine.expertAddDependency; qpres
xs_leaf PresS.expertAddDependency
theorem PresS.expertInvalidate (fuel n) : Step.Pres XS (Engine.expertInvalidate fuel n) := by
  unfold Engine.expertInvalidate; qpres
xs_leaf PresS.expertInvalidate

/-! ## reading the frame -/

theorem XS.get {s s' : State} (h : XS s s') {e : Nat} {er : ExpertRec} (he : s.experts[e]? = some er) :
    ∃ er', s'.experts[e]? = some er' ∧ er'.script = er.script ∧ er'.sel = er.sel := by
  have := h.xss e
  rw [he] at this
  cases h' : s'.experts[e]? with
  | none => rw [h'] at this; cases this
  | some er' =>
    rw [h'] at this
    simp only [Option.map_some, Option.some.injEq, xSS, Prod.mk.injEq] at this
    exact ⟨er', rfl, this⟩

theorem XS.get_back {s s' : State} (h : XS s s') {e : Nat} {er' : ExpertRec} (he : s'.experts[e]? = some er') :
    ∃ er, s.experts[e]? = some er ∧ er'.script = er.script ∧ er'.sel = er.sel := by
  have := h.xss e
  rw [he] at this
  cases h' : s.experts[e]? with
  | none => rw [h'] at this; cases this
  | some er =>
    rw [h'] at this
    simp only [Option.map_some, Option.some.injEq, xSS, Prod.mk.injEq] at this
    exact ⟨er, rfl, this⟩

theorem XS.none {s s' : State} (h : XS s s') {e : Nat} (he : s.experts[e]? = none) : s'.experts[e]? = none := by
  have := h.xss e
  rw [he] at this
  cases h' : s'.experts[e]? with
  | none => rfl
  | some er' => rw [h'] at this; cases this

end IncrVerif.Proofs.DriverH
