import IncrVerif.Proofs.DriverH32
/-!
# Drivers, `stabilise`, part 2: the start and the end of the drain

* `stab_startD`: after the prefix of `stabilise` (status set, observers added and unlinked) the drain invariant with
  drivers `DD env t2 none` holds.
* `stab_endD`: from `DD env t3 none`, the empty heap, the frame `DStep t2 t3` of the drain and the description
  `Finished'` of `stabiliseEnd`: the invariant between API actions for the rank of `t3`, and well-formed drivers.
* `qinvX_values`: with `QInvX` and an empty heap every necessary node reads its from-scratch value.
-/
namespace IncrVerif.Proofs.DriverH
open IncrVerif.Engine IncrVerif.Driver IncrVerif.Proofs IncrVerif.Proofs.Step IncrVerif.Proofs.Sched
open IncrVerif.Proofs.ExpertH IncrVerif.Proofs.ExpertH.QR IncrVerif.Proofs.EffH

/-- the components of `eKey` used below -/
theorem eKey_inv {a b : State} (h : eKey a = eKey b) :
    a.vars = b.vars ∧ a.stabNum = b.stabNum ∧ a.observers = b.observers ∧ a.newObservers = b.newObservers ∧
      a.disallowedObservers = b.disallowedObservers ∧ a.setDuringStab = b.setDuringStab ∧
      a.deadVars = b.deadVars ∧ a.propagateInvalidity = b.propagateInvalidity ∧ a.top = b.top ∧
      a.alive = b.alive := by
  simp only [eKey, Prod.mk.injEq] at h
  obtain ⟨k_vars, -, k_stab, -, -, -, k_obs, k_new, k_dis, -, k_sds, k_dead, -, k_pinv, k_top, k_alive, -, -⟩ := h
  exact ⟨k_vars, k_stab, k_obs, k_new, k_dis, k_sds, k_dead, k_pinv, k_top, k_alive⟩

theorem dnKey_inv {a b : Node} (h : dnKey a = dnKey b) :
    a.kind = b.kind ∧ a.observers = b.observers ∧ a.numOnUpdateHandlers = b.numOnUpdateHandlers := by
  simp only [dnKey, Prod.mk.injEq] at h
  exact ⟨h.1, h.2.2.2.2.1, h.2.2.2.2.2.2⟩

/-! ## the start of the drain -/

set_option maxHeartbeats 800000 in
/-- **the prefix of `stabilise`** ends in the drain invariant with drivers -/
theorem stab_startD {env : Env} {rk : Nat → Nat} {fuel : Nat} {s s0 t1 t2 : State}
    (Q : QInvX (noEff env) rk s) (hd : DrvOK env s) (hs0 : s0 = { s with status := .stabilising })
    (h1 : (addNewObservers env fuel).run.run s0 = (.ok (), t1))
    (h2 : (unlinkDisallowedObservers fuel).run.run t1 = (.ok (), t2)) :
    DD env t2 none ∧ ObsInv (virt t2) [] [] ∧ t2.newObservers = [] ∧ t2.disallowedObservers = [] ∧
      PFrame (virt s0) (virt t2) := by
  have Qv := Q.q
  have h1E : (addNewObservers (noEff env) fuel).run.run s0 = (.ok (), t1) := by
    rw [addNewObservers_noEff]; exact h1
  have hs0v : virt s0 = { virt s with status := .stabilising } := by rw [hs0]; rfl
  have F0 : XFrag (noEff env) s0 := by
    rw [hs0]; exact ⟨Q.frag.pc, Q.frag.kind, Q.frag.valid, Q.frag.xrec, Q.frag.xok⟩
  have A0 : QR.AhhEmpty s0 := by
    rw [hs0]; exact ⟨Q.ahh.length, Q.ahh.buckets, Q.ahh.marks⟩
  have hp0 : s0.propagateInvalidity = [] := by rw [hs0]; exact Q.pinv
  have S0 : SInv (virtEnv (noEff env)) rk (virt s0) (virt s0).newObservers (virt s0).disallowedObservers := by
    rw [hs0v]
    exact ⟨Qv.struct.congr (SameG.of_nodes rfl rfl rfl rfl rfl),
      ⟨Qv.obs.inRange, Qv.obs.mem, Qv.obs.created, Qv.obs.newIn, Qv.obs.dis, Qv.obs.disIn, Qv.obs.disNodup⟩,
      Qv.pinv, Qv.handlers⟩
  -- the prefix: simulated by the virtual engine
  obtain ⟨hv1, fr1⟩ := Sim.addNewObservers (noEff env) fuel s0 (F0.fr hp0) _ t1 h1E
  obtain ⟨S1, hn1, hd1, P1, O1, -⟩ := addNewObservers_s S0 hv1
  have F1 : XFrag (noEff env) t1 := F0.of_xf ((PresX.addNewObservers (noEff env) fuel).h _ _ _ h1E) fr1
  have A1 : QR.AhhEmpty t1 := ahhEmpty_of_ahf A0 ((PresAh.addNewObservers (noEff env) fuel).h _ _ _ h1E)
  obtain ⟨hv2, fr2⟩ := Sim.unlinkDisallowedObservers fuel t1 fr1 _ t2 h2
  obtain ⟨S2, hn2, hd2, P2, O2⟩ := unlinkDisallowedObservers_s S1 hn1 hv2
  have F2 : XFrag (noEff env) t2 := F1.of_xf ((PresX.unlinkDisallowedObservers fuel).h _ _ _ h2) fr2
  have A2 : QR.AhhEmpty t2 := ahhEmpty_of_ahf A1 ((PresAh.unlinkDisallowedObservers fuel).h _ _ _ h2)
  have P := P1.trans P2
  -- the drain invariant of the virtual state (as `drain_start`)
  have hnd0 : ∀ m, (virt s0).nodeD m = (virt s).nodeD m := fun m => by rw [hs0v]; rfl
  have hvars0 : (virt s0).vars = (virt s).vars := by rw [hs0v]
  have hstab0 : (virt s0).stabNum = (virt s).stabNum := by rw [hs0v]
  have hsz0 : (virt s0).nodes.size = (virt s).nodes.size := by rw [hs0v]
  have V2 : VarsOK (virt t2) := P.varsOK (by
    refine ⟨?_, ?_⟩
    · intro n c hn hk; rw [hnd0] at hk; rw [hvars0]; exact Qv.vars.node n c (by rw [← hsz0]; exact hn) hk
    · intro c vc hc; rw [hvars0] at hc; rw [hsz0, hnd0]; exact Qv.vars.cell c vc hc)
  have st2 : ∀ m, ((virt t2).nodeD m).recomputedAt < (virt t2).stabNum ∧
      ((virt t2).nodeD m).changedAt < (virt t2).stabNum := by
    intro m
    rw [P.recomputedAt, P.changedAt, P.stabNum, hstab0, hnd0]; exact Qv.stamps m
  have cons2 : ∀ m, m < (virt t2).nodes.size → staleOf (virt t2) m = false →
      Consistent (virtEnv (noEff env)) (virt t2) m := by
    intro m hm hs
    rw [P.staleOf] at hs
    have hs' : staleOf (virt s) m = false := by
      rw [← hs]; exact (staleOf_congr (by rw [hnd0]) (by rw [hnd0]) hvars0 (fun c _ => by rw [hnd0])).symm
    have hc := Qv.cons m (by rw [← hsz0, ← P.size]; exact hm) hs'
    have hc0 : Consistent (virtEnv (noEff env)) (virt s0) m := by
      obtain ⟨w, hw, hv⟩ := hc
      exact ⟨w, Target.congr (by rw [hnd0]) hvars0 (fun c _ => by rw [hnd0]) hw, by rw [hnd0]; exact hv⟩
    exact P.consistent hc0
  have D2 : BindH.DInv (virtEnv (noEff env)) (virt t2) none :=
    dinv_of_struct S2.struct V2 (by rw [P.stabNum, hstab0]; exact Qv.now) st2
      (fun c vc hc => by rw [P.vars, hvars0] at hc; rw [P.stabNum, hstab0]; exact Qv.varStamp c vc hc) cons2
  -- the auxiliary invariant
  have X2 : AuxD (noEff env) t2 :=
    ⟨F2, A2, fr2.pinv, fun m => by have := S2.handlers m; rwa [virt_nodeD, virtNode_num] at this,
      ⟨rk, S2.struct.static⟩, fun c => by have := S2.struct.nodup c; rwa [virt_nodeD, virtNode_parents] at this, V2⟩
  -- the drivers
  have df0 : DF s s0 := by
    rw [hs0]; exact ⟨rfl, fun _ => rfl, rfl, fun _ er h => ⟨er, h, rfl, rfl, rfl⟩, Nat.le_refl _⟩
  have df1 : DF s0 t1 := DF.of_xf_xs ((PresX.addNewObservers env fuel).h _ _ _ h1)
    ((PresS.addNewObservers env fuel).h _ _ _ h1) P1.top
  have df2 : DF t1 t2 := DF.of_xf_xs ((PresX.unlinkDisallowedObservers fuel).h _ _ _ h2)
    ((PresS.unlinkDisallowedObservers fuel).h _ _ _ h2) P2.top
  exact ⟨⟨D2, X2, drvOK_frame ((df0.trans df1).trans df2) hd⟩, S2.obs, hn2, hd2, P⟩

/-! ## the end of the drain -/

set_option maxHeartbeats 800000 in
/-- **the end of `stabilise`**: from the drain invariant with an empty heap to the invariant between API actions -/
theorem stab_endD {env : Env} {t2 t3 s' : State}
    (D3 : DD env t3 none) (f3 : DStep t2 t3)
    (O2 : ObsInv (virt t2) [] []) (hn2 : t2.newObservers = []) (hd2 : t2.disallowedObservers = [])
    (hal : t2.alive = true) (htop : ∀ (k n : Nat), t2.top[k]? = some n → n < t2.nodes.size)
    (E : Finished' t3 s') :
    (∃ rk', QInvX (noEff env) rk' s') ∧ s'.newObservers = [] ∧ s'.disallowedObservers = [] ∧ DrvOK env s' := by
  have A3 := D3.aux
  have I3 := D3.inv
  obtain ⟨rk', AS3⟩ := A3.rank
  obtain ⟨-, -, k_obs, k_new, k_dis, -, -, -, k_top, k_alive⟩ := eKey_inv f3.key
  have S3 : Struct (virtEnv (noEff env)) rk' (virt t3) :=
    struct_of_dinv AS3 I3 (fun c => by rw [virt_nodeD, virtNode_parents]; exact A3.nodup c)
  have Ev := finished_virt E
  -- nodes of the final state
  have hE : ∀ m, NodeG ((virt t3).nodeD m) ((virt s').nodeD m) ∧
      ((virt s').nodeD m).value = ((virt t3).nodeD m).value ∧
      ((virt s').nodeD m).numOnUpdateHandlers = ((virt t3).nodeD m).numOnUpdateHandlers := by
    intro m
    obtain ⟨b, hb⟩ := Ev.node m
    rw [hb]
    exact ⟨⟨rfl, rfl, rfl, rfl, rfl, rfl, rfl, rfl, rfl, rfl, rfl⟩, rfl, rfl⟩
  have G3 : SameG (virt t3) (virt s') := ⟨Ev.pc, Ev.scope, Ev.size, Ev.rch, Ev.vars, fun m => (hE m).1⟩
  have S' : Struct (virtEnv (noEff env)) rk' (virt s') := S3.congr G3
  have hEn : ∀ m, ∃ b, s'.nodeD m = { t3.nodeD m with inHandleAfterStab := b } := E.node
  have hkind : ∀ m, (s'.nodeD m).kind = (t3.nodeD m).kind := fun m => by obtain ⟨b, hb⟩ := hEn m; rw [hb]
  have hvalid : ∀ m, (s'.nodeD m).valid = (t3.nodeD m).valid := fun m => by obtain ⟨b, hb⟩ := hEn m; rw [hb]
  have hmark : ∀ m, (s'.nodeD m).heightInAhh = (t3.nodeD m).heightInAhh := fun m => by
    obtain ⟨b, hb⟩ := hEn m; rw [hb]
  have hsize' : (virt s').nodes.size = (virt t2).nodes.size := by
    rw [virt_size, virt_size, E.size, f3.size]
  have V3 := A3.vars
  have V' : VarsOK (virt s') := by
    refine ⟨?_, ?_⟩
    · intro n c hn hk
      rw [(hE n).1.kind] at hk; rw [Ev.vars]; exact V3.node n c (by rw [← Ev.size]; exact hn) hk
    · intro c vc hc
      rw [Ev.vars] at hc; rw [Ev.size, (hE _).1.kind]; exact V3.cell c vc hc
  have hobs' : (virt s').observers = (virt t2).observers := by
    show s'.observers = t2.observers
    rw [E.observers, k_obs]
  have hnobs' : ∀ m, ((virt s').nodeD m).observers = ((virt t2).nodeD m).observers := fun m => by
    rw [(hE m).1.observers, virt_nodeD, virt_nodeD, virtNode_observers, virtNode_observers]
    exact (dnKey_inv (f3.node m)).2.1
  have hno' : s'.newObservers = [] := by rw [E.newObservers, k_new]; exact hn2
  have hdo' : s'.disallowedObservers = [] := by rw [E.disallowedObservers, k_dis]; exact hd2
  have O' : ObsOK (virt s') := by
    unfold ObsOK
    have e1 : (virt s').newObservers = [] := hno'
    have e2 : (virt s').disallowedObservers = [] := hdo'
    rw [e1, e2]
    refine ⟨?_, ?_, ?_, ?_, ?_, ?_, List.nodup_nil⟩
    · intro o ob ho; rw [hobs'] at ho; rw [hsize']; exact O2.inRange o ob ho
    · intro n o; rw [hnobs', hobs']; exact O2.mem n o
    · intro o ob ho hc; rw [hobs'] at ho; exact O2.created o ob ho hc
    · intro o ho; cases ho
    · intro o ob ho; rw [hobs'] at ho; exact O2.dis o ob ho
    · intro o ho; cases ho
  have Q' : QInv (virtEnv (noEff env)) rk' (virt s') := by
    refine ⟨S', V', O', ?_, ?_, ?_, ?_, Ev.status, ?_, Ev.setDuringStab, Ev.deadVars, Ev.handleAfterStab, ?_, ?_, ?_⟩
    · rw [Ev.stabNum]; have := I3.stamps.now; omega
    · intro m
      rw [(hE m).1.recomputedAt, (hE m).1.changedAt, Ev.stabNum]
      have := I3.stamps.node m; omega
    · intro c vc hc
      rw [Ev.vars] at hc; rw [Ev.stabNum]; have := I3.stamps.var c vc hc; omega
    · intro m hm hs
      rw [G3.staleOf] at hs
      have hm3 : m < (virt t3).nodes.size := by rw [← Ev.size]; exact hm
      have sn := S3.node hm3
      have hst : (virt t3).isStale m = false := by rw [GInv.isStale S3 hm3]; exact hs
      obtain ⟨w, hw, hv⟩ := cons_of_consB sn.kind (I3.cons m hm3 sn.valid hst)
      exact ⟨w, Target.congr (hE m).1.kind Ev.vars (fun c _ => (hE c).2.1) hw, by rw [(hE m).2.1]; exact hv⟩
    · show s'.alive = true
      rw [E.alive, k_alive]; exact hal
    · intro m
      rw [(hE m).2.2, virt_nodeD, virtNode_num]; exact A3.handlers m
    · show s'.propagateInvalidity = []
      rw [E.pinv]; exact A3.pinv
    · intro k n hk
      have hk' : t2.top[k]? = some n := by
        have : s'.top[k]? = some n := hk
        rw [E.top, k_top] at this; exact this
      rw [hsize', virt_size]; exact htop k n hk'
  have F' : XFrag (noEff env) s' :=
    ⟨by rw [E.pc]; exact A3.frag.pc, fun m hm => by rw [hkind]; exact A3.frag.kind m (by rw [← E.size]; exact hm),
      fun m hm => by rw [hvalid]; exact A3.frag.valid m (by rw [← E.size]; exact hm),
      fun m e hm hk => by
        rw [hkind] at hk; rw [E.experts]; exact A3.frag.xrec m e (by rw [← E.size]; exact hm) hk,
      fun e er he => by rw [E.experts] at he; exact A3.frag.xok e er he⟩
  have A' : QR.AhhEmpty s' :=
    ⟨by rw [E.ahh]; exact A3.ahh.length, by rw [E.ahh]; exact A3.ahh.buckets,
      fun m => by rw [hmark]; exact A3.ahh.marks m⟩
  have df : DF t3 s' :=
    ⟨E.size, hkind, E.top, fun e er he => ⟨er, by rw [E.experts]; exact he, rfl, rfl, rfl⟩,
      Nat.le_of_eq E.nextDep.symm⟩
  exact ⟨⟨rk', F', Q', A'⟩, hno', hdo', drvOK_frame df D3.drv⟩

/-! ## the values between API actions when the heap is empty -/

/-- with the invariant between API actions and an empty recompute heap, every necessary node is not stale and reads its
from-scratch value -/
theorem qinvX_values {E : Env} {rk : Nat → Nat} {s : State} (Q : QInvX E rk s) (he : s.rch.length = 0)
    (n : Nat) (hn : s.isNecessary n = true) (k : Nat) (hk : (s.nodeD n).height.toNat < k) :
    s.isStale n = false ∧ s.value E n = evalX E s k n ∧ (evalX E s k n).isSome = true := by
  have Qv := Q.q
  have D : DrainInv (virtEnv E) (virt s) :=
    drainInv_of Qv.struct Qv.vars Qv.now Qv.stamps Qv.varStamp Qv.cons
  have hnv : (virt s).isNecessary n = true := by rw [virt_isNecessary]; exact hn
  have hk' : ((virt s).nodeD n).height.toNat < k := by rw [virt_nodeD, virtNode_height]; exact hk
  have he' : (virt s).rch.length = 0 := he
  obtain ⟨-, h2, -, h4, h5⟩ := drained_values D he' n hnv k hk'
  rw [virt_isStale] at h2
  rw [eval_virt Q.frag] at h4 h5
  rw [virt_value s E n Q.frag.noMapRef] at h4
  exact ⟨h2, h4, h5⟩

/-- what the observers read when nothing is pending -/
theorem qinvX_reads {E : Env} {rk : Nat → Nat} {s : State} (Q : QInvX E rk s) (he : s.rch.length = 0)
    (hno : s.newObservers = []) (hdo : s.disallowedObservers = []) : ReadsOKX E s ∧ ObsSettled s := by
  have Q' := Q.q
  have O' : ObsInv (virt s) [] [] := by
    have := Q'.obs
    unfold ObsOK at this
    have e1 : (virt s).newObservers = [] := hno
    have e2 : (virt s).disallowedObservers = [] := hdo
    rw [e1, e2] at this
    exact this
  refine ⟨?_, ?_⟩
  · intro o ob ho hst k hk
    have hmem : o ∈ ((virt s).nodeD ob.node).observers := (O'.mem ob.node o).2 ⟨ob, ho, rfl, Or.inl hst⟩
    rw [virt_nodeD, virtNode_observers] at hmem
    have hn : s.isNecessary ob.node = true := by
      rw [isNecessary_iff]; right; left; exact List.ne_nil_of_mem hmem
    obtain ⟨-, hv, hs⟩ := qinvX_values Q he ob.node hn k hk
    obtain ⟨v, hev⟩ := Option.isSome_iff_exists.1 hs
    refine ⟨v, ?_, hev⟩
    unfold State.tryGetValue
    have ha : s.alive = true := Q'.alive
    have hstat : s.status = .notStabilising := Q'.status
    rw [ha, hstat, ho]
    simp only [Bool.not_true, Bool.false_eq_true, if_false, hst]
    rw [hv, hev]
    rfl
  · intro o ob ho
    have ho' : (virt s).observers[o]? = some ob := ho
    cases hst : ob.state with
    | inUse => exact Or.inl rfl
    | unlinked => exact Or.inr rfl
    | created => have := O'.created o ob ho' hst; cases this
    | disallowed => have := (O'.dis o ob ho').1 hst; cases this

end IncrVerif.Proofs.DriverH
