import IncrVerif.Proofs.NestH116
/-!
# Nested binds (F2), part 7e: `ProgOK` along histories

`progOK_step`: every API action of the fragment moves `ProgOK p env s` to `ProgOK (progStep p a) env s'`; `progOK_history`: `ProgOK (progOf env po acts) env s` for every
state reached from the initial state by a history of the fragment.
-/
namespace IncrVerif.Proofs.NestH
open IncrVerif.Engine IncrVerif.Driver IncrVerif.Proofs IncrVerif.Proofs.Step IncrVerif.Proofs.Sched IncrVerif.Proofs.Quiet
open IncrVerif.Proofs.BindH
open IncrVerif.Spec

namespace N7
open IncrVerif.Proofs.BindH.C3d IncrVerif.Proofs.NestH.N5d IncrVerif.Proofs.NestH.N7k

/-- elaboration of a static instruction at top level: one pristine node, whose kind is the image of the instruction -/
theorem elab_static_img {env : Env} {s s1 : State} {i : Instr} {ro : Option Nat} (hsc : s.currentScope = .top)
    (hi : StaticInstr env i) (h : (elabInstrM env [] .unit i).run.run s = (.ok ro, s1)) :
    ∃ k, ro = some s.nodes.size ∧ C2c.Made k s s1 ∧ StaticImg s i k ∧
      (∀ v, i = .var v → s1.vars = s.vars.push { value := v, setAt := s.stabNum, node := s.nodes.size }) := by
  cases i with
  | const v =>
    unfold elabInstrM at h
    simp only at h
    unfold elabInstr at h
    rw [run_bind_get] at h
    simp only [hsc] at h
    obtain ⟨n, h1, e⟩ := map_ok_inv h
    obtain ⟨en, C⟩ := C2c.createNode_made (by intro c e; cases e) h1
    exact ⟨.const v, by rw [e, en], C, rfl, fun _ e => by cases e⟩
  | var v =>
    unfold elabInstrM at h
    simp only at h
    unfold elabInstr at h
    rw [run_bind_get] at h
    simp only at h
    obtain ⟨n, h1, e⟩ := map_ok_inv h
    obtain ⟨en, C⟩ := C2c.createVar_made h1
    refine ⟨.var s.vars.size, by rw [e, en], C, rfl, fun v' e' => ?_⟩
    injection e' with e'
    rw [createVar_top_run] at h1
    cases h1
    rw [e']
  | map f args =>
    unfold elabInstrM at h
    simp only at h
    unfold elabInstr at h
    rw [run_bind_get] at h
    simp only [hsc] at h
    obtain ⟨as, t, h1, h2⟩ := bind_ok_inv h
    obtain ⟨et, has⟩ := mapM_resolve_exact args as t hi.2.2 h1
    rw [et] at h2
    obtain ⟨n, h3, e⟩ := map_ok_inv h2
    obtain ⟨en, C⟩ := C2c.createNode_made (by intro c e; cases e) h3
    refine ⟨.map f as, by rw [e, en], C, ?_, fun _ e => by cases e⟩
    simp only [StaticImg, kindOfInstr, has, Option.map_some]
  | fold f init cs =>
    unfold elabInstrM at h
    simp only at h
    unfold elabInstr at h
    rw [run_bind_get] at h
    simp only [hsc] at h
    obtain ⟨as, t, h1, h2⟩ := bind_ok_inv h
    obtain ⟨et, has⟩ := mapM_resolve_exact cs as t hi h1
    rw [et] at h2
    split at h2
    · rename_i hemp
      obtain ⟨n, h3, e⟩ := map_ok_inv h2
      obtain ⟨en, C⟩ := C2c.createNode_made (by intro c e; cases e) h3
      refine ⟨.const init, by rw [e, en], C, ?_, fun _ e => by cases e⟩
      simp only [StaticImg, kindOfInstr, has, Option.map_some, hemp, if_true]
    · rename_i hemp
      obtain ⟨n, h3, e⟩ := map_ok_inv h2
      obtain ⟨en, C⟩ := C2c.createNode_made (by intro c e; cases e) h3
      refine ⟨.fold f init as, by rw [e, en], C, ?_, fun _ e => by cases e⟩
      simp only [StaticImg, kindOfInstr, has, Option.map_some, hemp]
      rfl
  | zip a b =>
    obtain ⟨ka, rfl⟩ : ∃ ka, a = .outer ka := by
      cases a <;> first | exact ⟨_, rfl⟩ | exact hi.1.elim
    obtain ⟨kb, rfl⟩ : ∃ kb, b = .outer kb := by
      cases b <;> first | exact ⟨_, rfl⟩ | exact hi.2.elim
    unfold elabInstrM at h
    simp only at h
    unfold elabInstr at h
    rw [run_bind_get] at h
    simp only [hsc] at h
    obtain ⟨na, t, h1, h2⟩ := bind_ok_inv h
    obtain ⟨et, hka⟩ := resolveOpnd_outer_run h1
    rw [et] at h2
    obtain ⟨nb, t, h1, h2⟩ := bind_ok_inv h2
    obtain ⟨et, hkb⟩ := resolveOpnd_outer_run h1
    rw [et] at h2
    obtain ⟨ca, t, h1, h2⟩ := bind_ok_inv h2
    obtain ⟨et, hca⟩ := isConstant_run h1
    rw [et] at h2
    obtain ⟨cb, t, h1, h2⟩ := bind_ok_inv h2
    obtain ⟨et, hcb⟩ := isConstant_run h1
    rw [et] at h2
    split at h2
    · obtain ⟨n, h3, e⟩ := map_ok_inv h2
      obtain ⟨en, C⟩ := C2c.createNode_made (by intro c e; cases e) h3
      rename_i va vb _ _
      exact ⟨.const (.pair va vb), by rw [e, en], C,
        ⟨ka, kb, na, nb, rfl, rfl, hka, hkb, Or.inr ⟨va, vb, hca va rfl, hcb vb rfl, rfl⟩⟩, fun _ e => by cases e⟩
    · obtain ⟨n, h3, e⟩ := map_ok_inv h2
      obtain ⟨en, C⟩ := C2c.createNode_made (by intro c e; cases e) h3
      exact ⟨.map fnZip [na, nb], by rw [e, en], C, ⟨ka, kb, na, nb, rfl, rfl, hka, hkb, Or.inl rfl⟩,
        fun _ e => by cases e⟩
  | _ => exact hi.elim

/-! ## frames of the API actions -/

/-- the cells are unchanged -/
structure VS (s s' : State) : Prop where
  vars : s'.vars = s.vars

instance : PreOrd VS := ⟨fun _ => ⟨rfl⟩, fun h1 h2 => ⟨h2.vars.trans h1.vars⟩⟩

macro_rules
  | `(tactic| qleaf) => `(tactic| ((with_reducible apply Step.Pres.modify); intro _; exact VS.mk rfl))

theorem presVS_getObs (o : Nat) : Step.Pres VS (getObs o) := by unfold Engine.getObs; qpres
macro_rules | `(tactic| qleaf) => `(tactic| with_reducible apply presVS_getObs)
theorem presVS_modObs (o f) : Step.Pres VS (modObs o f) := by unfold Engine.modObs; qpres
macro_rules | `(tactic| qleaf) => `(tactic| with_reducible apply presVS_modObs)
theorem presVS_bumpCounter (f) : Step.Pres VS (bumpCounter f) := by unfold Engine.bumpCounter; qpres
macro_rules | `(tactic| qleaf) => `(tactic| with_reducible apply presVS_bumpCounter)
theorem presVS_resolveOpnd (l o) : Step.Pres VS (resolveOpnd l o) := by unfold Engine.resolveOpnd; qpres
macro_rules | `(tactic| qleaf) => `(tactic| with_reducible apply presVS_resolveOpnd)
theorem presVS_disallowFutureUse (o) : Step.Pres VS (disallowFutureUse o) := by unfold Engine.disallowFutureUse; qpres
macro_rules | `(tactic| qleaf) => `(tactic| with_reducible apply presVS_disallowFutureUse)

theorem presVS_observe (env : Env) (n : Opnd) (tokens : Array Nat) : Step.Pres VS (stepAction env (.observe n) tokens) := by
  unfold Engine.stepAction; qpres
theorem presVS_cloneObs (env : Env) (o : Nat) (tokens : Array Nat) : Step.Pres VS (stepAction env (.cloneObs o) tokens) := by
  unfold Engine.stepAction; qpres
theorem presVS_dropObs (env : Env) (o : Nat) (tokens : Array Nat) : Step.Pres VS (stepAction env (.dropObs o) tokens) := by
  unfold Engine.stepAction; qpres
theorem presVS_disallow (env : Env) (o : Nat) (tokens : Array Nat) : Step.Pres VS (stepAction env (.disallow o) tokens) := by
  unfold Engine.stepAction; qpres

macro_rules | `(tactic| qleaf) => `(tactic| with_reducible apply PresBK.stabilise)

/-- the actions of the fragment other than `create` keep the kinds of the nodes and the closures and left-hand sides of the bind records, whatever their outcome -/
theorem PresBK.stepAction {env : Env} {T : Nat} {a : Action} (tokens : Array Nat) (ha : ActionF2 env T a)
    (hc : ∀ i, a ≠ .create i) : Step.Pres BKey (stepAction env a tokens) := by
  cases a <;> try exact ha.elim
  case create i => exact (hc i rfl).elim
  all_goals (unfold Engine.stepAction; qpres)


theorem bkey_of_ext {s s1 : State} (E : C2c.Ext s s1) : BKey s s1 :=
  ⟨E.grow, fun m hm => by rw [E.old m hm], fun b br h =>
    ⟨br, by rw [E.bold b (Array.getElem?_eq_some_iff.1 h).1]; exact h, rfl, rfl⟩⟩

theorem top_in {env : Env} {rk : Nat → Nat} {s : State} (Q : QInv2 env rk s) :
    ∀ (k n : Nat), s.top[k]? = some n → n < s.nodes.size := fun k n h => (Q.f2.topOK k n h).1

/-- frame for `ProgOK`, with a new text that has the same instructions -/
theorem progOK_frame' {p p' : RefProg} {env : Env} {s s' : State} (P : ProgOK p env s)
    (hn : p'.nodes = p.nodes) (hvo : p'.varOf = p.varOf) (he : p'.env = p.env)
    (hin : ∀ (k n : Nat), s.top[k]? = some n → n < s.nodes.size) (ht : s'.top = s.top) (K : BKey s s')
    (hv : ∀ c : Nat, p'.vars[c]? = (s'.vars[c]?).map VarCell.value) : ProgOK p' env s' := by
  refine ⟨he.trans P.env, by rw [ht, hn]; exact P.size, hv, ?_⟩
  intro j i n hi hj
  rw [ht] at hj
  rw [hn] at hi
  exact topImg_ext (fun k n h => by rw [ht]; exact h) hin K (by rw [hvo]) he (hin j n hj) (P.img j i n hi hj)

/-- the variables after a write -/
theorem write_vars {p : RefProg} {env : Env} {s s' : State} (P : ProgOK p env s) {v : Nat} {vc vc' : VarCell} {g : Val → Val}
    (hvc : s.vars[v]? = some vc) (hvc' : s'.vars[v]? = some vc') (hval : vc'.value = g vc.value)
    (hoth : ∀ w, w ≠ v → s'.vars[w]? = s.vars[w]?) :
    ∀ c : Nat, (p.vars.modify v g)[c]? = (s'.vars[c]?).map VarCell.value := by
  intro c
  rw [Array.getElem?_modify]
  by_cases e : v = c
  · rw [if_pos e, ← e, P.vars v, hvc, hvc']
    simp only [Option.map_some, hval]
  · rw [if_neg e, hoth c (fun h => e h.symm)]
    exact P.vars c

/-- `ProgOK` after a creation: the old entries by the frame, the new entry given -/
theorem progOK_push {p p' : RefProg} {env : Env} {s s' : State} {i : Instr} {m : Nat} (P : ProgOK p env s)
    (hin : ∀ (k n : Nat), s.top[k]? = some n → n < s.nodes.size) (K : BKey s s') (ht : s'.top = s.top.push m)
    (hn : p'.nodes = p.nodes.push i) (he : p'.env = p.env)
    (hvo : ∀ j, j < p.nodes.size → p'.varOf.lookup j = p.varOf.lookup j)
    (hv : ∀ c : Nat, p'.vars[c]? = (s'.vars[c]?).map VarCell.value)
    (hnew : TopImg p' s' p.nodes.size i m) : ProgOK p' env s' := by
  have htop : ∀ (k n : Nat), s.top[k]? = some n → s'.top[k]? = some n := by
    intro k n h
    rw [ht, Array.getElem?_push, if_neg (by have := (Array.getElem?_eq_some_iff.1 h).1; omega)]
    exact h
  refine ⟨he.trans P.env, by rw [ht, hn, Array.size_push, Array.size_push, P.size], hv, ?_⟩
  intro j i' n hi hj
  rw [hn, Array.getElem?_push] at hi
  rw [ht, Array.getElem?_push, ← P.size] at hj
  by_cases e : j = p.nodes.size
  · rw [if_pos e] at hi hj
    cases hi; cases hj
    rw [e]; exact hnew
  · rw [if_neg e] at hi hj
    have hlt : j < p.nodes.size := (Array.getElem?_eq_some_iff.1 hi).1
    exact topImg_ext htop hin K (hvo j hlt) he (hin j n hj) (P.img j i' n hi hj)

end N7
end IncrVerif.Proofs.NestH
