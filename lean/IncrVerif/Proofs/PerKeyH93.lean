import IncrVerif.Proofs.PerKeyH90
/-!
# `VSim`, part 5 (port of ExpertH27): the notification walk, part 1
(`shouldCutoff`, `childChanged`, `parentIterCanRecomputeNow`)
-/
namespace IncrVerif.Proofs.PerKeyH
open IncrVerif.Engine IncrVerif.Driver IncrVerif.Proofs IncrVerif.Proofs.Step IncrVerif.Proofs.Sched
open IncrVerif.Proofs.ExpertH IncrVerif.Proofs.EffH

theorem keepEv_cut (c n : Nat) (o v : Val) (r : Bool) : keepEv (.cut c n o v r) = true := rfl

theorem VSim.shouldCutoff (env : Env) (n : Nat) (o v : Val) :
    VSim (Engine.shouldCutoff env n o v) (Engine.shouldCutoff (penv env) n o v) := by
  intro s; unfold Engine.shouldCutoff; simp only [vpenv_cutoff]; vsim
  split <;> vsim
  all_goals exact VSim.logEv_keep _ rfl _
macro_rules | `(tactic| vsim_leaf) => `(tactic| with_reducible exact IncrVerif.Proofs.PerKeyH.VSim.shouldCutoff _ _ _ _)

/-- an expert parent runs its edge callback (invisible); its virtual `fold` does nothing; there are no map_ref
nodes -/
theorem VSim.childChanged (env : Env) (fuel p c ci : Nat) (o o' : Option Val) :
    VSim (Engine.childChanged env fuel p c ci o) (Engine.childChanged (penv env) fuel p c ci o') := by
  intro s
  cases fuel with
  | zero => unfold Engine.childChanged; vsim
  | succ fuel =>
    unfold Engine.childChanged
    vsim
    vsim_kind
macro_rules | `(tactic| vsim_leaf) => `(tactic|
  with_reducible exact IncrVerif.Proofs.PerKeyH.VSim.childChanged _ _ _ _ _ _ _)

theorem VSim.parentIterCanRecomputeNow (p child : Nat) :
    VSim (Engine.parentIterCanRecomputeNow p child) (Engine.parentIterCanRecomputeNow p child) := by
  intro s; unfold Engine.parentIterCanRecomputeNow; vsim
  vsim_kind
  all_goals exact VSimAt.ret _
macro_rules | `(tactic| vsim_leaf) => `(tactic|
  with_reducible exact IncrVerif.Proofs.PerKeyH.VSim.parentIterCanRecomputeNow _ _)

end IncrVerif.Proofs.PerKeyH
