import IncrVerif.Proofs.BindH75
/-!
# Binds, the run of a change detector in fragment F1, part 4: `StepL`
-/
namespace IncrVerif.Proofs.BindH
open IncrVerif.Engine IncrVerif.Proofs IncrVerif.Proofs.Step IncrVerif.Proofs.Sched IncrVerif.Proofs.Quiet
namespace CC

/-- a valid node that has never been computed (not a variable) is stale -/
theorem isStale_pristine {env : Env} {s : State} {m : Nat} (hv : (s.nodeD m).valid = true)
    (hk : StaticKind env (s.nodeD m).kind) (hnv : ∀ c, (s.nodeD m).kind ≠ .var c)
    (hr : (s.nodeD m).recomputedAt = -1) : s.isStale m = true := by
  unfold State.isStale
  simp only [Node.kind?, hv, if_true, hr]
  cases hkd : (s.nodeD m).kind <;> rw [hkd] at hk <;> first
    | exact hk.elim
    | exact absurd hkd (hnv _)
    | rfl
    | simp

namespace MidRel
variable {env : Env} {n b rhs : Nat} {br : BindRec} {l : List Nat} {s t : State}

/-- the record a bind index names after phase 3, against the one before -/
theorem bind_cases (M : MidRel n b rhs br l s t) (hb : s.binds[b]? = some br) (b' : Nat) :
    (b' = b ∧ t.binds[b']? = some { { br with allNodesCreatedOnRhs := l } with rhs := some rhs } ∧
      s.binds[b']? = some br) ∨ (b' ≠ b ∧ t.binds[b']? = s.binds[b']?) := by
  by_cases e : b' = b
  · subst e; exact Or.inl ⟨rfl, M.bind, hb⟩
  · exact Or.inr ⟨e, M.bindsOther b' e⟩

/-- the child list of a surviving node other than the bind's main node is unchanged -/
theorem children (M : MidRel n b rhs br l s t) (A : All1 env s []) (hb : s.binds[b]? = some br) {m : Nat}
    (hlt : m < s.nodes.size) (hd : m ∉ br.allNodesCreatedOnRhs) (hm : m ≠ br.main) :
    t.children m = s.children m := by
  have sn := A.node m hlt
  have k := M.nk m hlt hd
  unfold State.children Node.kind?
  rw [k.kind, k.valid]
  cases hv : (s.nodeD m).valid
  · rfl
  · simp only [if_true]
    cases hkd : (s.nodeD m).kind with
    | bindLhsChange b' =>
      dsimp only
      rcases M.bind_cases hb b' with ⟨-, h1, h2⟩ | ⟨-, h1⟩
      · rw [h1, h2]
      · rw [h1]
    | bindMain b' lc =>
      dsimp only
      rcases M.bind_cases hb b' with ⟨e, -, h2⟩ | ⟨-, h1⟩
      · exfalso
        obtain ⟨br', hb', hm', -⟩ := sn.mainRec b' lc hkd
        rw [h2] at hb'; cases hb'
        exact hm hm'.symm
      · rw [h1]
    | expert e => have := sn.kind; rw [hkd] at this; exact this.elim
    | _ => rfl

end MidRel

namespace Mid
variable {env : Env} {n b rhs : Nat} {br : BindRec} {l : List Nat} {r : Option Nat} {s t s' : State}

theorem stab (X : Mid env n b rhs br l r s t s') : s'.stabNum = s.stabNum :=
  X.step.stabNum.trans X.rel.stabNum

theorem nd (X : Mid env n b rhs br l r s t s') (A : F1Inv env s) : n ∉ br.allNodesCreatedOnRhs :=
  fun h => X.pre.dy_ne_n A h rfl

theorem md (X : Mid env n b rhs br l r s t s') (A : F1Inv env s) : br.main ∉ br.allNodesCreatedOnRhs :=
  fun h => X.pre.dy_ne_main A h rfl

/-- the four kinds of indices -/
theorem classes (_X : Mid env n b rhs br l r s t s') (m : Nat) :
    (m < s.nodes.size ∧ m ∉ br.allNodesCreatedOnRhs) ∨ m ∈ br.allNodesCreatedOnRhs ∨
      (s.nodes.size ≤ m ∧ m < t.nodes.size) ∨ t.nodes.size ≤ m := by
  by_cases hd : m ∈ br.allNodesCreatedOnRhs
  · exact Or.inr (Or.inl hd)
  · by_cases h1 : m < s.nodes.size
    · exact Or.inl ⟨h1, hd⟩
    · by_cases h2 : m < t.nodes.size
      · exact Or.inr (Or.inr (Or.inl ⟨by omega, h2⟩))
      · exact Or.inr (Or.inr (Or.inr (by omega)))

/-- no stamp of `t` is in the future -/
theorem stampsT (X : Mid env n b rhs br l r s t s') (I : DInv env s (some n)) (m : Nat) :
    (t.nodeD m).recomputedAt ≤ s.stabNum ∧ (t.nodeD m).changedAt ≤ s.stabNum := by
  have M := X.rel
  rcases X.classes m with ⟨h1, hd⟩ | hd | ⟨h1, h2⟩ | h1
  · by_cases e : m = n
    · subst e; rw [M.recN, M.chgN]; exact ⟨Int.le_refl _, Int.le_refl _⟩
    · rw [M.recO m h1 hd e, M.chgO m h1 hd e]; exact I.stamps.node m
  · obtain ⟨-, -, -, -, -, d6, d7, -⟩ := M.dead m hd
    exact ⟨d6, d7⟩
  · obtain ⟨-, -, c3, c4, -⟩ := M.new m h1 h2
    rw [c3, c4]
    have := I.stamps.now
    exact ⟨by omega, by omega⟩
  · rw [nodeD_default t m h1, ← nodeD_default s m (by have := M.grow; omega)]
    exact I.stamps.node m

/-- the last step changes no stamp at all (`n` was stamped by `started` and by `lhsRelink`) -/
theorem recT (X : Mid env n b rhs br l r s t s') (m : Nat) :
    (s'.nodeD m).recomputedAt = (t.nodeD m).recomputedAt := by
  by_cases e : m = n
  · subst e; rw [X.step.recomputedAt, X.rel.recN, X.rel.stabNum]
  · exact (X.step.other m e).recomputedAt

theorem chgT (X : Mid env n b rhs br l r s t s') (m : Nat) :
    (s'.nodeD m).changedAt = (t.nodeD m).changedAt := by
  by_cases e : m = n
  · subst e; rw [X.step.changedAt, if_pos rfl, X.rel.chgN, X.rel.stabNum]
  · exact (X.step.other m e).changedAt

theorem keyEq (X : Mid env n b rhs br l r s t s') : BL.KeyEq t s' :=
  ⟨X.step.size, X.step.binds, X.step.vars, fun m => (X.step.shapes m).valid, fun m => (X.step.shapes m).kind,
    fun m => (X.step.shapes m).cutoff, fun m => (X.step.shapes m).createdIn, X.recT, X.chgT⟩

theorem staleT (X : Mid env n b rhs br l r s t s') (m : Nat) : s'.isStale m = t.isStale m :=
  X.keyEq.isStale1 X.ginv.frag m

theorem childrenT (X : Mid env n b rhs br l r s t s') (m : Nat) : s'.children m = t.children m :=
  X.keyEq.children1 X.ginv.frag m

theorem children_other (X : Mid env n b rhs br l r s t s') (A : F1Inv env s) {m : Nat}
    (hlt : m < s.nodes.size) (hd : m ∉ br.allNodesCreatedOnRhs) (hm : m ≠ br.main) :
    s'.children m = s.children m :=
  (X.childrenT m).trans (X.rel.children A.frag X.pre.hb hlt hd hm)

theorem main_lt (X : Mid env n b rhs br l r s t s') : br.main < t.nodes.size := by
  have := X.rel.grow; have := X.pre.hml; omega

/-- the main node is stale after phase 3 -/
theorem main_stale (X : Mid env n b rhs br l r s t s') (A : F1Inv env s) : t.isStale br.main = true := by
  have N := X.ginv.frag.node br.main X.main_lt
  have k := X.rel.nk br.main X.pre.hml (X.md A)
  have hv : (t.nodeD br.main).valid = true := (N.top (k.createdIn.trans X.pre.topM)).1
  apply isStale_of_child hv N.kind (c := n)
  · rw [X.kidsMain]; exact List.mem_cons_self ..
  · rw [X.rel.chgN, X.rel.recO br.main X.pre.hml (X.md A) X.pre.ne]; exact X.pre.hmr

/-- the change detector is not stale after phase 3 -/
theorem n_fresh (X : Mid env n b rhs br l r s t s') (I : DInv env s (some n)) : t.isStale n = false := by
  have hlt : n < t.nodes.size := nec_lt_size X.necN
  apply isStale_fresh (X.ginv.frag.node n hlt).kind (by rw [X.rel.stabNum]; exact I.stamps.now)
    (by rw [X.rel.recN, X.rel.stabNum])
  · intro c vc h
    rw [X.rel.vars] at h
    rw [X.rel.stabNum]; exact I.stamps.var c vc h
  · intro c
    rw [X.rel.stabNum]; exact (X.stampsT I c).2

/-- the only recorded parent of `n` after phase 3 is the main node -/
theorem par_n (X : Mid env n b rhs br l r s t s') (A : F1Inv env s) (hk : (s.nodeD n).kind = .bindLhsChange b)
    {p : Nat} (hp : p ∈ (t.nodeD n).parents.map (·.1)) : p = br.main := by
  obtain ⟨⟨p', i⟩, hmem, rfl⟩ := List.mem_map.1 hp
  obtain ⟨hci, -⟩ := X.ginv.par n p' i hmem
  have hpl := children_lt_size hci
  have N := X.ginv.frag.node p' hpl
  have hkp := N.lcChild n b (List.mem_of_getElem? hci)
    (by rw [(X.rel.nk n X.pre.hlt (X.nd A)).kind]; exact hk)
  obtain ⟨br', hb', hm', -⟩ := N.mainRec b n hkp
  rw [X.rel.bind] at hb'
  cases hb'
  exact hm'.symm

theorem main_par (X : Mid env n b rhs br l r s t s') : br.main ∈ (t.nodeD n).parents.map (·.1) := by
  have h0 : (t.children br.main)[0]? = some n := by rw [X.kidsMain]; rfl
  exact List.mem_map.2 ⟨(br.main, 0), X.ginv.conv br.main 0 n h0 ((wants_closed rfl).2 X.necMain), rfl⟩

theorem rhs_ne (X : Mid env n b rhs br l r s t s') : rhs ≠ n := by
  have := X.pre.hlt
  rcases X.rhsOK with ⟨-, h, -⟩ | ⟨h, -⟩ <;> omega

end Mid

/-- **the run of a change detector in F1 satisfies `StepL`** -/
theorem stepL_of_mid {env : Env} {n b rhs : Nat} {br : BindRec} {l : List Nat} {r : Option Nat} {s t s' : State}
    (I : DInv env s (some n)) (A : F1Inv env s) (hk : (s.nodeD n).kind = .bindLhsChange b)
    (X : Mid env n b rhs br l r s t s') :
    StepL env n b br { { br with allNodesCreatedOnRhs := l } with rhs := some rhs } r s s' := by
  have R := X.step
  have M := X.rel
  have hmst := X.main_stale A
  have kn := M.nk n X.pre.hlt (X.nd A)
  refine
    { bind := X.pre.hb
      bind' := by rw [R.binds]; exact M.bind
      lc := ⟨X.pre.hlc, X.pre.hlc, rfl, rfl, rfl⟩
      bindsOther := ⟨by rw [R.binds]; exact M.bindsSize, fun b' e => by rw [R.binds]; exact M.bindsOther b' e⟩
      grow := by rw [R.size]; exact M.grow
      vars := R.vars.trans M.vars
      stabNum := X.stab
      graph' := R.graph X.graph
      heap' := R.heap
      stamps' := ⟨by rw [X.stab]; exact I.stamps.now, fun m => ?_, fun c vc h => ?_⟩
      qstale' := fun m hm => ?_
      pending' := fun m hn hs => ?_
      self := ?_
      old := fun m hm e => ?_
      new := fun m h1 h2 => ?_
      main := ⟨X.pre.hml, X.pre.hmem, by rw [X.childrenT, X.kidsMain]; exact List.mem_cons_self .., X.pre.ne⟩
      ret := fun p hp => ?_ }
  · -- stamps of the nodes
    rw [X.stab, X.recT, X.chgT]
    exact X.stampsT I m
  · -- stamps of the variables
    rw [R.vars, M.vars] at h
    rw [X.stab]; exact I.stamps.var c vc h
  · -- only stale nodes are queued
    rw [X.staleT]
    rcases R.newIn m hm with h1 | ⟨-, h1⟩
    · exact X.ginv.qstale m h1
    · rw [X.par_n A hk h1]; exact hmst
  · -- stale necessary nodes are queued or handed over
    rw [R.nec] at hn
    rw [X.staleT] at hs
    by_cases e : m = br.main
    · rw [e]; exact R.parentsIn rfl br.main X.main_par
    · left
      have hq := X.ginv.queued m rfl hn hs e
      by_cases e2 : m = n
      · exfalso
        rw [e2, X.n_fresh I] at hs; cases hs
      · exact (R.other m e2).inRch hq
  · -- the change detector itself
    refine ⟨by rw [R.recomputedAt, M.stabNum], by rw [R.changedAt, if_pos rfl, M.stabNum], R.value, ?_,
      (R.shapes n).kind.trans kn.kind, X.children_other A X.pre.hlt (X.nd A) (Ne.symm X.pre.ne),
      (R.shapes n).createdIn.trans kn.createdIn⟩
    rw [(R.shapes n).valid, kn.valid]; exact X.pre.hvn
  · -- the other old nodes
    by_cases hd : m ∈ br.allNodesCreatedOnRhs
    · left
      obtain ⟨-, k1, k2⟩ := X.pre.dyOld A hd
      exact ⟨k1, by rw [(R.shapes m).valid]; exact (M.dead m hd).1, k2⟩
    · right
      have k := M.nk m hm hd
      refine ⟨(R.shapes m).valid.trans k.valid, (R.shapes m).kind.trans k.kind,
        (R.shapes m).createdIn.trans k.createdIn, ?_, ?_, ?_, fun hm' => X.children_other A hm hd hm'⟩
      · rw [(R.other m e).value, k.value]
      · rw [(R.other m e).recomputedAt, M.recO m hm hd e]
      · rw [(R.other m e).changedAt, M.chgO m hm hd e]
  · -- the new nodes
    rw [R.size] at h2
    have e : m ≠ n := by have := X.pre.hlt; omega
    obtain ⟨c1, c2, c3, -⟩ := M.new m h1 h2
    refine ⟨(R.other m e).recomputedAt.trans c3, (R.shapes m).createdIn.trans c1, fun _ => ?_⟩
    rw [X.staleT]
    obtain ⟨k1, k2, -⟩ := (X.ginv.frag.node m h2).inScope b c1
    exact isStale_pristine c2 k1 k2 c3
  · -- the handed-over node
    obtain ⟨-, h1, h2, h3⟩ := R.ret p hp
    have hpm := X.par_n A hk h1
    subst hpm
    refine ⟨rfl, h2, by rw [R.nec]; exact X.necMain, fun m hm => ?_⟩
    have hcm := X.kidsMain
    rw [(R.shapes _).height, (R.shapes m).height]
    rcases h3 with ⟨h4, -⟩ | h4 | ⟨b', lc, -, h4, -⟩
    · rw [hcm] at h4; cases h4
    · exact h4 m hm
    · rw [hcm] at h4
      injection h4 with _ h5
      injection h5 with h6 _
      exact absurd h6 X.rhs_ne

end CC
end IncrVerif.Proofs.BindH
