import IncrVerif.Proofs.CutH30
import IncrVerif.Proofs.CutH5
-- Port of Proofs/Sched12.lean to ARBITRARY cutoffs (scratch name T12); overview in Props/C06History.lean
/-!
# Termination of the drain for ARBITRARY cutoffs: with enough fuel `drainHeap` returns

Port of `Proofs/Sched12.lean`; `unrun` and its lemmas (`Frame.unrun_le`, `Frame.unrun_lt`, `unrun_pos`,
`unrun_le_size`) are re-used from `Sched`.
-/
namespace IncrVerif.Proofs.CutH
open IncrVerif.Engine IncrVerif.Proofs IncrVerif.Proofs.Step IncrVerif.Proofs.Sched
variable {e : Bool}

/-- after its `recompute` the current node carries the stamp of the round -/
theorem recompute_ran {env : Env} : ∀ (fuel n : Nat) (s s' : State), Inv env e s (some n) →
    (recompute env fuel n).run.run s = (.ok (), s') → (s'.nodeD n).recomputedAt = s.stabNum := by
  intro fuel
  cases fuel with
  | zero => intro n s s' _ h; unfold recompute at h; cases h
  | succ fuel =>
    intro n s s' I h
    unfold recompute at h
    obtain ⟨r, s1, h1, h2⟩ := bind_ok_inv h
    obtain ⟨I1, f1, hn1⟩ := recomputeOne_inv I h1
    cases r with
    | none => obtain ⟨-, rfl⟩ := pure_ok_inv h2; exact hn1
    | some p =>
      obtain ⟨-, f2⟩ := recompute_inv fuel p s1 s' I1 h2
      have := f2.ran n (by rw [f1.stabNum]; exact hn1)
      rw [f1.stabNum] at this; exact this

/-- **the chain terminates**: with `fuel > unrun s` the direct-recompute chain returns -/
theorem recompute_total {env : Env} : ∀ (fuel n : Nat) (s : State), Inv env e s (some n) → Safe s →
    unrun s + 1 ≤ fuel → ∃ s', (recompute env fuel n).run.run s = (.ok (), s') := by
  intro fuel
  induction fuel with
  | zero => intro n s _ _ h; omega
  | succ fuel ih =>
    intro n s I S hf
    have hnlt := (I.graph.nec n (I.cur n rfl).1).1
    have hpos := unrun_pos hnlt I.cur_not_yet
    unfold recompute
    rw [run_bind]
    rcases h1 : (recomputeOne env fuel n).run.run s with ⟨r | r, s1⟩
    · exfalso
      have := (recomputeOne_safe I S h1).2
      omega
    · obtain ⟨I1, f1, hn1⟩ := recomputeOne_inv I h1
      cases r with
      | none => exact ⟨s1, rfl⟩
      | some p =>
        have hlt := f1.unrun_lt I.stamps hnlt I.cur_not_yet hn1
        exact ih p s1 I1 (recomputeOne_keeps_safe I S h1) (by omega)

/-- **the drain terminates**: with `fuel ≥ unrun s + 2` a `drainHeap` from a state with the drain
invariant and `Safe` returns -/
theorem drainHeap_total {env : Env} : ∀ (fuel : Nat) (s : State), DrainInv env e s → Safe s →
    unrun s + 2 ≤ fuel → ∃ s', (drainHeap env fuel).run.run s = (.ok (), s') := by
  intro fuel
  induction fuel with
  | zero => intro s _ _ h; omega
  | succ fuel ih =>
    intro s I S hf
    obtain ⟨r, s1, hpop, S1⟩ := rchRemoveMin_safe I S
    unfold drainHeap
    rw [run_bind, hpop]
    cases r with
    | none => exact ⟨s1, rfl⟩
    | some n =>
      obtain ⟨I1, f1⟩ := pop_inv I hpop
      have hle := f1.unrun_le I.stamps
      obtain ⟨s2, hrec⟩ := recompute_total fuel n s1 I1 S1 (by omega)
      obtain ⟨I2, f2⟩ := recompute_inv fuel n s1 s2 I1 hrec
      have hnlt := (I1.graph.nec n (I1.cur n rfl).1).1
      have hlt := f2.unrun_lt I1.stamps hnlt I1.cur_not_yet (recompute_ran fuel n s1 s2 I1 hrec)
      obtain ⟨s', hd⟩ := ih s2 I2 (recompute_keeps_safe fuel n s1 s2 I1 S1 hrec) (by omega)
      refine ⟨s', ?_⟩
      simp only [run_bind, hrec, hd]

/-- **total correctness of the drain (any cutoffs).** From the drain invariant and `Safe`, with
`fuel ≥ s.nodes.size + 2`, `drainHeap` returns; the final state satisfies the drain invariant and has an
empty heap. -/
theorem drainHeap_total_inv {env : Env} {fuel : Nat} {s : State} (I : DrainInv env e s) (S : Safe s)
    (hf : s.nodes.size + 2 ≤ fuel) :
    ∃ s', (drainHeap env fuel).run.run s = (.ok (), s') ∧ DrainInv env e s' ∧ s'.rch.length = 0 ∧
      Frame s s' ∧ Safe s' := by
  have := unrun_le_size s
  obtain ⟨s', h⟩ := drainHeap_total fuel s I S (by omega)
  obtain ⟨I', he, f⟩ := drainHeap_inv fuel s s' I h
  exact ⟨s', h, I', he, f, S.frame f⟩

/-- **total correctness of the drain (exact cutoffs).** With the flag up, moreover every necessary node
carries its from-scratch value. -/
theorem drainHeap_total_values {env : Env} {fuel : Nat} {s : State} (I : DrainInv env true s) (S : Safe s)
    (hf : s.nodes.size + 2 ≤ fuel) :
    ∃ s', (drainHeap env fuel).run.run s = (.ok (), s') ∧ DrainInv env true s' ∧ s'.rch.length = 0 ∧
      Frame s s' ∧ ∀ n, s.isNecessary n = true → ∀ k, (s.nodeD n).height.toNat < k →
        s'.isStale n = false ∧ s'.value env n = eval env s k n ∧ (eval env s k n).isSome = true := by
  obtain ⟨s', h, I', he, f, -⟩ := drainHeap_total_inv I S hf
  refine ⟨s', h, I', he, f, ?_⟩
  intro n hn k hk
  obtain ⟨-, -, -, h4, -, h6, h7⟩ := drainHeap_values I h n hn k hk
  exact ⟨h4, h6, h7⟩

end IncrVerif.Proofs.CutH
