import IncrVerif.Proofs.TidyH35
/-!
# T4: `adjustHeights` returns (total correctness) for `QR.GInv`, part 3: the headline `adjustHeights_totalR`

`adjustHeights oc op' fuel` RETURNS (no "cyclic" panic: the new edge respects the rank; no "height-limit": the depth
bounds the heights and there is room; no assertion fails; `s.nodes.size + 1 ≤ fuel` suffices: every node is popped
from the adjust-heights heap at most once) and the height bound then holds for ALL necessary nodes, `op'` included.
-/
namespace IncrVerif.Proofs.TidyH.XT
open IncrVerif.Engine IncrVerif.Driver IncrVerif.Proofs IncrVerif.Proofs.Step IncrVerif.Proofs.Sched
open IncrVerif.Proofs.ExpertH IncrVerif.Proofs.ExpertH.QR IncrVerif.Proofs.ExpertH.QR.BA

open X4e in
/-- **`adjustHeights` returns and restores the height invariant and the height bound** (TOTAL correctness).
Hypotheses of `QR.adjustHeights_specR_full`, plus: `hb` every closed necessary node is within the depth bound (`op'` is
open: nothing is assumed about it except `h0`), `R` room, `hge` the precondition of the call (`stateAddParent` calls
`adjustHeights child parent` only if `child.height ≥ parent.height`), fuel for one pop per node. -/
theorem adjustHeights_totalR {env : Env} {rk : Nat → Nat} {N oc op' fuel : Nat} {s : State} {op : Nat → Op}
    (I : GInv env rk s op) (hb : HBd s op) (R : Room N s)
    (hopen : ∃ k, op op' = .linking k) (hclosed : ∀ m, m ≠ op' → op m = .closed)
    (hedge : ∃ i, (op', i) ∈ (s.nodeD oc).parents)
    (hother : ∀ c i, (op', i) ∈ (s.nodeD c).parents → c ≠ oc → (s.nodeD c).height < (s.nodeD op').height)
    (hgtop : (s.nodeD op').inRch = true → (s.nodeD op').heightInRch = (s.nodeD op').height)
    (hah : AhhEmpty s)
    (hge : (s.nodeD op').height ≤ (s.nodeD oc).height) (h0 : 0 ≤ (s.nodeD op').height)
    (hf : s.nodes.size + 1 ≤ fuel) :
    Tot (adjustHeights oc op' fuel) s (fun _ s' =>
      GInv env rk s' op ∧ AhhEmpty s' ∧ HRel s s' ∧
        (∀ c i, (op', i) ∈ (s'.nodeD c).parents → (s'.nodeD c).height < (s'.nodeD op').height) ∧
        ((s'.nodeD op').inRch = true → (s'.nodeD op').heightInRch = (s'.nodeD op').height) ∧
        (∀ m, rk m < rk op' → s'.nodeD m = s.nodeD m) ∧
        (∀ m, s'.isNecessary m = true → (s'.nodeD m).height ≤ (dp s' m : Int) + 1) ∧ Room N s') := by
  obtain ⟨i0, hedge⟩ := hedge
  obtain ⟨k0, hopen⟩ := hopen
  have hrk : rk oc < rk op' := I.par_lt hedge
  have hocp : oc ≠ op' := I.par_ne hedge
  have hnoc : s.isNecessary oc = true := nec_of_mem_parents hedge
  have hnop : s.isNecessary op' = true := I.lnec _ _ hopen
  have hoc : oc < s.nodes.size := nec_lt_size hnoc
  have hop : op' < s.nodes.size := nec_lt_size hnop
  have HT : LoopHypT env rk oc op' s := by
    refine ⟨I.static, fun c p i h => (I.par c p i h).1, ?_, ?_, ?_, hrk⟩
    · intro c p i h
      have h2 := (I.par c p i h).2
      by_cases e : p = op'
      · rw [e]; exact hnop
      · exact (wants_closed (hclosed p e)).1 h2
    · intro m hn
      by_cases e : m = op'
      · rw [e]; exact h0
      · exact I.hpos m hn (hclosed m e)
    · intro c p i h hco
      by_cases e : p = op'
      · rw [e] at h ⊢; exact hother c i h hco
      · exact I.hlt c p i h (hclosed p e)
  unfold adjustHeights
  refine Tot.bind_get ?_
  refine Tot.bind_dassert (fun _ => by rw [hah.length]; rfl) ?_
  refine Tot.bind_dassert (fun _ => by simpa using hge) ?_
  refine tot_bind_modify' ?_
  intro s1 hs1
  -- the invariants hold initially, with the edges `oc → op'` still to be looked at
  have hnd1 : ∀ m, s1.nodeD m = s.nodeD m := fun m => by rw [hs1]; rfl
  have hlb1 : s1.ahh.lowerBound = (s.nodeD op').height := by rw [hs1]
  have E1 : AhhEmpty s1 := by
    rw [hs1]; exact ⟨hah.length, hah.buckets, hah.marks⟩
  have A1 : AInv rk op' s s1 (fun x q _ => x = oc ∧ q = op') noY := by
    refine ⟨by rw [hs1]; exact HRel.same_nodes rfl rfl, AhhEmpty.wf E1,
      I.heap.congr (by rw [hs1]) (by rw [hs1]) (fun m => by rw [hnd1]), ?_, ?_, ?_, ?_, fun m _ => hnd1 m,
      fun m hmm => absurd (E1.marks m) hmm⟩
    · intro c p i hm
      rw [hnd1] at hm
      rw [hnd1, hnd1]
      by_cases e : p = op'
      · by_cases ec : c = oc
        · exact Or.inr (Or.inr ⟨ec, e⟩)
        · rw [e] at hm ⊢; exact Or.inl (hother c i hm ec)
      · exact Or.inl (I.hlt c p i hm (hclosed p e))
    · intro c p i _ hmc
      exact absurd (E1.marks c) hmc
    · intro m hqm _ _
      rw [hnd1] at hqm ⊢
      by_cases e : m = op'
      · rw [e] at hqm ⊢; exact hgtop hqm
      · exact I.hgt m hqm (hclosed m e)
    · intro m hqm
      rw [hnd1] at hqm ⊢
      by_cases e : m = op'
      · rw [e] at hqm ⊢; rw [hgtop hqm]; exact Int.le_refl _
      · rw [I.hgt m hqm (hclosed m e)]; exact Int.le_refl _
  have R1 : Room N s1 := by rw [hs1]; exact ⟨R.ahh, R.rch, R.size⟩
  have T1 : TI N s s1 [] (· = op') := by
    refine ⟨R1, ?_,
      fun m hm => absurd (E1.marks m) hm, fun m hm => absurd (E1.marks m) hm, fun m hm => absurd (E1.marks m) hm,
      fun m _ _ => by rw [hnd1], fun m hm => by cases hm⟩
    intro m hn hz
    rw [hnd1]
    exact hb m hn (hclosed m hz)
  have hcb : (s1.nodeD oc).height ≤ (dp s oc : Int) + 1 := T1.bound oc hnoc hocp
  have hdp : dp s oc < dp s op' := dp_kid_lt' I.static (I.par oc op' i0 hedge).1
  -- the first `ensureHeightRequirement`
  obtain ⟨s2, h2⟩ := ehr_tot (oc := oc) (op := op') (c := oc) (p := op') (s := s1) (by rw [A1.rel.size]; exact hoc)
    (by rw [A1.rel.size]; exact hop) (by rw [A1.rel.nec]; exact hnoc) (by rw [A1.rel.nec]; exact hnop)
    (fun e => hocp e.symm) (by rw [hlb1, hnd1]; exact Int.le_refl _) (by rw [hnd1]; exact h0)
    (by
      have h2 := dp_lt_size I.static hop
      have h3 := T1.room.size
      have h4 := T1.room.ahh
      have h5 := A1.rel.size
      omega)
  refine Tot.bind_ok h2 ?_
  have hne0 : ∀ x q i, (q, i) ∈ (s.nodeD x).parents → x ≠ q := fun x q i hm => I.par_ne hm
  obtain ⟨A2, -, -⟩ := ehr_step h2 A1 (fun x q i hx => hx.1) hne0 hocp
    (by rw [hnd1, hlb1]; exact Int.le_refl _) (Nat.le_refl _)
  have A2' : AInv rk op' s s2 noX noY := A2.mono (fun x q i _ hx => hx.2 hx.1.2) (fun _ hy => hy)
  obtain ⟨T2, -⟩ := TI.ehr h2 A1 T1 hcb hdp (List.not_mem_nil) hnop (fun _ => by rw [hnd1, hnd1]; exact hge)
  have T2' : TI N s s2 [] noZ := T2.mono (fun m h => h.2 h.1)
  -- the loop
  refine Tot.bind (loop_tot HT fuel s2 [] A2' T2' (by rw [mu_nil]; omega)) ?_
  rintro u s3 h3 ⟨dn3, T3⟩
  have hlt0 : ∀ x q i, (q, i) ∈ (s.nodeD x).parents → rk x < rk q := fun x q i hm => I.par_lt hm
  have hstat : ∀ m, m < s.nodes.size → StaticKind env (s.nodeD m).kind := fun m hm => (I.node hm).kind
  obtain ⟨A3, E3⟩ := loop_spec hlt0 hstat fuel s2 s3 h3 A2'
  obtain ⟨k1, k2, k3⟩ := keep (op' := op') A3 E3 I
  have hfine : (s3.nodeD oc).height < (s3.nodeD op').height :=
    k2 oc i0 (by rw [A3.rel.parents]; exact hedge)
  refine Tot.bind_get ?_
  refine Tot.bind_dassert (fun _ => by rw [E3.length]; rfl) ?_
  refine Tot.of_ok (run_dassert_true s3 (fun _ => by simpa using hfine)) ?_
  refine ⟨k1, E3, A3.rel, k2, k3, A3.low, ?_, T3.room⟩
  intro m hn
  rw [dp_congr (fun x => A3.rel.kind (m := x)) A3.rel.size]
  rw [A3.rel.nec] at hn
  exact T3.bound m hn (fun h => h)

end IncrVerif.Proofs.TidyH.XT
