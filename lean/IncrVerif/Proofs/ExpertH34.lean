import IncrVerif.Proofs.Sched13
import IncrVerif.Engine.Run
/-!
# The frame `AhF`: the adjust-heights heap and the `heightInAhh` marks are only touched by the functions of the
adjust-heights heap (`ahhAddUnlessMem`, `ahhRemoveMin`, `ensureHeightRequirement`, `adjustHeightsLoop`,
`adjustHeights`, hence `stateAddParent`) and `setMaxHeightAllowed`
-/
namespace IncrVerif.Proofs.ExpertH
open IncrVerif.Engine IncrVerif.Proofs IncrVerif.Proofs.Step

structure AhF (s s' : State) : Prop where
  size : s'.nodes.size = s.nodes.size
  ahh : s'.ahh = s.ahh
  mark : ∀ m, (s'.nodeD m).heightInAhh = (s.nodeD m).heightInAhh

theorem AhF.refl (s : State) : AhF s s := ⟨rfl, rfl, fun _ => rfl⟩
theorem AhF.trans {a b c : State} (h1 : AhF a b) (h2 : AhF b c) : AhF a c :=
  ⟨h2.size.trans h1.size, h2.ahh.trans h1.ahh, fun m => (h2.mark m).trans (h1.mark m)⟩
instance : Step.PreOrd AhF := ⟨AhF.refl, AhF.trans⟩

theorem AhF.of_nodes {s s' : State} (h1 : s'.nodes = s.nodes) (h2 : s'.ahh = s.ahh) : AhF s s' := by
  refine ⟨by rw [h1], h2, fun m => ?_⟩
  have : s'.nodeD m = s.nodeD m := by simp [State.nodeD, h1]
  rw [this]

theorem AhF.modNode (s : State) (n : Nat) (f : Node → Node) (hf : ∀ x, (f x).heightInAhh = x.heightInAhh) :
    AhF s { s with nodes := s.nodes.modify n f } := by
  refine ⟨by simp, rfl, fun m => ?_⟩
  rw [nodeD_modify]; split
  · exact hf _
  · rfl

theorem PresAh.modNode (n : Nat) (f : Node → Node) (hf : ∀ x, (f x).heightInAhh = x.heightInAhh) :
    Step.Pres AhF (Engine.modNode n f) := by
  unfold Engine.modNode; exact Step.Pres.modify fun s => AhF.modNode s n f hf

macro_rules
  | `(tactic| qleaf) =>
    `(tactic| ((with_reducible apply Step.Pres.modify); intro _; exact AhF.of_nodes rfl rfl))
macro_rules
  | `(tactic| qleaf) => `(tactic| ((with_reducible apply PresAh.modNode); intro _; rfl))

macro "ah_leaf " n:ident : command =>
  `(macro_rules | `(tactic| qleaf) => `(tactic| with_reducible apply $n))

theorem PresAh.modExpert (e f) : Step.Pres AhF (Engine.modExpert e f) := by unfold Engine.modExpert; qpres
ah_leaf PresAh.modExpert

theorem PresAh.discard {α} {x : M α} (h : Step.Pres AhF x) : Step.Pres AhF (discard x) := by
  unfold Functor.discard; exact Step.Pres.map _ h
ah_leaf PresAh.discard

theorem PresAh.logEv (e) : Step.Pres AhF (Engine.logEv e) := by unfold Engine.logEv; qpres
ah_leaf PresAh.logEv
theorem PresAh.tick : Step.Pres AhF Engine.tick := by unfold Engine.tick; qpres
ah_leaf PresAh.tick
theorem PresAh.bumpCounter (f) : Step.Pres AhF (Engine.bumpCounter f) := by unfold Engine.bumpCounter; qpres
ah_leaf PresAh.bumpCounter
theorem PresAh.modBind (b f) : Step.Pres AhF (Engine.modBind b f) := by unfold Engine.modBind; qpres
ah_leaf PresAh.modBind
theorem PresAh.modObs (o f) : Step.Pres AhF (Engine.modObs o f) := by unfold Engine.modObs; qpres
ah_leaf PresAh.modObs
theorem PresAh.modVar (v f) : Step.Pres AhF (Engine.modVar v f) := by unfold Engine.modVar; qpres
ah_leaf PresAh.modVar
theorem PresAh.getObs (o) : Step.Pres AhF (Engine.getObs o) := by unfold Engine.getObs; qpres
ah_leaf PresAh.getObs
theorem PresAh.getVar (v) : Step.Pres AhF (Engine.getVar v) := Step.Pres.getVar v
theorem PresAh.addParent (c i p) : Step.Pres AhF (Engine.addParent c i p) := by unfold Engine.addParent; qpres
ah_leaf PresAh.addParent
theorem PresAh.removeParent (c i p) : Step.Pres AhF (Engine.removeParent c i p) := by
  unfold Engine.removeParent; qpres
ah_leaf PresAh.removeParent
theorem PresAh.setHeight (n h) : Step.Pres AhF (Engine.setHeight n h) := by unfold Engine.setHeight; qpres
ah_leaf PresAh.setHeight
theorem PresAh.rchLink (n) : Step.Pres AhF (Engine.rchLink n) := by unfold Engine.rchLink; qpres
ah_leaf PresAh.rchLink
theorem PresAh.rchUnlink (n) : Step.Pres AhF (Engine.rchUnlink n) := by unfold Engine.rchUnlink; qpres
ah_leaf PresAh.rchUnlink
theorem PresAh.rchInsert (n) : Step.Pres AhF (Engine.rchInsert n) := by unfold Engine.rchInsert; qpres
ah_leaf PresAh.rchInsert
theorem PresAh.rchRemove (n) : Step.Pres AhF (Engine.rchRemove n) := by unfold Engine.rchRemove; qpres
ah_leaf PresAh.rchRemove
theorem PresAh.rchRemoveMin : Step.Pres AhF Engine.rchRemoveMin := by unfold Engine.rchRemoveMin; qpres
ah_leaf PresAh.rchRemoveMin
theorem PresAh.rchMinHeight : Step.Pres AhF Engine.rchMinHeight := by unfold Engine.rchMinHeight; qpres
ah_leaf PresAh.rchMinHeight
theorem PresAh.rchIncreaseHeight (n) : Step.Pres AhF (Engine.rchIncreaseHeight n) := by
  unfold Engine.rchIncreaseHeight; qpres
ah_leaf PresAh.rchIncreaseHeight
theorem PresAh.scopeHeight (sc) : Step.Pres AhF (Engine.scopeHeight sc) := Step.Pres.scopeHeight sc
theorem PresAh.scopeIsNecessary (sc) : Step.Pres AhF (Engine.scopeIsNecessary sc) := by
  unfold Engine.scopeIsNecessary; qpres
ah_leaf PresAh.scopeIsNecessary
theorem PresAh.handleAfterStabilisation (n) : Step.Pres AhF (Engine.handleAfterStabilisation n) := by
  unfold Engine.handleAfterStabilisation; qpres
ah_leaf PresAh.handleAfterStabilisation
theorem PresAh.maybeHandleAfterStabilisation (n) : Step.Pres AhF (Engine.maybeHandleAfterStabilisation n) := by
  unfold Engine.maybeHandleAfterStabilisation; qpres
ah_leaf PresAh.maybeHandleAfterStabilisation
theorem PresAh.edgeOnChange (env e edge) : Step.Pres AhF (Engine.edgeOnChange env e edge) := by
  unfold Engine.edgeOnChange; qpres
ah_leaf PresAh.edgeOnChange
theorem PresAh.runEdgeCallback (env e i) : Step.Pres AhF (Engine.runEdgeCallback env e i) := by
  unfold Engine.runEdgeCallback; qpres
ah_leaf PresAh.runEdgeCallback
theorem PresAh.observabilityChange (e b) : Step.Pres AhF (Engine.observabilityChange e b) := by
  unfold Engine.observabilityChange; qpres
ah_leaf PresAh.observabilityChange

theorem PresAh.markMapRefUnknown (fuel n) : Step.Pres AhF (Engine.markMapRefUnknown fuel n) := by
  induction fuel generalizing n with
  | zero => unfold Engine.markMapRefUnknown; qpres
  | succ fuel ih =>
    unfold Engine.markMapRefUnknown
    qpres
    all_goals (apply Step.Pres.forIn; intro a b; qpres; all_goals exact ih _)
ah_leaf PresAh.markMapRefUnknown

theorem PresAh.link (env : Env) (fuel : Nat) :
    (∀ n, Step.Pres AhF (Engine.becameNecessary env fuel n)) ∧
    (∀ c i p, Step.Pres AhF (Engine.addParentWithoutAdjustingHeights env fuel c i p)) := by
  induction fuel with
  | zero =>
    constructor
    · intro n; unfold Engine.becameNecessary; qpres
    · intro c i p; unfold Engine.addParentWithoutAdjustingHeights; qpres
  | succ fuel ih =>
    constructor
    · intro n
      unfold Engine.becameNecessary
      qpres
      all_goals (apply Step.Pres.forIn; intro a b; qpres; all_goals exact ih.2 _ _ _)
    · intro c i p
      unfold Engine.addParentWithoutAdjustingHeights
      qpres
      all_goals exact ih.1 _

theorem PresAh.becameNecessary (env fuel n) : Step.Pres AhF (Engine.becameNecessary env fuel n) :=
  (PresAh.link env fuel).1 n
ah_leaf PresAh.becameNecessary
theorem PresAh.addParentWithoutAdjustingHeights (env fuel c i p) :
    Step.Pres AhF (Engine.addParentWithoutAdjustingHeights env fuel c i p) :=
  (PresAh.link env fuel).2 c i p
ah_leaf PresAh.addParentWithoutAdjustingHeights

theorem PresAh.unlink (fuel : Nat) :
    (∀ n, Step.Pres AhF (Engine.becameUnnecessary fuel n)) ∧
    (∀ n, Step.Pres AhF (Engine.checkIfUnnecessary fuel n)) ∧
    (∀ n, Step.Pres AhF (Engine.removeChildren fuel n)) := by
  induction fuel with
  | zero =>
    refine ⟨?_, ?_, ?_⟩
    · intro n; unfold Engine.becameUnnecessary; qpres
    · intro n; unfold Engine.checkIfUnnecessary; qpres
    · intro n; unfold Engine.removeChildren; qpres
  | succ fuel ih =>
    refine ⟨?_, ?_, ?_⟩
    · intro n
      unfold Engine.becameUnnecessary
      qpres
      all_goals exact ih.2.2 _
    · intro n
      unfold Engine.checkIfUnnecessary
      qpres
      all_goals exact ih.1 _
    · intro n
      unfold Engine.removeChildren
      qpres
      all_goals (apply Step.Pres.forIn; intro a b; qpres; all_goals exact ih.2.1 _)

theorem PresAh.becameUnnecessary (fuel n) : Step.Pres AhF (Engine.becameUnnecessary fuel n) :=
  (PresAh.unlink fuel).1 n
ah_leaf PresAh.becameUnnecessary
theorem PresAh.checkIfUnnecessary (fuel n) : Step.Pres AhF (Engine.checkIfUnnecessary fuel n) :=
  (PresAh.unlink fuel).2.1 n
ah_leaf PresAh.checkIfUnnecessary
theorem PresAh.removeChildren (fuel n) : Step.Pres AhF (Engine.removeChildren fuel n) :=
  (PresAh.unlink fuel).2.2 n
ah_leaf PresAh.removeChildren

theorem PresAh.invalidateNode (fuel n) : Step.Pres AhF (Engine.invalidateNode fuel n) := by
  induction fuel generalizing n with
  | zero => unfold Engine.invalidateNode; qpres
  | succ fuel ih =>
    unfold Engine.invalidateNode
    qpres
    all_goals (apply Step.Pres.forIn; intro a b; qpres; all_goals exact ih _)
ah_leaf PresAh.invalidateNode

theorem PresAh.propagateInvalidity (fuel) : Step.Pres AhF (Engine.propagateInvalidity fuel) := by
  induction fuel with
  | zero => unfold Engine.propagateInvalidity; qpres
  | succ fuel ih =>
    unfold Engine.propagateInvalidity
    qpres
    all_goals exact ih
ah_leaf PresAh.propagateInvalidity

theorem PresAh.becameNecessaryPropagate (env fuel n) : Step.Pres AhF (Engine.becameNecessaryPropagate env fuel n) := by
  unfold Engine.becameNecessaryPropagate; qpres
ah_leaf PresAh.becameNecessaryPropagate
theorem PresAh.shouldCutoff (env n o v) : Step.Pres AhF (Engine.shouldCutoff env n o v) := by
  unfold Engine.shouldCutoff; qpres
ah_leaf PresAh.shouldCutoff

theorem PresAh.childChanged (env : Env) (fuel p c ci : Nat) (o : Option Val) :
    Step.Pres AhF (Engine.childChanged env fuel p c ci o) := by
  induction fuel generalizing p c ci o with
  | zero => unfold Engine.childChanged; qpres
  | succ fuel ih =>
    unfold Engine.childChanged
    qpres
    all_goals (apply Step.Pres.forIn; intro a b; qpres; all_goals exact ih _ _ _ _)
ah_leaf PresAh.childChanged

theorem PresAh.parentIterCanRecomputeNow (p c : Nat) : Step.Pres AhF (Engine.parentIterCanRecomputeNow p c) := by
  unfold Engine.parentIterCanRecomputeNow; qpres
ah_leaf PresAh.parentIterCanRecomputeNow

theorem PresAh.maybeChangeValueManual (env fuel n o d b) :
    Step.Pres AhF (Engine.maybeChangeValueManual env fuel n o d b) := by
  unfold Engine.maybeChangeValueManual
  qpres
  all_goals (apply Step.Pres.forIn; intro a b; qpres)
ah_leaf PresAh.maybeChangeValueManual

theorem PresAh.maybeChangeValue (env fuel n v) : Step.Pres AhF (Engine.maybeChangeValue env fuel n v) := by
  unfold Engine.maybeChangeValue; qpres
ah_leaf PresAh.maybeChangeValue

theorem PresAh.addNewObservers (env fuel) : Step.Pres AhF (Engine.addNewObservers env fuel) := by
  unfold Engine.addNewObservers
  qpres
  all_goals (apply Step.Pres.forIn; intro a b; qpres)
ah_leaf PresAh.addNewObservers

theorem PresAh.unlinkDisallowedObservers (fuel) : Step.Pres AhF (Engine.unlinkDisallowedObservers fuel) := by
  unfold Engine.unlinkDisallowedObservers
  qpres
  all_goals (apply Step.Pres.forIn; intro a b; qpres)
ah_leaf PresAh.unlinkDisallowedObservers

theorem PresAh.disallowFutureUse (o) : Step.Pres AhF (Engine.disallowFutureUse o) := by
  unfold Engine.disallowFutureUse; qpres
ah_leaf PresAh.disallowFutureUse
theorem PresAh.didSetVarWhileNotStabilising (v) : Step.Pres AhF (Engine.didSetVarWhileNotStabilising v) := by
  unfold Engine.didSetVarWhileNotStabilising; qpres
ah_leaf PresAh.didSetVarWhileNotStabilising
theorem PresAh.writeVar (v f b) : Step.Pres AhF (Engine.writeVar v f b) := by
  unfold Engine.writeVar; qpres
ah_leaf PresAh.writeVar
theorem PresAh.dropVarHandle (v) : Step.Pres AhF (Engine.dropVarHandle v) := by
  unfold Engine.dropVarHandle; qpres
ah_leaf PresAh.dropVarHandle
theorem PresAh.subscribe (o h) : Step.Pres AhF (Engine.subscribe o h) := by
  unfold Engine.subscribe; qpres
ah_leaf PresAh.subscribe
theorem PresAh.unsubscribe (o t w) : Step.Pres AhF (Engine.unsubscribe o t w) := by
  unfold Engine.unsubscribe; qpres
ah_leaf PresAh.unsubscribe
theorem PresAh.resolveOpnd (loc o) : Step.Pres AhF (Engine.resolveOpnd loc o) := by
  unfold Engine.resolveOpnd; qpres
ah_leaf PresAh.resolveOpnd
theorem PresAh.isConstant (n) : Step.Pres AhF (Engine.isConstant n) := by unfold Engine.isConstant; qpres
ah_leaf PresAh.isConstant
/-- the API actions that keep `AhF`: all but node creation (`create`), `addDep`, `stabilise`, `setMaxHeight` -/
def AhAct : Action → Prop
  | .create _ => False
  | .addDep .. => False
  | .stabilise => False
  | .setMaxHeight _ => False
  | _ => True

theorem PresAh.stepAction (env : Env) (a : Action) (tk : Array Nat) (h : AhAct a) :
    Step.Pres AhF (Engine.stepAction env a tk) := by
  unfold Engine.stepAction
  cases a <;> first | exact False.elim h | (dsimp only; qpres; done)

end IncrVerif.Proofs.ExpertH
