import IncrVerif.Proofs.BindH16
/-!
# Binds, part K3: a Boolean checker for `StepL` (the contract of a run of a change detector), and its soundness
-/
namespace IncrVerif.Proofs.BindH
open IncrVerif.Engine IncrVerif.Proofs IncrVerif.Proofs.Step IncrVerif.Proofs.Sched

namespace BK

/-! ## equality of records without `DecidableEq` -/

def bindRecEqB (x y : BindRec) : Bool :=
  decide (x.lhs = y.lhs) && decide (x.body = y.body) && decide (x.lhsChange = y.lhsChange) &&
    decide (x.main = y.main) && decide (x.rhs = y.rhs) && decide (x.allNodesCreatedOnRhs = y.allNodesCreatedOnRhs)

theorem bindRecEqB_sound {x y : BindRec} (h : bindRecEqB x y = true) : x = y := by
  cases x; cases y
  simp only [bindRecEqB, Bool.and_eq_true, decide_eq_true_eq] at h
  obtain ⟨⟨⟨⟨⟨h1, h2⟩, h3⟩, h4⟩, h5⟩, h6⟩ := h
  subst h1 h2 h3 h4 h5 h6
  rfl

def varCellEqB (x y : VarCell) : Bool :=
  decide (x.value = y.value) && decide (x.setAt = y.setAt) && decide (x.pending = y.pending) &&
    decide (x.node = y.node) && decide (x.linked = y.linked) && decide (x.handles = y.handles)

theorem varCellEqB_sound {x y : VarCell} (h : varCellEqB x y = true) : x = y := by
  cases x; cases y
  simp only [varCellEqB, Bool.and_eq_true, decide_eq_true_eq] at h
  obtain ⟨⟨⟨⟨⟨h1, h2⟩, h3⟩, h4⟩, h5⟩, h6⟩ := h
  subst h1 h2 h3 h4 h5 h6
  rfl

/-- entries `i` with `skip i = false` agree -/
def arrEqB {α : Type} (eqb : α → α → Bool) (skip : Nat → Bool) (a b : Array α) : Bool :=
  decide (b.size = a.size) && (List.range a.size).all fun i => skip i ||
    match a[i]?, b[i]? with
    | some x, some y => eqb y x
    | _, _ => false

theorem arrEqB_sound {α : Type} {eqb : α → α → Bool} (heq : ∀ x y, eqb x y = true → x = y) {skip : Nat → Bool}
    {a b : Array α} (h : arrEqB eqb skip a b = true) :
    b.size = a.size ∧ ∀ i, skip i = false → b[i]? = a[i]? := by
  unfold arrEqB at h
  simp only [Bool.and_eq_true, decide_eq_true_eq, List.all_eq_true] at h
  obtain ⟨h1, h2⟩ := h
  refine ⟨h1, ?_⟩
  intro i hs
  by_cases hi : i < a.size
  · have := h2 i (List.mem_range.2 hi)
    simp only [hs, Bool.false_or] at this
    have hi' : i < b.size := by omega
    rw [Array.getElem?_eq_getElem hi, Array.getElem?_eq_getElem hi'] at this
    simp only at this
    rw [Array.getElem?_eq_getElem hi, Array.getElem?_eq_getElem hi', heq _ _ this]
  · rw [Array.getElem?_eq_none (by omega), Array.getElem?_eq_none (by omega)]

/-! ## the pieces -/

def lcFieldsB (n : Nat) (br br' : BindRec) : Bool :=
  decide (br.lhsChange = n) && decide (br'.lhsChange = n) && decide (br'.main = br.main) &&
    decide (br'.lhs = br.lhs) && decide (br'.body = br.body)

def selfChk (n : Nat) (s s' : State) : Bool :=
  decide ((s'.nodeD n).recomputedAt = s.stabNum) && decide ((s'.nodeD n).changedAt = s.stabNum) &&
    decide ((s'.nodeD n).value = some .unit) && (s'.nodeD n).valid &&
    decide ((s'.nodeD n).kind = (s.nodeD n).kind) && decide (s'.children n = s.children n) &&
    decide ((s'.nodeD n).createdIn = (s.nodeD n).createdIn)

def oldChk (n b : Nat) (br : BindRec) (s s' : State) : Bool :=
  allN s fun m => decide (m = n) ||
    ((s.nodeD m).valid && !(s'.nodeD m).valid && decide ((s.nodeD m).createdIn = .bind b)) ||
    (decide ((s'.nodeD m).valid = (s.nodeD m).valid) && decide ((s'.nodeD m).kind = (s.nodeD m).kind) &&
      decide ((s'.nodeD m).createdIn = (s.nodeD m).createdIn) &&
      decide ((s'.nodeD m).value = (s.nodeD m).value) &&
      decide ((s'.nodeD m).recomputedAt = (s.nodeD m).recomputedAt) &&
      decide ((s'.nodeD m).changedAt = (s.nodeD m).changedAt) &&
      (decide (m = br.main) || decide (s'.children m = s.children m)))

def newChk (b : Nat) (s s' : State) : Bool :=
  allN s' fun m => decide (m < s.nodes.size) ||
    (decide ((s'.nodeD m).recomputedAt = -1) && decide ((s'.nodeD m).createdIn = .bind b) &&
      (!(s'.nodeD m).valid || s'.isStale m))

def mainChk (n : Nat) (br : BindRec) (s s' : State) : Bool :=
  decide (br.main < s.nodes.size) && (s.children br.main).contains n &&
    (s'.children br.main).contains n && decide (br.main ≠ n)

def retChk (r : Option Nat) (br : BindRec) (s' : State) : Bool :=
  match r with
  | none => true
  | some p => decide (p = br.main) && !(s'.nodeD p).inRch && s'.isNecessary p &&
      allN s' fun m => !(s'.nodeD m).inRch || decide ((s'.nodeD p).height ≤ (s'.nodeD m).height)

end BK

open BK in
def stepLRB (n b : Nat) (r : Option Nat) (s s' : State) (rk' : Nat → Nat) : Bool :=
  match s.binds[b]?, s'.binds[b]? with
  | some br, some br' =>
    lcFieldsB n br br'
    && arrEqB bindRecEqB (fun b' => decide (b' = b)) s.binds s'.binds
    && decide (s.nodes.size ≤ s'.nodes.size)
    && arrEqB varCellEqB (fun _ => false) s.vars s'.vars
    && decide (s'.stabNum = s.stabNum)
    && bgraphRB s' rk'
    && heapInvB s'
    && stampsB s'
    && qstaleChk s'
    && pendingB s' r
    && selfChk n s s'
    && oldChk n b br s s'
    && newChk b s s'
    && mainChk n br s s'
    && retChk r br s'
  | _, _ => false

open BK in
theorem stepLRB_sound {env : Env} {n b : Nat} {r : Option Nat} {s s' : State} {rk' : Nat → Nat}
    (hpure : ∀ f vals, env.fnEff f vals = []) (h : stepLRB n b r s s' rk' = true) :
    ∃ br br', StepL env n b br br' r s s' := by
  unfold stepLRB at h
  cases hb : s.binds[b]? with
  | none => simp only [hb] at h; cases h
  | some br =>
  cases hb' : s'.binds[b]? with
  | none => simp only [hb, hb'] at h; cases h
  | some br' =>
  simp only [hb, hb', Bool.and_eq_true] at h
  obtain ⟨⟨⟨⟨⟨⟨⟨⟨⟨⟨⟨⟨⟨⟨h1, h2⟩, h3⟩, h4⟩, h5⟩, h6⟩, h7⟩, h8⟩, h9⟩, h10⟩, h11⟩, h12⟩, h13⟩, h14⟩, h15⟩ := h
  refine ⟨br, br', ?_⟩
  refine ⟨hb, hb', ?_, ?_, of_decide_eq_true h3, ?_, of_decide_eq_true h5, bgraphRB_sound hpure h6,
    heapInvB_sound h7, stampsB_sound h8, ?_, ?_, ?_, ?_, ?_, ?_, ?_⟩
  · -- lc
    simp only [lcFieldsB, Bool.and_eq_true, decide_eq_true_eq] at h1
    exact ⟨h1.1.1.1.1, h1.1.1.1.2, h1.1.1.2, h1.1.2, h1.2⟩
  · -- bindsOther
    obtain ⟨hs, he⟩ := arrEqB_sound (fun _ _ => bindRecEqB_sound) h2
    refine ⟨hs, ?_⟩
    intro b' hne
    exact he b' (by simp only [decide_eq_false_iff_not]; exact hne)
  · -- vars
    obtain ⟨_, he⟩ := arrEqB_sound (fun _ _ => varCellEqB_sound) h4
    exact Array.ext_getElem? fun i => he i rfl
  · -- qstale'
    intro m hm
    have := allN_sound h9 m (lt_of_inRch hm)
    simp only [hm, Bool.not_true, Bool.false_or] at this
    exact this
  · -- pending'
    intro m hn hs
    have := allN_sound h10 m (lt_of_nec hn)
    simp only [hn, hs, Bool.and_self, Bool.not_true, Bool.false_or, Bool.or_eq_true, decide_eq_true_eq] at this
    exact this
  · -- self
    simp only [selfChk, Bool.and_eq_true, decide_eq_true_eq] at h11
    exact ⟨h11.1.1.1.1.1.1, h11.1.1.1.1.1.2, h11.1.1.1.1.2, h11.1.1.1.2, h11.1.1.2, h11.1.2, h11.2⟩
  · -- old
    intro m hm hne
    have := allN_sound h12 m hm
    simp only [Bool.or_eq_true, Bool.and_eq_true, decide_eq_true_eq, Bool.not_eq_true'] at this
    rcases this with (h | h) | h
    · exact absurd h hne
    · exact Or.inl ⟨h.1.1, h.1.2, h.2⟩
    · refine Or.inr ⟨h.1.1.1.1.1.1, h.1.1.1.1.1.2, h.1.1.1.1.2, h.1.1.1.2, h.1.1.2, h.1.2, ?_⟩
      intro hmain
      rcases h.2 with h' | h'
      · exact absurd h' hmain
      · exact h'
  · -- new
    intro m hge hlt
    have := allN_sound h13 m hlt
    simp only [Bool.or_eq_true, Bool.and_eq_true, decide_eq_true_eq, Bool.not_eq_true'] at this
    rcases this with h | h
    · omega
    · refine ⟨h.1.1, h.1.2, ?_⟩
      intro hv
      rcases h.2 with h' | h'
      · rw [hv] at h'; cases h'
      · exact h'
  · -- main
    simp only [mainChk, Bool.and_eq_true, decide_eq_true_eq, List.contains_iff_mem] at h14
    exact ⟨h14.1.1.1, h14.1.1.2, h14.1.2, h14.2⟩
  · -- ret
    intro p hr
    subst hr
    simp only [retChk, Bool.and_eq_true, decide_eq_true_eq, Bool.not_eq_true'] at h15
    refine ⟨h15.1.1.1, h15.1.1.2, h15.1.2, ?_⟩
    intro m hm
    have := allN_sound h15.2 m (lt_of_inRch hm)
    simp only [hm, Bool.not_true, Bool.false_or, decide_eq_true_eq] at this
    exact this

end IncrVerif.Proofs.BindH
