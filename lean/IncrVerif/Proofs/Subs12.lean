import IncrVerif.Proofs.Subs3
/-!
# Subscriptions, part 9: the actions `subscribe`, `unsubscribe`, `stateUnsub` keep the invariant
-/
namespace IncrVerif.Proofs.SubsH
open IncrVerif.Engine IncrVerif.Driver IncrVerif.Proofs IncrVerif.Proofs.Step IncrVerif.Proofs.Sched
open IncrVerif.Proofs.Quiet

/-- what the three subscription actions keep: nothing is logged, the round number, every stored value, and
of every observer record its node, state and number of handles; only handler lists (and `nextToken`,
handler counts, the queue `handleAfterStab`) change -/
structure SFrame (s s' : State) : Prop where
  log : s'.log = s.log
  stabNum : s'.stabNum = s.stabNum
  value : ∀ m, (s'.nodeD m).value = (s.nodeD m).value
  nodeObs : ∀ m, (s'.nodeD m).observers = (s.nodeD m).observers
  vars : s'.vars = s.vars
  obsSize : s'.observers.size = s.observers.size
  obsSame : ∀ (o : Nat) (ob : ObsRec), s.observers[o]? = some ob →
    ∃ ob', s'.observers[o]? = some ob' ∧ ob'.node = ob.node ∧ ob'.state = ob.state ∧ ob'.clones = ob.clones
  nextToken : s.nextToken ≤ s'.nextToken

theorem SFrame.refl (s : State) : SFrame s s :=
  ⟨rfl, rfl, fun _ => rfl, fun _ => rfl, rfl, rfl, fun _ ob h => ⟨ob, h, rfl, rfl, rfl⟩, Nat.le_refl _⟩

/-- a record of the new state is an old record with another handler list -/
theorem P9.rec_inv {s s' : State} (hobs : s'.observers.size = s.observers.size)
    (hrec : ∀ (o : Nat) (ob : ObsRec), s.observers[o]? = some ob →
      ∃ hs, s'.observers[o]? = some { ob with handlers := hs })
    {o : Nat} {ob' : ObsRec} (h : s'.observers[o]? = some ob') :
    ∃ ob hs, s.observers[o]? = some ob ∧ ob' = { ob with handlers := hs } := by
  have hlt : o < s.observers.size := by
    rw [← hobs]
    rcases Nat.lt_or_ge o s'.observers.size with hlt | hge
    · exact hlt
    · rw [Array.getElem?_eq_none hge] at h; cases h
  have hs : s.observers[o]? = some s.observers[o] := Array.getElem?_eq_getElem hlt
  obtain ⟨hs', h'⟩ := hrec o _ hs
  rw [h] at h'; cases h'
  exact ⟨_, hs', hs, rfl⟩

/-- `QInv` does not read handler lists, handler counts, queue flags, `handleAfterStab`, `nextToken` -/
theorem QInv.of_handlers {env : Env} {s s' : State} (Q : QInv env s)
    (hsz : s'.nodes.size = s.nodes.size)
    (hnode : ∀ m, ∃ (k : Int) (b : Bool),
      s'.nodeD m = { s.nodeD m with numOnUpdateHandlers := k, inHandleAfterStab := b })
    (hobs : s'.observers.size = s.observers.size)
    (hrec : ∀ (o : Nat) (ob : ObsRec), s.observers[o]? = some ob →
      ∃ hs, s'.observers[o]? = some { ob with handlers := hs })
    (h1 : s'.vars = s.vars) (h2 : s'.rch = s.rch) (h3 : s'.stabNum = s.stabNum) (h4 : s'.status = s.status)
    (h5 : s'.alive = s.alive) (h6 : s'.setDuringStab = s.setDuringStab) (h7 : s'.deadVars = s.deadVars)
    (h8 : s'.propagateInvalidity = s.propagateInvalidity) (h9 : s'.top = s.top)
    (h10 : s'.panicCountdown = s.panicCountdown) (h11 : s'.currentScope = s.currentScope)
    (h12 : s'.newObservers = s.newObservers) (h13 : s'.disallowedObservers = s.disallowedObservers) :
    QInv env s' := by
  have G : ∀ m, NodeG (s.nodeD m) (s'.nodeD m) := by
    intro m
    obtain ⟨k, b, e⟩ := hnode m
    rw [e]; exact ⟨rfl, rfl, rfl, rfl, rfl, rfl, rfl, rfl, rfl, rfl, rfl⟩
  have hval : ∀ m, (s'.nodeD m).value = (s.nodeD m).value := by
    intro m
    obtain ⟨k, b, e⟩ := hnode m
    rw [e]
  have S : SameG s s' := ⟨h10, h11, hsz, h2, h1, G⟩
  refine
    { struct := GInv.congr Q.struct S
      vars := ⟨fun n c hn hk => ?_, fun c vc h => ?_⟩
      obs := ⟨?_, ?_, ?_, ?_, ?_, ?_, ?_⟩
      now := by rw [h3]; exact Q.now
      stamps := fun m => by rw [(G m).recomputedAt, (G m).changedAt, h3]; exact Q.stamps m
      varStamp := fun c vc h => by rw [h1] at h; rw [h3]; exact Q.varStamp c vc h
      cons := fun m hm hs => ?_
      status := by rw [h4]; exact Q.status
      alive := by rw [h5]; exact Q.alive
      setDuringStab := by rw [h6]; exact Q.setDuringStab
      deadVars := by rw [h7]; exact Q.deadVars
      pinv := by rw [h8]; exact Q.pinv
      top := fun k n h => by rw [h9] at h; rw [hsz]; exact Q.top k n h }
  · rw [hsz] at hn; rw [(G n).kind] at hk; rw [h1]; exact Q.vars.node n c hn hk
  · rw [h1] at h; rw [hsz, (G _).kind]; exact Q.vars.cell c vc h
  · intro o ob' h
    obtain ⟨ob, hs, hob, e⟩ := P9.rec_inv hobs hrec h
    rw [hsz, e]; exact Q.obs.inRange o ob hob
  · intro n o
    rw [(G n).observers, Q.obs.mem]
    constructor
    · rintro ⟨ob, hob, hn, hst⟩
      obtain ⟨hs, h'⟩ := hrec o ob hob
      exact ⟨_, h', hn, hst⟩
    · rintro ⟨ob', h, hn, hst⟩
      obtain ⟨ob, hs, hob, e⟩ := P9.rec_inv hobs hrec h
      rw [e] at hn hst
      exact ⟨ob, hob, hn, hst⟩
  · intro o ob' h hc
    obtain ⟨ob, hs, hob, e⟩ := P9.rec_inv hobs hrec h
    rw [e] at hc
    rw [h12]; exact Q.obs.created o ob hob hc
  · intro o hm
    rw [h12] at hm
    obtain ⟨ob, hob⟩ := Q.obs.newIn o hm
    obtain ⟨hs, h'⟩ := hrec o ob hob
    exact ⟨_, h'⟩
  · intro o ob' h
    obtain ⟨ob, hs, hob, e⟩ := P9.rec_inv hobs hrec h
    rw [h13, e]; exact Q.obs.dis o ob hob
  · intro o hm
    rw [h13] at hm
    obtain ⟨ob, hob⟩ := Q.obs.disIn o hm
    obtain ⟨hs, h'⟩ := hrec o ob hob
    exact ⟨_, h'⟩
  · rw [h13]; exact Q.obs.disNodup
  · rw [hsz] at hm
    rw [S.staleOf] at hs
    obtain ⟨v, hT, hv⟩ := Q.cons m hm hs
    refine ⟨v, Target.congr (G m).kind h1 (fun c _ => hval c) hT, ?_⟩
    rw [hval]; exact hv

/-! ## the frame of the elementary steps -/

/-- everything but handler lists, handler counts, queue flags, `handleAfterStab`, `nextToken` is kept -/
structure P9.HF (s s' : State) : Prop where
  size : s'.nodes.size = s.nodes.size
  node : ∀ m, ∃ (k : Int) (b : Bool),
    s'.nodeD m = { s.nodeD m with numOnUpdateHandlers := k, inHandleAfterStab := b }
  obsSize : s'.observers.size = s.observers.size
  recs : ∀ (o : Nat) (ob : ObsRec), s.observers[o]? = some ob →
    ∃ hs, s'.observers[o]? = some { ob with handlers := hs }
  vars : s'.vars = s.vars
  rch : s'.rch = s.rch
  stabNum : s'.stabNum = s.stabNum
  status : s'.status = s.status
  alive : s'.alive = s.alive
  setDuringStab : s'.setDuringStab = s.setDuringStab
  deadVars : s'.deadVars = s.deadVars
  pinv : s'.propagateInvalidity = s.propagateInvalidity
  top : s'.top = s.top
  pc : s'.panicCountdown = s.panicCountdown
  scope : s'.currentScope = s.currentScope
  newObs : s'.newObservers = s.newObservers
  disObs : s'.disallowedObservers = s.disallowedObservers
  log : s'.log = s.log
  nextToken : s.nextToken ≤ s'.nextToken

theorem P9.HF.refl (s : State) : P9.HF s s :=
  ⟨rfl, fun _ => ⟨_, _, rfl⟩, rfl, fun _ ob h => ⟨ob.handlers, h⟩, rfl, rfl, rfl, rfl, rfl, rfl, rfl, rfl, rfl,
    rfl, rfl, rfl, rfl, rfl, Nat.le_refl _⟩

theorem P9.HF.trans {a b c : State} (h1 : P9.HF a b) (h2 : P9.HF b c) : P9.HF a c := by
  refine ⟨h2.size.trans h1.size, fun m => ?_, h2.obsSize.trans h1.obsSize, fun o ob h => ?_,
    h2.vars.trans h1.vars, h2.rch.trans h1.rch, h2.stabNum.trans h1.stabNum, h2.status.trans h1.status,
    h2.alive.trans h1.alive, h2.setDuringStab.trans h1.setDuringStab, h2.deadVars.trans h1.deadVars,
    h2.pinv.trans h1.pinv, h2.top.trans h1.top, h2.pc.trans h1.pc, h2.scope.trans h1.scope,
    h2.newObs.trans h1.newObs, h2.disObs.trans h1.disObs, h2.log.trans h1.log,
    Nat.le_trans h1.nextToken h2.nextToken⟩
  · obtain ⟨k, b', e⟩ := h1.node m
    obtain ⟨k', b'', e'⟩ := h2.node m
    exact ⟨k', b'', by rw [e', e]⟩
  · obtain ⟨hs, e⟩ := h1.recs o ob h
    obtain ⟨hs', e'⟩ := h2.recs o _ e
    exact ⟨hs', e'⟩

theorem P9.HF.qinv {env : Env} {s s' : State} (F : P9.HF s s') (Q : QInv env s) : QInv env s' :=
  Q.of_handlers F.size F.node F.obsSize F.recs F.vars F.rch F.stabNum F.status F.alive F.setDuringStab
    F.deadVars F.pinv F.top F.pc F.scope F.newObs F.disObs

theorem P9.HF.sframe {s s' : State} (F : P9.HF s s') : SFrame s s' := by
  refine ⟨F.log, F.stabNum, fun m => ?_, fun m => ?_, F.vars, F.obsSize, fun o ob h => ?_, F.nextToken⟩
  · obtain ⟨k, b, e⟩ := F.node m; rw [e]
  · obtain ⟨k, b, e⟩ := F.node m; rw [e]
  · obtain ⟨hs, e⟩ := F.recs o ob h
    exact ⟨_, e, rfl, rfl, rfl⟩


theorem P9.HF.of_nextToken (s : State) (k : Nat) : P9.HF s { s with nextToken := s.nextToken + k } :=
  ⟨rfl, fun _ => ⟨_, _, rfl⟩, rfl, fun _ ob h => ⟨ob.handlers, h⟩, rfl, rfl, rfl, rfl, rfl, rfl, rfl, rfl, rfl,
    rfl, rfl, rfl, rfl, rfl, Nat.le_add_right _ _⟩

theorem P9.HF.of_modObs (s : State) (o : Nat) (g : ObsRec → List HandlerRec) :
    P9.HF s { s with observers := s.observers.modify o fun x => { x with handlers := g x } } := by
  refine ⟨rfl, fun _ => ⟨_, _, rfl⟩, by simp, fun o' ob h => ?_, rfl, rfl, rfl, rfl, rfl, rfl, rfl, rfl, rfl,
    rfl, rfl, rfl, rfl, rfl, Nat.le_refl _⟩
  show ∃ hs, (s.observers.modify o fun x => { x with handlers := g x })[o']? = _
  rw [Array.getElem?_modify, h]
  split
  · exact ⟨g ob, rfl⟩
  · exact ⟨ob.handlers, rfl⟩

theorem P9.HF.of_modNode (s : State) (n : Nat) (k : Node → Int) :
    P9.HF s { s with nodes := s.nodes.modify n fun x => { x with numOnUpdateHandlers := k x } } := by
  refine ⟨by simp, fun m => ?_, rfl, fun _ ob h => ⟨ob.handlers, h⟩, rfl, rfl, rfl, rfl, rfl, rfl, rfl, rfl, rfl,
    rfl, rfl, rfl, rfl, rfl, Nat.le_refl _⟩
  rw [nodeD_modify]
  split
  · exact ⟨_, _, rfl⟩
  · exact ⟨_, _, rfl⟩

theorem P9.HF.of_hasMarked (s : State) (n : Nat) : P9.HF s (Sched.hasMarked n s) := by
  refine ⟨by simp [Sched.hasMarked], fun m => ?_, rfl, fun _ ob h => ⟨ob.handlers, h⟩, rfl, rfl, rfl, rfl, rfl,
    rfl, rfl, rfl, rfl, rfl, rfl, rfl, rfl, rfl, Nat.le_refl _⟩
  have : (Sched.hasMarked n s).nodeD m =
      ({ s with nodes := s.nodes.modify n fun x => { x with inHandleAfterStab := true } } : State).nodeD m := rfl
  rw [this, nodeD_modify]
  split
  · exact ⟨_, _, rfl⟩
  · exact ⟨_, _, rfl⟩

/-! ## two facts about lists -/

theorem P9.sum_map_change (f g : Nat → Int) (o : Nat) (h : ∀ x, x ≠ o → g x = f x) :
    ∀ (l : List Nat), l.Nodup → (l.map g).sum = (l.map f).sum + (if o ∈ l then g o - f o else 0)
  | [], _ => by simp
  | a :: l, hnd => by
    obtain ⟨ha, hl⟩ := List.nodup_cons.1 hnd
    have ih := P9.sum_map_change f g o h l hl
    simp only [List.map_cons, List.sum_cons, ih, List.mem_cons]
    by_cases e : a = o
    · subst e
      simp only [ha, or_false, if_true, if_false]
      omega
    · rw [h a e]
      have : (o = a ∨ o ∈ l) ↔ o ∈ l := ⟨fun h => h.elim (fun e' => absurd e'.symm e) id, Or.inr⟩
      simp only [this]
      omega

theorem P9.filter_token_length (t : Nat) :
    ∀ (l : List HandlerRec), (l.map (·.token)).Nodup →
      ((l.filter (·.token != t)).length : Int) = (l.length : Int) - (if l.any (·.token == t) = true then 1 else 0)
  | [], _ => by simp
  | a :: l, hnd => by
    rw [List.map_cons] at hnd
    obtain ⟨ha, hl⟩ := List.nodup_cons.1 hnd
    have ih := P9.filter_token_length t l hl
    by_cases e : a.token = t
    · have hany : l.any (·.token == t) = false := by
        rw [List.any_eq_false]
        intro x hx hxt
        have : x.token = t := by simpa using hxt
        exact ha (List.mem_map.2 ⟨x, hx, by rw [this, e]⟩)
      rw [hany] at ih
      simp only [List.filter_cons, List.any_cons, e, bne_self_eq_false, beq_self_eq_true, Bool.true_or,
        if_true, List.length_cons, Bool.false_eq_true, if_false] at ih ⊢
      omega
    · have h1 : (a.token != t) = true := by simpa using e
      have h2 : (a.token == t) = false := by simpa using e
      simp only [List.filter_cons, List.any_cons, h1, h2, if_true, Bool.false_or, List.length_cons]
      omega


/-! ## `HInv` after the handler list of one (created or in use) observer was changed -/

theorem P9.hinv_upd {s s' : State} {o : Nat} {ob : ObsRec} {g : List HandlerRec → List HandlerRec}
    (H : HInv s) (O : ObsOK s) (hob : s.observers[o]? = some ob)
    (hst : ob.state = .created ∨ ob.state = .inUse)
    (hobs : s'.observers = s.observers.modify o fun x => { x with handlers := g x.handlers })
    (hstab : s'.stabNum = s.stabNum)
    (hno : ∀ m, (s'.nodeD m).observers = (s.nodeD m).observers)
    (hnum : ∀ m, (s'.nodeD m).numOnUpdateHandlers = (s.nodeD m).numOnUpdateHandlers +
      if m = ob.node ∧ ob.state = .inUse then ((g ob.handlers).length : Int) - (ob.handlers.length : Int) else 0)
    (tok : Life.TokWF s') (hnd : ((g ob.handlers).map (·.token)).Nodup)
    (has : HasOK s') (hmono : ∀ m, m ∈ s.handleAfterStab → m ∈ s'.handleAfterStab)
    (hnew : ∀ h, h ∈ g ob.handlers → h ∈ ob.handlers ∨
      (h.createdAt ≤ s.stabNum ∧ PrevOK h.prev ∧ ob.node ∈ s'.handleAfterStab)) : HInv s' := by
  have hget : ∀ o', s'.observers[o']? =
      if o = o' then some { ob with handlers := g ob.handlers } else s.observers[o']? := by
    intro o'
    rw [hobs, Array.getElem?_modify]
    split
    · rename_i e; rw [← e, hob]; rfl
    · rfl
  have hOf' : ∀ o', o' ≠ o → hOf s' o' = hOf s o' := by
    intro o' ne
    have : ¬ o = o' := fun e => ne e.symm
    simp only [hOf, hget, if_neg this]
  have hOfo : hOf s' o = g ob.handlers := by simp only [hOf, hget, if_true]
  have hOfs : hOf s o = ob.handlers := hOf_of_some hob
  have hmem : ∀ n, o ∈ (s.nodeD n).observers ↔ (n = ob.node ∧ ob.state = .inUse) := by
    intro n
    rw [O.mem]
    constructor
    · rintro ⟨ob', h', hn, hs⟩
      rw [hob] at h'; cases h'
      rcases hs with hs | hs
      · exact ⟨hn.symm, hs⟩
      · rcases hst with h | h <;> rw [h] at hs <;> cases hs
    · rintro ⟨hn, hs⟩
      exact ⟨ob, hob, hn.symm, Or.inl hs⟩
  refine ⟨fun n => ?_, fun n => by rw [hno]; exact H.obsNodup n, tok, fun o' ob' h' => ?_, has,
    fun o' ob' h h' hh => ?_, fun o' ob' h h' hh => ?_, fun o' ob' h h' hs hh hp => ?_⟩
  · rw [hnum, H.count n]
    unfold numOf
    rw [hno, P9.sum_map_change (fun o' => ((hOf s o').length : Int)) (fun o' => ((hOf s' o').length : Int)) o
      (fun x hx => by rw [hOf' x hx]) _ (H.obsNodup n), hOfo, hOfs]
    by_cases c : n = ob.node ∧ ob.state = .inUse
    · rw [if_pos c, if_pos ((hmem n).2 c)]
    · rw [if_neg c, if_neg (fun hm => c ((hmem n).1 hm))]
  · rw [hget] at h'
    split at h'
    · cases h'; exact hnd
    · exact H.tokNodup o' ob' h'
  · rw [hget] at h'; rw [hstab]
    split at h'
    · cases h'
      rcases hnew h hh with hm | ⟨hc, -, -⟩
      · exact H.createdAt o ob h hob hm
      · exact hc
    · exact H.createdAt o' ob' h h' hh
  · rw [hget] at h'
    split at h'
    · cases h'
      rcases hnew h hh with hm | ⟨-, hc, -⟩
      · exact H.prev o ob h hob hm
      · exact hc
    · exact H.prev o' ob' h h' hh
  · rw [hget] at h'
    split at h'
    · cases h'
      rcases hnew h hh with hm | ⟨-, -, hc⟩
      · exact hmono _ (H.pending o ob h hob hst hm hp)
      · exact hc
    · exact hmono _ (H.pending o' ob' h h' hs hh hp)


/-! ## `handleAfterStabilisation` -/

theorem P9.has_step {n : Nat} {s s' : State} {u : Unit}
    (h : (handleAfterStabilisation n).run.run s = (.ok u, s')) (K : HasOK s) :
    P9.HF s s' ∧ s'.observers = s.observers ∧ s'.nextToken = s.nextToken ∧
    (∀ m, (s'.nodeD m).observers = (s.nodeD m).observers) ∧
    (∀ m, (s'.nodeD m).numOnUpdateHandlers = (s.nodeD m).numOnUpdateHandlers) ∧
    HasOK s' ∧ n ∈ s'.handleAfterStab ∧ (∀ m, m ∈ s.handleAfterStab → m ∈ s'.handleAfterStab) := by
  unfold handleAfterStabilisation at h
  obtain ⟨nd, hnd, h⟩ := bind_getNode_inv h
  have hlt : n < s.nodes.size := by
    rcases Nat.lt_or_ge n s.nodes.size with hlt | hge
    · exact hlt
    · rw [Array.getElem?_eq_none hge] at hnd; cases hnd
  have hD : s.nodeD n = nd := by simp [State.nodeD, hnd]
  split at h
  · rename_i hf
    obtain ⟨s1, e1, h⟩ := bind_modNode_inv h
    rw [run_modify] at h
    have e : s' = Sched.hasMarked n s := by cases h; rw [e1]; rfl
    have hf' : (s.nodeD n).inHandleAfterStab = false := by rw [hD]; simpa using hf
    have hN : ∀ m, (Sched.hasMarked n s).nodeD m =
        if n = m ∧ m < s.nodes.size then { s.nodeD m with inHandleAfterStab := true } else s.nodeD m := by
      intro m
      exact nodeD_modify s n m _
    rw [e]
    refine ⟨P9.HF.of_hasMarked s n, rfl, rfl, fun m => ?_, fun m => ?_, ⟨?_, fun m => ?_⟩, ?_, fun m hm => ?_⟩
    · rw [hN]; split <;> rfl
    · rw [hN]; split <;> rfl
    · show (s.handleAfterStab ++ [n]).Nodup
      rw [List.nodup_append]
      refine ⟨K.nodup, List.nodup_cons.2 ⟨List.not_mem_nil, List.nodup_nil⟩, ?_⟩
      intro a ha b hb
      rw [List.mem_singleton] at hb
      rw [hb]; intro eab; rw [eab] at ha
      have := (K.flag n).1 ha
      rw [hf'] at this; cases this
    · show m ∈ s.handleAfterStab ++ [n] ↔ _
      rw [hN, List.mem_append, List.mem_singleton, K.flag m]
      by_cases c : n = m
      · subst c
        rw [if_pos ⟨rfl, hlt⟩]
        exact ⟨fun _ => rfl, fun _ => Or.inr rfl⟩
      · rw [if_neg (fun h => c h.1)]
        exact ⟨fun h => h.elim id (fun e' => absurd e'.symm c), Or.inl⟩
    · show n ∈ s.handleAfterStab ++ [n]
      simp
    · show m ∈ s.handleAfterStab ++ [n]
      exact List.mem_append_left _ hm
  · rename_i hf
    obtain ⟨-, e⟩ := pure_ok_inv h
    have hf' : (s.nodeD n).inHandleAfterStab = true := by rw [hD]; simpa using hf
    rw [e]
    exact ⟨P9.HF.refl s, rfl, rfl, fun _ => rfl, fun _ => rfl, K, (K.flag n).2 hf', fun _ h => h⟩


/-! ## `subscribe` -/

theorem P9.subscribe_fin {env : Env} {s s3 s' : State} {o hid : Nat} {ob : ObsRec} {u : Unit}
    (U : UInv env s) (hob : s.observers[o]? = some ob) (hst : ob.state = .created ∨ ob.state = .inUse)
    (F3 : P9.HF s s3)
    (hobs3 : s3.observers = s.observers.modify o fun x =>
      { x with handlers := x.handlers ++ [{ token := s.nextToken, hid := hid, createdAt := s.stabNum }] })
    (hnt3 : s3.nextToken = s.nextToken + 1)
    (hno3 : ∀ m, (s3.nodeD m).observers = (s.nodeD m).observers)
    (hnum3 : ∀ m, (s3.nodeD m).numOnUpdateHandlers = (s.nodeD m).numOnUpdateHandlers +
      if m = ob.node ∧ ob.state = .inUse then 1 else 0)
    (hhas3 : s3.handleAfterStab = s.handleAfterStab)
    (hfl3 : ∀ m, (s3.nodeD m).inHandleAfterStab = (s.nodeD m).inHandleAfterStab)
    (tok' : Life.TokWF s')
    (h : (handleAfterStabilisation ob.node).run.run s3 = (.ok u, s')) :
    UInv env s' ∧ P9.HF s s' ∧ s'.nextToken = s.nextToken + 1 ∧
      s'.observers = s.observers.modify o fun x =>
        { x with handlers := x.handlers ++ [{ token := s.nextToken, hid := hid, createdAt := s.stabNum }] } := by
  have H := U.hinv
  have K3 : HasOK s3 :=
    ⟨by rw [hhas3]; exact H.has.nodup, fun n => by rw [hhas3, hfl3]; exact H.has.flag n⟩
  obtain ⟨F, e1, e2, e3, e4, K', hq, hmono⟩ := P9.has_step h K3
  have F' := F3.trans F
  refine ⟨⟨F'.qinv U.core, ?_⟩, F', e2.trans hnt3, e1.trans hobs3⟩
  refine P9.hinv_upd (g := fun l => l ++ [{ token := s.nextToken, hid := hid, createdAt := s.stabNum }])
    H U.core.obs hob hst (e1.trans hobs3) F'.stabNum (fun m => (e3 m).trans (hno3 m)) (fun m => ?_) tok' ?_ K'
    (fun m hm => hmono m (by rw [hhas3]; exact hm)) (fun x hx => ?_)
  · rw [e4, hnum3]
    simp only [List.length_append, List.length_cons, List.length_nil]
    split <;> omega
  · simp only [List.map_append, List.map_cons, List.map_nil]
    rw [List.nodup_append]
    refine ⟨H.tokNodup o ob hob, List.nodup_cons.2 ⟨List.not_mem_nil, List.nodup_nil⟩, ?_⟩
    intro a ha b hb
    rw [List.mem_singleton] at hb
    rw [hb]; intro eab; rw [eab] at ha
    exact Nat.lt_irrefl _ (H.tok.fresh o ob hob _ ha)
  · rcases List.mem_append.1 hx with hx | hx
    · exact Or.inl hx
    · rw [List.mem_singleton] at hx
      rw [hx]
      exact Or.inr ⟨Int.le_refl _, trivial, hq⟩

theorem P9.subscribe_ok {env : Env} {s s' : State} {o hid : Nat} {a : Except ObsError Nat}
    (U : UInv env s) (h : (subscribe o hid).run.run s = (.ok a, s')) :
    UInv env s' ∧ P9.HF s s' ∧
    ((s' = s ∧ (∃ e, a = .error e) ∧
        ∃ ob, s.observers[o]? = some ob ∧ (ob.state = .disallowed ∨ ob.state = .unlinked)) ∨
     ((∃ t, a = .ok t) ∧ s'.nextToken = s.nextToken + 1 ∧
       ∃ ob, s.observers[o]? = some ob ∧ (ob.state = .created ∨ ob.state = .inUse) ∧
         s'.observers = s.observers.modify o fun x =>
           { x with handlers := x.handlers ++ [{ token := s.nextToken, hid := hid, createdAt := s.stabNum }] })) := by
  have tok' : Life.TokWF s' := (Life.PresT.subscribe o hid).h s _ s' h U.hinv.tok
  unfold subscribe at h
  rw [run_bind_get] at h
  rw [if_neg (by rw [U.core.alive]; decide)] at h
  obtain ⟨ob, hob, h⟩ := bind_getObs_inv h
  cases hst : ob.state with
  | disallowed =>
    rw [hst] at h
    obtain ⟨ea, e⟩ := pure_ok_inv h
    rw [e]
    exact ⟨U, P9.HF.refl s, Or.inl ⟨rfl, ⟨_, ea⟩, ob, hob, Or.inl hst⟩⟩
  | unlinked =>
    rw [hst] at h
    obtain ⟨ea, e⟩ := pure_ok_inv h
    rw [e]
    exact ⟨U, P9.HF.refl s, Or.inl ⟨rfl, ⟨_, ea⟩, ob, hob, Or.inr hst⟩⟩
  | created =>
    rw [hst] at h
    dsimp only at h
    obtain ⟨s1, e1, h⟩ := bind_modify_inv h
    obtain ⟨s2, e2, h⟩ := bind_modObs_inv h
    rw [if_neg (by decide)] at h
    obtain ⟨u, s4, h4, h⟩ := bind_ok_inv h
    obtain ⟨ea, e⟩ := pure_ok_inv h
    subst e
    have F3 : P9.HF s s2 := by
      rw [e2, e1]
      exact (P9.HF.of_nextToken s 1).trans (P9.HF.of_modObs _ o _)
    have hD : ∀ m, s2.nodeD m = s.nodeD m := fun m => by rw [e2, e1]; rfl
    obtain ⟨U', F', hn, ho⟩ := P9.subscribe_fin (hid := hid) U hob (Or.inl hst) F3 (by rw [e2, e1])
      (by rw [e2, e1]) (fun m => by rw [hD]) (fun m => by rw [hD, hst]; simp) (by rw [e2, e1])
      (fun m => by rw [hD]) tok' h4
    exact ⟨U', F', Or.inr ⟨⟨_, ea⟩, hn, ob, hob, Or.inl hst, ho⟩⟩
  | inUse =>
    rw [hst] at h
    dsimp only at h
    obtain ⟨s1, e1, h⟩ := bind_modify_inv h
    obtain ⟨s2, e2, h⟩ := bind_modObs_inv h
    rw [if_pos (by decide)] at h
    obtain ⟨s3, e3, h⟩ := bind_modNode_inv h
    obtain ⟨u, s4, h4, h⟩ := bind_ok_inv h
    obtain ⟨ea, e⟩ := pure_ok_inv h
    subst e
    have F3 : P9.HF s s3 := by
      rw [e3, e2, e1]
      exact ((P9.HF.of_nextToken s 1).trans (P9.HF.of_modObs _ o _)).trans (P9.HF.of_modNode _ _ _)
    have hD : ∀ m, s3.nodeD m = if ob.node = m ∧ m < s.nodes.size then
        { s.nodeD m with numOnUpdateHandlers := (s.nodeD m).numOnUpdateHandlers + 1 } else s.nodeD m := by
      intro m; rw [e3, e2, e1]; exact nodeD_modify _ _ _ _
    have hlt : ob.node < s.nodes.size := U.core.obs.inRange o ob hob
    have hnum : ∀ m, (s3.nodeD m).numOnUpdateHandlers = (s.nodeD m).numOnUpdateHandlers +
        if m = ob.node ∧ ob.state = .inUse then 1 else 0 := by
      intro m
      rw [hD]
      by_cases c : ob.node = m
      · subst c
        rw [if_pos ⟨rfl, hlt⟩, if_pos ⟨rfl, hst⟩]
      · rw [if_neg (fun h => c h.1), if_neg (fun h => c h.1.symm)]; simp
    obtain ⟨U', F', hn, ho⟩ := P9.subscribe_fin (hid := hid) U hob (Or.inr hst) F3 (by rw [e3, e2, e1])
      (by rw [e3, e2, e1]) (fun m => by rw [hD]; split <;> rfl) hnum (by rw [e3, e2, e1])
      (fun m => by rw [hD]; split <;> rfl) tok' h4
    exact ⟨U', F', Or.inr ⟨⟨_, ea⟩, hn, ob, hob, Or.inr hst, ho⟩⟩

/-- **`subscribe`.**  Either the observer is disallowed/unlinked (error, nothing changes) or a handler record
with the fresh token `s.nextToken`, `prev = neverBeenUpdated`, `createdAt = s.stabNum` is appended to the
handler list of `o`, and the token table is extended by `o`. -/
theorem step_subscribe {env : Env} {s s' : State} {o hid : Nat} {tokens : Array Nat} {r : String × Array Nat}
    (U : UInv env s) (h : (stepAction env (.subscribe o hid) tokens).run.run s = (.ok r, s')) :
    UInv env s' ∧ SFrame s s' ∧
    ((s' = s ∧ r.2 = tokens ∧ ∃ ob, s.observers[o]? = some ob ∧ (ob.state = .disallowed ∨ ob.state = .unlinked)) ∨
     (r.2 = tokens.push o ∧ s'.nextToken = s.nextToken + 1 ∧
       ∃ ob, s.observers[o]? = some ob ∧ (ob.state = .created ∨ ob.state = .inUse) ∧
         s'.observers = s.observers.modify o fun x =>
           { x with handlers := x.handlers ++ [{ token := s.nextToken, hid := hid, createdAt := s.stabNum }] })) := by
  simp only [stepAction] at h
  obtain ⟨a, s1, h1, h⟩ := bind_ok_inv h
  obtain ⟨U', F, hc⟩ := P9.subscribe_ok U h1
  rcases hc with ⟨e1, ⟨e, ea⟩, hx⟩ | ⟨⟨t, ea⟩, hn, hx⟩
  · rw [ea] at h
    obtain ⟨er, e⟩ := pure_ok_inv h
    subst e
    exact ⟨U', F.sframe, Or.inl ⟨e1, by rw [er], hx⟩⟩
  · rw [ea] at h
    obtain ⟨er, e⟩ := pure_ok_inv h
    subst e
    exact ⟨U', F.sframe, Or.inr ⟨by rw [er], hn, hx⟩⟩

/-! ## `unsubscribe` -/

theorem P9.unsubscribe_fin {env : Env} {s s' : State} {o t : Nat} {ob : ObsRec}
    (U : UInv env s) (hob : s.observers[o]? = some ob) (hst : ob.state = .created ∨ ob.state = .inUse)
    (F : P9.HF s s')
    (hobs : s'.observers = s.observers.modify o fun x =>
      { x with handlers := x.handlers.filter (·.token != t) })
    (hno : ∀ m, (s'.nodeD m).observers = (s.nodeD m).observers)
    (hnum : ∀ m, (s'.nodeD m).numOnUpdateHandlers = (s.nodeD m).numOnUpdateHandlers -
      if m = ob.node ∧ ob.state = .inUse ∧ ob.handlers.any (·.token == t) = true then 1 else 0)
    (hhas : s'.handleAfterStab = s.handleAfterStab)
    (hfl : ∀ m, (s'.nodeD m).inHandleAfterStab = (s.nodeD m).inHandleAfterStab)
    (tok' : Life.TokWF s') : UInv env s' := by
  have H := U.hinv
  have K' : HasOK s' :=
    ⟨by rw [hhas]; exact H.has.nodup, fun n => by rw [hhas, hfl]; exact H.has.flag n⟩
  refine ⟨F.qinv U.core, ?_⟩
  refine P9.hinv_upd (g := fun l => l.filter (·.token != t))
    H U.core.obs hob hst hobs F.stabNum hno (fun m => ?_) tok' ?_ K'
    (fun m hm => by rw [hhas]; exact hm) (fun x hx => Or.inl (List.mem_filter.1 hx).1)
  · rw [hnum, P9.filter_token_length t ob.handlers (H.tokNodup o ob hob)]
    by_cases c1 : m = ob.node ∧ ob.state = .inUse
    · rw [if_pos c1]
      by_cases c2 : ob.handlers.any (·.token == t) = true
      · rw [if_pos ⟨c1.1, c1.2, c2⟩, if_pos c2]; omega
      · rw [if_neg (fun h => c2 h.2.2), if_neg c2]; omega
    · rw [if_neg c1, if_neg (fun h => c1 ⟨h.1, h.2.1⟩)]; omega
  · exact ((List.filter_sublist (l := ob.handlers)).map _).nodup (H.tokNodup o ob hob)

theorem P9.unsubscribe_ok {env : Env} {s s' : State} {o t owner : Nat} {a : Except ObsError Unit}
    (U : UInv env s) (h : (unsubscribe o t owner).run.run s = (.ok a, s')) :
    UInv env s' ∧ P9.HF s s' ∧ s'.nextToken = s.nextToken ∧
    (s' = s ∨
     (owner = o ∧ ∃ ob, s.observers[o]? = some ob ∧ (ob.state = .created ∨ ob.state = .inUse) ∧
        s'.observers = s.observers.modify o fun x =>
          { x with handlers := x.handlers.filter (·.token != t) })) := by
  have tok' : Life.TokWF s' := (Life.PresT.unsubscribe o t owner).h s _ s' h U.hinv.tok
  unfold unsubscribe at h
  split at h
  · obtain ⟨-, e⟩ := pure_ok_inv h
    subst e
    exact ⟨U, P9.HF.refl _, rfl, Or.inl rfl⟩
  rename_i hne
  have hown : owner = o := by simpa using hne
  obtain ⟨ob, hob, h⟩ := bind_getObs_inv h
  cases hst : ob.state with
  | disallowed =>
    rw [hst] at h
    obtain ⟨-, e⟩ := pure_ok_inv h
    subst e
    exact ⟨U, P9.HF.refl _, rfl, Or.inl rfl⟩
  | unlinked =>
    rw [hst] at h
    obtain ⟨-, e⟩ := pure_ok_inv h
    subst e
    exact ⟨U, P9.HF.refl _, rfl, Or.inl rfl⟩
  | created =>
    rw [hst] at h
    dsimp only at h
    obtain ⟨s2, e2, h⟩ := bind_modObs_inv h
    rw [if_neg (by simp)] at h
    obtain ⟨-, e⟩ := pure_ok_inv h
    subst e
    have F : P9.HF s s' := by rw [e2]; exact P9.HF.of_modObs s o _
    have hD : ∀ m, s'.nodeD m = s.nodeD m := fun m => by rw [e2]; rfl
    have U' := P9.unsubscribe_fin (t := t) U hob (Or.inl hst) F (by rw [e2]) (fun m => by rw [hD])
      (fun m => by rw [hD, hst]; simp) (by rw [e2]) (fun m => by rw [hD]) tok'
    exact ⟨U', F, by rw [e2], Or.inr ⟨hown, ob, hob, Or.inl hst, by rw [e2]⟩⟩
  | inUse =>
    rw [hst] at h
    dsimp only at h
    obtain ⟨s2, e2, h⟩ := bind_modObs_inv h
    have hlt : ob.node < s.nodes.size := U.core.obs.inRange o ob hob
    split at h
    · rename_i hc
      have hrem : ob.handlers.any (·.token == t) = true := by simpa using hc
      obtain ⟨s3, e3, h⟩ := bind_modNode_inv h
      obtain ⟨-, e⟩ := pure_ok_inv h
      subst e
      have F : P9.HF s s' := by
        rw [e3, e2]; exact (P9.HF.of_modObs s o _).trans (P9.HF.of_modNode _ _ _)
      have hD : ∀ m, s'.nodeD m = if ob.node = m ∧ m < s.nodes.size then
          { s.nodeD m with numOnUpdateHandlers := (s.nodeD m).numOnUpdateHandlers - 1 } else s.nodeD m := by
        intro m; rw [e3, e2]; exact nodeD_modify _ _ _ _
      have hnum : ∀ m, (s'.nodeD m).numOnUpdateHandlers = (s.nodeD m).numOnUpdateHandlers -
          if m = ob.node ∧ ob.state = .inUse ∧ ob.handlers.any (·.token == t) = true then 1 else 0 := by
        intro m
        rw [hD]
        by_cases c : ob.node = m
        · subst c
          rw [if_pos ⟨rfl, hlt⟩, if_pos ⟨rfl, hst, hrem⟩]
        · rw [if_neg (fun h => c h.1), if_neg (fun h => c h.1.symm)]; simp
      have U' := P9.unsubscribe_fin (t := t) U hob (Or.inr hst) F (by rw [e3, e2])
        (fun m => by rw [hD]; split <;> rfl) hnum (by rw [e3, e2]) (fun m => by rw [hD]; split <;> rfl) tok'
      exact ⟨U', F, by rw [e3, e2], Or.inr ⟨hown, ob, hob, Or.inr hst, by rw [e3, e2]⟩⟩
    · rename_i hc
      have hrem : ¬ ob.handlers.any (·.token == t) = true := by simpa using hc
      obtain ⟨-, e⟩ := pure_ok_inv h
      subst e
      have F : P9.HF s s' := by rw [e2]; exact P9.HF.of_modObs s o _
      have hD : ∀ m, s'.nodeD m = s.nodeD m := fun m => by rw [e2]; rfl
      have U' := P9.unsubscribe_fin (t := t) U hob (Or.inr hst) F (by rw [e2]) (fun m => by rw [hD])
        (fun m => by rw [hD, if_neg (fun h => hrem h.2.2)]; simp) (by rw [e2]) (fun m => by rw [hD]) tok'
      exact ⟨U', F, by rw [e2], Or.inr ⟨hown, ob, hob, Or.inr hst, by rw [e2]⟩⟩

/-- **`unsubscribe`.**  Either nothing changes, or the handler list of `o` (created or in use, and the owner of
token `t` according to the token table) loses the record of token `t`. -/
theorem step_unsubscribe {env : Env} {s s' : State} {o t : Nat} {tokens : Array Nat} {r : String × Array Nat}
    (U : UInv env s) (h : (stepAction env (.unsubscribe o t) tokens).run.run s = (.ok r, s')) :
    UInv env s' ∧ SFrame s s' ∧ r.2 = tokens ∧ s'.nextToken = s.nextToken ∧
    (s' = s ∨
     (tokens[t]? = some o ∧ ∃ ob, s.observers[o]? = some ob ∧ (ob.state = .created ∨ ob.state = .inUse) ∧
        s'.observers = s.observers.modify o fun x =>
          { x with handlers := x.handlers.filter (·.token != t) })) := by
  simp only [stepAction] at h
  cases ht : tokens[t]? with
  | none =>
    rw [ht] at h
    obtain ⟨er, e⟩ := pure_ok_inv h
    subst e
    exact ⟨U, SFrame.refl _, by rw [er], rfl, Or.inl rfl⟩
  | some owner =>
    rw [ht] at h
    dsimp only at h
    obtain ⟨a, s1, h1, h⟩ := bind_ok_inv h
    obtain ⟨U', F, hn, hc⟩ := P9.unsubscribe_ok U h1
    have hr : r.2 = tokens ∧ s' = s1 := by
      cases a with
      | ok u => cases u; obtain ⟨er, e⟩ := pure_ok_inv h; exact ⟨by rw [er], e⟩
      | error e => obtain ⟨er, e⟩ := pure_ok_inv h; exact ⟨by rw [er], e⟩
    obtain ⟨hr, e⟩ := hr
    subst e
    refine ⟨U', F.sframe, hr, hn, ?_⟩
    rcases hc with hc | ⟨hown, hc⟩
    · exact Or.inl hc
    · rw [hown]; exact Or.inr ⟨rfl, hc⟩

theorem P9.discard_ok_inv {α} {x : M α} {s s' : State} {u : Unit}
    (h : (discard x).run.run s = (.ok u, s')) : ∃ a, x.run.run s = (.ok a, s') := by
  unfold Functor.discard at h
  rw [LawfulFunctor.map_const] at h
  obtain ⟨a, h1, -⟩ := map_ok_inv h
  exact ⟨a, h1⟩

/-- **`stateUnsub`** (`State::unsubscribe`): as `unsubscribe owner t` when the owner is in `allObservers` -/
theorem step_stateUnsub {env : Env} {s s' : State} {t : Nat} {tokens : Array Nat} {r : String × Array Nat}
    (U : UInv env s) (h : (stepAction env (.stateUnsub t) tokens).run.run s = (.ok r, s')) :
    UInv env s' ∧ SFrame s s' ∧ r.2 = tokens ∧ s'.nextToken = s.nextToken ∧
    (s' = s ∨
     (∃ o ob, tokens[t]? = some o ∧ s.observers[o]? = some ob ∧ (ob.state = .created ∨ ob.state = .inUse) ∧
        s'.observers = s.observers.modify o fun x =>
          { x with handlers := x.handlers.filter (·.token != t) })) := by
  simp only [stepAction] at h
  cases ht : tokens[t]? with
  | none =>
    rw [ht] at h
    obtain ⟨er, e⟩ := pure_ok_inv h
    subst e
    exact ⟨U, SFrame.refl _, by rw [er], rfl, Or.inl rfl⟩
  | some owner =>
    rw [ht] at h
    dsimp only at h
    rw [run_bind_get] at h
    split at h
    · obtain ⟨u, s1, h1, h⟩ := bind_ok_inv h
      obtain ⟨er, e⟩ := pure_ok_inv h
      subst e
      obtain ⟨a, h1⟩ := P9.discard_ok_inv h1
      obtain ⟨U', F, hn, hc⟩ := P9.unsubscribe_ok U h1
      refine ⟨U', F.sframe, by rw [er], hn, ?_⟩
      rcases hc with hc | ⟨-, ob, hc⟩
      · exact Or.inl hc
      · exact Or.inr ⟨owner, ob, rfl, hc⟩
    · obtain ⟨er, e⟩ := pure_ok_inv h
      subst e
      exact ⟨U, SFrame.refl _, by rw [er], rfl, Or.inl rfl⟩

end IncrVerif.Proofs.SubsH
