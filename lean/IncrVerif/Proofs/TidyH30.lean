import IncrVerif.Proofs.TidyH29
import IncrVerif.Props.C08History
/-!
# T3b part 6: valid histories of the write-effects fragment never panic

Fragment: `EffH.WAction env` (= the fragment of `Props/C09History.lean`), node functions with write effects
(`WOnly env`), update handlers with write effects (`WHandlers env`).  Validity `ValidHistW N B …` = `ValidHistS`
(existing indices, room `nodes ≤ N`, fuel at every `stabilise`, `subscribe` on an existing observer) plus: at every
`stabilise` all the variables the functions and handlers may write exist (`B ≤ #vars`, where `FnBound env B` and
`HBound env B` bound the written indices).  Only the single actions are shown to return: the `is_stable` loop is not
bounded (a function that writes a variable it depends on never stabilises).
-/
namespace IncrVerif.Proofs.TidyH.EffT
open IncrVerif.Engine IncrVerif.Driver IncrVerif.Proofs IncrVerif.Proofs.Step IncrVerif.Proofs.Sched
open IncrVerif.Proofs.Quiet IncrVerif.Proofs.EffH
open IncrVerif.Proofs.TidyH.SubsT (TokIn SubsOK SubsOKc subsOK_of grown_tokIn tokIn_empty validHistB
  validHistB_sound ValidHistS)

/-- what a `stabilise` needs besides fuel: every variable that a function or a handler may write exists -/
def StabOK (B : Nat) (s : State) : Action → Prop
  | .stabilise => B ≤ s.vars.size
  | _ => True

/-- **every action of the fragment whose indices exist returns**; `UInvE`, `TInv`, `TokIn` are kept -/
theorem step_total_w {env : Env} {N B : Nat} {s : State} {a : Action} {tk : Array Nat}
    (hw : WOnly env) (hH : WHandlers env) (hFb : FnBound env B) (hHb : HBound env B)
    (UE : UInvE env s) (T : TInv N s) (K : TokIn tk s) (ha : WAction env a) (hok : ActionOK N s a)
    (hsub : SubsOK s a) (hstab : StabOK B s a) :
    Tot (stepAction env a tk) s (fun r s' => UInvE env s' ∧ TInv N s' ∧ TokIn r.2 s' ∧ Grown a s s') := by
  by_cases hs : a = .stabilise
  · subst hs
    obtain ⟨_, s', h, T'⟩ := stabilise_total_w (env := env) hw hH hFb hHb UE T hstab hok
    obtain ⟨t2, t3, X⟩ := stabilise_w hw hH UE h
    have G : Grown .stabilise s s' := ⟨X.size, by rw [X.vsize]; rfl, X.obs.1⟩
    exact ⟨_, s', step_stabilise_run h, X.inv, T', grown_tokIn K G, G⟩
  · have hnd : ∀ e c cb, a ≠ .addDep e c cb := by
      intro e c cb heq; rw [heq] at ha; exact ha.elim
    obtain ⟨r, s', h, -, T', K', G⟩ := SubsT.step_total (env := noEff env) (tk := tk) UE.u T K
      (pureHandlers_noEff env) ha hok hsub
    rw [stepAction_noEff env a tk hs hnd] at h
    exact ⟨r, s', h, step_w hw hH UE ha h, T', K', G⟩

/-! ## valid histories -/

def StabOKc (B nv : Nat) : Action → Prop
  | .stabilise => B ≤ nv
  | _ => True

theorem stabOK_of {B : Nat} {s : State} {a : Action} (h : StabOKc B s.vars.size a) : StabOK B s a := by
  cases a <;> first | exact h | trivial

/-- a valid history of the fragment: `ValidHistS` and, at every `stabilise`, the variables `< B` exist -/
def ValidHistW (N B : Nat) : Nat → Nat → Nat → List Action → Prop
  | _, _, _, [] => True
  | nn, nv, no, a :: as =>
    ActionOKc N nn nv no a ∧ SubsOKc no a ∧ StabOKc B nv a ∧
      ValidHistW N B (nn + (grow a).1) (nv + (grow a).2.1) (no + (grow a).2.2) as

theorem ValidHistW.toS {N B : Nat} : ∀ {acts : List Action} {nn nv no : Nat},
    ValidHistW N B nn nv no acts → ValidHistS N nn nv no acts := by
  intro acts
  induction acts with
  | nil => intro _ _ _ _; trivial
  | cons a as ih => intro nn nv no h; exact ⟨h.1, h.2.1, ih h.2.2.2⟩

/-- with `B = 0` (no function and no handler writes anything) validity is `ValidHistS` -/
theorem validHistW_zero {N : Nat} : ∀ {acts : List Action} {nn nv no : Nat},
    ValidHistS N nn nv no acts → ValidHistW N 0 nn nv no acts := by
  intro acts
  induction acts with
  | nil => intro _ _ _ _; trivial
  | cons a as ih =>
    intro nn nv no h
    refine ⟨h.1, h.2.1, ?_, ih h.2.2⟩
    cases a <;> first | trivial | exact Nat.zero_le _

/-- **Total correctness for the write-effects fragment.** A valid history runs without panic from any state
satisfying the invariants; the final state satisfies them. -/
theorem runActions_total_w {env : Env} {N B : Nat} {acts : List Action} {s : State} {tk : Array Nat}
    (hw : WOnly env) (hH : WHandlers env) (hFb : FnBound env B) (hHb : HBound env B)
    (UE : UInvE env s) (T : TInv N s) (K : TokIn tk s) (ha : ∀ a, a ∈ acts → WAction env a)
    (hv : ValidHistW N B s.nodes.size s.vars.size s.observers.size acts) :
    ∃ s' tk', runActions env acts s tk = .ok (s', tk') ∧ UInvE env s' ∧ TInv N s' ∧ TokIn tk' s' := by
  induction acts generalizing s tk with
  | nil => exact ⟨s, tk, rfl, UE, T, K⟩
  | cons a as ih =>
    obtain ⟨hok, hsub, hstab, hrest⟩ := hv
    obtain ⟨r, s1, h1, U1, T1, K1, hg⟩ :=
      step_total_w (tk := tk) hw hH hFb hHb UE T K (ha a (List.mem_cons_self ..))
        (actionOK_of T.topSize hok) (subsOK_of hsub) (stabOK_of hstab)
    obtain ⟨g1, g2, g3⟩ := hg
    rw [← g1, ← g2, ← g3] at hrest
    obtain ⟨s', tk', h2, U', T', K'⟩ := ih U1 T1 K1 (fun b hb => ha b (List.mem_cons_of_mem _ hb)) hrest
    refine ⟨s', tk', ?_, U', T', K'⟩
    simp only [runActions]
    rw [h1]
    exact h2

/-- **from the initial state**: a valid history of the write-effects fragment never panics -/
theorem history_total_w {env : Env} {N B : Nat} {d : Bool} {acts : List Action}
    (hw : WOnly env) (hH : WHandlers env) (hFb : FnBound env B) (hHb : HBound env B)
    (ha : ∀ a, a ∈ acts → WAction env a) (hv : ValidHistW N B 0 0 0 acts) :
    ∃ s' tk', runActions env acts (State.init N d) #[] = .ok (s', tk') ∧ UInvE env s' ∧ TInv N s' ∧
      TokIn tk' s' :=
  runActions_total_w hw hH hFb hHb (uinve_init env N d) (tinv_init N d) (tokIn_empty _) ha hv

/-- **hence, unconditionally**: at every `stabilise` of a valid history the invariant holds before it, the
`stabilise` returns and V3 of `Props/C08History.lean` (`EffH.WStab`) holds -/
theorem valid_history_stabilise_w {env : Env} {N B : Nat} {d : Bool} {as bs : List Action}
    (hw : WOnly env) (hH : WHandlers env) (hFb : FnBound env B) (hHb : HBound env B)
    (ha : ∀ a, a ∈ as ++ Action.stabilise :: bs → WAction env a)
    (hv : ValidHistW N B 0 0 0 (as ++ Action.stabilise :: bs)) :
    ∃ s1 tk1 s2 t2 t3 s tk, runActions env as (State.init N d) #[] = .ok (s1, tk1) ∧ UInvE env s1 ∧
      (stabilise env fuelDefault).run.run s1 = (.ok (), s2) ∧ WStab env fuelDefault s1 t2 t3 s2 ∧
      runActions env bs s2 tk1 = .ok (s, tk) ∧ UInvE env s := by
  obtain ⟨s, tk, h, U, -, -⟩ := history_total_w (d := d) hw hH hFb hHb ha hv
  obtain ⟨s1, tk1, s2, t2, t3, h1, U1, h2, X, h3⟩ := history_stabilise_w hw hH ha h
  exact ⟨s1, tk1, s2, t2, t3, s, tk, h1, U1, h2, X, h3, U⟩

/-- **hence, unconditionally** (C09 with effects): for every token of a valid history the logged updates are the
specified ones -/
theorem valid_history_notifications_w {env : Env} {N B : Nat} {d : Bool} {acts : List Action}
    (hw : WOnly env) (hH : WHandlers env) (hFb : FnBound env B) (hHb : HBound env B)
    (ha : ∀ a, a ∈ acts → WAction env a) (hv : ValidHistW N B 0 0 0 acts) :
    ∃ s' tk', runActions env acts (State.init N d) #[] = .ok (s', tk') ∧ UInvE env s' ∧ TInv N s' ∧
      ∀ t, SubsH.tokLog t s'.log = SubsH.specT env t acts (State.init N d) #[] [] := by
  obtain ⟨s', tk', h, U', T', -⟩ := history_total_w (d := d) hw hH hFb hHb ha hv
  exact ⟨s', tk', h, U', T', fun t => history_notifications_w hw hH ha h t⟩

/-- the first stage of `Props/C08History.lean` (no subscriptions, fragment `EffH.EAction`, invariant `EffH.EInv`):
a valid history never panics and ends in a state satisfying `EInv` -/
theorem history_total_e {env : Env} {N B : Nat} {d : Bool} {acts : List Action}
    (hw : WOnly env) (hH : WHandlers env) (hFb : FnBound env B) (hHb : HBound env B)
    (ha : ∀ a, a ∈ acts → EAction env a) (hv : ValidHistW N B 0 0 0 acts) :
    ∃ s' tk', runActions env acts (State.init N d) #[] = .ok (s', tk') ∧ EInv env s' ∧ TInv N s' := by
  obtain ⟨s', tk', h, -, T', -⟩ := history_total_w (d := d) hw hH hFb hHb
    (fun a hm => SubsH.SubAction.of_static (ha a hm)) hv
  exact ⟨s', tk', h, history_e hw ha h, T'⟩

/-! ## a Boolean checker and non-vacuity -/

def stabOKb (B nv : Nat) : Action → Bool
  | .stabilise => decide (B ≤ nv)
  | _ => true

def validHistWB (N B : Nat) : Nat → Nat → Nat → List Action → Bool
  | _, _, _, [] => true
  | nn, nv, no, a :: as =>
    SubsT.actionOKb N nn nv no a && stabOKb B nv a &&
      validHistWB N B (nn + (grow a).1) (nv + (grow a).2.1) (no + (grow a).2.2) as

theorem validHistWB_sound {N B : Nat} : ∀ {acts : List Action} {nn nv no : Nat},
    validHistWB N B nn nv no acts = true → ValidHistW N B nn nv no acts := by
  intro acts
  induction acts with
  | nil => intro _ _ _ _; trivial
  | cons a as ih =>
    intro nn nv no h
    simp only [validHistWB, Bool.and_eq_true] at h
    obtain ⟨h1, h2⟩ := SubsT.actionOKb_sound h.1.1
    refine ⟨h1, h2, ?_, ih h.2⟩
    have h3 := h.1.2
    cases a <;> first | trivial | exact (of_decide_eq_true h3 : B ≤ nv)

open IncrVerif.Props.C08History

theorem exEnvH_fnBound : FnBound exEnvH 2 := by
  intro f vals e v g he hv
  simp only [exEnvH] at he
  split at he
  · simp only [List.mem_singleton] at he; subst he; cases hv; decide
  · cases he

theorem exEnvH_hBound : HBound exEnvH 2 := by
  intro hid u e v g he hv
  simp only [exEnvH, List.mem_cons, List.mem_nil_iff, or_false] at he
  rcases he with rfl | rfl <;> (cases hv; decide)

/-- the example of `Props/C08History.lean` (a function writes `v1 := 4`; the handler then does `v1 += 1` and
`replace(v1, 2)`) is a valid history -/
theorem exHistH_valid : ValidHistW 128 2 0 0 0 exHistH := validHistWB_sound (by decide +kernel)

/-- hence it never panics BY THE THEOREM (not by running it), and the invariants hold at the end -/
example : ∃ s' tk', runActions exEnvH exHistH (State.init 128 true) #[] = .ok (s', tk') ∧ UInvE exEnvH s' ∧
    TInv 128 s' ∧ ∀ t, SubsH.tokLog t s'.log = SubsH.specT exEnvH t exHistH (State.init 128 true) #[] [] :=
  valid_history_notifications_w exEnvH_wonly exEnvH_whandlers exEnvH_fnBound exEnvH_hBound exHistH_actions
    exHistH_valid

/-- validity is needed: a function that writes a variable that does not exist (yet) makes `stabilise` panic in the
model; the checker rejects the history (the `stabilise` comes before `v1` exists) -/
def exBad : List Action :=
  [.create (.var (.int 1)), .create (.map 1 [.outer 0]), .observe (.outer 1), .stabilise]

example : ranOk exEnvH exBad = false ∧ validHistWB 128 2 0 0 0 exBad = false ∧
    validHistB 128 0 0 0 exBad = true :=
  ⟨by decide +kernel, by decide +kernel, by decide +kernel⟩

end IncrVerif.Proofs.TidyH.EffT
