import IncrVerif.Proofs.BindH64
/-!
# Binds, fragment F1, the closure run, part 4: `closure_spec1`

The closure run of a bind (`Inval.lhsRunClosure`) keeps the structural invariant `GInv1`: the previously registered nodes become the dying generation,
the nodes the closure creates (static nodes in scope `.bind b`) are appended, pristine, and are exactly the newly registered ones.
-/
namespace IncrVerif.Proofs.BindH
open IncrVerif.Engine IncrVerif.Proofs IncrVerif.Proofs.Step IncrVerif.Proofs.Sched IncrVerif.Proofs.Quiet

namespace CN

/-- the state after `modBind b (allNodesCreatedOnRhs := [])` -/
def reset (b : Nat) (s : State) : State :=
  { s with binds := s.binds.modify b fun x => { x with allNodesCreatedOnRhs := [] } }

/-- the state in which `elabTemplate` starts -/
def entered (b : Nat) (e : Event) (s : State) : State :=
  { reset b s with currentScope := .bind b, log := e :: s.log }

theorem reset_grow1 (b : Nat) (s : State) : Grow1 s (reset b s) where
  size := Nat.le_refl _
  old _ _ := rfl
  new m h1 h2 := by
    have : (reset b s).nodes.size = s.nodes.size := rfl
    omega
  binds := BSame.of_modify b (fun _ => []) rfl
  vars := rfl
  rch := rfl
  ahh := rfl

/-- the reset keeps the structural invariant; the registered nodes become the dying generation -/
theorem reset_ginv1 {env : Env} {s : State} {ex : Nat → Prop} {b : Nat} {br : BindRec}
    (I : GInv1 env s allClosed ex []) (hb : s.binds[b]? = some br) :
    GInv1 env (reset b s) allClosed ex br.allNodesCreatedOnRhs :=
  (reset_grow1 b s).ginv1 I
    (all1_reset I.frag hb (reset_grow1 b s) rfl rfl I.frag.pc I.frag.scope)

/-- the loop invariant when `elabTemplate` starts -/
theorem entered_li {env : Env} {s : State} {ex : Nat → Prop} {b : Nat} {br : BindRec} (e : Event)
    (I : GInv1 env s allClosed ex []) (hA : AhhEmpty s) (hb : s.binds[b]? = some br) :
    LI env b br s ex 0 [] (entered b e s) := by
  have hsc := I.frag.scope
  have hbb : (T (entered b e s)).binds[b]? = some { br with allNodesCreatedOnRhs := [] } := by
    show (s.binds.modify b _)[b]? = _
    rw [Array.getElem?_modify, if_pos rfl, hb]; rfl
  refine ⟨?_, ⟨hA.length, hA.buckets, hA.marks⟩, ?_, rfl, rfl, fun c hc => by cases hc⟩
  · exact CU.congr (reset_ginv1 I hb) ⟨SameG.of_nodes rfl rfl hsc.symm rfl rfl, rfl⟩
  · refine
      { grow := Nat.le_refl _
        old := fun _ _ => rfl
        new := fun m h1 h2 => by
          have : (T (entered b e s)).nodes.size = s.nodes.size := rfl
          omega
        bind := ⟨[], hbb, fun m => ?_⟩
        bindsSize := by
          show (s.binds.modify b _).size = _
          rw [Array.size_modify]
        bindsOther := fun b' hne => by
          show (s.binds.modify b _)[b']? = _
          rw [Array.getElem?_modify, if_neg (fun e => hne e.symm)]
        vars := rfl, stabNum := rfl, status := rfl, cfg := rfl, scope := hsc.symm, pc := rfl, rch := rfl
        ahh := rfl, top := rfl, pinv := rfl }
    have : (T (entered b e s)).nodes.size = s.nodes.size := rfl
    constructor
    · intro h; cases h
    · intro h; omega

/-- the run of the closure, in run form: the lhs has a value `v`, the template of `v` is elaborated from `entered …`, and the scope is restored -/
theorem lhsRunClosure_inv {env : Env} {n b rhs : Nat} {br : BindRec} {s s' : State}
    (hpc : s.panicCountdown = none)
    (h : (Inval.lhsRunClosure env n b br).run.run s = (.ok rhs, s')) :
    ∃ v e t, (elabTemplate env (env.body br.body v) v).run.run (entered b e s) = (.ok rhs, t) ∧
      s' = { t with currentScope := s.currentScope } := by
  unfold Inval.lhsRunClosure at h
  simp only [modBind, run_bind_modify] at h
  obtain ⟨v, sA, hA, h⟩ := bind_ok_inv h
  rw [run_valueUnwrap] at hA
  split at hA
  · cases hA
    simp only [run_bind_get, run_bind_modify] at h
    rw [run_bind_tick_none] at h
    rotate_left
    · exact hpc
    rw [run_bind_logEv] at h
    obtain ⟨r1, t, h1, h2⟩ := bind_ok_inv h
    rw [run_bind_modify] at h2
    obtain ⟨e1, e2⟩ := pure_ok_inv h2
    refine ⟨v, .inv s!"b{br.body}" n [v] "", t, ?_, e2⟩
    rw [e1]
    exact h1
  · cases hA

end CN

/-- **Phase 1 of the run of a change detector in fragment F1**: the closure run keeps the structural invariant. -/
theorem closure_spec1 (env : Env) : ClosureSpec1 env := by
  intro n b rhs br s s' ex h I hA hb hlc hT htop
  have A0 := I.frag
  obtain ⟨v, e, t, hrun, es'⟩ := CN.lhsRunClosure_inv A0.pc h
  have hdy : ∀ m, m ∈ br.allNodesCreatedOnRhs → m < s.nodes.size :=
    fun m hm => ((A0.gen b br hb m).1 (Or.inl hm)).1
  have hT' : TemplOK env s br.lhsChange (env.body br.body v) := by rw [hlc]; exact hT v
  obtain ⟨loc, L, hlt, hd⟩ := CN.elabTemplate_inv (CN.entered_li e I hA hb) A0 hdy htop hT' hrun
  have es : s' = CN.T t := by rw [es', A0.scope]; rfl
  rw [es]
  refine ⟨L.inv, ⟨L.ahh.length, L.ahh.buckets, L.ahh.marks⟩, L.rel, hlt, ?_⟩
  rw [← hlc]
  exact hd

end IncrVerif.Proofs.BindH
