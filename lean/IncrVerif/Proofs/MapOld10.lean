import IncrVerif.Proofs.MapOld1
/-!
# "patch" lemmas: giving the current node a value it does not have yet

If the current node `n` of the scheduling invariant has no stored value, pretending that it stores `some v` keeps the
invariant: nothing but `Inv.cons` reads stored values, and neither `n` nor a parent of `n` can be non-stale.
-/
namespace IncrVerif.Proofs.MapOldH
open IncrVerif.Engine IncrVerif.Proofs IncrVerif.Proofs.Step IncrVerif.Proofs.Sched IncrVerif.Proofs.Quiet

/-- `setValue` only touches the `value` field -/
theorem setValue_nodeD_with (n : Nat) (v : Option Val) (S : State) (m : Nat) :
    ∃ w, (setValue n v S).nodeD m = { S.nodeD m with value := w } := by
  rw [setValue_nodeD]
  split
  · exact ⟨v, rfl⟩
  · exact ⟨(S.nodeD m).value, rfl⟩

theorem setValue_kind (n : Nat) (v : Option Val) (S : State) (m : Nat) :
    ((setValue n v S).nodeD m).kind = (S.nodeD m).kind := by
  obtain ⟨w, e⟩ := setValue_nodeD_with n v S m; rw [e]

theorem setValue_kind? (n : Nat) (v : Option Val) (S : State) (m : Nat) :
    ((setValue n v S).nodeD m).kind? = (S.nodeD m).kind? := by
  obtain ⟨w, e⟩ := setValue_nodeD_with n v S m; rw [e]; rfl

theorem setValue_recomputedAt (n : Nat) (v : Option Val) (S : State) (m : Nat) :
    ((setValue n v S).nodeD m).recomputedAt = (S.nodeD m).recomputedAt := by
  obtain ⟨w, e⟩ := setValue_nodeD_with n v S m; rw [e]

theorem setValue_changedAt (n : Nat) (v : Option Val) (S : State) (m : Nat) :
    ((setValue n v S).nodeD m).changedAt = (S.nodeD m).changedAt := by
  obtain ⟨w, e⟩ := setValue_nodeD_with n v S m; rw [e]

theorem setValue_heightInRch (n : Nat) (v : Option Val) (S : State) (m : Nat) :
    ((setValue n v S).nodeD m).heightInRch = (S.nodeD m).heightInRch := by
  obtain ⟨w, e⟩ := setValue_nodeD_with n v S m; rw [e]

theorem setValue_inRch (n : Nat) (v : Option Val) (S : State) (m : Nat) :
    ((setValue n v S).nodeD m).inRch = (S.nodeD m).inRch := by
  obtain ⟨w, e⟩ := setValue_nodeD_with n v S m; rw [e]; rfl

theorem setValue_shape (n : Nat) (v : Option Val) (S : State) (m : Nat) :
    SameShape (S.nodeD m) ((setValue n v S).nodeD m) := by
  obtain ⟨w, e⟩ := setValue_nodeD_with n v S m; rw [e]
  exact ⟨rfl, rfl, rfl, rfl, rfl, rfl, rfl, rfl⟩

theorem setValue_value_ne {n m : Nat} (v : Option Val) (S : State) (h : m ≠ n) :
    ((setValue n v S).nodeD m).value = (S.nodeD m).value := by
  rw [setValue_nodeD, if_neg (fun e => h e.1.symm)]

theorem setValue_size (n : Nat) (v : Option Val) (S : State) :
    (setValue n v S).nodes.size = S.nodes.size := by
  simp [setValue]

theorem setValue_children (n : Nat) (v : Option Val) (S : State) (m : Nat) :
    (setValue n v S).children m = S.children m := by
  unfold State.children
  rw [setValue_kind?]
  rfl

/-- staleness, necessity, children, shapes do not read stored values -/
theorem setValue_isStale (n : Nat) (v : Option Val) (S : State) (m : Nat) :
    (setValue n v S).isStale m = S.isStale m := by
  unfold State.isStale
  simp only [setValue_children, setValue_kind?, setValue_recomputedAt, setValue_changedAt]
  rfl

theorem setValue_isNecessary (n : Nat) (v : Option Val) (S : State) (m : Nat) :
    (setValue n v S).isNecessary m = S.isNecessary m :=
  isNecessary_of_shape (setValue_shape n v S) m

theorem setValue_staleOf (n : Nat) (v : Option Val) (S : State) (m : Nat) :
    staleOf (setValue n v S) m = staleOf S m :=
  staleOf_congr (setValue_kind n v S m) (setValue_recomputedAt n v S m) rfl
    (fun c _ => setValue_changedAt n v S c)

/-- the defining expression of a node that does not have `n` among its children is unaffected -/
theorem Target.setValue_iff {env : Env} {S : State} {n m : Nat} {v : Option Val} {w : Val}
    (h : n ∉ kids (S.nodeD m).kind) : Target env (setValue n v S) m w ↔ Target env S m w := by
  have hc : ∀ c, c ∈ kids (S.nodeD m).kind → ((setValue n v S).nodeD c).value = (S.nodeD c).value := by
    intro c hc
    exact setValue_value_ne v S (fun e => h (e ▸ hc))
  constructor
  · intro ht
    refine Target.congr (s := setValue n v S) (s' := S) (setValue_kind n v S m).symm rfl ?_ ht
    intro c hcm
    rw [setValue_kind] at hcm
    exact (hc c hcm).symm
  · intro ht
    exact Target.congr (s := S) (s' := setValue n v S) (setValue_kind n v S m) rfl hc ht

theorem evalArgs_some_mem (ev : Nat → Option Val) (args : List Nat) (vals : List Val)
    (h : evalArgs ev args = some vals) : ∀ a, a ∈ args → ∃ v, ev a = some v := by
  induction args generalizing vals with
  | nil => intro a ha; cases ha
  | cons b bs ih =>
    intro a ha
    simp only [evalArgs] at h
    cases hb : ev b with
    | none => rw [hb] at h; cases h
    | some vb =>
      cases hbs : evalArgs ev bs with
      | none => rw [hb, hbs] at h; cases h
      | some vs =>
        rcases List.mem_cons.1 ha with rfl | ha
        · exact ⟨vb, hb⟩
        · exact ih vs hbs a ha

/-- every child of a node that has a target carries a value -/
theorem Target.kids_valued {env : Env} {S : State} {m : Nat} {w : Val} (h : Target env S m w) :
    ∀ c, c ∈ kids (S.nodeD m).kind → ∃ v, (S.nodeD c).value = some v := by
  unfold Target at h
  cases hk : (S.nodeD m).kind <;> rw [hk] at h <;> intro c hc <;> simp only [kids] at hc <;>
    first
    | (cases hc; done)
    | (obtain ⟨vals, h1, -⟩ := h; exact evalArgs_some_mem _ _ vals h1 c hc)

/-- a consistent node other than the valueless `n` stays consistent -/
theorem Consistent.patch {env : Env} {S : State} {n m : Nat} {v : Option Val}
    (hv : (S.nodeD n).value = none) (hc : Consistent env S m) : Consistent env (setValue n v S) m := by
  obtain ⟨w, ht, hw⟩ := hc
  have hne : m ≠ n := by intro e; rw [e, hv] at hw; cases hw
  have hk : n ∉ kids (S.nodeD m).kind := by
    intro hk
    obtain ⟨u, hu⟩ := Target.kids_valued ht n hk
    rw [hv] at hu; cases hu
  exact ⟨w, (Target.setValue_iff hk).2 ht, by rw [setValue_value_ne v S hne]; exact hw⟩

theorem Inv.patch {env : Env} {S : State} {n : Nat} {v : Val} (I : Inv env S (some n))
    (hv : (S.nodeD n).value = none) : Inv env (setValue n (some v) S) (some n) := by
  have hsh := setValue_shape n (some v) S
  refine ⟨I.graph.transfer (setValue_size _ _ _) hsh rfl I.graph.pc, ?_, ?_, ?_, ?_, ?_, ?_⟩
  · exact I.heap.congr rfl (setValue_size _ _ _)
      (fun m => ⟨setValue_heightInRch _ _ _ m, (hsh m).height, setValue_isNecessary _ _ _ m⟩)
  · refine ⟨I.stamps.now, ?_, I.stamps.var⟩
    intro m
    rw [setValue_recomputedAt, setValue_changedAt]
    exact I.stamps.node m
  · intro m hm hst
    rw [setValue_isNecessary] at hm
    rw [setValue_isStale] at hst
    rw [setValue_inRch]
    exact I.pending m hm hst
  · intro m hm hst
    rw [setValue_isNecessary] at hm
    rw [setValue_isStale] at hst
    exact Consistent.patch hv (I.cons m hm hst)
  · intro d hd a ha
    rw [setValue_inRch] at hd
    rw [Anc.transfer_iff hsh] at ha
    rw [setValue_recomputedAt]
    exact I.fresh d hd a ha
  · intro k hk
    obtain ⟨h1, h2⟩ := I.cur k hk
    refine ⟨by rw [setValue_isNecessary]; exact h1, ?_⟩
    intro d hd
    rw [Anc.transfer_iff hsh] at hd
    rw [setValue_inRch]
    exact h2 d hd

set_option linter.unusedVariables false in
theorem UnnecOK.patch {env : Env} {S : State} {n : Nat} {v : Val} (hU : UnnecOK env S)
    (hn : S.isNecessary n = true) (hv : (S.nodeD n).value = none) :
    UnnecOK env (setValue n (some v) S) := by
  intro m hm hnm
  rw [setValue_size] at hm
  rw [setValue_isNecessary] at hnm
  obtain ⟨h1, h2⟩ := hU m hm hnm
  refine ⟨by rw [setValue_recomputedAt]; exact h1, fun hs => ?_⟩
  rw [setValue_staleOf] at hs
  exact Consistent.patch hv (h2 hs)

/-- the target of `n` itself is unaffected (a necessary node is not its own child: children are strictly lower) -/
theorem Target.patch_self {env : Env} {S : State} {n : Nat} {v : Val} {w : Val} (g : Graph env S)
    (hn : S.isNecessary n = true) (h : Target env S n w) : Target env (setValue n (some v) S) n w := by
  refine (Target.setValue_iff ?_).2 h
  intro hk
  have := (g.kids_nec hn hk).2
  omega

end IncrVerif.Proofs.MapOldH
