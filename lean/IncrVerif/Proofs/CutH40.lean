import IncrVerif.Proofs.CutH36
import IncrVerif.Proofs.CutH38
import IncrVerif.Proofs.CutH39
-- Port of Proofs/Quiet28.lean to ARBITRARY cutoffs (scratch name T28); overview in Props/C06History.lean
/-!
# Part 28: valid histories of static actions never panic (C04 for the fragment)
-/
namespace IncrVerif.Proofs.CutH
open IncrVerif.Engine IncrVerif.Driver IncrVerif.Proofs IncrVerif.Proofs.Step IncrVerif.Proofs.Sched
variable {e : Bool}

theorem step_stabilise_run {env : Env} {s s' : State} {tk : Array Nat}
    (h : (stabilise env fuelDefault).run.run s = (.ok (), s')) :
    (stepAction env .stabilise tk).run.run s = (.ok ("ok", tk), s') := by
  unfold stepAction
  dsimp only
  rw [run_bind_ok h, run_pure]

/-- **G3, total.** Every static API action whose indices exist returns; the invariants are kept. -/
theorem step_total {env : Env} {N : Nat} {s : State} {a : Action} {tk : Array Nat}
    (Q : QInv env e s) (T : TInv N s) (ha : StaticAction env a) (hok : ActionOK N s a) :
    Tot (stepAction env a tk) s (fun r s' => r.2 = tk ∧ QInv env (e && ExactAction a) s' ∧ TInv N s' ∧ Grown a s s') := by
  have simple : SimpleAction a → Tot (stepAction env a tk) s
      (fun r s' => r.2 = tk ∧ QInv env (e && ExactAction a) s' ∧ TInv N s' ∧ Grown a s s') := by
    intro hs
    obtain ⟨r, s', h, h1, h2, h3⟩ := simple_total (env := env) (tk := tk) Q T hs hok
    exact ⟨r, s', h, h1, step_qx Q ha h, h2, h3⟩
  cases a <;> try exact ha.elim
  case create i =>
    obtain ⟨r, s', h, h1, h2, h3⟩ := create_total (tk := tk) Q T ha hok
    exact ⟨r, s', h, h1, step_qx Q ha h, h2, h3⟩
  case observe n => exact simple ha
  case cloneObs o => exact simple trivial
  case dropObs o => exact simple trivial
  case disallow o => exact simple trivial
  case set v x => exact simple trivial
  case modify v d => exact simple trivial
  case update v d => exact simple trivial
  case replace v x => exact simple trivial
  case replaceWith v d => exact simple trivial
  case get v => exact simple trivial
  case isStable => exact simple trivial
  case stats => exact simple trivial
  case stabilise =>
    obtain ⟨_, s', h, T'⟩ := stabilise_total_q (env := env) Q T hok
    have R := stabilise_q Q h
    refine ⟨_, s', step_stabilise_run h, rfl, ?_, T', ?_⟩
    · show QInv env (e && true) s'
      rw [Bool.and_true]; exact R.inv
    exact ⟨R.size, by rw [R.vars]; rfl, R.obs.1⟩

/-! ## valid histories -/

/-- `ActionOK` in terms of the numbers of nodes, var cells and observers -/
def ActionOKc (N nn nv no : Nat) : Action → Prop
  | .create (.cutoff n c) => (∃ k, n = Opnd.outer k ∧ k < nn) ∧ PlainCut c
  | .create i =>
    (match i with
      | .map _ args => ∀ a, a ∈ args → ∃ k, a = Opnd.outer k ∧ k < nn
      | .fold _ _ cs => ∀ a, a ∈ cs → ∃ k, a = Opnd.outer k ∧ k < nn
      | .zip a b => (∃ k, a = Opnd.outer k ∧ k < nn) ∧ (∃ k, b = Opnd.outer k ∧ k < nn)
      | .dependOn a b => (∃ k, a = Opnd.outer k ∧ k < nn) ∧ (∃ k, b = Opnd.outer k ∧ k < nn)
      | _ => True) ∧ nn + 1 ≤ N
  | .observe n => ∃ k, n = Opnd.outer k ∧ k < nn
  | .dropObs o | .disallow o => o < no
  | .set v _ | .modify v _ | .update v _ | .replace v _ | .replaceWith v _ | .get v => v < nv
  | .stabilise => 3 * nn + 4 ≤ fuelDefault
  | _ => True

theorem opndIn_of {s : State} {a : Opnd} {nn : Nat} (ht : s.top.size = nn)
    (h : ∃ k, a = Opnd.outer k ∧ k < nn) : OpndIn s a := by
  obtain ⟨k, rfl, hk⟩ := h
  show k < s.top.size
  omega

theorem actionOK_of {N : Nat} {s : State} {a : Action} (ht : s.top.size = s.nodes.size)
    (h : ActionOKc N s.nodes.size s.vars.size s.observers.size a) : ActionOK N s a := by
  cases a <;> try exact h
  case create i =>
    cases i
    case map f args => exact ⟨fun a ha => opndIn_of ht (h.1 a ha), h.2⟩
    case fold f init cs => exact ⟨fun a ha => opndIn_of ht (h.1 a ha), h.2⟩
    case zip a b => exact ⟨⟨opndIn_of ht h.1.1, opndIn_of ht h.1.2⟩, h.2⟩
    case dependOn a b => exact ⟨⟨opndIn_of ht h.1.1, opndIn_of ht h.1.2⟩, h.2⟩
    case cutoff n c => exact ⟨opndIn_of ht h.1, h.2⟩
    all_goals exact ⟨trivial, h.2⟩
  case observe n => exact opndIn_of ht h

/-- a history whose actions name existing things, never exceeds `N` nodes, and whose `stabilise`s have fuel;
`nn`, `nv`, `no` = numbers of nodes, var cells, observers before the history -/
def ValidHist (N : Nat) : Nat → Nat → Nat → List Action → Prop
  | _, _, _, [] => True
  | nn, nv, no, a :: as =>
    ActionOKc N nn nv no a ∧ ValidHist N (nn + (grow a).1) (nv + (grow a).2.1) (no + (grow a).2.2) as

theorem tinv_init (N : Nat) (d : Bool) : TInv N (State.init N d) := by
  have hnec : ∀ m, (State.init N d).isNecessary m = false := fun m => by
    rw [State.isNecessary, init_nodeD]; rfl
  refine ⟨?_, ⟨(init_limits N d).2.1, (init_limits N d).1, Nat.zero_le _⟩, ?_, rfl, List.nodup_nil, ?_, ?_⟩
  rotate_right
  · intro m i h; rw [init_nodeD] at h; cases h
  · intro m hm; rw [hnec] at hm; cases hm
  · intro c vc hc; simp [State.init] at hc
  · intro o ob ho; cases ho

/-- **C04 for the fragment.** A valid history of static actions runs without panic from any state
satisfying the invariants; the final state satisfies them. -/
theorem runActions_total {env : Env} {N : Nat} {acts : List Action} {s : State} {tk : Array Nat}
    (Q : QInv env e s) (T : TInv N s) (ha : ∀ a, a ∈ acts → StaticAction env a)
    (hv : ValidHist N s.nodes.size s.vars.size s.observers.size acts) :
    ∃ s', runActions env acts s tk = .ok (s', tk) ∧ QInv env (e && acts.all ExactAction) s' ∧ TInv N s' := by
  induction acts generalizing e s with
  | nil => exact ⟨s, rfl, by simpa using Q, T⟩
  | cons a as ih =>
    obtain ⟨hok, hrest⟩ := hv
    obtain ⟨r, s1, h1, htk, Q1, T1, hg⟩ :=
      step_total (tk := tk) Q T (ha a (List.mem_cons_self ..)) (actionOK_of T.topSize hok)
    obtain ⟨g1, g2, g3⟩ := hg
    rw [← g1, ← g2, ← g3] at hrest
    obtain ⟨s', h2, Q', T'⟩ := ih Q1 T1 (fun b hb => ha b (List.mem_cons_of_mem _ hb)) hrest
    refine ⟨s', ?_, by simpa only [List.all_cons, Bool.and_assoc] using Q', T'⟩
    simp only [runActions]
    rw [h1]
    simp only [htk]
    exact h2

/-- from the initial state -/
theorem history_total {env : Env} {N : Nat} {d : Bool} {acts : List Action}
    (ha : ∀ a, a ∈ acts → StaticAction env a) (hv : ValidHist N 0 0 0 acts) :
    ∃ s', runActions env acts (State.init N d) #[] = .ok (s', #[]) ∧ QInv env (acts.all ExactAction) s' ∧ TInv N s' := by
  have := runActions_total (tk := #[]) (qinv_init env N d) (tinv_init N d) ha hv
  simpa using this

end IncrVerif.Proofs.CutH
