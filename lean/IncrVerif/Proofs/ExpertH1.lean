import IncrVerif.Proofs.Sched13
import IncrVerif.Engine.Run
/-!
# Expert nodes over whole histories, part 1: the virtual static state

`virt s`: the state `s` in which every expert node `expert e` is replaced by the static node
`fold (xBase + er.f) (.int 0) [c1, …, ck]` over the CURRENT dependency list of its record `er`, with
`recomputedAt := -1` ("never computed") while `er.forceStale` is up; the expert records are erased, and the events
that only expert nodes produce (`note …`, `inv cb`, `inv x<f>`) are filtered out of the log.
`virtEnv env` interprets the fold ids `xBase + f` as the expert closure `f` (`xStep`).
Everything the structural/scheduling invariants of the static fragment read (`parents`, heights, `changedAt`, heap,
`children`, `isStale`, `isNecessary`, values) is the same in `s` and `virt s`.
-/
namespace IncrVerif.Proofs.ExpertH
open IncrVerif.Engine IncrVerif.Driver IncrVerif.Proofs IncrVerif.Proofs.Step IncrVerif.Proofs.Sched

/-- fold ids from here on name the expert closures in the virtual environment -/
def xBase : Nat := 1000000

/-- one step of the "sum of the dependencies modulo m" closure, `f = 10 * m + kind` -/
def xStep (f : Nat) (acc x : Val) : Val := .int (emod (acc.toInt + x.toInt) ((f / 10 : Nat) : Int))

def virtEnv (env : Env) : Env :=
  { env with foldStep := fun F acc x => if xBase ≤ F then xStep (F - xBase) acc x else env.foldStep F acc x }

/-- does the event survive in the virtual log?  (`inv f<i>`/`inv fold<i>` of static nodes, `cut`, `notif`) -/
def isF (s : String) : Bool := s.toList.head? == some 'f'

def keepEv : Event → Bool
  | .inv what _ _ _ => isF what
  | .cut .. => true
  | .notif .. => true
  | .note _ => false

theorem isF_f (f : Nat) : isF s!"f{f}" = true := by simp [isF, toString]
theorem isF_fold (f : Nat) : isF s!"fold{f}" = true := by simp [isF, toString]
theorem isF_x (f : Nat) : isF s!"x{f}" = false := by simp [isF, toString]
theorem isF_cb : isF "cb" = false := by decide

/-- the record of expert `e` (a dangling index reads as the empty record) -/
def xRec (xs : Array ExpertRec) (e : Nat) : ExpertRec := (xs[e]?).getD { f := 0 }

theorem xRec_some {xs : Array ExpertRec} {e : Nat} {er : ExpertRec} (h : xs[e]? = some er) : xRec xs e = er := by
  simp [xRec, h]
theorem xRec_none {xs : Array ExpertRec} {e : Nat} (h : xs[e]? = none) : xRec xs e = { f := 0 } := by
  simp [xRec, h]

def virtKind (xs : Array ExpertRec) : Kind → Kind
  | .expert e => .fold (xBase + (xRec xs e).f) (.int 0) ((xRec xs e).children.map (·.child))
  | k => k

/-- is the `forceStale` flag of the record of an expert kind up? -/
def forced (xs : Array ExpertRec) : Kind → Bool
  | .expert e => (xRec xs e).forceStale
  | _ => false

def virtNode (xs : Array ExpertRec) (nd : Node) : Node :=
  { nd with kind := virtKind xs nd.kind,
            recomputedAt := if forced xs nd.kind then -1 else nd.recomputedAt }

def virt (s : State) : State :=
  { s with nodes := s.nodes.map (virtNode s.experts), experts := #[], log := s.log.filter keepEv }

/-- kinds of the fragment static + expert -/
def XKind (env : Env) : Kind → Prop
  | .const _ => True
  | .var _ => True
  | .map f _ => f < fnPerKey ∧ (f < fnZip → ∀ vals, env.fnEff f vals = [])
  | .fold f _ _ => f < xBase
  | .expert _ => True
  | _ => False

theorem virtNode_default (xs : Array ExpertRec) : virtNode xs default = default := rfl

theorem virt_nodeD (s : State) (m : Nat) : (virt s).nodeD m = virtNode s.experts (s.nodeD m) := by
  unfold State.nodeD virt
  simp only [Array.getElem?_map]
  cases h : s.nodes[m]? with
  | none => simp [virtNode_default]
  | some nd => simp

theorem virt_size (s : State) : (virt s).nodes.size = s.nodes.size := by simp [virt]

theorem virt_getElem? (s : State) (m : Nat) :
    (virt s).nodes[m]? = (s.nodes[m]?).map (virtNode s.experts) := by
  simp [virt, Array.getElem?_map]

section fields
variable (xs : Array ExpertRec) (nd : Node)

theorem virtNode_kind : (virtNode xs nd).kind = virtKind xs nd.kind := rfl
theorem virtNode_valid : (virtNode xs nd).valid = nd.valid := rfl
theorem virtNode_cutoff : (virtNode xs nd).cutoff = nd.cutoff := rfl
theorem virtNode_createdIn : (virtNode xs nd).createdIn = nd.createdIn := rfl
theorem virtNode_parents : (virtNode xs nd).parents = nd.parents := rfl
theorem virtNode_observers : (virtNode xs nd).observers = nd.observers := rfl
theorem virtNode_forceNecessary : (virtNode xs nd).forceNecessary = nd.forceNecessary := rfl
theorem virtNode_height : (virtNode xs nd).height = nd.height := rfl
theorem virtNode_heightInRch : (virtNode xs nd).heightInRch = nd.heightInRch := rfl
theorem virtNode_heightInAhh : (virtNode xs nd).heightInAhh = nd.heightInAhh := rfl
theorem virtNode_changedAt : (virtNode xs nd).changedAt = nd.changedAt := rfl
theorem virtNode_value : (virtNode xs nd).value = nd.value := rfl
theorem virtNode_num : (virtNode xs nd).numOnUpdateHandlers = nd.numOnUpdateHandlers := rfl
theorem virtNode_inHas : (virtNode xs nd).inHandleAfterStab = nd.inHandleAfterStab := rfl
theorem virtNode_oldState : (virtNode xs nd).oldState = nd.oldState := rfl
theorem virtNode_didChange : (virtNode xs nd).didChange = nd.didChange := rfl
theorem virtNode_isNecessary : (virtNode xs nd).isNecessary = nd.isNecessary := rfl
theorem virtNode_inRch : (virtNode xs nd).inRch = nd.inRch := rfl
theorem virtNode_recomputedAt :
    (virtNode xs nd).recomputedAt = if forced xs nd.kind then -1 else nd.recomputedAt := rfl

theorem virtNode_recomputedAt_of_not_expert (h : ∀ e, nd.kind ≠ .expert e) :
    (virtNode xs nd).recomputedAt = nd.recomputedAt := by
  rw [virtNode_recomputedAt]
  cases hk : nd.kind <;> simp [forced]
  exact absurd hk (h _)

theorem virtKind_of_not_expert {k : Kind} (h : ∀ e, k ≠ .expert e) : virtKind xs k = k := by
  cases k <;> first | rfl | exact absurd rfl (h _)

theorem virtNode_of_not_expert (h : ∀ e, nd.kind ≠ .expert e) : virtNode xs nd = nd := by
  have h1 := virtKind_of_not_expert xs h
  have h2 := virtNode_recomputedAt_of_not_expert xs nd h
  rcases nd with ⟨k⟩
  simp only [virtNode] at h1 h2 ⊢
  simp only [h1]
  congr

theorem virtKind_not_expert (k : Kind) (e : Nat) : virtKind xs k ≠ .expert e := by
  cases k <;> simp [virtKind]

theorem virtKind_not_mapRef (k : Kind) (h : ∀ p i, k ≠ .mapRef p i) (p i : Nat) : virtKind xs k ≠ .mapRef p i := by
  cases k <;> simp [virtKind]
  exact fun h1 h2 => h _ _ (by rw [h1, h2])

theorem virtNode_kind? : (virtNode xs nd).kind? = (nd.kind?).map (virtKind xs) := by
  simp only [Node.kind?, virtNode_valid, virtNode_kind]
  by_cases h : nd.valid = true <;> simp [h]
end fields

/-- the children of a kind of the fragment (what `State.children` yields for a valid node) -/
def kidsX (xs : Array ExpertRec) : Kind → List Nat
  | .map _ args => args
  | .fold _ _ cs => cs
  | .expert e => (xRec xs e).children.map (·.child)
  | _ => []

theorem kids_virtKind (xs : Array ExpertRec) (k : Kind) : kids (virtKind xs k) = kidsX xs k := by
  cases k <;> rfl

theorem staticKind_virt {env : Env} {xs : Array ExpertRec} {k : Kind} (h : XKind env k) :
    StaticKind (virtEnv env) (virtKind xs k) := by
  cases k <;> simp only [XKind] at h <;> simp only [virtKind, StaticKind]
  case map f args => exact h
  all_goals first | exact h | trivial

/-! ## state-level readers -/

variable (s : State)

theorem virt_isNecessary (m : Nat) : (virt s).isNecessary m = s.isNecessary m := by
  simp [State.isNecessary, virt_nodeD, virtNode_isNecessary]

theorem virt_vars : (virt s).vars = s.vars := rfl
theorem virt_rch : (virt s).rch = s.rch := rfl
theorem virt_stabNum : (virt s).stabNum = s.stabNum := rfl
theorem virt_experts : (virt s).experts = #[] := rfl
theorem virt_log : (virt s).log = s.log.filter keepEv := rfl

theorem virt_experts_aux : (virt s).experts = #[] := rfl

theorem virt_kind? (m : Nat) : ((virt s).nodeD m).kind? = ((s.nodeD m).kind?).map (virtKind s.experts) := by
  rw [virt_nodeD, virtNode_kind?]

theorem virt_children (m : Nat) : (virt s).children m = s.children m := by
  unfold State.children
  rw [virt_kind?]
  cases h : (s.nodeD m).kind? with
  | none => rfl
  | some k =>
    cases k <;> try rfl
    rename_i e
    simp only [Option.map_some, virtKind]
    cases hx : s.experts[e]? with
    | none => simp [xRec_none hx]
    | some er => simp [xRec_some hx]

theorem virt_isStale (m : Nat) : (virt s).isStale m = s.isStale m := by
  unfold State.isStale
  simp only [virt_children, virt_nodeD, virtNode_kind?, virtNode_changedAt, virt_vars, virtNode_recomputedAt]
  cases h : (s.nodeD m).kind? with
  | none => rfl
  | some k =>
    have hk : (s.nodeD m).kind = k := by
      unfold Node.kind? at h; split at h
      · cases h; rfl
      · cases h
    rw [hk]
    cases k <;> try rfl
    rename_i e
    simp only [Option.map_some, virtKind, forced]
    cases hx : s.experts[e]? with
    | none => simp [xRec_none hx]
    | some er =>
      simp only [xRec_some hx]
      cases hf : er.forceStale <;> simp

theorem virt_needsToBeComputed (m : Nat) : (virt s).needsToBeComputed m = s.needsToBeComputed m := by
  simp [State.needsToBeComputed, virt_isNecessary, virt_isStale]

theorem virt_kids (m : Nat) : kids ((virt s).nodeD m).kind = kidsX s.experts (s.nodeD m).kind := by
  rw [virt_nodeD, virtNode_kind, kids_virtKind]

theorem virt_staleOf {env : Env} (m : Nat) (hv : (s.nodeD m).valid = true) (hk : XKind env (s.nodeD m).kind) :
    staleOf (virt s) m = s.isStale m := by
  rw [← virt_isStale s m]
  exact (isStale_static (env := virtEnv env) (virt s) m (by rw [virt_nodeD, virtNode_valid]; exact hv)
    (by rw [virt_nodeD, virtNode_kind]; exact staticKind_virt hk)).symm

/-- no map_ref nodes: every node reads its stored value, in both states -/
theorem virt_value (env : Env) (n : Nat) (h : ∀ m p i, (s.nodeD m).kind ≠ .mapRef p i) :
    (virt s).value (virtEnv env) n = s.value env n := by
  rw [value_plain (virtEnv env) (virt s) n, value_plain env s n (h n), virt_nodeD, virtNode_value]
  intro p i
  rw [virt_nodeD, virtNode_kind]
  exact virtKind_not_mapRef _ _ (h n) p i

theorem virtEnv_fn (env : Env) : (virtEnv env).fn = env.fn := rfl
theorem virtEnv_fnEff (env : Env) : (virtEnv env).fnEff = env.fnEff := rfl
theorem virtEnv_cutoff (env : Env) : (virtEnv env).cutoff = env.cutoff := rfl
theorem virtEnv_proj (env : Env) : (virtEnv env).proj = env.proj := rfl

theorem virtEnv_foldStep_real (env : Env) {f : Nat} (h : f < xBase) :
    (virtEnv env).foldStep f = env.foldStep f := by
  funext acc x; simp [virtEnv, Nat.not_le.2 h]

theorem virtEnv_foldStep_x (env : Env) (f : Nat) : (virtEnv env).foldStep (xBase + f) = xStep f := by
  funext acc x; simp [virtEnv]

end IncrVerif.Proofs.ExpertH
