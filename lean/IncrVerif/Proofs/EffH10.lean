import IncrVerif.Proofs.EffH8
import IncrVerif.Proofs.EffH9
/-!
# Effects, part 10: whole histories of programs whose node functions have write effects (V2)
-/
namespace IncrVerif.Proofs.EffH
open IncrVerif.Engine IncrVerif.Driver IncrVerif.Proofs IncrVerif.Proofs.Step IncrVerif.Proofs.Sched
open IncrVerif.Proofs.Quiet

/-- the API actions of the fragment: the static actions (`Quiet.StaticAction`), except that the user functions of
`map` nodes may have effects (restricted by `WOnly env`) -/
def EAction (env : Env) (a : Action) : Prop := StaticAction (noEff env) a

theorem einv_init (env : Env) (N : Nat) (d : Bool) : EInv env (State.init N d) :=
  ⟨qinv_init (noEff env) N d, fun v c hc => by simp [State.init] at hc⟩

/-- **every action keeps the invariant** -/
theorem step_e {env : Env} (hw : WOnly env) {s s' : State} {a : Action} {tk : Array Nat}
    {r : String × Array Nat} (E : EInv env s) (ha : EAction env a)
    (h : (stepAction env a tk).run.run s = (.ok r, s')) : EInv env s' := by
  by_cases hs : a = .stabilise
  · subst hs
    obtain ⟨t2, t3, S, X⟩ := stabilise_eff hw E (step_stabilise h)
    exact X.inv
  · have hnd : ∀ e c cb, a ≠ .addDep e c cb := by
      intro e c cb heq; rw [heq] at ha; exact ha.elim
    rw [← stepAction_noEff env a tk hs hnd] at h
    exact ⟨step_q E.q ha h, step_cells ha hs E.q.status E.cells h⟩

theorem runActions_e {env : Env} (hw : WOnly env) {acts : List Action} {s s' : State} {tk tk' : Array Nat}
    (E : EInv env s) (ha : ∀ a, a ∈ acts → EAction env a)
    (h : runActions env acts s tk = .ok (s', tk')) : EInv env s' := by
  induction acts generalizing s tk with
  | nil => simp only [runActions] at h; cases h; exact E
  | cons a as ih =>
    simp only [runActions] at h
    rcases hx : (stepAction env a tk).run.run s with ⟨_ | r, s1⟩
    · rw [hx] at h; cases h
    · rw [hx] at h
      exact ih (step_e hw E (ha a (List.mem_cons_self ..)) hx) (fun b hb => ha b (List.mem_cons_of_mem _ hb)) h

/-- **V2: every state reached.** -/
theorem history_e {env : Env} (hw : WOnly env) {N : Nat} {d : Bool} {acts : List Action} {s : State}
    {tk : Array Nat} (ha : ∀ a, a ∈ acts → EAction env a)
    (h : runActions env acts (State.init N d) #[] = .ok (s, tk)) : EInv env s :=
  runActions_e hw (einv_init env N d) ha h

theorem history_prefix_e {env : Env} (hw : WOnly env) {N : Nat} {d : Bool} {as bs : List Action} {s : State}
    {tk : Array Nat} (ha : ∀ a, a ∈ as ++ bs → EAction env a)
    (h : runActions env (as ++ bs) (State.init N d) #[] = .ok (s, tk)) :
    ∃ s1 tk1, runActions env as (State.init N d) #[] = .ok (s1, tk1) ∧ EInv env s1 ∧
      runActions env bs s1 tk1 = .ok (s, tk) := by
  obtain ⟨s1, tk1, h1, h2⟩ := runActions_prefix h
  exact ⟨s1, tk1, h1, history_e hw (fun a hm => ha a (List.mem_append_left _ hm)) h1, h2⟩

/-- **V2: at every `stabilise` of the history, V1 holds.** -/
theorem history_stabilise_e {env : Env} (hw : WOnly env) {N : Nat} {d : Bool} {as bs : List Action}
    {s : State} {tk : Array Nat} (ha : ∀ a, a ∈ as ++ Action.stabilise :: bs → EAction env a)
    (h : runActions env (as ++ Action.stabilise :: bs) (State.init N d) #[] = .ok (s, tk)) :
    ∃ s1 tk1 s2 t2 t3 S, runActions env as (State.init N d) #[] = .ok (s1, tk1) ∧ EInv env s1 ∧
      (stabilise env fuelDefault).run.run s1 = (.ok (), s2) ∧ EStab env fuelDefault s1 t2 t3 S s2 ∧
      runActions env bs s2 tk1 = .ok (s, tk) := by
  obtain ⟨s1, tk1, h1, E1, h2⟩ := history_prefix_e hw ha h
  simp only [runActions] at h2
  rcases hx : (stepAction env .stabilise tk1).run.run s1 with ⟨_ | r, s2⟩
  · rw [hx] at h2; cases h2
  · rw [hx] at h2
    have hst := step_stabilise hx
    obtain ⟨t2, t3, S, X⟩ := stabilise_eff hw E1 hst
    have hr : r.2 = tk1 := by
      unfold stepAction at hx
      dsimp only at hx
      obtain ⟨u, sx, _, hp⟩ := bind_ok_inv hx
      obtain ⟨e, -⟩ := pure_ok_inv hp
      have := congrArg Prod.snd e
      first | exact this | exact this.symm
    dsimp only at h2
    rw [hr] at h2
    exact ⟨s1, tk1, s2, t2, t3, S, h1, E1, hst, X, h2⟩

/-! ## the fixed point -/

/-- **a stable state reads the current variables.** In a state satisfying the invariant with `isStable = true`, every
in-use observer reads the from-scratch value of its node ON THE CURRENT CONTENTS OF THE VARIABLES, and no observer is
waiting to be added. -/
theorem stable_reads {env : Env} {s : State} (E : EInv env s) (hs : s.isStable = true) :
    (∀ (o : Nat) (ob : ObsRec), s.observers[o]? = some ob → ob.state = .inUse →
      ∀ k, (s.nodeD ob.node).height.toNat < k →
        ∃ v, s.tryGetValue env o = .ok v ∧ eval env s k ob.node = some v) ∧
    (∀ (o : Nat) (ob : ObsRec), s.observers[o]? = some ob → ob.state ≠ .created) := by
  have Q := E.q
  obtain ⟨hno, hall⟩ := (isStable_iff Q).1 hs
  have hq := Q.quiet
  constructor
  · intro o ob ho hst k hk
    have hmem : o ∈ (s.nodeD ob.node).observers := (Q.obs.mem ob.node o).2 ⟨ob, ho, rfl, Or.inl hst⟩
    have hn : s.isNecessary ob.node = true := by
      rw [isNecessary_iff]; right; left; exact List.ne_nil_of_mem hmem
    have D := hq.toDrain
    have he : ({ s with status := .stabilising } : State).rch.length = 0 := by
      show s.rch.length = 0
      rw [heap_empty_iff hq.heap]
      intro m
      cases hq' : (s.nodeD m).inRch with
      | false => rfl
      | true =>
        obtain ⟨a, b⟩ := (hq.queued m).1 hq'
        rw [hall m a] at b; cases b
    obtain ⟨-, -, -, hv, hsome⟩ := drained_values D he ob.node hn k hk
    have hv' : s.value env ob.node = eval env s k ob.node := by
      have e1 : eval (noEff env) ({ s with status := .stabilising } : State) k ob.node = eval env s k ob.node := by
        rw [eval_noEff]
        exact eval_congr (s := s) (s' := { s with status := .stabilising }) (fun _ => rfl) rfl k ob.node
      rw [← e1, ← hv, value_noEff]
      exact (value_congr env s { s with status := .stabilising } rfl (fun _ => rfl) ob.node).symm
    have hsome' : (eval env s k ob.node).isSome = true := by
      have e1 : eval (noEff env) ({ s with status := .stabilising } : State) k ob.node = eval env s k ob.node := by
        rw [eval_noEff]
        exact eval_congr (s := s) (s' := { s with status := .stabilising }) (fun _ => rfl) rfl k ob.node
      rw [← e1]; exact hsome
    obtain ⟨v, hev⟩ := Option.isSome_iff_exists.1 hsome'
    refine ⟨v, ?_, hev⟩
    unfold State.tryGetValue
    rw [Q.alive, Q.status, ho]
    simp only [Bool.not_true, Bool.false_eq_true, if_false, hst]
    rw [hv', hev]
    rfl
  · intro o ob ho hc
    have := Q.obs.created o ob ho hc
    rw [hno] at this; cases this

/-- **the fixed-point corollary (partial correctness).** Run any history of the fragment, then call `stabilise`
`k` times: if the state then has `isStable = true` (i.e. a loop `while !is_stable() { stabilise() }` stops there), every
in-use observer reads the from-scratch value of its node on the FINAL contents of the variables. -/
theorem loop_fixpoint {env : Env} (hw : WOnly env) {N : Nat} {d : Bool} {acts : List Action} {k : Nat}
    {s : State} {tk : Array Nat} (ha : ∀ a, a ∈ acts → EAction env a)
    (h : runActions env (acts ++ List.replicate k Action.stabilise) (State.init N d) #[] = .ok (s, tk))
    (hs : s.isStable = true) :
    ∀ (o : Nat) (ob : ObsRec), s.observers[o]? = some ob → ob.state = .inUse →
      ∀ j, (s.nodeD ob.node).height.toNat < j →
        ∃ v, s.tryGetValue env o = .ok v ∧ eval env s j ob.node = some v := by
  have E : EInv env s := by
    refine history_e hw ?_ h
    intro a hm
    rcases List.mem_append.1 hm with hm | hm
    · exact ha a hm
    · rw [(List.mem_replicate.1 hm).2]; trivial
  exact (stable_reads E hs).1

end IncrVerif.Proofs.EffH
