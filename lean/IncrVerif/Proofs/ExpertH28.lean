import IncrVerif.Proofs.ExpertH25
import IncrVerif.Proofs.ExpertH26
import IncrVerif.Proofs.ExpertH27
/-!
# Expert fragment: `became_necessary_propagate`; the notification walk, part 2
(`maybeChangeValueManual`, `maybeChangeValue`)
-/
namespace IncrVerif.Proofs.ExpertH
open IncrVerif.Engine IncrVerif.Driver IncrVerif.Proofs IncrVerif.Proofs.Step IncrVerif.Proofs.Sched

theorem Sim.becameNecessaryPropagate (env : Env) (fuel n : Nat) :
    Sim (Engine.becameNecessaryPropagate env fuel n) (Engine.becameNecessaryPropagate (virtEnv env) fuel n) := by
  intro s; unfold Engine.becameNecessaryPropagate; xsim
macro_rules | `(tactic| xsim_leaf) => `(tactic|
  with_reducible exact IncrVerif.Proofs.ExpertH.Sim.becameNecessaryPropagate _ _ _)

theorem Sim.maybeChangeValueManual (env : Env) (fuel n : Nat) (o : Option Val) (did b : Bool) :
    Sim (Engine.maybeChangeValueManual env fuel n o did b)
      (Engine.maybeChangeValueManual (virtEnv env) fuel n o did b) := by
  intro s
  unfold Engine.maybeChangeValueManual
  xsim
  split <;> xsim
macro_rules | `(tactic| xsim_leaf) => `(tactic|
  with_reducible exact IncrVerif.Proofs.ExpertH.Sim.maybeChangeValueManual _ _ _ _ _ _)

theorem Sim.maybeChangeValue (env : Env) (fuel n : Nat) (v : Val) :
    Sim (Engine.maybeChangeValue env fuel n v) (Engine.maybeChangeValue (virtEnv env) fuel n v) := by
  intro s
  unfold Engine.maybeChangeValue
  xsim
  split <;> xsim
macro_rules | `(tactic| xsim_leaf) => `(tactic|
  with_reducible exact IncrVerif.Proofs.ExpertH.Sim.maybeChangeValue _ _ _ _)

end IncrVerif.Proofs.ExpertH
