import IncrVerif.Proofs.ExpertH42
import IncrVerif.Proofs.ExpertH21
/-!
# Expert fragment: what the observers read after a `stabilise` (port of MapRef29 `stabilisedR_reads`)
-/
namespace IncrVerif.Proofs.ExpertH
open IncrVerif.Engine IncrVerif.Driver IncrVerif.Proofs IncrVerif.Proofs.Step IncrVerif.Proofs.Sched
open IncrVerif.Proofs.ExpertH.QR

/-- every observer in use reads the from-scratch evaluation (`evalX`: through expert nodes) of its node on the
current variable values -/
def ReadsOKX (env : Env) (s : State) : Prop :=
  ∀ (o : Nat) (ob : ObsRec), s.observers[o]? = some ob → ob.state = .inUse →
    ∀ k, (s.nodeD ob.node).height.toNat < k →
      ∃ v, s.tryGetValue env o = .ok v ∧ evalX env s k ob.node = some v

theorem stabilisedX_reads {env : Env} {rk : Nat → Nat} {fuel : Nat} {s s' : State}
    (R : StabilisedX env rk fuel s s') : ReadsOKX env s' ∧ ObsSettled s' ∧
      (∀ n, s'.isNecessary n = true → s'.isStale n = false) := by
  have Q' := R.inv.q
  have O' : ObsInv (virt s') [] [] := by
    have := Q'.obs
    unfold ObsOK at this
    rw [R.virt.newObservers, R.virt.disallowedObservers] at this
    exact this
  refine ⟨?_, ?_, fun n hn => (R.values n hn _ (Nat.lt_succ_self _)).1⟩
  · intro o ob ho hst k hk
    have hmem : o ∈ ((virt s').nodeD ob.node).observers := (O'.mem ob.node o).2 ⟨ob, ho, rfl, Or.inl hst⟩
    rw [virt_nodeD, virtNode_observers] at hmem
    have hn : s'.isNecessary ob.node = true := by
      rw [isNecessary_iff]; right; left; exact List.ne_nil_of_mem hmem
    obtain ⟨-, hv, hs⟩ := R.values ob.node hn k hk
    obtain ⟨v, hev⟩ := Option.isSome_iff_exists.1 hs
    refine ⟨v, ?_, hev⟩
    unfold State.tryGetValue
    have ha : s'.alive = true := Q'.alive
    have hstat : s'.status = .notStabilising := Q'.status
    rw [ha, hstat, ho]
    simp only [Bool.not_true, Bool.false_eq_true, if_false, hst]
    rw [hv, hev]
    rfl
  · intro o ob ho
    have ho' : (virt s').observers[o]? = some ob := ho
    cases hst : ob.state with
    | inUse => exact Or.inl rfl
    | unlinked => exact Or.inr rfl
    | created => have := O'.created o ob ho' hst; cases this
    | disallowed => have := (O'.dis o ob ho').1 hst; cases this

end IncrVerif.Proofs.ExpertH
