import IncrVerif.Proofs.PerKeyH99
/-!
# Per-key operators, API actions part 9: `QInv` of the virtual state after `create (.perKey ..)`

Four `Created` steps on the virtual static state; the result node `N+1` is first created without children, then
re-kinded (`QInv.rekind_unnec`: it is unnecessary) to depend on the newer node `N+2`, with the ranks of `N+1` and
`N+2` swapped.
-/
namespace IncrVerif.Proofs.PerKeyH
open IncrVerif.Engine IncrVerif.Driver IncrVerif.Proofs IncrVerif.Proofs.Step IncrVerif.Proofs.Sched
open IncrVerif.Proofs.ExpertH IncrVerif.Proofs.EffH IncrVerif.Proofs.DriverH IncrVerif.Proofs.ExpertH.QR

/-- `T` with other nodes and names -/
def wN (T : State) (ns : Array Node) (tp : Array Nat) : State := { T with nodes := ns, top := tp }

theorem nodeD_wN (T : State) (ns : Array Node) (tp : Array Nat) (m : Nat) :
    (wN T ns tp).nodeD m = (ns[m]?).getD default := rfl

theorem created_wN {k : Kind} (T : State) (ns : Array Node) (tp : Array Nat) (hk : ∀ c, k ≠ .var c) :
    Created k (wN T ns tp) (wN T (ns.push (newNode k)) (tp.push ns.size))
      ((wN T ns tp).top.push (wN T ns tp).nodes.size) :=
  ⟨rfl, Or.inl ⟨hk, rfl⟩, rfl, rfl, rfl, rfl, rfl, rfl, rfl, rfl, rfl, rfl, rfl, rfl, rfl, rfl⟩

/-- `QInv` does not read the names, except that they name existing nodes -/
theorem QInv.retop {env : Env} {rk : Nat → Nat} {T : State} {ns : Array Node} {tp : Array Nat}
    (Q : QInv env rk (wN T ns tp)) (tp' : Array Nat) (h : ∀ (k n : Nat), tp'[k]? = some n → n < ns.size) :
    QInv env rk (wN T ns tp') where
  struct := GInv.congr Q.struct (SameG.of_nodes rfl rfl rfl rfl rfl)
  vars := ⟨Q.vars.node, Q.vars.cell⟩
  obs := ⟨Q.obs.inRange, Q.obs.mem, Q.obs.created, Q.obs.newIn, Q.obs.dis, Q.obs.disIn, Q.obs.disNodup⟩
  now := Q.now
  stamps := Q.stamps
  varStamp := Q.varStamp
  cons := fun m hm hs => Q.cons m hm hs
  status := Q.status
  alive := Q.alive
  setDuringStab := Q.setDuringStab
  deadVars := Q.deadVars
  handleAfterStab := Q.handleAfterStab
  handlers := Q.handlers
  pinv := Q.pinv
  top := fun k n hk => h k n hk

/-! ## array lookups -/

theorem push3_get (ns : Array Node) (a b c : Node) (m : Nat) :
    (((ns.push a).push b).push c)[m]? =
      if m = ns.size + 2 then some c else if m = ns.size + 1 then some b else if m = ns.size then some a
      else ns[m]? := by
  simp only [Array.getElem?_push, Array.size_push]

/-! ## the chain -/

section
variable {env : Env} {rk : Nat → Nat} {s : State} (fam : FamCut) (a0 : Nat)

/-- the re-chosen rank: the ranks of `N+1` and `N+2` are swapped -/
def swapRk (rk : Nat → Nat) (N : Nat) : Nat → Nat :=
  fun m => if m = N + 1 then rk (N + 2) else if m = N + 2 then rk (N + 1) else rk m

theorem staticKind_ident (env : Env) (args : List Nat) : StaticKind (penv env) (.map fnIdent args) :=
  ⟨by decide, fun h => absurd h (by decide)⟩
theorem staticKind_lc (env : Env) (args : List Nat) : StaticKind (penv env) (.map fLc args) :=
  ⟨by decide, fun h => absurd h (by decide)⟩

/-- **the virtual state after `create (.perKey ..)` satisfies `QInv`**, for the rank with `N+1`, `N+2` swapped -/
theorem qinv_pkc (F : PFrag env s) (R : RecsOK s) (Q : QInv (penv env) rk (V s)) (ha : a0 < s.nodes.size) :
    QInv (penv env) (swapRk rk s.nodes.size) (V (pkCreated fam a0 s)) := by
  -- notation
  have hN : (V s).nodes.size = s.nodes.size := V_size s
  obtain ⟨K, hK1, hK2⟩ := Q.struct.static.top
  rw [hN] at hK1 hK2
  let T := V (pkCreated fam a0 s)
  let n0 := newNode (.map fnIdent [a0])
  let n1e := newNode (.fold xAsm (asmInit [(0, 0)]) [])
  let n1 := newNode (.fold xAsm (asmInit [(0, 0)]) [s.nodes.size + 2])
  let n2 := newNode (.map fLc [s.nodes.size])
  -- step 1: the conversion node
  have C1 : Created (.map fnIdent [a0]) (V s) (wN T ((V s).nodes.push n0) ((V s).top.push (V s).nodes.size))
      ((V s).top.push (V s).nodes.size) :=
    ⟨rfl, Or.inl ⟨fun _ h => Kind.noConfusion h, rfl⟩, rfl, rfl, F.scope.symm, rfl, rfl, rfl, rfl, rfl, rfl, rfl, rfl,
      rfl, rfl, rfl⟩
  have Q1 := Created.qinv C1 Q (staticKind_ident env _) (fun c hc => by
    simp only [kids, List.mem_cons, List.not_mem_nil, or_false] at hc; rw [hc, hN]; exact ha)
  -- step 2: the result node, without children
  have C2 := created_wN (k := .fold xAsm (asmInit [(0, 0)]) []) T ((V s).nodes.push n0)
    ((V s).top.push (V s).nodes.size) (fun _ h => Kind.noConfusion h)
  have Q2 := Created.qinv C2 Q1 trivial (fun c hc => by cases hc)
  -- step 3: the change detector
  have C3 := created_wN (k := .map fLc [s.nodes.size]) T (((V s).nodes.push n0).push n1e)
    (((V s).top.push (V s).nodes.size).push ((V s).nodes.push n0).size) (fun _ h => Kind.noConfusion h)
  have Q3 := Created.qinv C3 Q2 (staticKind_lc env _) (fun c hc => by
    simp only [kids, List.mem_cons, List.not_mem_nil, or_false] at hc
    show c < (((V s).nodes.push n0).push n1e).size
    rw [hc, Array.size_push, Array.size_push, hN]; omega)
  -- the re-kinding of the result node
  let tp3 := (((V s).top.push (V s).nodes.size).push ((V s).nodes.push n0).size).push
    (((V s).nodes.push n0).push n1e).size
  let S3 := wN T ((((V s).nodes.push n0).push n1e).push n2) tp3
  let S3' := wN T ((((V s).nodes.push n0).push n1).push n2) tp3
  have Q3 : QInv (penv env) rk S3 := Q3
  have hD3 : ∀ m, S3.nodeD m = if m = s.nodes.size + 2 then n2 else if m = s.nodes.size + 1 then n1e
      else if m = s.nodes.size then n0 else (V s).nodeD m := by
    intro m
    rw [nodeD_wN, push3_get, hN]
    split
    · rfl
    · split
      · rfl
      · split <;> rfl
  have hD3' : ∀ m, S3'.nodeD m = if m = s.nodes.size + 2 then n2 else if m = s.nodes.size + 1 then n1
      else if m = s.nodes.size then n0 else (V s).nodeD m := by
    intro m
    rw [nodeD_wN, push3_get, hN]
    split
    · rfl
    · split
      · rfl
      · split <;> rfl
  have hsz3 : S3.nodes.size = s.nodes.size + 3 := by
    show ((((V s).nodes.push n0).push n1e).push n2).size = _
    simp only [Array.size_push, hN]
  have hsz3' : S3'.nodes.size = s.nodes.size + 3 := by
    show ((((V s).nodes.push n0).push n1).push n2).size = _
    simp only [Array.size_push, hN]
  have Rk : Rekind (s.nodes.size + 1) (.fold xAsm (asmInit [(0, 0)]) [s.nodes.size + 2]) S3 S3' := by
    refine ⟨by rw [hsz3]; omega, by rw [hsz3, hsz3'], rfl, rfl, rfl, rfl, rfl, fun m hm => ?_, ?_⟩
    · rw [hD3, hD3']
      by_cases h2 : m = s.nodes.size + 2
      · rw [if_pos h2, if_pos h2]
      · rw [if_neg h2, if_neg h2, if_neg hm, if_neg hm]
    · rw [hD3, hD3', if_neg (by omega), if_pos rfl, if_neg (by omega), if_pos rfl]
      rfl
  -- the new rank
  have hrkN : ∀ m, s.nodes.size ≤ m → rk m = K + m := hK1
  have hs1 : swapRk rk s.nodes.size (s.nodes.size + 1) = K + s.nodes.size + 2 := by
    simp only [swapRk, if_true]; rw [hrkN _ (by omega)]; omega
  have hs2 : swapRk rk s.nodes.size (s.nodes.size + 2) = K + s.nodes.size + 1 := by
    simp only [swapRk]; rw [if_neg (by omega), if_pos trivial, hrkN _ (by omega)]; omega
  have hso : ∀ m, m ≠ s.nodes.size + 1 → m ≠ s.nodes.size + 2 → swapRk rk s.nodes.size m = rk m := by
    intro m h1 h2; simp only [swapRk]; rw [if_neg h1, if_neg h2]
  have A3 := Q3.struct.static
  have A3' : AllStatic (penv env) (swapRk rk s.nodes.size) S3' := by
    refine ⟨A3.pc, A3.scope, fun n hn => ?_, fun a b hab => ?_, ⟨K, fun m hm => ?_, fun k hk => ?_⟩⟩
    · rw [hsz3'] at hn
      by_cases h1 : n = s.nodes.size + 1
      · -- the result node
        subst h1
        have e : S3'.nodeD (s.nodes.size + 1) = n1 := by
          rw [hD3', if_neg (by omega), if_pos rfl]
        refine ⟨by rw [e]; rfl, by rw [e]; trivial, by rw [e]; rfl, by rw [e]; rfl, by rw [e]; rfl,
          fun c hc => ?_, fun c hc => ?_⟩
        · rw [e] at hc
          simp only [n1, newNode, kids, List.mem_cons, List.not_mem_nil, or_false] at hc
          rw [hc, hs1, hs2]; omega
        · rw [e] at hc
          simp only [n1, newNode, kids, List.mem_cons, List.not_mem_nil, or_false] at hc
          rw [hc, hsz3']; omega
      · have e : S3'.nodeD n = S3.nodeD n := Rk.other n h1
        have sn := A3.node n (by rw [hsz3]; exact hn)
        refine ⟨by rw [e]; exact sn.valid, by rw [e]; exact sn.kind, by rw [e]; exact sn.cutoff,
          by rw [e]; exact sn.top, by rw [e]; exact sn.force, fun c hc => ?_,
          fun c hc => by rw [e] at hc; rw [hsz3', ← hsz3]; exact sn.kidsIn c hc⟩
        rw [e] at hc
        have hlt := sn.kidsLt c hc
        by_cases h2 : n = s.nodes.size + 2
        · -- the change detector: its child is the conversion node
          subst h2
          rw [hD3, if_pos rfl] at hc
          simp only [n2, newNode, kids, List.mem_cons, List.not_mem_nil, or_false] at hc
          rw [hc, hs2, hso _ (by omega) (by omega), hrkN _ (Nat.le_refl _)]; omega
        · -- an old node or the conversion node: its children are older
          have hn' : n ≤ s.nodes.size := by omega
          have hrn : rk n ≤ K + s.nodes.size := by
            by_cases h3 : n = s.nodes.size
            · rw [h3, hrkN _ (Nat.le_refl _)]; omega
            · exact Nat.le_of_lt (hK2 n (by omega))
          have hc' : c < s.nodes.size := by
            by_cases h4 : c < s.nodes.size
            · exact h4
            · have := hrkN c (by omega); omega
          rw [hso n h1 h2, hso c (by omega) (by omega)]; exact hlt
    · -- injectivity
      have hinj := A3.inj
      by_cases a1 : a = s.nodes.size + 1
      · by_cases b1 : b = s.nodes.size + 1
        · rw [a1, b1]
        · by_cases b2 : b = s.nodes.size + 2
          · rw [a1, b2, hs1, hs2] at hab; omega
          · rw [a1, hs1, hso b b1 b2] at hab
            have : rk b = rk (s.nodes.size + 2) := by rw [hrkN (s.nodes.size + 2) (by omega)]; omega
            exact absurd (hinj _ _ this) b2
      · by_cases a2 : a = s.nodes.size + 2
        · by_cases b1 : b = s.nodes.size + 1
          · rw [a2, b1, hs1, hs2] at hab; omega
          · by_cases b2 : b = s.nodes.size + 2
            · rw [a2, b2]
            · rw [a2, hs2, hso b b1 b2] at hab
              have : rk b = rk (s.nodes.size + 1) := by rw [hrkN (s.nodes.size + 1) (by omega)]; omega
              exact absurd (hinj _ _ this) b1
        · rw [hso a a1 a2] at hab
          by_cases b1 : b = s.nodes.size + 1
          · rw [b1, hs1] at hab
            have : rk a = rk (s.nodes.size + 2) := by rw [hrkN (s.nodes.size + 2) (by omega)]; omega
            exact absurd (hinj _ _ this) a2
          · by_cases b2 : b = s.nodes.size + 2
            · rw [b2, hs2] at hab
              have : rk a = rk (s.nodes.size + 1) := by rw [hrkN (s.nodes.size + 1) (by omega)]; omega
              exact absurd (hinj _ _ this) a1
            · rw [hso b b1 b2] at hab; exact hinj _ _ hab
    · rw [hsz3'] at hm
      rw [hso m (by omega) (by omega)]; exact hrkN m (by omega)
    · rw [hsz3'] at hk ⊢
      by_cases k1 : k = s.nodes.size + 1
      · rw [k1, hs1]; omega
      · by_cases k2 : k = s.nodes.size + 2
        · rw [k2, hs2]; omega
        · rw [hso k k1 k2]
          by_cases k3 : k < s.nodes.size
          · have := hK2 k k3; omega
          · rw [hrkN k (by omega)]; omega
  have hnec : S3.isNecessary (s.nodes.size + 1) = false := by
    rw [State.isNecessary, hD3, if_neg (by omega), if_pos rfl]; rfl
  have hst : staleOf S3' (s.nodes.size + 1) = true := by
    unfold staleOf
    rw [hD3', if_neg (by omega), if_pos rfl]; rfl
  have hko : ∀ c, (S3.nodeD (s.nodes.size + 1)).kind ≠ .var c := by
    intro c; rw [hD3, if_neg (by omega), if_pos rfl]; intro h; cases h
  have Q3' : QInv (penv env) (swapRk rk s.nodes.size) S3' :=
    QInv.rekind_unnec Q3 Rk A3' hnec hst (fun _ h => Kind.noConfusion h) hko
  -- back to the names of `s`
  have Q3'' := QInv.retop Q3' s.top (fun k n hk => by
    have := Q.top k n hk
    show n < ((((V s).nodes.push n0).push n1).push n2).size
    simp only [Array.size_push]; omega)
  -- step 4: the output conversion
  have C4 : Created (.map fnIdent [s.nodes.size + 1]) (wN T ((((V s).nodes.push n0).push n1).push n2) s.top) T
      ((wN T ((((V s).nodes.push n0).push n1).push n2) s.top).top.push
        (wN T ((((V s).nodes.push n0).push n1).push n2) s.top).nodes.size) := by
    refine ⟨V_pkc_nodes fam a0 F R, Or.inl ⟨fun _ h => Kind.noConfusion h, rfl⟩, rfl, rfl, rfl, rfl, rfl, rfl, rfl, rfl,
      rfl, rfl, rfl, rfl, rfl, ?_⟩
    show s.top.push (s.nodes.size + 3) = s.top.push ((((V s).nodes.push n0).push n1).push n2).size
    simp only [Array.size_push, hN]
  exact Created.qinv C4 Q3'' (staticKind_ident env _) (fun c hc => by
    simp only [kids, List.mem_cons, List.not_mem_nil, or_false] at hc
    show c < ((((V s).nodes.push n0).push n1).push n2).size
    rw [hc]; simp only [Array.size_push, hN]; omega)

end

end IncrVerif.Proofs.PerKeyH
