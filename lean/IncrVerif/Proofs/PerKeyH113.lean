import IncrVerif.Proofs.PerKeyH111
/-! # Per-key operators, non-vacuity examples (continued): families `P1`, `P2` (see `EX1.lean`) -/
namespace IncrVerif.Proofs.PerKeyH
open IncrVerif.Engine IncrVerif.Driver IncrVerif.Proofs IncrVerif.Proofs.ExpertH
open IncrVerif.Props.C14History IncrVerif.Proofs.ExpertH.QR

/-! ## `P1`: `F(k, v) = (1 + n2) mod 7` (a node per key that ignores the key's value) -/

set_option maxRecDepth 100000 in
/-- after each `stabilise` with an in-use observer (`o0`; after the re-observation `o1`): (the read, the input map, the outer variable) -/
theorem exP1_io :
    ioAfter exEnvP ((exHistP 1).take 6) 0 = some (.map [(1, 3), (5, 3)], some (.map [(1, 3), (5, 0)]), some (.int 2)) ∧
    ioAfter exEnvP ((exHistP 1).take 8) 0 = some (.map [(1, 3), (5, 3), (6, 3)], some (.map [(1, 3), (5, 0), (6, 2)]), some (.int 2)) ∧
    ioAfter exEnvP ((exHistP 1).take 10) 0 = some (.map [(1, 3), (5, 3), (6, 3)], some (.map [(1, 4), (5, 0), (6, 2)]), some (.int 2)) ∧
    ioAfter exEnvP ((exHistP 1).take 12) 0 = some (.map [(1, 3), (6, 3)], some (.map [(1, 4), (6, 2)]), some (.int 2)) ∧
    ioAfter exEnvP ((exHistP 1).take 14) 0 = some (.map [(1, 5), (6, 5)], some (.map [(1, 4), (6, 2)]), some (.int 4)) ∧
    ioAfter exEnvP ((exHistP 1).take 23) 1 = some (.map [(1, 5), (8, 5), (9, 5)], some (.map [(1, 5), (8, 3), (9, 0)]), some (.int 4)) ∧
    ioAfter exEnvP (exHistP 1) 1 = some (.map [(1, 6), (9, 6)], some (.map [(1, 6), (9, 0)]), some (.int 5)) :=
  ⟨by decide +kernel, by decide +kernel, by decide +kernel, by decide +kernel, by decide +kernel, by decide +kernel,
    by decide +kernel⟩

/-- the reads alone -/
theorem exP1_reads :
    readAfter exEnvP ((exHistP 1).take 6) 0 = some (.map [(1, 3), (5, 3)]) ∧
    readAfter exEnvP ((exHistP 1).take 8) 0 = some (.map [(1, 3), (5, 3), (6, 3)]) ∧
    readAfter exEnvP ((exHistP 1).take 10) 0 = some (.map [(1, 3), (5, 3), (6, 3)]) ∧
    readAfter exEnvP ((exHistP 1).take 12) 0 = some (.map [(1, 3), (6, 3)]) ∧
    readAfter exEnvP ((exHistP 1).take 14) 0 = some (.map [(1, 5), (6, 5)]) ∧
    readAfter exEnvP ((exHistP 1).take 23) 1 = some (.map [(1, 5), (8, 5), (9, 5)]) ∧
    readAfter exEnvP (exHistP 1) 1 = some (.map [(1, 6), (9, 6)]) := by
  obtain ⟨h1, h2, h3, h4, h5, h6, h7⟩ := exP1_io
  exact ⟨readAfter_of_io h1, readAfter_of_io h2, readAfter_of_io h3, readAfter_of_io h4, readAfter_of_io h5,
    readAfter_of_io h6, readAfter_of_io h7⟩

/-- `f1 n2` -/
def F1 (o : Int) (_k _v : Int) : Int := (1 + o) % 7

/-- C16 on the example, with the function explicit: after each `stabilise` the in-use observer reads
`{k ↦ F(k, v) | (k, v) ∈ x}` for the current value of the input variable `x` and of the outer variable (`2`, `4`, `5`) (the input
values are those of `exP1_io`) -/
theorem exP1_spec :
    readAfter exEnvP ((exHistP 1).take 6) 0 = some (.map ([(1, 3), (5, 0)].map fun (k, v) => (k, (F1 2) k v))) ∧
    readAfter exEnvP ((exHistP 1).take 8) 0 = some (.map ([(1, 3), (5, 0), (6, 2)].map fun (k, v) => (k, (F1 2) k v))) ∧
    readAfter exEnvP ((exHistP 1).take 10) 0 = some (.map ([(1, 4), (5, 0), (6, 2)].map fun (k, v) => (k, (F1 2) k v))) ∧
    readAfter exEnvP ((exHistP 1).take 12) 0 = some (.map ([(1, 4), (6, 2)].map fun (k, v) => (k, (F1 2) k v))) ∧
    readAfter exEnvP ((exHistP 1).take 14) 0 = some (.map ([(1, 4), (6, 2)].map fun (k, v) => (k, (F1 4) k v))) ∧
    readAfter exEnvP ((exHistP 1).take 23) 1 = some (.map ([(1, 5), (8, 3), (9, 0)].map fun (k, v) => (k, (F1 4) k v))) ∧
    readAfter exEnvP (exHistP 1) 1 = some (.map ([(1, 6), (9, 0)].map fun (k, v) => (k, (F1 5) k v))) := exP1_reads

/-! ## `P2`: `F(k, v) = n2` (the SAME node for every key) -/

set_option maxRecDepth 100000 in
/-- after each `stabilise` with an in-use observer (`o0`; after the re-observation `o1`): (the read, the input map, the outer variable) -/
theorem exP2_io :
    ioAfter exEnvP ((exHistP 2).take 6) 0 = some (.map [(1, 2), (5, 2)], some (.map [(1, 3), (5, 0)]), some (.int 2)) ∧
    ioAfter exEnvP ((exHistP 2).take 8) 0 = some (.map [(1, 2), (5, 2), (6, 2)], some (.map [(1, 3), (5, 0), (6, 2)]), some (.int 2)) ∧
    ioAfter exEnvP ((exHistP 2).take 10) 0 = some (.map [(1, 2), (5, 2), (6, 2)], some (.map [(1, 4), (5, 0), (6, 2)]), some (.int 2)) ∧
    ioAfter exEnvP ((exHistP 2).take 12) 0 = some (.map [(1, 2), (6, 2)], some (.map [(1, 4), (6, 2)]), some (.int 2)) ∧
    ioAfter exEnvP ((exHistP 2).take 14) 0 = some (.map [(1, 4), (6, 4)], some (.map [(1, 4), (6, 2)]), some (.int 4)) ∧
    ioAfter exEnvP ((exHistP 2).take 23) 1 = some (.map [(1, 4), (8, 4), (9, 4)], some (.map [(1, 5), (8, 3), (9, 0)]), some (.int 4)) ∧
    ioAfter exEnvP (exHistP 2) 1 = some (.map [(1, 5), (9, 5)], some (.map [(1, 6), (9, 0)]), some (.int 5)) :=
  ⟨by decide +kernel, by decide +kernel, by decide +kernel, by decide +kernel, by decide +kernel, by decide +kernel,
    by decide +kernel⟩

/-- the reads alone -/
theorem exP2_reads :
    readAfter exEnvP ((exHistP 2).take 6) 0 = some (.map [(1, 2), (5, 2)]) ∧
    readAfter exEnvP ((exHistP 2).take 8) 0 = some (.map [(1, 2), (5, 2), (6, 2)]) ∧
    readAfter exEnvP ((exHistP 2).take 10) 0 = some (.map [(1, 2), (5, 2), (6, 2)]) ∧
    readAfter exEnvP ((exHistP 2).take 12) 0 = some (.map [(1, 2), (6, 2)]) ∧
    readAfter exEnvP ((exHistP 2).take 14) 0 = some (.map [(1, 4), (6, 4)]) ∧
    readAfter exEnvP ((exHistP 2).take 23) 1 = some (.map [(1, 4), (8, 4), (9, 4)]) ∧
    readAfter exEnvP (exHistP 2) 1 = some (.map [(1, 5), (9, 5)]) := by
  obtain ⟨h1, h2, h3, h4, h5, h6, h7⟩ := exP2_io
  exact ⟨readAfter_of_io h1, readAfter_of_io h2, readAfter_of_io h3, readAfter_of_io h4, readAfter_of_io h5,
    readAfter_of_io h6, readAfter_of_io h7⟩

def F2 (o : Int) (_k _v : Int) : Int := o

/-- C16 on the example, with the function explicit: after each `stabilise` the in-use observer reads
`{k ↦ F(k, v) | (k, v) ∈ x}` for the current value of the input variable `x` and of the outer variable (`2`, `4`, `5`) (the input
values are those of `exP2_io`) -/
theorem exP2_spec :
    readAfter exEnvP ((exHistP 2).take 6) 0 = some (.map ([(1, 3), (5, 0)].map fun (k, v) => (k, (F2 2) k v))) ∧
    readAfter exEnvP ((exHistP 2).take 8) 0 = some (.map ([(1, 3), (5, 0), (6, 2)].map fun (k, v) => (k, (F2 2) k v))) ∧
    readAfter exEnvP ((exHistP 2).take 10) 0 = some (.map ([(1, 4), (5, 0), (6, 2)].map fun (k, v) => (k, (F2 2) k v))) ∧
    readAfter exEnvP ((exHistP 2).take 12) 0 = some (.map ([(1, 4), (6, 2)].map fun (k, v) => (k, (F2 2) k v))) ∧
    readAfter exEnvP ((exHistP 2).take 14) 0 = some (.map ([(1, 4), (6, 2)].map fun (k, v) => (k, (F2 4) k v))) ∧
    readAfter exEnvP ((exHistP 2).take 23) 1 = some (.map ([(1, 5), (8, 3), (9, 0)].map fun (k, v) => (k, (F2 4) k v))) ∧
    readAfter exEnvP (exHistP 2) 1 = some (.map ([(1, 6), (9, 0)].map fun (k, v) => (k, (F2 5) k v))) := exP2_reads

end IncrVerif.Proofs.PerKeyH
