import IncrVerif.Proofs.MapOld24
/-!
# map_with_old fragment: unfolding the from-scratch evaluation along the node pattern of the `mapOp` instruction
(`conv → mapWithOld → conv`, for merge `conv, conv → zip → mapWithOld → conv`)
-/
namespace IncrVerif.Proofs.MapOldH
open IncrVerif.Engine IncrVerif.Driver IncrVerif.Proofs IncrVerif.Proofs.Step IncrVerif.Proofs.Sched IncrVerif.Proofs.Quiet

variable {env : Env} {sp : Nat → Val → Val} {s : State}

theorem evalW_var {n c : Nat} (h : (s.nodeD n).kind = .var c) (k : Nat) :
    evalW env sp s (k + 1) n = (s.vars[c]?).map (·.value) := by
  unfold evalW; rw [h]

theorem evalW_const {n : Nat} {v : Val} (h : (s.nodeD n).kind = .const v) (k : Nat) :
    evalW env sp s (k + 1) n = some v := by
  unfold evalW; rw [h]

theorem evalW_map1 {n f a : Nat} (h : (s.nodeD n).kind = .map f [a]) (k : Nat) :
    evalW env sp s (k + 1) n = (evalW env sp s k a).map fun v => env.fn f [v] := by
  conv => lhs; unfold evalW
  rw [h]
  simp only [evalArgs]
  cases evalW env sp s k a <;> rfl

theorem evalW_map2 {n f a b : Nat} (h : (s.nodeD n).kind = .map f [a, b]) (k : Nat) :
    evalW env sp s (k + 1) n =
      match evalW env sp s k a, evalW env sp s k b with
      | some x, some y => some (env.fn f [x, y])
      | _, _ => none := by
  conv => lhs; unfold evalW
  rw [h]
  simp only [evalArgs]
  cases evalW env sp s k a <;> cases evalW env sp s k b <;> rfl

theorem evalW_mwo {n g i : Nat} (h : (s.nodeD n).kind = .mapWithOld g i) (k : Nat) :
    evalW env sp s (k + 1) n = (evalW env sp s k i).map (sp g) := by
  conv => lhs; unfold evalW
  rw [h]

/-- the node pattern of a unary operator (`incr_filter_mapi`, `incr_unordered_fold`, `incr_partition_mapi`) -/
structure UnaryOp (s : State) (out g x : Nat) : Prop where
  conv2 : ∃ o, (s.nodeD out).kind = .map fnIdent [o] ∧ ∃ a, (s.nodeD o).kind = .mapWithOld g a ∧
    (s.nodeD a).kind = .map fnIdent [x]

/-- the node pattern of `incr_merge` -/
structure MergeOp (s : State) (out g x y : Nat) : Prop where
  pat : ∃ o, (s.nodeD out).kind = .map fnIdent [o] ∧ ∃ z, (s.nodeD o).kind = .mapWithOld g z ∧
    ∃ a b, (s.nodeD z).kind = .map fnZip [a, b] ∧ (s.nodeD a).kind = .map fnIdent [x] ∧
      (s.nodeD b).kind = .map fnIdent [y]

theorem evalW_unary {out g x : Nat} (U : UnaryOp s out g x) (k : Nat) :
    evalW env sp s (k + 3) out =
      (evalW env sp s k x).map fun v => env.fn fnIdent [sp g (env.fn fnIdent [v])] := by
  obtain ⟨o, ho, a, hoa, ha⟩ := U.conv2
  rw [evalW_map1 ho, evalW_mwo hoa, evalW_map1 ha]
  cases evalW env sp s k x <;> rfl

theorem evalW_merge {out g x y : Nat} (U : MergeOp s out g x y) (k : Nat) :
    evalW env sp s (k + 4) out =
      match evalW env sp s k x, evalW env sp s k y with
      | some vx, some vy =>
        some (env.fn fnIdent [sp g (env.fn fnZip [env.fn fnIdent [vx], env.fn fnIdent [vy]])])
      | _, _ => none := by
  obtain ⟨o, ho, z, hoz, a, b, hz, ha, hb⟩ := U.pat
  rw [evalW_map1 ho, evalW_mwo hoz, evalW_map2 hz, evalW_map1 ha, evalW_map1 hb]
  cases evalW env sp s k x <;> cases evalW env sp s k y <;> rfl

end IncrVerif.Proofs.MapOldH
