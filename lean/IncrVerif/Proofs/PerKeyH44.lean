import IncrVerif.Proofs.PerKeyH43
import IncrVerif.Proofs.PerKeyH5
/-!
# Per-key operators, static steps part 2: the frame bundle `SF`, kinds of `V` along it, the fragment along it,
`rchRemoveMin` on `V`
-/
namespace IncrVerif.Proofs.PerKeyH
open IncrVerif.Engine IncrVerif.Driver IncrVerif.Proofs IncrVerif.Proofs.Step IncrVerif.Proofs.Sched
open IncrVerif.Proofs.ExpertH IncrVerif.Proofs.EffH IncrVerif.Proofs.DriverH IncrVerif.Proofs.Xp
open IncrVerif.Proofs.ExpertH.QR

/-- the frames of a step of the drain that is neither a run of a change detector nor of an expert node -/
structure SF (s s' : State) : Prop where
  xf : XF s s'
  df : DFX s s'
  perkeys : s'.perkeys = s.perkeys

theorem SF.trans {a b c : State} (h1 : SF a b) (h2 : SF b c) : SF a c :=
  ⟨h1.xf.trans h2.xf, h1.df.trans h2.df, h2.perkeys.trans h1.perkeys⟩

theorem SF.top {s s' : State} (f : SF s s') : s'.top = s.top := by
  have := f.df.keyD; simp only [KeyD, stateKeyD, Prod.mk.injEq] at this; exact this.2.2.2.1

theorem SF.scope {s s' : State} (f : SF s s') : s'.currentScope = s.currentScope := by
  have := f.df.keyD; simp only [KeyD, stateKeyD, Prod.mk.injEq] at this; exact this.2.2.1

theorem SF.binds {s s' : State} (f : SF s s') : s'.binds = s.binds := by
  have := f.df.keyD; simp only [KeyD, stateKeyD, Prod.mk.injEq] at this; exact this.2.2.2.2.2.2.2.1

theorem SF.slots {s s' : State} (f : SF s s') : s'.slots = s.slots := by
  have := f.df.keyD; simp only [KeyD, stateKeyD, Prod.mk.injEq] at this; exact this.2.2.2.2.2.2.2.2.2.1

theorem SF.size {s s' : State} (f : SF s s') : s'.nodes.size = s.nodes.size := f.xf.size
theorem SF.kind {s s' : State} (f : SF s s') (m : Nat) : (s'.nodeD m).kind = (s.nodeD m).kind := f.xf.kind m

/-- kinds a static step may run -/
theorem xKind_of_pkind {env : Env} {k : Kind} (h : PKind env k)
    (hf : ∀ f args, k = .map f args → f < fnPerKey) : XKind env k := by
  cases k <;> simp only [PKind] at h <;> try (first | exact h.elim | trivial | exact h)
  rename_i f args
  refine ⟨hf f args rfl, fun hz vals => ?_⟩
  rcases h with h | h | h | h
  · exact h.2 vals
  · subst h; exact absurd hz (by decide)
  · subst h; exact absurd hz (by decide)
  · have := hf f args rfl; omega

/-- a successful `recomputeOne` of a node that is neither a change detector nor an expert node -/
theorem SF.of_run {env : Env} {fuel n : Nat} {s s' : State} {r : Option Nat} (fr : Fr s) (hlt : n < s.nodes.size)
    (hxk : XKind env (s.nodeD n).kind) (hne : ∀ e, (s.nodeD n).kind ≠ .expert e)
    (h : (recomputeOne env fuel n).run.run s = (.ok r, s')) :
    SF s s' ∧ ∃ w es, (maybeChangeValue env fuel n w).run.run (logged es (started n s)) = (.ok r, s') := by
  obtain ⟨w, es, hrun⟩ := recomputeOne_as_mcv_x fr hlt hxk hne h
  rw [hrun] at h
  refine ⟨⟨(xf_started_logged es n s).trans ((PresX.maybeChangeValue env fuel n w).h _ _ _ h),
    (DFX.started_logged es n s).trans (DFX.maybeChangeValue h), ?_⟩, w, es, h⟩
  have hk : Keeps State.perkeys (logged es (started n s)) s' := (KQ.maybeChangeValue env fuel n w).h _ _ _ h
  exact hk

/-! ## the kinds of `V` along the frame -/

theorem xRec_frame {s s' : State} (xf : XF s s') (e : Nat) :
    (xRec s'.experts e).pk = (xRec s.experts e).pk ∧ (xRec s'.experts e).children = (xRec s.experts e).children ∧
      (xRec s'.experts e).f = (xRec s.experts e).f ∧ (xRec s'.experts e).forceStale = (xRec s.experts e).forceStale := by
  cases he : s.experts[e]? with
  | none => rw [xRec_none he, xRec_none (xf.xnone he)]; exact ⟨rfl, rfl, rfl, rfl⟩
  | some er =>
    obtain ⟨er', he', h1, -, h3, h4, h5⟩ := xf.xrec he
    rw [xRec_some he, xRec_some he']; exact ⟨h4, h3, h1, h5⟩

theorem vKind_frame {s s' : State} (xf : XF s s') (hp : s'.perkeys = s.perkeys) (k : Kind) :
    vKind s' k = vKind s k := by
  cases k <;> try rfl
  rename_i e
  obtain ⟨h1, h2, h3, -⟩ := xRec_frame xf e
  simp only [vKind, pkRec, hp, h1, h2, h3]

theorem kidsX_frame {s s' : State} (xf : XF s s') (m : Nat) :
    kidsX s'.experts (s'.nodeD m).kind = kidsX s.experts (s.nodeD m).kind := by
  rw [xf.kind]
  cases (s.nodeD m).kind <;> try rfl
  rename_i e
  simp only [kidsX, (xRec_frame xf e).2.1]

theorem forced_frame {s s' : State} (xf : XF s s') (m : Nat) :
    ExpertH.forced s'.experts (s'.nodeD m).kind = ExpertH.forced s.experts (s.nodeD m).kind := by
  rw [xf.kind]
  cases (s.nodeD m).kind <;> try rfl
  rename_i e
  simp only [ExpertH.forced, (xRec_frame xf e).2.2.2]

theorem V_kind_frame {s s' : State} (f : SF s s') (m : Nat) : ((V s').nodeD m).kind = ((V s).nodeD m).kind := by
  rw [V_kind, V_kind, f.xf.kind, vKind_frame f.xf f.perkeys]

theorem below_frame {s s' : State} (xf : XF s s') {a d : Nat} (h : ExpertH.Below s a d) : ExpertH.Below s' a d := by
  induction h with
  | refl a => exact .refl a
  | step h1 _ ih => exact .step (by rw [kidsX_frame xf]; exact h1) ih

/-! ## shapes, read in the actual state -/

theorem shape_actualV {s s' : State} (hsh : ∀ m, SameShape ((V s).nodeD m) ((V s').nodeD m)) (m : Nat) :
    (s'.nodeD m).createdIn = (s.nodeD m).createdIn ∧ (s'.nodeD m).valid = (s.nodeD m).valid ∧
    (s'.nodeD m).cutoff = (s.nodeD m).cutoff ∧ (s'.nodeD m).height = (s.nodeD m).height ∧
    (s'.nodeD m).parents = (s.nodeD m).parents ∧ (s'.nodeD m).observers = (s.nodeD m).observers ∧
    (s'.nodeD m).forceNecessary = (s.nodeD m).forceNecessary := by
  have h := hsh m
  rw [V_nodeD, V_nodeD] at h
  exact ⟨h.createdIn, h.valid, h.cutoff, h.height, h.parents, h.observers, h.forceNecessary⟩

/-! ## the fragment along the frame -/

theorem PFrag.of_sf {env : Env} {s s' : State} (F : PFrag env s) (f : SF s s') (fr' : Fr s')
    (hsh : ∀ m, SameShape ((V s).nodeD m) ((V s').nodeD m)) : PFrag env s' where
  pc := fr'.pc
  kind m _ := by rw [f.kind]; exact F.kindD m
  valid m _ := fr'.valid m
  cutoff m hm := by rw [(shape_actualV hsh m).2.2.1]; exact F.cutoff m (by rw [← f.size]; exact hm)
  top m hm := by rw [(shape_actualV hsh m).1]; exact F.top m (by rw [← f.size]; exact hm)
  force m hm := by rw [(shape_actualV hsh m).2.2.2.2.2.2]; exact F.force m (by rw [← f.size]; exact hm)
  xrec m e hm hk := by
    rw [f.kind] at hk; rw [f.size] at hm
    obtain ⟨er, he, hnode⟩ := F.xrec m e hm hk
    obtain ⟨er', he', -, hn', -⟩ := f.xf.xrec he
    exact ⟨er', he', by rw [hn', hnode]⟩
  xnode e er' he' := by
    obtain ⟨er, he, -, hn, -⟩ := f.xf.xrec_back he'
    obtain ⟨h1, h2⟩ := F.xnode e er he
    rw [hn, f.size, f.kind]; exact ⟨h1, h2⟩
  xok e er' he' := by
    obtain ⟨er, he, hf, -, -, hpk, -⟩ := f.xf.xrec_back he'
    obtain ⟨h1, -, h3⟩ := F.xok e er he
    exact ⟨by rw [hpk]; exact h1, fr'.ni e er' he', by rw [hf]; exact h3⟩
  scope := by rw [f.scope]; exact F.scope

/-! ## `eKey`, `dnKey` along the frames -/

theorem eKey_of_sf {s s' : State} (f : SF s s') (hvars : s'.vars = s.vars) (hstab : s'.stabNum = s.stabNum)
    (hq : s'.rch.queues.size = s.rch.queues.size) (hpc : s'.panicCountdown = s.panicCountdown)
    (hh : ∀ m, (s.nodeD m).numOnUpdateHandlers ≤ 0) : eKey s' = eKey s := by
  have hk := f.df.keyD
  simp only [KeyD, stateKeyD, Prod.mk.injEq] at hk
  obtain ⟨k1, k2, k3, k4, -, k6, k7, k8, -, -, -⟩ := hk
  have hc := f.df.calm
  simp only [eKey, Prod.mk.injEq]
  exact ⟨hvars, k8, hstab, hc.status, f.df.cfg, k3, k1, hc.newObservers, hc.disallowedObservers, k2,
    hc.setDuringStab, hc.deadVars, hc.has hh, k7, k4, k6, hq, hpc⟩

theorem dnKey_of_sf {s s' : State} (f : SF s s') (hsh : ∀ m, SameShape ((V s).nodeD m) ((V s').nodeD m)) (m : Nat) :
    dnKey (s'.nodeD m) = dnKey (s.nodeD m) := by
  obtain ⟨h1, h2, h3, -, -, h6, h7⟩ := shape_actualV hsh m
  simp only [dnKey, Prod.mk.injEq]
  exact ⟨f.kind m, h1, h3, h2, h6, h7, f.df.calm.num m⟩

/-! ## `rchRemoveMin` on `V` -/

theorem V_cfg (s : State) : (V s).cfg = s.cfg := rfl

theorem map_modify_comm {α β} (a : Array α) (i : Nat) (f : α → α) (f' : β → β) (g : α → β)
    (h : ∀ x, g (f x) = f' (g x)) : (a.modify i f).map g = (a.map g).modify i f' := by
  apply Array.ext_getElem?
  intro j
  simp only [Array.getElem?_map, Array.getElem?_modify]
  split
  · cases a[j]? <;> simp [h]
  · rfl

/-- popping the heap commutes with `V` -/
theorem V_pop (s : State) (rch : Heap) (n : Nat) :
    V { s with rch := rch, nodes := s.nodes.modify n fun x => { x with heightInRch := -1 } } =
      { V s with rch := rch, nodes := (V s).nodes.modify n fun x => { x with heightInRch := -1 } } := by
  have hm := map_modify_comm s.nodes n (fun x : Node => { x with heightInRch := -1 })
    (fun x : Node => { x with heightInRch := -1 }) (vNode s) (fun x => rfl)
  exact congrArg (fun nodes => ({ V s with rch := rch, nodes := nodes } : State)) hm

theorem pop_congr {s t : State} (hr : t.rch = s.rch) (hc : t.cfg = s.cfg) {n : Nat} {s1 : State}
    (h : rchRemoveMin.run.run s = (.ok (some n), s1)) :
    rchRemoveMin.run.run t =
      (.ok (some n), { t with rch := s1.rch, nodes := t.nodes.modify n fun x => { x with heightInRch := -1 } }) := by
  simp only [rchRemoveMin, run_bind, run_get, run_ite, run_pure, run_dassert] at h ⊢
  rw [hr, hc]
  by_cases he : (s.rch.length == 0) = true
  · rw [if_pos he] at h; cases h
  rw [if_neg he] at h ⊢
  by_cases hd : s.cfg.debug = true ∧ decide (s.rch.lowerBound ≥ 0) = false
  · rw [if_pos hd] at h; cases h
  rw [if_neg hd] at h ⊢
  simp only at h ⊢
  generalize firstNonEmpty s.rch.queues (s.rch.queues.size + 1) s.rch.lowerBound.toNat = F at h ⊢
  cases hq : s.rch.queues[F]? with
  | none =>
    rw [hq] at h
    simp only [run_bind, run_dassert, run_modify, run_pure] at h
    split at h <;> cases h
  | some q =>
    rw [hq] at h
    cases q with
    | nil => cases h
    | cons x xs =>
      simp only [run_bind, run_modify, run_modNode, run_pure] at h ⊢
      cases h
      simp only [hr, hc]

theorem pop_run_V {s s1 : State} {n : Nat} (hi : HeapInv s)
    (h : rchRemoveMin.run.run s = (.ok (some n), s1)) : rchRemoveMin.run.run (V s) = (.ok (some n), V s1) := by
  obtain ⟨-, -, -, hs1, -⟩ := rchRemoveMin_inv hi h
  rw [pop_congr (s := s) (t := V s) rfl rfl h, congrArg V hs1, V_pop]

end IncrVerif.Proofs.PerKeyH
