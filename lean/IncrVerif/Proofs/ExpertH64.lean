import IncrVerif.Proofs.ExpertH63
/-!
# Expert nodes, E2: `add_dependency` keeps `SlotInv`

After the bookkeeping (`addedState`: new edge, fresh dependency name, `forceStale`) `SlotInv` holds but for the `Good`
obligation of the new edge, which matters only when the record's flag is down (then the node is necessary), the edge has
a callback and the child has a value `v`: in that case the TAIL of the top-level
`add_parent_without_adjusting_heights c k n` runs the callback of edge `k`, which stores `v`.
-/
namespace IncrVerif.Proofs.ExpertH
open IncrVerif.Engine IncrVerif.Driver IncrVerif.Proofs IncrVerif.Proofs.Step IncrVerif.Proofs.Sched
open IncrVerif.Proofs.ExpertH.QR IncrVerif.Proofs.Xp

theorem isStale_of_forceStale {s : State} {n e : Nat} {er : ExpertRec} (hk : (s.nodeD n).kind = .expert e)
    (hv : (s.nodeD n).valid = true) (he : s.experts[e]? = some er) (hf : er.forceStale = true) :
    s.isStale n = true := by
  unfold State.isStale
  have : (s.nodeD n).kind? = some (.expert e) := by simp [Node.kind?, hv, hk]
  simp only [this, he, hf, Bool.true_or]

/-- the exempted obligations are either never required or hold -/
theorem SlotInvEx.close {env : Env} {t : State} {X : Nat → Nat → Prop} (L : SlotInvEx env t X)
    (h : ∀ (n e : Nat) (er : ExpertRec), (t.nodeD n).kind = .expert e → t.experts[e]? = some er →
      (er.willFireAllCallbacks = false ∨ t.isStale n = false) → ∀ ed, ed ∈ er.children → ed.cb.isSome = true →
      X e ed.dep → List.lookup ed.dep er.slots = t.value env ed.child) : SlotInv env t := by
  refine ⟨L.deps, L.flag, fun n e er hk he hpre ed hed hcb => ?_⟩
  by_cases hX : X e ed.dep
  · exact h n e er hk he hpre ed hed hcb hX
  · exact L.good n e er hk he hpre ed hed hcb hX

section added
variable {env : Env} {s : State} {n e c : Nat} {er : ExpertRec} {cb : Bool}

theorem addedState_value (m : Nat) : (addedState e er c cb s).value env m = s.value env m :=
  value_congr env s (addedState e er c cb s) rfl (fun _ => rfl) m

/-- **after the bookkeeping of `add_dependency`**: `SlotInv` but for the new edge -/
theorem slotInvEx_added (L : SlotInv env s) (hv : ∀ m, (s.nodeD m).valid = true) (hx : s.experts[e]? = some er) :
    SlotInvEx env (addedState e er c cb s) (fun e' d => e' = e ∧ d = s.nextDep) := by
  have hnd : (addedState e er c cb s).nextDep = s.nextDep + 1 := rfl
  obtain ⟨d1, d2, d3⟩ := L.deps e er hx
  refine ⟨fun e' er' he' => ?_, fun n' e' er' hk he' hw => ?_, fun n' e' er' hk he' hpre => ?_⟩
  · rw [hnd]
    by_cases h : e' = e
    · subst h
      rw [addedState_get hx] at he'; cases he'
      refine ⟨?_, fun ed hed => ?_, fun p hp => Nat.lt_succ_of_lt (d3 p hp)⟩
      · simp only [List.map_append, List.map_cons, List.map_nil]
        rw [List.nodup_append]
        refine ⟨d1, List.nodup_cons.2 ⟨by simp, List.nodup_nil⟩, fun a ha b hb => ?_⟩
        obtain ⟨ed, hed, rfl⟩ := List.mem_map.1 ha
        rw [List.mem_singleton] at hb
        have := d2 ed hed
        rw [hb]; simp only [newEdge]; omega
      · rcases List.mem_append.1 hed with h | h
        · exact Nat.lt_succ_of_lt (d2 ed h)
        · rw [List.mem_singleton] at h; rw [h]; simp [newEdge]
    · rw [addedState_get_ne h] at he'
      obtain ⟨e1, e2, e3⟩ := L.deps e' er' he'
      exact ⟨e1, fun ed hed => Nat.lt_succ_of_lt (e2 ed hed), fun p hp => Nat.lt_succ_of_lt (e3 p hp)⟩
  · by_cases h : e' = e
    · subst h
      rw [addedState_get hx] at he'; cases he'
      exact L.flag n' e' er hk hx hw
    · rw [addedState_get_ne h] at he'
      exact L.flag n' e' er' hk he' hw
  · by_cases h : e' = e
    · subst h
      rw [addedState_get hx] at he'; cases he'
      have hst : (addedState e' er c cb s).isStale n' = true :=
        isStale_of_forceStale (s := addedState e' er c cb s) hk (hv n') (addedState_get hx) rfl
      have hw : er.willFireAllCallbacks = false := by
        rcases hpre with h | h
        · exact h
        · rw [hst] at h; cases h
      have G := L.good n' e' er hk hx (Or.inl hw)
      intro ed hed hcb hX
      rcases List.mem_append.1 hed with h | h
      · rw [addedState_value]; exact G ed h hcb
      · rw [List.mem_singleton] at h
        exact absurd ⟨rfl, by rw [h]; rfl⟩ hX
    · rw [addedState_get_ne h] at he'
      have hst : (addedState e er c cb s).isStale n' = s.isStale n' :=
        isStale_expert_congr (s := s) (s' := addedState e er c cb s) (fun _ => rfl) hk he'
          (by rw [addedState_get_ne h]; exact he') rfl rfl
      rw [hst] at hpre
      intro ed hed hcb _
      rw [addedState_value]; exact L.good n' e' er' hk he' hpre ed hed hcb

/-- the new edge needs no callback run: `SlotInv` holds right after the bookkeeping -/
theorem slotInv_added (L : SlotInv env s) (hv : ∀ m, (s.nodeD m).valid = true) (hx : s.experts[e]? = some er)
    (hcond : er.willFireAllCallbacks = false → cb = true → s.value env c = none) :
    SlotInv env (addedState e er c cb s) := by
  refine (slotInvEx_added (c := c) (cb := cb) L hv hx).close ?_
  intro n' e' er' hk he' hpre ed hed hcb hX
  obtain ⟨rfl, hd⟩ := hX
  rw [addedState_get hx] at he'; cases he'
  have hst : (addedState e' er c cb s).isStale n' = true :=
    isStale_of_forceStale (s := addedState e' er c cb s) hk (hv n') (addedState_get hx) rfl
  have hw : er.willFireAllCallbacks = false := by
    rcases hpre with h | h
    · exact h
    · rw [hst] at h; cases h
  obtain ⟨-, d2, d3⟩ := L.deps e' er hx
  have hed' : ed = newEdge s c cb := by
    rcases List.mem_append.1 hed with h | h
    · have := d2 ed h; omega
    · exact List.mem_singleton.1 h
  have hcb' : cb = true := by
    rw [hed'] at hcb; cases cb
    · simp [newEdge] at hcb
    · rfl
  rw [addedState_value, hed']
  show List.lookup s.nextDep er.slots = s.value env c
  rw [hcond hw hcb']
  exact lookup_none_of_keys _ _ fun p hp => Nat.ne_of_lt (d3 p hp)

end added

/-! ## the top-level link of the new edge -/

/-- the prefix of `add_parent_without_adjusting_heights` (all but the edge callback of the parent) keeps both frames -/
theorem addParentWAH_peel {env : Env} {fuel c i p : Nat} {s s' : State}
    (hv : ∀ m, (s.nodeD m).valid = true) (hmr : ∀ m q j, (s.nodeD m).kind ≠ .mapRef q j)
    (h : (addParentWithoutAdjustingHeights env (fuel+1) c i p).run.run s = (.ok (), s')) :
    ∃ t pn, SR env s t ∧ FM s t ∧ t.nodes[p]? = some pn ∧
      ∀ e, pn.kind? = some (.expert e) → (runEdgeCallback env e i).run.run t = (.ok (), s') := by
  unfold addParentWithoutAdjustingHeights at h
  rw [run_bind_get] at h
  replace h := bind_dassert_inv h
  rw [run_bind_get] at h
  dsimp only at h
  obtain ⟨_, t1, hap, h⟩ := bind_ok_inv h
  have R1 : SR env s t1 := (PresR.addParent c i p).h _ _ _ hap
  have M1 : FM s t1 := (PresM.addParent c i p).h _ _ _ hap
  obtain ⟨cn, hcn, h⟩ := bind_getNode_inv h
  have hcv : cn.valid = true := by rw [← nodeD_of_some hcn, R1.valid]; exact hv c
  simp only [hcv, Bool.not_true, Bool.false_eq_true, if_false] at h
  have fin : ∀ t, SR env s t → FM s t → (do
      let pn ← getNode p
      match pn.kind? with
        | some (Kind.expert e) => runEdgeCallback env e i
        | _ => pure () : M Unit).run.run t = (.ok (), s') →
      ∃ t pn, SR env s t ∧ FM s t ∧ t.nodes[p]? = some pn ∧
        ∀ e, pn.kind? = some (.expert e) → (runEdgeCallback env e i).run.run t = (.ok (), s') := by
    intro t R M ht
    obtain ⟨pn, hpn, ht⟩ := bind_getNode_inv ht
    refine ⟨t, pn, R, M, hpn, fun e hk => ?_⟩
    rw [hk] at ht; exact ht
  cases hwas : s.isNecessary c with
  | false =>
    simp only [hwas, Bool.not_false, if_true] at h
    obtain ⟨_, t2, hbn, h⟩ := bind_ok_inv h
    exact fin t2 (R1.trans ((PresR.becameNecessary env fuel c).h _ _ _ hbn))
      (M1.trans ((PresM.becameNecessary env fuel c).h _ _ _ hbn)) h
  | true =>
    simp only [hwas, Bool.not_true, Bool.false_eq_true, if_false] at h
    obtain ⟨cn2, hcn2, h⟩ := bind_getNode_inv h
    have hk2 : ∀ q j, cn2.kind? ≠ some (.mapRef q j) := by
      intro q j hq
      have : cn2.kind = .mapRef q j := by
        unfold Node.kind? at hq; split at hq
        · exact Option.some.inj hq
        · cases hq
      rw [← nodeD_of_some hcn2, R1.kind] at this
      exact hmr c q j this
    split at h
    · rename_i heq; exact absurd heq (hk2 _ _)
    · exact fin t1 R1 M1 h

/-- a callback that does run: the final state -/
theorem runEdgeCallback_ok_inv {env : Env} {e i : Nat} {t t' : State} {er : ExpertRec} {edge : ExpertEdge} {v : Val}
    (he : t.experts[e]? = some er) (hw : er.willFireAllCallbacks = false) (hi : er.children[i]? = some edge)
    (hcb : edge.cb.isSome = true) (hv : t.value env edge.child = some v)
    (h : (runEdgeCallback env e i).run.run t = (.ok (), t')) :
    ∃ t1, SameX t t1 ∧ t'.nodes = t1.nodes ∧
      t'.experts = (t1.experts.modify e fun x =>
        { x with slots := (edge.dep, v) :: x.slots.filter (·.1 != edge.dep) }) ∧
      t'.nextDep = t1.nextDep ∧ t'.propagateInvalidity = t1.propagateInvalidity := by
  rw [runEdgeCallback_run env i he, hw] at h
  simp only [Bool.false_eq_true, if_false, hi] at h
  unfold Engine.edgeOnChange at h
  cases hc : edge.cb with
  | none => rw [hc] at hcb; cases hcb
  | some c0 =>
    rw [hc] at h
    simp only [run_bind_get, hv] at h
    rw [run_bind_ok (run_getExpert_some he)] at h
    cases hpk : er.pk.isNone with
    | false =>
      rw [hpk] at h
      simp only [Bool.false_eq_true, if_false, run_modExpert] at h
      cases h
      exact ⟨t, ⟨rfl, rfl, rfl, rfl⟩, rfl, rfl, rfl, rfl⟩
    | true =>
      rw [hpk] at h
      simp only [if_true] at h
      obtain ⟨_, t1, htick, h⟩ := bind_ok_inv h
      have E := PresSame.tick.h _ _ _ htick
      simp only [run_bind, run_logEv, run_modExpert] at h
      cases h
      exact ⟨{ t1 with log := _ }, E, rfl, rfl, rfl, rfl⟩

/-- **the callback of the new edge re-establishes `Good`** -/
theorem deliver_closes {env : Env} {t t1 t' : State} {e dnew : Nat} {er : ExpertRec} {edge : ExpertEdge} {v : Val}
    (L : SlotInvEx env t (fun e' d => e' = e ∧ d = dnew))
    (he : t.experts[e]? = some er) (hw : er.willFireAllCallbacks = false) (hed : edge ∈ er.children)
    (hd : edge.dep = dnew) (hv : t.value env edge.child = some v) (E : SameX t t1) (g1 : t'.nodes = t1.nodes)
    (g2 : t'.experts = t1.experts.modify e fun x =>
      { x with slots := (edge.dep, v) :: x.slots.filter (·.1 != edge.dep) })
    (g3 : t'.nextDep = t1.nextDep) (g4 : t'.propagateInvalidity = t1.propagateInvalidity) : SlotInv env t' := by
  have R : SR env t t' := SR.deliver he hw hed hv E g1 g2 g3
  have hn : ∀ m, t'.nodeD m = t.nodeD m := fun m => by simp [State.nodeD, g1, E.1]
  have M : FM t t' := by
    refine ⟨fun m => by rw [hn], fun m => by rw [hn], fun j => ?_,
      fun m h => by simp only [State.isNecessary, hn]; exact h, fun _ => by rw [g4, E.2.2.2]⟩
    rw [g2, E.2.1, Array.getElem?_modify]
    split
    · cases t.experts[j]? <;> rfl
    · rfl
  have L' := slotInvEx_of_sr_fm L R M
  refine L'.close ?_
  intro n' e' er' hk he' hpre ed hed' hcb hX
  obtain ⟨rfl, hdd⟩ := hX
  have her' : er' = { er with slots := (edge.dep, v) :: er.slots.filter (·.1 != edge.dep) } := by
    rw [g2, E.2.1, Array.getElem?_modify, if_pos rfl, he] at he'
    simp only [Option.map_some, Option.some.injEq] at he'
    exact he'.symm
  have hch : er'.children = er.children := by rw [her']
  have : ed = edge := by
    refine eq_of_nodup_map (·.dep) (L'.deps e' er' he').1 hed' (by rw [hch]; exact hed) ?_
    show ed.dep = edge.dep
    rw [hdd, hd]
  rw [this, R.value, hv, her']
  simp

/-! ## `add_dependency` -/

macro_rules | `(tactic| qleaf) => `(tactic| with_reducible apply PresC.stateAddParent)

theorem expertAddDependency_slots {env : Env} {s s' : State} {fuel n c e dep : Nat} {cb : Bool} {er : ExpertRec}
    (F : XFrag env s) (hp : s.propagateInvalidity = []) (L : SlotInv env s)
    (hk : (s.nodeD n).kind = .expert e) (hx : s.experts[e]? = some er)
    (h : (expertAddDependency env (fuel+1) n c cb).run.run s = (.ok dep, s')) : SlotInv env s' := by
  have hlt := F.lt_of_expert hk
  have hX : IsExpert s n (s.nodeD n) e er := ⟨some_of_lt hlt, F.valid n hlt, hk, hx⟩
  have hv : ∀ m, (s.nodeD m).valid = true := F.validD
  cases hnec : (s.nodeD n).isNecessary with
  | false =>
    rw [expertAddDependency_unnecessary env (fuel+1) n c cb hX hnec] at h
    cases h
    refine slotInv_added L hv hx fun hw _ => ?_
    have := L.flag n e er hk hx hw
    simp only [State.isNecessary, hnec] at this
    cases this
  | true =>
    rw [expertAddDependency_necessary_factor env (fuel+1) n c cb hX hnec] at h
    have hv2 : ∀ m, ((addedState e er c cb s).nodeD m).valid = true := hv
    have hp2 : (addedState e er c cb s).propagateInvalidity = [] := hp
    by_cases hcond : er.willFireAllCallbacks = false → cb = true → s.value env c = none
    · -- no callback needed
      have L2 := slotInv_added (c := c) (cb := cb) L hv hx hcond
      have key : CR env (addedState e er c cb s) s' := by
        refine Step.Pres.h (m := _) ?_ _ _ _ h
        qpres
      exact slotInv_of_cr L2 hv2 hp2 key
    · -- the callback of the new edge stores the child's value
      have hw : er.willFireAllCallbacks = false := by
        cases hh : er.willFireAllCallbacks with
        | false => rfl
        | true => exact absurd (fun h' => by rw [hh] at h'; cases h') hcond
      have hcb : cb = true := by
        cases cb with
        | true => rfl
        | false => exact absurd (fun _ h' => by cases h') hcond
      obtain ⟨v, hval⟩ : ∃ v, s.value env c = some v := by
        cases hh : s.value env c with
        | some v => exact ⟨v, rfl⟩
        | none => exact absurd (fun _ _ => rfl) (by rw [hh] at hcond; exact hcond)
      subst hcb
      have L2 := slotInvEx_added (c := c) (cb := true) L hv hx
      generalize hs2 : addedState e er c true s = s2 at h L2 hv2 hp2
      have hx2 : s2.experts[e]? = some { er with children := er.children ++ [newEdge s c true], forceStale := true } := by
        rw [← hs2]; exact addedState_get hx
      have hmr2 : ∀ m q j, (s2.nodeD m).kind ≠ .mapRef q j := by
        intro m q j; rw [← hs2]; exact F.noMapRef m q j
      obtain ⟨_, s5, hsap, h⟩ := bind_ok_inv h
      unfold stateAddParent at hsap
      rw [run_bind_get] at hsap
      replace hsap := bind_dassert_inv hsap
      obtain ⟨_, s3, hap, hsap⟩ := bind_ok_inv hsap
      -- the link, up to the callback
      obtain ⟨t, pn, R, M, hpn, htail⟩ := addParentWAH_peel hv2 hmr2 hap
      have hpk : pn.kind? = some (.expert e) := by
        have h1 : pn.kind = .expert e := by
          rw [← nodeD_of_some hpn, R.kind, ← hs2]; exact hk
        have h2 : pn.valid = true := by rw [← nodeD_of_some hpn, R.valid]; exact hv2 n
        simp [Node.kind?, h1, h2]
      have htail := htail e hpk
      obtain ⟨ert, het, hc, -, -, -, -⟩ := R.fwd hx2
      have hwt : ert.willFireAllCallbacks = false := by
        obtain ⟨er0, he0, hww⟩ := M.flag_back het
        rw [hx2] at he0; cases he0
        rw [← hww]; exact hw
      have hit : ert.children[er.children.length]? = some (newEdge s c true) := by
        rw [hc]; simp
      have hvt : t.value env c = some v := by
        rw [R.value, ← hs2, addedState_value]; exact hval
      obtain ⟨t1, E, g1, g2, g3, g4⟩ := runEdgeCallback_ok_inv het hwt hit rfl hvt htail
      have Lt := slotInvEx_of_sr_fm L2 R M
      have L3 : SlotInv env s3 :=
        deliver_closes Lt het hwt (List.mem_of_getElem? hit) rfl hvt E g1 g2 g3 g4
      -- the rest of the call
      have hv3 : ∀ m, (s3.nodeD m).valid = true := by
        intro m
        have : s3.nodeD m = t.nodeD m := by simp [State.nodeD, g1, E.1]
        rw [this, R.valid]; exact hv2 m
      have hp3 : s3.propagateInvalidity = [] := by rw [g4, E.2.2.2, M.pinv hv2]; exact hp2
      have key1 : CR env s3 s5 := by
        refine Step.Pres.h (m := _) ?_ _ _ _ hsap
        qpres
      have L5 := slotInv_of_cr L3 hv3 hp3 key1
      obtain ⟨r5, m5⟩ := key1 hv3 hp3
      have key2 : CR env s5 s' := by
        refine Step.Pres.h (m := _) ?_ _ _ _ h
        qpres
      exact slotInv_of_cr L5 (r5.allValid hv3) (by rw [m5.pinv hv3]; exact hp3) key2

/-- **`addDep` keeps `SlotInv`** -/
theorem addDep_slots {env : Env} {rk : Nat → Nat} {s s' : State} {eo co : Opnd} {cb : Bool} {tk : Array Nat}
    {r : String × Array Nat} (Q : QInvX env rk s) (L : SlotInv env s) (hok : AddDepOK s eo co)
    (h : (stepAction env (.addDep eo co cb) tk).run.run s = (.ok r, s')) : SlotInv env s' := by
  cases eo <;> try exact hok.elim
  rename_i kn
  cases co <;> try exact hok.elim
  rename_i kc
  unfold stepAction at h
  dsimp only at h
  obtain ⟨n, s1, h1, h⟩ := bind_ok_inv h
  obtain ⟨e1, hn⟩ := resolve_outer_inv h1
  rw [e1] at h
  obtain ⟨c, s2, h2, h⟩ := bind_ok_inv h
  obtain ⟨e2, hcc⟩ := resolve_outer_inv h2
  rw [e2] at h
  obtain ⟨dep, s3, h3, h⟩ := bind_ok_inv h
  obtain ⟨-, e3⟩ := pure_ok_inv h
  rw [← e3] at h3
  obtain ⟨⟨e, hk⟩, -⟩ := hok n c hn hcc
  obtain ⟨er, hx, -⟩ := Q.frag.xrec n e (Q.frag.lt_of_expert hk) hk
  exact expertAddDependency_slots Q.frag Q.pinv L hk hx h3

end IncrVerif.Proofs.ExpertH
