import IncrVerif.Proofs.PerKeyH2
/-!
# Per-key operators over whole histories, part 2: templates, the bookkeeping invariant, the drain invariant, contracts

* `TInstrOK`, `TemplOK`: the per-key families of the fragment — templates of PURE STATIC nodes (`const`, `lhsConst` = the key,
  pure `map`, non-empty `fold`) over the per-key input node `%0`, earlier locals `%j` and top-level nodes `n<k>` OLDER than
  the operator; the template returns a local or such an outer node.
* `instrKind`, `Inst`: the instance of a template for one key.
* `OpOK env s op`: the bookkeeping of operator instance `op` — its four nodes, its result record, `prevNodes` ↔ the
  dependencies of the result record ↔ the per-key input nodes and template instances, `prevMap` ↔ `prevNodes`, and the
  SEMANTIC link "the change detector is not stale ⟹ `prevMap` is the current input map".  Stage 1b: ANY template of pure
  static nodes (also one that ignores `%0`: `EntryOK.input` is "used by the instance, or never computed"), `cut ∈ {none, eq}`.
* `Pot s ψ`: a potential that excludes cycles through result nodes.
* `AuxP`, `PD`: the auxiliary invariant and the drain invariant; `PQ`: the invariant between API actions.
-/
namespace IncrVerif.Proofs.PerKeyH
open IncrVerif.Engine IncrVerif.Driver IncrVerif.Proofs IncrVerif.Proofs.Step IncrVerif.Proofs.Sched
open IncrVerif.Proofs.ExpertH IncrVerif.Proofs.EffH

/-! ## templates -/

/-- operand resolution against the locals `loc` and the naming table `top` (what `resolveOpnd` does for `.loc`/`.outer`) -/
def resP (top : Array Nat) (loc : List Nat) : Opnd → Option Nat
  | .outer k => top[k]?
  | .loc j => loc[j]?
  | _ => none

/-- the kind of the node a template instruction of the fragment creates (`lhsVal` = `.int key`) -/
def instrKind (top : Array Nat) (loc : List Nat) (lhsVal : Val) : Instr → Option Kind
  | .const v => some (.const v)
  | .lhsConst => some (.const lhsVal)
  | .map f args => (args.mapM (resP top loc)).map (Kind.map f)
  | .fold f init cs => if cs.isEmpty then none else (cs.mapM (resP top loc)).map (Kind.fold f init)
  | _ => none

def TInstrOK (env : Env) : Instr → Prop
  | .const _ => True
  | .lhsConst => True
  | .map f _ => f < fnZip ∧ ∀ vals, env.fnEff f vals = []
  | .fold f _ cs => f < xBase ∧ cs ≠ []
  | _ => False

/-- operands of the `j`-th instruction: locals `%i` with `i ≤ j` (`%0` = the per-key input node), outer names -/
def OpndOK (j : Nat) : Opnd → Prop
  | .outer _ => True
  | .loc i => i ≤ j
  | _ => False

def instrOpnds : Instr → List Opnd
  | .map _ args => args
  | .fold _ _ cs => cs
  | _ => []

/-- the operands the returned node depends on (`.loc (j+1)` is the node created by instruction `j`; `.loc 0` the input) -/
inductive Uses (t : Template) : Opnd → Prop
  | ret : Uses t t.ret
  | step {j : Nat} {i : Instr} {o : Opnd} : Uses t (.loc (j + 1)) → t.instrs[j]? = some i → o ∈ instrOpnds i → Uses t o

/-- the returned node depends on the per-key input node (families P0, P3, P4; NOT P1 `map f1 n2 ; ret %1`, P2 `ret n2`).
Not a condition of the fragment: a case distinction of the proofs. -/
def UsesInput (t : Template) : Prop := Uses t (.loc 0)

structure TemplOK (env : Env) (t : Template) : Prop where
  instr : ∀ i, i ∈ t.instrs → TInstrOK env i
  opnd : ∀ j i, t.instrs[j]? = some i → ∀ o, o ∈ instrOpnds i → OpndOK j o
  ret : OpndOK t.instrs.length t.ret

/-- the outer names a template uses -/
def templOuter (t : Template) : List Nat :=
  (t.ret :: t.instrs.flatMap instrOpnds).filterMap fun o => match o with | .outer k => some k | _ => none

/-- `locs` are the nodes of the instance of template `t` for `key` over the per-key input node `p`; `m` is what the
instance returns -/
structure Inst (s : State) (t : Template) (key : Int) (p : Nat) (locs : List Nat) (m : Nat) : Prop where
  len : locs.length = t.instrs.length
  lt : ∀ c, c ∈ locs → c < s.nodes.size
  kind : ∀ j i c, t.instrs[j]? = some i → locs[j]? = some c →
    instrKind s.top (p :: locs.take j) (.int key) i = some (s.nodeD c).kind
  ret : resP s.top (p :: locs) t.ret = some m

/-- the virtual stamp is `-1`: the record is flagged stale, or the node has never been computed -/
theorem V_stamp_iff (s : State) (m : Nat) : ((V s).nodeD m).recomputedAt = -1 ↔
    (forced s.experts (s.nodeD m).kind = true ∨ (s.nodeD m).recomputedAt = -1) := by
  have h : (V s).nodeD m = vNode s (s.nodeD m) := by
    unfold State.nodeD V
    simp only [Array.getElem?_map]
    cases h : s.nodes[m]? with
    | none => rfl
    | some nd => rfl
  rw [h]
  show (if forced s.experts (s.nodeD m).kind then (-1 : Int) else (s.nodeD m).recomputedAt) = -1 ↔ _
  cases forced s.experts (s.nodeD m).kind <;> simp

/-- the virtual stamp `-1` of an expert node is kept when its actual stamp is kept and a raised flag stays up -/
theorem V_stamp_keep {s s' : State} {m e : Nat} (hk : (s.nodeD m).kind = .expert e)
    (hk' : (s'.nodeD m).kind = (s.nodeD m).kind)
    (hr : (s'.nodeD m).recomputedAt = (s.nodeD m).recomputedAt)
    (hf : (xRec s.experts e).forceStale = true → (xRec s'.experts e).forceStale = true)
    (h : ((V s).nodeD m).recomputedAt = -1) : ((V s').nodeD m).recomputedAt = -1 := by
  rw [V_stamp_iff] at h ⊢
  rw [hk', hr, hk]
  rw [hk] at h
  exact h.imp hf id

/-! ## the bookkeeping of one operator instance -/

/-- the four nodes of an operator instance whose result is node `res`: conversion `res - 1`, change detector `res + 1`,
output conversion `res + 2` -/
structure OpNodes (s : State) (op : Nat) (pr : PerKeyRec) (x : Nat) (e : Nat) : Prop where
  pos : 1 ≤ pr.result
  lc : pr.lhsChange = pr.result + 1
  lt : pr.result + 2 < s.nodes.size
  conv : (s.nodeD (pr.result - 1)).kind = .map fnIdent [x]
  xlt : x < pr.result - 1
  /-- the input is a variable node -/
  xvar : ∃ c, (s.nodeD x).kind = .var c
  result : (s.nodeD pr.result).kind = .expert e
  lcKind : (s.nodeD (pr.result + 1)).kind = .map (fnPerKey + op) [pr.result - 1]
  out : (s.nodeD (pr.result + 2)).kind = .map fnIdent [pr.result]

/-- one entry `(key, (p, d))` of `prevNodes`: the per-key input node `p` and the dependency `d` of the result on the
instance's return node -/
structure EntryOK (env : Env) (s : State) (op : Nat) (pr : PerKeyRec) (er : ExpertRec) (key : Int) (p d : Nat) : Prop where
  plt : p < s.nodes.size
  /-- the per-key input node: an expert node whose record is marked `(op, some key)` and depends on the change detector only -/
  pnode : ∃ ep erp d0, (s.nodeD p).kind = .expert ep ∧ s.experts[ep]? = some erp ∧ erp.pk = some (op, some key) ∧
    erp.children = [{ dep := d0, child := pr.lhsChange, cb := none }]
  /-- the dependency of the result: an edge with a callback on the return node of an instance of the template -/
  edge : ∃ ed locs, ed ∈ er.children ∧ ed.dep = d ∧ ed.cb = some d ∧
    Inst s (env.perKey pr.fam) key p locs ed.child ∧ (∀ c, c ∈ locs → pr.result + 2 < c) ∧ pr.result + 2 < p
  /-- the per-key input node is used by its instance — then it is necessary (hence alive) whenever the result is — or it
  has never been computed (families that ignore their input): its VIRTUAL stamp is `-1` (the actual stamp is `-1`, or the
  record is flagged `forceStale`, which is how the node is created) -/
  input : (∃ ed, ed ∈ er.children ∧ ed.dep = d ∧ ExpertH.Below s ed.child p) ∨ ((V s).nodeD p).recomputedAt = -1
  /-- the instance consists of the nodes created right after the per-key input node -/
  consec : ∃ ed, ed ∈ er.children ∧ ed.dep = d ∧
    Inst s (env.perKey pr.fam) key p (List.range' (p + 1) (env.perKey pr.fam).instrs.length) ed.child ∧
    p + (env.perKey pr.fam).instrs.length < s.nodes.size

/-- the PRIVATE nodes of an operator instance: its change detector, its per-key input nodes and their template instances
(the `instrs.length` nodes created right after the per-key input node) -/
def Priv (env : Env) (pr : PerKeyRec) (x : Nat) : Prop :=
  x = pr.lhsChange ∨ ∃ key p d, (key, (p, d)) ∈ pr.prevNodes ∧ p ≤ x ∧ x ≤ p + (env.perKey pr.fam).instrs.length

structure OpOK (env : Env) (s : State) (op : Nat) (pr : PerKeyRec) : Prop where
  cut : pr.cut = none ∨ pr.cut = some .eq
  /-- OWNERSHIP: a private node is a child only of the result or of private nodes; it has no observer and no name -/
  own : ∀ c x, c < s.nodes.size → x ∈ kidsX s.experts (s.nodeD c).kind → Priv env pr x → c = pr.result ∨ Priv env pr c
  noObs : ∀ x, Priv env pr x → (s.nodeD x).observers = []
  privTop : ∀ (k x : Nat), s.top[k]? = some x → ¬ Priv env pr x
  templ : TemplOK env (env.perKey pr.fam)
  nodes : ∃ x e er, OpNodes s op pr x e ∧ s.experts[e]? = some er ∧ er.pk = some (op, none) ∧
    /- the first dependency of the result is the change detector (no callback); the others are the entries -/
    (∃ d0 rest, er.children = { dep := d0, child := pr.lhsChange, cb := none } :: rest ∧
      (∀ ed, ed ∈ rest → ∃ key p, (key, (p, ed.dep)) ∈ pr.prevNodes) ∧
      (∀ key p d, (key, (p, d)) ∈ pr.prevNodes → d ≠ d0)) ∧
    (∀ key p d, (key, (p, d)) ∈ pr.prevNodes → EntryOK env s op pr er key p d) ∧
    /- the outer nodes the template uses exist and are OLDER than the operator -/
    (∀ k : Nat, k ∈ templOuter (env.perKey pr.fam) → ∃ o, s.top[k]? = some o ∧ o < pr.result - 1)
  keys : (pr.prevNodes.map (·.1)).Nodup
  deps : (pr.prevNodes.map (·.2.2)).Nodup
  /-- `prevMap` is a map, and (outside a run of the change detector) its keys are the keys of `prevNodes` -/
  sorted : IncrVerif.AMap.Sorted pr.prevMap
  dom : ∀ key, (pr.prevMap.lookup key).isSome = (pr.prevNodes.lookup key).isSome
  /-- the semantic link: a change detector that is not stale last ran on the current input -/
  input : s.isStale pr.lhsChange = false → (s.nodeD (pr.result - 1)).value = some (.map pr.prevMap)

/-- every per-key record belongs to an operator instance: a result record or an entry -/
def RecsOK (s : State) : Prop :=
  ∀ (e : Nat) (er : ExpertRec), s.experts[e]? = some er →
    ∃ op pr, s.perkeys[op]? = some pr ∧
      ((er.pk = some (op, none) ∧ er.node = pr.result) ∨
       (∃ key d, er.pk = some (op, some key) ∧ (key, (er.node, d)) ∈ pr.prevNodes))

/-- a potential that does not increase along child edges, with the result of an operator strictly above its change
detector, its per-key nodes and everything older than the operator: no dependency of a result node can reach it -/
structure Pot (s : State) (ψ : Nat → Nat) : Prop where
  mono : ∀ n c, n < s.nodes.size → c ∈ kidsX s.experts (s.nodeD n).kind → ψ c ≤ ψ n
  /-- top-level nodes: twice the creation index -/
  top : ∀ (k n : Nat), s.top[k]? = some n → ψ n = 2 * n
  op : ∀ (op : Nat) (pr : PerKeyRec), s.perkeys[op]? = some pr → ψ pr.result = 2 * pr.lhsChange + 1 ∧ ψ pr.lhsChange = 2 * pr.lhsChange ∧
    ψ (pr.result - 1) = 2 * (pr.result - 1) ∧
    ∀ key p d, (key, (p, d)) ∈ pr.prevNodes → ψ p = 2 * pr.lhsChange
  /-- nothing is above its own potential bound -/
  le : ∀ n, n < s.nodes.size → ψ n ≤ 2 * n + 3

/-! ## invariants -/

/-- the bookkeeping of all operator instances -/
structure PKOK (env : Env) (s : State) : Prop where
  ops : ∀ (op : Nat) (pr : PerKeyRec), s.perkeys[op]? = some pr → OpOK env s op pr
  recs : RecsOK s
  pot : ∃ ψ, Pot s ψ
  /-- every change-detector node belongs to an operator instance -/
  lcs : ∀ n f args, n < s.nodes.size → (s.nodeD n).kind = .map f args → fnPerKey ≤ f →
    ∃ pr, s.perkeys[f - fnPerKey]? = some pr ∧ pr.lhsChange = n
  /-- observers watch named (top-level) nodes only -/
  obsTop : ∀ (o : Nat) (ob : ObsRec), s.observers[o]? = some ob → ∃ k : Nat, s.top[k]? = some ob.node
  /-- the input of an operator is a map (a variable holding canonical maps, through the conversion node) -/
  maps : ∀ (op : Nat) (pr : PerKeyRec), s.perkeys[op]? = some pr → ∀ v, (s.nodeD (pr.result - 1)).value = some v →
    ∃ m, v = .map m ∧ IncrVerif.AMap.Sorted m

/-- the auxiliary invariant of the drain (it accompanies `BindH.DInv (penv env) (V s) x`) -/
structure AuxP (env : Env) (s : State) : Prop where
  frag : PFrag env s
  ahh : QR.AhhEmpty s
  pinv : s.propagateInvalidity = []
  handlers : ∀ m, (s.nodeD m).numOnUpdateHandlers ≤ 0
  rank : ∃ rk, QR.AllStatic (penv env) rk (V s)
  nodup : ∀ c, (s.nodeD c).parents.Nodup
  vars : QR.VarsOK (V s)
  pk : PKOK env s
  slots : SlotInv env s
  /-- a listed observer is linked (in use or disallowed) and watches that node -/
  obs : ∀ m o, o ∈ (s.nodeD m).observers →
    ∃ ob, s.observers[o]? = some ob ∧ ob.node = m ∧ (ob.state = .inUse ∨ ob.state = .disallowed)
  /-- every named node exists -/
  named : ∀ (k x : Nat), s.top[k]? = some x → x < s.nodes.size

/-- **the drain invariant with per-key operators** -/
structure PD (env : Env) (s : State) (x : Option Nat) : Prop where
  inv : BindH.DInv (penv env) (V s) x
  aux : AuxP env s

end IncrVerif.Proofs.PerKeyH
