import IncrVerif.Proofs.PerKeyH111
/-! # Per-key operators, non-vacuity examples (continued): family `P4` (see `EX1.lean`) -/
namespace IncrVerif.Proofs.PerKeyH
open IncrVerif.Engine IncrVerif.Driver IncrVerif.Proofs IncrVerif.Proofs.ExpertH
open IncrVerif.Props.C14History IncrVerif.Proofs.ExpertH.QR

/-! ## `P4`: `F(k, v) = (1 + (1 + 3 v) mod 7) mod 7` (a chain of two maps per key) -/

set_option maxRecDepth 100000 in
/-- after each `stabilise` with an in-use observer (`o0`; after the re-observation `o1`): (the read, the input map, the outer variable) -/
theorem exP4_io :
    ioAfter exEnvP ((exHistP 4).take 6) 0 = some (.map [(1, 4), (5, 2)], some (.map [(1, 3), (5, 0)]), some (.int 2)) ∧
    ioAfter exEnvP ((exHistP 4).take 8) 0 = some (.map [(1, 4), (5, 2), (6, 1)], some (.map [(1, 3), (5, 0), (6, 2)]), some (.int 2)) ∧
    ioAfter exEnvP ((exHistP 4).take 10) 0 = some (.map [(1, 0), (5, 2), (6, 1)], some (.map [(1, 4), (5, 0), (6, 2)]), some (.int 2)) ∧
    ioAfter exEnvP ((exHistP 4).take 12) 0 = some (.map [(1, 0), (6, 1)], some (.map [(1, 4), (6, 2)]), some (.int 2)) ∧
    ioAfter exEnvP ((exHistP 4).take 14) 0 = some (.map [(1, 0), (6, 1)], some (.map [(1, 4), (6, 2)]), some (.int 4)) ∧
    ioAfter exEnvP ((exHistP 4).take 23) 1 = some (.map [(1, 3), (8, 4), (9, 2)], some (.map [(1, 5), (8, 3), (9, 0)]), some (.int 4)) ∧
    ioAfter exEnvP (exHistP 4) 1 = some (.map [(1, 6), (9, 2)], some (.map [(1, 6), (9, 0)]), some (.int 5)) :=
  ⟨by decide +kernel, by decide +kernel, by decide +kernel, by decide +kernel, by decide +kernel, by decide +kernel,
    by decide +kernel⟩

/-- the reads alone -/
theorem exP4_reads :
    readAfter exEnvP ((exHistP 4).take 6) 0 = some (.map [(1, 4), (5, 2)]) ∧
    readAfter exEnvP ((exHistP 4).take 8) 0 = some (.map [(1, 4), (5, 2), (6, 1)]) ∧
    readAfter exEnvP ((exHistP 4).take 10) 0 = some (.map [(1, 0), (5, 2), (6, 1)]) ∧
    readAfter exEnvP ((exHistP 4).take 12) 0 = some (.map [(1, 0), (6, 1)]) ∧
    readAfter exEnvP ((exHistP 4).take 14) 0 = some (.map [(1, 0), (6, 1)]) ∧
    readAfter exEnvP ((exHistP 4).take 23) 1 = some (.map [(1, 3), (8, 4), (9, 2)]) ∧
    readAfter exEnvP (exHistP 4) 1 = some (.map [(1, 6), (9, 2)]) := by
  obtain ⟨h1, h2, h3, h4, h5, h6, h7⟩ := exP4_io
  exact ⟨readAfter_of_io h1, readAfter_of_io h2, readAfter_of_io h3, readAfter_of_io h4, readAfter_of_io h5,
    readAfter_of_io h6, readAfter_of_io h7⟩

/-- `f1 (f3 v)` -/
def F4 (_k v : Int) : Int := (1 + (1 + 3 * v) % 7) % 7

/-- C16 on the example, with the function explicit: after each `stabilise` the in-use observer reads
`{k ↦ F(k, v) | (k, v) ∈ x}` for the current value of the input variable `x` (the input
values are those of `exP4_io`) -/
theorem exP4_spec :
    readAfter exEnvP ((exHistP 4).take 6) 0 = some (.map ([(1, 3), (5, 0)].map fun (k, v) => (k, F4 k v))) ∧
    readAfter exEnvP ((exHistP 4).take 8) 0 = some (.map ([(1, 3), (5, 0), (6, 2)].map fun (k, v) => (k, F4 k v))) ∧
    readAfter exEnvP ((exHistP 4).take 10) 0 = some (.map ([(1, 4), (5, 0), (6, 2)].map fun (k, v) => (k, F4 k v))) ∧
    readAfter exEnvP ((exHistP 4).take 12) 0 = some (.map ([(1, 4), (6, 2)].map fun (k, v) => (k, F4 k v))) ∧
    readAfter exEnvP ((exHistP 4).take 14) 0 = some (.map ([(1, 4), (6, 2)].map fun (k, v) => (k, F4 k v))) ∧
    readAfter exEnvP ((exHistP 4).take 23) 1 = some (.map ([(1, 5), (8, 3), (9, 0)].map fun (k, v) => (k, F4 k v))) ∧
    readAfter exEnvP (exHistP 4) 1 = some (.map ([(1, 6), (9, 0)].map fun (k, v) => (k, F4 k v))) := exP4_reads

end IncrVerif.Proofs.PerKeyH
