import IncrVerif.Proofs.BindH82
/-!
# Binds, part 4c-3 (B4): an extension by pristine top-level nodes keeps `F1Inv`, `ObsOK` and the invariant between actions `QInv1`
-/
namespace IncrVerif.Proofs.BindH
open IncrVerif.Engine IncrVerif.Proofs IncrVerif.Proofs.Step IncrVerif.Proofs.Sched IncrVerif.Proofs.Quiet

namespace C2c

/-- templates only read the naming table, and a push keeps the existing entries -/
theorem templOK_push {env : Env} {s s1 : State} {lc : Nat} {t : Template} (ht : ∃ r, s1.top = s.top.push r)
    (h : TemplOK env s lc t) : TemplOK env s1 lc t := by
  obtain ⟨r0, ht⟩ := ht
  have hop : ∀ nloc o, BindH.OpndOK s lc nloc o → BindH.OpndOK s1 lc nloc o := by
    intro nloc o ho
    cases o with
    | outer k =>
      obtain ⟨r, hr, hlt⟩ := ho
      have hk : k < s.top.size := (Array.getElem?_eq_some_iff.1 hr).1
      exact ⟨r, by rw [ht, Array.getElem?_push, if_neg (by omega)]; exact hr, hlt⟩
    | loc j => exact ho
    | abs _ => exact ho.elim
    | slot _ => exact ho.elim
  refine ⟨?_, hop _ _ h.2⟩
  intro j i hj
  have := h.1 j i hj
  cases i <;> first | exact this | exact this.elim | skip
  · exact ⟨this.1, this.2.1, fun a ha => hop _ _ (this.2.2 a ha)⟩
  · exact fun a ha => hop _ _ (this a ha)

namespace Ext
variable {env : Env} {s s1 : State}

theorem f1inv (E : Ext s s1) (Q : QInv1 env s) (H : NewOK env s s1) : F1Inv env s1 := by
  have F := Q.f1
  have A := F.frag
  obtain ⟨r0, ht, hr1, hr2, hr3⟩ := H.top
  refine
    { frag := E.frag Q H
      nodup := ?_, ahh := ⟨by rw [E.ahh]; exact F.ahh.length, by rw [E.ahh]; exact F.ahh.buckets, ?_⟩
      pinv := by rw [E.pinv]; exact F.pinv
      noForce := ?_, noHandlers := ?_, inv := ?_, scopeObs := ?_, lcObs := ?_, lcCut := ?_, topOK := ?_
      closures := ?_, rhsNone := ?_, rhsOK := ?_ }
  · intro c
    by_cases h : c < s.nodes.size
    · rw [E.old c h]; exact F.nodup c
    · rw [(E.new c (by omega)).parents]; exact List.nodup_nil
  · intro m
    by_cases h : m < s.nodes.size
    · rw [E.old m h]; exact F.ahh.marks m
    · exact (E.new m (by omega)).heightInAhh
  · intro m
    by_cases h : m < s.nodes.size
    · rw [E.old m h]; exact F.noForce m
    · exact (E.new m (by omega)).force
  · intro m
    by_cases h : m < s.nodes.size
    · rw [E.old m h]; exact F.noHandlers m
    · exact (E.new m (by omega)).handlers
  · intro m hv
    have hlt := E.lt_of_invalid hv
    rw [E.old m hlt] at hv ⊢
    exact F.inv m hv
  · intro m b hsc
    have hlt := E.lt_of_scope hsc
    rw [E.old m hlt] at hsc ⊢
    exact F.scopeObs m b hsc
  · intro m b hk
    by_cases hlt : m < s.nodes.size
    · rw [E.old m hlt] at hk ⊢
      exact F.lcObs m b hk
    · exact (E.new m (by omega)).observers
  · intro m b hk
    by_cases hlt : m < s.nodes.size
    · rw [E.old m hlt] at hk ⊢
      exact F.lcCut m b hk
    · exact H.lcCut m b (by omega) hk
  · intro k r h
    rw [ht, Array.getElem?_push] at h
    split at h
    · injection h with h
      rw [← h]
      exact ⟨hr2, (E.new r0 hr1).createdIn, hr3⟩
    · obtain ⟨h1, h2, h3⟩ := F.topOK k r h
      have := E.grow
      rw [E.old r h1]
      exact ⟨by omega, h2, h3⟩
  · intro b br v hb
    by_cases h : b < s.binds.size
    · rw [E.bold b h] at hb
      exact templOK_push ⟨r0, ht⟩ (F.closures b br v hb)
    · exact (H.bind b br (by omega) hb).2.2.2 v
  · intro b br hb hr
    by_cases h : b < s.binds.size
    · rw [E.bold b h] at hb
      exact F.rhsNone b br hb hr
    · exact (H.bind b br (by omega) hb).2.1
  · intro b br o hb hr
    by_cases h : b < s.binds.size
    · rw [E.bold b h] at hb
      obtain ⟨h1, h2, -⟩ := A.recs b br hb
      rcases F.rhsOK b br o hb hr with ⟨h3, h4, h5⟩ | ⟨h3, h4⟩
      · rw [E.old o (by omega)]
        exact Or.inl ⟨h3, h4, h5⟩
      · have ho : o < s.nodes.size := by
          by_cases ho : o < s.nodes.size
          · exact ho
          · rw [nodeD_default s o (by omega)] at h3; cases h3
        rw [E.old o ho]
        exact Or.inr ⟨h3, h4⟩
    · have := (H.bind b br (by omega) hb).2.2.1
      rw [this] at hr; cases hr

theorem obsOK (E : Ext s s1) (O : ObsOK s) : ObsOK s1 := by
  unfold ObsOK at O ⊢
  rw [E.newObservers, E.disallowedObservers]
  refine ⟨?_, ?_, ?_, ?_, ?_, ?_, O.disNodup⟩
  · intro o ob h
    rw [E.observers] at h
    have := O.inRange o ob h
    have := E.grow
    exact ⟨by omega, (O.inRange o ob h).2⟩
  · intro n o
    rw [E.observers]
    by_cases e : n < s.nodes.size
    · rw [E.old n e]; exact O.mem n o
    · rw [(E.new n (by omega)).observers]
      constructor
      · intro h; cases h
      · rintro ⟨ob, h1, h2, -⟩
        have := (O.inRange o ob h1).1
        omega
  · rw [E.observers]; exact O.created
  · rw [E.observers]; exact O.newIn
  · rw [E.observers]; exact O.dis
  · rw [E.observers]; exact O.disIn

/-- **creation, pure part.**  An extension by pristine top-level nodes whose new nodes, records and naming-table entry are fine keeps `QInv1`. -/
theorem qinv (E : Ext s s1) (Q : QInv1 env s) (H : NewOK env s s1) : QInv1 env s1 where
  struct := E.struct Q H
  f1 := E.f1inv Q H
  vars := H.vars
  obs := E.obsOK Q.obs
  obsTop o ob h := by
    rw [E.observers] at h
    have hlt := (Q.obs.inRange o ob h).1
    rw [E.old ob.node hlt]
    exact Q.obsTop o ob h
  now := by rw [E.stabNum]; exact Q.now
  stamps m := by
    rw [E.stabNum]
    by_cases e : m < s.nodes.size
    · rw [E.old m e]; exact Q.stamps m
    · have := Q.now
      rw [(E.new m (by omega)).recomputedAt, (E.new m (by omega)).changedAt]
      exact ⟨by omega, by omega⟩
  varStamp c vc h := by
    rw [E.stabNum]
    rcases E.vars with e | ⟨v, ev⟩
    · rw [e] at h; exact Q.varStamp c vc h
    · rw [ev, Array.getElem?_push] at h
      split at h
      · injection h with h
        rw [← h]; exact Int.le_refl _
      · exact Q.varStamp c vc h
  cons m hm hv hs := by
    by_cases e : m < s.nodes.size
    · rw [E.isStale_old Q.struct.frag Q.vars e] at hs
      rw [E.old m e] at hv
      exact E.consistent_old Q.struct.frag e hv (Q.cons m e hv hs)
    · rw [H.stale m (by omega) hm] at hs; cases hs
  status := by rw [E.status]; exact Q.status
  alive := by rw [E.alive]; exact Q.alive
  setDuringStab := by rw [E.setDuringStab]; exact Q.setDuringStab
  deadVars := by rw [E.deadVars]; exact Q.deadVars
  handleAfterStab := by rw [E.handleAfterStab]; exact Q.handleAfterStab

end Ext
end C2c
end IncrVerif.Proofs.BindH
