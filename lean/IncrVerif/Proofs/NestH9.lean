import IncrVerif.Proofs.NestH8
/-!
# Nested binds (F2), linking cascade, part 2: closing a linking node (pure step lemmas for `GInv2`)

Port of `BindH50` (`CL2`).  Hypotheses for the scope height rule: `hsq` (if `n` is a change detector, its scope has no
necessary node) and `hself` (if `n` is a scope node, it is above its scope's change detector).
-/
namespace IncrVerif.Proofs.NestH
open IncrVerif.Engine IncrVerif.Proofs IncrVerif.Proofs.Step IncrVerif.Proofs.Sched IncrVerif.Proofs.Quiet
open IncrVerif.Proofs.BindH

namespace NL
open BL CL

section
variable {env : Env} {rk : Nat → Nat} {s s' : State} {op : Nat → Op} {ex : Nat → Prop} {dy : List Nat}

/-- closing a linking node that is not queued, general form: `s'` is `s` up to the heap and the heap marker of `n`; if
`n` is stale it has been queued (marker = height), otherwise nothing changed for it -/
theorem GInv2.close_link_gen {n k : Nat} (I : GInv2 env rk s op ex dy) (hop : op n = .linking k)
    (hnq : (s.nodeD n).inRch = false)
    (hk : (s.children n).length ≤ k)
    (hh : ∀ (i c : Nat), (s.children n)[i]? = some c → (s.nodeD c).height < (s.nodeD n).height)
    (h0 : 0 ≤ (s.nodeD n).height)
    (hsq : ScopeQuiet s n)
    (hself : ∀ b br, (s.nodeD n).createdIn = .bind b → s.binds[b]? = some br →
      (s.nodeD br.lhsChange).height < (s.nodeD n).height)
    (hpc : s'.panicCountdown = s.panicCountdown) (hsc : s'.currentScope = s.currentScope)
    (hsz : s'.nodes.size = s.nodes.size) (hv : s'.vars = s.vars) (hb : s'.binds = s.binds)
    (hnode : ∀ m, ∃ x, s'.nodeD m = { s.nodeD m with heightInRch := x })
    (hmark : ∀ m, m ≠ n → (s'.nodeD m).heightInRch = (s.nodeD m).heightInRch)
    (hheap : HeapG s')
    (hq : (s.isStale n = false ∧ (s'.nodeD n).heightInRch = (s.nodeD n).heightInRch) ∨
          (s.isStale n = true ∧ (s'.nodeD n).heightInRch = (s.nodeD n).height)) :
    GInv2 env rk s' (upd op n .closed) ex dy := by
  have E : KeyEq s s' := by
    refine ⟨hsz, hb, hv, ?_, ?_, ?_, ?_, ?_, ?_⟩ <;> intro m <;> obtain ⟨x, e⟩ := hnode m <;> rw [e]
  have hpa : ∀ m, (s'.nodeD m).parents = (s.nodeD m).parents := fun m => by
    obtain ⟨x, e⟩ := hnode m; rw [e]
  have hht : ∀ m, (s'.nodeD m).height = (s.nodeD m).height := fun m => by
    obtain ⟨x, e⟩ := hnode m; rw [e]
  have hnec : ∀ m, s'.isNecessary m = s.isNecessary m := fun m => by
    obtain ⟨x, e⟩ := hnode m
    simp only [State.isNecessary, Node.isNecessary, e]
  have hstale : ∀ m, s'.isStale m = s.isStale m := KeyEq2.isStale2 E I.frag
  have hch : ∀ m, s'.children m = s.children m := KeyEq2.children2 E I.frag
  have hinr : ∀ m, m ≠ n → (s'.nodeD m).inRch = (s.nodeD m).inRch := fun m h => by
    simp only [Node.inRch, hmark m h]
  have hnn := I.lnec n k hop
  have hnq' : ¬ (0 ≤ (s.nodeD n).heightInRch) := by
    intro h; simp only [Node.inRch] at hnq; simp [h] at hnq
  have hopn : upd op n .closed n = .closed := upd_self ..
  have hopo : ∀ m, m ≠ n → upd op n .closed m = op m := fun m h => upd_other _ _ _ h
  have hw : ∀ q i c, (s.children q)[i]? = some c →
      (Wants s' (upd op n .closed) q i ↔ Wants s op q i) := by
    intro q i c hkq
    by_cases e : q = n
    · rw [e] at hkq ⊢
      rw [wants_closed hopn, wants_linking hop, hnec, hnn]
      have : i < (s.children n).length := by
        rcases Nat.lt_or_ge i (s.children n).length with h | h
        · exact h
        · rw [List.getElem?_eq_none h] at hkq; cases hkq
      simp; omega
    · unfold Wants; rw [hopo q e, hnec]
  have hnv : (s.nodeD n).valid = true := GInv2.valid_of_open I (by rw [hop]; exact Op.linking_ne_closed _)
  obtain ⟨x1, x2, x3⟩ := GInv2.extras (op' := upd op n .closed) I E
    (fun m => by obtain ⟨x, e⟩ := hnode m; rw [e]) (fun m => by obtain ⟨x, e⟩ := hnode m; rw [e])
    (fun m _ => hpa m) (fun m hv => hinr m (fun e => by rw [e, hnv] at hv; cases hv))
    (fun m _ ho => by
      by_cases e : m = n
      · rw [e]; exact hopn
      · rw [hopo m e]; exact ho)
  refine { frag := KeyEq2.frag2 E I.frag (by rw [hpc]; exact I.frag.pc) (by rw [hsc]; exact I.frag.scope),
           inv := x1, scopeObs := x2, lcObs := x3,
           par := ?_, conv := ?_, nodup := ?_, hlt := ?_, hpos := ?_,
           lnec := ?_, unec := ?_, heap := hheap, hgt := ?_, qnec := ?_, queued := ?_,
           qstale := ?_, opLt := ?_, scopeH := ?_ }
  · intro c q i hm
    rw [hpa] at hm
    obtain ⟨h1, h2⟩ := I.par c q i hm
    rw [hch]; exact ⟨h1, (hw q i c h1).2 h2⟩
  · intro q i c hkq hw'
    rw [hch] at hkq
    rw [hpa]; exact I.conv q i c hkq ((hw q i c hkq).1 hw')
  · intro m; rw [hpa]; exact I.nodup m
  · intro c q i hm ho
    rw [hpa] at hm
    rw [hht, hht]
    by_cases e : q = n
    · rw [e] at hm ⊢; exact hh i c (I.par c n i hm).1
    · rw [hopo q e] at ho; exact I.hlt c q i hm ho
  · intro m hn ho
    rw [hnec] at hn
    rw [hht]
    by_cases e : m = n
    · rw [e]; exact h0
    · rw [hopo m e] at ho; exact I.hpos m hn ho
  · intro q k' ho
    have e : q ≠ n := by intro e; rw [e, hopn] at ho; cases ho
    rw [hopo q e] at ho
    rw [hnec]; exact I.lnec q k' ho
  · intro q k' ho
    have e : q ≠ n := by intro e; rw [e, hopn] at ho; cases ho
    rw [hopo q e] at ho
    rw [hnec]; exact I.unec q k' ho
  · intro m hq' ho
    by_cases e : m = n
    · rw [e] at hq' ⊢
      rcases hq with ⟨-, h2⟩ | ⟨-, h2⟩
      · simp only [Node.inRch, h2] at hq'; exact absurd (by simpa using hq') hnq'
      · rw [h2, hht]
    · rw [hinr m e] at hq'
      rw [hopo m e] at ho
      rw [hmark m e, hht]; exact I.hgt m hq' ho
  · intro m hq'
    rw [hnec]
    by_cases e : m = n
    · rw [e]; exact Or.inl hnn
    · rw [hinr m e] at hq'
      rcases I.qnec m hq' with h | ⟨k', h⟩
      · exact Or.inl h
      · exact Or.inr ⟨k', by rw [hopo m e]; exact h⟩
  · intro m ho hn hs hx
    rw [hnec] at hn
    rw [hstale] at hs
    by_cases e : m = n
    · rw [e] at hs ⊢
      rcases hq with ⟨h1, -⟩ | ⟨-, h2⟩
      · rw [h1] at hs; cases hs
      · simp only [Node.inRch, h2]; simpa using h0
    · rw [hopo m e] at ho
      rw [hinr m e]; exact I.queued m ho hn hs hx
  · intro m hq'
    rw [hstale]
    by_cases e : m = n
    · rw [e] at hq' ⊢
      rcases hq with ⟨-, h2⟩ | ⟨h1, -⟩
      · simp only [Node.inRch, h2] at hq'; exact absurd (by simpa using hq') hnq'
      · exact h1
    · rw [hinr m e] at hq'; exact I.qstale m hq'
  · intro m ho
    have e : m ≠ n := by intro e; rw [e, hopn] at ho; exact ho rfl
    rw [hopo m e] at ho
    rw [hsz]; exact I.opLt m ho
  · intro m b br hv hsc' hb' hn' ho
    rw [E.valid] at hv; rw [E.createdIn] at hsc'; rw [hb] at hb'; rw [hnec] at hn'
    rw [hht, hht]
    by_cases e : m = n
    · rw [e] at hsc' ⊢; exact hself b br hsc' hb'
    · rw [hopo m e] at ho
      have h2 : br.lhsChange ≠ n := by
        intro e'
        rw [hsq m b br hsc' hb' e'] at hn'; cases hn'
      exact I.scopeH m b br hv hsc' hb' hn' ho

/-- closing a linking node that is not stale (and not queued) -/
theorem GInv2.close_link_fresh {n k : Nat} (I : GInv2 env rk s op ex dy) (hop : op n = .linking k)
    (hnq : (s.nodeD n).inRch = false)
    (hk : (s.children n).length ≤ k)
    (hh : ∀ (i c : Nat), (s.children n)[i]? = some c → (s.nodeD c).height < (s.nodeD n).height)
    (h0 : 0 ≤ (s.nodeD n).height)
    (hsq : ScopeQuiet s n)
    (hself : ∀ b br, (s.nodeD n).createdIn = .bind b → s.binds[b]? = some br →
      (s.nodeD br.lhsChange).height < (s.nodeD n).height)
    (hst : s.isStale n = false) :
    GInv2 env rk s (upd op n .closed) ex dy :=
  GInv2.close_link_gen I hop hnq hk hh h0 hsq hself rfl rfl rfl rfl rfl (fun _ => ⟨_, rfl⟩) (fun _ _ => rfl) I.heap
    (Or.inl ⟨hst, rfl⟩)

/-- closing a linking node that is stale (and not queued): it is inserted into the recompute heap -/
theorem GInv2.close_link_stale {n k : Nat} (I : GInv2 env rk s op ex dy) (hop : op n = .linking k)
    (hnq : (s.nodeD n).inRch = false)
    (hk : (s.children n).length ≤ k)
    (hh : ∀ (i c : Nat), (s.children n)[i]? = some c → (s.nodeD c).height < (s.nodeD n).height)
    (h0 : 0 ≤ (s.nodeD n).height)
    (hsq : ScopeQuiet s n)
    (hself : ∀ b br, (s.nodeD n).createdIn = .bind b → s.binds[b]? = some br →
      (s.nodeD br.lhsChange).height < (s.nodeD n).height)
    (hmax : (s.nodeD n).height ≤ s.rch.maxAllowed)
    (hst : s.isStale n = true) :
    GInv2 env rk (inserted n (s.nodeD n).height s) (upd op n .closed) ex dy := by
  have hlt : n < s.nodes.size := I.opLt n (by rw [hop]; exact Op.linking_ne_closed _)
  refine GInv2.close_link_gen I hop hnq hk hh h0 hsq hself rfl rfl (Array.size_modify ..) rfl rfl ?_ ?_
    (I.heap.inserted hlt hnq h0 hmax) (Or.inr ⟨hst, ?_⟩)
  · intro m
    rw [inserted_nodeD]
    split
    · exact ⟨_, rfl⟩
    · exact ⟨_, rfl⟩
  · intro m hm
    rw [inserted_nodeD, if_neg (fun e => hm e.1.symm)]
  · rw [inserted_nodeD, if_pos ⟨rfl, hlt⟩]

end

end NL

end IncrVerif.Proofs.NestH
